/-
  C11 helper lemmas, part 4: the k-nearest visitor (array max-heap of the k best so far) and the
  drain loop.
-/
import OrbProofs.C11Visit
import OrbProofs.C11Heap

namespace Orb.Quadtree
open Orb Orb.Core

set_option linter.unusedSectionVars false

variable {α : Type} [Field α] [LinearOrder α] [IsStrictOrderedRing α]

theorem heapPush_size (h : Heap α) (p : Ptr α) (d : α) : (heapPush h p d).size = h.size + 1 := by
  have := (heapPush_perm h p d).length_eq
  simpa using this

theorem heapPop_size (h : Heap α) (top : Ptr α × α) (ht : h[0]? = some top) :
    (heapPop h).size + 1 = h.size := by
  have := (heapPop_perm h top ht).length_eq
  simpa using this.symm

theorem heap_top_exists (h : Heap α) (hs : 0 < h.size) : ∃ top, h[0]? = some top :=
  ⟨h[0], by simp [hs]⟩

/-! ### the drain loop -/

theorem drain_spec (pt : Pt α) (n : Nat) : ∀ (h : Heap α) (acc : List (Ptr α)), HeapOrd h → h.size = n →
    (∀ e ∈ h.toList, e.2 = distSq e.1.p pt) →
    acc.Pairwise (fun a b => distSq a.p pt ≤ distSq b.p pt) →
    (∀ e ∈ h.toList, ∀ y ∈ acc, e.2 ≤ distSq y.p pt) →
    (drain n h acc).Perm (h.toList.map Prod.fst ++ acc) ∧
    (drain n h acc).Pairwise (fun a b => distSq a.p pt ≤ distSq b.p pt) := by
  induction n with
  | zero =>
    intro h acc _ hs _ hacc _
    have : h.toList = [] := List.eq_nil_of_length_eq_zero (by simpa using hs)
    simp [drain, this, hacc]
  | succ n ih =>
    intro h acc ho hs hent hacc hle
    obtain ⟨top, ht⟩ := heap_top_exists h (by omega)
    have hperm := heapPop_perm h top ht
    have hmax := heapOrd_top_max h ho top ht
    have htop_mem : top ∈ h.toList := hperm.mem_iff.mpr List.mem_cons_self
    have hsub : ∀ e ∈ (heapPop h).toList, e ∈ h.toList :=
      fun e he => hperm.mem_iff.mpr (List.mem_cons_of_mem _ he)
    simp only [drain, ht]
    have key := ih (heapPop h) (top.1 :: acc) (heapPop_ord h ho)
      (by have := heapPop_size h top ht; omega)
      (fun e he => hent e (hsub e he))
      (List.pairwise_cons.mpr ⟨fun y hy => by rw [← hent top htop_mem]; exact hle top htop_mem y hy, hacc⟩)
      (by
        intro e he y hy
        rcases List.mem_cons.mp hy with rfl | hy
        · rw [← hent top htop_mem]; exact hmax e (hsub e he)
        · exact hle e (hsub e he) y hy)
    refine ⟨key.1.trans ?_, key.2⟩
    have h1 : (h.toList.map Prod.fst).Perm (top.1 :: (heapPop h).toList.map Prod.fst) := by
      simpa using hperm.map Prod.fst
    exact (List.perm_middle).trans (List.Perm.append_right acc h1.symm)

/-! ### the nearest visitor -/

/-- the part of the invariant that does not mention the pruning bound: the heap holds at most `k`
    candidates, `D` are the candidates dropped so far, and nothing dropped is closer than anything kept -/
structure NearCore (pt : Pt α) (cand : Ptr α → Bool) (k : Nat) (seen : List (Ptr α)) (h : Heap α)
    (D : List (Ptr α)) : Prop where
  ord : HeapOrd h
  size_le : h.size ≤ k
  ent : ∀ e ∈ h.toList, e.2 = distSq e.1.p pt
  perm : (h.toList.map Prod.fst ++ D).Perm (seen.filter cand)
  le : ∀ e ∈ h.toList, ∀ y ∈ D, e.2 ≤ distSq y.p pt

theorem NearCore.perm_seen {pt : Pt α} {cand : Ptr α → Bool} {k : Nat} {seen seen' : List (Ptr α)} {h : Heap α}
    {D : List (Ptr α)} (hc : NearCore pt cand k seen h D) (hp : seen.Perm seen') : NearCore pt cand k seen' h D :=
  ⟨hc.ord, hc.size_le, hc.ent, hc.perm.trans (hp.filter _), hc.le⟩

/-- a non-candidate changes nothing -/
theorem NearCore.skip_one {pt : Pt α} {cand : Ptr α → Bool} {k : Nat} {seen : List (Ptr α)} {h : Heap α}
    {D : List (Ptr α)} (hc : NearCore pt cand k seen h D) (p : Ptr α) (hp : cand p = false) :
    NearCore pt cand k (p :: seen) h D :=
  ⟨hc.ord, hc.size_le, hc.ent, by rw [List.filter_cons, hp]; exact hc.perm, hc.le⟩

/-- candidates that are no closer than anything kept are dropped -/
theorem NearCore.drop {pt : Pt α} {cand : Ptr α → Bool} {k : Nat} {seen : List (Ptr α)} {h : Heap α}
    {D : List (Ptr α)} (hc : NearCore pt cand k seen h D) (ys : List (Ptr α))
    (hys : ∀ e ∈ h.toList, ∀ y ∈ ys, e.2 ≤ distSq y.p pt) :
    NearCore pt cand k (ys ++ seen) h (ys.filter cand ++ D) := by
  refine ⟨hc.ord, hc.size_le, hc.ent, ?_, ?_⟩
  · rw [List.filter_append]
    exact (List.perm_append_comm_assoc _ _ _).trans (List.Perm.append_left _ hc.perm)
  · intro e he y hy
    rcases List.mem_append.mp hy with hy | hy
    · exact hys e he y (List.mem_filter.mp hy).1
    · exact hc.le e he y hy

/-- pushing a candidate that is no farther than anything dropped, without overflow -/
theorem NearCore.push_fit {pt : Pt α} {cand : Ptr α → Bool} {k : Nat} {seen : List (Ptr α)} {h : Heap α}
    {D : List (Ptr α)} (hc : NearCore pt cand k seen h D) (p : Ptr α) (hp : cand p = true)
    (hd : ∀ y ∈ D, distSq p.p pt ≤ distSq y.p pt) (hfit : (heapPush h p (distSq p.p pt)).size ≤ k) :
    NearCore pt cand k (p :: seen) (heapPush h p (distSq p.p pt)) D := by
  have hperm := heapPush_perm h p (distSq p.p pt)
  refine ⟨heapPush_ord h p _ hc.ord, hfit, ?_, ?_, ?_⟩
  · intro e he
    rcases List.mem_cons.mp (hperm.mem_iff.mp he) with rfl | he
    · rfl
    · exact hc.ent e he
  · rw [List.filter_cons, hp]
    have h1 : ((heapPush h p (distSq p.p pt)).toList.map Prod.fst).Perm (p :: h.toList.map Prod.fst) := by
      simpa using hperm.map Prod.fst
    exact (h1.append_right D).trans (List.Perm.cons p hc.perm)
  · intro e he y hy
    rcases List.mem_cons.mp (hperm.mem_iff.mp he) with rfl | he
    · exact hd y hy
    · exact hc.le e he y hy

/-- pushing a candidate that is no farther than anything dropped, with overflow: the maximum is
    popped and joins the dropped ones -/
theorem NearCore.push_pop {pt : Pt α} {cand : Ptr α → Bool} {k : Nat} {seen : List (Ptr α)} {h : Heap α}
    {D : List (Ptr α)} (hc : NearCore pt cand k seen h D) (p : Ptr α) (hp : cand p = true)
    (hd : ∀ y ∈ D, distSq p.p pt ≤ distSq y.p pt) (hover : (heapPush h p (distSq p.p pt)).size > k) :
    ∃ top1 : Ptr α, NearCore pt cand k (p :: seen) (heapPop (heapPush h p (distSq p.p pt))) (top1 :: D) ∧
      (heapPop (heapPush h p (distSq p.p pt))).size = k := by
  have hsz := heapPush_size h p (distSq p.p pt)
  have hfit := hc.size_le
  -- the un-popped heap, with capacity k+1
  have hc1 : NearCore pt cand (k+1) (p :: seen) (heapPush h p (distSq p.p pt)) D :=
    NearCore.push_fit ⟨hc.ord, by omega, hc.ent, hc.perm, hc.le⟩ p hp hd (by omega)
  generalize heapPush h p (distSq p.p pt) = h1 at *
  obtain ⟨top1, ht⟩ := heap_top_exists h1 (by omega)
  have hperm := heapPop_perm h1 top1 ht
  have hmax := heapOrd_top_max h1 hc1.ord top1 ht
  have hpsz := heapPop_size h1 top1 ht
  have htop_mem : top1 ∈ h1.toList := hperm.mem_iff.mpr List.mem_cons_self
  have hsub : ∀ e ∈ (heapPop h1).toList, e ∈ h1.toList :=
    fun e he => hperm.mem_iff.mpr (List.mem_cons_of_mem _ he)
  refine ⟨top1.1, ⟨heapPop_ord h1 hc1.ord, by omega, fun e he => hc1.ent e (hsub e he), ?_, ?_⟩, by omega⟩
  · have h1p : (h1.toList.map Prod.fst).Perm (top1.1 :: (heapPop h1).toList.map Prod.fst) := by
      simpa using hperm.map Prod.fst
    refine (List.perm_middle).trans ?_
    exact (List.Perm.append_right D h1p.symm).trans hc1.perm
  · intro e he y hy
    rcases List.mem_cons.mp hy with rfl | hy
    · rw [← hc1.ent top1 htop_mem]; exact hmax e (hsub e he)
    · exact hc1.le e (hsub e he) y hy

theorem heap_top_mem (h : Heap α) (top : Ptr α × α) (ht : h[0]? = some top) : top ∈ h.toList :=
  (heapPop_perm h top ht).mem_iff.mpr List.mem_cons_self

/-- state invariant of the nearest visitor after the pointers `seen` have been accounted for:
    until the heap first overflows the limit is the user's and nothing has been dropped; afterwards the
    heap is full and the limit / pruning box are those of its maximum. -/
def NearP (sqrt : α → α) (pt : Pt α) (filter : Ptr α → Bool) (k : Nat) (md : Option α) (B : Bound α)
    (seen : List (Ptr α)) (st : NearSt α) : Prop :=
  ∃ D, NearCore pt (fun x => filter x && within pt md x) k seen st.heap D ∧
    ((st.maxD = md.map (fun m => m * m) ∧ st.bnd = B ∧ D = []) ∨
     (st.heap.size = k ∧ ∃ top, st.heap[0]? = some top ∧ st.maxD = some top.2 ∧
        st.bnd = boxAround pt (sqrt top.2)))

theorem within_model (pt : Pt α) (md : Option α) (p : Ptr α) :
    (match md.map (fun m => m * m) with
      | none => true
      | some m => decide (distSq p.p pt < m)) = within pt md p := by
  cases md <;> rfl

theorem nearestVisitor_visit (sqrt : α → α) (pt : Pt α) (filter : Ptr α → Bool) (k : Nat) (st : NearSt α)
    (v : Ptr α) (path : List Nat) :
    (nearestVisitor sqrt pt filter k).visit st v path =
      if (!filter v) = true then st else
      if (!(match st.maxD with
            | none => true
            | some m => decide (distSq v.p pt < m))) = true then st else
      if (heapPush st.heap v (distSq v.p pt)).size > k then
        match (heapPop (heapPush st.heap v (distSq v.p pt)))[0]? with
        | some top => { heap := heapPop (heapPush st.heap v (distSq v.p pt)),
                        bnd := boxAround pt (sqrt top.2), maxD := some top.2 }
        | none => { st with heap := heapPop (heapPush st.heap v (distSq v.p pt)) }
      else { st with heap := heapPush st.heap v (distSq v.p pt) } := rfl

theorem near_visit_step {sqrt : α → α} (pt : Pt α) (filter : Ptr α → Bool) (k : Nat) (hk : 0 < k)
    (md : Option α) (B : Bound α) (seen : List (Ptr α)) (st : NearSt α) (p : Ptr α) (path : List Nat)
    (hP : NearP sqrt pt filter k md B seen st) :
    NearP sqrt pt filter k md B (p :: seen) ((nearestVisitor sqrt pt filter k).visit st p path) := by
  obtain ⟨D, hc, hph⟩ := hP
  rw [nearestVisitor_visit]
  cases hf : filter p with
  | false =>
    simp only [Bool.not_false, if_true]
    exact ⟨D, hc.skip_one p (by simp [hf]), hph⟩
  | true =>
    simp only [Bool.not_true, Bool.false_eq_true, if_false]
    -- what happens once the candidate is pushed
    have pushed : (fun x => filter x && within pt md x) p = true →
        (∀ y ∈ D, distSq p.p pt ≤ distSq y.p pt) →
        NearP sqrt pt filter k md B (p :: seen)
          (if (heapPush st.heap p (distSq p.p pt)).size > k then
            match (heapPop (heapPush st.heap p (distSq p.p pt)))[0]? with
            | some top => { heap := heapPop (heapPush st.heap p (distSq p.p pt)),
                            bnd := boxAround pt (sqrt top.2), maxD := some top.2 }
            | none => { st with heap := heapPop (heapPush st.heap p (distSq p.p pt)) }
          else { st with heap := heapPush st.heap p (distSq p.p pt) }) := by
      intro hcand hd
      by_cases hover : (heapPush st.heap p (distSq p.p pt)).size > k
      · rw [if_pos hover]
        obtain ⟨top1, hc', hsz'⟩ := hc.push_pop p hcand hd hover
        obtain ⟨top, ht⟩ := heap_top_exists (heapPop (heapPush st.heap p (distSq p.p pt))) (by omega)
        rw [ht]
        exact ⟨top1 :: D, hc', Or.inr ⟨hsz', top, ht, rfl, rfl⟩⟩
      · rw [if_neg hover]
        have hc' := hc.push_fit p hcand hd (by omega)
        rcases hph with ⟨hmd, hb, hD⟩ | ⟨hsz, top, ht, hmd, hb⟩
        · exact ⟨D, hc', Or.inl ⟨hmd, hb, hD⟩⟩
        · exfalso
          have := heapPush_size st.heap p (distSq p.p pt)
          omega
    rcases hph with ⟨hmd, hb, hD⟩ | ⟨hsz, top, ht, hmd, hb⟩
    · rw [hmd] at pushed ⊢
      rw [within_model]
      cases hw : within pt md p with
      | false =>
        simp only [Bool.not_false, if_true]
        exact ⟨D, hc.skip_one p (by simp [hw]), Or.inl ⟨hmd, hb, hD⟩⟩
      | true =>
        simp only [Bool.not_true, Bool.false_eq_true, if_false]
        exact pushed (by simp [hf, hw]) (by subst hD; simp)
    · rw [hmd] at pushed ⊢
      have htm := heap_top_mem st.heap top ht
      have hmax := heapOrd_top_max st.heap hc.ord top ht
      by_cases hlt : distSq p.p pt < top.2
      · simp only [hlt, decide_true, Bool.not_true, Bool.false_eq_true, if_false]
        refine pushed ?_ (fun y hy => hlt.le.trans (hc.le top htm y hy))
        -- the top of the heap is a candidate, hence within the user's limit
        have hmem : top.1 ∈ seen.filter (fun x => filter x && within pt md x) :=
          hc.perm.mem_iff.mp (List.mem_append_left _ (List.mem_map.mpr ⟨top, htm, rfl⟩))
        have hwt : within pt md top.1 = true := by
          have := (List.mem_filter.mp hmem).2
          simp only [Bool.and_eq_true] at this
          exact this.2
        have hw : within pt md p = true := by
          cases md with
          | none => rfl
          | some m =>
            simp only [within, decide_eq_true_eq] at hwt ⊢
            rw [← hc.ent top htm] at hwt
            exact hlt.trans hwt
        simp [hf, hw]
      · simp only [hlt, decide_false, Bool.not_false, if_true]
        refine ⟨[p].filter (fun x => filter x && within pt md x) ++ D, hc.drop [p] ?_, Or.inr ⟨hsz, top, ht, hmd, hb⟩⟩
        intro e he y hy
        rw [List.mem_singleton.mp hy]
        exact (hmax e he).trans (not_lt.mp hlt)

theorem kNearest_visit {sqrt : α → α} (hs : SqrtUp sqrt) (q : QT α) (pt : Pt α) (k : Nat) (hk : 0 < k)
    (f : Ptr α → Bool) (md : Option α) (h : QInv q) :
    NearP sqrt pt f k md q.bound (contents q.root)
      (visit (nearestVisitor sqrt pt f k) q.root (rootCell q.bound) []
        ⟨#[], q.bound, md.map fun m => m * m⟩) := by
  have key := visit_sound (nearestVisitor sqrt pt f k) q.root (NearP sqrt pt f k md q.bound)
    (fun y => inCell (rootCell q.bound) y.p)
    (by
      rintro l l' st hp ⟨D, hc, hph⟩
      exact ⟨D, hc.perm_seen hp, hph⟩)
    (by
      intro seen st p path _ _ hP
      exact near_visit_step pt f k hk md q.bound seen st p path hP)
    (by
      rintro seen st c ys ⟨D, hc, hph⟩ hys hm
      have hbnd : (nearestVisitor sqrt pt f k).bound st = st.bnd := rfl
      rw [hbnd] at hm
      rcases hph with ⟨hmd, hb, hD⟩ | ⟨hsz, top, ht, hmd, hb⟩
      · have : ys = [] := by
          apply List.eq_nil_iff_forall_not_mem.mpr
          intro y hy
          rw [hb] at hm
          exact miss_not_inCell hm (hys y hy).2 (hys y hy).1
        subst this
        exact ⟨D, hc, Or.inl ⟨hmd, hb, hD⟩⟩
      · rw [hb] at hm
        have htm := heap_top_mem st.heap top ht
        have hmax := heapOrd_top_max st.heap hc.ord top ht
        have hent := hc.ent top htm
        refine ⟨ys.filter (fun x => f x && within pt md x) ++ D, hc.drop ys ?_, Or.inr ⟨hsz, top, ht, hmd, hb⟩⟩
        intro e he y hy
        exact (hmax e he).trans
          (prune_far hs pt top.2 (by rw [hent]; exact distSq_nonneg _ _) c y.p hm (hys y hy).2).le)
    q.root (rootCell q.bound) [] ⟨#[], q.bound, md.map fun m => m * m⟩ [] h
    (fun y hy => Inv.mem_inCell h y hy) rfl
    ⟨[], ⟨heapOrd_empty, by simp, by simp, by simp, by simp⟩, Or.inl ⟨rfl, rfl, rfl⟩⟩
  simpa using key

end Orb.Quadtree
