/-
  C05 (MVT share): the decoder never panics and terminates (the loops' fuel suffices) on every
  word list; the capacity requested by its own `make` calls is bounded by the size of the input.
-/
import Orb.MVT

namespace Orb.MVT
open Orb

/-- `int(2*count)`: the product does not wrap in uint32 because `count < 2^29`. -/
theorem two_mul_count_nowrap' (v : W) : (2#32 * (v >>> 3)).toNat = 2 * (v >>> 3).toNat := by
  have h := v.isLt
  rw [BitVec.toNat_mul, BitVec.toNat_ushiftRight, Nat.shiftRight_eq_div_pow]
  simp only [BitVec.toNat_ofNat]
  omega

/-! ### a small Hoare logic for `DM` -/

/-- Outcome predicate: `Q` on success, `E` on error, never a panic. -/
def Post {α : Type} (m : DM α) (Q : α → GD → Prop) (E : GD → Prop) : Prop :=
  match m with
  | (.ok a, s) => Q a s
  | (.err _, s) => E s
  | (.panic _, _) => False

theorem Post.bind {α β : Type} {m : DM α} {f : α → GD → DM β} {Q : α → GD → Prop} {E : GD → Prop}
    {Q' : β → GD → Prop} {E' : GD → Prop}
    (h : Post m Q E) (hf : ∀ a s, Q a s → Post (f a s) Q' E') (hE : ∀ s, E s → E' s) :
    Post (bindD m f) Q' E' := by
  rcases m with ⟨r, s⟩
  cases r with
  | ok a => exact hf a s h
  | err e => exact hE s h
  | panic w => exact h.elim

theorem Post.mono {α : Type} {m : DM α} {Q Q' : α → GD → Prop} {E E' : GD → Prop}
    (h : Post m Q E) (hQ : ∀ a s, Q a s → Q' a s) (hE : ∀ s, E s → E' s) : Post m Q' E' := by
  rcases m with ⟨r, s⟩
  cases r with
  | ok a => exact hQ a s h
  | err e => exact hE s h
  | panic w => exact h.elim

theorem Post.noPanic {α : Type} {m : DM α} {Q : α → GD → Prop} {E : GD → Prop}
    (h : Post m Q E) : m.1.isPanic = false := by
  rcases m with ⟨r, s⟩
  cases r with
  | ok a => rfl
  | err e => rfl
  | panic w => exact h.elim

theorem Post.state {α : Type} {m : DM α} {Q : α → GD → Prop} {E : GD → Prop} {P : GD → Prop}
    (h : Post m Q E) (hQ : ∀ a s, Q a s → P s) (hE : ∀ s, E s → P s) : P m.2 := by
  rcases m with ⟨r, s⟩
  cases r with
  | ok a => exact hQ a s h
  | err e => exact hE s h
  | panic w => exact h.elim

/-- Error post-condition shared by the primitives: nothing allocated, nothing un-read. -/
def Quiet (s s' : GD) : Prop := s'.alloc = s.alloc ∧ s'.ws.length ≤ s.ws.length

theorem cmdAndCount_post (s : GD) :
    Post (cmdAndCount s)
      (fun cc s' => s'.ws.length + 1 = s.ws.length ∧ s'.used = s.used + 1 ∧ s'.count = s.count ∧
        s'.alloc = s.alloc ∧ (cc.1 ≠ cClosePath → s'.used + 2 * cc.2 ≤ s'.count))
      (Quiet s) := by
  unfold cmdAndCount
  rcases h : s.ws with _ | ⟨v, rest⟩
  · simp [Post, Quiet, h]
  · simp only
    split
    · simp [Post, Quiet, h]
    · rename_i hc
      simp only [Post, List.length_cons, true_and]
      intro h7
      rw [two_mul_count_nowrap'] at hc
      simp only [not_and, Nat.not_lt] at hc
      exact hc h7

theorem nextPoint_post (s : GD) :
    Post (nextPoint s)
      (fun _ s' => s'.ws.length + 2 = s.ws.length ∧ s'.used = s.used + 2 ∧ s'.count = s.count ∧
        s'.alloc = s.alloc)
      (Quiet s) := by
  unfold nextPoint
  rcases h : s.ws with _ | ⟨vx, _ | ⟨vy, r2⟩⟩ <;> simp [Post, Quiet, h]

theorem nextPoints_post (n : Nat) (s : GD) :
    Post (nextPoints n s)
      (fun _ s' => s'.ws.length + 2 * n = s.ws.length ∧ s'.used = s.used + 2 * n ∧
        s'.count = s.count ∧ s'.alloc = s.alloc)
      (Quiet s) := by
  induction n generalizing s with
  | zero => simp [nextPoints, Post]
  | succ n ih =>
    unfold nextPoints
    refine (nextPoint_post s).bind ?_ (fun _ h => h)
    intro p s1 h1
    refine (ih s1).bind ?_ ?_
    · intro ps s2 h2
      simp only [Post]
      omega
    · intro s2 h2
      simp only [Quiet] at *
      omega

/-- Iterator accounting: words read + words unread = words of the field. -/
def Inv (s : GD) : Prop := s.used + s.ws.length = s.count

theorem decodeLine_post (s : GD) (hI : Inv s) :
    Post (decodeLine s)
      (fun l s' => l ≠ [] ∧ Inv s' ∧ s'.ws.length < s.ws.length ∧
        s'.alloc + s'.ws.length ≤ s.alloc + s.ws.length)
      (fun s' => s'.alloc ≤ s.alloc + s.ws.length) := by
  unfold decodeLine
  simp only [Inv] at hI
  refine (cmdAndCount_post s).bind ?_ (fun _ h => by simp only [Quiet] at h; omega)
  intro cc s1 h1
  split
  · simp only [Post]; omega
  refine (nextPoint_post s1).bind ?_ (fun _ h => by simp only [Quiet] at h; omega)
  intro first s2 h2
  refine (cmdAndCount_post s2).bind ?_ (fun _ h => by simp only [Quiet] at h; omega)
  intro cc2 s3 h3
  split
  · simp only [Post]; omega
  rename_i hL
  have hL' : cc2.1 = cLineTo := by simpa using hL
  have h7 : cc2.1 ≠ cClosePath := by rw [hL']; decide
  have hg := h3.2.2.2.2 h7
  refine (nextPoints_post cc2.2 _).bind ?_ (fun _ h => by simp only [Quiet] at h; omega)
  intro ps s4 h4
  simp only [Post, Inv] at *
  refine ⟨by simp, ?_, ?_, ?_⟩ <;> omega

/-- Final post-condition of the geometry decoders (success and error alike). -/
def Bnd (s s' : GD) : Prop := s'.alloc ≤ s.alloc + s.ws.length

theorem done_iff (s : GD) : s.done = true ↔ s.ws.length = 0 := by
  cases h : s.ws <;> simp [GD.done, h]

theorem lsLoop_post (f : Nat) (mls : List (List (Pt Int))) (s : GD)
    (hf : s.ws.length ≤ f) (hI : Inv s) :
    Post (lsLoop f mls s) (fun _ => Bnd s) (Bnd s) := by
  induction f generalizing mls s with
  | zero =>
    have hd : s.done = true := (done_iff s).2 (by omega)
    simp [lsLoop, hd, Post, Bnd]
  | succ f ih =>
    unfold lsLoop
    split
    · simp [Post, Bnd]
    refine (decodeLine_post s hI).bind ?_ (fun _ h => h)
    intro ls s1 h1
    split
    · simp only [Post, Bnd]; omega
    · refine (ih _ s1 (by omega) h1.2.1).mono ?_ ?_ <;>
        (intros; simp only [Bnd] at *; omega)

theorem pgLoop_post (ori : List (Pt Int) → Int) (f : Nat) (mp : List (List (List (Pt Int))))
    (p : List (List (Pt Int))) (s : GD) (hf : s.ws.length ≤ f) (hI : Inv s) :
    Post (pgLoop ori f mp p s) (fun _ => Bnd s) (Bnd s) := by
  induction f generalizing mp p s with
  | zero =>
    have hd : s.done = true := (done_iff s).2 (by omega)
    simp only [pgLoop, hd, if_true]
    split <;> simp [Post, Bnd]
  | succ f ih =>
    unfold pgLoop
    split
    · split <;> simp [Post, Bnd]
    refine (decodeLine_post s hI).bind ?_ (fun _ h => h)
    intro ls s1 h1
    refine (cmdAndCount_post s1).bind ?_ (fun _ h => by simp only [Quiet, Bnd] at *; omega)
    intro cc s2 h2
    have hI2 : Inv s2 := by have := h1.2.1; simp only [Inv] at *; omega
    have hmono : ∀ {α : Type} {m : DM α}, Post m (fun _ => Bnd s2) (Bnd s2) →
        Post m (fun _ => Bnd s) (Bnd s) := by
      intro α m hm
      refine hm.mono ?_ ?_ <;> (intros; simp only [Bnd] at *; omega)
    cases ls with
    | nil => exact absurd rfl h1.1
    | cons h t =>
      simp only
      repeat' split
      all_goals exact hmono (ih _ _ s2 (by omega) hI2)

theorem decodePoint_post (s : GD) (hI : Inv s) :
    Post (decodePoint s) (fun _ => Bnd s) (Bnd s) := by
  unfold decodePoint
  simp only [Inv] at hI
  refine (cmdAndCount_post s).bind ?_ (fun _ h => by simp only [Quiet, Bnd] at *; omega)
  intro cc s1 h1
  split
  · simp only [Post, Bnd]; omega
  rename_i hM
  have hM' : cc.1 = cMoveTo := by simpa using hM
  have h7 : cc.1 ≠ cClosePath := by rw [hM']; decide
  have hg := h1.2.2.2.2 h7
  split
  · refine (nextPoint_post s1).bind ?_ (fun _ h => by simp only [Quiet, Bnd] at *; omega)
    intro q s2 h2
    simp only [Post, Bnd]; omega
  · refine (nextPoints_post cc.2 _).bind ?_ (fun _ h => by simp only [Quiet, Bnd] at *; omega)
    intro ps s2 h2
    simp only [Post, Bnd] at *; omega

theorem decodeGeometryIter_post (ori : List (Pt Int) → Int) (gt : Int) (ws : List W) (a : Nat) :
    Post (decodeGeometryIter ori gt ws a) (fun _ s' => s'.alloc ≤ a + ws.length)
      (fun s' => s'.alloc ≤ a + ws.length) := by
  unfold decodeGeometryIter
  have hI : Inv { ws := ws, count := ws.length, used := 0, prev := ⟨0, 0⟩, alloc := a } := by
    simp [Inv]
  simp only
  split
  · simp [Post]
  split
  · exact decodePoint_post _ hI
  split
  · exact lsLoop_post _ _ _ (Nat.le_refl _) hI
  split
  · exact pgLoop_post _ _ _ _ _ (Nat.le_refl _) hI
  · simp [Post]

/-- No panic (in particular: the loops' fuel suffices), whatever the type, the words, the
    orientation function and the starting value of the counter. -/
theorem geometry_total_iter' (ori : List (Pt Int) → Int) (gt : Int) (ws : List W) (a : Nat) :
    (decodeGeometryIter ori gt ws a).1.isPanic = false :=
  (decodeGeometryIter_post ori gt ws a).noPanic

theorem geometry_total' (gt : Int) (ws : List W) : (decodeGeometry gt ws).isPanic = false :=
  geometry_total_iter' oriInt gt ws 0

/-- Capacity requested by `make(orb.MultiPoint, 0, count)` / `make(orb.LineString, 0, count+1)`
    is bounded by the number of words of the field, for every type and every word list. -/
theorem geometry_alloc_bound_iter' (ori : List (Pt Int) → Int) (gt : Int) (ws : List W) (a : Nat) :
    (decodeGeometryIter ori gt ws a).2.alloc ≤ a + ws.length :=
  (decodeGeometryIter_post ori gt ws a).state (fun _ _ h => h) (fun _ h => h)

theorem geometry_alloc_bound' (gt : Int) (ws : List W) : geometryAlloc gt ws ≤ ws.length := by
  have := geometry_alloc_bound_iter' oriInt gt ws 0
  simpa [geometryAlloc] using this

/-! ### Unmarshal -/

theorem decodeTags_noPanic (keys : List String) (vals : List DVal) (ws : List W)
    (m : List (String × DVal)) : (decodeTags keys vals ws m).isPanic = false := by
  fun_induction decodeTags keys vals ws m <;> simp_all [Res.isPanic]

theorem decodeFeature_spec (ori : List (Pt Int) → Int) (keys : List String) (vals : List DVal)
    (a : Nat) (f : VTFeature) :
    (decodeFeature ori keys vals a f).1.isPanic = false ∧
      (decodeFeature ori keys vals a f).2 ≤ a + (f.tags.length + f.geometry.length) := by
  unfold decodeFeature
  have ht := decodeTags_noPanic keys vals f.tags []
  split
  · simp [Res.isPanic]
  · rename_i w hw
    rw [hw] at ht; simp [Res.isPanic] at ht
  · split
    · simp [Res.isPanic]
    · have h1 := geometry_total_iter' ori f.gtype f.geometry a
      have h2 := geometry_alloc_bound_iter' ori f.gtype f.geometry a
      split <;> rename_i heq <;> rw [heq] at h1 h2 <;> simp [Res.isPanic] at h1 h2 ⊢ <;> omega

theorem decodeFeatures_spec (ori : List (Pt Int) → Int) (keys : List String) (vals : List DVal)
    (a : Nat) (fs : List VTFeature) :
    (decodeFeatures ori keys vals a fs).1.isPanic = false ∧
      (decodeFeatures ori keys vals a fs).2 ≤
        a + (fs.map fun f => f.tags.length + f.geometry.length).sum := by
  induction fs generalizing a with
  | nil => simp [decodeFeatures, Res.isPanic]
  | cons f fs ih =>
    unfold decodeFeatures
    have h1 := decodeFeature_spec ori keys vals a f
    split <;> rename_i heq <;> rw [heq] at h1 <;> simp only [Res.isPanic] at h1
    · rename_i x a1
      have h2 := ih a1
      split <;> rename_i heq2 <;> rw [heq2] at h2 <;>
        simp [Res.isPanic, List.map_cons, List.sum_cons] at h2 ⊢ <;> omega
    · simp [Res.isPanic, List.map_cons, List.sum_cons] at h1 ⊢; omega
    · simp at h1

def layerSize (l : VTLayer) : Nat :=
  l.features.length + (l.features.map fun f => f.tags.length + f.geometry.length).sum

theorem decodeLayer_spec (ori : List (Pt Int) → Int) (a : Nat) (l : VTLayer) :
    (decodeLayer ori a l).1.isPanic = false ∧ (decodeLayer ori a l).2 ≤ a + layerSize l := by
  unfold decodeLayer
  have h := decodeFeatures_spec ori l.keys (l.values.map decodeTVal) (a + l.features.length)
    l.features
  split <;> rename_i heq <;> rw [heq] at h <;> simp [Res.isPanic, layerSize] at h ⊢ <;> omega

theorem decodeLayers_spec (ori : List (Pt Int) → Int) (a : Nat) (t : List VTLayer) :
    (decodeLayers ori a t).1.isPanic = false ∧
      (decodeLayers ori a t).2 ≤ a + (t.map layerSize).sum := by
  induction t generalizing a with
  | nil => simp [decodeLayers, Res.isPanic]
  | cons l ls ih =>
    unfold decodeLayers
    have h1 := decodeLayer_spec ori a l
    split <;> rename_i heq <;> rw [heq] at h1 <;> simp only [Res.isPanic] at h1
    · rename_i x a1
      have h2 := ih a1
      split <;> rename_i heq2 <;> rw [heq2] at h2 <;>
        simp [Res.isPanic, List.map_cons, List.sum_cons] at h2 ⊢ <;> omega
    · simp [Res.isPanic, List.map_cons, List.sum_cons] at h1 ⊢; omega
    · simp at h1

/-- `unmarshalTile` never panics on any tile structure. -/
theorem unmarshal_total' (t : VTTile) : (unmarshalVT t).isPanic = false :=
  (decodeLayers_spec oriInt 0 t).1

/-- … and requests at most one slot per feature plus one per command word. -/
theorem unmarshal_alloc_bound' (t : VTTile) : unmarshalAlloc t ≤ vtSize t := by
  have h := (decodeLayers_spec oriInt 0 t).2
  have hs : (t.map layerSize).sum = vtSize t := rfl
  rw [hs, Nat.zero_add] at h
  exact h

/-- The same for the decoder run with any orientation function (Go: the float64 shoelace). -/
theorem unmarshal_total_ori' (ori : List (Pt Int) → Int) (t : VTTile) :
    (unmarshalVTWith ori t).1.isPanic = false ∧ (unmarshalVTWith ori t).2 ≤ vtSize t := by
  have h := decodeLayers_spec ori 0 t
  have hs : (t.map layerSize).sum = vtSize t := rfl
  rw [hs, Nat.zero_add] at h
  exact h

/-- The gzip magic test never indexes out of range: `Unmarshal` panics only if `unmarshalTile` does. -/
theorem unmarshal_top_total' {α : Type} (data : List UInt8) (r : R α) (h : r.isPanic = false) :
    (unmarshalTop data r).isPanic = false := by
  unfold unmarshalTop
  cases r with
  | ok a => simpa using h
  | err e => simp only; split <;> rfl
  | panic w => simp [Res.isPanic] at h

end Orb.MVT
