/-
  C08 — REGION EQUALITY for Sutherland–Hodgman ring clipping (`Orb.Clip.ring`, clip/clip.go `ring`)
  against the exact even-odd specification `Orb.EvenOdd` (the spec C09 refines to).
  Exact arithmetic over a linearly ordered field.

  WHAT IS PROVED (everything in this file and in C08RegionGeom / C08RegionPass is fully proved;
  `#print axioms` of every theorem = propext, Classical.choice, Quot.sound)

  (1) `pass_region` — ONE half-plane pass `ringPass box e true` (e = 1 left, 2 right, 4 bottom, 8 top)
      over an implicitly closed vertex cycle keeps, for EVERY point `q` strictly on the kept side of
      the clip line (`KeptSide box e q`):
        * the parity of the number of edges crossed by the spec's upward ray (`crossings … % 2`),
        * the flag "q is on the boundary" (`onBoundary`),
      hence `EvenOdd.inside`.  No general-position hypothesis on `q` is needed (q may be level with
      vertices, on the ring, anywhere), and no change of ray direction: see C08RegionPass.lean for the
      telescoping argument.  (Passes 2 and 8 use `BoxOK box`, because the model's "inside" test for the
      right/top edge reads the code word, which reports "left"/"bottom" first.)

  (2) `sh_region_strong` — the four passes plus the final re-closing: for a box with `BoxOK`, a closed
      input ring (`ClosedRing inp`, first vertex repeated at the end — the case in which Go's `ring`
      treats the vertex list as a cycle), `ring box inp = some out` and EVERY `q` in the open box:
        `crossings out q % 2 = crossings inp q % 2`, `onBoundary out q = onBoundary inp q`,
        `inside out q = inside inp q`.
      `sh_region` — the statement kept as `sh_region_full` in OrbProofs/C08.lean, instantiated with the
      closed even-odd region `fun r q => EvenOdd.inside r q = true`; its hypothesis "q is on no segment
      of the input" is not even needed.
      `sh_region_crossings` — `sh_region_full` for the pure crossing-parity predicate
      `fun r q => crossings r q % 2 = 1` ("inside without boundary").
      `sh_region_offchain` — under the hypotheses of `sh_region_full` the point is on neither ring's
      boundary (`onBoundary inp q = false`, `onBoundary out q = false`: the bridge from the parametric
      `OnSeg` of the clipping proofs to the spec's `onSeg`), so `inside` IS the crossing parity on both sides.

  (3) `sh_area_additive` IS PROVED, in OrbProofs/C08RegionArea.lean (it imports this file):
      `sh_area_additive_x` / `sh_area_additive_y` / `sh_area_additive` — for `BoxOK box`, a closed input
      ring and a split line strictly inside the box, `area2 (clip box) = area2 (clip lower half) +
      area2 (clip upper half)`, `area2` = twice the signed shoelace area of the implicitly closed ring.
      By-product `ring_area2` (C08RegionAreaRing.lean): `area2 out = Σ_{input edges} G box a b`, an explicit
      per-edge formula for the clipped area.

  FILES: C08RegionGeom (split lemmas, `onSeg` = `OnSeg`) → C08RegionPass (one pass, parity/boundary)
  → C08Region (this file) → C08RegionAreaPass / C08RegionAreaRing / C08RegionAreaSplit → C08RegionArea.

  OUT OF SCOPE: an OPEN input (first ≠ last vertex) — `sh_region_full` asks for `ClosedRing`; Go's `ring`
  then runs its passes with `prev = first vertex` and does not clip the implicitly closed polygon.
-/
import OrbProofs.C08RegionPass

namespace Orb.Clip.C08R
open Orb Orb.EvenOdd Orb.Contains Orb.Clip Orb.Clip.C08
open Orb.Core hiding chain

set_option linter.unusedSectionVars false
set_option linter.unusedSimpArgs false
set_option linter.unusedVariables false

variable {α : Type} [Field α] [LinearOrder α] [IsStrictOrderedRing α]

/-! ### (1) one pass -/

/-- `q` is strictly on the kept side of the clip line of edge code `e` -/
def KeptSide (box : Bound α) (e : Nat) (q : Pt α) : Prop :=
  (e = 1 → box.lo.x < q.x) ∧ (e = 2 → q.x < box.hi.x) ∧ (e = 4 → box.lo.y < q.y) ∧ (e = 8 → q.y < box.hi.y)

theorem parity_of_crE {n m : Nat} (h : (n % 2 == 1) = (m % 2 == 1)) : n % 2 = m % 2 := by
  rcases Nat.mod_two_eq_zero_or_one n with h1 | h1 <;> rcases Nat.mod_two_eq_zero_or_one m with h2 | h2 <;>
    simp_all

/-- what `pass_region` delivers -/
def SameRegion (out inp : List (Pt α)) (q : Pt α) : Prop :=
  crossings out q % 2 = crossings inp q % 2 ∧ onBoundary out q = onBoundary inp q

theorem SameRegion.inside {out inp : List (Pt α)} {q : Pt α} (h : SameRegion out inp q) :
    EvenOdd.inside out q = EvenOdd.inside inp q := by
  unfold EvenOdd.inside; rw [h.1, h.2]

theorem SameRegion.refl (l : List (Pt α)) (q : Pt α) : SameRegion l l q := ⟨rfl, rfl⟩

theorem SameRegion.trans {a b c : List (Pt α)} {q : Pt α} (h1 : SameRegion a b q) (h2 : SameRegion b c q) :
    SameRegion a c q := ⟨h1.1.trans h2.1, h1.2.trans h2.2⟩

theorem pass_generic (box : Bound α) (e : Nat) (ix : Pt α → Pt α → Pt α)
    (hix : ∀ a b, intersect box e a b = some (ix a b)) (R : Pt α → Prop) (g : Pt α → Bool) (q : Pt α)
    (H : RegHyp (fun p => (bitCode box p &&& e) == 0) ix R g q) (inp out : List (Pt α))
    (h : ringPass box e true inp = some out) : SameRegion out inp q := by
  cases inp with
  | nil =>
    have : out = [] := by simpa [ringPass] using h.symm
    subst this; exact SameRegion.refl _ _
  | cons f t =>
    rw [ringPass_eq box e ix hix true f t] at h
    simp only [if_true, getLast?_getD_eq, Option.some.injEq] at h
    subst h
    obtain ⟨h1, h2⟩ := pass_cyc H f t
    exact ⟨parity_of_crE h1, h2⟩

/-- (1) ONE PASS PRESERVES THE EVEN-ODD REGION on the open kept half-plane: crossing parity and
    boundary flag at every `q` strictly on the kept side of edge `e`. -/
theorem pass_region (box : Bound α) (hb : BoxOK box) (e : Nat) (he : e = 1 ∨ e = 2 ∨ e = 4 ∨ e = 8)
    (inp out : List (Pt α)) (q : Pt α) (h : ringPass box e true inp = some out) (hq : KeptSide box e q) :
    crossings out q % 2 = crossings inp q % 2 ∧ onBoundary out q = onBoundary inp q := by
  rcases he with rfl | rfl | rfl | rfl
  · exact pass_generic box 1 _ (intersect_1 box) _ _ q (regHyp_1 box q (hq.1 rfl)) inp out h
  · exact pass_generic box 2 _ (intersect_2 box) _ _ q (regHyp_2 box hb q (hq.2.1 rfl)) inp out h
  · exact pass_generic box 4 _ (intersect_4 box) _ _ q (regHyp_4 box q (hq.2.2.1 rfl)) inp out h
  · exact pass_generic box 8 _ (intersect_8 box) _ _ q (regHyp_8 box hb q (hq.2.2.2 rfl)) inp out h

theorem pass_region_inside (box : Bound α) (hb : BoxOK box) (e : Nat) (he : e = 1 ∨ e = 2 ∨ e = 4 ∨ e = 8)
    (inp out : List (Pt α)) (q : Pt α) (h : ringPass box e true inp = some out) (hq : KeptSide box e q) :
    EvenOdd.inside out q = EvenOdd.inside inp q :=
  SameRegion.inside (pass_region box hb e he inp out q h hq)

/-! ### (2) the four passes and the re-closing -/

theorem rpass_region (box : Bound α) (hb : BoxOK box) (e : Nat) (he : e = 1 ∨ e = 2 ∨ e = 4 ∨ e = 8)
    (l l' : List (Pt α)) (q : Pt α) (h : rpass box true e (some l) = some l') (hq : KeptSide box e q) :
    SameRegion l' l q := by
  cases l with
  | nil =>
    have : l' = [] := by simpa [rpass] using h.symm
    subst this; exact SameRegion.refl _ _
  | cons f t => exact pass_region box hb e he (f :: t) l' q h hq

theorem lastD'_snoc (w : Pt α) (l : List (Pt α)) (v : Pt α) : lastD' w (l ++ [v]) = v := by
  induction l generalizing w with
  | nil => rfl
  | cons b l ih => exact ih b

/-- explicitly closing a cycle adds one zero-length edge: nothing changes -/
theorem close_region (v : Pt α) (t : List (Pt α)) (q : Pt α) : SameRegion (v :: t ++ [v]) (v :: t) q := by
  have h1 : edges (v :: t ++ [v]) = (v, v) :: chain (v :: t ++ [v]) := by
    rw [List.cons_append, edges_cons, lastD'_snoc]
  have h2 : chain (v :: t ++ [v]) = chain (v :: t) ++ [(lastD' v t, v)] := chain_snoc v t v
  constructor
  · apply parity_of_crE
    rw [crossings_parity, crossings_parity, h1, crE_cons, crossesAbove_self, h2, edges_cons]
    unfold crE
    rw [List.countP_append, List.countP_cons, List.countP_cons, List.countP_nil, Nat.zero_add,
      Nat.add_comm, Bool.false_bne]
  · rw [onBoundary_eq, onBoundary_eq, h1, onE_cons, h2, edges_cons]
    unfold onE
    rw [List.any_append, List.any_cons, List.any_cons, List.any_nil, Bool.or_false]
    cases ho : onSeg v v q with
    | false => rw [Bool.false_or, Bool.or_comm]
    | true =>
      have := onSeg_self v q ho
      subst this
      rw [onSeg_self_right]; simp

theorem rclose_region (l out : List (Pt α)) (q : Pt α) (h : rclose true (some l) = some out) :
    SameRegion out l q := by
  cases l with
  | nil =>
    have : out = [] := by simpa [rclose] using h.symm
    subst this; exact SameRegion.refl _ _
  | cons f t =>
    simp only [rclose, if_true] at h
    cases hl : (f :: t).getLast? with
    | none => simp at hl
    | some l' =>
      rw [hl] at h
      simp only [] at h
      split_ifs at h with hq
      · cases h; exact SameRegion.refl _ _
      · cases h; exact close_region f t q

/-- (2) SUTHERLAND–HODGMAN PRESERVES THE EVEN-ODD REGION INSIDE THE BOX, strong form: crossing parity,
    boundary flag and `inside` agree at EVERY point of the open box. -/
theorem sh_region_strong (box : Bound α) (inp out : List (Pt α)) (q : Pt α) (hb : BoxOK box)
    (hc : ClosedRing inp) (h : ring box inp = some out) (hq : InOpenBox box q) :
    crossings out q % 2 = crossings inp q % 2 ∧ onBoundary out q = onBoundary inp q ∧
      EvenOdd.inside out q = EvenOdd.inside inp q := by
  obtain ⟨hn, hhl⟩ := hc
  cases inp with
  | nil => exact absurd rfl hn
  | cons f t =>
    rw [ring_cons_eq] at h
    have hic : ptEqB f ((f :: t).getLast?.getD f) = true := by
      rw [ptEqB_iff, ← hhl]; rfl
    rw [hic] at h
    have k1 : KeptSide box 1 q := ⟨fun _ => hq.1, fun h => absurd h (by decide), fun h => absurd h (by decide), fun h => absurd h (by decide)⟩
    have k2 : KeptSide box 2 q := ⟨fun h => absurd h (by decide), fun _ => hq.2.1, fun h => absurd h (by decide), fun h => absurd h (by decide)⟩
    have k4 : KeptSide box 4 q := ⟨fun h => absurd h (by decide), fun h => absurd h (by decide), fun _ => hq.2.2.1, fun h => absurd h (by decide)⟩
    have k8 : KeptSide box 8 q := ⟨fun h => absurd h (by decide), fun h => absurd h (by decide), fun h => absurd h (by decide), fun _ => hq.2.2.2⟩
    obtain ⟨l1, e1, -⟩ := rpass_conv (edge1 box) conv_true true (f :: t) (fun _ _ => trivial) (fun _ _ => trivial)
    have r1 := rpass_region box hb 1 (Or.inl rfl) _ _ q e1 k1
    cases e2 : rpass box true 2 (some l1) with
    | none => rw [e1, e2] at h; simp [rpass, rclose] at h
    | some l2 =>
      have r2 := rpass_region box hb 2 (Or.inr (Or.inl rfl)) _ _ q e2 k2
      cases e3 : rpass box true 4 (some l2) with
      | none => rw [e1, e2, e3] at h; simp [rpass, rclose] at h
      | some l3 =>
        have r3 := rpass_region box hb 4 (Or.inr (Or.inr (Or.inl rfl))) _ _ q e3 k4
        cases e4 : rpass box true 8 (some l3) with
        | none => rw [e1, e2, e3, e4] at h; simp [rpass, rclose] at h
        | some l4 =>
          have r4 := rpass_region box hb 8 (Or.inr (Or.inr (Or.inr rfl))) _ _ q e4 k8
          rw [e1, e2, e3, e4] at h
          have r5 := rclose_region l4 out q h
          have R := r5.trans (r4.trans (r3.trans (r2.trans r1)))
          exact ⟨R.1, R.2, R.inside⟩

/-- (2) the statement of OrbProofs/C08.lean (`sh_region_full`) for the closed even-odd region of
    `Orb.EvenOdd` (boundary or odd crossing number). -/
theorem sh_region : sh_region_full (α := α) (fun r q => EvenOdd.inside r q = true) := by
  intro box inp out q hb hc h hq _
  show EvenOdd.inside out q = true ↔ EvenOdd.inside inp q = true
  rw [(sh_region_strong box inp out q hb hc h hq).2.2]

/-- (2) `sh_region_full` for the pure crossing-parity predicate ("inside without boundary"). -/
theorem sh_region_crossings : sh_region_full (α := α) (fun r q => crossings r q % 2 = 1) := by
  intro box inp out q hb hc h hq _
  show crossings out q % 2 = 1 ↔ crossings inp q % 2 = 1
  rw [(sh_region_strong box inp out q hb hc h hq).1]

/-! ### off the chain: `inside` is the crossing parity on both sides -/

theorem onE_false_of_segs (E : List (Pt α × Pt α)) (q : Pt α) (h : ∀ s ∈ E, ¬ OnSeg s.1 s.2 q) : onE E q = false := by
  unfold onE
  rw [List.any_eq_false]
  intro s hs ho
  exact h s hs (OnSeg_of_onSeg ho)

theorem segsOf_eq_chain (l : List (Pt α)) : segsOf l = chain l := by
  induction l with
  | nil => rfl
  | cons a l ih =>
    cases l with
    | nil => rfl
    | cons b t => rw [segsOf_cons_cons, chain_cons_cons, ih]

/-- a point on no segment of an explicitly closed ring is not on the spec's boundary of that ring
    (the only ring with no segment at all is a single vertex `[v]`; the hypothesis then says nothing,
    and `q = v` is on the boundary: hence the side condition `2 ≤ length`) -/
theorem offchain_onBoundary (inp : List (Pt α)) (q : Pt α) (hc : ClosedRing inp) (h2 : 2 ≤ inp.length)
    (h : ∀ a b, (a, b) ∈ segsOf inp → ¬ OnSeg a b q) : onBoundary inp q = false := by
  obtain ⟨hn, hhl⟩ := hc
  match inp, h2 with
  | f :: b :: t, _ =>
    have hz : lastD' f (b :: t) = f := by
      rw [← getLast?_getD_eq, ← hhl]; rfl
    rw [onBoundary_eq, edges_cons, hz, onE_cons]
    have h0 : onE (chain (f :: b :: t)) q = false := by
      apply onE_false_of_segs
      rintro ⟨a, c⟩ hs
      exact h a c (by rw [segsOf_eq_chain]; exact hs)
    rw [h0, Bool.or_false, ← Bool.not_eq_true]
    intro ho
    have := onSeg_self f q ho
    subst this
    exact h q b (by simp [segsOf]) (onSeg_left q b)

/-- (2) under exactly the hypotheses of `sh_region_full`, with at least one segment in the input: `q` is
    on neither boundary and the crossing parities agree — `inside` is the crossing parity on both sides. -/
theorem sh_region_offchain (box : Bound α) (inp out : List (Pt α)) (q : Pt α) (hb : BoxOK box)
    (hc : ClosedRing inp) (h2 : 2 ≤ inp.length) (h : ring box inp = some out) (hq : InOpenBox box q)
    (hoff : ∀ a b, (a, b) ∈ segsOf inp → ¬ OnSeg a b q) :
    onBoundary inp q = false ∧ onBoundary out q = false ∧ crossings out q % 2 = crossings inp q % 2 ∧
      EvenOdd.inside inp q = (crossings inp q % 2 == 1) ∧ EvenOdd.inside out q = (crossings out q % 2 == 1) := by
  obtain ⟨h1, h2', -⟩ := sh_region_strong box inp out q hb hc h hq
  have hi := offchain_onBoundary inp q hc h2 hoff
  have ho : onBoundary out q = false := h2'.trans hi
  refine ⟨hi, ho, h1, ?_, ?_⟩
  · unfold EvenOdd.inside; rw [hi, Bool.false_or]
  · unfold EvenOdd.inside; rw [ho, Bool.false_or]

/-- no segment of the clipped ring passes through a point of the open box that is off the input ring
    (parametric `OnSeg` form, for the clients of the clipping vocabulary) -/
theorem sh_out_offchain (box : Bound α) (inp out : List (Pt α)) (q : Pt α) (hb : BoxOK box)
    (hc : ClosedRing inp) (h2 : 2 ≤ inp.length) (h : ring box inp = some out) (hq : InOpenBox box q)
    (hoff : ∀ a b, (a, b) ∈ segsOf inp → ¬ OnSeg a b q) :
    ∀ a b, (a, b) ∈ segsOf out → ¬ OnSeg a b q := by
  intro a b hab hs
  have ho := (sh_region_offchain box inp out q hb hc h2 h hq hoff).2.1
  rw [onBoundary_eq] at ho
  unfold onE at ho
  rw [List.any_eq_false] at ho
  cases out with
  | nil => simp [segsOf] at hab
  | cons v t =>
    refine ho (a, b) ?_ (onSeg_of_OnSeg hs)
    rw [edges_cons]
    exact List.mem_cons_of_mem _ (by rw [← segsOf_eq_chain]; exact hab)

/-! ### non-vacuity: the concrete cut of `ring_witness` (ℚ) -/

example : EvenOdd.inside ([⟨1, 1⟩, ⟨2, 1⟩, ⟨2, 2⟩, ⟨1, 2⟩, ⟨1, 1⟩] : List (Pt ℚ)) ⟨3/2, 3/2⟩ =
    EvenOdd.inside ([⟨1, 1⟩, ⟨3, 1⟩, ⟨3, 3⟩, ⟨1, 3⟩, ⟨1, 1⟩] : List (Pt ℚ)) ⟨3/2, 3/2⟩ :=
  (sh_region_strong (⟨⟨0, 0⟩, ⟨2, 2⟩⟩ : Bound ℚ) _ _ ⟨3/2, 3/2⟩ (by constructor <;> norm_num)
    ⟨by simp, rfl⟩ ring_witness (by refine ⟨?_, ?_, ?_, ?_⟩ <;> norm_num)).2.2

end Orb.Clip.C08R
