/-
  C05 helper lemmas, stream path primitives: no panic, and "bytes consumed" accounting.
-/
import OrbProofs.C01Lemmas

namespace Orb.WKB
open Orb Generated.Params

theorem np_absurd {ε α : Type} {r : Res ε α} {m : String} (h : r = .panic m) (hn : r.isPanic = false) :
    False := by
  subst h; simp [Res.isPanic] at hn

/-! ### readFull / readU32 / readBOT / readPoint -/

theorem readFull_np (n : Nat) (s : Bytes) : (readFull n s).isPanic = false := by
  unfold readFull
  split
  · rfl
  · split <;> rfl

theorem readFull_len {n : Nat} {s b r : Bytes} (h : readFull n s = .ok (b, r)) :
    r.length + n = s.length := by
  unfold readFull at h
  split at h
  · contradiction
  · split at h
    · contradiction
    · injection h with h; injection h with _ h; subst h
      simp only [List.length_drop]; omega

theorem readU32_np (o : Order) (s : Bytes) : (readU32 o s).isPanic = false := by
  unfold readU32
  have := readFull_np 4 s
  split
  · rfl
  · rfl
  · rename_i heq; rw [heq] at this; exact absurd this (by simp [Res.isPanic])

theorem readU32_len {o : Order} {s r : Bytes} {n : Nat} (h : readU32 o s = .ok (n, r)) :
    r.length + 4 = s.length := by
  unfold readU32 at h
  split at h
  · rename_i heq
    injection h with h; injection h with _ h; subst h
    exact readFull_len heq
  all_goals contradiction

theorem readBOT_np (s : Bytes) : (readBOT s).isPanic = false := by
  unfold readBOT
  split
  · rfl
  · simp only []
    split
    · rfl
    · rename_i o _
      split
      · rename_i typ s' h1
        split
        · rfl
        · have := readU32_np o s'
          split
          · rfl
          · rfl
          · rename_i heq; rw [heq] at this; exact absurd this (by simp [Res.isPanic])
      · rfl
      · rename_i heq
        exact (np_absurd heq (readU32_np _ _)).elim

theorem readBOT_len {s r : Bytes} {o : Order} {t srid : Nat} (h : readBOT s = .ok (o, t, srid, r)) :
    r.length + 5 ≤ s.length := by
  unfold readBOT at h
  split at h
  · contradiction
  · simp only [] at h
    split at h
    · contradiction
    · split at h
      · rename_i h1
        have l1 := readU32_len h1
        split at h
        · injection h with h; injection h with _ h; injection h with _ h; injection h with _ h
          subst h
          simp only [List.length_cons]; omega
        · split at h
          · rename_i h2
            have l2 := readU32_len h2
            injection h with h; injection h with _ h; injection h with _ h; injection h with _ h
            subst h
            simp only [List.length_cons]; omega
          all_goals contradiction
      all_goals contradiction

theorem readPoint_np (o : Order) (s : Bytes) : (readPoint o s).isPanic = false := by
  unfold readPoint
  have h1 := readFull_np 8 s
  split
  · rename_i bx s' _
    have h2 := readFull_np 8 s'
    split
    · rfl
    · rfl
    · rename_i heq; rw [heq] at h2; exact absurd h2 (by simp [Res.isPanic])
  · rfl
  · rename_i heq; rw [heq] at h1; exact absurd h1 (by simp [Res.isPanic])

theorem readPoint_len {o : Order} {s r : Bytes} {p : Pt UInt64} (h : readPoint o s = .ok (p, r)) :
    r.length + 16 = s.length := by
  unfold readPoint at h
  split at h
  · rename_i h1
    split at h
    · rename_i h2
      injection h with h; injection h with _ h; subst h
      have := readFull_len h1
      have := readFull_len h2
      omega
    all_goals contradiction
  all_goals contradiction

/-! ### point / ring loops -/

theorem readPtsLoop_np (o : Order) (n : Nat) : ∀ s, (readPtsLoop o n s).isPanic = false := by
  induction n with
  | zero => intro s; rfl
  | succ n ih =>
    intro s
    simp only [readPtsLoop]
    have h1 := readPoint_np o s
    split
    · rename_i p s' _
      have h2 := ih s'
      split
      · rfl
      · rfl
      · rename_i heq; rw [heq] at h2; exact absurd h2 (by simp [Res.isPanic])
    · rfl
    · rename_i heq; rw [heq] at h1; exact absurd h1 (by simp [Res.isPanic])

theorem readPtsLoop_len {o : Order} (n : Nat) : ∀ {s r : Bytes} {ps : List (Pt UInt64)},
    readPtsLoop o n s = .ok (ps, r) → 16 * ps.length + r.length = s.length := by
  induction n with
  | zero =>
    intro s r ps h
    simp only [readPtsLoop] at h
    injection h with h; injection h with h1 h2; subst h1; subst h2; simp
  | succ n ih =>
    intro s r ps h
    simp only [readPtsLoop] at h
    split at h
    · rename_i hp
      split at h
      · rename_i hps
        injection h with h; injection h with h1 h2; subst h1; subst h2
        have := ih hps
        have := readPoint_len hp
        simp only [List.length_cons]; omega
      all_goals contradiction
    all_goals contradiction

theorem readLineString_np (o : Order) (s : Bytes) : (readLineString o s).isPanic = false := by
  unfold readLineString
  have h1 := readU32_np o s
  split
  · exact readPtsLoop_np _ _ _
  · rfl
  · rename_i heq; rw [heq] at h1; exact absurd h1 (by simp [Res.isPanic])

theorem readLineString_len {o : Order} {s r : Bytes} {ps : List (Pt UInt64)}
    (h : readLineString o s = .ok (ps, r)) : 16 * ps.length + r.length + 4 = s.length := by
  unfold readLineString at h
  split at h
  · rename_i hn
    have := readU32_len hn
    have := readPtsLoop_len _ h
    omega
  all_goals contradiction

theorem readRingsLoop_np (o : Order) (n : Nat) : ∀ s, (readRingsLoop o n s).isPanic = false := by
  induction n with
  | zero => intro s; rfl
  | succ n ih =>
    intro s
    simp only [readRingsLoop]
    have h1 := readLineString_np o s
    split
    · rename_i p s' _
      have h2 := ih s'
      split
      · rfl
      · rfl
      · rename_i heq; rw [heq] at h2; exact absurd h2 (by simp [Res.isPanic])
    · rfl
    · rename_i heq; rw [heq] at h1; exact absurd h1 (by simp [Res.isPanic])

theorem readRingsLoop_len {o : Order} (n : Nat) : ∀ {s r : Bytes} {rs : List (List (Pt UInt64))},
    readRingsLoop o n s = .ok (rs, r) → 16 * (rs.map List.length).sum + r.length ≤ s.length := by
  induction n with
  | zero =>
    intro s r rs h
    simp only [readRingsLoop] at h
    injection h with h; injection h with h1 h2; subst h1; subst h2; simp
  | succ n ih =>
    intro s r rs h
    simp only [readRingsLoop] at h
    split at h
    · rename_i hp
      split at h
      · rename_i hps
        injection h with h; injection h with h1 h2; subst h1; subst h2
        have := ih hps
        have := readLineString_len hp
        simp only [List.map_cons, List.sum_cons]; omega
      all_goals contradiction
    all_goals contradiction

theorem readPolygon_np (o : Order) (s : Bytes) : (readPolygon o s).isPanic = false := by
  unfold readPolygon
  have h1 := readU32_np o s
  split
  · exact readRingsLoop_np _ _ _
  · rfl
  · rename_i heq; rw [heq] at h1; exact absurd h1 (by simp [Res.isPanic])

theorem readPolygon_len {o : Order} {s r : Bytes} {rs : List (List (Pt UInt64))}
    (h : readPolygon o s = .ok (rs, r)) : 16 * (rs.map List.length).sum + r.length + 4 ≤ s.length := by
  unfold readPolygon at h
  split at h
  · rename_i hn
    have := readU32_len hn
    have := readRingsLoop_len _ h
    omega
  all_goals contradiction

/-! ### member loops -/

theorem readMembers_np {β : Type} (want : Nat) (rd : Order → Bytes → R (β × Bytes))
    (hrd : ∀ o s, (rd o s).isPanic = false) (n : Nat) :
    ∀ s, (readMembers want rd n s).isPanic = false := by
  induction n with
  | zero => intro s; rfl
  | succ n ih =>
    intro s
    simp only [readMembers]
    have h1 := readBOT_np s
    split
    · rename_i o typ _ s' _
      split
      · rfl
      · have h2 := hrd o s'
        split
        · rename_i x s'' _
          have h3 := ih s''
          split
          · rfl
          · rfl
          · rename_i heq; rw [heq] at h3; exact absurd h3 (by simp [Res.isPanic])
        · rfl
        · rename_i heq; rw [heq] at h2; exact absurd h2 (by simp [Res.isPanic])
    · rfl
    · rename_i heq; rw [heq] at h1; exact absurd h1 (by simp [Res.isPanic])

theorem readMembers_len {β : Type} (m : β → Nat) (want : Nat) (rd : Order → Bytes → R (β × Bytes))
    (hrd : ∀ o s x r, rd o s = .ok (x, r) → m x + r.length ≤ s.length) (n : Nat) :
    ∀ {s r : Bytes} {xs : List β},
    readMembers want rd n s = .ok (xs, r) → (xs.map m).sum + r.length ≤ s.length := by
  induction n with
  | zero =>
    intro s r xs h
    simp only [readMembers] at h
    injection h with h; injection h with h1 h2; subst h1; subst h2; simp
  | succ n ih =>
    intro s r xs h
    simp only [readMembers] at h
    split at h
    · rename_i hb
      split at h
      · contradiction
      · split at h
        · rename_i hx
          split at h
          · rename_i hxs
            injection h with h; injection h with h1 h2; subst h1; subst h2
            have := ih hxs
            have := hrd _ _ _ _ hx
            have := readBOT_len hb
            simp only [List.map_cons, List.sum_cons]; omega
          all_goals contradiction
        all_goals contradiction
    all_goals contradiction

/-! ### collection loop -/

theorem collLoop_np (dec : Bytes → R (G × Nat × Bytes)) (L : Nat)
    (hnp : ∀ t, t.length ≤ L → (dec t).isPanic = false)
    (hlen : ∀ t g sr r, dec t = .ok (g, sr, r) → r.length ≤ t.length) (n : Nat) :
    ∀ s, s.length ≤ L → (collLoop dec n s).isPanic = false := by
  induction n with
  | zero => intro s _; rfl
  | succ n ih =>
    intro s hs
    simp only [collLoop]
    have h1 := hnp s hs
    split
    · rename_i g _ s' hd
      have h2 := ih s' (Nat.le_trans (hlen _ _ _ _ hd) hs)
      split
      · rfl
      · rfl
      · rename_i heq; rw [heq] at h2; exact absurd h2 (by simp [Res.isPanic])
    · rfl
    · rename_i heq; rw [heq] at h1; exact absurd h1 (by simp [Res.isPanic])

theorem collLoop_len (m : G → Nat) (ml : List G → Nat) (hnil : ml [] = 0)
    (hcons : ∀ g gs, ml (g :: gs) = m g + ml gs)
    (dec : Bytes → R (G × Nat × Bytes))
    (hdec : ∀ t g sr r, dec t = .ok (g, sr, r) → m g + r.length ≤ t.length) (n : Nat) :
    ∀ {s r : Bytes} {gs : List G},
    collLoop dec n s = .ok (gs, r) → ml gs + r.length ≤ s.length := by
  induction n with
  | zero =>
    intro s r gs h
    simp only [collLoop] at h
    injection h with h; injection h with h1 h2; subst h1; subst h2; simp [hnil]
  | succ n ih =>
    intro s r gs h
    simp only [collLoop] at h
    split at h
    · rename_i hx
      split at h
      · rename_i hxs
        injection h with h; injection h with h1 h2; subst h1; subst h2
        have := ih hxs
        have := hdec _ _ _ _ hx
        rw [hcons]; omega
      all_goals contradiction
    all_goals contradiction

end Orb.WKB
