/-
  C03, regrouping of rings by `Ring.Orientation`: on a ring of small extent every number the
  shifted shoelace computes is an integer of magnitude ≤ 2^53 (hence exactly representable in
  float64), whatever the distance of the ring from the origin.  See `Orb.MVT.oriExactDomain`.
-/
import Orb.MVTOri
import Mathlib.Tactic

namespace Orb.MVT
open Orb

/-- `orientTrace` records the run of `Core.orientArea.go`: the last number is the result. -/
theorem orientTrace_last (o : Pt Int) (l : List (Pt Int)) (acc : Int) :
    Core.orientArea.go o l acc = ((orientTrace o l acc).getLast?).getD acc := by
  induction l generalizing acc with
  | nil => simp [Core.orientArea.go, orientTrace]
  | cons p t ih =>
    cases t with
    | nil => simp [Core.orientArea.go, orientTrace]
    | cons q t =>
      rw [Core.orientArea.go, ih]
      simp only [orientTrace]
      cases h : orientTrace o (q :: t) (acc + ((p.x - o.x) * (q.y - o.y) - (q.x - o.x) * (p.y - o.y))) with
      | nil => simp
      | cons v vs =>
        have hne : (v :: vs) ≠ [] := List.cons_ne_nil v vs
        simp [List.getLast?_eq_some_getLast hne]

private theorem abs_mul_le_sq {a b D : Int} (ha : |a| ≤ D) (hb : |b| ≤ D) : |a * b| ≤ D * D := by
  rw [abs_mul]
  exact mul_le_mul ha hb (abs_nonneg b) (le_trans (abs_nonneg a) ha)

/-- The bound on every intermediate: with all vertices of `l` within `D` of `o` (in both
    coordinates) and an accumulator of magnitude ≤ 2·k·D², every number of the trace has
    magnitude ≤ D or ≤ 2·(k + len l)·D². -/
theorem orientTrace_bounded (o : Pt Int) (D : Int) (l : List (Pt Int)) (k : Nat) (acc : Int)
    (hl : ∀ p ∈ l, |p.x - o.x| ≤ D ∧ |p.y - o.y| ≤ D) (hacc : |acc| ≤ 2 * k * (D * D)) :
    ∀ v ∈ orientTrace o l acc, |v| ≤ D ∨ |v| ≤ 2 * ((k + l.length : Nat) : Int) * (D * D) := by
  induction l generalizing k acc with
  | nil => simp [orientTrace]
  | cons p t ih =>
    cases t with
    | nil => simp [orientTrace]
    | cons q t =>
      have hp := hl p (by simp)
      have hq := hl q (by simp)
      have hD : (0 : Int) ≤ D := le_trans (abs_nonneg _) hp.1
      have hDD : (0 : Int) ≤ D * D := mul_nonneg hD hD
      have hab := abs_mul_le_sq hp.1 hq.2
      have hcd := abs_mul_le_sq hq.1 hp.2
      have hterm : |(p.x - o.x) * (q.y - o.y) - (q.x - o.x) * (p.y - o.y)| ≤ 2 * (D * D) := by
        calc |(p.x - o.x) * (q.y - o.y) - (q.x - o.x) * (p.y - o.y)|
            ≤ |(p.x - o.x) * (q.y - o.y)| + |(q.x - o.x) * (p.y - o.y)| := abs_sub _ _
          _ ≤ D * D + D * D := add_le_add hab hcd
          _ = 2 * (D * D) := by ring
      have hacc' : |acc + ((p.x - o.x) * (q.y - o.y) - (q.x - o.x) * (p.y - o.y))|
          ≤ 2 * ((k + 1 : Nat) : Int) * (D * D) := by
        calc |acc + ((p.x - o.x) * (q.y - o.y) - (q.x - o.x) * (p.y - o.y))|
            ≤ |acc| + |(p.x - o.x) * (q.y - o.y) - (q.x - o.x) * (p.y - o.y)| := abs_add_le _ _
          _ ≤ 2 * k * (D * D) + 2 * (D * D) := add_le_add hacc hterm
          _ = 2 * ((k + 1 : Nat) : Int) * (D * D) := by push_cast; ring
      have hn : (1 : Int) ≤ ((k + (p :: q :: t).length : Nat) : Int) := by
        simp only [List.length_cons]; push_cast; omega
      have hk1 : ((k + 1 : Nat) : Int) ≤ ((k + (p :: q :: t).length : Nat) : Int) := by
        simp only [List.length_cons]; push_cast; omega
      have big1 : D * D ≤ 2 * ((k + (p :: q :: t).length : Nat) : Int) * (D * D) := by nlinarith
      have big2 : 2 * (D * D) ≤ 2 * ((k + (p :: q :: t).length : Nat) : Int) * (D * D) := by nlinarith
      have big3 : 2 * ((k + 1 : Nat) : Int) * (D * D) ≤ 2 * ((k + (p :: q :: t).length : Nat) : Int) * (D * D) := by
        nlinarith
      intro v hv
      simp only [orientTrace, List.mem_append, List.mem_cons, List.not_mem_nil, or_false] at hv
      rcases hv with (h | h | h | h | h | h | h | h) | h
      · exact .inl (h ▸ hp.1)
      · exact .inl (h ▸ hq.2)
      · exact .inl (h ▸ hq.1)
      · exact .inl (h ▸ hp.2)
      · exact .inr (h ▸ le_trans hab big1)
      · exact .inr (h ▸ le_trans hcd big1)
      · exact .inr (h ▸ le_trans hterm big2)
      · exact .inr (h ▸ le_trans hacc' big3)
      · have := ih (k + 1) _ (fun p' hp' => hl p' (by simp at hp' ⊢; tauto)) (by simpa using hacc') v h
        rcases this with h1 | h2
        · exact .inl h1
        · refine .inr (le_trans h2 (le_of_eq ?_))
          simp only [List.length_cons]; push_cast; ring

/-- every vertex of the ring is within `ringExtent` of the first one -/
theorem ringExtent_spec (o : Pt Int) (rest : List (Pt Int)) :
    ∀ p ∈ rest, |p.x - o.x| ≤ (ringExtent (o :: rest) : Int) ∧ |p.y - o.y| ≤ (ringExtent (o :: rest) : Int) := by
  have key : ∀ (l : List (Pt Int)) (m : Nat),
      m ≤ l.foldl (fun m p => max m (max (p.x - o.x).natAbs (p.y - o.y).natAbs)) m ∧
      ∀ p ∈ l, (p.x - o.x).natAbs ≤ l.foldl (fun m p => max m (max (p.x - o.x).natAbs (p.y - o.y).natAbs)) m ∧
               (p.y - o.y).natAbs ≤ l.foldl (fun m p => max m (max (p.x - o.x).natAbs (p.y - o.y).natAbs)) m := by
    intro l
    induction l with
    | nil => intro m; simp
    | cons q t ih =>
      intro m
      obtain ⟨h1, h2⟩ := ih (max m (max (q.x - o.x).natAbs (q.y - o.y).natAbs))
      refine ⟨le_trans (le_max_left _ _) h1, ?_⟩
      intro p hp
      rcases List.mem_cons.mp hp with rfl | hp
      · exact ⟨le_trans (le_trans (le_max_left _ _) (le_max_right _ _)) h1,
               le_trans (le_trans (le_max_right _ _) (le_max_right _ _)) h1⟩
      · exact h2 p hp
  intro p hp
  obtain ⟨hx, hy⟩ := (key rest 0).2 p hp
  simp only [ringExtent]
  constructor
  · rw [Int.abs_eq_natAbs]; exact_mod_cast hx
  · rw [Int.abs_eq_natAbs]; exact_mod_cast hy

/-- On `oriExactDomain` every number `Ring.Orientation` computes for the ring — differences,
    products, terms, partial sums — is an integer of magnitude ≤ 2^53, i.e. a float64 value:
    no operation of the float64 run rounds, wherever the ring lies. -/
theorem orientTrace_fits (r : List (Pt Int)) (h : oriExactDomain r = true) :
    ∀ v ∈ ringTrace r, |v| ≤ 2 ^ 53 := by
  cases r with
  | nil => simp [ringTrace]
  | cons o rest =>
    simp only [oriExactDomain, decide_eq_true_eq] at h
    intro v hv
    simp only [ringTrace] at hv
    set D : Nat := ringExtent (o :: rest) with hDdef
    have hb := orientTrace_bounded o (D : Int) rest 0 0 (ringExtent_spec o rest) (by simp) v hv
    have hlen : (o :: rest).length = rest.length + 1 := rfl
    have hN : 2 * (rest.length + 1) * D * D ≤ 2 ^ 53 := by rw [← hlen]; exact h
    have hZ : (2 * ((rest.length : Int) + 1) * D * D) ≤ 2 ^ 53 := by exact_mod_cast hN
    have hD0 : (0 : Int) ≤ D := Int.natCast_nonneg D
    have hDD : (0 : Int) ≤ (D : Int) * D := mul_nonneg hD0 hD0
    have hlen0 : (0 : Int) ≤ (rest.length : Int) := Int.natCast_nonneg _
    rcases hb with h1 | h2
    · -- |v| ≤ D ≤ 2·len·D² (D ≥ 1) or D = 0
      rcases Nat.eq_zero_or_pos D with h0 | hpos
      · rw [h0] at h1; exact le_trans h1 (by norm_num)
      · have : (1 : Int) ≤ D := by exact_mod_cast hpos
        have : (D : Int) ≤ 2 * ((rest.length : Int) + 1) * D * D := by nlinarith
        exact le_trans h1 (le_trans this hZ)
    · have : 2 * ((0 + rest.length : Nat) : Int) * ((D : Int) * D) ≤ 2 * ((rest.length : Int) + 1) * D * D := by
        push_cast; nlinarith
      exact le_trans h2 (le_trans this hZ)

/-- … and the last number of the trace is the shoelace sum whose sign `Core.orientation` takes. -/
theorem ringTrace_last (o : Pt Int) (rest : List (Pt Int)) :
    Core.orientArea (o :: rest) = ((ringTrace (o :: rest)).getLast?).getD 0 := by
  simp only [Core.orientArea, ringTrace]
  exact orientTrace_last o rest 0

/-- Non-vacuity, at the far corner of the quantifier: a unit square at (2^28−2, −(2^28−2)) is in
    the exact domain, while a thin triangle spanning 2^27 (the known finding's witness) is not. -/
example : oriExactDomain [⟨268435454, -268435454⟩, ⟨268435455, -268435454⟩, ⟨268435455, -268435453⟩,
    ⟨268435454, -268435453⟩, ⟨268435454, -268435454⟩] = true := by decide
example : oriExactDomain [⟨0, 0⟩, ⟨134217728, 134217727⟩, ⟨134217729, 134217728⟩, ⟨0, 0⟩] = false := by decide

end Orb.MVT
