/-
  C12 lemmas: helpers.go wrappers and the generic entry point.  The primed statements are re-exported by OrbProofs/C12.lean.
-/
import OrbProofs.C12DP
import OrbProofs.C12Radial
import OrbProofs.C12Vis

namespace Orb.Simplify
open Orb

section anyArithmetic
variable {α : Type} [Add α] [Sub α] [Mul α] [Div α] [Neg α] [LT α] [LE α] [DecidableLT α] [DecidableLE α] [BEq α] [OfNat α 0] [OfNat α 1] [OfNat α 2]

theorem dpS_good' (t : α) : GoodS (dpS t) := by
  intro ls area out h
  exact ⟨dp_subseq_in_order' t ls out h, dp_endpoints_kept' t ls out h⟩

theorem radialS_good' (df : Pt α → Pt α → α) (t : α) : GoodS (radialS df t) := by
  intro ls area out h
  exact ⟨radial_subseq_in_order' df t ls out h, radial_endpoints_kept' df t ls out h⟩

theorem visS_good' (thr : Option α) (toKeep : Nat) : GoodS (visS thr toKeep) := by
  intro ls area out h
  exact ⟨vis_subseq_in_order' thr toKeep ls out area h, vis_endpoints_kept' thr toKeep ls out area h⟩

omit [Add α] [Sub α] [Mul α] [Div α] [Neg α] [LT α] [LE α] [DecidableLT α] [DecidableLE α] [BEq α]
  [OfNat α 0] [OfNat α 1] [OfNat α 2] in
theorem validLine_refl (ls : List (Pt α)) : ValidLine ls ls := ⟨List.Sublist.refl _, rfl, rfl⟩

omit [Add α] [Sub α] [Mul α] [Div α] [Neg α] [LT α] [LE α] [DecidableLT α] [DecidableLE α] [BEq α]
  [OfNat α 0] [OfNat α 1] [OfNat α 2] in
theorem runSimplify_good (s : Simplifier α) (hs : GoodS s) (ls out : List (Pt α)) (area : Bool)
    (h : runSimplify s ls area = .ok out) : ValidLine ls out := by
  unfold runSimplify at h
  split at h
  · injection h with h; subst h; exact validLine_refl _
  · exact hs ls area out h

theorem lineString_good' (s : Simplifier α) (hs : GoodS s) (ls out : List (Pt α)) (h : lineString s ls = .ok out) :
    ValidLine ls out := runSimplify_good s hs ls out false h

theorem ring_good' (s : Simplifier α) (hs : GoodS s) (ls out : List (Pt α)) (h : ring s ls = .ok out) :
    ValidLine ls out := runSimplify_good s hs ls out true h

theorem multiLineString_good' (s : Simplifier α) (hs : GoodS s) (mls out : List (List (Pt α)))
    (h : multiLineString s mls = .ok out) : List.Forall₂ ValidLine mls out := by
  induction mls generalizing out with
  | nil =>
    simp only [multiLineString] at h
    injection h with h; subst h; exact List.Forall₂.nil
  | cons l rest ih =>
    simp only [multiLineString] at h
    split at h
    · rename_i l' hl
      split at h
      · rename_i rest' hr
        injection h with h; subst h
        exact List.Forall₂.cons (runSimplify_good s hs l l' false hl) (ih rest' hr)
      · cases h
      · cases h
    · cases h
    · cases h

omit [Add α] [Sub α] [Mul α] [Div α] [Neg α] [LT α] [LE α] [DecidableLT α] [DecidableLE α] [BEq α]
  [OfNat α 0] [OfNat α 1] [OfNat α 2] in
theorem polygonFrom_succ_good (s : Simplifier α) (hs : GoodS s) :
    ∀ (p : List (List (Pt α))) (i : Nat) (out : List (List (Pt α))),
      polygonFrom s (i + 1) p = .ok out →
      ∃ kept, kept.Sublist p ∧ List.Forall₂ ValidLine kept out ∧ ∀ r ∈ out, 2 < r.length := by
  intro p
  induction p with
  | nil =>
    intro i out h
    simp only [polygonFrom] at h
    injection h with h; subst h
    exact ⟨[], List.Sublist.refl _, List.Forall₂.nil, by simp⟩
  | cons r rest ih =>
    intro i out h
    simp only [polygonFrom] at h
    split at h
    · rename_i r' hr
      split at h
      · rename_i rest' hrest
        obtain ⟨kept, hk1, hk2, hk3⟩ := ih (i + 1) rest' hrest
        split at h
        · injection h with h; subst h
          exact ⟨kept, hk1.cons r, hk2, hk3⟩
        · rename_i hc
          injection h with h; subst h
          refine ⟨r :: kept, hk1.cons_cons r, List.Forall₂.cons (runSimplify_good s hs r r' true hr) hk2, ?_⟩
          intro x hx
          rcases List.mem_cons.1 hx with rfl | hx
          · have : ¬ x.length ≤ 2 := fun h2 => hc ⟨by omega, h2⟩
            omega
          · exact hk3 x hx
      · cases h
      · cases h
    · cases h
    · cases h

theorem polygon_good' (s : Simplifier α) (hs : GoodS s) (p out : List (List (Pt α))) (h : polygon s p = .ok out) :
    ValidPolygon p out := by
  unfold polygon at h
  cases p with
  | nil =>
    simp only [polygonFrom] at h
    injection h with h; subst h
    exact ⟨[], List.Sublist.refl _, List.Forall₂.nil, rfl, by simp⟩
  | cons r rest =>
    simp only [polygonFrom] at h
    split at h
    · rename_i r' hr
      split at h
      · rename_i rest' hrest
        obtain ⟨kept, hk1, hk2, hk3⟩ := polygonFrom_succ_good s hs rest 0 rest' hrest
        simp only [ne_eq, not_true_eq_false, false_and, if_false] at h
        injection h with h; subst h
        exact ⟨r :: kept, hk1.cons_cons r,
          List.Forall₂.cons (runSimplify_good s hs r r' true hr) hk2, rfl, by simpa using hk3⟩
      · cases h
      · cases h
    · cases h
    · cases h

theorem multiPolygon_good' (s : Simplifier α) (hs : GoodS s) (mp out : List (List (List (Pt α))))
    (h : multiPolygon s mp = .ok out) :
    ∃ kept, kept.Sublist mp ∧ List.Forall₂ ValidPolygon kept out ∧
      ∀ pg ∈ out, ∃ r0 rs, pg = r0 :: rs ∧ 2 < r0.length := by
  induction mp generalizing out with
  | nil =>
    simp only [multiPolygon] at h
    injection h with h; subst h
    exact ⟨[], List.Sublist.refl _, List.Forall₂.nil, by simp⟩
  | cons p rest ih =>
    simp only [multiPolygon] at h
    split at h
    · rename_i p' hp
      split at h
      · rename_i rest' hrest
        obtain ⟨kept, hk1, hk2, hk3⟩ := ih rest' hrest
        split at h
        · injection h with h; subst h
          exact ⟨kept, hk1.cons p, hk2, hk3⟩
        · rename_i r0 tl
          split at h
          · injection h with h; subst h
            exact ⟨kept, hk1.cons p, hk2, hk3⟩
          · rename_i hc
            injection h with h; subst h
            refine ⟨p :: kept, hk1.cons_cons p, List.Forall₂.cons (polygon_good' s hs p _ hp) hk2, ?_⟩
            intro x hx
            rcases List.mem_cons.1 hx with rfl | hx
            · exact ⟨r0, tl, rfl, by omega⟩
            · exact hk3 x hx
      · cases h
      · cases h
    · cases h
    · cases h

theorem wrappers_agree' (s : Simplifier α) :
    (∀ l, simplifyG s (.lineString l) = wrapLen .lineString (lineString s l)) ∧
    (∀ l, simplifyG s (.multiLineString l) = wrapLen .multiLineString (multiLineString s l)) ∧
    (∀ l, simplifyG s (.ring l) = wrapLen .ring (ring s l)) ∧
    (∀ l, simplifyG s (.polygon l) = wrapLen .polygon (polygon s l)) ∧
    (∀ l, simplifyG s (.multiPolygon l) = wrapLen .multiPolygon (multiPolygon s l)) ∧
    (∀ l, simplifyG s (.collection l) =
      match collection s l with
      | .ok m => if m.length = 0 then .ok .nil else .ok (.coll m)
      | .err e => .err e
      | .panic w => .panic w) := by
  refine ⟨?_, ?_, ?_, ?_, ?_, ?_⟩
  · intro l; simp only [simplifyG]
  · intro l; simp only [simplifyG]
  · intro l; simp only [simplifyG]
  · intro l; simp only [simplifyG]
  · intro l; simp only [simplifyG]
  · intro l; simp only [simplifyG, collection]; cases simplifyG.go s l <;> rfl

omit [Add α] [Sub α] [Mul α] [Div α] [Neg α] [LT α] [LE α] [DecidableLT α] [DecidableLE α] [BEq α]
  [OfNat α 0] [OfNat α 1] [OfNat α 2] in
theorem isOk_iff {β : Type} (r : R β) : r.isOk = true ↔ ∃ v, r = .ok v := by
  cases r <;> simp [Res.isOk]

section total
omit [Add α] [Sub α] [Mul α] [Div α] [Neg α] [LT α] [LE α] [DecidableLT α] [DecidableLE α] [BEq α]
  [OfNat α 0] [OfNat α 1] [OfNat α 2]
variable (s : Simplifier α) (hs : ∀ ls area, 2 < ls.length → (s ls area).isOk = true)
include hs

theorem runSimplify_ok (ls : List (Pt α)) (area : Bool) : (runSimplify s ls area).isOk = true := by
  unfold runSimplify
  split
  · rfl
  · exact hs ls area (by omega)

theorem multiLineString_ok (mls : List (List (Pt α))) : (multiLineString s mls).isOk = true := by
  induction mls with
  | nil => rfl
  | cons l rest ih =>
    obtain ⟨l', hl⟩ := (isOk_iff _).1 (runSimplify_ok s hs l false)
    obtain ⟨rest', hr⟩ := (isOk_iff _).1 ih
    simp only [multiLineString, hl, hr]
    rfl

theorem polygonFrom_ok (p : List (List (Pt α))) : ∀ i, (polygonFrom s i p).isOk = true := by
  induction p with
  | nil => intro i; rfl
  | cons r rest ih =>
    intro i
    obtain ⟨r', hr'⟩ := (isOk_iff _).1 (runSimplify_ok s hs r true)
    obtain ⟨rest', hrest⟩ := (isOk_iff _).1 (ih (i + 1))
    simp only [polygonFrom, hr', hrest]
    split <;> rfl

theorem multiPolygon_ok (mp : List (List (List (Pt α)))) : (multiPolygon s mp).isOk = true := by
  induction mp with
  | nil => rfl
  | cons p rest ih =>
    obtain ⟨p', hp'⟩ := (isOk_iff _).1 (polygonFrom_ok s hs p 0)
    obtain ⟨rest', hrest⟩ := (isOk_iff _).1 ih
    simp only [multiPolygon, polygon, hp', hrest]
    cases p' with
    | nil => rfl
    | cons r0 tl =>
      simp only
      split <;> rfl

omit hs in
theorem wrapLen_ok {β : Type} (mk : List β → Geom α) (r : R (List β)) (h : r.isOk = true) :
    (wrapLen mk r).isOk = true := by
  obtain ⟨l, rfl⟩ := (isOk_iff _).1 h
  simp only [wrapLen]
  split <;> rfl

theorem simplifyG_ok : ∀ g : Geom α, (simplifyG s g).isOk = true := by
  apply Geom.ind'
  · intro p; simp only [simplifyG]; rfl
  · intro ps; simp only [simplifyG]; rfl
  · intro ls; simp only [simplifyG]; exact wrapLen_ok _ _ (runSimplify_ok s hs ls false)
  · intro mls; simp only [simplifyG]; exact wrapLen_ok _ _ (multiLineString_ok s hs mls)
  · intro r; simp only [simplifyG]; exact wrapLen_ok _ _ (runSimplify_ok s hs r true)
  · intro p; simp only [simplifyG]; exact wrapLen_ok _ _ (polygonFrom_ok s hs p 0)
  · intro mp; simp only [simplifyG]; exact wrapLen_ok _ _ (multiPolygon_ok s hs mp)
  · intro a b; simp only [simplifyG]; rfl
  · intro gs ih
    have hgo : (simplifyG.go s gs).isOk = true := by
      induction gs with
      | nil => simp only [simplifyG.go]; rfl
      | cons g rest ihr =>
        obtain ⟨g', hg'⟩ := (isOk_iff _).1 (ih g (by simp))
        obtain ⟨rest', hrest⟩ := (isOk_iff _).1 (ihr (fun x hx => ih x (by simp [hx])))
        simp only [simplifyG.go, hg', hrest]
        split <;> rfl
    obtain ⟨l, hl⟩ := (isOk_iff _).1 hgo
    simp only [simplifyG, hl]
    split <;> rfl

end total

theorem simplify_total' (s : Simplifier α) (hs : ∀ ls area, 2 < ls.length → (s ls area).isOk = true)
    (v : GVal α) : (simplifyV s v).isOk = true := by
  cases v with
  | nilIface => rfl
  | nilSlice k => rfl
  | val g => exact simplifyG_ok s hs g

/-- Radial (any arithmetic) through every wrapper: always `.ok`. -/
theorem radial_simplify_total' (df : Pt α → Pt α → α) (t : α) (v : GVal α) :
    (simplifyV (radialS df t) v).isOk = true := by
  refine simplify_total' _ (fun ls _ hl => ?_) v
  have hne : ls ≠ [] := by intro h; rw [h] at hl; simp at hl
  obtain ⟨out, ho⟩ := radial_total' df t ls hne
  simp [radialS, ho, Res.isOk]

end anyArithmetic

section orderedField
variable {α : Type} [Field α] [LinearOrder α] [IsStrictOrderedRing α]

theorem dp_simplify_total' (t : α) (v : GVal α) : (simplifyV (dpS t) v).isOk = true := by
  refine simplify_total' _ (fun ls _ hl => ?_) v
  have hne : ls ≠ [] := by intro h; rw [h] at hl; simp at hl
  obtain ⟨out, ho⟩ := dp_total' t ls hne
  simp [dpS, ho, Res.isOk]

theorem vis_simplify_total' (thr : Option α) (toKeep : Nat) (hk : toKeep = 0 ∨ 2 ≤ toKeep) (v : GVal α) :
    (simplifyV (visS thr toKeep) v).isOk = true := by
  refine simplify_total' _ (fun ls area _ => ?_) v
  obtain ⟨out, ho⟩ := vis_total' thr toKeep hk ls area
  simp [visS, ho, Res.isOk]

end orderedField


end Orb.Simplify
