/-
  C11 helper lemmas, part 1: the spec-side vocabulary (re-exported through C11Lemmas / C11) and
  the lemmas about the tree structure itself (ins / fill / clearNode / modifyAt / contents / Inv).
-/
import Orb.Quadtree
import Mathlib.Algebra.Order.Field.Basic
import Mathlib.Data.List.Perm.Basic
import Mathlib.Data.List.Sort
import Mathlib.Tactic.Linarith
import Mathlib.Tactic.Positivity
import Mathlib.Tactic.FieldSimp
import Mathlib.Tactic.Ring

namespace Orb.Quadtree
open Orb Orb.Core

/-! ### spec-side vocabulary -/

section vocab
variable {α : Type} [Field α] [LinearOrder α] [IsStrictOrderedRing α]

/-- `p` lies in the closed cell `c` -/
def inCell (c : Cell α) (p : Pt α) : Prop := c.l ≤ p.x ∧ p.x ≤ c.r ∧ c.b ≤ p.y ∧ p.y ≤ c.t

/-- structural invariant: every stored value lies in the cell of its node (cells are derived
    from the tree bound by the same midpoint arithmetic the code uses) -/
def Inv : Tree α → Cell α → Prop
  | .nil, _ => True
  | .node v c0 c1 c2 c3, c =>
    (∀ p, v = some p → inCell c p.p) ∧ Inv c0 (c.sub 0) ∧ Inv c1 (c.sub 1) ∧ Inv c2 (c.sub 2) ∧ Inv c3 (c.sub 3)

def QInv (q : QT α) : Prop := Inv q.root (rootCell q.bound)

/-- the only assumption on the square root used to size the pruning box: an upper bound -/
def SqrtUp (sqrt : α → α) : Prop := ∀ x, 0 ≤ x → 0 ≤ sqrt x ∧ x ≤ sqrt x * sqrt x

/-- closed-box membership, written out with explicit inequalities (independent of the model's
    `Bound.contains`): used by the in-bound query AND by the add clause of `Spec` -/
def inBox (b : Bound α) (p : Pt α) : Bool :=
  decide (b.lo.x ≤ p.x ∧ p.x ≤ b.hi.x ∧ b.lo.y ≤ p.y ∧ p.y ≤ b.hi.y)

/-- "strictly within the optional distance limit".  The property text does not say what a NEGATIVE
    limit means; the code squares the limit (`maxDistance[0] * maxDistance[0]`), so a limit `m` acts
    as `|m|` — that behaviour is what is specified here (`within_neg`, `within_iff_lt_abs` below). -/
def within (pt : Pt α) (maxDist : Option α) (x : Ptr α) : Bool :=
  match maxDist with
  | none => true
  | some m => decide (distSq x.p pt < m * m)

/-- operations of a history -/
inductive Op (α : Type) where
  | add (p : Ptr α)
  | remove (pt : Pt α) (eq : Ptr α → Bool)
  | matching (pt : Pt α) (f : Ptr α → Bool)
  | kNearest (pt : Pt α) (k : Nat) (f : Ptr α → Bool) (maxDist : Option α)
  | inBound (b : Bound α) (f : Ptr α → Bool)

/-- observable results -/
inductive Out (α : Type) where
  | flag (b : Bool)
  | ptr (p : Option (Ptr α))
  | ptrs (l : List (Ptr α))

/-- one step of the implementation model -/
def step (sqrt : α → α) (q : QT α) : Op α → QT α × Out α
  | .add p => let (q', ok) := add q p; (q', .flag ok)
  | .remove pt eq => let (q', ok) := remove sqrt q pt eq; (q', .flag ok)
  | .matching pt f => (q, .ptr (matching sqrt q pt f))
  | .kNearest pt k f md => (q, .ptrs (kNearest sqrt q pt k f md))
  | .inBound b f => (q, .ptrs (inBound q b f))

/-- THE SPECIFICATION: what a plain list `cs` of the stored pointers allows as the answer `out`
    and as the new contents `cs'` (a multiset: everything is up to permutation). -/
def Spec (qb : Bound α) (cs : List (Ptr α)) : Op α → Out α → List (Ptr α) → Prop
  | .add p, .flag ok, cs' =>
    (ok = inBox qb p.p) ∧ (if ok then cs'.Perm (p :: cs) else cs'.Perm cs)
  | .remove pt eq, .flag ok, cs' =>
    if ok then ∃ x, x ∈ cs ∧ eq x = true ∧ (∀ y ∈ cs, eq y = true → distSq x.p pt ≤ distSq y.p pt) ∧ cs.Perm (x :: cs')
    else (∀ y ∈ cs, eq y = false) ∧ cs'.Perm cs
  | .matching pt f, .ptr r, cs' =>
    cs'.Perm cs ∧
    (match r with
     | none => ∀ y ∈ cs, f y = false
     | some x => x ∈ cs ∧ f x = true ∧ ∀ y ∈ cs, f y = true → distSq x.p pt ≤ distSq y.p pt)
  | .kNearest pt k f md, .ptrs r, cs' =>
    cs'.Perm cs ∧
    ∃ rest, (r ++ rest).Perm (cs.filter fun x => f x && within pt md x) ∧
      r.length = min k (cs.filter fun x => f x && within pt md x).length ∧
      r.Pairwise (fun a b => distSq a.p pt ≤ distSq b.p pt) ∧
      ∀ x ∈ r, ∀ y ∈ rest, distSq x.p pt ≤ distSq y.p pt
  | .inBound b f, .ptrs r, cs' =>
    cs'.Perm cs ∧ r.Perm (cs.filter fun x => f x && inBox b x.p)
  | _, _, _ => False

/-- every step of a history meets the specification w.r.t. the tree's own contents -/
def Trace (sqrt : α → α) : QT α → List (Op α) → Prop
  | _, [] => True
  | q, op :: rest =>
    Spec q.bound (contents q.root) op (step sqrt q op).2 (contents (step sqrt q op).1.root) ∧
    Trace sqrt (step sqrt q op).1 rest

end vocab

set_option linter.unusedSectionVars false

variable {α : Type} [Field α] [LinearOrder α] [IsStrictOrderedRing α]

/-! ### the vocabulary against the model's own tests -/

/-- the model's `Bound.contains` (the code's `Bound.Contains`: two negated disjunctions) is the closed
    box of the specification -/
theorem contains_eq_inBox (b : Bound α) (p : Pt α) : b.contains p = inBox b p := by
  unfold Bound.contains inBox
  by_cases h1 : p.y < b.lo.y ∨ b.hi.y < p.y
  · rw [if_pos h1]
    symm; rw [decide_eq_false_iff_not]
    rintro ⟨-, -, h3, h4⟩
    rcases h1 with h | h
    · exact absurd h3 (not_le.mpr h)
    · exact absurd h4 (not_le.mpr h)
  · rw [if_neg h1]
    by_cases h2 : p.x < b.lo.x ∨ b.hi.x < p.x
    · rw [if_pos h2]
      symm; rw [decide_eq_false_iff_not]
      rintro ⟨h3, h4, -, -⟩
      rcases h2 with h | h
      · exact absurd h3 (not_le.mpr h)
      · exact absurd h4 (not_le.mpr h)
    · rw [if_neg h2]
      symm; rw [decide_eq_true_iff]
      simp only [not_or, not_lt] at h1 h2
      exact ⟨h2.1, h2.2, h1.1, h1.2⟩

/-- a negative limit acts exactly as its absolute value -/
theorem within_neg (pt : Pt α) (m : α) (x : Ptr α) : within pt (some (-m)) x = within pt (some m) x := by
  simp [within]

theorem within_abs (pt : Pt α) (m : α) (x : Ptr α) : within pt (some |m|) x = within pt (some m) x := by
  simp [within, abs_mul_abs_self]

/-- in terms of an (unsquared) distance `s`: within the limit `m` ⟺ `s < |m|` -/
theorem within_iff_lt_abs (pt : Pt α) (m s : α) (x : Ptr α) (hs : 0 ≤ s) (hss : s * s = distSq x.p pt) :
    within pt (some m) x = true ↔ s < |m| := by
  simp only [within, decide_eq_true_eq, ← hss, ← abs_mul_abs_self m]
  constructor
  · intro h
    by_contra hc
    exact absurd h (not_lt.mpr (mul_self_le_mul_self (abs_nonneg m) (not_lt.mp hc)))
  · intro h
    exact mul_self_lt_mul_self hs h

/-- a zero limit (and hence `-0`) admits nothing: squared distances are not negative -/
theorem within_zero (pt : Pt α) (x : Ptr α) : within pt (some 0) x = false := by
  simp only [within, mul_zero, decide_eq_false_iff_not, not_lt]
  exact add_nonneg (mul_self_nonneg _) (mul_self_nonneg _)

/-! ### cells -/

theorem childIndex_cases (cx cy : α) (p : Pt α) :
    (childIndex cx cy p = 0 ∧ cy < p.y ∧ p.x < cx) ∨ (childIndex cx cy p = 1 ∧ cy < p.y ∧ cx ≤ p.x) ∨
    (childIndex cx cy p = 2 ∧ p.y ≤ cy ∧ p.x < cx) ∨ (childIndex cx cy p = 3 ∧ p.y ≤ cy ∧ cx ≤ p.x) := by
  unfold childIndex
  rcases le_or_gt p.y cy with hy | hy <;> rcases le_or_gt cx p.x with hx | hx <;>
    simp [hy, hx, not_le.mpr, not_lt.mpr]

theorem half_le {a b : α} (h : a ≤ b) : a ≤ (a + b) / 2 ∧ (a + b) / 2 ≤ b := by
  constructor
  · rw [le_div_iff₀ (by norm_num)]; linarith
  · rw [div_le_iff₀ (by norm_num)]; linarith

theorem le_of_le_half {a b : α} (h : a ≤ (a + b) / 2) : a ≤ b := by
  rw [le_div_iff₀ (by norm_num)] at h; linarith

theorem le_of_half_le {a b : α} (h : (a + b) / 2 ≤ b) : a ≤ b := by
  rw [div_le_iff₀ (by norm_num)] at h; linarith

/-- a point of a sub-cell lies in the cell -/
theorem inCell_of_sub (c : Cell α) (i : Nat) (p : Pt α) (h : inCell (c.sub i) p) : inCell c p := by
  obtain ⟨h1, h2, h3, h4⟩ := h
  unfold inCell
  rcases i with _ | _ | _ | i <;> simp only [Cell.sub, Cell.cx, Cell.cy] at h1 h2 h3 h4
  · have hx := le_of_le_half (h1.trans h2); have hy := le_of_half_le (h3.trans h4)
    exact ⟨h1, h2.trans (half_le hx).2, (half_le hy).1.trans h3, h4⟩
  · have hx := le_of_half_le (h1.trans h2); have hy := le_of_half_le (h3.trans h4)
    exact ⟨(half_le hx).1.trans h1, h2, (half_le hy).1.trans h3, h4⟩
  · have hx := le_of_le_half (h1.trans h2); have hy := le_of_le_half (h3.trans h4)
    exact ⟨h1, h2.trans (half_le hx).2, h3, h4.trans (half_le hy).2⟩
  · have hx := le_of_half_le (h1.trans h2); have hy := le_of_le_half (h3.trans h4)
    exact ⟨(half_le hx).1.trans h1, h2, h3, h4.trans (half_le hy).2⟩

/-! ### children, sub-trees -/

def Tree.child : Tree α → Nat → Tree α
  | .nil, _ => .nil
  | .node _ c0 _ _ _, 0 => c0
  | .node _ _ c1 _ _, 1 => c1
  | .node _ _ _ c2 _, 2 => c2
  | .node _ _ _ _ c3, _ => c3

def subAt : List Nat → Tree α → Tree α
  | [], t => t
  | i :: rest, t => subAt rest (t.child i)

@[simp] theorem subAt_nil_tree (l : List Nat) : subAt l (Tree.nil : Tree α) = .nil := by
  induction l with
  | nil => rfl
  | cons i rest ih => simpa [subAt, Tree.child] using ih

theorem subAt_append (a b : List Nat) (t : Tree α) : subAt (a ++ b) t = subAt b (subAt a t) := by
  induction a generalizing t with
  | nil => rfl
  | cons i rest ih => simp [subAt, ih]

/-- contents of the children only -/
def kids : Tree α → List (Ptr α)
  | .nil => []
  | .node _ c0 c1 c2 c3 => contents c0 ++ contents c1 ++ contents c2 ++ contents c3

theorem contents_eq_kids (t : Tree α) : contents t = t.value.toList ++ kids t := by
  cases t <;> simp [contents, kids, Tree.value]

/-- every stored value of a subtree lies in the subtree's cell -/
theorem Inv.mem_inCell {t : Tree α} {c : Cell α} (h : Inv t c) : ∀ y ∈ contents t, inCell c y.p := by
  induction t generalizing c with
  | nil => simp [contents]
  | node v c0 c1 c2 c3 ih0 ih1 ih2 ih3 =>
    obtain ⟨hv, h0, h1, h2, h3⟩ := h
    intro y hy
    simp only [contents, List.mem_append, Option.mem_toList] at hy
    rcases hy with (((hy | hy) | hy) | hy) | hy
    · exact hv y hy
    · exact inCell_of_sub c 0 _ (ih0 h0 y hy)
    · exact inCell_of_sub c 1 _ (ih1 h1 y hy)
    · exact inCell_of_sub c 2 _ (ih2 h2 y hy)
    · exact inCell_of_sub c 3 _ (ih3 h3 y hy)

/-! ### insertion -/

theorem inCell_sub_childIndex (c : Cell α) (p : Pt α) (h : inCell c p) :
    inCell (c.sub (childIndex c.cx c.cy p)) p := by
  obtain ⟨h1, h2, h3, h4⟩ := h
  rcases childIndex_cases c.cx c.cy p with ⟨e, hy, hx⟩ | ⟨e, hy, hx⟩ | ⟨e, hy, hx⟩ | ⟨e, hy, hx⟩ <;>
    rw [e] <;> simp only [Cell.sub, inCell]
  · exact ⟨h1, hx.le, hy.le, h4⟩
  · exact ⟨hx, h2, hy.le, h4⟩
  · exact ⟨h1, hx.le, h3, hy⟩
  · exact ⟨hx, h2, h3, hy⟩

theorem Inv_ins (t : Tree α) (p : Ptr α) (c : Cell α) (h : Inv t c) (hp : inCell c p.p) : Inv (ins t p c) c := by
  induction t generalizing c with
  | nil => simp [ins, Inv, hp]
  | node v c0 c1 c2 c3 ih0 ih1 ih2 ih3 =>
    obtain ⟨hv, h0, h1, h2, h3⟩ := h
    cases v with
    | none => simp only [ins]; exact ⟨by intro q hq; cases hq; exact hp, h0, h1, h2, h3⟩
    | some v =>
      have hs := inCell_sub_childIndex c p.p hp
      simp only [ins]
      rcases childIndex_cases c.cx c.cy p.p with ⟨e, -, -⟩ | ⟨e, -, -⟩ | ⟨e, -, -⟩ | ⟨e, -, -⟩ <;> rw [e] at hs ⊢ <;> simp only
      · exact ⟨hv, ih0 _ h0 hs, h1, h2, h3⟩
      · exact ⟨hv, h0, ih1 _ h1 hs, h2, h3⟩
      · exact ⟨hv, h0, h1, ih2 _ h2 hs, h3⟩
      · exact ⟨hv, h0, h1, h2, ih3 _ h3 hs⟩

theorem perm_mid {β : Type} {l' l : List β} {p : β} (h : l'.Perm (p :: l)) (X : List β) :
    (X ++ l').Perm (p :: (X ++ l)) := (h.append_left X).trans List.perm_middle

theorem contents_ins (t : Tree α) (p : Ptr α) (c : Cell α) : (contents (ins t p c)).Perm (p :: contents t) := by
  induction t generalizing c with
  | nil => simp [ins, contents]
  | node v c0 c1 c2 c3 ih0 ih1 ih2 ih3 =>
    cases v with
    | none => simp [ins, contents]
    | some v =>
      simp only [ins]
      rcases childIndex_cases c.cx c.cy p.p with ⟨e, -, -⟩ | ⟨e, -, -⟩ | ⟨e, -, -⟩ | ⟨e, -, -⟩ <;> rw [e] <;>
        simp only [contents]
      · exact (((perm_mid (ih0 _) _).append_right _).append_right _).append_right _
      · exact ((perm_mid (ih1 _) _).append_right _).append_right _
      · exact (perm_mid (ih2 _) _).append_right _
      · exact perm_mid (ih3 _) _

/-! ### removal: `fill`, `clearNode`, `modifyAt` -/

theorem contents_fillD (t : Tree α) : contents ((fill t).getD .nil) = kids t := by
  induction t with
  | nil => simp [fill, contents, kids]
  | node v c0 c1 c2 c3 ih0 ih1 ih2 ih3 =>
    cases c0 with
    | node v0 a b c d => simp only [fill, Option.getD_some, contents, kids] at ih0 ⊢; rw [ih0]; simp
    | nil =>
      cases c1 with
      | node v1 a b c d => simp only [fill, Option.getD_some, contents, kids] at ih1 ⊢; rw [ih1]; simp
      | nil =>
        cases c2 with
        | node v2 a b c d => simp only [fill, Option.getD_some, contents, kids] at ih2 ⊢; rw [ih2]; simp
        | nil =>
          cases c3 with
          | node v3 a b c d => simp only [fill, Option.getD_some, contents, kids] at ih3 ⊢; rw [ih3]; simp
          | nil => simp [fill, contents, kids]

theorem Inv_fillD (t : Tree α) (c : Cell α) (h : Inv t c) : Inv ((fill t).getD .nil) c := by
  induction t generalizing c with
  | nil => simp [fill, Inv]
  | node v c0 c1 c2 c3 ih0 ih1 ih2 ih3 =>
    obtain ⟨hv, h0, h1, h2, h3⟩ := h
    cases c0 with
    | node v0 a b c' d =>
      simp only [fill, Option.getD_some]
      exact ⟨fun p hp => inCell_of_sub c 0 _ (h0.1 p hp), ih0 _ h0, h1, h2, h3⟩
    | nil =>
      cases c1 with
      | node v1 a b c' d =>
        simp only [fill, Option.getD_some]
        exact ⟨fun p hp => inCell_of_sub c 1 _ (h1.1 p hp), h0, ih1 _ h1, h2, h3⟩
      | nil =>
        cases c2 with
        | node v2 a b c' d =>
          simp only [fill, Option.getD_some]
          exact ⟨fun p hp => inCell_of_sub c 2 _ (h2.1 p hp), h0, h1, ih2 _ h2, h3⟩
        | nil =>
          cases c3 with
          | node v3 a b c' d =>
            simp only [fill, Option.getD_some]
            exact ⟨fun p hp => inCell_of_sub c 3 _ (h3.1 p hp), h0, h1, h2, ih3 _ h3⟩
          | nil => simp [fill, Inv]

theorem nodes_fillD (t : Tree α) : nodes ((fill t).getD .nil) ≤ nodes t := by
  induction t with
  | nil => simp [fill, nodes]
  | node v c0 c1 c2 c3 ih0 ih1 ih2 ih3 =>
    cases c0 with
    | node v0 a b c d => simp only [fill, Option.getD_some, nodes] at ih0 ⊢; omega
    | nil =>
      cases c1 with
      | node v1 a b c d => simp only [fill, Option.getD_some, nodes] at ih1 ⊢; omega
      | nil =>
        cases c2 with
        | node v2 a b c d => simp only [fill, Option.getD_some, nodes] at ih2 ⊢; omega
        | nil =>
          cases c3 with
          | node v3 a b c d => simp only [fill, Option.getD_some, nodes] at ih3 ⊢; omega
          | nil => simp [fill, nodes]

theorem fill_none (v : Option (Ptr α)) (c0 c1 c2 c3 : Tree α) (h : fill (.node v c0 c1 c2 c3) = none) :
    c0 = .nil ∧ c1 = .nil ∧ c2 = .nil ∧ c3 = .nil := by
  cases c0 <;> cases c1 <;> cases c2 <;> cases c3 <;> simp [fill] at h ⊢

theorem clearNode_eq (t : Tree α) :
    clearNode t = (fill t).getD .nil ∨
    (∃ v, t = .node v .nil .nil .nil .nil ∧ clearNode t = .node none .nil .nil .nil .nil) := by
  cases t with
  | nil => left; simp [clearNode, fill]
  | node v c0 c1 c2 c3 =>
    cases hf : fill (.node v c0 c1 c2 c3) with
    | some t' => left; simp [clearNode, hf]
    | none =>
      right
      obtain ⟨rfl, rfl, rfl, rfl⟩ := fill_none v c0 c1 c2 c3 hf
      exact ⟨v, rfl, by simp [clearNode, hf]⟩

theorem contents_clearNode (t : Tree α) : contents (clearNode t) = kids t := by
  rcases clearNode_eq t with h | ⟨v, rfl, h⟩
  · rw [h, contents_fillD]
  · rw [h]; simp [contents, kids]

theorem Inv_clearNode (t : Tree α) (c : Cell α) (hi : Inv t c) : Inv (clearNode t) c := by
  rcases clearNode_eq t with h | ⟨v, rfl, h⟩
  · rw [h]; exact Inv_fillD t c hi
  · rw [h]; simp [Inv]

theorem nodes_clearNode (t : Tree α) : nodes (clearNode t) ≤ nodes t := by
  rcases clearNode_eq t with h | ⟨v, rfl, h⟩
  · rw [h]; exact nodes_fillD t
  · rw [h]; simp [nodes]

theorem Inv_modifyAt (f : Tree α → Tree α) (hf : ∀ t c, Inv t c → Inv (f t) c) (path : List Nat) (t : Tree α)
    (c : Cell α) (h : Inv t c) : Inv (modifyAt f path t) c := by
  induction path generalizing t c with
  | nil => exact hf t c h
  | cons i rest ih =>
    cases t with
    | nil => simp [modifyAt, Inv]
    | node v c0 c1 c2 c3 =>
      obtain ⟨hv, h0, h1, h2, h3⟩ := h
      rcases i with _ | _ | _ | i <;> simp only [modifyAt]
      · exact ⟨hv, ih _ _ h0, h1, h2, h3⟩
      · exact ⟨hv, h0, ih _ _ h1, h2, h3⟩
      · exact ⟨hv, h0, h1, ih _ _ h2, h3⟩
      · exact ⟨hv, h0, h1, h2, ih _ _ h3⟩

theorem nodes_modifyAt (f : Tree α → Tree α) (hf : ∀ t, nodes (f t) ≤ nodes t) (path : List Nat) (t : Tree α) :
    nodes (modifyAt f path t) ≤ nodes t := by
  induction path generalizing t with
  | nil => exact hf t
  | cons i rest ih =>
    cases t with
    | nil => simp [modifyAt]
    | node v c0 c1 c2 c3 =>
      rcases i with _ | _ | _ | i <;> simp only [modifyAt, nodes]
      · have := ih c0; omega
      · have := ih c1; omega
      · have := ih c2; omega
      · have := ih c3; omega

/-- clearing the node reached by `path` removes exactly the value stored there -/
theorem contents_modifyAt_clear (path : List Nat) (t : Tree α) (x : Ptr α)
    (h : (subAt path t).value = some x) :
    (contents t).Perm (x :: contents (modifyAt clearNode path t)) := by
  induction path generalizing t with
  | nil =>
    simp only [subAt] at h
    simp only [modifyAt]
    rw [contents_clearNode, contents_eq_kids, h]; simp
  | cons i rest ih =>
    cases t with
    | nil => simp [subAt, Tree.child, Tree.value] at h
    | node v c0 c1 c2 c3 =>
      rcases i with _ | _ | _ | i <;> simp only [subAt, Tree.child] at h <;> simp only [modifyAt, contents]
      · exact (((perm_mid (ih _ h) _).append_right _).append_right _).append_right _
      · exact ((perm_mid (ih _ h) _).append_right _).append_right _
      · exact (perm_mid (ih _ h) _).append_right _
      · exact perm_mid (ih _ h) _

end Orb.Quadtree
