/-
  C16 — region clause for `smartclip.Polygon` / `smartclip.MultiPolygon`, part 2: ALL BRANCHES.

  OrbProofs/C16RegionPoly proves the region theorems of `smartclip.MultiPolygon` under `hop : op ≠ []`
  (some OUTER ring is cut by the box).  The code (smart.go:134-143) takes the main branch more often:
  it returns early only when no outer ring is cut AND (no outer ring lies inside the box OR every outer
  ring does).  Here:

  1. `multiPolygon_eq_gen`, `multiPolygon_cycle_gen`, `multiPolygon_region_const_gen`,
     `multiPolygon_region_of_ref_gen`, `multiPolygon_winding_const_gen`: the same conclusions with `hop`
     replaced by the exact negation of the two early returns,
       `hbr : ¬ (op = [] ∧ co = []) ∧ ¬ (op = [] ∧ co.length = (outerRings mp).length)`
     (`hbr_of_hop`: implied by `op ≠ []`; `hbr_of_fallthrough`: holds in the fall-through case
     `op = []`, `0 < co.length < (outerRings mp).length` — some outer rings inside and some outside, or
     only holes cut).
  2. the early-return branches: `polygon_unclipped`, `polygon_nil_const`, `multiPolygon_unclipped`,
     `multiPolygon_nil_const` (the counterparts of `ring_unclipped` / `ring_nil_const`), all through
     `rings_nil_const` (+ the signed form `rings_nil_winding`).
  3. `hk` (no closed interior ring is dropped by the hole assignment) IS A GENUINE HYPOTHESIS:
     `hk_needed_witness` — a concrete (malformed) polygon over ℚ for which `smartclip.Polygon` drops a
     closed ring lying in neither returned outer ring, so that the conclusion of `polygon_region_const`
     is FALSE; and the hypotheses are jointly satisfiable: `hk_holds_example` (two cut squares, a kept
     hole) and `hk_holds_fallthrough` (the fall-through branch `op = []`, one square inside with a
     hole, one outside).
-/
import OrbProofs.C16RegionPoly
import OrbProofs.C16Outside

namespace Orb.SmartClip
open Orb Orb.Core
open Orb.Clip.C16R (OutE Decomp SameSide dE pot)
open Orb.Clip.C08R (crE onE)

set_option linter.unusedSectionVars false
set_option linter.unusedSimpArgs false
set_option linter.unusedVariables false

variable {α : Type} [Field α] [LinearOrder α] [IsStrictOrderedRing α]

/-! ### 1. `smartclip.MultiPolygon`: the main branch under its exact condition -/

/-- the old hypothesis (an outer ring is cut) implies the branch condition -/
theorem hbr_of_hop {β γ : Type} {op co : List β} {outers : List γ} (hop : op ≠ []) :
    ¬ (op = [] ∧ co = []) ∧ ¬ (op = [] ∧ co.length = outers.length) :=
  ⟨fun h => hop h.1, fun h => hop h.1⟩

/-- the fall-through case (no outer ring cut, some but not all outer rings inside the box) satisfies
    the branch condition -/
theorem hbr_of_fallthrough {β γ : Type} {op co : List β} {outers : List γ}
    (h0 : 0 < co.length) (h1 : co.length < outers.length) :
    ¬ (op = [] ∧ co = []) ∧ ¬ (op = [] ∧ co.length = outers.length) :=
  ⟨fun h => by rw [h.2] at h0; exact absurd h0 (by simp), fun h => by omega⟩

/-- the branch condition excludes the empty multi-polygon -/
theorem mp_ne_of_hbr (box : Bound α) (mp : List (List (List (Pt α)))) (op co : List (List (Pt α)))
    (hcr1 : clipRings box (outerRings mp) = .ok (op, co)) (hbr : ¬ (op = [] ∧ co = [])) : mp ≠ [] := by
  rintro rfl
  simp [outerRings, clipRings, clipAll, partitionPieces] at hcr1
  exact hbr ⟨hcr1.1, hcr1.2⟩

/-- the main branch of `smartclip.MultiPolygon`, taken exactly when neither early return is
    (smart.go:134-143): also when no outer ring is cut but only some of them are inside the box -/
theorem multiPolygon_eq_gen (box : Bound α) (mp : List (List (List (Pt α)))) (o : Int)
    (op co inn ci : List (List (Pt α))) (hcr1 : clipRings box (outerRings mp) = .ok (op, co))
    (hbr : ¬ (op = [] ∧ co = []) ∧ ¬ (op = [] ∧ co.length = (outerRings mp).length))
    (hcr2 : clipRings box (mp.flatMap fun p => p.drop 1) = .ok (inn, ci))
    (result : List (List (List (Pt α)))) (hw : smartWrap box (op ++ inn) o = .ok result) :
    multiPolygon box mp o = addAll (result ++ co.map fun r => [r]) ci := by
  have hne := mp_ne_of_hbr box mp op co hcr1 hbr.1
  have hemp : mp.isEmpty = false := by
    cases mp with
    | nil => exact absurd rfl hne
    | cons a t => rfl
  have h1 : (op.isEmpty && co.isEmpty) = false := by
    cases hh : (op.isEmpty && co.isEmpty) with
    | false => rfl
    | true =>
      rw [Bool.and_eq_true] at hh
      exact absurd ⟨List.isEmpty_iff.1 hh.1, List.isEmpty_iff.1 hh.2⟩ hbr.1
  have h2 : (op.isEmpty && co.length == (outerRings mp).length) = false := by
    cases hh : (op.isEmpty && co.length == (outerRings mp).length) with
    | false => rfl
    | true =>
      rw [Bool.and_eq_true] at hh
      exact absurd ⟨List.isEmpty_iff.1 hh.1, by simpa using hh.2⟩ hbr.2
  rw [multiPolygon_unfold, hemp, hcr1]
  simp only [Bool.false_eq_true, if_false, resD_ok_bind, h1, h2, hcr2, hw]

/-- `smartclip.MultiPolygon`, main branch: output and input differ by a mod-2 cycle of edges avoiding the
    open box; also in the fall-through case where no outer ring is cut -/
theorem multiPolygon_cycle_gen (box : Bound α) (hb : BoxOK box) (mp : List (List (List (Pt α)))) (o : Int)
    (ho : o = CW ∨ o = CCW) (hrc : ∀ p ∈ mp, ∀ r ∈ p, ringClosed r = true)
    (op co inn ci : List (List (Pt α))) (hcr1 : clipRings box (outerRings mp) = .ok (op, co))
    (hbr : ¬ (op = [] ∧ co = []) ∧ ¬ (op = [] ∧ co.length = (outerRings mp).length))
    (hcr2 : clipRings box (mp.flatMap fun p => p.drop 1) = .ok (inn, ci))
    (hnd : ((op ++ inn).map List.head?).Nodup)
    (result : List (List (List (Pt α)))) (hw : smartWrap box (op ++ inn) o = .ok result)
    (out : List (List (List (Pt α)))) (h : multiPolygon box mp o = .ok out)
    (hk : ∀ ring ∈ ci, Contained ((result ++ co.map fun r => [r]).map List.head?) ring) :
    ∃ Z : List (Pt α × Pt α), (∀ se ∈ Z, OutE box se.1 se.2) ∧ (∀ g : Pt α → Bool, dE g Z = false) ∧
      (∀ q, (crE (out.flatten.flatMap EvenOdd.edges) q != crE (mp.flatten.flatMap EvenOdd.edges) q) = crE Z q) ∧
      (∀ q, InOpenBox box q →
        onE (out.flatten.flatMap EvenOdd.edges) q = onE (mp.flatten.flatMap EvenOdd.edges) q) := by
  have hmem : ∀ r ∈ mp.flatten, ringClosed r = true := by
    intro r hr
    obtain ⟨p, hp, hr⟩ := List.mem_flatten.1 hr
    exact hrc p hp r hr
  have hpm := outer_inner_perm mp
  have hrc1 : ∀ r ∈ outerRings mp, ringClosed r = true :=
    fun r hr => hmem r (hpm.subset (List.mem_append_left _ hr))
  have hrc2 : ∀ r ∈ (mp.flatMap fun p => p.drop 1), ringClosed r = true :=
    fun r hr => hmem r (hpm.subset (List.mem_append_right _ hr))
  obtain ⟨⟨O1, hO1, D1⟩, hpok1, hcl1⟩ := clipRings_decomp_multi box hb _ hrc1 op co hcr1
  obtain ⟨⟨O2, hO2, D2⟩, hpok2, hcl2⟩ := clipRings_decomp_multi box hb _ hrc2 inn ci hcr2
  rw [multiPolygon_eq_gen box mp o op co inn ci hcr1 hbr hcr2 result hw] at h
  have hkeep := addAll_keep ci _ out h hk
  rw [List.flatten_append, flatten_map_single] at hkeep
  -- the combined decomposition
  have D : Decomp ((outerRings mp ++ mp.flatMap fun p => p.drop 1).flatMap Contains.chain)
      (((op ++ inn) ++ (co ++ ci)).flatMap Contains.chain) (O1 ++ O2) := by
    have := D1.append D2
    rw [← List.flatMap_append, ← List.flatMap_append] at this
    refine this.of_perm (List.Perm.flatMap_right _ ?_) (List.Perm.refl _)
    have e : ((op ++ co) ++ (inn ++ ci)).Perm (op ++ ((inn ++ co) ++ ci)) := by
      simp only [List.append_assoc]
      refine List.Perm.append_left _ ?_
      rw [← List.append_assoc, ← List.append_assoc]
      exact List.Perm.append_right _ List.perm_append_comm
    refine e.trans ?_
    simp only [List.append_assoc]
    exact List.Perm.refl _
  have hZ := cycle_core box hb o ho (outerRings mp ++ mp.flatMap fun p => p.drop 1)
    (fun r hr => ringClosed_closed r (hmem r (hpm.subset hr))) (op ++ inn) (co ++ ci)
    (by
      intro ls hls
      rcases List.mem_append.1 hls with h' | h'
      · exact hpok1 ls h'
      · exact hpok2 ls h')
    hnd
    (by
      intro rg hrg
      rcases List.mem_append.1 hrg with h' | h'
      · exact insideRing_closed hcl1 rg h'
      · exact insideRing_closed hcl2 rg h')
    (O1 ++ O2)
    (by
      intro se hse
      rcases List.mem_append.1 hse with h' | h'
      · exact hO1 se h'
      · exact hO2 se h')
    D result hw out.flatten (by rw [← List.append_assoc]; exact hkeep)
  obtain ⟨Z, z1, z2, z3, z4⟩ := hZ
  have pe := List.Perm.flatMap_right EvenOdd.edges hpm
  refine ⟨Z, z1, z2, ?_, ?_⟩
  · intro q; rw [← z3 q, Clip.C16R.crE_perm pe q]
  · intro q hq; rw [z4 q hq, Clip.C16R.onE_perm pe q]

/-- `smartclip.MultiPolygon`, main branch, with signs. -/
theorem multiPolygon_winding_const_gen (box : Bound α) (hb : BoxOK box) (mp : List (List (List (Pt α)))) (o : Int)
    (ho : o = CW ∨ o = CCW) (hrc : ∀ p ∈ mp, ∀ r ∈ p, ringClosed r = true)
    (op co inn ci : List (List (Pt α))) (hcr1 : clipRings box (outerRings mp) = .ok (op, co))
    (hbr : ¬ (op = [] ∧ co = []) ∧ ¬ (op = [] ∧ co.length = (outerRings mp).length))
    (hcr2 : clipRings box (mp.flatMap fun p => p.drop 1) = .ok (inn, ci))
    (hnd : ((op ++ inn).map List.head?).Nodup)
    (result : List (List (List (Pt α)))) (hw : smartWrap box (op ++ inn) o = .ok result)
    (out : List (List (List (Pt α)))) (h : multiPolygon box mp o = .ok out)
    (hk : ∀ ring ∈ ci, Contained ((result ++ co.map fun r => [r]).map List.head?) ring)
    (q q₀ : Pt α) (hq : InOpenBox box q) (hq₀ : InOpenBox box q₀) :
    multiWinding out q - multiWinding mp q = multiWinding out q₀ - multiWinding mp q₀ := by
  have hmem : ∀ r ∈ mp.flatten, ringClosed r = true := by
    intro r hr
    obtain ⟨p, hp, hr⟩ := List.mem_flatten.1 hr
    exact hrc p hp r hr
  have hpm := outer_inner_perm mp
  have hrc1 : ∀ r ∈ outerRings mp, ringClosed r = true :=
    fun r hr => hmem r (hpm.subset (List.mem_append_left _ hr))
  have hrc2 : ∀ r ∈ (mp.flatMap fun p => p.drop 1), ringClosed r = true :=
    fun r hr => hmem r (hpm.subset (List.mem_append_right _ hr))
  obtain ⟨⟨O1, hO1, D1⟩, hpok1, hcl1⟩ := clipRings_decomp_multi box hb _ hrc1 op co hcr1
  obtain ⟨⟨O2, hO2, D2⟩, hpok2, hcl2⟩ := clipRings_decomp_multi box hb _ hrc2 inn ci hcr2
  rw [multiPolygon_eq_gen box mp o op co inn ci hcr1 hbr hcr2 result hw] at h
  have hkeep := addAll_keep ci _ out h hk
  rw [List.flatten_append, flatten_map_single] at hkeep
  have D : Decomp ((outerRings mp ++ mp.flatMap fun p => p.drop 1).flatMap Contains.chain)
      (((op ++ inn) ++ (co ++ ci)).flatMap Contains.chain) (O1 ++ O2) := by
    have := D1.append D2
    rw [← List.flatMap_append, ← List.flatMap_append] at this
    refine this.of_perm (List.Perm.flatMap_right _ ?_) (List.Perm.refl _)
    have e : ((op ++ co) ++ (inn ++ ci)).Perm (op ++ ((inn ++ co) ++ ci)) := by
      simp only [List.append_assoc]
      refine List.Perm.append_left _ ?_
      rw [← List.append_assoc, ← List.append_assoc]
      exact List.Perm.append_right _ List.perm_append_comm
    refine e.trans ?_
    simp only [List.append_assoc]
    exact List.Perm.refl _
  have hZ := cycle_core_w box hb o ho (outerRings mp ++ mp.flatMap fun p => p.drop 1)
    (fun r hr => ringClosed_closed r (hmem r (hpm.subset hr))) (op ++ inn) (co ++ ci)
    (by
      intro ls hls
      rcases List.mem_append.1 hls with h' | h'
      · exact hpok1 ls h'
      · exact hpok2 ls h')
    hnd
    (by
      intro rg hrg
      rcases List.mem_append.1 hrg with h' | h'
      · exact insideRing_closed hcl1 rg h'
      · exact insideRing_closed hcl2 rg h')
    (O1 ++ O2)
    (by
      intro se hse
      rcases List.mem_append.1 hse with h' | h'
      · exact hO1 se h'
      · exact hO2 se h')
    D result hw out.flatten (by rw [← List.append_assoc]; exact hkeep) q q₀ hq hq₀
  have pe := List.Perm.flatMap_right EvenOdd.edges hpm
  rw [multiWinding_eq, multiWinding_eq, multiWinding_eq, multiWinding_eq,
    ← Clip.C16R.wE_perm pe q, ← Clip.C16R.wE_perm pe q₀]
  exact hZ

/-- (R5, one-bit form) `smartclip.MultiPolygon`, main branch under its exact condition. -/
theorem multiPolygon_region_const_gen (box : Bound α) (hb : BoxOK box) (mp : List (List (List (Pt α)))) (o : Int)
    (ho : o = CW ∨ o = CCW) (hrc : ∀ p ∈ mp, ∀ r ∈ p, ringClosed r = true)
    (op co inn ci : List (List (Pt α))) (hcr1 : clipRings box (outerRings mp) = .ok (op, co))
    (hbr : ¬ (op = [] ∧ co = []) ∧ ¬ (op = [] ∧ co.length = (outerRings mp).length))
    (hcr2 : clipRings box (mp.flatMap fun p => p.drop 1) = .ok (inn, ci))
    (hnd : ((op ++ inn).map List.head?).Nodup)
    (result : List (List (List (Pt α)))) (hw : smartWrap box (op ++ inn) o = .ok result)
    (out : List (List (List (Pt α)))) (h : multiPolygon box mp o = .ok out)
    (hk : ∀ ring ∈ ci, Contained ((result ++ co.map fun r => [r]).map List.head?) ring)
    (q q₀ : Pt α) (hq : InOpenBox box q) (hq₀ : InOpenBox box q₀) :
    ((multiCrossings out q % 2 == 1) != (multiCrossings mp q % 2 == 1)) =
      ((multiCrossings out q₀ % 2 == 1) != (multiCrossings mp q₀ % 2 == 1)) := by
  have hZ := multiPolygon_cycle_gen box hb mp o ho hrc op co inn ci hcr1 hbr hcr2 hnd result hw out h hk
  rw [multiCrossings_parity, multiCrossings_parity, multiCrossings_parity, multiCrossings_parity]
  exact cycle_const box hb _ _ hZ q q₀ hq hq₀

/-- `smartclip.MultiPolygon`, main branch under its exact condition: right at one point of the open box
    ⇒ right at every point of the open box. -/
theorem multiPolygon_region_of_ref_gen (box : Bound α) (hb : BoxOK box) (mp : List (List (List (Pt α)))) (o : Int)
    (ho : o = CW ∨ o = CCW) (hrc : ∀ p ∈ mp, ∀ r ∈ p, ringClosed r = true)
    (op co inn ci : List (List (Pt α))) (hcr1 : clipRings box (outerRings mp) = .ok (op, co))
    (hbr : ¬ (op = [] ∧ co = []) ∧ ¬ (op = [] ∧ co.length = (outerRings mp).length))
    (hcr2 : clipRings box (mp.flatMap fun p => p.drop 1) = .ok (inn, ci))
    (hnd : ((op ++ inn).map List.head?).Nodup)
    (result : List (List (List (Pt α)))) (hw : smartWrap box (op ++ inn) o = .ok result)
    (out : List (List (List (Pt α)))) (h : multiPolygon box mp o = .ok out)
    (hk : ∀ ring ∈ ci, Contained ((result ++ co.map fun r => [r]).map List.head?) ring)
    (q₀ : Pt α) (hq₀ : InOpenBox box q₀) (href : multiCrossings out q₀ % 2 = multiCrossings mp q₀ % 2)
    (q : Pt α) (hq : InOpenBox box q) :
    multiCrossings out q % 2 = multiCrossings mp q % 2 ∧ multiOnBoundary out q = multiOnBoundary mp q ∧
      multiEvenOdd out q = multiEvenOdd mp q := by
  have hc := multiPolygon_region_const_gen box hb mp o ho hrc op co inn ci hcr1 hbr hcr2 hnd result hw out h hk
    q q₀ hq hq₀
  obtain ⟨Z, _, _, _, hon⟩ :=
    multiPolygon_cycle_gen box hb mp o ho hrc op co inn ci hcr1 hbr hcr2 hnd result hw out h hk
  have h1 : multiCrossings out q % 2 = multiCrossings mp q % 2 := parity_transfer hc href
  have h2 : multiOnBoundary out q = multiOnBoundary mp q := by
    rw [multiOnBoundary_eq, multiOnBoundary_eq]
    exact hon q hq
  refine ⟨h1, h2, ?_⟩
  unfold multiEvenOdd
  rw [h2, h1]

/-! ### 2. the early-return branches -/

/-- Rings closed in Go's sense of which `clipRings` keeps NOTHING (no open piece, no interior ring): no
    ring passes through the open box, and the whole open box is on one side of all of them together —
    the joint crossing parity is the same at all points of the open box. -/
theorem rings_nil_const (box : Bound α) (hb : BoxOK box) (rings : List (List (Pt α)))
    (hrc : ∀ r ∈ rings, ringClosed r = true) (hcr : clipRings box rings = .ok ([], []))
    (q q₀ : Pt α) (hq : InOpenBox box q) (hq₀ : InOpenBox box q₀) :
    multiCrossings [rings] q % 2 = multiCrossings [rings] q₀ % 2 ∧ multiOnBoundary [rings] q = false := by
  have hcl : ∀ r ∈ rings, ClosedRing r ∧ 2 ≤ r.length := fun r hr => ringClosed_closed r (hrc r hr)
  obtain ⟨⟨O, hO, D⟩, _, _⟩ := clipRings_decomp_multi box hb rings hrc [] [] hcr
  simp only [List.append_nil, List.flatMap_nil] at D
  have hd : dE (pot box q q₀) O = false := by
    have := D.d (pot box q q₀)
    rw [closedL_dE rings (fun r hr => (hcl r hr).1), Clip.C16R.dE_nil] at this
    revert this
    cases dE (pot box q q₀) O <;> simp
  have key := Clip.C16R.outE_list (box := box) hb hq hq₀ O hO
  rw [hd] at key
  constructor
  · apply parity_of_beq
    rw [multiCrossings_parity, multiCrossings_parity]
    simp only [List.flatten_cons, List.flatten_nil, List.append_nil]
    rw [closedL_crE _ (fun r hr => (hcl r hr).1), closedL_crE _ (fun r hr => (hcl r hr).1), D.cr q, D.cr q₀,
      Clip.C08R.crE_nil, Clip.C08R.crE_nil]
    revert key
    cases crE O q <;> cases crE O q₀ <;> simp
  · rw [multiOnBoundary_eq]
    simp only [List.flatten_cons, List.flatten_nil, List.append_nil]
    rw [closedL_onE _ (fun r hr => (hcl r hr).1) (fun r hr => (hcl r hr).2), D.on q, Clip.C08R.onE_nil,
      Clip.C16R.outE_list_on hq O hO]
    rfl

/-- … with signs: the total winding number of such rings is the same round all points of the open box -/
theorem rings_nil_winding (box : Bound α) (hb : BoxOK box) (rings : List (List (Pt α)))
    (hrc : ∀ r ∈ rings, ringClosed r = true) (hcr : clipRings box rings = .ok ([], []))
    (q q₀ : Pt α) (hq : InOpenBox box q) (hq₀ : InOpenBox box q₀) :
    multiWinding [rings] q = multiWinding [rings] q₀ := by
  have hcl : ∀ r ∈ rings, ClosedRing r ∧ 2 ≤ r.length := fun r hr => ringClosed_closed r (hrc r hr)
  obtain ⟨⟨O, hO, D⟩, _, _⟩ := clipRings_decomp_multi box hb rings hrc [] [] hcr
  simp only [List.append_nil, List.flatMap_nil] at D
  have k := Clip.C16R.outE_list_sgn (box := box) hb hq hq₀ O hO
  generalize Clip.C16R.potZ box q q₀ = P at k
  have e1 : Clip.C16R.dZ P (rings.flatMap Contains.chain) = 0 := closedL_dZ _ (fun r hr => (hcl r hr).1) P
  rw [D.dz P] at e1
  have e0 : Clip.C16R.dZ P ([] : List (Pt α × Pt α)) = 0 := rfl
  have w0 : ∀ p, Clip.C16R.wE ([] : List (Pt α × Pt α)) p = 0 := fun _ => rfl
  rw [multiWinding_eq, multiWinding_eq]
  simp only [List.flatten_cons, List.flatten_nil, List.append_nil]
  rw [closedL_wE _ (fun r hr => (hcl r hr).1) q, closedL_wE _ (fun r hr => (hcl r hr).1) q₀, D.w q, D.w q₀,
    w0, w0]
  rw [e0] at e1
  linarith

/-- `smartclip.Polygon`, no open piece but an interior ring: the input is handed back whole (region
    trivially equal) -/
theorem polygon_unclipped (box : Bound α) (p : List (List (Pt α))) (o : Int) (hne : p ≠ [])
    (cl : List (List (Pt α))) (hcr : clipRings box p = .ok ([], cl)) (hcl : cl ≠ []) :
    polygon box p o = .ok [p] := by
  have hemp : p.isEmpty = false := by
    cases p with
    | nil => exact absurd rfl hne
    | cons a t => rfl
  have hclE : cl.isEmpty = false := by
    cases cl with
    | nil => exact absurd rfl hcl
    | cons a t => rfl
  rw [polygon_unfold, hemp, hcr]
  simp only [Bool.false_eq_true, if_false, resD_ok_bind, List.isEmpty_nil, if_true, hclE]
  rfl

/-- `smartclip.Polygon`, neither an open piece nor an interior ring: no ring of the polygon meets the open
    box, `smartclip.Polygon` returns nothing, and the whole open box is on ONE side of the polygon (all
    inside or all outside, by the joint even-odd parity of all its rings — the former is the known case
    "box wholly inside the polygon", outside the property's quantifier). -/
theorem polygon_nil_const (box : Bound α) (hb : BoxOK box) (p : List (List (Pt α))) (o : Int)
    (hrc : ∀ r ∈ p, ringClosed r = true) (hcr : clipRings box p = .ok ([], [])) :
    polygon box p o = .ok [] ∧ ∀ q q₀, InOpenBox box q → InOpenBox box q₀ →
      multiCrossings [p] q % 2 = multiCrossings [p] q₀ % 2 ∧ multiOnBoundary [p] q = false := by
  constructor
  · rw [polygon_unfold, hcr]
    simp only [resD_ok_bind, List.isEmpty_nil, if_true]
    split_ifs <;> rfl
  · intro q q₀ hq hq₀
    exact rings_nil_const box hb p hrc hcr q q₀ hq hq₀

/-- `smartclip.MultiPolygon`, no outer ring cut and every outer ring inside the box: the input is handed
    back whole (region trivially equal).  Inner rings are not looked at by the code in this branch. -/
theorem multiPolygon_unclipped (box : Bound α) (mp : List (List (List (Pt α)))) (o : Int)
    (co : List (List (Pt α))) (hcr : clipRings box (outerRings mp) = .ok ([], co)) (hco : co ≠ [])
    (hlen : co.length = (outerRings mp).length) : multiPolygon box mp o = .ok mp := by
  have hcoE : co.isEmpty = false := by
    cases co with
    | nil => exact absurd rfl hco
    | cons a t => rfl
  rw [multiPolygon_unfold, hcr]
  simp only [resD_ok_bind, List.isEmpty_nil, Bool.true_and, hcoE, Bool.false_eq_true, if_false, hlen,
    beq_self_eq_true, if_true]
  split_ifs with h
  · rw [List.isEmpty_iff.1 h]
  · rfl

/-- `smartclip.MultiPolygon`, no outer ring cut and no outer ring inside the box: `smartclip.MultiPolygon`
    returns nothing, no OUTER ring passes through the open box, and the whole open box is on one side of
    the outer rings together (their joint crossing parity `multiCrossings [outerRings mp]`, the sum of
    `EvenOdd.crossings` over the outer rings, is the same at all points of the open box).
    INNER RINGS ARE NOT LOOKED AT by the code in this branch (smart.go:134-139 returns before the inner
    rings are collected), so nothing is claimed about them: a hole meeting the box while its outer ring
    does not is malformed input.  (`mp ≠ []` is not needed: the empty multi-polygon also gives nil.) -/
theorem multiPolygon_nil_const (box : Bound α) (hb : BoxOK box) (mp : List (List (List (Pt α)))) (o : Int)
    (hrc : ∀ r ∈ outerRings mp, ringClosed r = true) (hcr : clipRings box (outerRings mp) = .ok ([], [])) :
    multiPolygon box mp o = .ok [] ∧ ∀ q q₀, InOpenBox box q → InOpenBox box q₀ →
      multiCrossings [outerRings mp] q % 2 = multiCrossings [outerRings mp] q₀ % 2 ∧
        multiOnBoundary [outerRings mp] q = false := by
  constructor
  · rw [multiPolygon_unfold, hcr]
    simp only [resD_ok_bind, List.isEmpty_nil, Bool.and_self, if_true]
    split_ifs <;> rfl
  · intro q q₀ hq hq₀
    exact rings_nil_const box hb _ hrc hcr q q₀ hq hq₀

/-- `multiCrossings [rings]` is the plain sum of the crossing numbers of the rings -/
theorem multiCrossings_single (rings : List (List (Pt α))) (q : Pt α) :
    multiCrossings [rings] q = (rings.map fun rg => EvenOdd.crossings rg q).sum := by
  simp [multiCrossings]

/-! ### 3. `hk` is a genuine hypothesis, and the hypotheses are jointly satisfiable (ℚ) -/

section witness2

/-- the box `[0,8]²` -/
def kBox : Bound ℚ := ⟨⟨0, 0⟩, ⟨8, 8⟩⟩

theorem kBox_ok : BoxOK kBox := by constructor <;> simp [kBox]

/-- a counter-clockwise U whose bottom lies below the box: the box cuts it into the two prongs
    `[1,3]×[0,4]` and `[5,7]×[0,4]` -/
def kOuter : List (Pt ℚ) := [⟨1, -2⟩, ⟨7, -2⟩, ⟨7, 4⟩, ⟨5, 4⟩, ⟨5, -1⟩, ⟨3, -1⟩, ⟨3, 4⟩, ⟨1, 4⟩, ⟨1, -2⟩]
/-- a closed "hole" ring strictly inside the box but in NEITHER prong (malformed input: not inside its
    outer ring) -/
def kHole : List (Pt ℚ) := [⟨2, 5⟩, ⟨3, 5⟩, ⟨3, 6⟩, ⟨2, 6⟩, ⟨2, 5⟩]

def kOp : List (List (Pt ℚ)) := [[⟨7, 0⟩, ⟨7, 4⟩, ⟨5, 4⟩, ⟨5, 0⟩], [⟨3, 0⟩, ⟨3, 4⟩, ⟨1, 4⟩, ⟨1, 0⟩]]
def kResult : List (List (List (Pt ℚ))) :=
  [[[⟨3, 0⟩, ⟨3, 4⟩, ⟨1, 4⟩, ⟨1, 0⟩, ⟨3, 0⟩]], [[⟨7, 0⟩, ⟨7, 4⟩, ⟨5, 4⟩, ⟨5, 0⟩, ⟨7, 0⟩]]]

theorem kClip : clipRings kBox [kOuter, kHole] = .ok (kOp, [kHole]) := by with_unfolding_all rfl
theorem kWrap : smartWrap kBox kOp CCW = .ok kResult := by with_unfolding_all rfl
/-- the hole is DROPPED: only the two prongs come back -/
theorem kPolygon : polygon kBox [kOuter, kHole] CCW = .ok kResult := by with_unfolding_all rfl

/-- `hk` CANNOT BE DROPPED from `polygon_region_const` (nor from the other `polygon_*` / `multiPolygon_*`
    region theorems).  For the box `[0,8]²`, the U-shaped outer ring `kOuter` and the closed ring `kHole`
    strictly inside the box, every OTHER hypothesis of `polygon_region_const` holds (box of positive area,
    `o = CCW`, both rings closed in Go's sense, two open pieces with distinct start points, `smartWrap`
    and `smartclip.Polygon` succeed), yet
    * `addAll` / `addToMultiPolygon` drops the closed interior ring: fewer rings are returned than
      `smartWrap` made plus the closed interior rings (`out.flatten.length < result.flatten.length + cl.length`),
      so `hk` fails;
    * and the conclusion of `polygon_region_const` is FALSE: at `q₀ = (2,2)` (inside a prong) output and
      input agree, at `q = (5/2, 11/2)` (inside the dropped ring) they differ, both in the open box. -/
theorem hk_needed_witness :
    BoxOK kBox ∧ (∀ r ∈ [kOuter, kHole], ringClosed r = true) ∧
    clipRings kBox [kOuter, kHole] = .ok (kOp, [kHole]) ∧ kOp ≠ [] ∧ (kOp.map List.head?).Nodup ∧
    smartWrap kBox kOp CCW = .ok kResult ∧ polygon kBox [kOuter, kHole] CCW = .ok kResult ∧
    kResult.flatten.length < kResult.flatten.length + [kHole].length ∧
    ¬ ((∃ pg, kResult = [pg]) ∨ ∀ ring ∈ [kHole], Contained (kResult.map List.head?) ring) ∧
    InOpenBox kBox ⟨5/2, 11/2⟩ ∧ InOpenBox kBox ⟨2, 2⟩ ∧
    ((multiCrossings kResult ⟨5/2, 11/2⟩ % 2 == 1) != (multiCrossings [[kOuter, kHole]] ⟨5/2, 11/2⟩ % 2 == 1)) ≠
      ((multiCrossings kResult ⟨2, 2⟩ % 2 == 1) != (multiCrossings [[kOuter, kHole]] ⟨2, 2⟩ % 2 == 1)) := by
  have hconcl : ((multiCrossings kResult ⟨5/2, 11/2⟩ % 2 == 1) !=
        (multiCrossings [[kOuter, kHole]] ⟨5/2, 11/2⟩ % 2 == 1)) ≠
      ((multiCrossings kResult ⟨2, 2⟩ % 2 == 1) != (multiCrossings [[kOuter, kHole]] ⟨2, 2⟩ % 2 == 1)) := by
    decide +kernel
  have hq : InOpenBox kBox ⟨5/2, 11/2⟩ := by simp [InOpenBox, kBox]; norm_num
  have hq₀ : InOpenBox kBox ⟨2, 2⟩ := by simp [InOpenBox, kBox]; norm_num
  have hnd : (kOp.map List.head?).Nodup := by decide +kernel
  have hrc : ∀ r ∈ [kOuter, kHole], ringClosed r = true := by decide +kernel
  refine ⟨kBox_ok, hrc, kClip, by simp [kOp], hnd, kWrap, kPolygon, by simp, ?_, hq, hq₀, hconcl⟩
  intro hk
  exact hconcl (polygon_region_const kBox kBox_ok [kOuter, kHole] CCW (Or.inr rfl) hrc kOp [kHole] kClip
    (by simp [kOp]) hnd kResult kWrap kResult kPolygon hk _ _ hq hq₀)

/-! #### the hypotheses are jointly satisfiable -/

/-- a square cut by the right edge of the box, with a hole in the part inside the box -/
def eSq1 : List (Pt ℚ) := [⟨4, 1⟩, ⟨10, 1⟩, ⟨10, 5⟩, ⟨4, 5⟩, ⟨4, 1⟩]
def eHole : List (Pt ℚ) := [⟨5, 2⟩, ⟨5, 4⟩, ⟨7, 4⟩, ⟨7, 2⟩, ⟨5, 2⟩]
/-- a square cut by the left edge of the box -/
def eSq2 : List (Pt ℚ) := [⟨-2, 1⟩, ⟨2, 1⟩, ⟨2, 5⟩, ⟨-2, 5⟩, ⟨-2, 1⟩]
def eMP : List (List (List (Pt ℚ))) := [[eSq1, eHole], [eSq2]]
def eOp : List (List (Pt ℚ)) := [[⟨8, 5⟩, ⟨4, 5⟩, ⟨4, 1⟩, ⟨8, 1⟩], [⟨0, 1⟩, ⟨2, 1⟩, ⟨2, 5⟩, ⟨0, 5⟩]]
def eResult : List (List (List (Pt ℚ))) :=
  [[[⟨0, 1⟩, ⟨2, 1⟩, ⟨2, 5⟩, ⟨0, 5⟩, ⟨0, 1⟩]], [[⟨8, 5⟩, ⟨4, 5⟩, ⟨4, 1⟩, ⟨8, 1⟩, ⟨8, 5⟩]]]
def eOut : List (List (List (Pt ℚ))) :=
  [[[⟨0, 1⟩, ⟨2, 1⟩, ⟨2, 5⟩, ⟨0, 5⟩, ⟨0, 1⟩]], [[⟨8, 5⟩, ⟨4, 5⟩, ⟨4, 1⟩, ⟨8, 1⟩, ⟨8, 5⟩], eHole]]

theorem eClip1 : clipRings kBox (outerRings eMP) = .ok (eOp, []) := by with_unfolding_all rfl
theorem eClip2 : clipRings kBox (eMP.flatMap fun p => p.drop 1) = .ok ([], [eHole]) := by with_unfolding_all rfl
theorem eWrap : smartWrap kBox (eOp ++ []) CCW = .ok eResult := by with_unfolding_all rfl
theorem eMulti : multiPolygon kBox eMP CCW = .ok eOut := by with_unfolding_all rfl
theorem eHk : ∀ ring ∈ [eHole], Contained ((eResult ++ ([] : List (List (Pt ℚ))).map fun r => [r]).map List.head?) ring := by
  intro ring hr
  simp only [List.mem_singleton] at hr
  subst hr
  exact ⟨[⟨8, 5⟩, ⟨4, 5⟩, ⟨4, 1⟩, ⟨8, 1⟩, ⟨8, 5⟩], by simp [eResult], by decide +kernel⟩

/-- ALL THE HYPOTHESES of the `multiPolygon_*_gen` theorems (`hrc`, the branch condition `hbr`, the
    general-position condition `hnd`, and `hk`) HOLD TOGETHER for two squares cut by the box, one with a
    hole that is kept; hence, by `multiPolygon_region_of_ref_gen` and one evaluation at `(1,2)`, the returned
    multi-polygon encloses (even-odd) exactly the part of the input inside the box, at EVERY point of
    the open box. -/
theorem hk_holds_example (q : Pt ℚ) (hq : InOpenBox kBox q) : multiEvenOdd eOut q = multiEvenOdd eMP q :=
  (multiPolygon_region_of_ref_gen kBox kBox_ok eMP CCW (Or.inr rfl) (by decide +kernel) eOp [] [] [eHole] eClip1
    (hbr_of_hop (by simp [eOp])) eClip2 (by decide +kernel) eResult eWrap eOut eMulti eHk
    ⟨1, 2⟩ (by simp [InOpenBox, kBox]; norm_num) (by decide +kernel) q hq).2.2

/-- a square inside the box with a hole, and a square outside the box: NO outer ring is cut -/
def fIn : List (Pt ℚ) := [⟨1, 1⟩, ⟨7, 1⟩, ⟨7, 7⟩, ⟨1, 7⟩, ⟨1, 1⟩]
def fHole : List (Pt ℚ) := [⟨2, 2⟩, ⟨2, 4⟩, ⟨4, 4⟩, ⟨4, 2⟩, ⟨2, 2⟩]
def fOut : List (Pt ℚ) := [⟨10, 1⟩, ⟨12, 1⟩, ⟨12, 3⟩, ⟨10, 3⟩, ⟨10, 1⟩]
def fMP : List (List (List (Pt ℚ))) := [[fIn, fHole], [fOut]]

theorem fClip1 : clipRings kBox (outerRings fMP) = .ok ([], [fIn]) := by with_unfolding_all rfl
theorem fClip2 : clipRings kBox (fMP.flatMap fun p => p.drop 1) = .ok ([], [fHole]) := by with_unfolding_all rfl
theorem fWrap : smartWrap kBox (([] : List (List (Pt ℚ))) ++ []) CCW = .ok [] := by with_unfolding_all rfl
theorem fMulti : multiPolygon kBox fMP CCW = .ok [[fIn, fHole]] := by with_unfolding_all rfl
theorem fHk : ∀ ring ∈ [fHole],
    Contained ((([] : List (List (List (Pt ℚ)))) ++ [fIn].map fun r => [r]).map List.head?) ring := by
  intro ring hr
  simp only [List.mem_singleton] at hr
  subst hr
  exact ⟨fIn, by simp, by decide +kernel⟩

/-- THE FALL-THROUGH BRANCH (smart.go:134-143: no outer ring cut, one outer ring inside the box and one
    outside — `op = []`, `0 < co.length = 1 < 2 = (outerRings mp).length`, where `hop : op ≠ []` of the
    old theorems fails): all the hypotheses of the `multiPolygon_*_gen` theorems hold together, and the
    returned multi-polygon (the inside square with its hole; the outside square is gone) encloses exactly
    the part of the input inside the box at every point of the open box. -/
theorem hk_holds_fallthrough (q : Pt ℚ) (hq : InOpenBox kBox q) :
    multiEvenOdd [[fIn, fHole]] q = multiEvenOdd fMP q :=
  (multiPolygon_region_of_ref_gen kBox kBox_ok fMP CCW (Or.inr rfl) (by decide +kernel) [] [fIn] [] [fHole] fClip1
    (hbr_of_fallthrough (by decide) (by decide)) fClip2 (by decide +kernel) [] fWrap [[fIn, fHole]] fMulti fHk
    ⟨5, 5⟩ (by simp [InOpenBox, kBox]; norm_num) (by decide +kernel) q hq).2.2

end witness2

/-! ### wholly outside: the hypothesis `clipRings … = ([], [])` of the `*_nil_const` theorems discharged -/

/-- A closed ring with no point in the open box: `smartclip.Ring` returns nil, the ring does not pass
    through the open box and its even-odd region is the same at all points of the open box (all of the
    box or none of it) — `ring_nil_const` with its `clipRings` hypothesis derived from the geometry. -/
theorem ring_outside_region_const (box : Bound α) (hb : BoxOK box) (r : List (Pt α)) (o : Int)
    (hrc : ringClosed r = true) (h : RingAvoidsOpenBox box r) :
    ring box r o = .ok [] ∧ ∀ q q₀, InOpenBox box q → InOpenBox box q₀ →
      EvenOdd.crossings r q % 2 = EvenOdd.crossings r q₀ % 2 ∧ EvenOdd.onBoundary r q = false :=
  ring_nil_const box hb r o hrc (ring_outside_nil_strong box hb r o h).1

/-- the same for a polygon all of whose rings avoid the open box -/
theorem polygon_outside_region_const (box : Bound α) (hb : BoxOK box) (p : List (List (Pt α))) (o : Int)
    (hrc : ∀ r ∈ p, ringClosed r = true) (h : ∀ r ∈ p, RingAvoidsOpenBox box r) :
    polygon box p o = .ok [] ∧ ∀ q q₀, InOpenBox box q → InOpenBox box q₀ →
      multiCrossings [p] q % 2 = multiCrossings [p] q₀ % 2 ∧ multiOnBoundary [p] q = false :=
  polygon_nil_const box hb p o hrc (clipRings_outside_nil box hb p h)

end Orb.SmartClip
