/-
  C11 — the arguments of a k-nearest call as the caller sees them (lemmas; statements re-exported by
  OrbProofs/C11.lean).  The variadic `maxDistance ...float64` is the caller's slice when the call is
  written `lims...`; the model of a call (`Orb.Quadtree.kNearestCall`) returns it next to the answer.
-/
import Orb.Quadtree
import Mathlib.Algebra.Order.Field.Rat

namespace Orb.Quadtree
open Orb Orb.Core

section
variable {α : Type} [Add α] [Sub α] [Mul α] [Div α] [OfNat α 2] [LT α] [LE α] [DecidableLT α] [DecidableLE α]
  [Min α] [Max α]

theorem kNearestCall_limits_unchanged' (init : Option α) (sqrt : α → α) (q : QT α) (pt : Pt α) (k : Nat)
    (f : Ptr α → Bool) (lims : List α) : (kNearestCall init sqrt q pt k f lims).2 = lims := rfl

theorem kNearestCall_reads_first_only' (init : Option α) (sqrt : α → α) (q : QT α) (pt : Pt α) (k : Nat)
    (f : Ptr α → Bool) (m : α) (rest : List α) :
    (kNearestCall init sqrt q pt k f (m :: rest)).1 = kNearestFrom init sqrt q pt k f (some m) ∧
    (kNearestCall init sqrt q pt k f []).1 = kNearestFrom init sqrt q pt k f none := ⟨rfl, rfl⟩

theorem kNearestCalls_eq_map' (init : Option α) (sqrt : α → α) (q : QT α)
    (cs : List (Pt α × Nat × (Ptr α → Bool))) (lims : List α) :
    (kNearestCalls init sqrt q cs lims).1 = cs.map (fun c => kNearestFrom init sqrt q c.1 c.2.1 c.2.2 (limitOf lims)) ∧
    (kNearestCalls init sqrt q cs lims).2 = lims := by
  induction cs with
  | nil => exact ⟨rfl, rfl⟩
  | cons c rest ih =>
    obtain ⟨pt, k, f⟩ := c
    simp only [kNearestCalls, kNearestCall, List.map_cons]
    exact ⟨by rw [ih.1], ih.2⟩

/-- what a call would be if the library squared the limit IN PLACE (`maxDistance[0] *= maxDistance[0]`):
    NOT the model — used only to show that the clause "the limits slice reads after the call what the
    caller stored" can fail and that its failure changes later answers -/
def kNearestCallSquaring (init : Option α) (sqrt : α → α) (q : QT α) (pt : Pt α) (k : Nat) (filter : Ptr α → Bool)
    (maxDistance : List α) : List (Ptr α) × List α :=
  (kNearestFrom init sqrt q pt k filter (limitOf maxDistance),
   match maxDistance with
   | [] => []
   | m :: rest => (m * m) :: rest)

end

/-- four pointers on a line at x = 0, 1, 3, 10 in the tree bound [-16,16]² -/
def lineTree : QT ℚ :=
  [(1, (0 : ℚ)), (2, 1), (3, 3), (4, 10)].foldl (fun q (ip : Nat × ℚ) => (add q ⟨ip.1, ⟨ip.2, 0⟩⟩).1) ⟨⟨⟨-16, -16⟩, ⟨16, 16⟩⟩, .nil⟩

theorem squaring_in_place_is_visible' :
    let call := fun lims => kNearestCallSquaring none (fun x : ℚ => x + 1) lineTree ⟨0, 0⟩ 10 (fun _ => true) lims
    (call [2]).2 = [4] ∧
    ((call [2]).1.map (·.id), (call (call [2]).2).1.map (·.id), (call (call (call [2]).2).2).1.map (·.id)) =
      ([1, 2], [1, 2, 3], [1, 2, 3, 4]) ∧
    ((kNearestCalls none (fun x : ℚ => x + 1) lineTree [(⟨0, 0⟩, 10, fun _ => true), (⟨0, 0⟩, 10, fun _ => true), (⟨0, 0⟩, 10, fun _ => true)] [2]).1.map
      fun l => l.map (·.id)) = [[1, 2], [1, 2], [1, 2]] := by
  decide +kernel

end Orb.Quadtree
