/-
  C02 — the documented JSON hooks (`Orb.GeoJSON.hookMG` / `hookUG`: the `marshalJSON` /
  `unmarshalJSON` sites a value reaches).  Lemmas; the statements are re-exported by OrbProofs/C02.lean.
-/
import Orb.GeoJSONExt

namespace Orb.GeoJSON
open Orb

theorem coordDoc_ne_null (c : Codec) (ty : String) (co : Json) (len : Nat) : coordDoc c ty co len ≠ .null := by
  unfold coordDoc
  split <;> simp

/-- the marshal hook is reached exactly when something other than `null` is written: the `null`
    short cut of `Geometry.MarshalJSON` is the only path that does not go through `marshalJSON` -/
theorem hookMG_zero_iff' (c : Codec) (n : NG) : hookMG n = 0 ↔ geomMemberN c n = .null := by
  cases n with
  | nilIface => simp [hookMG, geomMemberN]
  | nilCollection => simp [hookMG, geomMemberN]
  | collection gs =>
    cases gs with
    | nil => simp [hookMG, geomMemberN]
    | cons g gs => simp [hookMG, geomMemberN]
  | point p => simp [hookMG, geomMemberN]
  | bound a b => simp [hookMG, geomMemberN]
  | ring ps => simp [hookMG, geomMemberN]
  | multiPoint ps => simp [hookMG, geomMemberN, coordDoc_ne_null]
  | lineString ps => simp [hookMG, geomMemberN, coordDoc_ne_null]
  | multiLineString ps => simp [hookMG, geomMemberN, coordDoc_ne_null]
  | polygon ps => simp [hookMG, geomMemberN, coordDoc_ne_null]
  | multiPolygon ps => simp [hookMG, geomMemberN, coordDoc_ne_null]

/-- a document that was written through the marshal hook is read through the unmarshal hook, and
    only such a document -/
theorem hookUG_zero_iff' (n : NG) : hookUG n = 0 ↔ hookMG n = 0 := by
  cases n with
  | collection gs =>
    cases gs with
    | nil => simp [hookMG, hookUG]
    | cons g gs => simp [hookMG, hookUG]
  | _ => simp [hookMG, hookUG]

mutual
/-- reading costs at most twice the calls of writing (a coordinate kind: `jsonGeometry`, then the
    coordinates), and at least as many -/
theorem hookUG_bounds' : ∀ n : NG, hookMG n ≤ hookUG n ∧ hookUG n ≤ 2 * hookMG n
  | .nilIface => by simp [hookMG, hookUG]
  | .nilCollection => by simp [hookMG, hookUG]
  | .collection [] => by simp [hookMG, hookUG]
  | .collection (g :: gs) => by
    have h1 := hookUG_bounds' g
    have h2 := hookUGs_bounds' gs
    simp only [hookMG, hookUG]
    omega
  | .point _ => by simp [hookMG, hookUG]
  | .multiPoint _ => by simp [hookMG, hookUG]
  | .lineString _ => by simp [hookMG, hookUG]
  | .multiLineString _ => by simp [hookMG, hookUG]
  | .ring _ => by simp [hookMG, hookUG]
  | .polygon _ => by simp [hookMG, hookUG]
  | .multiPolygon _ => by simp [hookMG, hookUG]
  | .bound _ _ => by simp [hookMG, hookUG]
theorem hookUGs_bounds' : ∀ gs : List NG, hookMGs gs ≤ hookUGs gs ∧ hookUGs gs ≤ 2 * hookMGs gs
  | [] => by simp [hookMGs, hookUGs]
  | g :: gs => by
    have h1 := hookUG_bounds' g
    have h2 := hookUGs_bounds' gs
    simp only [hookMGs, hookUGs]
    omega
end

end Orb.GeoJSON
