/-
  C05 — Decoders never panic and never over-allocate on hostile input  (WKB / EWKB part; the WKT,
  MVT and GeoJSON parts are in OrbProofs/C04.lean, C03.lean, C02.lean).
  PROPERTY THEOREMS about the model `Orb.WKB`, in which every Go slice expression that is not
  covered by a preceding length guard is an explicit `panic` outcome and the recursion depth of
  the mutually recursive Scan*/unmarshalMulti* functions and of nested collections is fuel that
  the model sets to `len(data)`.
-/
import OrbProofs.C05Lemmas

namespace Orb.WKB

/-- The one-shot byte decoder returns a value or an error for EVERY byte string: no index or slice
    panic (the re-derived member offsets 21 / 16n+9 / 9+Σ(4+16n) never exceed what was parsed) and
    the fuel `len(data)` is never exhausted. -/
theorem unmarshal_total (bs : Bytes) : (unmarshal bs).isPanic = false := unmarshal_total' bs

/-- The streaming decoder likewise (and it terminates: structural recursion on counts and fuel). -/
theorem decode_total (bs : Bytes) : (decode bs).isPanic = false := decode_total' bs

/-- `wkbcommon.Scan` into each of the ten destinations, for every input incl. hex / `\x` framings. -/
theorem scan_total (bnd : BoundFn) (d : Dest) (bs : Bytes) : (scan bnd d bs).isPanic = false := scan_total' bnd d bs

/-- `ewkb.Scanner` / `ewkb.ScannerPrefixSRID`. -/
theorem ewkbScan_total (bnd : BoundFn) (pfx : Bool) (d : Dest) (bs : Bytes) :
    (ewkbScan bnd pfx d bs).isPanic = false := ewkbScan_total' bnd pfx d bs

/-- `wkb.Scanner` with its retry on `data[4:]`. -/
theorem wkbScan_total (bnd : BoundFn) (d : Dest) (bs : Bytes) : (wkbScan bnd d bs).isPanic = false :=
  wkbScan_total' bnd d bs

/-- Whatever element counts the input claims, a successfully decoded value is no bigger than the
    input: at least 16 bytes were consumed per decoded point (so the memory held by the result is
    at most proportional to the input length). -/
theorem unmarshal_size_le (bs : Bytes) (g : G) (s : Nat) (h : unmarshal bs = .ok (g, s)) :
    16 * pointCount g ≤ bs.length := unmarshal_size_le' bs g s h

theorem decode_size_le (bs : Bytes) (g : G) (s : Nat) (h : decode bs = .ok (g, s)) :
    16 * pointCount g ≤ bs.length := decode_size_le' bs g s h

/-- Every capacity handed to `make` by the decoders is capped by the regenerated constants. -/
theorem allocCap_le (num cap : Nat) : allocCap num cap ≤ cap ∧ allocCap num cap ≤ num := allocCap_le' num cap

/-- When a value is returned, re-encoding it and decoding again is stable (from C01). -/
theorem reencode_stable_total (bs : Bytes) (g : G) (s : Nat) (h : unmarshal bs = .ok (g, s)) (o : Order) :
    unmarshal (encGeom o s g) = .ok (g, s) := reencode_stable' bs g s h o

/-- Non-vacuity / regression witness: the 12-byte input that used to crash the byte decoder
    (line string claiming 2^28 points: `num*16` wrapped in uint32) is now an error. -/
theorem wrap_regression : unmarshal [1, 2, 0, 0, 0, 0, 0, 0, 0x10, 1, 2, 3] = .err .notWKB := wrap_regression'

end Orb.WKB
