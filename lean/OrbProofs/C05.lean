/-
  C05 — Decoders never panic and never over-allocate on hostile input  (WKB / EWKB part; the WKT,
  MVT and GeoJSON parts are in OrbProofs/C04.lean, C03.lean, C02.lean).
  PROPERTY THEOREMS about the model `Orb.WKB`, in which every Go slice expression that is not
  covered by a preceding length guard is an explicit `panic` outcome and the recursion depth of
  the mutually recursive Scan*/unmarshalMulti* functions and of nested collections is fuel that
  the model sets to `len(data)`.
-/
import OrbProofs.C05Lemmas
import OrbProofs.C05Elems
import OrbProofs.C05AllocByte
import OrbProofs.C05AllocLower

namespace Orb.WKB

/-- The one-shot byte decoder returns a value or an error for EVERY byte string: no index or slice
    panic (the re-derived member offsets 21 / 16n+9 / 9+Σ(4+16n) never exceed what was parsed) and
    the fuel `len(data)` is never exhausted. -/
theorem unmarshal_total (bs : Bytes) : (unmarshal bs).isPanic = false := unmarshal_total' bs

/-- The streaming decoder likewise (and it terminates: structural recursion on counts and fuel). -/
theorem decode_total (bs : Bytes) : (decode bs).isPanic = false := decode_total' bs

/-- `wkbcommon.Scan` into each of the ten destinations, for every input incl. hex / `\x` framings. -/
theorem scan_total (bnd : BoundFn) (d : Dest) (bs : Bytes) : (scan bnd d bs).isPanic = false := scan_total' bnd d bs

/-- `ewkb.Scanner` / `ewkb.ScannerPrefixSRID`. -/
theorem ewkbScan_total (bnd : BoundFn) (pfx : Bool) (d : Dest) (bs : Bytes) :
    (ewkbScan bnd pfx d bs).isPanic = false := ewkbScan_total' bnd pfx d bs

/-- `wkb.Scanner` with its retry on `data[4:]`. -/
theorem wkbScan_total (bnd : BoundFn) (d : Dest) (bs : Bytes) : (wkbScan bnd d bs).isPanic = false :=
  wkbScan_total' bnd d bs

/-- Whatever element counts the input claims, a successfully decoded value is no bigger than the
    input: at least 16 bytes were consumed per decoded point AND at least 4 bytes per ring, line,
    polygon and collection member (`memberCount`: every slice element that is not a point, at every
    depth) — empty rings, empty lines and empty collection members included.  So the memory held by
    the result (16 bytes per point, a 24-byte slice header or 16-byte interface per other element, and
    what `append` over-allocates while growing them) is at most proportional to the input length. -/
theorem unmarshal_elems_le (bs : Bytes) (g : G) (s : Nat) (h : unmarshal bs = .ok (g, s)) :
    16 * pointCount g + 4 * memberCount g ≤ bs.length := unmarshal_elems_le' bs g s h

theorem decode_elems_le (bs : Bytes) (g : G) (s : Nat) (h : decode bs = .ok (g, s)) :
    16 * pointCount g + 4 * memberCount g ≤ bs.length := decode_elems_le' bs g s h

/-- the points-only corollaries (the statements this file had before) -/
theorem unmarshal_size_le (bs : Bytes) (g : G) (s : Nat) (h : unmarshal bs = .ok (g, s)) :
    16 * pointCount g ≤ bs.length := unmarshal_size_le' bs g s h

theorem decode_size_le (bs : Bytes) (g : G) (s : Nat) (h : decode bs = .ok (g, s)) :
    16 * pointCount g ≤ bs.length := decode_size_le' bs g s h

/-! ### allocation: the capacities requested by the decoders' own `make` calls

  `decodeAlloc`, `unmarshalAlloc`, `scanDestAlloc` (Orb/WKB.lean, next to the decoders they mirror) add up
  the byte size of every `make(T, 0, min(claimed count, cap))` the Go code executes during one call —
  with `MaxPointsAlloc` / `MaxMultiAlloc` (regenerated into `Generated.Params`) exactly where the Go code
  caps — for a decode that SUCCEEDS and for one that FAILS (a failing decode has run the `make` of every
  container that was open when it failed, each possibly at its cap).  Removing a cap from one of the
  accounting functions (`allocCap num cap` ↦ `num`) where the `make` precedes the length check makes the
  theorems below unprovable (the count is an arbitrary 32-bit number).  The correspondence run compares the
  measured TotalAlloc of the three kinds of entry point with these figures. -/

/-- Stream decoder, EVERY byte string, every outcome: at most `allocPerByte` (200) bytes per input byte
    plus `allocFixed` = 164808 = one open MultiPolygon + Polygon + ring, each at its cap, + the 8-byte
    buffer.  (The fixed part is attained: see `decodeAlloc_tight`.) -/
theorem decode_alloc_le (bs : Bytes) : decodeAlloc bs ≤ allocPerByte * bs.length + allocFixed :=
  decodeAlloc_le' bs

/-- A succeeding stream decode needs no fixed part: every capped `make` was paid for by consumed input. -/
theorem decode_alloc_ok_le (bs : Bytes) (g : G) (s : Nat) (h : decode bs = .ok (g, s)) :
    decodeAlloc bs ≤ allocPerByte * bs.length := decodeAlloc_ok_le' bs g s h

/-- Byte-slice decoder: the same bound for every input whose top-level type is not one of the three
    multis (points, line strings, polygons, collections — which go through the stream decoder —,
    unknown types, unreadable headers). -/
theorem unmarshal_alloc_le_of_not_multi (bs : Bytes)
    (h : ∀ o typ srid gd, unmarshalBOT bs = .ok (o, typ, srid, gd) →
      typ ≠ Generated.Params.wkb_multiPointType ∧ typ ≠ Generated.Params.wkb_multiLineStringType ∧
      typ ≠ Generated.Params.wkb_multiPolygonType) :
    unmarshalAlloc bs ≤ allocPerByte * bs.length + allocFixed := unmarshalAlloc_le_of_not_multi' bs h

/-- The clause of the property for the byte-slice decoder, as it should read. -/
def unmarshal_alloc_linear_full : Prop :=
  ∀ bs : Bytes, unmarshalAlloc bs ≤ allocPerByte * bs.length + allocFixed

/-- It is FALSE (recorded finding C05-wkb-nested-multi-quadratic): `unmarshalMultiLineString` /
    `unmarshalMultiPolygon` / `unmarshalMultiPoint` scan each member with `ScanLineString` / … which accept a
    nested one-member multi (to any depth, one `make` per level), and then advance by a stride re-derived
    from the decoded member, not by what the scan looked at. -/
theorem unmarshal_alloc_linear_full_false : ¬ unmarshal_alloc_linear_full := unmarshalAlloc_not_linear'

/-- … and no other linear bound whose constants fit the format's 32-bit counts holds either. -/
theorem unmarshal_alloc_exceeds (c K : Nat) (h : c + K + 3 < 2 ^ 32) :
    ∃ bs : Bytes, c * bs.length + K < unmarshalAlloc bs := unmarshalAlloc_exceeds' c K h

/-- The witness family: a MultiLineString claiming k+1 members followed by k nested one-member
    MultiLineString headers and one empty line string (9k+18 bytes).  The decode SUCCEEDS … -/
theorem nested_unmarshal_ok (k : Nat) (hk : k + 1 < 2 ^ 32) :
    unmarshal (nestedMultiInput Generated.Params.wkb_multiLineStringType Generated.Params.wkb_lineStringType k)
      = .ok (.multiLineString (List.replicate (k + 1) []), 0) := nested_unmarshal_ok' k hk

/-- … and requests exactly this much: 12·k·(k+1) bytes beyond the outer `make`. -/
theorem nested_unmarshal_alloc (k : Nat) (hk : k + 1 < 2 ^ 32) :
    unmarshalAlloc (nestedMultiInput Generated.Params.wkb_multiLineStringType Generated.Params.wkb_lineStringType k)
      = szSlice * allocCap (k + 1) Generated.Params.wkb_MaxMultiAlloc + 12 * (k * (k + 1)) :=
  nested_unmarshalAlloc' k hk

theorem nested_input_length (t leaf k : Nat) : (nestedMultiInput t leaf k).length = 9 * k + 18 :=
  nestedMultiInput_length' t leaf k

/-- What does hold for EVERY input of the byte-slice decoder: a quadratic bound … -/
theorem unmarshal_alloc_quadratic (bs : Bytes) :
    unmarshalAlloc bs ≤ bs.length * bs.length + allocQuadLin * bs.length + allocFixed :=
  unmarshalAlloc_quadratic' bs

/-- … also for `wkbcommon.Scan` into each of the ten destinations (after the hex framing is removed). -/
theorem scanDest_alloc_quadratic (d : Dest) (bs : Bytes) :
    scanDestAlloc d bs ≤ bs.length * bs.length + allocQuadLin * bs.length + allocFixed :=
  scanDestAlloc_quadratic' d bs

/-- The fixed part of the bound is attained: a 22-byte stream (MultiPolygon, Polygon and ring, each
    claiming 2^32-1 elements) fails with `EOF` after requesting exactly `allocFixed` bytes. -/
theorem decodeAlloc_tight :
    decodeAlloc [1, 6,0,0,0, 255,255,255,255, 1, 3,0,0,0, 255,255,255,255, 255,255,255,255] = allocFixed ∧
    decode [1, 6,0,0,0, 255,255,255,255, 1, 3,0,0,0, 255,255,255,255, 255,255,255,255] = .err .eof :=
  ⟨by decide, rfl⟩

/-- The capping primitive (helper; the statements about the capacities are the ones above). -/
theorem allocCap_le (num cap : Nat) : allocCap num cap ≤ cap ∧ allocCap num cap ≤ num := allocCap_le' num cap

/-- When a value is returned, re-encoding it and decoding again is stable (from C01). -/
theorem reencode_stable_total (bs : Bytes) (g : G) (s : Nat) (h : unmarshal bs = .ok (g, s)) (o : Order) :
    unmarshal (encGeom o s g) = .ok (g, s) := reencode_stable' bs g s h o

/-- Non-vacuity / regression witness: the 12-byte input that used to crash the byte decoder
    (line string claiming 2^28 points: `num*16` wrapped in uint32) is now an error. -/
theorem wrap_regression : unmarshal [1, 2, 0, 0, 0, 0, 0, 0, 0x10, 1, 2, 3] = .err .notWKB := wrap_regression'

end Orb.WKB
