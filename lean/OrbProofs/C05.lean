/-
  C05 — Decoders never panic and never over-allocate on hostile input  (WKB / EWKB part; the WKT,
  MVT and GeoJSON parts are in OrbProofs/C04.lean, C03.lean, C02.lean).
  PROPERTY THEOREMS about the model `Orb.WKB`, in which every Go slice expression that is not
  covered by a preceding length guard is an explicit `panic` outcome.  The byte-slice decoder is not
  recursive (a member of a multi is decoded by the plain decoder of its type); the stream decoder
  recurses through nested collections only, `MaxCollectionDepth` (regenerated into `Generated.Params`)
  levels at most, and answers `ErrNestingTooDeep` beyond.
-/
import OrbProofs.C05Lemmas
import OrbProofs.C05Elems
import OrbProofs.C05AllocByte
import OrbProofs.C05AllocLower
import OrbProofs.C05Depth

namespace Orb.WKB

/-- The one-shot byte decoder returns a value or an error for EVERY byte string: no index or slice
    panic (the re-derived member offsets 21 / 16n+9 / 9+Σ(4+16n) never exceed what was parsed). -/
theorem unmarshal_total (bs : Bytes) : (unmarshal bs).isPanic = false := unmarshal_total' bs

/-- The streaming decoder likewise (and it terminates: structural recursion on the counts and on the
    number of collection levels left). -/
theorem decode_total (bs : Bytes) : (decode bs).isPanic = false := decode_total' bs

/-- `wkbcommon.Scan` into each of the ten destinations, for every input incl. hex / `\x` framings. -/
theorem scan_total (bnd : BoundFn) (d : Dest) (bs : Bytes) : (scan bnd d bs).isPanic = false := scan_total' bnd d bs

/-- `ewkb.Scanner` / `ewkb.ScannerPrefixSRID`. -/
theorem ewkbScan_total (bnd : BoundFn) (pfx : Bool) (d : Dest) (bs : Bytes) :
    (ewkbScan bnd pfx d bs).isPanic = false := ewkbScan_total' bnd pfx d bs

/-- `wkb.Scanner` with its retry on `data[4:]`. -/
theorem wkbScan_total (bnd : BoundFn) (d : Dest) (bs : Bytes) : (wkbScan bnd d bs).isPanic = false :=
  wkbScan_total' bnd d bs

/-- Whatever element counts the input claims, a successfully decoded value is no bigger than the
    input: at least 16 bytes were consumed per decoded point AND at least 4 bytes per ring, line,
    polygon and collection member (`memberCount`: every slice element that is not a point, at every
    depth) — empty rings, empty lines and empty collection members included.  So the memory held by
    the result (16 bytes per point, a 24-byte slice header or 16-byte interface per other element, and
    what `append` over-allocates while growing them) is at most proportional to the input length. -/
theorem unmarshal_elems_le (bs : Bytes) (g : G) (s : Nat) (h : unmarshal bs = .ok (g, s)) :
    16 * pointCount g + 4 * memberCount g ≤ bs.length := unmarshal_elems_le' bs g s h

theorem decode_elems_le (bs : Bytes) (g : G) (s : Nat) (h : decode bs = .ok (g, s)) :
    16 * pointCount g + 4 * memberCount g ≤ bs.length := decode_elems_le' bs g s h

/-- the points-only corollaries (the statements this file had before) -/
theorem unmarshal_size_le (bs : Bytes) (g : G) (s : Nat) (h : unmarshal bs = .ok (g, s)) :
    16 * pointCount g ≤ bs.length := unmarshal_size_le' bs g s h

theorem decode_size_le (bs : Bytes) (g : G) (s : Nat) (h : decode bs = .ok (g, s)) :
    16 * pointCount g ≤ bs.length := decode_size_le' bs g s h

/-! ### allocation: the capacities requested by the decoders' own `make` calls

  `decodeAlloc`, `unmarshalAlloc`, `scanDestAlloc` (Orb/WKB.lean, next to the decoders they mirror) add up
  the byte size of every `make(T, 0, min(claimed count, cap))` the Go code executes during one call —
  with `MaxPointsAlloc` / `MaxMultiAlloc` (regenerated into `Generated.Params`) exactly where the Go code
  caps — for a decode that SUCCEEDS and for one that FAILS (a failing decode has run the `make` of every
  container that was open when it failed, each possibly at its cap).  Removing a cap from one of the
  accounting functions (`allocCap num cap` ↦ `num`) where the `make` precedes the length check makes the
  theorems below unprovable (the count is an arbitrary 32-bit number).  The correspondence run compares the
  measured TotalAlloc of the three kinds of entry point with these figures. -/

/-- Stream decoder, EVERY byte string, every outcome: at most `allocPerByte` (200) bytes per input byte
    plus `allocFixed` = 164808 = one open MultiPolygon + Polygon + ring, each at its cap, + the 8-byte
    buffer.  (The fixed part is attained: see `decodeAlloc_tight`.) -/
theorem decode_alloc_le (bs : Bytes) : decodeAlloc bs ≤ allocPerByte * bs.length + allocFixed :=
  decodeAlloc_le' bs

/-- A succeeding stream decode needs no fixed part: every capped `make` was paid for by consumed input. -/
theorem decode_alloc_ok_le (bs : Bytes) (g : G) (s : Nat) (h : decode bs = .ok (g, s)) :
    decodeAlloc bs ≤ allocPerByte * bs.length := decodeAlloc_ok_le' bs g s h

/-- The clause of the property for the byte-slice decoder. -/
def unmarshal_alloc_linear_full : Prop :=
  ∀ bs : Bytes, unmarshalAlloc bs ≤ allocPerByte * bs.length + allocFixed

/-- It HOLDS (it was false, finding C05-wkb-nested-multi-quadratic, while `unmarshalMulti*` scanned their
    members with the coercing `Scan*` functions): every member is decoded by the plain decoder of its
    type, a succeeding member is paid for by the bytes the loop skips, a failing one ends the loop. -/
theorem unmarshal_alloc_linear : unmarshal_alloc_linear_full := unmarshalAlloc_le'

/-- … also for `wkbcommon.Scan` into each of the ten destinations (after the hex framing is removed). -/
theorem scanDest_alloc_le (d : Dest) (bs : Bytes) :
    scanDestAlloc d bs ≤ allocPerByte * bs.length + allocFixed := scanDestAlloc_le' d bs

/-- Regression for the former witness family: a MultiLineString claiming k+2 members followed by k+1
    nested one-member MultiLineString headers and one empty line string (9k+27 bytes) used to decode
    SUCCESSFULLY after 12·(k+1)·(k+2) bytes of `make` calls.  It is rejected at the first nested header … -/
theorem nested_unmarshal_rejected (k : Nat) (hk : k + 2 < 2 ^ 32) :
    unmarshal (nestedMultiInput Generated.Params.wkb_multiLineStringType Generated.Params.wkb_lineStringType (k + 1))
      = .err .incorrectGeometry := nested_unmarshal_rejected' k hk

/-- … having requested the outer `make` only. -/
theorem nested_unmarshal_alloc (k : Nat) (hk : k + 2 < 2 ^ 32) :
    unmarshalAlloc (nestedMultiInput Generated.Params.wkb_multiLineStringType Generated.Params.wkb_lineStringType (k + 1))
      = szSlice * allocCap (k + 2) Generated.Params.wkb_MaxMultiAlloc := nested_unmarshalAlloc' k hk

theorem nested_input_length (t leaf k : Nat) : (nestedMultiInput t leaf k).length = 9 * k + 18 :=
  nestedMultiInput_length' t leaf k

/-! ### recursion depth (stack)

  `decodeDepth` / `unmarshalDepth` (Orb/WKB.lean) follow the decoders as the allocation accounting does and
  return the largest number of `Decoder.Decode` activations that are on the Go stack at the same time —
  the only recursion in either decoder — for succeeding and failing decodes. -/

/-- EVERY byte string: at most `MaxCollectionDepth + 1` nested `Decode` calls (it was unbounded, finding
    C05-wkb-deep-nesting-stack-overflow: 9 bytes of input per level, a fatal stack overflow at a few
    million levels). -/
theorem decode_depth_le (bs : Bytes) : decodeDepth bs ≤ Generated.Params.wkb_MaxCollectionDepth + 1 :=
  decodeDepth_le' bs

/-- The byte-slice decoder reaches the recursive decoder for a collection only; its own functions do
    not recurse at all (`unmarshalMultiF` is not a recursive definition). -/
theorem unmarshal_depth_le (bs : Bytes) : unmarshalDepth bs ≤ Generated.Params.wkb_MaxCollectionDepth + 1 :=
  unmarshalDepth_le' bs

/-- What comes back is nested no deeper than the limit (so every recursive consumer of the value —
    `Bound`, `Equal`, the encoders — recurses no deeper either). -/
theorem decode_result_depth_le (bs : Bytes) (g : G) (s : Nat) (h : decode bs = .ok (g, s)) :
    collDepth g ≤ Generated.Params.wkb_MaxCollectionDepth := decode_ok_depth h

theorem unmarshal_result_depth_le (bs : Bytes) (g : G) (s : Nat) (h : unmarshal bs = .ok (g, s)) :
    collDepth g ≤ Generated.Params.wkb_MaxCollectionDepth := unmarshal_ok_depth h

/-- Non-vacuity of the depth accounting (computed with two levels allowed): three nested collections
    stack three `Decode` calls and are refused; two are decoded. -/
theorem depth_witness :
    decodeWithDepth (readCollectionDepthF 2) [1,7,0,0,0,1,0,0,0, 1,7,0,0,0,1,0,0,0, 1,7,0,0,0,0,0,0,0] = 3 ∧
    decodeStream 2 [1,7,0,0,0,1,0,0,0, 1,7,0,0,0,1,0,0,0, 1,7,0,0,0,0,0,0,0] = .err .nestingTooDeep ∧
    decodeStream 2 [1,7,0,0,0,1,0,0,0, 1,7,0,0,0,0,0,0,0] = .ok (.collection [.collection []], 0, []) :=
  ⟨by decide, rfl, rfl⟩

/-- The fixed part of the bound is attained: a 22-byte stream (MultiPolygon, Polygon and ring, each
    claiming 2^32-1 elements) fails with `EOF` after requesting exactly `allocFixed` bytes. -/
theorem decodeAlloc_tight :
    decodeAlloc [1, 6,0,0,0, 255,255,255,255, 1, 3,0,0,0, 255,255,255,255, 255,255,255,255] = allocFixed ∧
    decode [1, 6,0,0,0, 255,255,255,255, 1, 3,0,0,0, 255,255,255,255, 255,255,255,255] = .err .eof :=
  ⟨by decide, rfl⟩

/-- The capping primitive (helper; the statements about the capacities are the ones above). -/
theorem allocCap_le (num cap : Nat) : allocCap num cap ≤ cap ∧ allocCap num cap ≤ num := allocCap_le' num cap

/-- When a value is returned, re-encoding it and decoding again is stable (from C01). -/
theorem reencode_stable_total (bs : Bytes) (g : G) (s : Nat) (h : unmarshal bs = .ok (g, s)) (o : Order) :
    unmarshal (encGeom o s g) = .ok (g, s) := reencode_stable' bs g s h o

/-- Non-vacuity / regression witness: the 12-byte input that used to crash the byte decoder
    (line string claiming 2^28 points: `num*16` wrapped in uint32) is now an error. -/
theorem wrap_regression : unmarshal [1, 2, 0, 0, 0, 0, 0, 0, 0x10, 1, 2, 3] = .err .notWKB := wrap_regression'

end Orb.WKB
