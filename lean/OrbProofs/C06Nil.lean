/-
  Lemmas for the part of C06 that is about NIL MEMBERS (model `Orb.CoreNil`): nil slices at every
  level, typed nil and nil-interface members of collections.  The primed statements are re-exported
  by OrbProofs/C06.lean.
-/
import Orb.CoreNil
import OrbProofs.C06Lemmas

namespace Orb.CoreNil
open Orb Orb.Core

variable {α : Type}

/-- simultaneous structural induction on a value and on member lists -/
theorem NGeom.ind2 {motive : NGeom α → Prop} {motiveL : List (NGeom α) → Prop}
    (h0 : motive .nilIface) (h1 : ∀ p, motive (.point p)) (h2 : ∀ ps, motive (.multiPoint ps))
    (h3 : ∀ ps, motive (.lineString ps)) (h4 : ∀ ls, motive (.multiLineString ls))
    (h5 : ∀ ps, motive (.ring ps)) (h6 : ∀ rs, motive (.polygon rs)) (h7 : ∀ ps, motive (.multiPolygon ps))
    (h8 : ∀ a b, motive (.bound a b)) (h9 : motive .nilCollection)
    (hc : ∀ gs, motiveL gs → motive (.collection gs))
    (hn : motiveL []) (hcons : ∀ g gs, motive g → motiveL gs → motiveL (g :: gs)) :
    (∀ g, motive g) ∧ (∀ gs, motiveL gs) := by
  have hg : ∀ g, motive g := fun g =>
    NGeom.rec (motive_1 := motive) (motive_2 := motiveL) h0 h1 h2 h3 h4 h5 h6 h7 h8 h9 hc hn hcons g
  refine ⟨hg, ?_⟩
  intro gs
  induction gs with
  | nil => exact hn
  | cons g gs ih => exact hcons g gs (hg g) ih

/-! ### clone -/

theorem clonePts_eq (a : NPts α) : clonePts a = a := by cases a <;> rfl

theorem clonePtss_eq (a : NPtss α) : clonePtss a = a := by
  cases a with
  | none => rfl
  | some l =>
    have : (clonePts : NPts α → NPts α) = id := funext clonePts_eq
    simp [clonePtss, this]

theorem clonePtsss_eq (a : NPtsss α) : clonePtsss a = a := by
  cases a with
  | none => rfl
  | some l =>
    have : (clonePtss : NPtss α → NPtss α) = id := funext clonePtss_eq
    simp [clonePtsss, this]

theorem cloneN_both : (∀ g : NGeom α, cloneN g = g) ∧ (∀ gs : List (NGeom α), cloneNList gs = gs) := by
  apply NGeom.ind2 <;> intros <;>
    simp_all [cloneN, cloneNList, clonePts_eq, clonePtss_eq, clonePtsss_eq]

theorem cloneN_eq' (g : NGeom α) : cloneN g = g := cloneN_both.1 g

/-! ### equal -/

section equality
variable [BEq α] [LawfulBEq α]

theorem ptsEqN_iff (a b : NPts α) : ptsEqN a b = true ↔ ptsOf a = ptsOf b := by
  simp [ptsEqN, ptsEq_iff]

theorem ptssEqL_iff (l m : List (NPts α)) : ptssEqL l m = true ↔ l.map ptsOf = m.map ptsOf := by
  induction l generalizing m with
  | nil => cases m <;> simp [ptssEqL]
  | cons a l ih => cases m <;> simp [ptssEqL, ptsEqN_iff, ih]

theorem ptssEqN_iff (a b : NPtss α) : ptssEqN a b = true ↔ ptssOf a = ptssOf b := by
  simp [ptssEqN, ptssOf, ptssEqL_iff]

theorem ptsssEqL_iff (l m : List (NPtss α)) : ptsssEqL l m = true ↔ l.map ptssOf = m.map ptssOf := by
  induction l generalizing m with
  | nil => cases m <;> simp [ptsssEqL]
  | cons a l ih => cases m <;> simp [ptsssEqL, ptssEqN_iff, ih]

theorem ptsssEqN_iff (a b : NPtsss α) : ptsssEqN a b = true ↔ ptsssOf a = ptsssOf b := by
  simp [ptsssEqN, ptsssOf, ptsssEqL_iff]

omit [BEq α] [LawfulBEq α] in
theorem map_some_inj {β : Type} (l m : List β) : l.map some = m.map some ↔ l = m :=
  List.map_inj_right (fun _ _ h => Option.some.inj h)

omit [BEq α] [LawfulBEq α] in
theorem map_some_map_some_inj {β : Type} (l m : List (List β)) :
    (l.map fun rs => some (rs.map some)) = (m.map fun rs => some (rs.map some)) ↔ l = m :=
  List.map_inj_right (fun a b h => (map_some_inj a b).1 (Option.some.inj h))

theorem equalN_both :
    (∀ g h : NGeom α, equalN g h = true ↔ normN g = normN h) ∧
    (∀ gs hs : List (NGeom α), equalNList gs hs = true ↔ normNList gs = normNList hs) := by
  apply NGeom.ind2
  case h0 => intro h; cases h <;> simp [equalN, normN]
  case h1 => intro p h; cases h <;> simp [equalN, normN, ptEq_iff]
  case h2 => intro p h; cases h <;> simp [equalN, normN, ptsEqN_iff]
  case h3 => intro p h; cases h <;> simp [equalN, normN, ptsEqN_iff]
  case h4 => intro p h; cases h <;> simp [equalN, normN, ptssEqN_iff, map_some_inj]
  case h5 => intro p h; cases h <;> simp [equalN, normN, ptsEqN_iff]
  case h6 => intro p h; cases h <;> simp [equalN, normN, ptssEqN_iff, map_some_inj]
  case h7 => intro p h; cases h <;> simp [equalN, normN, ptsssEqN_iff, map_some_map_some_inj]
  case h8 => intro a b h; cases h <;> simp [equalN, normN, ptEq_iff]
  case h9 =>
    intro h
    cases h with
    | collection hs => cases hs <;> simp [equalN, equalNList, normN, normNList]
    | _ => simp [equalN, normN]
  case hc =>
    intro gs ih h
    cases h with
    | collection hs => simp [equalN, normN, ih hs]
    | nilCollection => simpa [equalN, normN, normNList] using ih []
    | _ => simp [equalN, normN]
  case hn => intro hs; cases hs <;> simp [equalNList, normNList]
  case hcons =>
    intro g gs ihg ihgs hs
    cases hs with
    | nil => simp [equalNList, normNList]
    | cons h hs => simp [equalNList, normNList, ihg h, ihgs hs]

theorem equalN_iff' (g h : NGeom α) : equalN g h = true ↔ normN g = normN h := equalN_both.1 g h

end equality

/-! ### the nil-free values inside `NGeom` -/

theorem ptssOf_some_map_some (ls : List (List (Pt α))) : ptssOf (some (ls.map some)) = ls := by
  simp [ptssOf, ptsOf, Function.comp_def]

theorem ptsssOf_some_map_some (ps : List (List (List (Pt α)))) :
    ptsssOf (some (ps.map fun rs => some (rs.map some))) = ps := by
  simp [ptsssOf, ptssOf_some_map_some, Function.comp_def]

theorem strip_ofGeom_both :
    (∀ g : Geom α, strip (ofGeom g) = some g) := by
  intro g
  induction g using Geom.ind with
  | hc gs ih =>
    have : stripList (ofGeomList gs) = gs := by
      induction gs with
      | nil => rfl
      | cons g gs ih2 =>
        rw [ofGeomList, stripList, ih g (List.mem_cons_self ..)]
        simp only
        rw [ih2 (fun g hg => ih g (List.mem_cons_of_mem _ hg))]
    rw [ofGeom, strip, this]
  | _ => simp [ofGeom, strip, ptsOf, ptssOf_some_map_some, ptsssOf_some_map_some]

theorem strip_ofGeom' (g : Geom α) : strip (ofGeom g) = some g := strip_ofGeom_both g

theorem strip_eq_none_iff (g : NGeom α) : strip g = none ↔ g = .nilIface := by
  cases g <;> simp [strip]

theorem stripList_eq_filterMap (gs : List (NGeom α)) : stripList gs = gs.filterMap strip := by
  induction gs with
  | nil => rfl
  | cons g gs ih =>
    rw [stripList, List.filterMap_cons]
    cases h : strip g <;> simp [ih]

section equality2
variable [BEq α]

theorem ptssEqL_map_some (l m : List (List (Pt α))) : ptssEqL (l.map some) (m.map some) = ptssEq l m := by
  induction l generalizing m with
  | nil => cases m <;> simp [ptssEqL, ptssEq]
  | cons a l ih => cases m <;> simp [ptssEqL, ptssEq, ptsEqN, ptsOf, ih]

theorem ptsssEqL_map_some (l m : List (List (List (Pt α)))) :
    ptsssEqL (l.map fun rs => some (rs.map some)) (m.map fun rs => some (rs.map some)) = ptsssEq l m := by
  induction l generalizing m with
  | nil => cases m <;> simp [ptsssEqL, ptsssEq]
  | cons a l ih => cases m <;> simp [ptsssEqL, ptsssEq, ptssEqN, ptssEqL_map_some, ih]

theorem equalN_ofGeom' (g h : Geom α) : equalN (ofGeom g) (ofGeom h) = equal g h := by
  induction g using Geom.ind generalizing h with
  | hc gs ih =>
    cases h <;> simp only [ofGeom, equalN, equal]
    rename_i hs
    induction gs generalizing hs with
    | nil => cases hs <;> simp [ofGeomList, equalNList, equal.go]
    | cons g gs ih2 =>
      cases hs with
      | nil => simp [ofGeomList, equalNList, equal.go]
      | cons h hs =>
        simp only [ofGeomList, equalNList, equal.go]
        rw [ih g (List.mem_cons_self ..) h, ih2 (fun g hg => ih g (List.mem_cons_of_mem _ hg)) hs]
  | _ =>
    cases h <;>
      simp [ofGeom, equalN, equal, ptsEqN, ptsOf, ptssEqN, ptsssEqN, ptssEqL_map_some, ptsssEqL_map_some]

/-- a typed nil slice is, for `Equal`, the empty value of its kind -/
theorem equalN_nilSlice_left (k : Kind) (h : NGeom α) :
    equalN (ofGVal (.nilSlice k)) h = equalN (ofGeom (emptyOf k)) h := by
  cases k <;> cases h <;>
    simp [ofGVal, ofGeom, ofGeomList, emptyOf, equalN, equalNList, ptsEqN, ptsOf, ptssEqN, ptsssEqN]

theorem equalN_nilSlice_right (k : Kind) (g : NGeom α) :
    equalN g (ofGVal (.nilSlice k)) = equalN g (ofGeom (emptyOf k)) := by
  cases k <;> cases g <;>
    simp [ofGVal, ofGeom, ofGeomList, emptyOf, equalN, equalNList, ptsEqN, ptsOf, ptssEqN, ptsssEqN]

theorem equalN_nilIface_ofGeom (g : Geom α) :
    equalN .nilIface (ofGeom g) = false ∧ equalN (ofGeom g) .nilIface = false := by
  cases g <;> simp [ofGeom, equalN]

theorem equalN_ofGVal' (a b : GVal α) : equalN (ofGVal a) (ofGVal b) = equalV a b := by
  cases a with
  | nilIface =>
    cases b with
    | nilIface => simp [ofGVal, equalN, equalV]
    | nilSlice k => rw [equalN_nilSlice_right]; exact (equalN_nilIface_ofGeom _).1
    | val h => exact (equalN_nilIface_ofGeom h).1
  | nilSlice k =>
    cases b with
    | nilIface => rw [equalN_nilSlice_left]; exact (equalN_nilIface_ofGeom _).2
    | nilSlice k' => rw [equalN_nilSlice_left, equalN_nilSlice_right, equalN_ofGeom']; rfl
    | val h => rw [equalN_nilSlice_left]; exact equalN_ofGeom' _ h
  | val g =>
    cases b with
    | nilIface => exact (equalN_nilIface_ofGeom g).2
    | nilSlice k => rw [equalN_nilSlice_right]; exact equalN_ofGeom' g _
    | val h => exact equalN_ofGeom' g h

end equality2

/-! ### bound -/

section bounds
variable [LinearOrder α]

/-- `Collection.Bound` of a list without nil members, as `Core.bound` computes it -/
def collB (eb : Bound α) : List (Geom α) → Bound α
  | [] => eb
  | g :: rest => rest.foldl (fun b g => b.union (bound eb g)) (bound eb g)

theorem bound_collection (eb : Bound α) (l : List (Geom α)) : bound eb (.collection l) = collB eb l := by
  cases l <;> rw [bound] <;> rfl

theorem boundN_both (eb : Bound α) :
    (∀ g : NGeom α, ∀ g', strip g = some g' → boundN eb g = bound eb g') ∧
    (∀ gs : List (NGeom α), boundStart eb gs = collB eb (stripList gs) ∧
      ∀ b, boundRest eb gs b = (stripList gs).foldl (fun b g => b.union (bound eb g)) b) := by
  apply NGeom.ind2
  case h0 => intro g' h; simp [strip] at h
  case h1 => intro p g' h; simp only [strip, Option.some.injEq] at h; subst h; rw [boundN, bound]
  case h2 => intro p g' h; simp only [strip, Option.some.injEq] at h; subst h; rw [boundN, bound]
  case h3 => intro p g' h; simp only [strip, Option.some.injEq] at h; subst h; rw [boundN, bound]
  case h4 => intro p g' h; simp only [strip, Option.some.injEq] at h; subst h; rw [boundN, bound]
  case h5 => intro p g' h; simp only [strip, Option.some.injEq] at h; subst h; rw [boundN, bound]
  case h6 => intro p g' h; simp only [strip, Option.some.injEq] at h; subst h; rw [boundN, bound]
  case h7 => intro p g' h; simp only [strip, Option.some.injEq] at h; subst h; rw [boundN, bound]
  case h8 => intro a b g' h; simp only [strip, Option.some.injEq] at h; subst h; rw [boundN, bound]
  case h9 => intro g' h; simp only [strip, Option.some.injEq] at h; subst h; rw [bound_collection]; rfl
  case hc =>
    intro gs ih g' h
    simp only [strip, Option.some.injEq] at h
    subst h
    rw [bound_collection, boundN, ih.1]
  case hn => exact ⟨rfl, fun _ => rfl⟩
  case hcons =>
    intro g gs ihg ihgs
    by_cases hn : g = .nilIface
    · subst hn
      refine ⟨?_, fun b => ?_⟩
      · rw [boundStart, stripList]; simp only [strip]; exact ihgs.1
      · rw [boundRest, stripList]; simp only [strip]; exact ihgs.2 b
    · obtain ⟨g', hg'⟩ : ∃ g', strip g = some g' := by
        cases h : strip g with
        | none => exact absurd ((strip_eq_none_iff g).1 h) hn
        | some g' => exact ⟨g', rfl⟩
      have hs : stripList (g :: gs) = g' :: stripList gs := by rw [stripList, hg']
      refine ⟨?_, fun b => ?_⟩
      · rw [boundStart.eq_3 eb g gs (fun h => hn h), hs, ihgs.2, ihg g' hg']; rfl
      · rw [boundRest.eq_3 eb b g gs (fun h => hn h), hs, ihgs.2, ihg g' hg']; rfl

theorem boundN_strip' (eb : Bound α) (g : NGeom α) (g' : Geom α) (h : strip g = some g') :
    boundN eb g = bound eb g' := (boundN_both eb).1 g g' h

end bounds

end Orb.CoreNil
