/-
  Helper lemmas for C13. Statements with a prime are the ones OrbProofs/C13.lean re-exports.
  Core Lean only (no Mathlib).
-/
import Orb.Tile

namespace Orb.Tile


/-! ### basic no-overflow facts -/

theorem tile_beq_iff (t u : Tile) : (t == u) = true ↔ t = u := by
  cases t; cases u
  simp [BEq.beq, instBEqTile.beq]

theorem tile_ext {a b : Tile} (hx : a.x = b.x) (hy : a.y = b.y) (hz : a.z = b.z) : a = b := by
  cases a; cases b; simp_all

theorem two_pow_le_30 {z : Nat} (h : z ≤ 30) : 2 ^ z ≤ 2 ^ 30 :=
  Nat.pow_le_pow_right (by decide) h

theorem shl32_eq {a s : Nat} (h : a * 2 ^ s < 2 ^ 32) : shl32 a s = a * 2 ^ s := by
  unfold shl32 W32
  rw [Nat.shiftLeft_eq]
  exact Nat.mod_eq_of_lt h

theorem shr32_eq (a s : Nat) : shr32 a s = a / 2 ^ s := by
  unfold shr32
  exact Nat.shiftRight_eq_div_pow a s

theorem sub32_eq {a b : Nat} (h : b ≤ a) (ha : a < 2 ^ 32) : sub32 a b = a - b := by
  unfold sub32 W32
  omega

theorem add32_eq {a b : Nat} (h : a + b < 2 ^ 32) : add32 a b = a + b := by
  unfold add32 W32
  omega

theorem shl32_one {x : Nat} (h : x < 2 ^ 31) : shl32 x 1 = 2 * x := by
  rw [shl32_eq] <;> omega

/-- `x < 2^(a+b) → x / 2^b < 2^a`. -/
theorem div_lt_two_pow {x a b : Nat} (h : x < 2 ^ (a + b)) : x / 2 ^ b < 2 ^ a := by
  rw [Nat.div_lt_iff_lt_mul (Nat.two_pow_pos b), ← Nat.pow_add]
  exact h

theorem mul_lt_two_pow {x a b : Nat} (h : x < 2 ^ a) : x * 2 ^ b < 2 ^ (a + b) := by
  rw [Nat.pow_add]
  exact Nat.mul_lt_mul_of_pos_right h (Nat.two_pow_pos b)

theorem succ_mul_le_two_pow {x a b : Nat} (h : x < 2 ^ a) : (x + 1) * 2 ^ b ≤ 2 ^ (a + b) := by
  rw [Nat.pow_add]
  exact Nat.mul_le_mul_right _ h

theorem valid_iff' (t : Tile) (hz : t.z ≤ 31) :
    valid t = true ↔ (t.x < 2^t.z ∧ t.y < 2^t.z) := by
  have h : shl32 1 t.z = 2 ^ t.z := by
    rw [shl32_eq] <;> rw [Nat.one_mul]
    exact Nat.pow_lt_pow_right (by decide) (by omega)
  simp [valid, h]

theorem parent_eq (t : Tile) (h : 0 < t.z) (h' : t.z < 2 ^ 32) :
    parent t = ⟨t.x / 2, t.y / 2, t.z - 1⟩ := by
  unfold parent
  rw [if_neg (by omega), shr32_eq, shr32_eq, sub32_eq (by omega) h']

theorem V_parent (t : Tile) (ht : V t) (h : 0 < t.z) : V ⟨t.x / 2, t.y / 2, t.z - 1⟩ := by
  obtain ⟨hx, hy, hz⟩ := ht
  obtain ⟨n, hn⟩ : ∃ n, t.z = n + 1 := ⟨t.z - 1, by omega⟩
  rw [hn] at hx hy
  rw [Nat.pow_succ] at hx hy
  refine ⟨?_, ?_, ?_⟩ <;> simp only [hn, Nat.add_sub_cancel] <;> omega

theorem ancestorAt_eq_iterate_parent' (u : Tile) (hu : V u) (k : Nat) (hk : k ≤ u.z) :
    ancestorAt u k = parentN k u := by
  induction k generalizing u with
  | zero => cases u; simp [ancestorAt, parentN]
  | succ k ih =>
    have hz : u.z ≤ 30 := hu.2.2
    have hp := parent_eq u (by omega) (by omega)
    have hv := V_parent u hu (by omega)
    rw [← hp] at hv
    have := ih (parent u) hv (by rw [hp]; simp; omega)
    rw [parentN, ← this, hp]
    simp only [ancestorAt]
    rw [Nat.div_div_eq_div_mul, Nat.div_div_eq_div_mul, Nat.pow_succ, Nat.mul_comm 2]
    congr 1
    omega

theorem children_eq (t : Tile) (ht : V t) :
    children t = [ ⟨2 * t.x, 2 * t.y, t.z + 1⟩, ⟨2 * t.x + 1, 2 * t.y, t.z + 1⟩,
      ⟨2 * t.x + 1, 2 * t.y + 1, t.z + 1⟩, ⟨2 * t.x, 2 * t.y + 1, t.z + 1⟩ ] := by
  obtain ⟨hx, hy, hz⟩ := ht
  have := two_pow_le_30 hz
  unfold children
  rw [shl32_one (by omega), shl32_one (by omega), add32_eq (by omega), add32_eq (by omega),
    add32_eq (by omega)]

/-- For EVERY tile of the quantifier (zoom 0..30, zoom 30 included): the children are in range for
    their own zoom `t.z + 1 ≤ 31` (so `Valid()` accepts them), one level down, with parent `t`.
    (`V c` itself would ask for `c.z ≤ 30` and exclude the children of zoom-30 tiles.) -/
theorem children_valid_parent_all' (t : Tile) (ht : V t) :
    ∀ c ∈ children t, (c.x < 2 ^ c.z ∧ c.y < 2 ^ c.z ∧ c.z ≤ 31) ∧ valid c = true ∧
      c.z = t.z + 1 ∧ parent c = t := by
  have key : ∀ c ∈ children t, (c.x < 2 ^ c.z ∧ c.y < 2 ^ c.z ∧ c.z ≤ 31) ∧
      c.z = t.z + 1 ∧ parent c = t := by
    rw [children_eq t ht]
    cases t with
    | mk x y z =>
    obtain ⟨hx, hy, hz⟩ := ht
    simp only at hx hy hz
    have hp : (2:Nat) ^ (z + 1) = 2 ^ z * 2 := Nat.pow_succ _ _
    intro c hc
    simp only [List.mem_cons, List.not_mem_nil, or_false] at hc
    rcases hc with rfl | rfl | rfl | rfl <;>
    · refine ⟨⟨?_, ?_, ?_⟩, rfl, ?_⟩
      · simp only; omega
      · simp only; omega
      · simp only; omega
      · rw [parent_eq _ (by simp) (by simp only; omega)]
        simp only [Nat.add_sub_cancel, Tile.mk.injEq, and_true]
        omega
  intro c hc
  obtain ⟨hv, hcz, hpar⟩ := key c hc
  exact ⟨hv, (valid_iff' c hv.2.2).mpr ⟨hv.1, hv.2.1⟩, hcz, hpar⟩

/-- Corollary (also used by C14): children of a tile below zoom 30 are again in the quantifier. -/
theorem children_valid_parent' (t : Tile) (ht : V t) (hz : t.z < 30) :
    ∀ c ∈ children t, V c ∧ c.z = t.z + 1 ∧ parent c = t := by
  intro c hc
  obtain ⟨⟨hx, hy, _⟩, _, hcz, hp⟩ := children_valid_parent_all' t ht c hc
  exact ⟨⟨hx, hy, by omega⟩, hcz, hp⟩

theorem children_distinct' (t : Tile) (ht : V t) : (children t).Nodup := by
  rw [children_eq t ht]
  simp [List.Nodup]

/-- Completeness, for every tile of the quantifier (zoom 30 included) and with NO validity hypothesis
    on `c`: whatever is one level down with parent `t` is one of the four. -/
theorem children_complete_all' (t c : Tile) (ht : V t) (hcz : c.z = t.z + 1)
    (hp : parent c = t) : c ∈ children t := by
  have hz30 : t.z ≤ 30 := ht.2.2
  rw [children_eq t ht]
  rw [parent_eq c (by omega) (by omega)] at hp
  subst hp
  cases c with
  | mk x y z =>
  simp only at hcz
  simp only [List.mem_cons, List.not_mem_nil, or_false, Tile.mk.injEq]
  omega

/-- The former, weaker form (also used by C14). -/
theorem children_complete' (t c : Tile) (ht : V t) (_hz : t.z < 30) (_hc : V c) (hcz : c.z = t.z + 1)
    (hp : parent c = t) : c ∈ children t := children_complete_all' t c ht hcz hp

theorem toZoom_up (t : Tile) (z : Nat) (h : z ≤ t.z) (ht : t.z < 2 ^ 32) :
    toZoom t z = ancestorAt t (t.z - z) := by
  unfold toZoom ancestorAt
  rw [if_neg (by omega), shr32_eq, shr32_eq, sub32_eq h ht]
  congr 1
  omega

theorem toZoom_down (t : Tile) (z : Nat) (ht : V t) (h : t.z ≤ z) (hz : z ≤ 30) :
    toZoom t z = ⟨t.x * 2 ^ (z - t.z), t.y * 2 ^ (z - t.z), z⟩ := by
  obtain ⟨hx, hy, _⟩ := ht
  have hzz : t.z + (z - t.z) = z := by omega
  have h1 := mul_lt_two_pow (b := z - t.z) hx
  have h2 := mul_lt_two_pow (b := z - t.z) hy
  rw [hzz] at h1 h2
  have := two_pow_le_30 hz
  unfold toZoom
  by_cases hlt : z > t.z
  · rw [if_pos hlt, sub32_eq h (by omega), shl32_eq (by omega), shl32_eq (by omega)]
  · have : z = t.z := by omega
    subst this
    rw [if_neg hlt, sub32_eq (Nat.le_refl _) (by omega), shr32_eq, shr32_eq]
    simp

theorem contains_iff_ancestor' (t u : Tile) (ht : V t) (hu : V u) :
    contains t u = true ↔ IsAncestor t u := by
  have _ := ht -- (hypothesis not needed: only `u.z < 2^32` is used)
  unfold contains IsAncestor
  by_cases h : u.z < t.z
  · rw [if_pos h]
    constructor
    · intro h'; cases h'
    · intro h'; omega
  · rw [if_neg h, tile_beq_iff, toZoom_up u t.z (by omega) (by have := hu.2.2; omega)]
    constructor
    · intro h'; exact ⟨by omega, h'⟩
    · intro h'; exact h'.2

theorem range_up' (t : Tile) (z : Nat) (ht : V t) (hz : z < t.z) :
    range t z = (ancestorAt t (t.z - z), ancestorAt t (t.z - z)) := by
  unfold range
  rw [if_pos hz, toZoom_up t z (by omega) (by have := ht.2.2; omega)]

theorem range_down (t : Tile) (z : Nat) (ht : V t) (hz : t.z ≤ z) (hz' : z ≤ 30) :
    range t z = (⟨t.x * 2 ^ (z - t.z), t.y * 2 ^ (z - t.z), z⟩,
      ⟨(t.x + 1) * 2 ^ (z - t.z) - 1, (t.y + 1) * 2 ^ (z - t.z) - 1, z⟩) := by
  obtain ⟨hx, hy, hzt⟩ := ht
  have hzz : t.z + (z - t.z) = z := by omega
  have h1 := succ_mul_le_two_pow (b := z - t.z) hx
  have h2 := succ_mul_le_two_pow (b := z - t.z) hy
  rw [hzz] at h1 h2
  have h30 := two_pow_le_30 hz'
  have h30' := two_pow_le_30 hzt
  have hpos := Nat.two_pow_pos (z - t.z)
  have e1 : (t.x + 1) * 2 ^ (z - t.z) = t.x * 2 ^ (z - t.z) + 2 ^ (z - t.z) := by
    rw [Nat.add_mul, Nat.one_mul]
  have e2 : (t.y + 1) * 2 ^ (z - t.z) = t.y * 2 ^ (z - t.z) + 2 ^ (z - t.z) := by
    rw [Nat.add_mul, Nat.one_mul]
  unfold range
  rw [if_neg (by omega)]
  simp only
  rw [sub32_eq hz (by omega), add32_eq (by omega), add32_eq (by omega)]
  rw [shl32_eq (by omega), shl32_eq (by omega), shl32_eq (by omega), shl32_eq (by omega)]
  rw [sub32_eq (by omega) (by omega), sub32_eq (by omega) (by omega)]

theorem range_eq_descendants' (t u : Tile) (z : Nat) (ht : V t) (hz : t.z ≤ z) (hz' : z ≤ 30)
    (hu : V u) (huz : u.z = z) :
    IsAncestor t u ↔
      ((range t z).1.x ≤ u.x ∧ u.x ≤ (range t z).2.x ∧ (range t z).1.y ≤ u.y ∧ u.y ≤ (range t z).2.y) := by
  have _ := hu -- (hypothesis not needed beyond `huz`)
  rw [range_down t z ht hz hz']
  simp only
  unfold IsAncestor ancestorAt
  rw [huz]
  have hpos := Nat.two_pow_pos (z - t.z)
  have e1 : (t.x + 1) * 2 ^ (z - t.z) = t.x * 2 ^ (z - t.z) + 2 ^ (z - t.z) := by
    rw [Nat.add_mul, Nat.one_mul]
  have e2 : (t.y + 1) * 2 ^ (z - t.z) = t.y * 2 ^ (z - t.z) + 2 ^ (z - t.z) := by
    rw [Nat.add_mul, Nat.one_mul]
  rw [e1, e2]
  have dx := Nat.div_eq_iff (x := u.x) (y := t.x) hpos
  have dy := Nat.div_eq_iff (x := u.y) (y := t.y) hpos
  constructor
  · rintro ⟨_, h⟩
    have hx : u.x / 2 ^ (z - t.z) = t.x := (congrArg Tile.x h).symm
    have hy : u.y / 2 ^ (z - t.z) = t.y := (congrArg Tile.y h).symm
    rw [dx] at hx
    rw [dy] at hy
    omega
  · rintro ⟨a, b, c, d⟩
    refine ⟨hz, ?_⟩
    apply tile_ext
    · exact (dx.2 ⟨a, b⟩).symm
    · exact (dy.2 ⟨c, d⟩).symm
    · simp only; omega



/-! ### quadkey -/

theorem one_shl_mod64 {i : Nat} (h : i < 64) : (1 <<< i) % W64 = 2 ^ i := by
  unfold W64
  rw [Nat.one_shiftLeft]
  exact Nat.mod_eq_of_lt (Nat.pow_lt_pow_right (by decide) h)

/-- bit `j` of `((v &&& 2^i) <<< s) % 2^64` -/
theorem testBit_qk_piece (v i s j : Nat) (h : i + s < 64) :
    (((v &&& 2 ^ i) <<< s) % W64).testBit j = (decide (j = i + s) && v.testBit i) := by
  unfold W64
  rw [Nat.testBit_mod_two_pow, Nat.testBit_shiftLeft, Nat.testBit_and, Nat.testBit_two_pow]
  by_cases hj : j = i + s
  · subst hj
    simp [h]
  · simp only [hj, decide_false, Bool.false_and]
    by_cases h1 : j ≥ s
    · have : ¬ (i = j - s) := by omega
      simp [this]
    · simp [h1]

theorem testBit_quadkeyStep (t : Tile) (r i j : Nat) (h : i < 32) :
    (quadkeyStep t r i).testBit j =
      (r.testBit j || (decide (j = 2 * i) && t.x.testBit i) || (decide (j = 2 * i + 1) && t.y.testBit i)) := by
  unfold quadkeyStep
  simp only
  rw [one_shl_mod64 (by omega), Nat.testBit_or, Nat.testBit_or,
    testBit_qk_piece _ _ _ _ (by omega), testBit_qk_piece _ _ _ _ (by omega)]
  have e1 : i + i = 2 * i := by omega
  have e2 : i + (i + 1) = 2 * i + 1 := by omega
  rw [e1, e2]

theorem quadkey_fold_succ (t : Tile) (n : Nat) :
    (List.range (n + 1)).foldl (quadkeyStep t) 0 =
      quadkeyStep t ((List.range n).foldl (quadkeyStep t) 0) n := by
  rw [List.range_succ, List.foldl_append]
  rfl

theorem quadkey_fold_bits (t : Tile) (n : Nat) (hn : n ≤ 32) (i : Nat) :
    ((List.range n).foldl (quadkeyStep t) 0).testBit (2 * i) = (decide (i < n) && t.x.testBit i) ∧
    ((List.range n).foldl (quadkeyStep t) 0).testBit (2 * i + 1) = (decide (i < n) && t.y.testBit i) := by
  induction n with
  | zero => simp
  | succ n ih =>
    obtain ⟨ih1, ih2⟩ := ih (by omega)
    rw [quadkey_fold_succ, testBit_quadkeyStep _ _ _ _ (by omega),
      testBit_quadkeyStep _ _ _ _ (by omega), ih1, ih2]
    have a1 : ¬ (2 * i = 2 * n + 1) := by omega
    have a2 : ¬ (2 * i + 1 = 2 * n) := by omega
    by_cases h : i = n
    · subst h
      simp
    · have b1 : ¬ (2 * i = 2 * n) := by omega
      have b2 : ¬ (2 * i + 1 = 2 * n + 1) := by omega
      have b3 : (i < n + 1) ↔ (i < n) := by omega
      simp [a1, a2, b1, b3]

theorem fromQuadkey_fold_succ (k z n : Nat) :
    (List.range (n + 1)).foldl (fromQuadkeyStep k) ⟨0, 0, z⟩ =
      fromQuadkeyStep k ((List.range n).foldl (fromQuadkeyStep k) ⟨0, 0, z⟩) n := by
  rw [List.range_succ, List.foldl_append]
  rfl

/-- bit `j` of `((k &&& 2^b) >>> s) % 2^32` -/
theorem testBit_fq_piece (k b s j : Nat) (hs : s ≤ b) (h : b - s < 32) :
    (((k &&& 2 ^ b) >>> s) % W32).testBit j = (decide (j = b - s) && k.testBit b) := by
  unfold W32
  rw [Nat.testBit_mod_two_pow, Nat.testBit_shiftRight, Nat.testBit_and, Nat.testBit_two_pow]
  by_cases hj : j = b - s
  · subst hj
    have e : s + (b - s) = b := by omega
    simp [h, e]
  · have : ¬ (b = s + j) := by omega
    simp [hj, this]

theorem fromQuadkey_fold_bits (k z n : Nat) (hn : n ≤ 32) :
    ((List.range n).foldl (fromQuadkeyStep k) ⟨0, 0, z⟩).z = z ∧
    ∀ i, ((List.range n).foldl (fromQuadkeyStep k) ⟨0, 0, z⟩).x.testBit i
          = (decide (i < n) && k.testBit (2 * i)) ∧
        ((List.range n).foldl (fromQuadkeyStep k) ⟨0, 0, z⟩).y.testBit i
          = (decide (i < n) && k.testBit (2 * i + 1)) := by
  induction n with
  | zero => simp
  | succ n ih =>
    obtain ⟨ihz, ih⟩ := ih (by omega)
    rw [fromQuadkey_fold_succ]
    refine ⟨by simpa [fromQuadkeyStep] using ihz, ?_⟩
    intro i
    obtain ⟨ih1, ih2⟩ := ih i
    generalize (List.range n).foldl (fromQuadkeyStep k) ⟨0, 0, z⟩ = T at ih1 ih2 ⊢
    unfold fromQuadkeyStep
    simp only
    rw [one_shl_mod64 (by omega), one_shl_mod64 (by omega), Nat.testBit_or, Nat.testBit_or,
      testBit_fq_piece _ _ _ _ (by omega) (by omega), testBit_fq_piece _ _ _ _ (by omega) (by omega),
      ih1, ih2]
    have e1 : 2 * n - n = n := by omega
    have e2 : 2 * n + 1 - (n + 1) = n := by omega
    rw [e1, e2]
    by_cases h : i = n
    · subst h
      simp
    · have b3 : (i < n + 1) ↔ (i < n) := by omega
      simp [h, b3]

theorem testBit_eq_false_of_lt {x z i : Nat} (hx : x < 2 ^ z) (hi : z ≤ i) : x.testBit i = false :=
  Nat.testBit_lt_two_pow (Nat.lt_of_lt_of_le hx (Nat.pow_le_pow_right (by decide) hi))

theorem quadkey_roundtrip' (t : Tile) (ht : V t) : fromQuadkey (quadkey t) t.z = t := by
  obtain ⟨hx, hy, hz⟩ := ht
  unfold fromQuadkey
  obtain ⟨h1, h2⟩ := fromQuadkey_fold_bits (quadkey t) t.z t.z (by omega)
  apply tile_ext
  · apply Nat.eq_of_testBit_eq
    intro i
    rw [(h2 i).1]
    unfold quadkey
    rw [(quadkey_fold_bits t t.z (by omega) i).1]
    by_cases h : i < t.z
    · simp [h]
    · simp [h, testBit_eq_false_of_lt hx (Nat.le_of_not_lt h)]
  · apply Nat.eq_of_testBit_eq
    intro i
    rw [(h2 i).2]
    unfold quadkey
    rw [(quadkey_fold_bits t t.z (by omega) i).2]
    by_cases h : i < t.z
    · simp [h]
    · simp [h, testBit_eq_false_of_lt hy (Nat.le_of_not_lt h)]
  · exact h1

theorem quadkey_lt' (t : Tile) (ht : V t) : quadkey t < 4 ^ t.z := by
  obtain ⟨hx, hy, hz⟩ := ht
  have e : (4:Nat) ^ t.z = 2 ^ (2 * t.z) := by
    rw [Nat.pow_mul]
  rw [e]
  apply Nat.lt_pow_two_of_testBit
  intro j hj
  unfold quadkey
  rcases Nat.mod_two_eq_zero_or_one j with h | h
  · have ej : j = 2 * (j / 2) := by omega
    rw [ej, (quadkey_fold_bits t t.z (by omega) (j / 2)).1]
    have : ¬ (j / 2 < t.z) := by omega
    simp [this]
  · have ej : j = 2 * (j / 2) + 1 := by omega
    rw [ej, (quadkey_fold_bits t t.z (by omega) (j / 2)).2]
    have : ¬ (j / 2 < t.z) := by omega
    simp [this]



/-! ### ancestor relation -/

theorem ancestorAt_zero (t : Tile) : ancestorAt t 0 = t := by
  cases t; simp [ancestorAt]

theorem ancestorAt_add (t : Tile) (k m : Nat) :
    ancestorAt (ancestorAt t k) m = ancestorAt t (k + m) := by
  simp [ancestorAt, Nat.div_div_eq_div_mul, Nat.pow_add, Nat.sub_sub]

theorem V_ancestorAt (t : Tile) (ht : V t) (k : Nat) (hk : k ≤ t.z) : V (ancestorAt t k) := by
  obtain ⟨hx, hy, hz⟩ := ht
  have e : t.z = (t.z - k) + k := by omega
  rw [e] at hx hy
  exact ⟨div_lt_two_pow hx, div_lt_two_pow hy, by simp only [ancestorAt]; omega⟩

theorem isAncestor_iff (a u : Tile) : IsAncestor a u ↔ ∃ k, k ≤ u.z ∧ a = ancestorAt u k := by
  constructor
  · rintro ⟨h1, h2⟩
    exact ⟨u.z - a.z, by omega, h2⟩
  · rintro ⟨k, hk, rfl⟩
    have e : u.z - (ancestorAt u k).z = k := by simp only [ancestorAt]; omega
    refine ⟨by simp only [ancestorAt]; omega, ?_⟩
    rw [e]

theorem isAncestor_ancestorAt (u : Tile) (k : Nat) (hk : k ≤ u.z) : IsAncestor (ancestorAt u k) u :=
  (isAncestor_iff _ _).2 ⟨k, hk, rfl⟩

theorem isAncestor_refl (u : Tile) : IsAncestor u u := by
  have := isAncestor_ancestorAt u 0 (Nat.zero_le _)
  rwa [ancestorAt_zero] at this

theorem isAncestor_trans {a b c : Tile} (h1 : IsAncestor a b) (h2 : IsAncestor b c) :
    IsAncestor a c := by
  rw [isAncestor_iff] at h1 h2 ⊢
  obtain ⟨k1, hk1, rfl⟩ := h1
  obtain ⟨k2, hk2, rfl⟩ := h2
  refine ⟨k2 + k1, ?_, ancestorAt_add _ _ _⟩
  simp only [ancestorAt] at hk1
  omega

/-- two ancestors of the same tile: the shallower one is an ancestor of the deeper one -/
theorem isAncestor_restrict {a b t : Tile} (ha : IsAncestor a t) (hb : IsAncestor b t)
    (hz : a.z ≤ b.z) : IsAncestor a b := by
  rw [isAncestor_iff] at ha hb ⊢
  obtain ⟨ka, hka, rfl⟩ := ha
  obtain ⟨kb, hkb, rfl⟩ := hb
  simp only [ancestorAt] at hz
  refine ⟨ka - kb, by simp only [ancestorAt]; omega, ?_⟩
  rw [ancestorAt_add]
  congr 1
  omega

/-! ### bitLen, xor -/

theorem lt_two_pow_bitLen (n : Nat) : n < 2 ^ bitLen n := by
  induction n using bitLen.induct with
  | case1 => simp [bitLen]
  | case2 n ih =>
    rw [bitLen, Nat.pow_succ]
    omega

theorem bitLen_le_of_lt (n : Nat) : ∀ c, n < 2 ^ c → bitLen n ≤ c := by
  induction n using bitLen.induct with
  | case1 => intro c _; simp [bitLen]
  | case2 n ih =>
    intro c hc
    cases c with
    | zero => simp at hc
    | succ c =>
      rw [Nat.pow_succ] at hc
      rw [bitLen]
      have := ih c (by omega)
      omega

theorem div_eq_of_xor_lt {a b c : Nat} (h : a ^^^ b < 2 ^ c) : a / 2 ^ c = b / 2 ^ c := by
  apply Nat.eq_of_testBit_eq
  intro i
  rw [Nat.testBit_div_two_pow, Nat.testBit_div_two_pow]
  have := Nat.testBit_lt_two_pow
    (Nat.lt_of_lt_of_le h (Nat.pow_le_pow_right (by decide) (Nat.le_add_left c i)))
  rw [Nat.testBit_xor] at this
  simpa using this

theorem xor_lt_of_div_eq {a b c : Nat} (h : a / 2 ^ c = b / 2 ^ c) : a ^^^ b < 2 ^ c := by
  apply Nat.lt_pow_two_of_testBit
  intro i hi
  have e : i = (i - c) + c := by omega
  have h1 := Nat.testBit_div_two_pow (n := c) a (i - c)
  have h2 := Nat.testBit_div_two_pow (n := c) b (i - c)
  rw [← e] at h1 h2
  rw [Nat.testBit_xor, ← h1, ← h2, h]
  simp

/-! ### sharedParent -/

/-- `SharedParent` after the two tiles have been brought to the same zoom. -/
def spCore (t u : Tile) : Tile :=
  if t == u then t else
  let xc := bitLen (t.x ^^^ u.x)
  let yc := bitLen (t.y ^^^ u.y)
  let maxc := if yc > xc then yc else xc
  ⟨shr32 t.x maxc, shr32 t.y maxc, sub32 t.z maxc⟩

theorem sharedParent_eq (t u : Tile) :
    sharedParent t u =
      if t.z < u.z then spCore t (toZoom u t.z)
      else if u.z < t.z then spCore (toZoom t u.z) u
      else spCore t u := by
  unfold sharedParent spCore
  by_cases h1 : t.z < u.z
  · have : t.z ≠ u.z := by omega
    simp [h1, this]
  · by_cases h2 : u.z < t.z
    · have : t.z ≠ u.z := by omega
      simp [h1, h2, this]
    · have : t.z = u.z := by omega
      simp [this]

theorem spCore_spec (t u : Tile) (ht : V t) (hu : V u) (hz : t.z = u.z) :
    ∃ m, m ≤ t.z ∧ spCore t u = ancestorAt t m ∧ spCore t u = ancestorAt u m ∧
      ∀ c, t.x / 2 ^ c = u.x / 2 ^ c → t.y / 2 ^ c = u.y / 2 ^ c → m ≤ c := by
  by_cases h : t = u
  · subst h
    refine ⟨0, Nat.zero_le _, ?_, ?_, fun c _ _ => Nat.zero_le _⟩ <;>
    · unfold spCore
      rw [if_pos ((tile_beq_iff _ _).2 rfl), ancestorAt_zero]
  · obtain ⟨hx, hy, hz30⟩ := ht
    obtain ⟨hx', hy', _⟩ := hu
    rw [← hz] at hx' hy'
    have hxx := Nat.xor_lt_two_pow hx hx'
    have hyy := Nat.xor_lt_two_pow hy hy'
    have bx := bitLen_le_of_lt _ _ hxx
    have byy := bitLen_le_of_lt _ _ hyy
    have lx := lt_two_pow_bitLen (t.x ^^^ u.x)
    have ly := lt_two_pow_bitLen (t.y ^^^ u.y)
    have hne : ¬ ((t == u) = true) := fun h' => h ((tile_beq_iff _ _).1 h')
    have hsp : spCore t u = ancestorAt t
        (if bitLen (t.y ^^^ u.y) > bitLen (t.x ^^^ u.x) then bitLen (t.y ^^^ u.y)
          else bitLen (t.x ^^^ u.x)) := by
      unfold spCore
      rw [if_neg hne]
      simp only
      rw [shr32_eq, shr32_eq, sub32_eq (by split <;> omega) (by omega)]
      rfl
    generalize hm : (if bitLen (t.y ^^^ u.y) > bitLen (t.x ^^^ u.x) then bitLen (t.y ^^^ u.y)
          else bitLen (t.x ^^^ u.x)) = m at hsp
    have hmx : bitLen (t.x ^^^ u.x) ≤ m := by rw [← hm]; split <;> omega
    have hmy : bitLen (t.y ^^^ u.y) ≤ m := by rw [← hm]; split <;> omega
    have hmz : m ≤ t.z := by rw [← hm]; split <;> omega
    have ex : t.x / 2 ^ m = u.x / 2 ^ m :=
      div_eq_of_xor_lt (Nat.lt_of_lt_of_le lx (Nat.pow_le_pow_right (by decide) hmx))
    have ey : t.y / 2 ^ m = u.y / 2 ^ m :=
      div_eq_of_xor_lt (Nat.lt_of_lt_of_le ly (Nat.pow_le_pow_right (by decide) hmy))
    refine ⟨m, hmz, hsp, ?_, ?_⟩
    · rw [hsp]
      simp only [ancestorAt, ex, ey, hz]
    · intro c hcx hcy
      have h1 := bitLen_le_of_lt _ _ (xor_lt_of_div_eq hcx)
      have h2 := bitLen_le_of_lt _ _ (xor_lt_of_div_eq hcy)
      rw [← hm]; split <;> omega

theorem spCore_common (t u : Tile) (ht : V t) (hu : V u) (hz : t.z = u.z) :
    IsAncestor (spCore t u) t ∧ IsAncestor (spCore t u) u := by
  obtain ⟨m, hm, h1, h2, _⟩ := spCore_spec t u ht hu hz
  constructor
  · rw [h1]; exact isAncestor_ancestorAt t m hm
  · rw [h2]; exact isAncestor_ancestorAt u m (by omega)

theorem spCore_deepest (t u a : Tile) (ht : V t) (hu : V u) (hz : t.z = u.z)
    (hat : IsAncestor a t) (hau : IsAncestor a u) : IsAncestor a (spCore t u) := by
  obtain ⟨m, hm, h1, _, h3⟩ := spCore_spec t u ht hu hz
  have hsp : IsAncestor (spCore t u) t := by rw [h1]; exact isAncestor_ancestorAt t m hm
  refine isAncestor_restrict hat hsp ?_
  obtain ⟨hz1, e1⟩ := hat
  obtain ⟨hz2, e2⟩ := hau
  rw [← hz] at e2
  have hx : t.x / 2 ^ (t.z - a.z) = u.x / 2 ^ (t.z - a.z) := by
    have := congrArg Tile.x e1
    have := congrArg Tile.x e2
    simp only [ancestorAt] at *
    omega
  have hy : t.y / 2 ^ (t.z - a.z) = u.y / 2 ^ (t.z - a.z) := by
    have := congrArg Tile.y e1
    have := congrArg Tile.y e2
    simp only [ancestorAt] at *
    omega
  have := h3 _ hx hy
  rw [h1]
  simp only [ancestorAt]
  omega

/-- The pair of tiles `SharedParent` actually compares, with the facts needed. -/
theorem sharedParent_reduce (t u : Tile) (ht : V t) (hu : V u) :
    ∃ t' u', sharedParent t u = spCore t' u' ∧ V t' ∧ V u' ∧ t'.z = u'.z ∧
      IsAncestor t' t ∧ IsAncestor u' u ∧ (t'.z = t.z ∨ t'.z = u.z) := by
  have htz : t.z ≤ 30 := ht.2.2
  have huz : u.z ≤ 30 := hu.2.2
  rw [sharedParent_eq]
  by_cases h1 : t.z < u.z
  · rw [if_pos h1, toZoom_up u t.z (by omega) (by omega)]
    refine ⟨t, _, rfl, ht, V_ancestorAt u hu _ (by omega), ?_, isAncestor_refl t,
      isAncestor_ancestorAt u _ (by omega), Or.inl rfl⟩
    simp only [ancestorAt]; omega
  · rw [if_neg h1]
    by_cases h2 : u.z < t.z
    · rw [if_pos h2, toZoom_up t u.z (by omega) (by omega)]
      refine ⟨_, u, rfl, V_ancestorAt t ht _ (by omega), hu, ?_,
        isAncestor_ancestorAt t _ (by omega), isAncestor_refl u, Or.inr ?_⟩ <;>
      · simp only [ancestorAt]; omega
    · rw [if_neg h2]
      exact ⟨t, u, rfl, ht, hu, by omega, isAncestor_refl t, isAncestor_refl u, Or.inl rfl⟩

theorem sharedParent_common' (t u : Tile) (ht : V t) (hu : V u) :
    IsAncestor (sharedParent t u) t ∧ IsAncestor (sharedParent t u) u := by
  obtain ⟨t', u', e, ht', hu', hz, a1, a2, _⟩ := sharedParent_reduce t u ht hu
  rw [e]
  obtain ⟨c1, c2⟩ := spCore_common t' u' ht' hu' hz
  exact ⟨isAncestor_trans c1 a1, isAncestor_trans c2 a2⟩

theorem sharedParent_deepest' (t u a : Tile) (ht : V t) (hu : V u)
    (hat : IsAncestor a t) (hau : IsAncestor a u) : IsAncestor a (sharedParent t u) := by
  obtain ⟨t', u', e, ht', hu', hz, a1, a2, hmin⟩ := sharedParent_reduce t u ht hu
  rw [e]
  have hle : a.z ≤ t'.z := by
    have := hat.1
    have := hau.1
    omega
  exact spCore_deepest t' u' a ht' hu' hz (isAncestor_restrict hat a1 hle)
    (isAncestor_restrict hau a2 (by omega))


/-! ### childrenInZoomRange -/

theorem childrenAtDelta_eq (t : Tile) (d : Nat) (ht : V t) (hd : t.z + d ≤ 30) :
    childrenAtDelta t d = (List.range (2 ^ d)).flatMap fun i =>
      (List.range (2 ^ d)).map fun j => ⟨t.x * 2 ^ d + i, t.y * 2 ^ d + j, t.z + d⟩ := by
  obtain ⟨hx, hy, hz⟩ := ht
  have h1 := succ_mul_le_two_pow (b := d) hx
  have h2 := succ_mul_le_two_pow (b := d) hy
  have h30 := two_pow_le_30 hd
  have hd30 := two_pow_le_30 (show d ≤ 30 by omega)
  have hpos := Nat.two_pow_pos d
  have e1 : (t.x + 1) * 2 ^ d = t.x * 2 ^ d + 2 ^ d := by rw [Nat.add_mul, Nat.one_mul]
  have e2 : (t.y + 1) * 2 ^ d = t.y * 2 ^ d + 2 ^ d := by rw [Nat.add_mul, Nat.one_mul]
  have s1 : shl32 t.x d = t.x * 2 ^ d := shl32_eq (by omega)
  have s2 : shl32 t.y d = t.y * 2 ^ d := shl32_eq (by omega)
  have s3 : shl32 1 d = 2 ^ d := by rw [shl32_eq (by omega), Nat.one_mul]
  have a1 : add32 (t.x * 2 ^ d) (2 ^ d) - t.x * 2 ^ d = 2 ^ d := by
    rw [add32_eq (by omega)]; omega
  have a2 : add32 (t.y * 2 ^ d) (2 ^ d) - t.y * 2 ^ d = 2 ^ d := by
    rw [add32_eq (by omega)]; omega
  have a3 : add32 t.z d = t.z + d := add32_eq (by omega)
  unfold childrenAtDelta
  simp only [s1, s2, s3, a1, a2, a3]

theorem mem_childrenAtDelta (t : Tile) (d : Nat) (u : Tile) (ht : V t) (hd : t.z + d ≤ 30) :
    u ∈ childrenAtDelta t d ↔ (V u ∧ u.z = t.z + d ∧ IsAncestor t u) := by
  rw [childrenAtDelta_eq t d ht hd]
  simp only [List.mem_flatMap, List.mem_map, List.mem_range]
  have hpos := Nat.two_pow_pos d
  obtain ⟨hx, hy, hz⟩ := ht
  have h1 := succ_mul_le_two_pow (b := d) hx
  have h2 := succ_mul_le_two_pow (b := d) hy
  have e1 : (t.x + 1) * 2 ^ d = t.x * 2 ^ d + 2 ^ d := by rw [Nat.add_mul, Nat.one_mul]
  have e2 : (t.y + 1) * 2 ^ d = t.y * 2 ^ d + 2 ^ d := by rw [Nat.add_mul, Nat.one_mul]
  constructor
  · rintro ⟨i, hi, j, hj, rfl⟩
    refine ⟨⟨?_, ?_, hd⟩, rfl, ?_, ?_⟩
    · simp only; omega
    · simp only; omega
    · simp only; omega
    · have ed : t.z + d - t.z = d := by omega
      simp only [ancestorAt, ed]
      apply tile_ext
      · simp only
        rw [Nat.add_comm, Nat.add_mul_div_right _ _ hpos, Nat.div_eq_of_lt hi, Nat.zero_add]
      · simp only
        rw [Nat.add_comm, Nat.add_mul_div_right _ _ hpos, Nat.div_eq_of_lt hj, Nat.zero_add]
      · simp only; omega
  · rintro ⟨_, hzu, hle, he⟩
    have ed : u.z - t.z = d := by omega
    rw [ed] at he
    have ex : t.x = u.x / 2 ^ d := congrArg Tile.x he
    have ey : t.y = u.y / 2 ^ d := congrArg Tile.y he
    refine ⟨u.x % 2 ^ d, Nat.mod_lt _ hpos, u.y % 2 ^ d, Nat.mod_lt _ hpos, ?_⟩
    apply tile_ext
    · simp only; rw [ex]; exact Nat.div_add_mod' _ _
    · simp only; rw [ey]; exact Nat.div_add_mod' _ _
    · simp only; omega

theorem nodup_childrenAtDelta (t : Tile) (d : Nat) (ht : V t) (hd : t.z + d ≤ 30) :
    (childrenAtDelta t d).Nodup := by
  rw [childrenAtDelta_eq t d ht hd]
  unfold List.Nodup
  rw [List.pairwise_flatMap]
  constructor
  · intro i _
    rw [List.pairwise_map]
    refine List.Pairwise.imp ?_ (List.nodup_range (n := 2 ^ d))
    intro a b hab h
    apply hab
    have := congrArg Tile.y h
    simp only at this
    omega
  · refine List.Pairwise.imp ?_ (List.nodup_range (n := 2 ^ d))
    intro a b hab p hp q hq h
    simp only [List.mem_map, List.mem_range] at hp hq
    obtain ⟨_, _, rfl⟩ := hp
    obtain ⟨_, _, rfl⟩ := hq
    apply hab
    have := congrArg Tile.x h
    simp only at this
    omega

theorem childrenInZoomRange_spec' (t : Tile) (zs ze : Nat) (ht : V t) (h1 : t.z ≤ zs) (h2 : zs ≤ ze) (h3 : ze ≤ 30) :
    ∃ l, childrenInZoomRange t zs ze = some l ∧ l.Nodup ∧
      ∀ u, u ∈ l ↔ (V u ∧ zs ≤ u.z ∧ u.z ≤ ze ∧ IsAncestor t u) := by
  have hz30 : t.z ≤ 30 := ht.2.2
  refine ⟨(List.range (ze - t.z + 1 - (zs - t.z))).flatMap fun k =>
    childrenAtDelta t (zs - t.z + k), ?_, ?_, ?_⟩
  · unfold childrenInZoomRange
    rw [if_neg (fun h => h h2), if_neg (fun h => h h1)]
    simp only
    rw [sub32_eq h1 (by omega), sub32_eq (by omega) (by omega)]
  · unfold List.Nodup
    rw [List.pairwise_flatMap]
    constructor
    · intro k hk
      rw [List.mem_range] at hk
      exact nodup_childrenAtDelta t _ ht (by omega)
    · refine List.Pairwise.imp_of_mem ?_ (List.nodup_range (n := ze - t.z + 1 - (zs - t.z)))
      intro a b ha hb hab p hp q hq h
      rw [List.mem_range] at ha hb
      rw [mem_childrenAtDelta t _ _ ht (by omega)] at hp hq
      apply hab
      subst h
      have := hp.2.1
      have := hq.2.1
      omega
  · intro u
    rw [List.mem_flatMap]
    constructor
    · rintro ⟨k, hk, hu⟩
      rw [List.mem_range] at hk
      rw [mem_childrenAtDelta t _ _ ht (by omega)] at hu
      obtain ⟨hv, hz, ha⟩ := hu
      exact ⟨hv, by omega, by omega, ha⟩
    · rintro ⟨hv, hz1, hz2, ha⟩
      refine ⟨u.z - zs, by rw [List.mem_range]; omega, ?_⟩
      rw [mem_childrenAtDelta t _ _ ht (by omega)]
      exact ⟨hv, by omega, ha⟩

end Orb.Tile
