/-
  Helper lemmas for C13. Statements with a prime are the ones OrbProofs/C13.lean re-exports.
-/
import Orb.Tile

namespace Orb.Tile

theorem valid_iff' (t : Tile) (hz : t.z ≤ 31) :
    valid t = true ↔ (t.x < 2^t.z ∧ t.y < 2^t.z) := by
  sorry

theorem ancestorAt_eq_iterate_parent' (u : Tile) (hu : V u) (k : Nat) (hk : k ≤ u.z) :
    ancestorAt u k = parentN k u := by
  sorry

theorem children_valid_parent' (t : Tile) (ht : V t) (hz : t.z < 30) :
    ∀ c ∈ children t, V c ∧ c.z = t.z + 1 ∧ parent c = t := by
  sorry

theorem children_distinct' (t : Tile) (ht : V t) : (children t).Nodup := by
  sorry

theorem children_complete' (t c : Tile) (ht : V t) (hz : t.z < 30) (hc : V c) (hcz : c.z = t.z + 1)
    (hp : parent c = t) : c ∈ children t := by
  sorry

theorem contains_iff_ancestor' (t u : Tile) (ht : V t) (hu : V u) :
    contains t u = true ↔ IsAncestor t u := by
  sorry

theorem quadkey_roundtrip' (t : Tile) (ht : V t) : fromQuadkey (quadkey t) t.z = t := by
  sorry

theorem quadkey_lt' (t : Tile) (ht : V t) : quadkey t < 4 ^ t.z := by
  sorry

theorem sharedParent_common' (t u : Tile) (ht : V t) (hu : V u) :
    IsAncestor (sharedParent t u) t ∧ IsAncestor (sharedParent t u) u := by
  sorry

theorem sharedParent_deepest' (t u a : Tile) (ht : V t) (hu : V u)
    (hat : IsAncestor a t) (hau : IsAncestor a u) : IsAncestor a (sharedParent t u) := by
  sorry

theorem range_eq_descendants' (t u : Tile) (z : Nat) (ht : V t) (hz : t.z ≤ z) (hz' : z ≤ 30)
    (hu : V u) (huz : u.z = z) :
    IsAncestor t u ↔
      ((range t z).1.x ≤ u.x ∧ u.x ≤ (range t z).2.x ∧ (range t z).1.y ≤ u.y ∧ u.y ≤ (range t z).2.y) := by
  sorry

theorem range_up' (t : Tile) (z : Nat) (ht : V t) (hz : z < t.z) :
    range t z = (ancestorAt t (t.z - z), ancestorAt t (t.z - z)) := by
  sorry

theorem childrenInZoomRange_spec' (t : Tile) (zs ze : Nat) (ht : V t) (h1 : t.z ≤ zs) (h2 : zs ≤ ze) (h3 : ze ≤ 30) :
    ∃ l, childrenInZoomRange t zs ze = some l ∧ l.Nodup ∧
      ∀ u, u ∈ l ↔ (V u ∧ zs ≤ u.z ∧ u.z ≤ ze ∧ IsAncestor t u) := by
  sorry

end Orb.Tile