/-
  C11 helper lemmas, part 2: soundness of the pruned traversal `visit` for an abstract visitor,
  and its instances for the find visitor (Find / Matching / Remove) and the in-bound visitor.
-/
import OrbProofs.C11Tree

namespace Orb.Quadtree
open Orb Orb.Core

set_option linter.unusedSectionVars false

variable {α : Type} [Field α] [LinearOrder α] [IsStrictOrderedRing α]

/-- decide a permutation goal between append/cons expressions by counting -/
macro "perm_count" : tactic =>
  `(tactic| (rw [@List.perm_iff_count _ instBEqOfDecidableEq inferInstance]; intro a;
             simp only [List.count_append, List.count_cons, List.count_nil]; omega))

/-- the cell lies entirely outside the box (the pruning test of `visit`) -/
def miss (c : Cell α) (b : Bound α) : Prop := c.l > b.hi.x ∨ c.r < b.lo.x ∨ c.b > b.hi.y ∨ c.t < b.lo.y

theorem miss_not_inCell {c : Cell α} {b : Bound α} {p : Pt α} (hm : miss c b) (hc : inCell c p) :
    ¬ (b.lo.x ≤ p.x ∧ p.x ≤ b.hi.x ∧ b.lo.y ≤ p.y ∧ p.y ≤ b.hi.y) := by
  rintro ⟨h1, h2, h3, h4⟩
  obtain ⟨c1, c2, c3, c4⟩ := hc
  rcases hm with h | h | h | h
  · exact absurd (c1.trans h2) (not_le.mpr h)
  · exact absurd (h1.trans c2) (not_le.mpr h)
  · exact absurd (c3.trans h4) (not_le.mpr h)
  · exact absurd (h3.trans c4) (not_le.mpr h)

theorem subAt_snoc (path : List Nat) (i : Nat) (root : Tree α) :
    subAt (i :: path).reverse root = (subAt path.reverse root).child i := by
  simp [subAt_append, subAt]

/-- Soundness of the pruned traversal for an abstract visitor.  `P seen st` is a state invariant
    relative to the multiset `seen` of pointers accounted for so far; it must be preserved by
    the visitor on a new pointer and it must absorb the contents of any pruned cell. -/
theorem visit_sound {σ : Type} (V : Visitor α σ) (root : Tree α) (P : List (Ptr α) → σ → Prop) (Q : Ptr α → Prop)
    (hperm : ∀ l l' st, l.Perm l' → P l st → P l' st)
    (hvisit : ∀ seen st p path, Q p → (subAt path root).value = some p → P seen st →
      P (p :: seen) (V.visit st p path))
    (hskip : ∀ seen st c ys, P seen st → (∀ y ∈ ys, Q y ∧ inCell c y.p) → miss c (V.bound st) →
      P (ys ++ seen) st) :
    ∀ (t : Tree α) (c : Cell α) (path : List Nat) (st : σ) (seen : List (Ptr α)), Inv t c →
      (∀ y ∈ contents t, Q y) → subAt path.reverse root = t → P seen st →
      P (contents t ++ seen) (visit V t c path st) := by
  intro t
  induction t with
  | nil => intro c path st seen _ _ _ hP; simpa [visit, contents] using hP
  | node v c0 c1 c2 c3 ih0 ih1 ih2 ih3 =>
    intro c path st seen hI hQ hsub hP
    have hcell := hI.mem_inCell
    obtain ⟨hv, hi0, hi1, hi2, hi3⟩ := hI
    simp only [visit]
    by_cases hm : miss c (V.bound st)
    · rw [if_pos (by unfold miss at hm; exact hm)]
      exact hskip seen st c _ hP (fun y hy => ⟨hQ y hy, hcell y hy⟩) hm
    · rw [if_neg (by unfold miss at hm; exact hm)]
      -- everything after the node's own value, for an arbitrary intermediate state
      suffices tail : ∀ st1, P (v.toList ++ seen) st1 →
          P (contents (Tree.node v c0 c1 c2 c3) ++ seen)
            (if (c0.isNil && c1.isNil && c2.isNil && c3.isNil) = true then st1 else
              match childIndex c.cx c.cy V.point with
              | 0 => visit V c3 (c.sub 3) (3 :: path) (visit V c2 (c.sub 2) (2 :: path)
                      (visit V c1 (c.sub 1) (1 :: path) (visit V c0 (c.sub 0) (0 :: path) st1)))
              | 1 => visit V c0 (c.sub 0) (0 :: path) (visit V c3 (c.sub 3) (3 :: path)
                      (visit V c2 (c.sub 2) (2 :: path) (visit V c1 (c.sub 1) (1 :: path) st1)))
              | 2 => visit V c1 (c.sub 1) (1 :: path) (visit V c0 (c.sub 0) (0 :: path)
                      (visit V c3 (c.sub 3) (3 :: path) (visit V c2 (c.sub 2) (2 :: path) st1)))
              | _ => visit V c2 (c.sub 2) (2 :: path) (visit V c1 (c.sub 1) (1 :: path)
                      (visit V c0 (c.sub 0) (0 :: path) (visit V c3 (c.sub 3) (3 :: path) st1)))) by
        cases v with
        | none => exact tail st (by simpa using hP)
        | some p =>
          refine tail _ ?_
          refine hvisit seen st p _ (hQ p (by simp [contents])) ?_ hP
          rw [hsub]; rfl
      intro st1 hP1
      by_cases hn : (c0.isNil && c1.isNil && c2.isNil && c3.isNil) = true
      · rw [if_pos hn]
        simp only [Bool.and_eq_true] at hn
        obtain ⟨⟨⟨n0, n1⟩, n2⟩, n3⟩ := hn
        cases c0 <;> cases c1 <;> cases c2 <;> cases c3 <;> simp [Tree.isNil] at n0 n1 n2 n3
        simpa [contents] using hP1
      · rw [if_neg hn]
        have hQ0 : ∀ y ∈ contents c0, Q y := fun y hy => hQ y (by simp [contents, hy])
        have hQ1 : ∀ y ∈ contents c1, Q y := fun y hy => hQ y (by simp [contents, hy])
        have hQ2 : ∀ y ∈ contents c2, Q y := fun y hy => hQ y (by simp [contents, hy])
        have hQ3 : ∀ y ∈ contents c3, Q y := fun y hy => hQ y (by simp [contents, hy])
        have s0 : ∀ st seen, P seen st → P (contents c0 ++ seen) (visit V c0 (c.sub 0) (0 :: path) st) :=
          fun st seen h => ih0 _ _ st seen hi0 hQ0 (by rw [subAt_snoc, hsub]; rfl) h
        have s1 : ∀ st seen, P seen st → P (contents c1 ++ seen) (visit V c1 (c.sub 1) (1 :: path) st) :=
          fun st seen h => ih1 _ _ st seen hi1 hQ1 (by rw [subAt_snoc, hsub]; rfl) h
        have s2 : ∀ st seen, P seen st → P (contents c2 ++ seen) (visit V c2 (c.sub 2) (2 :: path) st) :=
          fun st seen h => ih2 _ _ st seen hi2 hQ2 (by rw [subAt_snoc, hsub]; rfl) h
        have s3 : ∀ st seen, P seen st → P (contents c3 ++ seen) (visit V c3 (c.sub 3) (3 :: path) st) :=
          fun st seen h => ih3 _ _ st seen hi3 hQ3 (by rw [subAt_snoc, hsub]; rfl) h
        rcases childIndex_cases c.cx c.cy V.point with ⟨e, -, -⟩ | ⟨e, -, -⟩ | ⟨e, -, -⟩ | ⟨e, -, -⟩ <;>
          rw [e] <;> simp only
        · refine hperm _ _ _ ?_ (s3 _ _ (s2 _ _ (s1 _ _ (s0 _ _ hP1))))
          simp only [contents]; perm_count
        · refine hperm _ _ _ ?_ (s0 _ _ (s3 _ _ (s2 _ _ (s1 _ _ hP1))))
          simp only [contents]; perm_count
        · refine hperm _ _ _ ?_ (s1 _ _ (s0 _ _ (s3 _ _ (s2 _ _ hP1))))
          simp only [contents]; perm_count
        · refine hperm _ _ _ ?_ (s2 _ _ (s1 _ _ (s0 _ _ (s3 _ _ hP1))))
          simp only [contents]; perm_count

/-! ### the in-bound visitor -/

theorem inBound_visit (b : Bound α) (f : Ptr α → Bool) (t : Tree α) (c : Cell α) (h : Inv t c) :
    (visit (inBoundVisitor b f) t c [] []).Perm ((contents t).filter fun x => f x && inBox b x.p) := by
  have key := visit_sound (inBoundVisitor b f) t
    (fun seen acc => acc.Perm (seen.filter fun x => f x && inBox b x.p)) (fun _ => True)
    (fun l l' st hp h => h.trans (hp.filter _))
    (by
      intro seen st p path _ _ hP
      have hbox : inBox b p.p = true ↔ ¬ (b.lo.x > p.p.x ∨ b.hi.x < p.p.x ∨ b.lo.y > p.p.y ∨ b.hi.y < p.p.y) := by
        simp [inBox, not_or]
      show (if (!f p) = true then st else
        if b.lo.x > p.p.x ∨ b.hi.x < p.p.x ∨ b.lo.y > p.p.y ∨ b.hi.y < p.p.y then st else st ++ [p]).Perm _
      rw [List.filter_cons]
      cases hf : f p with
      | false => simpa using hP
      | true =>
        by_cases hb : (b.lo.x > p.p.x ∨ b.hi.x < p.p.x ∨ b.lo.y > p.p.y ∨ b.hi.y < p.p.y)
        · have hx : inBox b p.p = false := by
            rw [← Bool.not_eq_true, hbox]; exact not_not.mpr hb
          rw [if_pos hb, hx]; simpa using hP
        · have hx : inBox b p.p = true := hbox.mpr hb
          rw [if_neg hb, hx]
          simpa using (List.perm_append_comm).trans (List.Perm.cons p hP))
    (by
      intro seen st c ys hP hys hm
      have hm' : miss c b := hm
      have : ys.filter (fun x => f x && inBox b x.p) = [] := by
        rw [List.filter_eq_nil_iff]
        intro y hy
        have := miss_not_inCell hm' (hys y hy).2
        simp [inBox, this]
      rw [List.filter_append, this]; exact hP)
    t c [] [] [] h (fun _ _ => trivial) rfl (by simp)
  simpa using key

/-! ### the pruning lemma -/

theorem distSq_nonneg (a b : Pt α) : 0 ≤ distSq a b :=
  add_nonneg (mul_self_nonneg _) (mul_self_nonneg _)

/-- every point of a cell that misses the box `pt ± sqrt d` is farther than `d` from `pt` -/
theorem prune_far {sqrt : α → α} (hs : SqrtUp sqrt) (pt : Pt α) (d : α) (hd : 0 ≤ d) (c : Cell α) (p : Pt α)
    (hm : miss c (boxAround pt (sqrt d))) (hc : inCell c p) : d < distSq p pt := by
  obtain ⟨hs0, hss⟩ := hs d hd
  obtain ⟨c1, c2, c3, c4⟩ := hc
  have hx := mul_self_nonneg (p.x - pt.x)
  have hy := mul_self_nonneg (p.y - pt.y)
  unfold distSq
  rcases hm with h | h | h | h <;> simp only [boxAround] at h
  · have : sqrt d * sqrt d < (p.x - pt.x) * (p.x - pt.x) := mul_self_lt_mul_self hs0 (by linarith)
    linarith
  · have : sqrt d * sqrt d < (pt.x - p.x) * (pt.x - p.x) := mul_self_lt_mul_self hs0 (by linarith)
    have e : (pt.x - p.x) * (pt.x - p.x) = (p.x - pt.x) * (p.x - pt.x) := by ring
    linarith
  · have : sqrt d * sqrt d < (p.y - pt.y) * (p.y - pt.y) := mul_self_lt_mul_self hs0 (by linarith)
    linarith
  · have : sqrt d * sqrt d < (pt.y - p.y) * (pt.y - p.y) := mul_self_lt_mul_self hs0 (by linarith)
    have e : (pt.y - p.y) * (pt.y - p.y) = (p.y - pt.y) * (p.y - pt.y) := by ring
    linarith

/-! ### the find visitor -/

/-- state invariant of the find visitor after the pointers `seen` have been accounted for -/
def FindP (sqrt : α → α) (pt : Pt α) (filter : Ptr α → Bool) (B : Bound α) (root : Tree α)
    (seen : List (Ptr α)) (st : FindSt α) : Prop :=
  (st.closest = none ∧ st.minD = none ∧ st.bnd = B ∧ ∀ y ∈ seen, filter y = false) ∨
  (∃ x path, st.closest = some (x, path) ∧ (subAt path root).value = some x ∧
     st.minD = some (distSq x.p pt) ∧ st.bnd = boxAround pt (sqrt (distSq x.p pt)) ∧ x ∈ seen ∧
     filter x = true ∧ ∀ y ∈ seen, filter y = true → distSq x.p pt ≤ distSq y.p pt)

theorem findRaw_spec {sqrt : α → α} (hs : SqrtUp sqrt) (q : QT α) (pt : Pt α) (filter : Ptr α → Bool)
    (h : QInv q) : FindP sqrt pt filter q.bound q.root (contents q.root) (findRaw sqrt q pt filter) := by
  have key := visit_sound (findVisitor sqrt pt filter) q.root (FindP sqrt pt filter q.bound q.root)
    (fun y => inCell (rootCell q.bound) y.p)
    (by
      intro l l' st hp hP
      rcases hP with ⟨h1, h2, h3, h4⟩ | ⟨x, path, h1, h2, h3, h4, h5, h6, h7⟩
      · exact Or.inl ⟨h1, h2, h3, fun y hy => h4 y (hp.mem_iff.mpr hy)⟩
      · exact Or.inr ⟨x, path, h1, h2, h3, h4, hp.mem_iff.mp h5, h6, fun y hy => h7 y (hp.mem_iff.mpr hy)⟩)
    (by
      intro seen st p path _ hpath hP
      show FindP sqrt pt filter q.bound q.root (p :: seen)
        (if (!filter p) = true then st else
          if (match st.minD with | none => true | some m => decide (distSq p.p pt < m)) = true then
            { closest := some (p, path), bnd := boxAround pt (sqrt (distSq p.p pt)), minD := some (distSq p.p pt) }
          else st)
      cases hf : filter p with
      | false =>
        simp only [Bool.not_false, if_true]
        rcases hP with ⟨h1, h2, h3, h4⟩ | ⟨x, path', h1, h2, h3, h4, h5, h6, h7⟩
        · refine Or.inl ⟨h1, h2, h3, ?_⟩
          intro y hy
          rcases List.mem_cons.mp hy with rfl | hy
          · exact hf
          · exact h4 y hy
        · refine Or.inr ⟨x, path', h1, h2, h3, h4, List.mem_cons_of_mem _ h5, h6, ?_⟩
          intro y hy hfy
          rcases List.mem_cons.mp hy with rfl | hy
          · rw [hf] at hfy; cases hfy
          · exact h7 y hy hfy
      | true =>
        simp only [Bool.not_true, Bool.false_eq_true, if_false]
        rcases hP with ⟨h1, h2, h3, h4⟩ | ⟨x, path', h1, h2, h3, h4, h5, h6, h7⟩
        · rw [h2]
          simp only [if_true]
          refine Or.inr ⟨p, path, rfl, hpath, rfl, rfl, List.mem_cons_self, hf, ?_⟩
          intro y hy hfy
          rcases List.mem_cons.mp hy with rfl | hy
          · exact le_refl _
          · rw [h4 y hy] at hfy; cases hfy
        · rw [h3]
          by_cases hlt : distSq p.p pt < distSq x.p pt
          · simp only [hlt, decide_true, if_true]
            refine Or.inr ⟨p, path, rfl, hpath, rfl, rfl, List.mem_cons_self, hf, ?_⟩
            intro y hy hfy
            rcases List.mem_cons.mp hy with rfl | hy
            · exact le_refl _
            · exact hlt.le.trans (h7 y hy hfy)
          · simp only [hlt, decide_false, Bool.false_eq_true, if_false]
            refine Or.inr ⟨x, path', h1, h2, h3, h4, List.mem_cons_of_mem _ h5, h6, ?_⟩
            intro y hy hfy
            rcases List.mem_cons.mp hy with rfl | hy
            · exact not_lt.mp hlt
            · exact h7 y hy hfy)
    (by
      intro seen st c ys hP hys hm
      rcases hP with ⟨h1, h2, h3, h4⟩ | ⟨x, path', h1, h2, h3, h4, h5, h6, h7⟩
      · refine Or.inl ⟨h1, h2, h3, ?_⟩
        intro y hy
        rcases List.mem_append.mp hy with hy | hy
        · have hm' : miss c q.bound := by
            have : (findVisitor sqrt pt filter).bound st = st.bnd := rfl
            rw [this, h3] at hm; exact hm
          exact absurd (hys y hy).1 (miss_not_inCell hm' (hys y hy).2)
        · exact h4 y hy
      · refine Or.inr ⟨x, path', h1, h2, h3, h4, List.mem_append_right _ h5, h6, ?_⟩
        intro y hy hfy
        rcases List.mem_append.mp hy with hy | hy
        · have hm' : miss c (boxAround pt (sqrt (distSq x.p pt))) := by
            have : (findVisitor sqrt pt filter).bound st = st.bnd := rfl
            rw [this, h4] at hm; exact hm
          exact (prune_far hs pt _ (distSq_nonneg _ _) c y.p hm' (hys y hy).2).le
        · exact h7 y hy hfy)
    q.root (rootCell q.bound) [] ⟨none, q.bound, none⟩ [] h (fun y hy => Inv.mem_inCell h y hy) rfl
    (Or.inl ⟨rfl, rfl, rfl, by simp⟩)
  simpa [findRaw] using key

end Orb.Quadtree
