/-
  C04 / C05-WKT — lemma files behind the property theorems of OrbProofs.C04:
    C04Base   tokenisers (trimSpace, trimSpaceBrackets, upperPrefix, EqualFold, cut, splitOnComma)
    C04Regex  the two hand-compiled regexps, FindAll, splitByRegexpYield
    C04Total  no slice / index of the parser is ever out of bounds; the recursion budget suffices
    C04Kinds  keyword dispatch, the seven non-collection parsers on spelled texts
    C04Round  induction over nested collections, round trip, typed decision table
    C04Respell  text-level re-spelling steps keep a spelling a spelling
    C04Alloc  per-`make` capacity bounds
    C04Witness  the `()`-member witnesses; a concrete (fmtF, parseF) pair for the non-vacuity examples
    C04Float  the layout half of `%g` (Orb/WKTFloat.lean): non-empty, no delimiter byte, no adjacent letters,
              for every digit list — `FloatText` reduced to the digit generator and `ParseFloat`
    C04Empty  `<KEYWORD><blanks>EMPTY` with anything but one space is ErrNotWKT (outside the quantifier)
-/
import OrbProofs.C04Base
import OrbProofs.C04Regex
import OrbProofs.C04Total
import OrbProofs.C04Kinds
import OrbProofs.C04Round
import OrbProofs.C04Witness
import OrbProofs.C04Alloc
import OrbProofs.C04Respell
import OrbProofs.C04Float
import OrbProofs.C04Empty
