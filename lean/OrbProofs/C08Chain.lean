/-
  C08 (extra): the TRUE version of "every vertex of the clipped ring lies on the input chain":
  every output vertex of `ring` lies on a segment of the (implicitly closed) input chain OR is a corner
  of the box.  (The statement without the corner alternative is false: OrbProofs/C08Counter.lean.)
-/
import OrbProofs.C08Ring

namespace Orb.Clip.C08
open Orb Orb.Core Generated.Params

set_option linter.unusedSectionVars false
set_option linter.unusedSimpArgs false

variable {α : Type} [Field α] [LinearOrder α] [IsStrictOrderedRing α]

/-! ### segments -/

theorem seg_left (a b : Pt α) : OnSeg a b a := ⟨0, le_refl _, zero_le_one, by cases a; simp [lerp]⟩
theorem seg_right (a b : Pt α) : OnSeg a b b := ⟨1, zero_le_one, le_refl _, by cases b; simp [lerp]⟩

theorem seg_sub {p q a b u : Pt α} (ha : OnSeg p q a) (hb : OnSeg p q b) (hu : OnSeg a b u) : OnSeg p q u := by
  obtain ⟨s, hs0, hs1, rfl⟩ := ha
  obtain ⟨e, he0, he1, rfl⟩ := hb
  obtain ⟨t, ht0, ht1, rfl⟩ := hu
  refine ⟨s + t * (e - s), ?_, ?_, ?_⟩
  · nlinarith [mul_nonneg ht0 he0, mul_nonneg (sub_nonneg.2 ht1) hs0]
  · nlinarith [mul_nonneg ht0 (sub_nonneg.2 he1), mul_nonneg (sub_nonneg.2 ht1) (sub_nonneg.2 hs1)]
  · simp only [lerp, Pt.mk.injEq]; constructor <;> ring

theorem seg_x_const {a b u : Pt α} {c : α} (ha : a.x = c) (hb : b.x = c) (hu : OnSeg a b u) : u.x = c := by
  obtain ⟨t, _, _, rfl⟩ := hu
  simp [lerp, ha, hb]

theorem seg_y_const {a b u : Pt α} {c : α} (ha : a.y = c) (hb : b.y = c) (hu : OnSeg a b u) : u.y = c := by
  obtain ⟨t, _, _, rfl⟩ := hu
  simp [lerp, ha, hb]

/-! ### chains -/

/-- `a`, then the list: every consecutive pair is related -/
def Ch (E : Pt α → Pt α → Prop) : Pt α → List (Pt α) → Prop
  | _, [] => True
  | a, b :: r => E a b ∧ Ch E b r

/-- every consecutive pair of the list is related -/
def ChL (E : Pt α → Pt α → Prop) : List (Pt α) → Prop
  | [] => True
  | w :: r => Ch E w r

/-- the hypotheses one pass needs -/
structure PassHyp (ins : Pt α → Bool) (ix : Pt α → Pt α → Pt α) (E : Pt α → Pt α → Prop)
    (L V : Pt α → Prop) : Prop where
  sub : ∀ a b u w, E a b → OnSeg a b u → OnSeg a b w → E u w
  line : ∀ u w, L u → L w → E u w
  ixseg : ∀ a b, ins a ≠ ins b → OnSeg a b (ix a b)
  ixL : ∀ a b, ins a ≠ ins b → L (ix a b)
  ixV : ∀ a b, E a b → ins a ≠ ins b → V (ix a b)

/-- how the last emitted vertex `u` relates to the loop variable `prev` -/
def Link (ins : Pt α → Bool) (L : Pt α → Prop) (u prev : Pt α) : Prop :=
  (ins prev = true → u = prev) ∧ (ins prev = false → L u)

theorem getLastD_cons (prev p : Pt α) (rest : List (Pt α)) :
    (p :: rest).getLast?.getD prev = rest.getLast?.getD p := by
  cases rest with
  | nil => simp
  | cons q r =>
    rw [List.getLast?_cons_cons]
    cases h : (q :: r).getLast? with
    | none => simp at h
    | some z => rfl

section pass
variable {ins : Pt α → Bool} {ix : Pt α → Pt α → Pt α} {E : Pt α → Pt α → Prop} {L V : Pt α → Prop}

theorem passL_chain (H : PassHyp ins ix E L V) :
    ∀ (l : List (Pt α)) (prev u : Pt α), Ch E prev l → Link ins L u prev →
      Ch E u (passL ins ix prev l) ∧
        Link ins L ((passL ins ix prev l).getLast?.getD u) (l.getLast?.getD prev) := by
  intro l
  induction l with
  | nil => intro prev u _ hl; exact ⟨trivial, by simpa [passL] using hl⟩
  | cons p rest ih =>
    intro prev u hch hl
    obtain ⟨hE, hch'⟩ := hch
    rw [getLastD_cons]
    cases hp : ins p <;> cases hprev : ins prev
    · -- outside, outside
      have hu : Link ins L u p := ⟨fun h => by simp [hp] at h, fun _ => hl.2 hprev⟩
      have := ih p u hch' hu
      simpa [passL, emit, hp, hprev] using this
    · -- prev inside, p outside
      have hne : ins prev ≠ ins p := by simp [hp, hprev]
      have hu : Link ins L (ix prev p) p := ⟨fun h => by simp [hp] at h, fun _ => H.ixL _ _ hne⟩
      obtain ⟨h1, h2⟩ := ih p (ix prev p) hch' hu
      have hup : u = prev := hl.1 hprev
      have hE' : E u (ix prev p) := by
        rw [hup]; exact H.sub _ _ _ _ hE (seg_left _ _) (H.ixseg _ _ hne)
      simp only [passL, emit, hp, hprev]
      simp only [bne_iff_ne, ne_eq, Bool.false_eq_true, not_false_eq_true, if_true, if_false,
        List.append_nil, List.singleton_append, Ch, getLastD_cons]
      exact ⟨⟨hE', h1⟩, h2⟩
    · -- prev outside, p inside
      have hne : ins prev ≠ ins p := by simp [hp, hprev]
      have hu : Link ins L p p := ⟨fun _ => rfl, fun h => by simp [hp] at h⟩
      obtain ⟨h1, h2⟩ := ih p p hch' hu
      have hE1 : E u (ix prev p) := H.line _ _ (hl.2 hprev) (H.ixL _ _ hne)
      have hE2 : E (ix prev p) p := H.sub _ _ _ _ hE (H.ixseg _ _ hne) (seg_right _ _)
      simp only [passL, emit, hp, hprev]
      simp only [bne_iff_ne, ne_eq, Bool.true_eq_false, not_false_eq_true, if_true,
        List.singleton_append, List.cons_append, List.nil_append, Ch, getLastD_cons]
      exact ⟨⟨hE1, hE2, h1⟩, h2⟩
    · -- inside, inside
      have hu : Link ins L p p := ⟨fun _ => rfl, fun h => by simp [hp] at h⟩
      obtain ⟨h1, h2⟩ := ih p p hch' hu
      have hup : u = prev := hl.1 hprev
      simp only [passL, emit, hp, hprev]
      simp only [bne_self_eq_false, Bool.false_eq_true, if_false, if_true, List.nil_append,
        List.singleton_append, Ch, getLastD_cons]
      exact ⟨⟨hup ▸ hE, h1⟩, h2⟩

theorem passL_V (H : PassHyp ins ix E L V) :
    ∀ (l : List (Pt α)) (prev : Pt α), Ch E prev l → (∀ v ∈ l, V v) → ∀ v ∈ passL ins ix prev l, V v := by
  intro l
  induction l with
  | nil => intro prev _ _ v hv; simp [passL] at hv
  | cons p rest ih =>
    intro prev hch hV v hv
    simp only [passL] at hv
    rcases List.mem_append.1 hv with hv | hv
    · rcases mem_emit hv with ⟨rfl, _⟩ | ⟨rfl, hne⟩
      · exact hV _ List.mem_cons_self
      · exact H.ixV _ _ hch.1 hne
    · exact ih p hch.2 (fun q hq => hV q (List.mem_cons_of_mem _ hq)) v hv

theorem passL_headL (H : PassHyp ins ix E L V) :
    ∀ (l : List (Pt α)) (prev : Pt α), ins prev = false →
      ∀ w, (passL ins ix prev l).head? = some w → L w := by
  intro l
  induction l with
  | nil => intro prev _ w hw; simp [passL] at hw
  | cons p rest ih =>
    intro prev hprev w hw
    cases hp : ins p
    · have : passL ins ix prev (p :: rest) = passL ins ix p rest := by
        simp [passL, emit, hp, hprev]
      rw [this] at hw
      exact ih p hp w hw
    · have hne : ins prev ≠ ins p := by simp [hp, hprev]
      have : passL ins ix prev (p :: rest) = ix prev p :: p :: passL ins ix p rest := by
        simp [passL, emit, hp, hprev]
      rw [this] at hw
      simp at hw
      rw [← hw]; exact H.ixL _ _ hne

/-- one pass keeps the invariant -/
theorem pass_inv (H : PassHyp ins ix E L V) (l : List (Pt α)) (prev0 : Pt α) (hch : Ch E prev0 l)
    (hV : ∀ v ∈ l, V v) :
    ChL E (passL ins ix prev0 l) ∧ (∀ v ∈ passL ins ix prev0 l, V v) ∧
      (l.getLast?.getD prev0 = prev0 → ∀ w z, (passL ins ix prev0 l).head? = some w →
        (passL ins ix prev0 l).getLast? = some z → E z w) := by
  refine ⟨?_, passL_V H l prev0 hch hV, ?_⟩
  · cases hi : ins prev0
    · cases ho : passL ins ix prev0 l with
      | nil => trivial
      | cons w r =>
        have hLw : L w := passL_headL H l prev0 hi w (by rw [ho]; rfl)
        have := (passL_chain H l prev0 w hch ⟨fun h => by simp [hi] at h, fun _ => hLw⟩).1
        rw [ho] at this
        exact this.2
    · have := (passL_chain H l prev0 prev0 hch ⟨fun _ => rfl, fun h => by simp [hi] at h⟩).1
      cases ho : passL ins ix prev0 l with
      | nil => trivial
      | cons w r => rw [ho] at this; exact this.2
  · intro hcyc w z hw hz
    cases hi : ins prev0
    · have hLw : L w := passL_headL H l prev0 hi w hw
      have := (passL_chain H l prev0 w hch ⟨fun h => by simp [hi] at h, fun _ => hLw⟩).2
      rw [hz, hcyc] at this
      exact H.line _ _ (this.2 hi) hLw
    · obtain ⟨h1, h2⟩ := passL_chain H l prev0 prev0 hch ⟨fun _ => rfl, fun h => by simp [hi] at h⟩
      rw [hz, hcyc] at h2
      have hzp : z = prev0 := h2.1 hi
      cases ho : passL ins ix prev0 l with
      | nil => rw [ho] at hw; simp at hw
      | cons w' r =>
        rw [ho] at hw h1
        simp at hw
        rw [hzp, ← hw]; exact h1.1

end pass


/-! ### the concrete relations -/

/-- the segments of the implicitly closed chain: the closing pair, then the consecutive pairs -/
def cycSegs : List (Pt α) → List (Pt α × Pt α)
  | [] => []
  | f :: t => ((f :: t).getLast?.getD f, f) :: segsOf (f :: t)

/-- a corner of the box -/
def IsCorner (box : Bound α) (v : Pt α) : Prop :=
  (v.x = box.lo.x ∨ v.x = box.hi.x) ∧ (v.y = box.lo.y ∨ v.y = box.hi.y)

/-- both points on one of the four lines of the box -/
def OnBoxLine (box : Bound α) (a b : Pt α) : Prop :=
  (a.x = box.lo.x ∧ b.x = box.lo.x) ∨ (a.x = box.hi.x ∧ b.x = box.hi.x) ∨
  (a.y = box.lo.y ∧ b.y = box.lo.y) ∨ (a.y = box.hi.y ∧ b.y = box.hi.y)

/-- edge relation: a piece of an input segment, or a piece of a box line -/
def ERel (box : Bound α) (S : List (Pt α × Pt α)) (a b : Pt α) : Prop :=
  (∃ s ∈ S, OnSeg s.1 s.2 a ∧ OnSeg s.1 s.2 b) ∨ OnBoxLine box a b

/-- vertex predicate: on an input segment, or a box corner -/
def VRel (box : Bound α) (S : List (Pt α × Pt α)) (v : Pt α) : Prop :=
  (∃ s ∈ S, OnSeg s.1 s.2 v) ∨ IsCorner box v

theorem ERel_sub (box : Bound α) (S : List (Pt α × Pt α)) (a b u w : Pt α) (h : ERel box S a b)
    (hu : OnSeg a b u) (hw : OnSeg a b w) : ERel box S u w := by
  rcases h with ⟨s, hs, ha, hb⟩ | h
  · exact Or.inl ⟨s, hs, seg_sub ha hb hu, seg_sub ha hb hw⟩
  · right
    rcases h with ⟨h1, h2⟩ | ⟨h1, h2⟩ | ⟨h1, h2⟩ | ⟨h1, h2⟩
    · exact Or.inl ⟨seg_x_const h1 h2 hu, seg_x_const h1 h2 hw⟩
    · exact Or.inr (Or.inl ⟨seg_x_const h1 h2 hu, seg_x_const h1 h2 hw⟩)
    · exact Or.inr (Or.inr (Or.inl ⟨seg_y_const h1 h2 hu, seg_y_const h1 h2 hw⟩))
    · exact Or.inr (Or.inr (Or.inr ⟨seg_y_const h1 h2 hu, seg_y_const h1 h2 hw⟩))

theorem VRel_refl (box : Bound α) (S : List (Pt α × Pt α)) (v : Pt α) (h : VRel box S v) : ERel box S v v := by
  rcases h with ⟨s, hs, hv⟩ | ⟨h | h, _⟩
  · exact Or.inl ⟨s, hs, hv, hv⟩
  · exact Or.inr (Or.inl ⟨h, h⟩)
  · exact Or.inr (Or.inr (Or.inl ⟨h, h⟩))

/-- a pass against a vertical line `x = c` -/
theorem passHyp_x (box : Bound α) (S : List (Pt α × Pt α)) (c : α) (hc : c = box.lo.x ∨ c = box.hi.x)
    (ins : Pt α → Bool)
    (hopp : ∀ a b, ins a ≠ ins b → a.x ≠ b.x ∧ ((a.x ≤ c ∧ c ≤ b.x) ∨ (b.x ≤ c ∧ c ≤ a.x))) :
    PassHyp ins (fun a b => ⟨c, a.y + (b.y - a.y) * (c - a.x) / (b.x - a.x)⟩) (ERel box S)
      (fun v => v.x = c) (VRel box S) where
  sub := ERel_sub box S
  line := by
    intro u w hu hw
    rcases hc with rfl | rfl
    · exact Or.inr (Or.inl ⟨hu, hw⟩)
    · exact Or.inr (Or.inr (Or.inl ⟨hu, hw⟩))
  ixseg := fun a b hne => onSeg_x a b c (hopp a b hne).1 (hopp a b hne).2
  ixL := fun _ _ _ => rfl
  ixV := by
    intro a b hE hne
    have hseg := onSeg_x a b c (hopp a b hne).1 (hopp a b hne).2
    rcases hE with ⟨s, hs, ha, hb⟩ | h
    · exact Or.inl ⟨s, hs, seg_sub ha hb hseg⟩
    · rcases h with ⟨h1, h2⟩ | ⟨h1, h2⟩ | ⟨h1, h2⟩ | ⟨h1, h2⟩
      · exact absurd (h1.trans h2.symm) (hopp a b hne).1
      · exact absurd (h1.trans h2.symm) (hopp a b hne).1
      · exact Or.inr ⟨hc, Or.inl (seg_y_const h1 h2 hseg)⟩
      · exact Or.inr ⟨hc, Or.inr (seg_y_const h1 h2 hseg)⟩

/-- a pass against a horizontal line `y = c` -/
theorem passHyp_y (box : Bound α) (S : List (Pt α × Pt α)) (c : α) (hc : c = box.lo.y ∨ c = box.hi.y)
    (ins : Pt α → Bool)
    (hopp : ∀ a b, ins a ≠ ins b → a.y ≠ b.y ∧ ((a.y ≤ c ∧ c ≤ b.y) ∨ (b.y ≤ c ∧ c ≤ a.y))) :
    PassHyp ins (fun a b => ⟨a.x + (b.x - a.x) * (c - a.y) / (b.y - a.y), c⟩) (ERel box S)
      (fun v => v.y = c) (VRel box S) where
  sub := ERel_sub box S
  line := by
    intro u w hu hw
    rcases hc with rfl | rfl
    · exact Or.inr (Or.inr (Or.inr (Or.inl ⟨hu, hw⟩)))
    · exact Or.inr (Or.inr (Or.inr (Or.inr ⟨hu, hw⟩)))
  ixseg := fun a b hne => onSeg_y a b c (hopp a b hne).1 (hopp a b hne).2
  ixL := fun _ _ _ => rfl
  ixV := by
    intro a b hE hne
    have hseg := onSeg_y a b c (hopp a b hne).1 (hopp a b hne).2
    rcases hE with ⟨s, hs, ha, hb⟩ | h
    · exact Or.inl ⟨s, hs, seg_sub ha hb hseg⟩
    · rcases h with ⟨h1, h2⟩ | ⟨h1, h2⟩ | ⟨h1, h2⟩ | ⟨h1, h2⟩
      · exact Or.inr ⟨Or.inl (seg_x_const h1 h2 hseg), hc⟩
      · exact Or.inr ⟨Or.inr (seg_x_const h1 h2 hseg), hc⟩
      · exact absurd (h1.trans h2.symm) (hopp a b hne).1
      · exact absurd (h1.trans h2.symm) (hopp a b hne).1

theorem opp_ge {f : Pt α → α} {c : α} {ins : Pt α → Bool} (hins : ∀ p, ins p = true ↔ c ≤ f p) (a b : Pt α)
    (hne : ins a ≠ ins b) : f a ≠ f b ∧ ((f a ≤ c ∧ c ≤ f b) ∨ (f b ≤ c ∧ c ≤ f a)) := by
  rcases bool_ne_cases hne with ⟨h1, h2⟩ | ⟨h1, h2⟩ <;> rw [hins] at h1 h2 <;> rw [not_le] at *
  · exact ⟨fun h => by rw [h] at h1; exact absurd h1 (not_le.2 h2), Or.inr ⟨h2.le, h1⟩⟩
  · exact ⟨fun h => by rw [h] at h1; exact absurd h2 (not_le.2 h1), Or.inl ⟨h1.le, h2⟩⟩

theorem opp_le {f : Pt α → α} {c : α} {ins : Pt α → Bool} (hins : ∀ p, ins p = true ↔ f p ≤ c) (a b : Pt α)
    (hne : ins a ≠ ins b) : f a ≠ f b ∧ ((f a ≤ c ∧ c ≤ f b) ∨ (f b ≤ c ∧ c ≤ f a)) := by
  rcases bool_ne_cases hne with ⟨h1, h2⟩ | ⟨h1, h2⟩ <;> rw [hins] at h1 h2 <;> rw [not_le] at *
  · exact ⟨fun h => by rw [h] at h1; exact absurd h1 (not_le.2 h2), Or.inl ⟨h1, h2.le⟩⟩
  · exact ⟨fun h => by rw [h] at h1; exact absurd h2 (not_le.2 h1), Or.inr ⟨h2, h1.le⟩⟩

theorem ins_2_ok (box : Bound α) (hb : BoxOK box) (p : Pt α) :
    ((bitCode box p &&& 2) == 0) = true ↔ p.x ≤ box.hi.x := by
  rw [ins_2]; exact ⟨fun h => h.elim (fun h => (h.trans hb.1).le) id, Or.inr⟩

theorem ins_8_ok (box : Bound α) (hb : BoxOK box) (p : Pt α) :
    ((bitCode box p &&& 8) == 0) = true ↔ p.y ≤ box.hi.y := by
  rw [ins_8]; exact ⟨fun h => h.elim (fun h => (h.trans hb.2).le) id, Or.inr⟩

/-! ### the invariant through `ring` -/

/-- the invariant of the current vertex list -/
def Inv (box : Bound α) (S : List (Pt α × Pt α)) (ic : Bool) (l : List (Pt α)) : Prop :=
  (∀ v ∈ l, VRel box S v) ∧ ChL (ERel box S) l ∧
    (ic = true → ∀ w z, l.head? = some w → l.getLast? = some z → ERel box S z w)

theorem rpass_inv (box : Bound α) (S : List (Pt α × Pt α)) (ic : Bool) (e : Nat)
    (ix : Pt α → Pt α → Pt α) (hix : ∀ a b, intersect box e a b = some (ix a b)) (L : Pt α → Prop)
    (H : PassHyp (fun p => (bitCode box p &&& e) == 0) ix (ERel box S) L (VRel box S))
    (l : List (Pt α)) (hl : Inv box S ic l) :
    ∃ l', rpass box ic e (some l) = some l' ∧ Inv box S ic l' := by
  cases l with
  | nil => exact ⟨[], rfl, hl⟩
  | cons f t =>
    refine ⟨_, ringPass_eq box e ix hix ic f t, ?_⟩
    obtain ⟨hV, hC, hcyc⟩ := hl
    have hch : Ch (ERel box S) (if ic = true then (f :: t).getLast?.getD f else f) (f :: t) := by
      refine ⟨?_, hC⟩
      cases ic with
      | false => simpa using VRel_refl box S f (hV f List.mem_cons_self)
      | true =>
        cases hz : (f :: t).getLast? with
        | none => simp at hz
        | some z => simpa using hcyc rfl f z rfl hz
    obtain ⟨h1, h2, h3⟩ := pass_inv H (f :: t) _ hch hV
    refine ⟨h2, h1, ?_⟩
    intro hic
    subst hic
    apply h3
    cases hz : (f :: t).getLast? with
    | none => simp at hz
    | some z => simp

theorem mem_segsOf_pred : ∀ (t : List (Pt α)) (f v : Pt α), v ∈ t → ∃ a, (a, v) ∈ segsOf (f :: t) := by
  intro t
  induction t with
  | nil => intro f v hv; simp at hv
  | cons p r ih =>
    intro f v hv
    rcases List.mem_cons.1 hv with rfl | hv
    · exact ⟨f, by simp [segsOf]⟩
    · obtain ⟨a, ha⟩ := ih p v hv
      exact ⟨a, by simp only [segsOf]; exact List.mem_cons_of_mem _ ha⟩

theorem ch_segsOf (box : Bound α) (S : List (Pt α × Pt α)) :
    ∀ (t : List (Pt α)) (f : Pt α), (∀ s ∈ segsOf (f :: t), s ∈ S) → Ch (ERel box S) f t := by
  intro t
  induction t with
  | nil => intro f _; trivial
  | cons p r ih =>
    intro f hS
    refine ⟨Or.inl ⟨(f, p), hS _ (by simp [segsOf]), seg_left _ _, seg_right _ _⟩, ih p ?_⟩
    intro s hs
    exact hS s (by simp only [segsOf]; exact List.mem_cons_of_mem _ hs)

theorem inv_init (box : Bound α) (ic : Bool) (inp : List (Pt α)) : Inv box (cycSegs inp) ic inp := by
  cases inp with
  | nil => exact ⟨by simp, trivial, by simp⟩
  | cons f t =>
    refine ⟨?_, ?_, ?_⟩
    · intro v hv
      rcases List.mem_cons.1 hv with rfl | hv
      · exact Or.inl ⟨_, List.mem_cons_self, seg_right _ _⟩
      · obtain ⟨a, ha⟩ := mem_segsOf_pred t f v hv
        exact Or.inl ⟨(a, v), List.mem_cons_of_mem _ ha, seg_right _ _⟩
    · exact ch_segsOf box _ t f (fun s hs => List.mem_cons_of_mem _ hs)
    · intro _ w z hw hz
      simp at hw
      subst hw
      refine Or.inl ⟨_, List.mem_cons_self, ?_, ?_⟩
      · rw [hz]; exact seg_left _ _
      · exact seg_right _ _

/-- Every vertex of the clipped ring lies on a segment of the (implicitly closed) input chain, or is a
    corner of the box. -/
theorem ring_vertices_on_chain (box : Bound α) (hb : BoxOK box) (inp out : List (Pt α))
    (h : ring box inp = some out) :
    ∀ v ∈ out, (∃ s ∈ cycSegs inp, OnSeg s.1 s.2 v) ∨ IsCorner box v := by
  cases inp with
  | nil =>
    have : out = [] := by simpa [ring] using h.symm
    subst this; simp
  | cons f t =>
    rw [ring_cons_eq] at h
    generalize ptEqB f ((f :: t).getLast?.getD f) = ic at h
    have H1 := passHyp_x box (cycSegs (f :: t)) box.lo.x (Or.inl rfl) (fun p => (bitCode box p &&& 1) == 0)
      (opp_ge (f := fun p => p.x) (ins_1 box))
    have H2 := passHyp_x box (cycSegs (f :: t)) box.hi.x (Or.inr rfl) (fun p => (bitCode box p &&& 2) == 0)
      (opp_le (f := fun p => p.x) (ins_2_ok box hb))
    have H4 := passHyp_y box (cycSegs (f :: t)) box.lo.y (Or.inl rfl) (fun p => (bitCode box p &&& 4) == 0)
      (opp_ge (f := fun p => p.y) (ins_4 box))
    have H8 := passHyp_y box (cycSegs (f :: t)) box.hi.y (Or.inr rfl) (fun p => (bitCode box p &&& 8) == 0)
      (opp_le (f := fun p => p.y) (ins_8_ok box hb))
    obtain ⟨l1, e1, i1⟩ := rpass_inv box _ ic 1 _ (intersect_1 box) _ H1 _ (inv_init box ic (f :: t))
    obtain ⟨l2, e2, i2⟩ := rpass_inv box _ ic 2 _ (intersect_2 box) _ H2 _ i1
    obtain ⟨l3, e3, i3⟩ := rpass_inv box _ ic 4 _ (intersect_4 box) _ H4 _ i2
    obtain ⟨l4, e4, i4⟩ := rpass_inv box _ ic 8 _ (intersect_8 box) _ H8 _ i3
    rw [e1, e2, e3, e4] at h
    obtain ⟨out', ho, hsub, -⟩ := rclose_some ic l4
    rw [ho] at h
    cases h
    intro v hv
    exact i4.1 v (hsub v hv)


/-- Every vertex of the clipped ring lies in the convex hull of the input vertices (it inherits every
    convex property all input vertices share). -/
theorem ring_vertices_in_hull (box : Bound α) (inp out : List (Pt α)) (h : ring box inp = some out)
    (C : Pt α → Prop) (hC : Conv C) (hin : ∀ v ∈ inp, C v) : ∀ v ∈ out, C v := by
  cases inp with
  | nil =>
    have : out = [] := by simpa [ring] using h.symm
    subst this; simp
  | cons f t =>
    rw [ring_cons_eq] at h
    obtain ⟨l, hl, hin'⟩ := chain_spec box (ptEqB f ((f :: t).getLast?.getD f)) (f :: t) hC hin
    rw [hl] at h
    obtain ⟨out', ho, hsub, -⟩ := rclose_some (ptEqB f ((f :: t).getLast?.getD f)) l
    rw [ho] at h
    cases h
    intro v hv
    exact (hin' v (hsub v hv)).2

end Orb.Clip.C08
