/-
  C08 — "a ring disjoint from the box yields nothing" and "the generic clip returns nil exactly when
  nothing remains": what is TRUE of the model (proved), what is FALSE of it (refuted, kernel-checked), and
  the soundness of the exact segment tests the driver's executable clauses use (`Orb.ClipSpec`).

  PROVED
  * `ring_nil_nothing_remains` — a closed ring whose clip is nil has NO point of its closed even-odd region
    (boundary included) in the open box; `ring_remains_not_nil` is the contrapositive.
    `polygon_nil_nothing_remains`, `multiPolygon_nil_nothing_remains` — the same for the polygon region
    (outer minus holes) and the union of polygons.  `geometry_ring_nil_nothing_remains`,
    `geometry_polygon_nil_nothing_remains` — through the generic entry point, i.e. INCLUDING the
    `!b.Intersects(g.Bound())` pre-test of clip/helpers.go:20 (its soundness: `pretest_ring_nil`).
  * `segMeetsClosed_false_sound`, `segWitnessOpen_sound` — the driver's segment tests.
  * `geometry_bound_nil_iff` — for EVERY Bound argument the generic clip is nil iff the two boxes have no
    common point; `geometry_bound_empty_nil` — an empty Bound argument clips to nil (orb fix; before it the
    whole clip box came back: former finding C08-empty-bound-returns-box).
  * `layerClip_kept`, `layerClip_stale_length`, `layerClip_sublist`, `layerClip_vertices_in_box` — the
    in-place compaction of `(*mvt.Layer).Clip` leaves exactly the clipped survivors, in order.

  REFUTED (the full-strength clauses are false of the code; each counterexample is a finding in
  known_findings.json, replayed on the real code by `./check C08`)
  * `ring_disjoint_full_false` — `ring_disjoint_full`: "a closed ring none of whose region or boundary
    points is in the closed box clips to nil".  Counterexample: a frame with a slit around the box
    (Sutherland–Hodgman leaves a zero-area ring running along the box boundary).
  * `clipBound_is_intersection_full_false` — `clip.Bound` (not `clip.Geometry` any more) hands back the
    other box for an EMPTY argument.
-/
import OrbProofs.C08Region
import Orb.ClipSpec
import Mathlib.Tactic.Linarith
import Mathlib.Tactic.NormNum
import Mathlib.Tactic.Ring

namespace Orb.Clip.C08N
open Orb Orb.Core Orb.EvenOdd Orb.Clip Orb.Clip.C08 Orb.ClipSpec

set_option linter.unusedSectionVars false
set_option linter.unusedSimpArgs false
set_option linter.unusedVariables false

variable {α : Type} [Field α] [LinearOrder α] [IsStrictOrderedRing α]

/-! ### the exact segment tests of `Orb.ClipSpec` -/

theorem lerpS_eq (p q : Pt α) (t : α) : lerpS p q t = lerp p q t := rfl

/-- the line function of `p q` is affine: on a box it is bounded below by its value at one of the corners -/
theorem cross_pos_of_corners (b : Bound α) (p q v : Pt α) (hv : InBox b v)
    (h1 : 0 < EvenOdd.cross p q b.lo) (h2 : 0 < EvenOdd.cross p q ⟨b.hi.x, b.lo.y⟩)
    (h3 : 0 < EvenOdd.cross p q b.hi) (h4 : 0 < EvenOdd.cross p q ⟨b.lo.x, b.hi.y⟩) :
    0 < EvenOdd.cross p q v := by
  obtain ⟨hx1, hx2, hy1, hy2⟩ := hv
  simp only [EvenOdd.cross] at *
  rcases le_total 0 (q.x - p.x) with hA | hA <;> rcases le_total 0 (q.y - p.y) with hB | hB
  · nlinarith [mul_nonneg hA (sub_nonneg.2 hy1), mul_nonneg hB (sub_nonneg.2 hx2)]
  · nlinarith [mul_nonneg hA (sub_nonneg.2 hy1), mul_nonneg (neg_nonneg.2 hB) (sub_nonneg.2 hx1)]
  · nlinarith [mul_nonneg (neg_nonneg.2 hA) (sub_nonneg.2 hy2), mul_nonneg hB (sub_nonneg.2 hx2)]
  · nlinarith [mul_nonneg (neg_nonneg.2 hA) (sub_nonneg.2 hy2), mul_nonneg (neg_nonneg.2 hB) (sub_nonneg.2 hx1)]

theorem cross_neg_of_corners (b : Bound α) (p q v : Pt α) (hv : InBox b v)
    (h1 : EvenOdd.cross p q b.lo < 0) (h2 : EvenOdd.cross p q ⟨b.hi.x, b.lo.y⟩ < 0)
    (h3 : EvenOdd.cross p q b.hi < 0) (h4 : EvenOdd.cross p q ⟨b.lo.x, b.hi.y⟩ < 0) :
    EvenOdd.cross p q v < 0 := by
  obtain ⟨hx1, hx2, hy1, hy2⟩ := hv
  simp only [EvenOdd.cross] at *
  rcases le_total 0 (q.x - p.x) with hA | hA <;> rcases le_total 0 (q.y - p.y) with hB | hB
  · nlinarith [mul_nonneg hA (sub_nonneg.2 hy2), mul_nonneg hB (sub_nonneg.2 hx1)]
  · nlinarith [mul_nonneg hA (sub_nonneg.2 hy2), mul_nonneg (neg_nonneg.2 hB) (sub_nonneg.2 hx2)]
  · nlinarith [mul_nonneg (neg_nonneg.2 hA) (sub_nonneg.2 hy1), mul_nonneg hB (sub_nonneg.2 hx1)]
  · nlinarith [mul_nonneg (neg_nonneg.2 hA) (sub_nonneg.2 hy1), mul_nonneg (neg_nonneg.2 hB) (sub_nonneg.2 hx2)]

/-- a point of the segment is on its line -/
theorem cross_on_seg (p q : Pt α) (t : α) : EvenOdd.cross p q (lerp p q t) = 0 := by
  simp only [EvenOdd.cross, lerp]; ring

/-- SOUNDNESS of the "certainly nothing" direction: when one of the three axes separates, no point of the
    closed segment is in the closed box -/
theorem segMeetsClosed_false_sound (b : Bound α) (p q v : Pt α) (h : segMeetsClosed b p q = false)
    (hs : OnSeg p q v) : ¬ InBox b v := by
  intro hv
  obtain ⟨t, h0, h1, rfl⟩ := hs
  have hx : ∀ c : α, p.x < c → q.x < c → (lerp p q t).x < c := fun c ha hb =>
    conv_x_lt c p q _ ha hb ⟨t, h0, h1, rfl⟩
  have hx' : ∀ c : α, c < p.x → c < q.x → c < (lerp p q t).x := fun c ha hb =>
    conv_lt_x c p q _ ha hb ⟨t, h0, h1, rfl⟩
  have hy : ∀ c : α, p.y < c → q.y < c → (lerp p q t).y < c := fun c ha hb =>
    conv_y_lt c p q _ ha hb ⟨t, h0, h1, rfl⟩
  have hy' : ∀ c : α, c < p.y → c < q.y → c < (lerp p q t).y := fun c ha hb =>
    conv_lt_y c p q _ ha hb ⟨t, h0, h1, rfl⟩
  simp only [segMeetsClosed, Bool.not_eq_false', Bool.or_eq_true, Bool.and_eq_true, decide_eq_true_eq] at h
  obtain ⟨hx1, hx2, hy1, hy2⟩ := hv
  rcases h with (((⟨a, c⟩ | ⟨a, c⟩) | (⟨a, c⟩ | ⟨a, c⟩)) | (⟨⟨⟨a, c⟩, d⟩, e⟩ | ⟨⟨⟨a, c⟩, d⟩, e⟩))
  · exact absurd (hx _ a c) (not_lt.2 hx1)
  · exact absurd (hx' _ a c) (not_lt.2 hx2)
  · exact absurd (hy _ a c) (not_lt.2 hy1)
  · exact absurd (hy' _ a c) (not_lt.2 hy2)
  · have := cross_pos_of_corners b p q _ ⟨hx1, hx2, hy1, hy2⟩ a c d e
    rw [cross_on_seg] at this; exact lt_irrefl _ this
  · have := cross_neg_of_corners b p q _ ⟨hx1, hx2, hy1, hy2⟩ a c d e
    rw [cross_on_seg] at this; exact lt_irrefl _ this

/-- SOUNDNESS of the "certainly something" direction: a checked witness is a point of the segment strictly
    inside the box -/
theorem segWitnessOpen_sound (b : Bound α) (p q : Pt α) (ts : List α) (h : segWitnessOpen b p q ts = true) :
    ∃ v, OnSeg p q v ∧ InOpenBox b v := by
  simp only [segWitnessOpen, List.any_eq_true, Bool.and_eq_true, decide_eq_true_eq, inOpen] at h
  obtain ⟨t, -, ⟨⟨h0, h1⟩, ⟨⟨⟨a, c⟩, d⟩, e⟩⟩⟩ := h
  exact ⟨lerp p q t, ⟨t, h0, h1, rfl⟩, a, c, d, e⟩

/-! ### nil ⇒ nothing remains -/

theorem inside_nil (q : Pt α) : EvenOdd.inside ([] : List (Pt α)) q = false := rfl

/-- A closed ring that clips to nil has no point of its closed even-odd region in the open box. -/
theorem ring_nil_nothing_remains (box : Bound α) (hb : BoxOK box) (inp : List (Pt α)) (hc : ClosedRing inp)
    (h : ring box inp = some []) (q : Pt α) (hq : InOpenBox box q) : EvenOdd.inside inp q = false := by
  rw [← (C08R.sh_region_strong box inp [] q hb hc h hq).2.2]; rfl

/-- … and not even a boundary point of it. -/
theorem ring_nil_no_boundary (box : Bound α) (hb : BoxOK box) (inp : List (Pt α)) (hc : ClosedRing inp)
    (h : ring box inp = some []) (q : Pt α) (hq : InOpenBox box q) : EvenOdd.onBoundary inp q = false := by
  rw [← (C08R.sh_region_strong box inp [] q hb hc h hq).2.1]; rfl

/-- Contrapositive: if a point of the open box is in the ring's region (or on its boundary), the clip is
    not nil. -/
theorem ring_remains_not_nil (box : Bound α) (hb : BoxOK box) (inp : List (Pt α)) (hc : ClosedRing inp)
    (q : Pt α) (hq : InOpenBox box q) (hin : EvenOdd.inside inp q = true) : ring box inp ≠ some [] := by
  intro h
  rw [ring_nil_nothing_remains box hb inp hc h q hq] at hin
  exact Bool.false_ne_true hin

/-- `clip.Polygon` is nil only if the outer ring's clip is nil (or there is no ring at all). -/
theorem polygon_nil_iff (box : Bound α) (outer : List (Pt α)) (holes : List (List (Pt α))) :
    polygon box (outer :: holes) = some [] ↔ ring box outer = some [] := by
  obtain ⟨o, hs, ho, -, hp⟩ := polygon_spec' box outer holes
  rw [hp, ho]
  by_cases h : o = []
  · simp [h]
  · simp [h]

/-- A polygon (closed outer ring) that clips to nil has no point of its region in the open box. -/
theorem polygon_nil_nothing_remains (box : Bound α) (hb : BoxOK box) (pg : List (List (Pt α)))
    (hc : ∀ o ∈ pg.head?, ClosedRing o) (h : polygon box pg = some []) (q : Pt α) (hq : InOpenBox box q) :
    EvenOdd.polyInside pg q = false := by
  cases pg with
  | nil => rfl
  | cons o hs =>
    have ho := (polygon_nil_iff box o hs).1 h
    simp only [EvenOdd.polyInside, ring_nil_nothing_remains box hb o (hc o rfl) ho q hq, Bool.false_and]

/-- the "drop the empty ones" fold of `multiPolygon` returns nothing only if every member clipped to nothing -/
theorem multiPolygon_fold_nil (box : Bound α) (mp : List (List (List (Pt α)))) (acc : List (List (List (Pt α)))) :
    mp.foldl (fun acc p => match acc, polygon box p with
      | some res, some [] => some res
      | some res, some p' => some (res ++ [p'])
      | _, _ => none) (some acc) = some [] → acc = [] ∧ ∀ p ∈ mp, polygon box p = some [] := by
  induction mp generalizing acc with
  | nil => intro h; simp at h; exact ⟨h, by simp⟩
  | cons p rest ih =>
    intro h
    rw [List.foldl_cons] at h
    cases hp : polygon box p with
    | none =>
      rw [hp] at h
      exfalso
      have : ∀ l : List (List (List (Pt α))), l.foldl (fun acc p => match acc, polygon box p with
          | some res, some [] => some res
          | some res, some p' => some (res ++ [p'])
          | _, _ => none) none = none := by
        intro l; induction l with
        | nil => rfl
        | cons a l ih => simpa [List.foldl_cons] using ih
      simp only [] at h
      rw [this] at h; cases h
    | some r =>
      rw [hp] at h
      cases r with
      | nil =>
        simp only [] at h
        obtain ⟨ha, hr⟩ := ih acc h
        exact ⟨ha, fun x hx => by
          rcases List.mem_cons.1 hx with rfl | hx
          · exact hp
          · exact hr x hx⟩
      | cons a r' =>
        simp only [] at h
        obtain ⟨ha, -⟩ := ih _ h
        simp at ha

theorem multiPolygon_nil_nothing_remains (box : Bound α) (hb : BoxOK box) (mp : List (List (List (Pt α))))
    (hc : ∀ pg ∈ mp, ∀ o ∈ pg.head?, ClosedRing o) (h : multiPolygon box mp = some []) (q : Pt α)
    (hq : InOpenBox box q) : EvenOdd.multiInside mp q = false := by
  unfold multiPolygon at h
  obtain ⟨-, hall⟩ := multiPolygon_fold_nil box mp [] h
  simp only [EvenOdd.multiInside, List.any_eq_false]
  intro pg hpg
  rw [polygon_nil_nothing_remains box hb pg (hc pg hpg) (hall pg hpg) q hq]
  exact Bool.false_ne_true

/-! ### the bound pre-test of `clip.Geometry` is sound for rings and polygons -/

/-- If the ring's bound misses the box (the pre-test `!b.Intersects(g.Bound())`), the four passes would
    have returned nil anyway. -/
theorem pretest_ring_nil (eb box : Bound α) (r : List (Pt α))
    (h : box.intersects (multiPointBound eb r) = false) (hne : r ≠ []) : ring box r = some [] := by
  have ht := (multiPointBound_tight' eb r hne).1
  apply ring_disjoint_nil'
  simp only [Bound.intersects] at h
  split_ifs at h with hc
  rcases hc with hc | hc | hc | hc
  · exact Or.inr (Or.inl fun v hv => lt_of_lt_of_le hc (ht v hv).1)
  · exact Or.inl fun v hv => lt_of_le_of_lt (ht v hv).2.1 hc
  · exact Or.inr (Or.inr (Or.inr fun v hv => lt_of_lt_of_le hc (ht v hv).2.2.1))
  · exact Or.inr (Or.inr (Or.inl fun v hv => lt_of_le_of_lt (ht v hv).2.2.2 hc))

/-- THE GENERIC ENTRY POINT, ring kind: nil (by the pre-test or by the passes) ⇒ nothing of the closed
    ring's region, boundary included, is in the open box. -/
theorem geometry_ring_nil_nothing_remains (eb box : Bound α) (hb : BoxOK box) (r : List (Pt α))
    (hc : ClosedRing r) (h : geometry eb box (.ring r) = some none) (q : Pt α) (hq : InOpenBox box q) :
    EvenOdd.inside r q = false := by
  have hr : ring box r = some [] := by
    simp only [geometry, Core.bound] at h
    split_ifs at h with hpre
    · exact pretest_ring_nil eb box r (by simpa using hpre) hc.1
    · cases hres : ring box r with
      | none => rw [hres] at h; simp at h
      | some l =>
        cases l with
        | nil => rfl
        | cons a l => rw [hres] at h; simp at h
  exact ring_nil_nothing_remains box hb r hc hr q hq

/-- … polygon kind (the pre-test looks at the outer ring only). -/
theorem geometry_polygon_nil_nothing_remains (eb box : Bound α) (hb : BoxOK box) (pg : List (List (Pt α)))
    (hc : ∀ o ∈ pg.head?, ClosedRing o) (h : geometry eb box (.polygon pg) = some none) (q : Pt α)
    (hq : InOpenBox box q) : EvenOdd.polyInside pg q = false := by
  cases pg with
  | nil => rfl
  | cons o hs =>
    have ho : ring box o = some [] := by
      simp only [geometry, Core.bound, polygonBound] at h
      split_ifs at h with hpre
      · exact pretest_ring_nil eb box o (by simpa using hpre) (hc o rfl).1
      · cases hres : polygon box (o :: hs) with
        | none => rw [hres] at h; simp at h
        | some l =>
          cases l with
          | nil => exact (polygon_nil_iff box o hs).1 hres
          | cons a l => rw [hres] at h; simp at h
    simp only [EvenOdd.polyInside, ring_nil_nothing_remains box hb o (hc o rfl) ho q hq, Bool.false_and]

/-! ### `clip.Bound` / the Bound case of `clip.Geometry` -/

/-- `clip.Bound` hands back the OTHER box when one argument is empty (clip/helpers.go:238-242) -/
theorem clipBound_empty_arg (b c : Bound α) (hb : b.isEmpty = false) (hc : c.isEmpty = true) : clipBound b c = b := by
  simp [clipBound, hb, hc]

/-- THE REPAIRED BEHAVIOUR (orb fix "clip.Geometry returns nil for an empty Bound argument"): an EMPTY Bound
    argument — the package's sentinel `{(1,1),(-1,-1)}`, any Bound inverted on an axis — clips to nil,
    whether or not it passes the bound pre-test.  [Before the fix the model, like the code, returned the
    whole clip box here: `clip.Bound` treats an empty argument as "no constraint", see
    `clipBound_empty_arg`; the former theorem `geometry_bound_empty_returns_box` stated that.] -/
theorem geometry_bound_empty_nil (eb box c : Bound α) (hc : c.isEmpty = true) :
    geometry eb box (.bound c.lo c.hi) = some none := by
  have hcc : (⟨c.lo, c.hi⟩ : Bound α) = c := rfl
  simp only [geometry, hcc, hc]
  split <;> rfl

/-- the intersection clause without its non-emptiness hypotheses … -/
def clipBound_is_intersection_full (α : Type) [Field α] [LinearOrder α] [IsStrictOrderedRing α] : Prop :=
  ∀ (b c : Bound α) (p : Pt α), InBox (clipBound b c) p ↔ (InBox b p ∧ InBox c p)

/-- … is FALSE of `clip.Bound` itself, also after the fix (the behaviour is pinned by the library's own
    test `TestBound/"1 is empty"`; the fix keeps empty arguments away from it in `clip.Geometry`):
    box `[-2,2]²`, the empty sentinel `{(1,1),(-1,-1)}`, the origin. -/
theorem clipBound_is_intersection_full_false : ¬ clipBound_is_intersection_full ℚ := by
  intro h
  have := (h ⟨⟨-2, -2⟩, ⟨2, 2⟩⟩ ⟨⟨1, 1⟩, ⟨-1, -1⟩⟩ ⟨0, 0⟩).1
    (by rw [clipBound_empty_arg _ _ (by decide) (by decide)]; refine ⟨?_, ?_, ?_, ?_⟩ <;> norm_num)
  have h1 := this.2.1
  norm_num at h1

/-- the former finding C08-empty-bound-returns-box: `clip.Geometry([-2,2]², Bound{(1,1),(-1,-1)})` is nil now -/
theorem bound_empty_witness (eb : Bound ℚ) :
    geometry eb ⟨⟨-2, -2⟩, ⟨2, 2⟩⟩ (.bound ⟨1, 1⟩ ⟨-1, -1⟩) = some none :=
  geometry_bound_empty_nil eb ⟨⟨-2, -2⟩, ⟨2, 2⟩⟩ ⟨⟨1, 1⟩, ⟨-1, -1⟩⟩ (by decide)

/-- For EVERY Bound argument, empty or not, the generic clip (with a non-empty box) is nil exactly when
    the two boxes have no common point.  (Before the fix this needed `c.isEmpty = false`.) -/
theorem geometry_bound_nil_iff (eb box c : Bound α) (hb : box.isEmpty = false) :
    geometry eb box (.bound c.lo c.hi) = some none ↔ ¬ ∃ p, InBox box p ∧ InBox c p := by
  have hcc : (⟨c.lo, c.hi⟩ : Bound α) = c := rfl
  cases hc : c.isEmpty with
  | true =>
    rw [geometry_bound_empty_nil eb box c hc]
    refine ⟨fun _ => ?_, fun _ => rfl⟩
    rintro ⟨p, -, hp⟩
    have := mem_nonempty (p := p) (b := c) hp
    rw [hc] at this; cases this
  | false =>
  have key := intersects_iff_common_point' box c hb hc
  cases hi : box.intersects c with
  | false =>
    have : ¬ ∃ p, Mem p box ∧ Mem p c := by rw [← key, hi]; exact Bool.false_ne_true
    simp only [geometry, hcc, hi]
    simp only [Bool.not_false, if_true, true_iff]
    exact this
  | true =>
    obtain ⟨p, hp1, hp2⟩ := key.1 hi
    have hin : InBox (clipBound box c) p := (clipBound_is_intersection' box c hb hc p).2 ⟨hp1, hp2⟩
    have hne : (clipBound box c).isEmpty = false := mem_nonempty (p := p) hin
    simp only [geometry, hcc, hi, hc, hne]
    constructor
    · intro h; simp at h
    · intro h; exact absurd ⟨p, hp1, hp2⟩ h

/-! ### `(*mvt.Layer).Clip`: the in-place compaction -/

section layer
variable {ι γ δ : Type}

/-- what survives of one feature -/
def survivor (clipG : δ → Option (Option γ)) (f : ι × δ) : Option (ι × γ) :=
  match clipG f.2 with
  | some (some r) => some (f.1, r)
  | _ => none

theorem layerStep_kept (st : LayerSt ι γ) (id : ι) (r : Option γ) :
    (layerStep st id r).kept = st.kept ++ (match r with | some g => [(id, g)] | none => []) := by
  cases r with
  | none => simp [layerStep]
  | some g => cases hs : st.stale <;> simp [layerStep, hs]

theorem layerStep_cells (st : LayerSt ι γ) (id : ι) (r : Option γ) :
    (layerStep st id r).kept.length + (layerStep st id r).stale.length = st.kept.length + st.stale.length + 1 := by
  cases r with
  | none => simp [layerStep]; omega
  | some g => cases hs : st.stale <;> simp [layerStep, hs] <;> omega

theorem layerLoop_spec (clipG : δ → Option (Option γ)) (fs : List (ι × δ)) (st out : LayerSt ι γ)
    (h : layerLoop clipG st fs = some out) :
    out.kept = st.kept ++ fs.filterMap (survivor clipG) ∧
      out.kept.length + out.stale.length = st.kept.length + st.stale.length + fs.length := by
  induction fs generalizing st with
  | nil => simp only [layerLoop, Option.some.injEq] at h; subst h; simp
  | cons f rest ih =>
    obtain ⟨id, g⟩ := f
    simp only [layerLoop] at h
    cases hc : clipG g with
    | none => rw [hc] at h; cases h
    | some r =>
      rw [hc] at h
      obtain ⟨h1, h2⟩ := ih _ h
      refine ⟨?_, ?_⟩
      · rw [h1, layerStep_kept, List.filterMap_cons]
        cases r with
        | none => simp [survivor, hc]
        | some r' => simp [survivor, hc]
      · rw [h2, layerStep_cells, List.length_cons]; omega

/-- `Layer.Clip` leaves in `l.Features` exactly the features whose clip is non-nil, each with its clipped
    geometry, in their original order (the in-place compaction loses and duplicates nothing) … -/
theorem layerClip_kept (clipG : δ → Option (Option γ)) (fs : List (ι × δ)) (out : LayerSt ι γ)
    (h : layerClip clipG fs = some out) : out.kept = fs.filterMap (survivor clipG) := by
  simpa using (layerLoop_spec clipG fs ⟨[], []⟩ out h).1

/-- … the backing array keeps its `n` cells: `len(l.Features)` survivors and `n - len` stale pointers … -/
theorem layerClip_stale_length (clipG : δ → Option (Option γ)) (fs : List (ι × δ)) (out : LayerSt ι γ)
    (h : layerClip clipG fs = some out) : out.kept.length + out.stale.length = fs.length := by
  simpa using (layerLoop_spec clipG fs ⟨[], []⟩ out h).2

/-- … and the survivors are a subsequence of the features. -/
theorem layerClip_sublist (clipG : δ → Option (Option γ)) (fs : List (ι × δ)) (out : LayerSt ι γ)
    (h : layerClip clipG fs = some out) : (out.kept.map Prod.fst).Sublist (fs.map Prod.fst) := by
  rw [layerClip_kept clipG fs out h]
  clear h
  induction fs with
  | nil => simp
  | cons f rest ih =>
    rw [List.filterMap_cons]
    cases hs : survivor clipG f with
    | none => simpa using ih.cons _
    | some x =>
      have hx : x.1 = f.1 := by
        unfold survivor at hs
        split at hs <;> simp at hs
        rw [← hs]
      simp only [List.map_cons, hx]
      exact ih.cons₂ _

end layer

/-- No surviving feature has a vertex outside the box. -/
theorem layerClip_vertices_in_box {ι : Type} (eb box : Bound α) (hb : BoxOK box) (fs : List (ι × GVal α))
    (out : LayerSt ι (Geom α)) (h : layerClip (clipV eb box) fs = some out) :
    ∀ f ∈ out.kept, ∀ v ∈ gverts f.2, InBox box v := by
  rw [layerClip_kept _ fs out h]
  intro f hf
  obtain ⟨⟨id, g⟩, -, hs⟩ := List.mem_filterMap.1 hf
  unfold survivor at hs
  split at hs
  · rename_i r hr
    simp only [Option.some.injEq] at hs
    subst hs
    cases g with
    | nilIface => simp [clipV] at hr
    | nilSlice k => exact geometry_vertices_in_box' eb box hb _ _ hr
    | val g' => exact geometry_vertices_in_box' eb box hb _ _ hr
  · cases hs

/-- `Layer.Clip` never gets stuck. -/
theorem layerClip_total {ι : Type} (eb box : Bound α) (hb : BoxOK box) (fs : List (ι × GVal α)) :
    ∃ out, layerClip (clipV eb box) fs = some out := by
  unfold layerClip
  generalize (⟨[], []⟩ : LayerSt ι (Geom α)) = st
  induction fs generalizing st with
  | nil => exact ⟨st, rfl⟩
  | cons f rest ih =>
    obtain ⟨id, g⟩ := f
    have : ∃ r, clipV eb box g = some r := by
      cases g with
      | nilIface => exact ⟨none, rfl⟩
      | nilSlice k => exact geometry_total' eb box hb _
      | val g' => exact geometry_total' eb box hb _
    obtain ⟨r, hr⟩ := this
    simp only [layerLoop, hr]
    exact ih _

/-! ### REFUTATION of the unrestricted "disjoint ⇒ nothing" clause

  The reviewer's witness (box `[1,3]²`, a frame with a slit at distance 0.5 around it), scaled by 10 so that
  every coordinate is an integer.  The real-code replay is in known_findings.json. -/

def fBox : Bound ℚ := ⟨⟨10, 10⟩, ⟨30, 30⟩⟩
def frame : List (Pt ℚ) := [⟨0, 0⟩, ⟨40, 0⟩, ⟨40, 40⟩, ⟨21, 40⟩, ⟨21, 35⟩, ⟨35, 35⟩, ⟨35, 5⟩, ⟨5, 5⟩, ⟨5, 35⟩, ⟨19, 35⟩, ⟨19, 40⟩, ⟨0, 40⟩, ⟨0, 0⟩]

theorem frame_edges : edges frame = [(⟨0, 0⟩, ⟨0, 0⟩), (⟨0, 0⟩, ⟨40, 0⟩), (⟨40, 0⟩, ⟨40, 40⟩), (⟨40, 40⟩, ⟨21, 40⟩), (⟨21, 40⟩, ⟨21, 35⟩),
   (⟨21, 35⟩, ⟨35, 35⟩), (⟨35, 35⟩, ⟨35, 5⟩), (⟨35, 5⟩, ⟨5, 5⟩), (⟨5, 5⟩, ⟨5, 35⟩), (⟨5, 35⟩, ⟨19, 35⟩), (⟨19, 35⟩, ⟨19, 40⟩), (⟨19, 40⟩, ⟨0, 40⟩), (⟨0, 40⟩, ⟨0, 0⟩)] := by
  decide +kernel

macro "os_false" : tactic => `(tactic| (
  by_contra h
  simp only [onSeg, Bool.not_eq_false, Bool.and_eq_true, decide_eq_true_eq] at h
  obtain ⟨⟨-, hB⟩, hC⟩ := h
  rcases hB with ⟨a, b⟩ | ⟨a, b⟩ <;> rcases hC with ⟨c, d⟩ | ⟨c, d⟩ <;> (try simp only [] at a b c d) <;> linarith))

macro "ca_false" : tactic => `(tactic| (
  simp only [crossesAbove, EvenOdd.cross]
  refine decide_eq_false ?_
  rintro (⟨a, b, c⟩ | ⟨a, b, c⟩) <;> (try simp only [] at a b c) <;> nlinarith))

macro "ca_true" : tactic => `(tactic| (
  simp only [crossesAbove, EvenOdd.cross]
  refine decide_eq_true ?_
  first
  | (left; refine ⟨?_, ?_, ?_⟩ <;> (try simp only []) <;> nlinarith)
  | (right; refine ⟨?_, ?_, ?_⟩ <;> (try simp only []) <;> nlinarith)))

theorem frame_outside (q : Pt ℚ) (hq : InBox fBox q) : EvenOdd.inside frame q = false := by
  obtain ⟨hx1, hx2, hy1, hy2⟩ := hq
  simp only [fBox] at hx1 hx2 hy1 hy2
  have nb : onBoundary frame q = false := by
    unfold onBoundary
    rw [frame_edges]
    simp only [List.any_cons, List.any_nil, Bool.or_false, Bool.or_eq_false_iff]
    refine ⟨?_, ?_, ?_, ?_, ?_, ?_, ?_, ?_, ?_, ?_, ?_, ?_, ?_⟩ <;> os_false
  have e0 : crossesAbove (⟨0, 0⟩ : Pt ℚ) ⟨0, 0⟩ q = false := by ca_false
  have e1 : crossesAbove (⟨0, 0⟩ : Pt ℚ) ⟨40, 0⟩ q = false := by ca_false
  have e2 : crossesAbove (⟨40, 0⟩ : Pt ℚ) ⟨40, 40⟩ q = false := by ca_false
  have e4 : crossesAbove (⟨21, 40⟩ : Pt ℚ) ⟨21, 35⟩ q = false := by ca_false
  have e6 : crossesAbove (⟨35, 35⟩ : Pt ℚ) ⟨35, 5⟩ q = false := by ca_false
  have e7 : crossesAbove (⟨35, 5⟩ : Pt ℚ) ⟨5, 5⟩ q = false := by ca_false
  have e8 : crossesAbove (⟨5, 5⟩ : Pt ℚ) ⟨5, 35⟩ q = false := by ca_false
  have e10 : crossesAbove (⟨19, 35⟩ : Pt ℚ) ⟨19, 40⟩ q = false := by ca_false
  have e12 : crossesAbove (⟨0, 40⟩ : Pt ℚ) ⟨0, 0⟩ q = false := by ca_false
  have par : crossings frame q % 2 = 0 := by
    unfold crossings
    rw [frame_edges]
    rcases lt_or_ge q.x 19 with h19 | h19
    · have e3 : crossesAbove (⟨40, 40⟩ : Pt ℚ) ⟨21, 40⟩ q = false := by ca_false
      have e5 : crossesAbove (⟨21, 35⟩ : Pt ℚ) ⟨35, 35⟩ q = false := by ca_false
      have e9 : crossesAbove (⟨5, 35⟩ : Pt ℚ) ⟨19, 35⟩ q = true := by ca_true
      have e11 : crossesAbove (⟨19, 40⟩ : Pt ℚ) ⟨0, 40⟩ q = true := by ca_true
      simp [e0, e1, e2, e3, e4, e5, e6, e7, e8, e9, e10, e11, e12]
    · rcases lt_or_ge q.x 21 with h21 | h21
      · have e3 : crossesAbove (⟨40, 40⟩ : Pt ℚ) ⟨21, 40⟩ q = false := by ca_false
        have e5 : crossesAbove (⟨21, 35⟩ : Pt ℚ) ⟨35, 35⟩ q = false := by ca_false
        have e9 : crossesAbove (⟨5, 35⟩ : Pt ℚ) ⟨19, 35⟩ q = false := by ca_false
        have e11 : crossesAbove (⟨19, 40⟩ : Pt ℚ) ⟨0, 40⟩ q = false := by ca_false
        simp [e0, e1, e2, e3, e4, e5, e6, e7, e8, e9, e10, e11, e12]
      · have e3 : crossesAbove (⟨40, 40⟩ : Pt ℚ) ⟨21, 40⟩ q = true := by ca_true
        have e5 : crossesAbove (⟨21, 35⟩ : Pt ℚ) ⟨35, 35⟩ q = true := by ca_true
        have e9 : crossesAbove (⟨5, 35⟩ : Pt ℚ) ⟨19, 35⟩ q = false := by ca_false
        have e11 : crossesAbove (⟨19, 40⟩ : Pt ℚ) ⟨0, 40⟩ q = false := by ca_false
        simp [e0, e1, e2, e3, e4, e5, e6, e7, e8, e9, e10, e11, e12]
  unfold EvenOdd.inside
  rw [nb, par]; rfl

/-- the unrestricted clause: a closed ring with no point of its closed even-odd region in the closed box
    clips to nil -/
def ring_disjoint_full (α : Type) [Field α] [LinearOrder α] [IsStrictOrderedRing α] : Prop :=
  ∀ (box : Bound α) (inp : List (Pt α)), BoxOK box → ClosedRing inp →
    (∀ q, InBox box q → EvenOdd.inside inp q = false) → ring box inp = some []

theorem frame_ring : ring fBox frame = some
    [⟨10, 30⟩, ⟨10, 10⟩, ⟨30, 10⟩, ⟨30, 30⟩, ⟨30, 30⟩, ⟨30, 10⟩, ⟨10, 10⟩, ⟨10, 30⟩] := by decide +kernel

/-- every edge of the frame misses the closed box, by the very test the driver uses -/
theorem frame_edges_miss : (edges frame).all (fun s => !segMeetsClosed fBox s.1 s.2) = true := by decide +kernel

/-- `ring_disjoint_full` is FALSE of the model (and of the code: same outcome bit for bit). -/
theorem ring_disjoint_full_false : ¬ ring_disjoint_full ℚ := by
  intro h
  have := h fBox frame (by constructor <;> norm_num [fBox]) ⟨by simp [frame], by rfl⟩ frame_outside
  rw [frame_ring] at this
  cases this

/-- … so is "nil ⇔ nothing remains" for rings: the direction `⇐` fails (`⇒` is `ring_nil_nothing_remains`). -/
theorem ring_nil_iff_false : ¬ ∀ (box : Bound ℚ) (inp : List (Pt ℚ)), BoxOK box → ClosedRing inp →
    (ring box inp = some [] ↔ ∀ q, InOpenBox box q → EvenOdd.inside inp q = false) := by
  intro h
  have := (h fBox frame (by constructor <;> norm_num [fBox]) ⟨by simp [frame], by rfl⟩).2
    (fun q hq => frame_outside q ⟨hq.1.le, hq.2.1.le, hq.2.2.1.le, hq.2.2.2.le⟩)
  rw [frame_ring] at this
  cases this

/-! ### non-vacuity -/

/-- `ring_nil_nothing_remains` is not vacuous: a square to the right of the box clips to nil -/
example : ring (⟨⟨0, 0⟩, ⟨2, 2⟩⟩ : Bound ℚ) [⟨3, 0⟩, ⟨4, 0⟩, ⟨4, 1⟩, ⟨3, 0⟩] = some [] := by decide +kernel

/-- `geometry_bound_nil_iff` is not vacuous -/
example (eb : Bound ℚ) : geometry eb ⟨⟨0, 0⟩, ⟨2, 2⟩⟩ (.bound ⟨3, 3⟩ ⟨4, 4⟩) = some none :=
  (geometry_bound_nil_iff eb ⟨⟨0, 0⟩, ⟨2, 2⟩⟩ ⟨⟨3, 3⟩, ⟨4, 4⟩⟩ (by decide)).2
    (by rintro ⟨p, h1, h2⟩; have := h1.2.1; have := h2.1; simp only [] at *; linarith)

/-- `layerClip` on a concrete layer: the first and the third of four features are dropped -/
example : (layerClip (ι := Nat) (fun (n : Nat) => some (if n % 2 == 0 then none else some n))
    [(0, 2), (1, 3), (2, 4), (3, 5)]).map (fun st => (st.kept, st.stale)) = some ([(1, 3), (3, 5)], [2, 3]) := by
  decide

end Orb.Clip.C08N
