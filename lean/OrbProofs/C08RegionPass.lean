/-
  C08 (region), pass layer: ONE Sutherland–Hodgman half-plane pass over an implicitly closed vertex
  cycle changes neither "q is on the boundary" nor the parity of the upward-ray crossing number, for
  every point q strictly on the kept side of the clip line.

  The argument is a telescoping one and needs no change of ray direction:
  on the closed DISCARDED half-plane `R` (which contains every dropped vertex and every emitted
  intersection point) the crossing indicator of an edge is a coboundary, `crossesAbove s e q = (g s != g e)`
  (`g = false` for the left / right / bottom passes, `g w = (w.x ≤ q.x)` for the top pass, the only one
  whose discarded side the upward ray can reach), and no edge inside `R` contains `q`.  Each excursion of
  the cycle into `R` is replaced by a straight piece of the clip line with the same end points, hence
  with the same parity; a cut edge is handled by the split lemmas of `C08RegionGeom`.
-/
import OrbProofs.C08RegionGeom

namespace Orb.Clip.C08R
open Orb Orb.EvenOdd Orb.Contains Orb.Clip Orb.Clip.C08
open Orb.Core hiding chain

set_option linter.unusedSectionVars false
set_option linter.unusedSimpArgs false
set_option linter.unusedVariables false

variable {α : Type} [Field α] [LinearOrder α] [IsStrictOrderedRing α]

/-! ### the two edge-list functionals of the specification -/

/-- parity (odd = `true`) of the number of edges crossed by the upward ray from `q` -/
def crE (E : List (Pt α × Pt α)) (q : Pt α) : Bool := (E.countP fun se => crossesAbove se.1 se.2 q) % 2 == 1

/-- `q` lies on one of the edges -/
def onE (E : List (Pt α × Pt α)) (q : Pt α) : Bool := E.any fun se => onSeg se.1 se.2 q

theorem crE_nil (q : Pt α) : crE [] q = false := rfl
theorem onE_nil (q : Pt α) : onE [] q = false := rfl

theorem crE_cons (s e : Pt α) (E : List (Pt α × Pt α)) (q : Pt α) :
    crE ((s, e) :: E) q = (crossesAbove s e q != crE E q) := by
  unfold crE
  rw [List.countP_cons]
  cases h : crossesAbove s e q
  · simp
  · simp only [if_true, parity_succ]
    cases ((E.countP fun se => crossesAbove se.1 se.2 q) % 2 == 1) <;> rfl

theorem onE_cons (s e : Pt α) (E : List (Pt α × Pt α)) (q : Pt α) :
    onE ((s, e) :: E) q = (onSeg s e q || onE E q) := by
  unfold onE; rw [List.any_cons]

theorem crossings_parity (r : List (Pt α)) (q : Pt α) : (crossings r q % 2 == 1) = crE (edges r) q := rfl
theorem onBoundary_eq (r : List (Pt α)) (q : Pt α) : onBoundary r q = onE (edges r) q := rfl

theorem chain_cons_cons (a b : Pt α) (r : List (Pt α)) : chain (a :: b :: r) = (a, b) :: chain (b :: r) := rfl
theorem chain_single (a : Pt α) : chain [a] = [] := rfl

/-! ### what a pass needs to know about the discarded side -/

/-- `R` is the closed discarded half-plane, seen from a point `q` strictly on the kept side -/
structure RegHyp (ins : Pt α → Bool) (ix : Pt α → Pt α → Pt α) (R : Pt α → Prop) (g : Pt α → Bool)
    (q : Pt α) : Prop where
  out : ∀ p, ins p = false → R p
  ixR : ∀ a b, ins a ≠ ins b → R (ix a b)
  ixseg : ∀ a b, ins a ≠ ins b → OnSeg a b (ix a b)
  cr : ∀ s e, R s → R e → crossesAbove s e q = (g s != g e)
  on : ∀ s e, R s → R e → onSeg s e q = false

section pass
variable {ins : Pt α → Bool} {ix : Pt α → Pt α → Pt α} {R : Pt α → Prop} {g : Pt α → Bool} {q : Pt α}

/-- the open-chain invariant: output chain from the anchor `u` versus input chain from `prev` -/
theorem passL_reg (H : RegHyp ins ix R g q) :
    ∀ (l : List (Pt α)) (prev u : Pt α), Link ins R u prev →
      Link ins R (lastD' u (passL ins ix prev l)) (lastD' prev l) ∧
      crE (chain (u :: passL ins ix prev l)) q =
        ((crE (chain (prev :: l)) q != (g u != g prev)) !=
          (g (lastD' u (passL ins ix prev l)) != g (lastD' prev l))) ∧
      onE (chain (u :: passL ins ix prev l)) q = onE (chain (prev :: l)) q := by
  intro l
  induction l with
  | nil =>
    intro prev u hl
    refine ⟨by simpa [passL, lastD'] using hl, ?_, ?_⟩
    · simp only [passL, lastD', chain_single, crE_nil]
      cases g u <;> cases g prev <;> rfl
    · simp only [passL, chain_single]
  | cons p rest ih =>
    intro prev u hl
    cases hp : ins p <;> cases hprev : ins prev
    · -- outside, outside
      have hRp : R p := H.out p hp
      have hRprev : R prev := H.out prev hprev
      have hu : Link ins R u p := ⟨fun h => by simp [hp] at h, fun _ => hl.2 hprev⟩
      obtain ⟨h1, h2, h3⟩ := ih p u hu
      have e : passL ins ix prev (p :: rest) = passL ins ix p rest := by
        simp [passL, emit, hp, hprev]
      rw [e]
      refine ⟨by simpa [lastD'] using h1, ?_, ?_⟩
      · rw [h2, chain_cons_cons, crE_cons, H.cr prev p hRprev hRp]
        simp only [lastD']
        generalize crE (chain (p :: rest)) q = A
        generalize g (lastD' u (passL ins ix p rest)) = B
        generalize g (lastD' p rest) = C
        cases A <;> cases B <;> cases C <;> cases g u <;> cases g p <;> cases g prev <;> rfl
      · rw [h3, chain_cons_cons, onE_cons, H.on prev p hRprev hRp, Bool.false_or]
    · -- prev inside, p outside
      have hne : ins prev ≠ ins p := by simp [hp, hprev]
      have hRp : R p := H.out p hp
      have hRi : R (ix prev p) := H.ixR _ _ hne
      have hseg := H.ixseg _ _ hne
      have hu : Link ins R (ix prev p) p := ⟨fun h => by simp [hp] at h, fun _ => hRi⟩
      obtain ⟨h1, h2, h3⟩ := ih p (ix prev p) hu
      have hup : u = prev := hl.1 hprev
      subst hup
      have e : passL ins ix u (p :: rest) = ix u p :: passL ins ix p rest := by
        simp [passL, emit, hp, hprev]
      rw [e]
      refine ⟨by simpa [lastD'] using h1, ?_, ?_⟩
      · rw [chain_cons_cons, crE_cons, h2, chain_cons_cons, crE_cons, crossesAbove_split hseg q,
          H.cr (ix u p) p hRi hRp]
        simp only [lastD']
        generalize crE (chain (p :: rest)) q = A
        generalize g (lastD' (ix u p) (passL ins ix p rest)) = B
        generalize g (lastD' p rest) = C
        generalize crossesAbove u (ix u p) q = D
        cases A <;> cases B <;> cases C <;> cases D <;> cases g u <;> cases g p <;> cases g (ix u p) <;> rfl
      · rw [chain_cons_cons, onE_cons, h3, chain_cons_cons, onE_cons, onSeg_split hseg q,
          H.on (ix u p) p hRi hRp, Bool.or_false]
    · -- prev outside, p inside
      have hne : ins prev ≠ ins p := by simp [hp, hprev]
      have hRprev : R prev := H.out prev hprev
      have hRi : R (ix prev p) := H.ixR _ _ hne
      have hRu : R u := hl.2 hprev
      have hseg := H.ixseg _ _ hne
      have hu : Link ins R p p := ⟨fun _ => rfl, fun h => by simp [hp] at h⟩
      obtain ⟨h1, h2, h3⟩ := ih p p hu
      have e : passL ins ix prev (p :: rest) = ix prev p :: p :: passL ins ix p rest := by
        simp [passL, emit, hp, hprev]
      rw [e]
      refine ⟨by simpa [lastD'] using h1, ?_, ?_⟩
      · rw [chain_cons_cons, crE_cons, chain_cons_cons, crE_cons, h2, chain_cons_cons, crE_cons,
          crossesAbove_split hseg q, H.cr u (ix prev p) hRu hRi, H.cr prev (ix prev p) hRprev hRi]
        simp only [lastD']
        generalize crE (chain (p :: rest)) q = A
        generalize g (lastD' p (passL ins ix p rest)) = B
        generalize g (lastD' p rest) = C
        generalize crossesAbove (ix prev p) p q = D
        cases A <;> cases B <;> cases C <;> cases D <;> cases g u <;> cases g p <;> cases g (ix prev p) <;>
          cases g prev <;> rfl
      · rw [chain_cons_cons, onE_cons, chain_cons_cons, onE_cons, h3, chain_cons_cons, onE_cons,
          onSeg_split hseg q, H.on u (ix prev p) hRu hRi, H.on prev (ix prev p) hRprev hRi,
          Bool.false_or, Bool.false_or]
    · -- inside, inside
      have hu : Link ins R p p := ⟨fun _ => rfl, fun h => by simp [hp] at h⟩
      obtain ⟨h1, h2, h3⟩ := ih p p hu
      have hup : u = prev := hl.1 hprev
      subst hup
      have e : passL ins ix u (p :: rest) = p :: passL ins ix p rest := by
        simp [passL, emit, hp, hprev]
      rw [e]
      refine ⟨by simpa [lastD'] using h1, ?_, ?_⟩
      · rw [chain_cons_cons, crE_cons, h2, chain_cons_cons, crE_cons]
        simp only [lastD']
        generalize crE (chain (p :: rest)) q = A
        generalize g (lastD' p (passL ins ix p rest)) = B
        generalize g (lastD' p rest) = C
        generalize crossesAbove u p q = D
        cases A <;> cases B <;> cases C <;> cases D <;> cases g u <;> cases g p <;> rfl
      · rw [chain_cons_cons, onE_cons, h3, chain_cons_cons, onE_cons]

theorem passL_headR (H : RegHyp ins ix R g q) :
    ∀ (l : List (Pt α)) (prev : Pt α), ins prev = false →
      ∀ w r, passL ins ix prev l = w :: r → R w := by
  intro l
  induction l with
  | nil => intro prev _ w r hw; simp [passL] at hw
  | cons p rest ih =>
    intro prev hprev w r hw
    cases hp : ins p
    · have : passL ins ix prev (p :: rest) = passL ins ix p rest := by
        simp [passL, emit, hp, hprev]
      rw [this] at hw
      exact ih p hp w r hw
    · have hne : ins prev ≠ ins p := by simp [hp, hprev]
      have : passL ins ix prev (p :: rest) = ix prev p :: p :: passL ins ix p rest := by
        simp [passL, emit, hp, hprev]
      rw [this] at hw
      simp only [List.cons.injEq] at hw
      rw [← hw.1]; exact H.ixR _ _ hne

/-- THE CYCLE THEOREM: the pass over the implicitly closed cycle `f :: t` (started at the last vertex,
    as `ringPass … true` does) keeps the crossing parity and the on-boundary flag at `q`. -/
theorem pass_cyc (H : RegHyp ins ix R g q) (f : Pt α) (t : List (Pt α)) :
    crE (edges (passL ins ix (lastD' f t) (f :: t))) q = crE (edges (f :: t)) q ∧
    onE (edges (passL ins ix (lastD' f t) (f :: t))) q = onE (edges (f :: t)) q := by
  have hA : edges (f :: t) = chain (lastD' f t :: f :: t) := by rw [edges_cons]; rfl
  have hz : lastD' (lastD' f t) (f :: t) = lastD' f t := rfl
  rw [hA]
  generalize lastD' f t = z at hz ⊢
  cases hi : ins z
  · -- the start vertex is dropped
    have hRz : R z := H.out z hi
    cases ho : passL ins ix z (f :: t) with
    | nil =>
      obtain ⟨h1, h2, h3⟩ := passL_reg H (f :: t) z z ⟨fun h => by simp [hi] at h, fun _ => hRz⟩
      rw [ho, hz] at h2
      rw [ho] at h3
      simp only [lastD', chain_single, crE_nil, onE_nil] at h2 h3
      refine ⟨?_, ?_⟩
      · show crE [] q = _
        rw [crE_nil]
        revert h2
        generalize crE (chain (z :: f :: t)) q = A
        cases A <;> cases g z <;> simp
      · show onE [] q = _
        rw [onE_nil]; exact h3
    | cons w r =>
      have hRw : R w := passL_headR H (f :: t) z hi w r ho
      obtain ⟨h1, h2, h3⟩ := passL_reg H (f :: t) z w ⟨fun h => by simp [hi] at h, fun _ => hRw⟩
      rw [ho, hz] at h1 h2
      rw [ho] at h3
      have hRl : R (lastD' w r) := h1.2 hi
      rw [chain_cons_cons, crE_cons, crossesAbove_self] at h2
      rw [chain_cons_cons, onE_cons, H.on w w hRw hRw, Bool.false_or] at h3
      simp only [lastD'] at h2
      refine ⟨?_, ?_⟩
      · rw [edges_cons, crE_cons, H.cr _ _ hRl hRw]
        revert h2
        generalize crE (chain (w :: r)) q = X
        generalize crE (chain (z :: f :: t)) q = A
        cases X <;> cases A <;> cases g w <;> cases g z <;> cases g (lastD' w r) <;> simp
      · rw [edges_cons, onE_cons, H.on _ _ hRl hRw, Bool.false_or]; exact h3
  · -- the start vertex is kept
    obtain ⟨h1, h2, h3⟩ := passL_reg H (f :: t) z z ⟨fun _ => rfl, fun h => by simp [hi] at h⟩
    rw [hz] at h1 h2
    cases ho : passL ins ix z (f :: t) with
    | nil =>
      rw [ho] at h2 h3
      simp only [lastD', chain_single, crE_nil, onE_nil] at h2 h3
      refine ⟨?_, ?_⟩
      · show crE [] q = _
        rw [crE_nil]
        revert h2
        generalize crE (chain (z :: f :: t)) q = A
        cases A <;> cases g z <;> simp
      · show onE [] q = _
        rw [onE_nil]; exact h3
    | cons w r =>
      rw [ho] at h1 h2 h3
      have hl : lastD' w r = z := h1.1 hi
      simp only [lastD'] at h2
      rw [hl] at h2
      refine ⟨?_, ?_⟩
      · rw [edges_cons, hl, ← chain_cons_cons, h2]
        generalize crE (chain (z :: f :: t)) q = A
        cases A <;> cases g z <;> rfl
      · rw [edges_cons, hl, ← chain_cons_cons]; exact h3

end pass

/-! ### the four concrete passes -/

theorem regHyp_1 (box : Bound α) (q : Pt α) (hq : box.lo.x < q.x) :
    RegHyp (fun p => (bitCode box p &&& 1) == 0)
      (fun a b => ⟨box.lo.x, a.y + (b.y - a.y) * (box.lo.x - a.x) / (b.x - a.x)⟩)
      (fun v => v.x ≤ box.lo.x) (fun _ => false) q where
  out := by
    intro p hp
    have : ¬ box.lo.x ≤ p.x := by
      intro h; rw [← ins_1] at h; rw [h] at hp; exact Bool.noConfusion hp
    exact (not_le.1 this).le
  ixR := fun _ _ _ => le_refl _
  ixseg := fun a b hne =>
    onSeg_x a b _ (opp_ge (f := fun p => p.x) (ins_1 box) a b hne).1 (opp_ge (f := fun p => p.x) (ins_1 box) a b hne).2
  cr := fun s e hs he => (edge_right s e q (lt_of_le_of_lt hs hq) (lt_of_le_of_lt he hq)).2
  on := fun s e hs he => (edge_right s e q (lt_of_le_of_lt hs hq) (lt_of_le_of_lt he hq)).1

theorem regHyp_2 (box : Bound α) (hb : BoxOK box) (q : Pt α) (hq : q.x < box.hi.x) :
    RegHyp (fun p => (bitCode box p &&& 2) == 0)
      (fun a b => ⟨box.hi.x, a.y + (b.y - a.y) * (box.hi.x - a.x) / (b.x - a.x)⟩)
      (fun v => box.hi.x ≤ v.x) (fun _ => false) q where
  out := by
    intro p hp
    have : ¬ p.x ≤ box.hi.x := by
      intro h; rw [← ins_2_ok box hb] at h; rw [h] at hp; exact Bool.noConfusion hp
    exact (not_le.1 this).le
  ixR := fun _ _ _ => le_refl _
  ixseg := fun a b hne =>
    onSeg_x a b _ (opp_le (f := fun p => p.x) (ins_2_ok box hb) a b hne).1
      (opp_le (f := fun p => p.x) (ins_2_ok box hb) a b hne).2
  cr := fun s e hs he => (edge_left s e q (lt_of_lt_of_le hq hs) (lt_of_lt_of_le hq he)).2
  on := fun s e hs he => (edge_left s e q (lt_of_lt_of_le hq hs) (lt_of_lt_of_le hq he)).1

theorem regHyp_4 (box : Bound α) (q : Pt α) (hq : box.lo.y < q.y) :
    RegHyp (fun p => (bitCode box p &&& 4) == 0)
      (fun a b => ⟨a.x + (b.x - a.x) * (box.lo.y - a.y) / (b.y - a.y), box.lo.y⟩)
      (fun v => v.y ≤ box.lo.y) (fun _ => false) q where
  out := by
    intro p hp
    have : ¬ box.lo.y ≤ p.y := by
      intro h; rw [← ins_4] at h; rw [h] at hp; exact Bool.noConfusion hp
    exact (not_le.1 this).le
  ixR := fun _ _ _ => le_refl _
  ixseg := fun a b hne =>
    onSeg_y a b _ (opp_ge (f := fun p => p.y) (ins_4 box) a b hne).1 (opp_ge (f := fun p => p.y) (ins_4 box) a b hne).2
  cr := fun s e hs he => (edge_above s e q (lt_of_le_of_lt hs hq) (lt_of_le_of_lt he hq)).2
  on := fun s e hs he => (edge_above s e q (lt_of_le_of_lt hs hq) (lt_of_le_of_lt he hq)).1

/-- the top pass: the only one whose discarded side the upward ray reaches; there the crossing
    indicator of an edge is the coboundary of `w ↦ (w.x ≤ q.x)` -/
theorem regHyp_8 (box : Bound α) (hb : BoxOK box) (q : Pt α) (hq : q.y < box.hi.y) :
    RegHyp (fun p => (bitCode box p &&& 8) == 0)
      (fun a b => ⟨a.x + (b.x - a.x) * (box.hi.y - a.y) / (b.y - a.y), box.hi.y⟩)
      (fun v => box.hi.y ≤ v.y) (fun w => decide (w.x ≤ q.x)) q where
  out := by
    intro p hp
    have : ¬ p.y ≤ box.hi.y := by
      intro h; rw [← ins_8_ok box hb] at h; rw [h] at hp; exact Bool.noConfusion hp
    exact (not_le.1 this).le
  ixR := fun _ _ _ => le_refl _
  ixseg := fun a b hne =>
    onSeg_y a b _ (opp_le (f := fun p => p.y) (ins_8_ok box hb) a b hne).1
      (opp_le (f := fun p => p.y) (ins_8_ok box hb) a b hne).2
  cr := fun s e hs he => (edge_below s e q (lt_of_lt_of_le hq hs) (lt_of_lt_of_le hq he)).2
  on := fun s e hs he => (edge_below s e q (lt_of_lt_of_le hq hs) (lt_of_lt_of_le hq he)).1

end Orb.Clip.C08R
