/-
  C09 — translation tie for planar/contains.go `rayIntersect`.
  `Generated/PlanarGo.lean` is REGENERATED from /repo on every run by
  harness/cmd/factgen/translate_float.go.  The Go function is translated as it is written: the swap
  of `s`, `e`, the two on-vertex tests with their early returns, the assignment
  `p[0] = math.Nextafter(p[0], +Inf)` (the explicit parameter `next`), and the tail shared by the
  three paths as a local join point.  The model `Orb.Contains.rayIntersect` is shaped differently
  (an `Option` for the early returns plus a `Nudge` record for the three later uses of `p[0]`);
  `rayIntersect_tie` proves the two equal for the real nudge `Nudge.real next`, for every number
  type: `model_ordered` / `model_swapped` restate the model in the control-flow shape of the code
  (`rayOrdered`), and the regenerated definition reduces to that shape by `rfl`.
-/
import Orb.Contains
import Generated.PlanarGo

namespace Orb.C09Tie
open Orb Orb.Core

set_option linter.unusedSectionVars false

variable {α : Type} [Add α] [Sub α] [Mul α] [Div α] [Neg α] [LT α] [LE α] [DecidableLT α] [DecidableLE α]
  [BEq α] [Min α] [Max α] [OfNat α 0] [OfNat α 1] [OfNat α 2] [OfNat α 6] [NatCast α]

/-- the part of `rayIntersect` after the two on-vertex tests, for the (possibly nudged) point `P` -/
def rayTail (s e P : Pt α) : Bool × Bool :=
  if P.x < s.x ∨ P.x > e.x then (false, false) else
  let k := fun (_ : Unit) =>
    let rs := (P.y - s.y) / (P.x - s.x)
    let ds := (e.y - s.y) / (e.x - s.x)
    if rs == ds then (false, true) else (decide (rs ≤ ds), false)
  if s.y > e.y then
    if P.y > s.y then (false, false) else if P.y < e.y then (true, false) else k ()
  else
    if P.y > e.y then (false, false) else if P.y < s.y then (true, false) else k ()

/-- `rayIntersect` once `s`, `e` are ordered, in the control-flow shape of the Go code -/
def rayOrdered (next : α → α) (p s e : Pt α) : Bool × Bool :=
  if p.x == s.x then
    if p.y == s.y then (false, true)
    else if s.x == e.x then
      if s.y > e.y ∧ s.y ≥ p.y ∧ p.y ≥ e.y then (false, true)
      else if e.y > s.y ∧ e.y ≥ p.y ∧ p.y ≥ s.y then (false, true)
      else rayTail s e ⟨next p.x, p.y⟩
    else rayTail s e ⟨next p.x, p.y⟩
  else if p.x == e.x then
    if p.y == e.y then (false, true) else rayTail s e ⟨next p.x, p.y⟩
  else rayTail s e p

/-- the model, when `s`, `e` are not swapped -/
theorem model_ordered (next : α → α) (p s e : Pt α) (h : ¬ e.x < s.x) :
    Contains.rayIntersect (Contains.Nudge.real next) p s e = rayOrdered next p s e := by
  unfold Contains.rayIntersect Contains.Nudge.real rayOrdered
  simp only [h, ↓reduceIte]
  cases h1 : (p.x == s.x)
  · cases h2 : (p.x == e.x)
    · simp [rayTail]
    · cases h3 : (p.y == e.y)
      · simp [rayTail]
      · simp
  · cases h3 : (p.y == s.y)
    · cases h4 : (s.x == e.x)
      · simp [rayTail]
      · by_cases hA : (e.y < s.y ∧ p.y ≤ s.y ∧ e.y ≤ p.y) <;>
        by_cases hB : (s.y < e.y ∧ p.y ≤ e.y ∧ s.y ≤ p.y) <;> simp [hA, hB, and_assoc, rayTail]
    · simp

/-- the model, when `s`, `e` are swapped -/
theorem model_swapped (next : α → α) (p s e : Pt α) (h : e.x < s.x) :
    Contains.rayIntersect (Contains.Nudge.real next) p s e = rayOrdered next p e s := by
  unfold Contains.rayIntersect Contains.Nudge.real rayOrdered
  simp only [h, ↓reduceIte]
  cases h1 : (p.x == e.x)
  · cases h2 : (p.x == s.x)
    · simp [rayTail]
    · cases h3 : (p.y == s.y)
      · simp [rayTail]
      · simp
  · cases h3 : (p.y == e.y)
    · cases h4 : (e.x == s.x)
      · simp [rayTail]
      · by_cases hA : (s.y < e.y ∧ p.y ≤ e.y ∧ s.y ≤ p.y) <;>
        by_cases hB : (e.y < s.y ∧ p.y ≤ s.y ∧ e.y ≤ p.y) <;> simp [hA, hB, and_assoc, rayTail]
    · simp

/-- `rayIntersect`: the regenerated translation of the Go function is the model at the real nudge -/
theorem rayIntersect_tie (next : α → α) (p s e : Pt α) :
    Generated.PlanarGo.rayIntersect next p s e = Contains.rayIntersect (Contains.Nudge.real next) p s e := by
  by_cases h : e.x < s.x
  · rw [model_swapped next p s e h]
    unfold Generated.PlanarGo.rayIntersect
    simp only [h, gt_iff_lt, ↓reduceIte]
    rfl
  · rw [model_ordered next p s e h]
    unfold Generated.PlanarGo.rayIntersect
    simp only [h, gt_iff_lt, ↓reduceIte]
    rfl

theorem rayIntersect_translated : "rayIntersect" ∈ Generated.PlanarGo.translated := by
  decide

end Orb.C09Tie
