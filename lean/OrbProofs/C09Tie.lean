/-
  C09 — translation tie for planar/contains.go: `rayIntersect`, and (second half of the file) `RingContains`,
  `PolygonContains`, `MultiPolygonContains` with their loops, early returns and index panics.
  `Generated/PlanarGo.lean` is REGENERATED from /repo on every run by
  harness/cmd/factgen/translate_float.go.  The Go function is translated as it is written: the swap
  of `s`, `e`, the two on-vertex tests with their early returns, the assignment
  `p[0] = math.Nextafter(p[0], +Inf)` (the explicit parameter `next`), and the tail shared by the
  three paths as a local join point.  The model `Orb.Contains.rayIntersect` is shaped differently
  (an `Option` for the early returns plus a `Nudge` record for the three later uses of `p[0]`);
  `rayIntersect_tie` proves the two equal for the real nudge `Nudge.real next`, for every number
  type: `model_ordered` / `model_swapped` restate the model in the control-flow shape of the code
  (`rayOrdered`), and the regenerated definition reduces to that shape by `rfl`.
-/
import Orb.Contains
import Generated.PlanarGo
import Orb.LoopForms
import OrbProofs.C06Tie

namespace Orb.C09Tie
open Orb Orb.Core

set_option linter.unusedSectionVars false

variable {α : Type} [Add α] [Sub α] [Mul α] [Div α] [Neg α] [LT α] [LE α] [DecidableLT α] [DecidableLE α]
  [BEq α] [Min α] [Max α] [OfNat α 0] [OfNat α 1] [OfNat α 2] [OfNat α 6] [NatCast α]

/-- the part of `rayIntersect` after the two on-vertex tests, for the (possibly nudged) point `P` -/
def rayTail (s e P : Pt α) : Bool × Bool :=
  if P.x < s.x ∨ P.x > e.x then (false, false) else
  let k := fun (_ : Unit) =>
    let rs := (P.y - s.y) / (P.x - s.x)
    let ds := (e.y - s.y) / (e.x - s.x)
    if rs == ds then (false, true) else (decide (rs ≤ ds), false)
  if s.y > e.y then
    if P.y > s.y then (false, false) else if P.y < e.y then (true, false) else k ()
  else
    if P.y > e.y then (false, false) else if P.y < s.y then (true, false) else k ()

/-- `rayIntersect` once `s`, `e` are ordered, in the control-flow shape of the Go code -/
def rayOrdered (next : α → α) (p s e : Pt α) : Bool × Bool :=
  if p.x == s.x then
    if p.y == s.y then (false, true)
    else if s.x == e.x then
      if s.y > e.y ∧ s.y ≥ p.y ∧ p.y ≥ e.y then (false, true)
      else if e.y > s.y ∧ e.y ≥ p.y ∧ p.y ≥ s.y then (false, true)
      else rayTail s e ⟨next p.x, p.y⟩
    else rayTail s e ⟨next p.x, p.y⟩
  else if p.x == e.x then
    if p.y == e.y then (false, true) else rayTail s e ⟨next p.x, p.y⟩
  else rayTail s e p

/-- the model, when `s`, `e` are not swapped -/
theorem model_ordered (next : α → α) (p s e : Pt α) (h : ¬ e.x < s.x) :
    Contains.rayIntersect (Contains.Nudge.real next) p s e = rayOrdered next p s e := by
  unfold Contains.rayIntersect Contains.Nudge.real rayOrdered
  simp only [h, ↓reduceIte]
  cases h1 : (p.x == s.x)
  · cases h2 : (p.x == e.x)
    · simp [rayTail]
    · cases h3 : (p.y == e.y)
      · simp [rayTail]
      · simp
  · cases h3 : (p.y == s.y)
    · cases h4 : (s.x == e.x)
      · simp [rayTail]
      · by_cases hA : (e.y < s.y ∧ p.y ≤ s.y ∧ e.y ≤ p.y) <;>
        by_cases hB : (s.y < e.y ∧ p.y ≤ e.y ∧ s.y ≤ p.y) <;> simp [hA, hB, and_assoc, rayTail]
    · simp

/-- the model, when `s`, `e` are swapped -/
theorem model_swapped (next : α → α) (p s e : Pt α) (h : e.x < s.x) :
    Contains.rayIntersect (Contains.Nudge.real next) p s e = rayOrdered next p e s := by
  unfold Contains.rayIntersect Contains.Nudge.real rayOrdered
  simp only [h, ↓reduceIte]
  cases h1 : (p.x == e.x)
  · cases h2 : (p.x == s.x)
    · simp [rayTail]
    · cases h3 : (p.y == s.y)
      · simp [rayTail]
      · simp
  · cases h3 : (p.y == e.y)
    · cases h4 : (e.x == s.x)
      · simp [rayTail]
      · by_cases hA : (s.y < e.y ∧ p.y ≤ e.y ∧ s.y ≤ p.y) <;>
        by_cases hB : (e.y < s.y ∧ p.y ≤ s.y ∧ e.y ≤ p.y) <;> simp [hA, hB, and_assoc, rayTail]
    · simp

/-- `rayIntersect`: the regenerated translation of the Go function is the model at the real nudge -/
theorem rayIntersect_tie (next : α → α) (p s e : Pt α) :
    Generated.PlanarGo.rayIntersect next p s e = Contains.rayIntersect (Contains.Nudge.real next) p s e := by
  by_cases h : e.x < s.x
  · rw [model_swapped next p s e h]
    unfold Generated.PlanarGo.rayIntersect
    simp only [h, gt_iff_lt, ↓reduceIte]
    rfl
  · rw [model_ordered next p s e h]
    unfold Generated.PlanarGo.rayIntersect
    simp only [h, gt_iff_lt, ↓reduceIte]
    rfl

/-! ### RingContains, PolygonContains, MultiPolygonContains

The three functions are translated WITH Go's run-time checks: `r[0]`, `r[len(r)-1]`, `p[0]` become
explicit tests answering `.panic "index out of range [i] with length n"`, a call of a function that
may panic is matched on, and the loops that return from inside (`if on { return true }`,
`if RingContains(p[i], point) { return false }`, `if PolygonContains(p, point) { return true }`) are
the returning folds `foldPairsRet` / `foldlRet` of `Orb.LoopForms`.  The ties below are equalities
with the models of `Orb.Contains` on ALL inputs, the panics included. -/

open Orb.LoopForms

/-- the edge loop `for i := 0; i < len(r)-1; i++` of `RingContains` -/
theorem ringLoop_tie (next : α → α) (p : Pt α) (l : List (Pt α)) (c : Bool) :
    (match foldPairsRet (ρ := Res Unit Bool) (fun (c : Bool) (a b : Pt α) =>
        let (inter, on) := Generated.PlanarGo.rayIntersect next p a b
        if on then Sum.inl (.ok true)
        else
          let c : Bool := if inter then !c else c
          Sum.inr c) l c with
      | .inl r => r
      | .inr c => .ok c)
      = .ok (Contains.ringLoop (Contains.Nudge.real next) p l c) := by
  induction l generalizing c with
  | nil => rfl
  | cons a t ih =>
    cases t with
    | nil => rfl
    | cons b t' =>
      simp only [foldPairsRet, Contains.ringLoop]
      rw [← rayIntersect_tie]
      generalize Generated.PlanarGo.rayIntersect next p a b = io
      obtain ⟨inter, on⟩ := io
      cases on with
      | true => rfl
      | false => exact ih _

theorem getD_last (v : Pt α) (t : List (Pt α)) (d : Pt α) :
    (v :: t).getD ((v :: t).length - 1) d = (v :: t).getLast?.getD v := by
  rw [List.getLast?_eq_getElem?, List.getD_eq_getElem?_getD]
  have h : (v :: t).length - 1 < (v :: t).length := by simp
  rw [List.getElem?_eq_getElem h]
  rfl

/-- `RingContains`, the panic of `r[0]` on an empty ring whose (sentinel) bound contains the point
    included -/
theorem ringContains_tie (next : α → α) (eb : Bound α) (r : List (Pt α)) (p : Pt α) :
    Generated.PlanarGo.ringContains next eb r p = Contains.ringContains (Contains.Nudge.real next) eb r p := by
  unfold Generated.PlanarGo.ringContains Contains.ringContains
  have hb : Generated.BoundGo.boundContains (Generated.BoundGo.ringBound eb r) p = (multiPointBound eb r).contains p := by
    rw [Orb.C06Tie.ringBound_tie]; rfl
  rw [hb]
  cases hc : (multiPointBound eb r).contains p with
  | false => rfl
  | true =>
    cases r with
    | nil =>
      simp only [List.length_nil, Nat.lt_irrefl, ↓reduceIte, Bool.not_true, Bool.false_eq_true]
      rfl
    | cons v t =>
      have h1 : 0 < (v :: t).length := by simp
      have h2 : 1 ≤ (v :: t).length ∧ (v :: t).length - 1 < (v :: t).length := by simp
      simp only [Bool.not_true, Bool.false_eq_true, ↓reduceIte, h1, h2, and_self, getD_last, List.getD_cons_zero]
      rw [← rayIntersect_tie]
      generalize Generated.PlanarGo.rayIntersect next p v ((v :: t).getLast?.getD v) = io
      obtain ⟨c, on⟩ := io
      cases on with
      | true => rfl
      | false => exact ringLoop_tie next p (v :: t) c

/-- the hole loop `for i := 1; i < len(p); i++ { if RingContains(p[i], point) { return false } }` -/
theorem holesLoop_tie (next : α → α) (eb : Bound α) (p : Pt α) (hs : List (List (Pt α))) :
    (match foldlRet (ρ := Res Unit Bool) (fun (_ : Unit) (x : List (Pt α)) =>
        (match Generated.PlanarGo.ringContains next eb x p with
        | .ok v => if v then Sum.inl (.ok false) else Sum.inr ()
        | .err e => Sum.inl (.err e)
        | .panic m => Sum.inl (.panic m))) hs () with
      | .inl r => r
      | .inr _ => .ok true)
      = Contains.holesLoop (Contains.Nudge.real next) eb p hs := by
  induction hs with
  | nil => rfl
  | cons h t ih =>
    simp only [foldlRet, Contains.holesLoop]
    rw [← ringContains_tie]
    cases Generated.PlanarGo.ringContains next eb h p with
    | ok v =>
      cases v with
      | true => rfl
      | false => exact ih
    | err e => rfl
    | panic m => rfl

/-- `PolygonContains`, the panic of `p[0]` on a polygon without rings included -/
theorem polygonContains_tie (next : α → α) (eb : Bound α) (pg : List (List (Pt α))) (p : Pt α) :
    Generated.PlanarGo.polygonContains next eb pg p = Contains.polygonContains (Contains.Nudge.real next) eb pg p := by
  unfold Generated.PlanarGo.polygonContains Contains.polygonContains
  cases pg with
  | nil =>
    simp only [List.length_nil, Nat.lt_irrefl, ↓reduceIte]
    rfl
  | cons outer holes =>
    have h1 : 0 < (outer :: holes).length := by simp
    simp only [h1, ↓reduceIte, List.getD_cons_zero, List.drop_one, List.tail_cons]
    rw [← ringContains_tie]
    cases Generated.PlanarGo.ringContains next eb outer p with
    | ok v =>
      cases v with
      | false => rfl
      | true => exact holesLoop_tie next eb p holes
    | err e => rfl
    | panic m => rfl

/-- `MultiPolygonContains` -/
theorem multiPolygonContains_tie (next : α → α) (eb : Bound α) (mp : List (List (List (Pt α)))) (p : Pt α) :
    Generated.PlanarGo.multiPolygonContains next eb mp p
      = Contains.multiPolygonContains (Contains.Nudge.real next) eb mp p := by
  unfold Generated.PlanarGo.multiPolygonContains
  induction mp with
  | nil => rfl
  | cons pg t ih =>
    simp only [foldlRet, Contains.multiPolygonContains]
    rw [← polygonContains_tie]
    cases Generated.PlanarGo.polygonContains next eb pg p with
    | ok v =>
      cases v with
      | true => rfl
      | false => exact ih
    | err e => rfl
    | panic m => rfl

theorem contains_translated :
    "rayIntersect" ∈ Generated.PlanarGo.translated ∧ "ringContains" ∈ Generated.PlanarGo.translated ∧
    "polygonContains" ∈ Generated.PlanarGo.translated ∧ "multiPolygonContains" ∈ Generated.PlanarGo.translated := by
  decide

theorem rayIntersect_translated : "rayIntersect" ∈ Generated.PlanarGo.translated := by
  decide

end Orb.C09Tie
