/-
  C14 — Tile covers contain every tile the geometry touches; merging keeps area.
  PROPERTY THEOREMS about the model `Orb.TileCover` (maptile/tilecover: helpers.go, line_string.go,
  polygon.go, merge.go) on top of the proved tile arithmetic of C13 (`Orb.Tile`).

  * covers: point / multi-point / bound / collection are characterised exactly; multi-line-strings and
    multi-polygons are the unions of their members' covers or the first failing member's outcome
    (`cover_multiLineString_union`, `cover_multiPolygon_union`, `…_error`; any number type, so also the
    Float twin); no input makes `Geometry` panic (`cover_total`); a polygon cover contains its boundary
    trace and every filled tile lies on a traced row strictly between two traced tiles
    (`polygon_within_trace_bound`, whose no-wrap hypothesis concerns only the intersection entries of the
    input at hand).
  * `MergeUp`: for EVERY enumeration order of the Go map (`Orders.Fair`: each `range` visits every
    key; every permutation qualifies) the result is the closed form `mergeUp_closed_form`, hence
    order-independent, and satisfies the four clauses of the property (`mergeUp_spec`).
  * DDA (exact arithmetic, ordered field with floor, one segment): the loop terminates; the tiles form a
    4-connected chain from ⌊start⌋ to a tile whose closed square contains `stop`; every tile's closed
    square meets the segment (`dda_sound`) and every tile whose open square the segment enters is
    present (`dda_complete`); both lifted to whole line strings (`lineString_cover_exact`), to
    multi-line-strings (`multiLineString_cover_exact`) and to the boundary of polygons and multi-polygons
    (`polygon_boundary_complete`, `multiPolygon_boundary_complete`); a polygon cover stays inside the
    tile-space bound of its vertices (`polygon_within_vertex_bound`).
    Floating-point rounding of the accumulated `tMax` is NOT covered (it is
    what the bit-exact Float twin and the executable property with its 1e-6-tile margin are for).
  * the polygon INTERIOR clause is stated here (`polygon_interior_full : Prop`) and proved in
    `OrbProofs.C14Fill` (`polygon_interior_full_holds`, which imports this file).
-/
import OrbProofs.C14Lemmas

namespace Orb.TileCover
open Orb Orb.Tile

section covers
variable {α : Type} [Add α] [Sub α] [Div α] [Neg α] [OfNat α 0] [OfNat α 1] [LT α] [DecidableLT α] [BEq α]

/-- The cover of a point is its tile. -/
theorem cover_point (ops : Ops α) (frac : Pt α → Pt α) (zoom fuel : Nat) (p : Pt α) :
    cover ops frac zoom fuel (.point p) = .ok [tileAt ops p.x (frac p) zoom] :=
  cover_point' ops frac zoom fuel p

/-- `maptile.At` below `Fraction`: truncate both coordinates, clamp the column to the last one, then step
    back one column when the longitude lies west of that column's west edge
    `360*(x/2^zoom - 0.5)` (fix 190fad1: `lon/360 + 0.5` is rounded and can land on the edge). -/
theorem tileAt_spec (ops : Ops α) (lon : α) (f : Pt α) (zoom : Nat) (hz : zoom ≤ 31) :
    tileAt ops lon f zoom =
      (let x := Nat.min (ops.toU32 f.x) (2 ^ zoom - 1)
       ⟨if 0 < x ∧ lon < ops.westEdge x (2 ^ zoom) then x - 1 else x, ops.toU32 f.y, zoom⟩) :=
  tileAt_spec' ops lon f zoom hz

/-- The step-back keeps the column consistent with `Tile.Bound()`: a positive result column that was not
    stepped back has its west edge at or west of the longitude (`¬ lon < edge`); otherwise the result is
    the column just west of an edge that the longitude lies west of. -/
theorem tileAt_column (ops : Ops α) (lon : α) (f : Pt α) (zoom : Nat) (hz : zoom ≤ 31) :
    let x := Nat.min (ops.toU32 f.x) (2 ^ zoom - 1)
    let t := tileAt ops lon f zoom
    (t.x = x ∧ (0 < x → ¬ lon < ops.westEdge x (2 ^ zoom))) ∨
    (t.x + 1 = x ∧ lon < ops.westEdge x (2 ^ zoom)) :=
  tileAt_column' ops lon f zoom hz

/-- The cover of a multi-point is the set of its points' tiles. -/
theorem cover_multiPoint (ops : Ops α) (frac : Pt α → Pt α) (zoom fuel : Nat) (ps : List (Pt α)) :
    ∃ S, cover ops frac zoom fuel (.multiPoint ps) = .ok S ∧
      ∀ t, t ∈ S ↔ ∃ p ∈ ps, t = tileAt ops p.x (frac p) zoom :=
  cover_multiPoint' ops frac zoom fuel ps

/-- The cover of a bound is the rectangular range between the corner tiles (nothing for an empty bound). -/
theorem cover_bound_rect (ops : Ops α) (frac : Pt α → Pt α) (zoom fuel : Nat) (a b : Pt α) :
    ∃ S, cover ops frac zoom fuel (.bound a b) = .ok S ∧
      ∀ t, t ∈ S ↔ (¬ (b.x < a.x ∨ b.y < a.y) ∧ t.z = zoom ∧
        (tileAt ops a.x (frac a) zoom).x ≤ t.x ∧ t.x ≤ (tileAt ops b.x (frac b) zoom).x ∧
        (tileAt ops b.x (frac b) zoom).y ≤ t.y ∧ t.y ≤ (tileAt ops a.x (frac a) zoom).y) :=
  cover_bound_rect' ops frac zoom fuel a b

/-- The cover of a collection whose members all have covers is their union. -/
theorem cover_collection_union (ops : Ops α) (frac : Pt α → Pt α) (zoom fuel : Nat) (gs : List (Geom α))
    (hs : ∀ g ∈ gs, ∃ s, cover ops frac zoom fuel g = .ok s) :
    ∃ S, cover ops frac zoom fuel (.collection gs) = .ok S ∧
      ∀ t, t ∈ S ↔ ∃ g ∈ gs, ∃ s, cover ops frac zoom fuel g = .ok s ∧ t ∈ s :=
  cover_collection_union' ops frac zoom fuel gs hs

/-- … and otherwise the outcome of the first member without a cover. -/
theorem cover_collection_error (ops : Ops α) (frac : Pt α → Pt α) (zoom fuel : Nat)
    (gs₁ : List (Geom α)) (g : Geom α) (gs₂ : List (Geom α))
    (hs : ∀ g ∈ gs₁, ∃ s, cover ops frac zoom fuel g = .ok s)
    (hg : (cover ops frac zoom fuel g).isOk = false) :
    cover ops frac zoom fuel (.collection (gs₁ ++ g :: gs₂)) = cover ops frac zoom fuel g :=
  cover_collection_error' ops frac zoom fuel gs₁ g gs₂ hs hg

/-- Totality: `tilecover.Geometry` panics on no geometry value (empty ring traces included). -/
theorem cover_total (ops : Ops α) (frac : Pt α → Pt α) (zoom fuel : Nat) (g : Geom α) :
    (cover ops frac zoom fuel g).isPanic = false :=
  cover_total' ops frac zoom fuel g

/-- A polygon cover contains everything its boundary traces put into the set. -/
theorem polygon_contains_boundary_cover (ops : Ops α) (zoom fuel : Nat) (set : List Tile)
    (rings : List (List (Pt α))) (S : List Tile) (h : polygon ops zoom fuel set rings = .ok S) :
    ∃ set' inter, traceRings ops zoom fuel set [] rings = .ok (set', inter) ∧ ∀ t ∈ set', t ∈ S :=
  polygon_contains_boundary_cover' ops zoom fuel set rings S h

/-- Every tile of a polygon cover is a traced tile, or was filled on the row of a traced tile strictly
    between two traced tiles: the cover stays inside the tile-space bound of the boundary trace.
    The only hypothesis is that no INTERSECTION ENTRY OF THIS INPUT sits in the last `uint32` column
    (`for x := I[i].x + 1; …` would wrap there); the entries are themselves traced tiles. -/
theorem polygon_within_trace_bound (ops : Ops α) (zoom fuel : Nat)
    (rings : List (List (Pt α))) (S : List Tile) (h : polygon ops zoom fuel [] rings = .ok S) :
    ∃ set' inter, traceRings ops zoom fuel [] [] rings = .ok (set', inter) ∧
      (∀ e ∈ inter, (⟨e.1, e.2, zoom⟩ : Tile) ∈ set') ∧
      ((∀ e ∈ inter, e.1 + 1 < 2 ^ 32) →
        ∀ t ∈ S, t ∈ set' ∨
          ∃ a b, a ∈ set' ∧ b ∈ set' ∧ t.z = zoom ∧ t.y = a.y ∧ a.x < t.x ∧ t.x < b.x) :=
  polygon_within_trace_bound' ops zoom fuel rings S h

/-- `line` only adds tiles to the set it is handed, and what it adds (and the ring trace it returns)
    does not depend on that set. -/
theorem line_adds_only (ops : Ops α) (zoom fuel : Nat) (set : List Tile) (pts : List (Pt α))
    (ring : Option (List (Nat × Nat))) :
    line ops zoom fuel set pts ring =
      (line ops zoom fuel [] pts ring).map (fun r => (r.1 ++ set, r.2)) :=
  line_nil_append ops zoom fuel set pts ring

/-- … and so does `polygon`. -/
theorem polygon_adds_only (ops : Ops α) (zoom fuel : Nat) (set : List Tile) (rings : List (List (Pt α))) :
    polygon ops zoom fuel set rings = (polygon ops zoom fuel [] rings).map (· ++ set) :=
  polygon_nil_append ops zoom fuel set rings

/-- The cover of a multi-line-string whose members all have covers is the union of their covers. -/
theorem cover_multiLineString_union (ops : Ops α) (frac : Pt α → Pt α) (zoom fuel : Nat)
    (ls : List (List (Pt α)))
    (hs : ∀ l ∈ ls, ∃ s, cover ops frac zoom fuel (.lineString l) = .ok s) :
    ∃ S, cover ops frac zoom fuel (.multiLineString ls) = .ok S ∧
      ∀ t, t ∈ S ↔ ∃ l ∈ ls, ∃ s, cover ops frac zoom fuel (.lineString l) = .ok s ∧ t ∈ s :=
  cover_multiLineString_union' ops frac zoom fuel ls hs

/-- … and otherwise the outcome of the first member without a cover (only the model's fuel artefact:
    `tilecover.LineString` has no error return). -/
theorem cover_multiLineString_error (ops : Ops α) (frac : Pt α → Pt α) (zoom fuel : Nat)
    (ls₁ : List (List (Pt α))) (l : List (Pt α)) (ls₂ : List (List (Pt α)))
    (hs : ∀ l' ∈ ls₁, ∃ s, cover ops frac zoom fuel (.lineString l') = .ok s)
    (hl : (cover ops frac zoom fuel (.lineString l)).isOk = false) :
    cover ops frac zoom fuel (.multiLineString (ls₁ ++ l :: ls₂)) = cover ops frac zoom fuel (.lineString l) :=
  cover_multiLineString_error' ops frac zoom fuel ls₁ l ls₂ hs hl

/-- The cover of a multi-polygon whose members all have covers is the union of their covers. -/
theorem cover_multiPolygon_union (ops : Ops α) (frac : Pt α → Pt α) (zoom fuel : Nat)
    (ps : List (List (List (Pt α))))
    (hs : ∀ p ∈ ps, ∃ s, cover ops frac zoom fuel (.polygon p) = .ok s) :
    ∃ S, cover ops frac zoom fuel (.multiPolygon ps) = .ok S ∧
      ∀ t, t ∈ S ↔ ∃ p ∈ ps, ∃ s, cover ops frac zoom fuel (.polygon p) = .ok s ∧ t ∈ s :=
  cover_multiPolygon_union' ops frac zoom fuel ps hs

/-- … and otherwise the outcome of the first member without a cover (`ErrUnevenIntersections`:
    `MultiPolygon`'s `return nil, err`). -/
theorem cover_multiPolygon_error (ops : Ops α) (frac : Pt α → Pt α) (zoom fuel : Nat)
    (ps₁ : List (List (List (Pt α)))) (p : List (List (Pt α))) (ps₂ : List (List (List (Pt α))))
    (hs : ∀ p' ∈ ps₁, ∃ s, cover ops frac zoom fuel (.polygon p') = .ok s)
    (hp : (cover ops frac zoom fuel (.polygon p)).isOk = false) :
    cover ops frac zoom fuel (.multiPolygon (ps₁ ++ p :: ps₂)) = cover ops frac zoom fuel (.polygon p) :=
  cover_multiPolygon_error' ops frac zoom fuel ps₁ p ps₂ hs hp

end covers

/-! ### MergeUp -/

/-- Every permutation of the keys is a fair enumeration order. -/
theorem fair_of_perm (o : Orders) (h1 : ∀ l, (o.first l).Perm l) (h2 : ∀ z l, (o.level z l).Perm l) : o.Fair :=
  fair_of_perm' o h1 h2

/-- One level of `MergeUp`, whatever the order in which the (mutated) map is enumerated:
    afterwards every entry is `false`; `merged` has gained exactly the tiles whose sibling quad is
    incomplete (plus the parents of complete quads when this is the last level) and `parentSet` exactly
    the parents of the complete quads. -/
theorem level_step_spec (l : List Tile) (m : TMap) (z : Nat) (hz : 0 < z)
    (hm : ∀ t, m.get t = true → V t ∧ t.z = z) (hl : ∀ t, m.get t = true → t ∈ l)
    (toMerged : Bool) (merged0 : List Tile) (parents0 : TMap) :
    (∀ t, (l.foldl (stepTile none toMerged) ⟨m, merged0, parents0⟩).set.get t = false) ∧
    (∀ t, t ∈ (l.foldl (stepTile none toMerged) ⟨m, merged0, parents0⟩).merged ↔
      (t ∈ merged0 ∨ (m.get t = true ∧ ¬ QuadIn m t) ∨
        (toMerged = true ∧ ∃ c, m.get c = true ∧ QuadIn m c ∧ parent c = t))) ∧
    (∀ t, (l.foldl (stepTile none toMerged) ⟨m, merged0, parents0⟩).parents.get t = true ↔
      (parents0.get t = true ∨
        (toMerged = false ∧ ∃ c, m.get c = true ∧ QuadIn m c ∧ parent c = t))) :=
  level_step_spec' l m z hz hm hl toMerged merged0 parents0

/-- Closed form of `MergeUp` on a same-zoom set, for every fair enumeration order: a tile is in the
    result iff its zoom is between the target and the input zoom, all its descendants at the input zoom
    are in the input, and it is at the target zoom or its parent is not so filled. -/
theorem mergeUp_closed_form (o : Orders) (ho : o.Fair) (m : TMap) (zoom min : Nat)
    (hm : ∀ t, m.get t = true → V t ∧ t.z = zoom) (hmin : min ≤ zoom) (t : Tile) :
    (mergeUp o m min).get t = true ↔
      (min ≤ t.z ∧ t.z ≤ zoom ∧ Full m zoom t ∧ (t.z = min ∨ ¬ Full m zoom (parent t))) :=
  mergeUp_closed_form' o ho m zoom min hm hmin t

/-- The result does not depend on the enumeration order of the Go map. -/
theorem mergeUp_order_irrelevant (o₁ o₂ : Orders) (h₁ : o₁.Fair) (h₂ : o₂.Fair) (m : TMap) (zoom min : Nat)
    (hm : ∀ t, m.get t = true → V t ∧ t.z = zoom) (hmin : min ≤ zoom) (t : Tile) :
    (mergeUp o₁ m min).get t = (mergeUp o₂ m min).get t :=
  mergeUp_order_irrelevant' o₁ o₂ h₁ h₂ m zoom min hm hmin t

/-- The property's merge clause: for a same-zoom input, any enumeration order, target `min ≤ zoom`:
    (1) result tiles are pairwise non-overlapping, (2) none is shallower than the target (or deeper than
    the input), (3) the descendants of the result at the input zoom are exactly the input (same area),
    (4) no complete sibling quad is left above the target. -/
theorem mergeUp_spec (o : Orders) (ho : o.Fair) (m : TMap) (zoom min : Nat)
    (hm : ∀ t, m.get t = true → V t ∧ t.z = zoom) (hmin : min ≤ zoom) :
    (∀ a b, (mergeUp o m min).get a = true → (mergeUp o m min).get b = true → IsAncestor a b → a = b) ∧
    (∀ t, (mergeUp o m min).get t = true → min ≤ t.z ∧ t.z ≤ zoom) ∧
    (∀ s, s.z = zoom → (m.get s = true ↔ ∃ t, (mergeUp o m min).get t = true ∧ IsAncestor t s)) ∧
    (∀ t, (mergeUp o m min).get t = true → min < t.z → ¬ ∀ s ∈ siblings t, (mergeUp o m min).get s = true) :=
  mergeUp_spec' o ho m zoom min hm hmin

/-! ### the DDA in exact arithmetic -/

section dda
variable {K : Type} [Field K] [LinearOrder K] [IsStrictOrderedRing K] [FloorRing K]

/-- The tiles one segment puts into the set form a chain of 4-neighbours that starts at ⌊start⌋ and ends
    in a tile whose closed square contains `stop` (it is ⌊stop⌋ unless `stop` lies on the far edge). -/
theorem dda_connected (zoom fuel : Nat) (a b : Pt K) (ha : 0 ≤ a.x ∧ 0 ≤ a.y) (hb : 0 ≤ b.x ∧ 0 ≤ b.y)
    (hab : a ≠ b) (s : LState K)
    (h : segment (opsK K) zoom fuel ⟨[], none, -1, -1, 0, 0⟩ a b = some s) :
    ∃ cells : List Tile, s.set = cells.reverse ∧
      cells.head? = some ⟨⌊a.x⌋.toNat, ⌊a.y⌋.toNat, zoom⟩ ∧
      List.IsChain Adj4 cells ∧
      ∃ c, cells.getLast? = some c ∧ (c.x : K) ≤ b.x ∧ b.x ≤ (c.x : K) + 1 ∧ (c.y : K) ≤ b.y ∧ b.y ≤ (c.y : K) + 1 :=
  dda_connected' zoom fuel a b ha hb hab s h

/-- The DDA loop terminates: fuel proportional to the tile distance of the end points suffices. -/
theorem dda_terminates (zoom fuel : Nat) (a b : Pt K) (s : LState K)
    (hf : (⌊b.x⌋ - ⌊a.x⌋).natAbs + (⌊b.y⌋ - ⌊a.y⌋).natAbs + 2 ≤ fuel) :
    (segment (opsK K) zoom fuel s a b).isSome = true :=
  dda_terminates' zoom fuel a b s hf

/-- Soundness of the DDA: every tile of a segment's cover meets the segment (closed square). -/
theorem dda_sound (zoom fuel : Nat) (a b : Pt K) (s : LState K)
    (hax : 0 ≤ a.x) (hay : 0 ≤ a.y) (hbx : 0 ≤ b.x) (hby : 0 ≤ b.y)
    (h : segment (opsK K) zoom fuel ⟨[], none, -1, -1, 0, 0⟩ a b = some s) :
    ∀ c ∈ s.set, ∃ t : K, 0 ≤ t ∧ t ≤ 1 ∧
      (c.x : K) ≤ a.x + t * (b.x - a.x) ∧ a.x + t * (b.x - a.x) ≤ (c.x : K) + 1 ∧
      (c.y : K) ≤ a.y + t * (b.y - a.y) ∧ a.y + t * (b.y - a.y) ≤ (c.y : K) + 1 :=
  dda_sound' zoom fuel a b s hax hay hbx hby h

/-- Completeness of the DDA: every tile whose open square a (non-degenerate) segment enters is in the
    segment's cover. -/
theorem dda_complete (zoom fuel : Nat) (a b : Pt K) (s : LState K)
    (hax : 0 ≤ a.x) (hay : 0 ≤ a.y) (hbx : 0 ≤ b.x) (hby : 0 ≤ b.y) (hab : a ≠ b)
    (h : segment (opsK K) zoom fuel ⟨[], none, -1, -1, 0, 0⟩ a b = some s) :
    ∀ (i j : Nat) (t : K), 0 ≤ t → t ≤ 1 →
      (i : K) < a.x + t * (b.x - a.x) → a.x + t * (b.x - a.x) < (i : K) + 1 →
      (j : K) < a.y + t * (b.y - a.y) → a.y + t * (b.y - a.y) < (j : K) + 1 →
      (⟨i, j, zoom⟩ : Tile) ∈ s.set :=
  dda_complete' zoom fuel a b s hax hay hbx hby hab h

/-- In exact arithmetic the cover of a line string is sound and complete segment by segment: every tile
    has the cover's zoom and its closed square meets some segment, and every tile whose open square a
    non-degenerate segment enters is present ("exactly the tiles the line passes through", up to tiles
    that are only touched on their boundary). -/
theorem lineString_cover_exact (frac : Pt K → Pt K) (zoom fuel : Nat) (ps : List (Pt K))
    (hnn : ∀ p ∈ ps, 0 ≤ (frac p).x ∧ 0 ≤ (frac p).y) (S : List Tile)
    (h : cover (opsK K) frac zoom fuel (.lineString ps) = .ok S) :
    (∀ c ∈ S, c.z = zoom ∧ ∃ e ∈ (ps.map frac).zip ((ps.map frac).drop 1), ∃ t : K, 0 ≤ t ∧ t ≤ 1 ∧
        (c.x : K) ≤ e.1.x + t * (e.2.x - e.1.x) ∧ e.1.x + t * (e.2.x - e.1.x) ≤ (c.x : K) + 1 ∧
        (c.y : K) ≤ e.1.y + t * (e.2.y - e.1.y) ∧ e.1.y + t * (e.2.y - e.1.y) ≤ (c.y : K) + 1) ∧
    (∀ e ∈ (ps.map frac).zip ((ps.map frac).drop 1), e.1 ≠ e.2 → ∀ (i j : Nat) (t : K), 0 ≤ t → t ≤ 1 →
        (i : K) < e.1.x + t * (e.2.x - e.1.x) → e.1.x + t * (e.2.x - e.1.x) < (i : K) + 1 →
        (j : K) < e.1.y + t * (e.2.y - e.1.y) → e.1.y + t * (e.2.y - e.1.y) < (j : K) + 1 →
        (⟨i, j, zoom⟩ : Tile) ∈ S) :=
  lineString_cover_exact' frac zoom fuel ps hnn S h

/-- With fuel proportional to the longest segment (in tiles) the cover of a line string is defined
    (the fuel of the model's DDA loop is not a restriction). -/
theorem lineString_cover_ok (frac : Pt K → Pt K) (zoom fuel : Nat) (ps : List (Pt K))
    (hf : ∀ e ∈ (ps.map frac).zip ((ps.map frac).drop 1),
      (⌊e.2.x⌋ - ⌊e.1.x⌋).natAbs + (⌊e.2.y⌋ - ⌊e.1.y⌋).natAbs + 2 ≤ fuel) :
    ∃ S, cover (opsK K) frac zoom fuel (.lineString ps) = .ok S :=
  lineString_cover_ok' frac zoom fuel ps hf

/-- The exact cover of a multi-line-string is sound and complete segment by segment, over all members. -/
theorem multiLineString_cover_exact (frac : Pt K → Pt K) (zoom fuel : Nat) (ls : List (List (Pt K)))
    (hnn : ∀ l ∈ ls, ∀ p ∈ l, 0 ≤ (frac p).x ∧ 0 ≤ (frac p).y) (S : List Tile)
    (h : cover (opsK K) frac zoom fuel (.multiLineString ls) = .ok S) :
    (∀ c ∈ S, c.z = zoom ∧ ∃ l ∈ ls, ∃ e ∈ (l.map frac).zip ((l.map frac).drop 1), ∃ t : K, 0 ≤ t ∧ t ≤ 1 ∧
        (c.x : K) ≤ e.1.x + t * (e.2.x - e.1.x) ∧ e.1.x + t * (e.2.x - e.1.x) ≤ (c.x : K) + 1 ∧
        (c.y : K) ≤ e.1.y + t * (e.2.y - e.1.y) ∧ e.1.y + t * (e.2.y - e.1.y) ≤ (c.y : K) + 1) ∧
    (∀ l ∈ ls, ∀ e ∈ (l.map frac).zip ((l.map frac).drop 1), e.1 ≠ e.2 →
      ∀ (i j : Nat) (t : K), 0 ≤ t → t ≤ 1 →
        (i : K) < e.1.x + t * (e.2.x - e.1.x) → e.1.x + t * (e.2.x - e.1.x) < (i : K) + 1 →
        (j : K) < e.1.y + t * (e.2.y - e.1.y) → e.1.y + t * (e.2.y - e.1.y) < (j : K) + 1 →
        (⟨i, j, zoom⟩ : Tile) ∈ S) :=
  multiLineString_cover_exact' frac zoom fuel ls hnn S h

/-- **Polygon boundary completeness** ("every tile whose interior meets the polygon's boundary"): in exact
    arithmetic, every tile whose open square an edge of any ring (outer or hole, closed or not) enters is
    in the polygon's cover, whatever set the cover started from. -/
theorem polygon_boundary_complete (zoom fuel : Nat) (set : List Tile) (rings : List (List (Pt K)))
    (S : List Tile) (hnn : ∀ r ∈ rings, ∀ p ∈ r, 0 ≤ p.x ∧ 0 ≤ p.y)
    (h : polygon (opsK K) zoom fuel set rings = .ok S) :
    ∀ r ∈ rings, ∀ e ∈ r.zip (r.drop 1), e.1 ≠ e.2 → ∀ (i j : Nat) (t : K), 0 ≤ t → t ≤ 1 →
      (i : K) < e.1.x + t * (e.2.x - e.1.x) → e.1.x + t * (e.2.x - e.1.x) < (i : K) + 1 →
      (j : K) < e.1.y + t * (e.2.y - e.1.y) → e.1.y + t * (e.2.y - e.1.y) < (j : K) + 1 →
      (⟨i, j, zoom⟩ : Tile) ∈ S :=
  polygon_boundary_complete' zoom fuel set rings S hnn h

/-- … and the same for every member of a multi-polygon (the starting set is kept as well). -/
theorem multiPolygon_boundary_complete (zoom fuel : Nat) (ps : List (List (List (Pt K))))
    (set S : List Tile) (hnn : ∀ pg ∈ ps, ∀ r ∈ pg, ∀ p ∈ r, 0 ≤ p.x ∧ 0 ≤ p.y)
    (h : multiPolygon (opsK K) zoom fuel set ps = .ok S) :
    (∀ c ∈ set, c ∈ S) ∧
    ∀ pg ∈ ps, ∀ r ∈ pg, ∀ e ∈ r.zip (r.drop 1), e.1 ≠ e.2 → ∀ (i j : Nat) (t : K), 0 ≤ t → t ≤ 1 →
      (i : K) < e.1.x + t * (e.2.x - e.1.x) → e.1.x + t * (e.2.x - e.1.x) < (i : K) + 1 →
      (j : K) < e.1.y + t * (e.2.y - e.1.y) → e.1.y + t * (e.2.y - e.1.y) < (j : K) + 1 →
      (⟨i, j, zoom⟩ : Tile) ∈ S :=
  multiPolygon_boundary_complete' zoom fuel ps set S hnn h

/-- **No tile outside the polygon's tile-space bound**: in exact arithmetic, if all vertices of all rings
    lie in the box `[x0, x1] × [y0, y1]` of the non-negative quadrant (with `x1` below the last `uint32`
    column — at zoom ≤ 31 every `x1 ≤ 2^zoom` qualifies), every tile of the cover has the cover's zoom
    and its closed square meets the box.  (Corollary of `polygon_within_trace_bound`: every traced
    tile meets an edge, `lineSegs_geo`, hence the box; its no-wrap hypothesis follows.) -/
theorem polygon_within_vertex_bound (zoom fuel : Nat) (rings : List (List (Pt K))) (S : List Tile)
    (x0 x1 y0 y1 : K) (hnn : ∀ r ∈ rings, ∀ p ∈ r, 0 ≤ p.x ∧ 0 ≤ p.y)
    (hbox : ∀ r ∈ rings, ∀ p ∈ r, x0 ≤ p.x ∧ p.x ≤ x1 ∧ y0 ≤ p.y ∧ p.y ≤ y1)
    (hx1 : x1 + 1 < 2 ^ 32)
    (h : polygon (opsK K) zoom fuel [] rings = .ok S) :
    ∀ t ∈ S, t.z = zoom ∧ x0 ≤ (t.x : K) + 1 ∧ (t.x : K) ≤ x1 ∧ y0 ≤ (t.y : K) + 1 ∧ (t.y : K) ≤ y1 :=
  polygon_within_vertex_bound' zoom fuel rings S x0 x1 y0 y1 hnn hbox hx1 h

end dda

/-- The polygon interior claim — PROVED as `polygon_interior_full_holds` in `OrbProofs.C14Fill` (which
    imports this file; `polygon_interior_cover` there is the same statement without the general-position
    hypothesis); on the implementation's outputs it is also measured by the executable property (exact
    even-odd test of sample points of every candidate tile): in exact arithmetic, for a polygon whose rings are closed
    (first vertex = last), every tile whose open square contains a point that the even-odd rule puts inside
    the polygon is in the cover.  `inside q` is the crossing-number parity of the horizontal ray from `q`. -/
def polygon_interior_full : Prop :=
  ∀ (K : Type) [Field K] [LinearOrder K] [IsStrictOrderedRing K] [FloorRing K]
    (zoom fuel : Nat) (rings : List (List (Pt K))) (S : List Tile),
    (∀ r ∈ rings, r.head? = r.getLast? ∧ ∀ p ∈ r, 0 ≤ p.x ∧ 0 ≤ p.y) →
    polygon (opsK K) zoom fuel [] rings = .ok S →
    ∀ (i j : Nat) (q : Pt K), (i : K) < q.x → q.x < (i : K) + 1 → (j : K) < q.y → q.y < (j : K) + 1 →
      (∀ r ∈ rings, ∀ p ∈ r, p.y ≠ q.y) →
      ((rings.flatMap fun r => (r.zip (r.drop 1)).filter fun e =>
          decide ((e.1.y > q.y) ≠ (e.2.y > q.y)) &&
          decide (q.x < e.1.x + (q.y - e.1.y) * (e.2.x - e.1.x) / (e.2.y - e.1.y))).length % 2 = 1) →
      (⟨i, j, zoom⟩ : Tile) ∈ S

/-- Non-vacuity of `cover_multiLineString_union` / `multiLineString_cover_exact`: the two line strings
    `(0,0) (2,1)` and `(4,4) (4,6)` (tile space, zoom 3) have covers, so the multi-line-string has their
    union as its cover, and the tile `(1, 0)` — entered by the first at `t = 3/4` — is in it. -/
example : ∃ S, cover (opsK ℚ) id 3 20
      (.multiLineString [[(⟨0, 0⟩ : Pt ℚ), ⟨2, 1⟩], [⟨4, 4⟩, ⟨4, 6⟩]]) = .ok S ∧
    (∀ t, t ∈ S ↔ ∃ l ∈ [[(⟨0, 0⟩ : Pt ℚ), ⟨2, 1⟩], [⟨4, 4⟩, ⟨4, 6⟩]],
      ∃ s, cover (opsK ℚ) id 3 20 (.lineString l) = .ok s ∧ t ∈ s) ∧
    (⟨1, 0, 3⟩ : Tile) ∈ S := by
  have hs : ∀ l ∈ [[(⟨0, 0⟩ : Pt ℚ), ⟨2, 1⟩], [⟨4, 4⟩, ⟨4, 6⟩]],
      ∃ s, cover (opsK ℚ) id 3 20 (.lineString l) = .ok s := by
    intro l hl
    apply lineString_cover_ok
    intro e he
    simp only [List.mem_cons, List.not_mem_nil, or_false] at hl
    rcases hl with rfl | rfl <;>
      simp only [List.map_id_fun, id_eq, List.drop_succ_cons, List.drop_zero, List.zip_cons_cons,
        List.zip_nil_right, List.mem_cons, List.not_mem_nil, or_false] at he <;>
      subst he <;> norm_num
  obtain ⟨S, hS, hmem⟩ := cover_multiLineString_union (opsK ℚ) id 3 20 _ hs
  refine ⟨S, hS, hmem, ?_⟩
  have hnn : ∀ l ∈ [[(⟨0, 0⟩ : Pt ℚ), ⟨2, 1⟩], [⟨4, 4⟩, ⟨4, 6⟩]], ∀ p ∈ l,
      0 ≤ (id p).x ∧ 0 ≤ (id p).y := by
    intro l hl p hp
    simp only [List.mem_cons, List.not_mem_nil, or_false] at hl
    rcases hl with rfl | rfl <;>
      simp only [List.mem_cons, List.not_mem_nil, or_false] at hp <;>
      rcases hp with rfl | rfl <;> norm_num
  exact (multiLineString_cover_exact id 3 20 _ hnn S hS).2 [⟨0, 0⟩, ⟨2, 1⟩] (by simp)
    (⟨0, 0⟩, ⟨2, 1⟩) (by simp) (by simp) 1 0 (3 / 4) (by norm_num) (by norm_num)
    (by norm_num) (by norm_num) (by norm_num) (by norm_num)

/-- Non-vacuity: a complete quad at zoom 2 plus one more tile satisfies the hypotheses of `mergeUp_spec`;
    merged to zoom 0 and to zoom 1 with two different enumeration orders the quad becomes its parent and
    the lone tile stays. -/
example :
    let m : TMap := TMap.ofTiles [⟨0, 0, 2⟩, ⟨1, 0, 2⟩, ⟨1, 1, 2⟩, ⟨0, 1, 2⟩, ⟨2, 0, 2⟩]
    (∀ t, m.get t = true → V t ∧ t.z = 2) ∧
    (mergeUp ⟨id, fun _ l => l⟩ m 0).trues = [⟨0, 0, 1⟩, ⟨2, 0, 2⟩] ∧
    (mergeUp ⟨List.reverse, fun _ l => l.reverse⟩ m 1).trues = [⟨0, 0, 1⟩, ⟨2, 0, 2⟩] ∧
    m.get ⟨1, 1, 2⟩ = true ∧ m.get ⟨3, 0, 2⟩ = false := by
  refine ⟨?_, by decide, by decide, by decide, by decide⟩
  intro t h
  have hk := TMap.mem_keys_of_get h
  have : t ∈ [(⟨0, 0, 2⟩ : Tile), ⟨1, 0, 2⟩, ⟨1, 1, 2⟩, ⟨0, 1, 2⟩, ⟨2, 0, 2⟩] := by
    simpa [TMap.ofTiles, TMap.set, TMap.keys] using hk
  simp only [List.mem_cons, List.not_mem_nil, or_false] at this
  rcases this with rfl | rfl | rfl | rfl | rfl <;> decide

end Orb.TileCover
