/-
  C14 — Tile covers contain every tile the geometry touches; merging keeps area.
  PROPERTY THEOREMS about the model `Orb.TileCover` (maptile/tilecover: helpers.go, line_string.go,
  polygon.go, merge.go) on top of the proved tile arithmetic of C13 (`Orb.Tile`).

  * covers: point / multi-point / bound / collection are characterised exactly; no input makes
    `Geometry` panic (`cover_total`); a polygon cover contains its boundary trace and every filled
    tile lies on a traced row strictly between two traced tiles.
  * `MergeUp`: for EVERY enumeration order of the Go map (`Orders.Fair`: each `range` visits every
    key; every permutation qualifies) the result is the closed form `mergeUp_closed_form`, hence
    order-independent, and satisfies the four clauses of the property (`mergeUp_spec`).
  * DDA (exact arithmetic, ordered field with floor, one segment): the loop terminates; the tiles form a
    4-connected chain from ⌊start⌋ to a tile whose closed square contains `stop`; every tile's closed
    square meets the segment (`dda_sound`) and every tile whose open square the segment enters is
    present (`dda_complete`); both lifted to whole line strings (`lineString_cover_exact`).
    Floating-point rounding of the accumulated `tMax` is NOT covered (it is
    what the bit-exact Float twin and the executable property with its 1e-6-tile margin are for).
  * NOT a theorem (kept as `polygon_interior_full : Prop`, carried by the executable property in the
    driver): the scan-line fill covers every tile whose interior meets the polygon's interior.
-/
import OrbProofs.C14Lemmas

namespace Orb.TileCover
open Orb Orb.Tile

section covers
variable {α : Type} [Add α] [Sub α] [Div α] [Neg α] [OfNat α 0] [OfNat α 1] [LT α] [DecidableLT α] [BEq α]

/-- The cover of a point is its tile. -/
theorem cover_point (ops : Ops α) (frac : Pt α → Pt α) (zoom fuel : Nat) (p : Pt α) :
    cover ops frac zoom fuel (.point p) = .ok [tileAt ops (frac p) zoom] :=
  cover_point' ops frac zoom fuel p

/-- `maptile.At` below `Fraction`: truncate both coordinates, clamp the column to the last one. -/
theorem tileAt_spec (ops : Ops α) (f : Pt α) (zoom : Nat) (hz : zoom ≤ 31) :
    tileAt ops f zoom = ⟨Nat.min (ops.toU32 f.x) (2 ^ zoom - 1), ops.toU32 f.y, zoom⟩ :=
  tileAt_spec' ops f zoom hz

/-- The cover of a multi-point is the set of its points' tiles. -/
theorem cover_multiPoint (ops : Ops α) (frac : Pt α → Pt α) (zoom fuel : Nat) (ps : List (Pt α)) :
    ∃ S, cover ops frac zoom fuel (.multiPoint ps) = .ok S ∧
      ∀ t, t ∈ S ↔ ∃ p ∈ ps, t = tileAt ops (frac p) zoom :=
  cover_multiPoint' ops frac zoom fuel ps

/-- The cover of a bound is the rectangular range between the corner tiles (nothing for an empty bound). -/
theorem cover_bound_rect (ops : Ops α) (frac : Pt α → Pt α) (zoom fuel : Nat) (a b : Pt α) :
    ∃ S, cover ops frac zoom fuel (.bound a b) = .ok S ∧
      ∀ t, t ∈ S ↔ (¬ (b.x < a.x ∨ b.y < a.y) ∧ t.z = zoom ∧
        (tileAt ops (frac a) zoom).x ≤ t.x ∧ t.x ≤ (tileAt ops (frac b) zoom).x ∧
        (tileAt ops (frac b) zoom).y ≤ t.y ∧ t.y ≤ (tileAt ops (frac a) zoom).y) :=
  cover_bound_rect' ops frac zoom fuel a b

/-- The cover of a collection whose members all have covers is their union. -/
theorem cover_collection_union (ops : Ops α) (frac : Pt α → Pt α) (zoom fuel : Nat) (gs : List (Geom α))
    (hs : ∀ g ∈ gs, ∃ s, cover ops frac zoom fuel g = .ok s) :
    ∃ S, cover ops frac zoom fuel (.collection gs) = .ok S ∧
      ∀ t, t ∈ S ↔ ∃ g ∈ gs, ∃ s, cover ops frac zoom fuel g = .ok s ∧ t ∈ s :=
  cover_collection_union' ops frac zoom fuel gs hs

/-- … and otherwise the outcome of the first member without a cover. -/
theorem cover_collection_error (ops : Ops α) (frac : Pt α → Pt α) (zoom fuel : Nat)
    (gs₁ : List (Geom α)) (g : Geom α) (gs₂ : List (Geom α))
    (hs : ∀ g ∈ gs₁, ∃ s, cover ops frac zoom fuel g = .ok s)
    (hg : (cover ops frac zoom fuel g).isOk = false) :
    cover ops frac zoom fuel (.collection (gs₁ ++ g :: gs₂)) = cover ops frac zoom fuel g :=
  cover_collection_error' ops frac zoom fuel gs₁ g gs₂ hs hg

/-- Totality: `tilecover.Geometry` panics on no geometry value (empty ring traces included). -/
theorem cover_total (ops : Ops α) (frac : Pt α → Pt α) (zoom fuel : Nat) (g : Geom α) :
    (cover ops frac zoom fuel g).isPanic = false :=
  cover_total' ops frac zoom fuel g

/-- A polygon cover contains everything its boundary traces put into the set. -/
theorem polygon_contains_boundary_cover (ops : Ops α) (zoom fuel : Nat) (set : List Tile)
    (rings : List (List (Pt α))) (S : List Tile) (h : polygon ops zoom fuel set rings = .ok S) :
    ∃ set' inter, traceRings ops zoom fuel set [] rings = .ok (set', inter) ∧ ∀ t ∈ set', t ∈ S :=
  polygon_contains_boundary_cover' ops zoom fuel set rings S h

/-- Every other tile of a polygon cover was filled on the row of a traced tile, strictly between two
    traced tiles: the cover stays inside the tile-space bound of the boundary trace. -/
theorem polygon_within_trace_bound (ops : Ops α) (hU : ∀ v, ops.toU32 v + 1 < 2 ^ 32) (zoom fuel : Nat)
    (rings : List (List (Pt α))) (S : List Tile) (h : polygon ops zoom fuel [] rings = .ok S) :
    ∃ set' inter, traceRings ops zoom fuel [] [] rings = .ok (set', inter) ∧
      ∀ t ∈ S, t ∈ set' ∨
        ∃ a b, a ∈ set' ∧ b ∈ set' ∧ t.z = zoom ∧ t.y = a.y ∧ a.x < t.x ∧ t.x < b.x :=
  polygon_within_trace_bound' ops hU zoom fuel rings S h

end covers

/-! ### MergeUp -/

/-- Every permutation of the keys is a fair enumeration order. -/
theorem fair_of_perm (o : Orders) (h1 : ∀ l, (o.first l).Perm l) (h2 : ∀ z l, (o.level z l).Perm l) : o.Fair :=
  fair_of_perm' o h1 h2

/-- One level of `MergeUp`, whatever the order in which the (mutated) map is enumerated:
    afterwards every entry is `false`; `merged` has gained exactly the tiles whose sibling quad is
    incomplete (plus the parents of complete quads when this is the last level) and `parentSet` exactly
    the parents of the complete quads. -/
theorem level_step_spec (l : List Tile) (m : TMap) (z : Nat) (hz : 0 < z)
    (hm : ∀ t, m.get t = true → V t ∧ t.z = z) (hl : ∀ t, m.get t = true → t ∈ l)
    (toMerged : Bool) (merged0 : List Tile) (parents0 : TMap) :
    (∀ t, (l.foldl (stepTile none toMerged) ⟨m, merged0, parents0⟩).set.get t = false) ∧
    (∀ t, t ∈ (l.foldl (stepTile none toMerged) ⟨m, merged0, parents0⟩).merged ↔
      (t ∈ merged0 ∨ (m.get t = true ∧ ¬ QuadIn m t) ∨
        (toMerged = true ∧ ∃ c, m.get c = true ∧ QuadIn m c ∧ parent c = t))) ∧
    (∀ t, (l.foldl (stepTile none toMerged) ⟨m, merged0, parents0⟩).parents.get t = true ↔
      (parents0.get t = true ∨
        (toMerged = false ∧ ∃ c, m.get c = true ∧ QuadIn m c ∧ parent c = t))) :=
  level_step_spec' l m z hz hm hl toMerged merged0 parents0

/-- Closed form of `MergeUp` on a same-zoom set, for every fair enumeration order: a tile is in the
    result iff its zoom is between the target and the input zoom, all its descendants at the input zoom
    are in the input, and it is at the target zoom or its parent is not so filled. -/
theorem mergeUp_closed_form (o : Orders) (ho : o.Fair) (m : TMap) (zoom min : Nat)
    (hm : ∀ t, m.get t = true → V t ∧ t.z = zoom) (hmin : min ≤ zoom) (t : Tile) :
    (mergeUp o m min).get t = true ↔
      (min ≤ t.z ∧ t.z ≤ zoom ∧ Full m zoom t ∧ (t.z = min ∨ ¬ Full m zoom (parent t))) :=
  mergeUp_closed_form' o ho m zoom min hm hmin t

/-- The result does not depend on the enumeration order of the Go map. -/
theorem mergeUp_order_irrelevant (o₁ o₂ : Orders) (h₁ : o₁.Fair) (h₂ : o₂.Fair) (m : TMap) (zoom min : Nat)
    (hm : ∀ t, m.get t = true → V t ∧ t.z = zoom) (hmin : min ≤ zoom) (t : Tile) :
    (mergeUp o₁ m min).get t = (mergeUp o₂ m min).get t :=
  mergeUp_order_irrelevant' o₁ o₂ h₁ h₂ m zoom min hm hmin t

/-- The property's merge clause: for a same-zoom input, any enumeration order, target `min ≤ zoom`:
    (1) result tiles are pairwise non-overlapping, (2) none is shallower than the target (or deeper than
    the input), (3) the descendants of the result at the input zoom are exactly the input (same area),
    (4) no complete sibling quad is left above the target. -/
theorem mergeUp_spec (o : Orders) (ho : o.Fair) (m : TMap) (zoom min : Nat)
    (hm : ∀ t, m.get t = true → V t ∧ t.z = zoom) (hmin : min ≤ zoom) :
    (∀ a b, (mergeUp o m min).get a = true → (mergeUp o m min).get b = true → IsAncestor a b → a = b) ∧
    (∀ t, (mergeUp o m min).get t = true → min ≤ t.z ∧ t.z ≤ zoom) ∧
    (∀ s, s.z = zoom → (m.get s = true ↔ ∃ t, (mergeUp o m min).get t = true ∧ IsAncestor t s)) ∧
    (∀ t, (mergeUp o m min).get t = true → min < t.z → ¬ ∀ s ∈ siblings t, (mergeUp o m min).get s = true) :=
  mergeUp_spec' o ho m zoom min hm hmin

/-! ### the DDA in exact arithmetic -/

section dda
variable {K : Type} [Field K] [LinearOrder K] [IsStrictOrderedRing K] [FloorRing K]

/-- The tiles one segment puts into the set form a chain of 4-neighbours that starts at ⌊start⌋ and ends
    in a tile whose closed square contains `stop` (it is ⌊stop⌋ unless `stop` lies on the far edge). -/
theorem dda_connected (zoom fuel : Nat) (a b : Pt K) (ha : 0 ≤ a.x ∧ 0 ≤ a.y) (hb : 0 ≤ b.x ∧ 0 ≤ b.y)
    (hab : a ≠ b) (s : LState K)
    (h : segment (opsK K) zoom fuel ⟨[], none, -1, -1, 0, 0⟩ a b = some s) :
    ∃ cells : List Tile, s.set = cells.reverse ∧
      cells.head? = some ⟨⌊a.x⌋.toNat, ⌊a.y⌋.toNat, zoom⟩ ∧
      List.IsChain Adj4 cells ∧
      ∃ c, cells.getLast? = some c ∧ (c.x : K) ≤ b.x ∧ b.x ≤ (c.x : K) + 1 ∧ (c.y : K) ≤ b.y ∧ b.y ≤ (c.y : K) + 1 :=
  dda_connected' zoom fuel a b ha hb hab s h

/-- The DDA loop terminates: fuel proportional to the tile distance of the end points suffices. -/
theorem dda_terminates (zoom fuel : Nat) (a b : Pt K) (s : LState K)
    (hf : (⌊b.x⌋ - ⌊a.x⌋).natAbs + (⌊b.y⌋ - ⌊a.y⌋).natAbs + 2 ≤ fuel) :
    (segment (opsK K) zoom fuel s a b).isSome = true :=
  dda_terminates' zoom fuel a b s hf

/-- Soundness of the DDA: every tile of a segment's cover meets the segment (closed square). -/
theorem dda_sound (zoom fuel : Nat) (a b : Pt K) (s : LState K)
    (hax : 0 ≤ a.x) (hay : 0 ≤ a.y) (hbx : 0 ≤ b.x) (hby : 0 ≤ b.y)
    (h : segment (opsK K) zoom fuel ⟨[], none, -1, -1, 0, 0⟩ a b = some s) :
    ∀ c ∈ s.set, ∃ t : K, 0 ≤ t ∧ t ≤ 1 ∧
      (c.x : K) ≤ a.x + t * (b.x - a.x) ∧ a.x + t * (b.x - a.x) ≤ (c.x : K) + 1 ∧
      (c.y : K) ≤ a.y + t * (b.y - a.y) ∧ a.y + t * (b.y - a.y) ≤ (c.y : K) + 1 :=
  dda_sound' zoom fuel a b s hax hay hbx hby h

/-- Completeness of the DDA: every tile whose open square a (non-degenerate) segment enters is in the
    segment's cover. -/
theorem dda_complete (zoom fuel : Nat) (a b : Pt K) (s : LState K)
    (hax : 0 ≤ a.x) (hay : 0 ≤ a.y) (hbx : 0 ≤ b.x) (hby : 0 ≤ b.y) (hab : a ≠ b)
    (h : segment (opsK K) zoom fuel ⟨[], none, -1, -1, 0, 0⟩ a b = some s) :
    ∀ (i j : Nat) (t : K), 0 ≤ t → t ≤ 1 →
      (i : K) < a.x + t * (b.x - a.x) → a.x + t * (b.x - a.x) < (i : K) + 1 →
      (j : K) < a.y + t * (b.y - a.y) → a.y + t * (b.y - a.y) < (j : K) + 1 →
      (⟨i, j, zoom⟩ : Tile) ∈ s.set :=
  dda_complete' zoom fuel a b s hax hay hbx hby hab h

/-- In exact arithmetic the cover of a line string is sound and complete segment by segment: every tile
    has the cover's zoom and its closed square meets some segment, and every tile whose open square a
    non-degenerate segment enters is present ("exactly the tiles the line passes through", up to tiles
    that are only touched on their boundary). -/
theorem lineString_cover_exact (frac : Pt K → Pt K) (zoom fuel : Nat) (ps : List (Pt K))
    (hnn : ∀ p ∈ ps, 0 ≤ (frac p).x ∧ 0 ≤ (frac p).y) (S : List Tile)
    (h : cover (opsK K) frac zoom fuel (.lineString ps) = .ok S) :
    (∀ c ∈ S, c.z = zoom ∧ ∃ e ∈ (ps.map frac).zip ((ps.map frac).drop 1), ∃ t : K, 0 ≤ t ∧ t ≤ 1 ∧
        (c.x : K) ≤ e.1.x + t * (e.2.x - e.1.x) ∧ e.1.x + t * (e.2.x - e.1.x) ≤ (c.x : K) + 1 ∧
        (c.y : K) ≤ e.1.y + t * (e.2.y - e.1.y) ∧ e.1.y + t * (e.2.y - e.1.y) ≤ (c.y : K) + 1) ∧
    (∀ e ∈ (ps.map frac).zip ((ps.map frac).drop 1), e.1 ≠ e.2 → ∀ (i j : Nat) (t : K), 0 ≤ t → t ≤ 1 →
        (i : K) < e.1.x + t * (e.2.x - e.1.x) → e.1.x + t * (e.2.x - e.1.x) < (i : K) + 1 →
        (j : K) < e.1.y + t * (e.2.y - e.1.y) → e.1.y + t * (e.2.y - e.1.y) < (j : K) + 1 →
        (⟨i, j, zoom⟩ : Tile) ∈ S) :=
  lineString_cover_exact' frac zoom fuel ps hnn S h

/-- With fuel proportional to the longest segment (in tiles) the cover of a line string is defined
    (the fuel of the model's DDA loop is not a restriction). -/
theorem lineString_cover_ok (frac : Pt K → Pt K) (zoom fuel : Nat) (ps : List (Pt K))
    (hf : ∀ e ∈ (ps.map frac).zip ((ps.map frac).drop 1),
      (⌊e.2.x⌋ - ⌊e.1.x⌋).natAbs + (⌊e.2.y⌋ - ⌊e.1.y⌋).natAbs + 2 ≤ fuel) :
    ∃ S, cover (opsK K) frac zoom fuel (.lineString ps) = .ok S :=
  lineString_cover_ok' frac zoom fuel ps hf

end dda

/-- NOT PROVED — the polygon interior claim, carried by the executable property (exact even-odd test of
    sample points of every candidate tile): in exact arithmetic, for a polygon whose rings are closed
    (first vertex = last), every tile whose open square contains a point that the even-odd rule puts inside
    the polygon is in the cover.  `inside q` is the crossing-number parity of the horizontal ray from `q`. -/
def polygon_interior_full : Prop :=
  ∀ (K : Type) [Field K] [LinearOrder K] [IsStrictOrderedRing K] [FloorRing K]
    (zoom fuel : Nat) (rings : List (List (Pt K))) (S : List Tile),
    (∀ r ∈ rings, r.head? = r.getLast? ∧ ∀ p ∈ r, 0 ≤ p.x ∧ 0 ≤ p.y) →
    polygon (opsK K) zoom fuel [] rings = .ok S →
    ∀ (i j : Nat) (q : Pt K), (i : K) < q.x → q.x < (i : K) + 1 → (j : K) < q.y → q.y < (j : K) + 1 →
      (∀ r ∈ rings, ∀ p ∈ r, p.y ≠ q.y) →
      ((rings.flatMap fun r => (r.zip (r.drop 1)).filter fun e =>
          decide ((e.1.y > q.y) ≠ (e.2.y > q.y)) &&
          decide (q.x < e.1.x + (q.y - e.1.y) * (e.2.x - e.1.x) / (e.2.y - e.1.y))).length % 2 = 1) →
      (⟨i, j, zoom⟩ : Tile) ∈ S

/-- Non-vacuity: a complete quad at zoom 2 plus one more tile satisfies the hypotheses of `mergeUp_spec`;
    merged to zoom 0 and to zoom 1 with two different enumeration orders the quad becomes its parent and
    the lone tile stays. -/
example :
    let m : TMap := TMap.ofTiles [⟨0, 0, 2⟩, ⟨1, 0, 2⟩, ⟨1, 1, 2⟩, ⟨0, 1, 2⟩, ⟨2, 0, 2⟩]
    (∀ t, m.get t = true → V t ∧ t.z = 2) ∧
    (mergeUp ⟨id, fun _ l => l⟩ m 0).trues = [⟨0, 0, 1⟩, ⟨2, 0, 2⟩] ∧
    (mergeUp ⟨List.reverse, fun _ l => l.reverse⟩ m 1).trues = [⟨0, 0, 1⟩, ⟨2, 0, 2⟩] ∧
    m.get ⟨1, 1, 2⟩ = true ∧ m.get ⟨3, 0, 2⟩ = false := by
  refine ⟨?_, by decide, by decide, by decide, by decide⟩
  intro t h
  have hk := TMap.mem_keys_of_get h
  have : t ∈ [(⟨0, 0, 2⟩ : Tile), ⟨1, 0, 2⟩, ⟨1, 1, 2⟩, ⟨0, 1, 2⟩, ⟨2, 0, 2⟩] := by
    simpa [TMap.ofTiles, TMap.set, TMap.keys] using hk
  simp only [List.mem_cons, List.not_mem_nil, or_false] at this
  rcases this with rfl | rfl | rfl | rfl | rfl <;> decide

end Orb.TileCover
