/-
  C13 — translation tie.  `Generated/TileGo.lean` is REGENERATED from /repo/maptile/tile.go on
  every run by the Go→Lean translator in harness/cmd/factgen/translate.go.  The theorems below
  prove that each regenerated definition IS the hand-written model definition of `Orb.Tile` that
  the C13 property theorems are about — so for these ten functions a change of the Go source
  changes a Lean definition and breaks a proof obligation here, independently of any sampling.
-/
import Orb.Tile
import Generated.TileGo

namespace Orb.C13Tie
open Orb.Tile

theorem valid_tie (t : Tile) : Generated.TileGo.valid t = valid t := rfl
theorem parent_tie (t : Tile) : Generated.TileGo.parent t = parent t := rfl
theorem children_tie (t : Tile) : Generated.TileGo.children t = children t := rfl
theorem siblings_tie (t : Tile) : Generated.TileGo.siblings t = siblings t := rfl
theorem toZoom_tie (t : Tile) (z : Nat) : Generated.TileGo.toZoom t z = toZoom t z := rfl
theorem contains_tie (t u : Tile) : Generated.TileGo.contains t u = contains t u := rfl
theorem sharedParent_tie (t u : Tile) : Generated.TileGo.sharedParent t u = sharedParent t u := rfl
theorem range_tie (t : Tile) (z : Nat) : Generated.TileGo.range t z = range t z := rfl

/-- folds agree when their step functions agree on the elements folded over -/
theorem foldl_congr {α β : Type} (f g : α → β → α) (l : List β) (a : α)
    (h : ∀ a, ∀ b ∈ l, f a b = g a b) : l.foldl f a = l.foldl g a := by
  induction l generalizing a with
  | nil => rfl
  | cons b bs ih =>
    simp only [List.foldl_cons]
    rw [h a b (List.mem_cons_self ..)]
    exact ih _ (fun a c hc => h a c (List.mem_cons_of_mem _ hc))

/-- `Quadkey`: the loop index arithmetic is uint64 in Go; for zoom ≤ 2^32 it never wraps. -/
theorem quadkey_tie (t : Tile) (hz : t.z ≤ 2^32) : Generated.TileGo.quadkey t = quadkey t := by
  unfold Generated.TileGo.quadkey quadkey
  apply foldl_congr
  intro r i hi
  have hi' : i < 2^32 := by
    have := List.mem_range.mp hi
    omega
  have h1 : Generated.TileGo.add64 i 1 = i + 1 := by
    unfold Generated.TileGo.add64 W64
    exact Nat.mod_eq_of_lt (by omega)
  simp only [quadkeyStep, Generated.TileGo.shl64, h1]

/-- `FromQuadkey`: the index arithmetic `2*i`, `2*i+1`, `i+1` is uint32 in Go; for zoom ≤ 2^30 it never wraps. -/
theorem fromQuadkey_tie (k z : Nat) (hz : z ≤ 2^30) : Generated.TileGo.fromQuadkey k z = fromQuadkey k z := by
  unfold Generated.TileGo.fromQuadkey fromQuadkey
  apply foldl_congr
  intro t i hi
  have hi' : i < 2^30 := by
    have := List.mem_range.mp hi
    omega
  have h2 : Generated.TileGo.mul32 2 i = 2 * i := by
    unfold Generated.TileGo.mul32 W32
    exact Nat.mod_eq_of_lt (by omega)
  have h3 : add32 (2 * i) 1 = 2 * i + 1 := by
    unfold add32 W32
    exact Nat.mod_eq_of_lt (by omega)
  have h4 : add32 i 1 = i + 1 := by
    unfold add32 W32
    exact Nat.mod_eq_of_lt (by omega)
  simp only [fromQuadkeyStep, Generated.TileGo.shl64, Generated.TileGo.shr64, h2, h3, h4]

/-- every function the translator is asked for was translated -/
theorem all_translated : Generated.TileGo.translated =
    ["valid", "parent", "children", "siblings", "toZoom", "contains", "quadkey", "fromQuadkey", "sharedParent", "range"] := by
  decide

end Orb.C13Tie
