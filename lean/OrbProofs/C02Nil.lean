/-
  C02 — the round trip for Go values WITH NIL MEMBERS (`orb.Polygon{nil}`,
  `orb.MultiPolygon{nil, {nil}}`, `orb.Collection{orb.MultiPoint(nil)}` …): what `NewGeometry(v)`
  writes for such a value (`geomDocN`, with its `null`s) decodes to the canonical value of the same
  geometry with its nil slices read as empty ones.  Re-exported by OrbProofs/C02.lean.
-/
import OrbProofs.C02Lemmas

namespace Orb.GeoJSON
open Orb

/-- structural induction for the nested inductive `NGeom` -/
theorem NG.ind {motive : NG → Prop}
    (hn : motive .nilIface) (h1 : ∀ p, motive (.point p)) (h2 : ∀ ps, motive (.multiPoint ps))
    (h3 : ∀ ps, motive (.lineString ps)) (h4 : ∀ ls, motive (.multiLineString ls))
    (h5 : ∀ ps, motive (.ring ps)) (h6 : ∀ rs, motive (.polygon rs))
    (h7 : ∀ ps, motive (.multiPolygon ps)) (h8 : ∀ a b, motive (.bound a b))
    (hnc : motive .nilCollection)
    (hc : ∀ gs, (∀ g ∈ gs, motive g) → motive (.collection gs)) : ∀ g, motive g := by
  intro g
  refine CoreNil.NGeom.rec (motive_1 := motive) (motive_2 := fun gs => ∀ g ∈ gs, motive g)
    hn h1 h2 h3 h4 h5 h6 h7 h8 hnc hc ?_ ?_ g
  · intro g hg; cases hg
  · intro head tail hh ht g hg
    rcases List.mem_cons.1 hg with rfl | hg
    · exact hh
    · exact ht g hg

theorem mapOpt_map' {α β γ : Type} (f : β → Option γ) (g : α → β) (h : α → γ) (l : List α)
    (hh : ∀ a ∈ l, f (g a) = some (h a)) : mapOpt f (l.map g) = some (l.map h) := by
  induction l with
  | nil => rfl
  | cons a l ih =>
    have h1 := hh a (by simp)
    have h2 := ih (fun b hb => hh b (by simp [hb]))
    simp [mapOpt, h1, h2]

/-! ### coordinates with `null`s -/

theorem slice_npts (c : Codec) (ps : CoreNil.NPts UInt64) (h : (CoreNil.ptsOf ps).all finitePt = true) :
    sliceOf (ptOf c) (nptsJ ps) = some ps := by
  cases ps with
  | none => rfl
  | some l => exact slice_pts c l (by simpa [CoreNil.ptsOf] using h)

theorem ptsOf_nptsJ (c : Codec) (ps : CoreNil.NPts UInt64) (h : (CoreNil.ptsOf ps).all finitePt = true) :
    ptsOf c (nptsJ ps) = some (CoreNil.ptsOf ps) := by
  simp only [ptsOf, sliceOf', slice_npts c ps h]
  cases ps <;> rfl

theorem ptssOf_all {l : List (CoreNil.NPts UInt64)}
    (h : ((l.map CoreNil.ptsOf).all (·.all finitePt)) = true) :
    ∀ x ∈ l, (CoreNil.ptsOf x).all finitePt = true := by
  intro x hx
  have := List.all_eq_true.1 h (CoreNil.ptsOf x) (List.mem_map.2 ⟨x, hx, rfl⟩)
  exact this

theorem slice_nptss (c : Codec) (ls : CoreNil.NPtss UInt64)
    (h : (CoreNil.ptssOf ls).all (·.all finitePt) = true) :
    sliceOf (ptsOf c) (nptssJ ls) = some (ls.map (·.map CoreNil.ptsOf)) := by
  cases ls with
  | none => rfl
  | some l =>
    have hl : ((l.map CoreNil.ptsOf).all (·.all finitePt)) = true := by simpa [CoreNil.ptssOf] using h
    simp only [nptssJ, sliceOf, Option.map_some]
    rw [mapOpt_map' (ptsOf c) nptsJ CoreNil.ptsOf l (fun x hx => ptsOf_nptsJ c x (ptssOf_all hl x hx))]
    rfl

theorem ptssOf_nptssJ (c : Codec) (ls : CoreNil.NPtss UInt64)
    (h : (CoreNil.ptssOf ls).all (·.all finitePt) = true) :
    ptssOf c (nptssJ ls) = some (CoreNil.ptssOf ls) := by
  simp only [ptssOf, sliceOf', slice_nptss c ls h]
  cases ls <;> rfl

theorem slice_nptsss (c : Codec) (ps : CoreNil.NPtsss UInt64)
    (h : (CoreNil.ptsssOf ps).all (·.all (·.all finitePt)) = true) :
    sliceOf (ptssOf c) (nptsssJ ps) = some (ps.map (·.map CoreNil.ptssOf)) := by
  cases ps with
  | none => rfl
  | some l =>
    have hl : ((l.map CoreNil.ptssOf).all (·.all (·.all finitePt))) = true := by simpa [CoreNil.ptsssOf] using h
    have hx : ∀ x ∈ l, ptssOf c (nptssJ x) = some (CoreNil.ptssOf x) := by
      intro x hx
      exact ptssOf_nptssJ c x (List.all_eq_true.1 hl (CoreNil.ptssOf x) (List.mem_map.2 ⟨x, hx, rfl⟩))
    simp only [nptsssJ, sliceOf, Option.map_some]
    rw [mapOpt_map' (ptssOf c) nptssJ CoreNil.ptssOf l hx]
    rfl

theorem lenN_ptssOf (ls : CoreNil.NPtss UInt64) : (CoreNil.ptssOf ls).length = lenN ls := by
  simp [CoreNil.ptssOf, lenN]

theorem lenN_ptsssOf (ps : CoreNil.NPtsss UInt64) : (CoreNil.ptsssOf ps).length = lenN ps := by
  simp [CoreNil.ptsssOf, lenN]

theorem lenN_ptsOf (ps : CoreNil.NPts UInt64) : (CoreNil.ptsOf ps).length = lenN ps := by
  simp [CoreNil.ptsOf, lenN]

theorem decodeGeometry_ok_ne_null (c : Codec) (j : Json) (d : DG) (h : decodeGeometry c j = .ok d) : j ≠ .null := by
  rintro rfl
  cases c <;> simp [decodeGeometry] at h

theorem forgetNils_eq_map (gs : List NG) : forgetNils gs = gs.map forgetNil := by
  induction gs with
  | nil => rfl
  | cons g gs ih => simp [forgetNils, ih]

theorem geomMembersN_eq_map (c : Codec) (gs : List NG) : geomMembersN c gs = gs.map (geomMemberN c) := by
  induction gs with
  | nil => rfl
  | cons g gs ih => simp [geomMembersN, ih]

/-- decoding the "geometries" elements written for members each of which decodes -/
theorem decodeGElems_membersN (c : Codec) (gs : List NG)
    (ih : ∀ g ∈ gs, ∃ v, decodeGeometry c (geomMemberN c g) = .ok ⟨v, false⟩ ∧ v.toGeom = canonG (forgetNil g)) :
    ∃ ds : List DG, decodeGElems c (gs.map (geomMemberN c)) = .ok (ds.map some) ∧
      ds.map (·.v.toGeom) = gs.map fun g => canonG (forgetNil g) := by
  induction gs with
  | nil => exact ⟨[], rfl, rfl⟩
  | cons g gs ihl =>
    obtain ⟨v, hv, hvg⟩ := ih g (by simp)
    obtain ⟨ds, hds, hdg⟩ := ihl (fun x hx => ih x (by simp [hx]))
    refine ⟨⟨v, false⟩ :: ds, ?_, by simp [hvg, hdg]⟩
    have hn := decodeGeometry_ok_ne_null c _ _ hv
    have h3 : gElemOf (geomMemberN c g) (.ok ⟨v, false⟩) = .ok (some ⟨v, false⟩) :=
      gElemOf_ne_null (geomMemberN c g) (.ok ⟨v, false⟩) hn
    simp only [List.map, decodeGElems, hv, h3, hds]

/-- **Round trip at the member level for values with nil members** (json and bson): the document
    with its `null`s decodes to a value that denotes the canonical geometry of the input read with
    its nil slices as empty ones. -/
theorem decode_geomMemberN (c : Codec) : ∀ n : NG, okG (forgetNil n) = true →
    (c = .json ∨ nonEmptyMulti (forgetNil n) = true) → isEmptyColl (forgetNil n) = false →
    ∃ v, decodeGeometry c (geomMemberN c n) = .ok ⟨v, false⟩ ∧ v.toGeom = canonG (forgetNil n) := by
  intro n
  induction n using NG.ind with
  | hn => intro _ _ hne; simp [forgetNil, isEmptyColl] at hne
  | hnc => intro _ _ hne; simp [forgetNil, isEmptyColl] at hne
  | h1 p =>
    intro hok _ _
    exact ⟨.val (.point p), decode_coordObj c _ _ _ (by simp [coordsOf, ptOf_ptJ' c p (by simpa [forgetNil, okG] using hok)]) (by decide), rfl⟩
  | h2 ps =>
    intro hok hb _
    have hf : (CoreNil.ptsOf ps).all finitePt = true := by simpa [forgetNil, okG] using hok
    have hn : c = .json ∨ lenN ps ≠ 0 := hb.imp id fun h => by
      rw [← lenN_ptsOf]; cases hp : CoreNil.ptsOf ps <;> simp_all [forgetNil, nonEmptyMulti]
    rw [geomMemberN, coordDoc_eq c _ _ _ hn]
    cases ps with
    | none => exact ⟨.nilSlice .multiPoint, decode_coordObj c _ _ _ (by simp [coordsOf, nptsJ, sliceOf]) (by decide), rfl⟩
    | some l =>
      exact ⟨.val (.multiPoint l), decode_coordObj c _ _ _ (by
        have := slice_npts c (some l) hf
        simp [coordsOf, this]) (by decide), rfl⟩
  | h3 ps =>
    intro hok hb _
    have hf : (CoreNil.ptsOf ps).all finitePt = true := by simpa [forgetNil, okG] using hok
    have hn : c = .json ∨ lenN ps ≠ 0 := hb.imp id fun h => by
      rw [← lenN_ptsOf]; cases hp : CoreNil.ptsOf ps <;> simp_all [forgetNil, nonEmptyMulti]
    rw [geomMemberN, coordDoc_eq c _ _ _ hn]
    cases ps with
    | none => exact ⟨.nilSlice .lineString, decode_coordObj c _ _ _ (by simp [coordsOf, nptsJ, sliceOf]) (by decide), rfl⟩
    | some l =>
      exact ⟨.val (.lineString l), decode_coordObj c _ _ _ (by
        have := slice_npts c (some l) hf
        simp [coordsOf, this]) (by decide), rfl⟩
  | h4 ls =>
    intro hok hb _
    have hf : (CoreNil.ptssOf ls).all (·.all finitePt) = true := by simpa [forgetNil, okG] using hok
    have hn : c = .json ∨ lenN ls ≠ 0 := hb.imp id fun h => by
      rw [← lenN_ptssOf]; cases hp : CoreNil.ptssOf ls <;> simp_all [forgetNil, nonEmptyMulti]
    rw [geomMemberN, coordDoc_eq c _ _ _ hn]
    have hs := slice_nptss c ls hf
    cases ls with
    | none => exact ⟨.nilSlice .multiLineString, decode_coordObj c _ _ _ (by simp [coordsOf, nptssJ, sliceOf]) (by decide), rfl⟩
    | some l =>
      exact ⟨.val (.multiLineString (l.map CoreNil.ptsOf)), decode_coordObj c _ _ _ (by
        simp only [Option.map_some] at hs
        simp [coordsOf, hs]) (by decide), by simp [V.toGeom, forgetNil, canonG, CoreNil.ptssOf]⟩
  | h5 ps =>
    intro hok _ _
    have hf : (CoreNil.ptsOf ps).all finitePt = true := by simpa [forgetNil, okG] using hok
    have hs := slice_nptss c (some [ps]) (by simpa [CoreNil.ptssOf] using hf)
    simp only [nptssJ, List.map, Option.map_some] at hs
    exact ⟨.val (.polygon [CoreNil.ptsOf ps]), decode_coordObj c _ _ _ (by simp [coordsOf, hs]) (by decide),
      by simp [V.toGeom, forgetNil, canonG]⟩
  | h6 rs =>
    intro hok hb _
    have hf : (CoreNil.ptssOf rs).all (·.all finitePt) = true := by simpa [forgetNil, okG] using hok
    have hn : c = .json ∨ lenN rs ≠ 0 := hb.imp id fun h => by
      rw [← lenN_ptssOf]; cases hp : CoreNil.ptssOf rs <;> simp_all [forgetNil, nonEmptyMulti]
    rw [geomMemberN, coordDoc_eq c _ _ _ hn]
    have hs := slice_nptss c rs hf
    cases rs with
    | none => exact ⟨.nilSlice .polygon, decode_coordObj c _ _ _ (by simp [coordsOf, nptssJ, sliceOf]) (by decide), rfl⟩
    | some l =>
      exact ⟨.val (.polygon (l.map CoreNil.ptsOf)), decode_coordObj c _ _ _ (by
        simp only [Option.map_some] at hs
        simp [coordsOf, hs]) (by decide), by simp [V.toGeom, forgetNil, canonG, CoreNil.ptssOf]⟩
  | h7 ps =>
    intro hok hb _
    have hf : (CoreNil.ptsssOf ps).all (·.all (·.all finitePt)) = true := by simpa [forgetNil, okG] using hok
    have hn : c = .json ∨ lenN ps ≠ 0 := hb.imp id fun h => by
      rw [← lenN_ptsssOf]; cases hp : CoreNil.ptsssOf ps <;> simp_all [forgetNil, nonEmptyMulti]
    rw [geomMemberN, coordDoc_eq c _ _ _ hn]
    have hs := slice_nptsss c ps hf
    cases ps with
    | none => exact ⟨.nilSlice .multiPolygon, decode_coordObj c _ _ _ (by simp [coordsOf, nptsssJ, sliceOf]) (by decide), rfl⟩
    | some l =>
      exact ⟨.val (.multiPolygon (l.map CoreNil.ptssOf)), decode_coordObj c _ _ _ (by
        simp only [Option.map_some] at hs
        simp [coordsOf, hs]) (by decide), by simp [V.toGeom, forgetNil, canonG, CoreNil.ptsssOf]⟩
  | h8 a b =>
    intro hok _ _
    have hab : finitePt a = true ∧ finitePt b = true := by simpa [forgetNil, okG] using hok
    have hf : [boundRing a b].all (·.all finitePt) = true := by
      simpa using boundRing_finite a b hab.1 hab.2
    have := slice_ptss c [boundRing a b] hf
    simp only [ptssJ, List.map] at this
    exact ⟨.val (.polygon [boundRing a b]), decode_coordObj c _ _ _ (by simp [coordsOf, this]) (by decide),
      by simp [V.toGeom, forgetNil, canonG]⟩
  | hc gs ih =>
    intro hok hb hne
    cases gs with
    | nil => simp [forgetNil, forgetNils, isEmptyColl] at hne
    | cons g0 gs' =>
      have hoks := (okGs_iff ((g0 :: gs').map forgetNil)).1 (by
        simpa [forgetNil, okG, forgetNils_eq_map] using hok)
      have hbs : ∀ g ∈ g0 :: gs', c = .json ∨ nonEmptyMulti (forgetNil g) = true := by
        intro g hg
        rcases hb with h | h
        · exact Or.inl h
        · refine Or.inr ((nonEmptyMultis_iff _).1 (by simpa [forgetNil, nonEmptyMulti, forgetNils_eq_map] using h)
            (forgetNil g) (List.mem_map.2 ⟨g, hg, rfl⟩))
      obtain ⟨ds, hds, hdg⟩ := decodeGElems_membersN c (g0 :: gs') (fun g hg =>
        ih g hg (hoks _ (List.mem_map.2 ⟨g, hg, rfl⟩)).2 (hbs g hg) (hoks _ (List.mem_map.2 ⟨g, hg, rfl⟩)).1)
      have hdoc : geomMemberN c (.collection (g0 :: gs')) =
          .obj [("type", .str "GeometryCollection"), ("geometries", .arr ((g0 :: gs').map (geomMemberN c)))] := by
        simp [geomMemberN, geomMembersN_eq_map]
      refine ⟨_, by rw [hdoc, decode_collObj c _ _ hds], ?_⟩
      have hdg' : List.map (fun x : DG => x.v.toGeom) ds = List.map (canonG ∘ forgetNil) (g0 :: gs') := hdg
      simp only [V.toGeom, forgetNil, forgetNils_eq_map, canonG, canonGs_eq_map, List.map_map]
      exact congrArg Geom.collection hdg'

theorem geomMemberN_ne_null (c : Codec) (n : NG) (hok : okG (forgetNil n) = true)
    (hb : c = .json ∨ nonEmptyMulti (forgetNil n) = true) (hne : isEmptyColl (forgetNil n) = false) :
    geomMemberN c n ≠ .null := by
  obtain ⟨v, hv, _⟩ := decode_geomMemberN c n hok hb hne
  exact decodeGeometry_ok_ne_null c _ _ hv

theorem geomDocN_eq_member (c : Codec) (n : NG) (h : geomMemberN c n ≠ .null) : geomDocN c n = geomMemberN c n := by
  unfold geomDocN
  cases c <;> cases hj : geomMemberN _ n <;> simp_all

/-- **Geometry round trip for values with nil members**: `UnmarshalGeometry` / `bson.Unmarshal` of
    what `NewGeometry(v)` wrote denotes the canonical geometry of `v` with nil slices read as empty
    ones (`V.toGeom` forgets the top-level nil-ness of the decoded value, e.g. `Polygon(nil)` decoded
    from `"coordinates":null`). -/
theorem geom_roundtrip_nil' (c : Codec) (n : NG) (hok : okG (forgetNil n) = true)
    (hb : c = .json ∨ nonEmptyMulti (forgetNil n) = true) (hne : isEmptyColl (forgetNil n) = false) :
    ∃ v, geomOfDoc c (geomDocN c n) = .ok v ∧ v.toGeom = canonG (forgetNil n) := by
  obtain ⟨v, hv, hvg⟩ := decode_geomMemberN c n hok hb hne
  refine ⟨v, ?_, hvg⟩
  rw [geomDocN_eq_member c n (decodeGeometry_ok_ne_null c _ _ hv), geomOfDoc, hv]
  rfl

end Orb.GeoJSON
