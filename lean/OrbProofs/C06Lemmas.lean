/-
  Helper lemmas for C06.  The primed statements are re-exported by OrbProofs/C06.lean.
-/
import Orb.Core
import Mathlib.Order.Defs.LinearOrder
import Mathlib.Order.Lattice
import Mathlib.Order.MinMax
import Mathlib.Algebra.Order.Ring.Defs
import Mathlib.Tactic.Ring
import Mathlib.Tactic.SplitIfs

namespace Orb.Core

/-! ### spec-side vocabulary -/

/-- `p` lies in the closed box `b`. -/
def Mem {α : Type} [LE α] (p : Pt α) (b : Bound α) : Prop :=
  b.lo.x ≤ p.x ∧ p.x ≤ b.hi.x ∧ b.lo.y ≤ p.y ∧ p.y ≤ b.hi.y

/-- Two bounds denote the same set of points: both empty, or identical. -/
def Equiv {α : Type} [LT α] [LE α] [DecidableLT α] [DecidableLE α] (a b : Bound α) : Prop :=
  (a.isEmpty = true ∧ b.isEmpty = true) ∨ a = b

/-- `b` is the smallest box containing every point of `vs`. -/
def IsTight {α : Type} [LE α] (vs : List (Pt α)) (b : Bound α) : Prop :=
  (∀ v ∈ vs, Mem v b) ∧ ∀ c : Bound α, (∀ v ∈ vs, Mem v c) → ∀ p, Mem p b → Mem p c

/-- every `Bound` value inside the geometry has min ≤ max -/
def BoundsWF {α : Type} [LE α] : Geom α → Prop
  | .bound a b => a.x ≤ b.x ∧ a.y ≤ b.y
  | .collection gs => ∀ g ∈ gs, BoundsWF g
  | _ => True


/-- structural induction for the nested inductive `Geom` -/
theorem Geom.ind {α : Type} {motive : Geom α → Prop}
    (h1 : ∀ p, motive (.point p)) (h2 : ∀ ps, motive (.multiPoint ps))
    (h3 : ∀ ps, motive (.lineString ps)) (h4 : ∀ ls, motive (.multiLineString ls))
    (h5 : ∀ ps, motive (.ring ps)) (h6 : ∀ rs, motive (.polygon rs))
    (h7 : ∀ ps, motive (.multiPolygon ps)) (h8 : ∀ a b, motive (.bound a b))
    (hc : ∀ gs, (∀ g ∈ gs, motive g) → motive (.collection gs)) : ∀ g, motive g := by
  intro g
  refine Geom.rec (motive_1 := motive) (motive_2 := fun gs => ∀ g ∈ gs, motive g)
    h1 h2 h3 h4 h5 h6 h7 h8 hc ?_ ?_ g
  · intro g hg; cases hg
  · intro head tail hh ht g hg
    rcases List.mem_cons.1 hg with rfl | hg
    · exact hh
    · exact ht g hg


section bounds
variable {α : Type} [LinearOrder α]

theorem contains_iff' (b : Bound α) (p : Pt α) : b.contains p = true ↔ Mem p b := by
  simp only [Bound.contains, Mem]
  split_ifs <;> grind

theorem isEmpty_iff' (b : Bound α) : b.isEmpty = true ↔ ¬ ∃ p, Mem p b := by
  simp only [Bound.isEmpty, Mem, decide_eq_true_eq]
  constructor
  · rintro h ⟨p, hp⟩; grind
  · intro h
    by_contra hc
    exact h ⟨b.lo, by grind⟩

theorem isEmpty_false_iff (b : Bound α) : b.isEmpty = false ↔ b.lo.x ≤ b.hi.x ∧ b.lo.y ≤ b.hi.y := by
  simp only [Bound.isEmpty, decide_eq_false_iff_not, gt_iff_lt, not_or, not_lt]

theorem isEmpty_true_iff (b : Bound α) : b.isEmpty = true ↔ b.hi.x < b.lo.x ∨ b.hi.y < b.lo.y := by
  simp only [Bound.isEmpty, decide_eq_true_eq, gt_iff_lt]


omit [LinearOrder α] in
theorem Bound.ext' {a b : Bound α} (h1 : a.lo.x = b.lo.x) (h2 : a.lo.y = b.lo.y)
    (h3 : a.hi.x = b.hi.x) (h4 : a.hi.y = b.hi.y) : a = b := by
  rcases a with ⟨⟨a1, a2⟩, ⟨a3, a4⟩⟩
  rcases b with ⟨⟨b1, b2⟩, ⟨b3, b4⟩⟩
  simp_all

theorem extend_nonempty (b : Bound α) (p : Pt α) (hb : b.isEmpty = false) :
    b.extend p = ⟨⟨min b.lo.x p.x, min b.lo.y p.y⟩, ⟨max b.hi.x p.x, max b.hi.y p.y⟩⟩ := by
  unfold Bound.extend
  rw [hb]
  simp only [Bool.false_eq_true, if_false]
  split_ifs with hc
  · rw [contains_iff'] at hc
    obtain ⟨h1, h2, h3, h4⟩ := hc
    apply Bound.ext' <;> simp [*]
  · rfl

theorem union_nonempty' (a b : Bound α) (ha : a.isEmpty = false) (hb : b.isEmpty = false) :
    a.union b = ⟨⟨min a.lo.x b.lo.x, min a.lo.y b.lo.y⟩, ⟨max a.hi.x b.hi.x, max a.hi.y b.hi.y⟩⟩ := by
  have ne : ∀ (c : Bound α) (p : Pt α), c.isEmpty = false →
      (⟨⟨min c.lo.x p.x, min c.lo.y p.y⟩, ⟨max c.hi.x p.x, max c.hi.y p.y⟩⟩ : Bound α).isEmpty = false := by
    intro c p hc
    rw [isEmpty_false_iff] at hc ⊢
    simp only [le_max_iff, min_le_iff]
    grind
  unfold Bound.union
  rw [hb, ha]
  simp only [Bool.false_eq_true, if_false]
  have e1 := extend_nonempty a b.lo ha
  have n1 := ne a b.lo ha
  rw [← e1] at n1
  have e2 := extend_nonempty _ b.hi n1
  have n2 := ne _ b.hi n1
  rw [← e2] at n2
  have e3 := extend_nonempty _ b.leftTop n2
  have n3 := ne _ b.leftTop n2
  rw [← e3] at n3
  have e4 := extend_nonempty _ b.rightBottom n3
  rw [e4, e3, e2, e1]
  rw [isEmpty_false_iff] at hb
  obtain ⟨hx, hy⟩ := hb
  clear e1 e2 e3 e4 n1 n2 n3 ne ha
  simp only [Bound.leftTop, Bound.rightBottom]
  apply Bound.ext' <;> simp only [min_assoc, max_assoc] <;> grind


theorem union_empty_right' (a e : Bound α) (he : e.isEmpty = true) : a.union e = a := by
  simp [Bound.union, he]

theorem union_empty_left' (a e : Bound α) (he : e.isEmpty = true) (ha : a.isEmpty = false) : e.union a = a := by
  simp [Bound.union, he, ha]

theorem isEmpty_cases (a : Bound α) : a.isEmpty = true ∨ a.isEmpty = false := by
  cases a.isEmpty <;> simp

theorem minmax_nonempty (a b : Bound α) (ha : a.isEmpty = false) :
    (⟨⟨min a.lo.x b.lo.x, min a.lo.y b.lo.y⟩, ⟨max a.hi.x b.hi.x, max a.hi.y b.hi.y⟩⟩ : Bound α).isEmpty = false := by
  rw [isEmpty_false_iff] at ha ⊢
  simp only [le_max_iff, min_le_iff]
  grind

theorem union_isEmpty_false_left (a b : Bound α) (ha : a.isEmpty = false) : (a.union b).isEmpty = false := by
  rcases isEmpty_cases b with hb | hb
  · rw [union_empty_right' _ _ hb]; exact ha
  · rw [union_nonempty' _ _ ha hb]; exact minmax_nonempty a b ha

theorem union_isEmpty_false_right (a b : Bound α) (hb : b.isEmpty = false) : (a.union b).isEmpty = false := by
  rcases isEmpty_cases a with ha | ha
  · rw [union_empty_left' _ _ ha hb]; exact hb
  · exact union_isEmpty_false_left a b ha

theorem union_comm' (a b : Bound α) : Equiv (a.union b) (b.union a) := by
  rcases isEmpty_cases a with ha | ha <;> rcases isEmpty_cases b with hb | hb
  · left; rw [union_empty_right' _ _ hb, union_empty_right' _ _ ha]; exact ⟨ha, hb⟩
  · right; rw [union_empty_left' _ _ ha hb, union_empty_right' _ _ ha]
  · right; rw [union_empty_left' _ _ hb ha, union_empty_right' _ _ hb]
  · right; rw [union_nonempty' _ _ ha hb, union_nonempty' _ _ hb ha]
    apply Bound.ext' <;> simp only [min_comm, max_comm]

theorem union_assoc' (a b c : Bound α) : Equiv ((a.union b).union c) (a.union (b.union c)) := by
  right
  rcases isEmpty_cases c with hc | hc
  · rw [union_empty_right' _ _ hc, union_empty_right' _ _ hc]
  rcases isEmpty_cases b with hb | hb
  · rw [union_empty_right' _ _ hb, union_empty_left' _ _ hb hc]
  rcases isEmpty_cases a with ha | ha
  · rw [union_empty_left' _ _ ha hb, union_empty_left' _ _ ha (union_isEmpty_false_left b c hb)]
  · have hab := union_isEmpty_false_left a b ha
    have hbc := union_isEmpty_false_left b c hb
    rw [union_nonempty' _ _ hab hc, union_nonempty' _ _ ha hbc]
    rw [union_nonempty' _ _ ha hb, union_nonempty' _ _ hb hc]
    apply Bound.ext' <;> simp only [min_assoc, max_assoc]

theorem union_idem' (a : Bound α) : a.union a = a := by
  rcases isEmpty_cases a with ha | ha
  · exact union_empty_right' _ _ ha
  · rw [union_nonempty' _ _ ha ha]
    apply Bound.ext' <;> simp

theorem mem_nonempty {p : Pt α} {b : Bound α} (h : Mem p b) : b.isEmpty = false := by
  rw [isEmpty_false_iff]; unfold Mem at h; grind

theorem mem_minmax_iff (a b : Bound α) (p : Pt α) :
    Mem p ⟨⟨min a.lo.x b.lo.x, min a.lo.y b.lo.y⟩, ⟨max a.hi.x b.hi.x, max a.hi.y b.hi.y⟩⟩ ↔
      (min a.lo.x b.lo.x ≤ p.x ∧ p.x ≤ max a.hi.x b.hi.x ∧ min a.lo.y b.lo.y ≤ p.y ∧ p.y ≤ max a.hi.y b.hi.y) := by
  rfl

theorem union_upper' (a b : Bound α) (p : Pt α) (h : Mem p a ∨ Mem p b) : Mem p (a.union b) := by
  rcases isEmpty_cases a with ha | ha
  · rcases h with h | h
    · rw [mem_nonempty h] at ha; cases ha
    · rw [union_empty_left' _ _ ha (mem_nonempty h)]; exact h
  rcases isEmpty_cases b with hb | hb
  · rcases h with h | h
    · rw [union_empty_right' _ _ hb]; exact h
    · rw [mem_nonempty h] at hb; cases hb
  rw [union_nonempty' _ _ ha hb, mem_minmax_iff]
  simp only [le_max_iff, min_le_iff]
  unfold Mem at h
  grind

theorem union_least' (a b c : Bound α) (ha : ∀ p, Mem p a → Mem p c) (hb : ∀ p, Mem p b → Mem p c) :
    ∀ p, Mem p (a.union b) → Mem p c := by
  rcases isEmpty_cases b with hb' | hb'
  · rw [union_empty_right' _ _ hb']; exact ha
  rcases isEmpty_cases a with ha' | ha'
  · rw [union_empty_left' _ _ ha' hb']; exact hb
  rw [union_nonempty' _ _ ha' hb']
  intro p hp
  rw [mem_minmax_iff] at hp
  rw [isEmpty_false_iff] at ha' hb'
  have h1 := ha a.lo (by unfold Mem; grind)
  have h2 := ha a.hi (by unfold Mem; grind)
  have h3 := hb b.lo (by unfold Mem; grind)
  have h4 := hb b.hi (by unfold Mem; grind)
  clear ha hb
  unfold Mem at *
  simp only [le_max_iff, min_le_iff] at hp
  grind


theorem point_nonempty (p : Pt α) : (⟨p, p⟩ : Bound α).isEmpty = false := by
  rw [isEmpty_false_iff]; exact ⟨le_refl _, le_refl _⟩

theorem extend_empty (b : Bound α) (p : Pt α) (hb : b.isEmpty = true) : b.extend p = ⟨p, p⟩ := by
  simp [Bound.extend, hb]

theorem extend_eq_union_point' (b : Bound α) (p : Pt α) : b.extend p = b.union ⟨p, p⟩ := by
  rcases isEmpty_cases b with hb | hb
  · rw [extend_empty _ _ hb, union_empty_left' _ _ hb (point_nonempty p)]
  · rw [extend_nonempty _ _ hb, union_nonempty' _ _ hb (point_nonempty p)]

theorem extend_contains' (b : Bound α) (p : Pt α) : Mem p (b.extend p) := by
  rw [extend_eq_union_point']
  apply union_upper'
  right
  exact ⟨le_refl _, le_refl _, le_refl _, le_refl _⟩

theorem extend_absorb' (b : Bound α) (p : Pt α) (h : Mem p b) : b.extend p = b := by
  have hb := mem_nonempty h
  rw [← contains_iff'] at h
  simp [Bound.extend, hb, h]

theorem intersects_comm' (a b : Bound α) : a.intersects b = b.intersects a := by
  simp only [Bound.intersects]
  split_ifs <;> grind

theorem intersects_iff_common_point' (a b : Bound α) (ha : a.isEmpty = false) (hb : b.isEmpty = false) :
    a.intersects b = true ↔ ∃ p, Mem p a ∧ Mem p b := by
  rw [isEmpty_false_iff] at ha hb
  simp only [Bound.intersects, Mem]
  constructor
  · intro h
    split_ifs at h with hc
    simp only [gt_iff_lt, not_or, not_lt] at hc
    refine ⟨⟨max a.lo.x b.lo.x, max a.lo.y b.lo.y⟩, ?_⟩
    simp only [le_max_iff, max_le_iff]
    grind
  · rintro ⟨p, hp⟩
    split_ifs with hc
    · grind
    · rfl


/-- `b` is empty when there are no vertices and the tight box otherwise. -/
def Good (vs : List (Pt α)) (b : Bound α) : Prop :=
  (vs = [] → b.isEmpty = true) ∧ (vs ≠ [] → IsTight vs b)

theorem tight_nonempty {vs : List (Pt α)} {b : Bound α} (hv : vs ≠ []) (h : IsTight vs b) :
    b.isEmpty = false := by
  cases vs with
  | nil => exact absurd rfl hv
  | cons v _ => exact mem_nonempty (h.1 v (List.mem_cons_self ..))

theorem tight_point (p : Pt α) : IsTight [p] (⟨p, p⟩ : Bound α) := by
  constructor
  · intro v hv
    rw [List.mem_singleton] at hv
    subst hv
    exact ⟨le_refl _, le_refl _, le_refl _, le_refl _⟩
  · intro c hc q hq
    have h := hc p (List.mem_singleton.2 rfl)
    unfold Mem at *
    simp only at hq
    grind

theorem tight_union {vs ws : List (Pt α)} {a b : Bound α} (ha : IsTight vs a) (hb : IsTight ws b) :
    IsTight (vs ++ ws) (a.union b) := by
  constructor
  · intro v hv
    rw [List.mem_append] at hv
    apply union_upper'
    rcases hv with hv | hv
    · exact Or.inl (ha.1 v hv)
    · exact Or.inr (hb.1 v hv)
  · intro c hc
    apply union_least'
    · exact ha.2 c (fun v hv => hc v (List.mem_append_left _ hv))
    · exact hb.2 c (fun v hv => hc v (List.mem_append_right _ hv))

theorem good_union {vs ws : List (Pt α)} {a b : Bound α} (ha : Good vs a) (hb : Good ws b) :
    Good (vs ++ ws) (a.union b) := by
  by_cases hw : ws = []
  · subst hw
    rw [List.append_nil, union_empty_right' _ _ (hb.1 rfl)]
    exact ha
  by_cases hv : vs = []
  · subst hv
    rw [List.nil_append, union_empty_left' _ _ (ha.1 rfl) (tight_nonempty hw (hb.2 hw))]
    exact hb
  refine ⟨fun h => ?_, fun _ => tight_union (ha.2 hv) (hb.2 hw)⟩
  simp only [List.append_eq_nil_iff] at h
  exact absurd h.1 hv

theorem good_foldl {X : Type} (f : X → Bound α) (v : X → List (Pt α)) (l : List X)
    (h : ∀ x ∈ l, Good (v x) (f x)) (V0 : List (Pt α)) (b0 : Bound α) (h0 : Good V0 b0) :
    Good (V0 ++ l.flatMap v) (l.foldl (fun b x => b.union (f x)) b0) := by
  induction l generalizing V0 b0 with
  | nil => simpa using h0
  | cons x l ih =>
    rw [List.flatMap_cons, ← List.append_assoc, List.foldl_cons]
    apply ih
    · intro y hy; exact h y (List.mem_cons_of_mem _ hy)
    · exact good_union h0 (h x (List.mem_cons_self ..))

theorem good_foldl_cons {X : Type} (f : X → Bound α) (v : X → List (Pt α)) (x : X) (l : List X)
    (h : ∀ y ∈ x :: l, Good (v y) (f y)) :
    Good ((x :: l).flatMap v) (l.foldl (fun b x => b.union (f x)) (f x)) := by
  rw [List.flatMap_cons]
  apply good_foldl
  · intro y hy; exact h y (List.mem_cons_of_mem _ hy)
  · exact h x (List.mem_cons_self ..)

theorem tight_foldl_extend (l : List (Pt α)) (vs : List (Pt α)) (b : Bound α) (hv : vs ≠ [])
    (h : IsTight vs b) : IsTight (vs ++ l) (l.foldl Bound.extend b) := by
  induction l generalizing vs b with
  | nil => simpa using h
  | cons x l ih =>
    rw [List.foldl_cons, extend_eq_union_point']
    have : vs ++ x :: l = (vs ++ [x]) ++ l := by simp
    rw [this]
    apply ih
    · simp
    · exact tight_union h (tight_point x)

theorem multiPointBound_tight' (eb : Bound α) (ps : List (Pt α)) (h : ps ≠ []) :
    IsTight ps (multiPointBound eb ps) := by
  cases ps with
  | nil => exact absurd rfl h
  | cons p rest =>
    simp only [multiPointBound, List.foldl_cons]
    rw [extend_absorb' _ _ ((tight_point p).1 p (List.mem_singleton.2 rfl))]
    exact tight_foldl_extend rest [p] _ (by simp) (tight_point p)

theorem good_multiPointBound (eb : Bound α) (he : eb.isEmpty = true) (ps : List (Pt α)) :
    Good ps (multiPointBound eb ps) := by
  refine ⟨fun h => ?_, multiPointBound_tight' eb ps⟩
  subst h
  exact he

theorem good_polygonBound (eb : Bound α) (he : eb.isEmpty = true) (rs : List (List (Pt α))) :
    Good (rs.head?.getD []) (polygonBound eb rs) := by
  cases rs with
  | nil => exact ⟨fun _ => he, fun h => absurd rfl h⟩
  | cons r _ => exact good_multiPointBound eb he r

theorem good_bound (eb : Bound α) (he : eb.isEmpty = true) (g : Geom α) (hw : BoundsWF g) :
    Good (bverts g) (bound eb g) := by
  induction g using Geom.ind with
  | h1 p =>
    simp only [bverts, bound]
    exact ⟨fun h => absurd h (List.cons_ne_nil _ _), fun _ => tight_point p⟩
  | h2 ps => simp only [bverts, bound]; exact good_multiPointBound eb he ps
  | h3 ps => simp only [bverts, bound]; exact good_multiPointBound eb he ps
  | h5 ps => simp only [bverts, bound]; exact good_multiPointBound eb he ps
  | h4 ls =>
    simp only [bverts, bound]
    cases ls with
    | nil => exact ⟨fun _ => he, fun h => absurd rfl h⟩
    | cons l rest =>
      rw [← List.flatMap_id]
      exact good_foldl_cons (multiPointBound eb) id l rest (fun y _ => good_multiPointBound eb he y)
  | h6 rs => simp only [bverts, bound]; exact good_polygonBound eb he rs
  | h7 ps =>
    simp only [bverts, bound]
    cases ps with
    | nil => exact ⟨fun _ => he, fun h => absurd rfl h⟩
    | cons l rest =>
      exact good_foldl_cons (polygonBound eb) (fun rs => rs.head?.getD []) l rest
        (fun y _ => good_polygonBound eb he y)
  | h8 a b =>
    simp only [bverts, bound]
    simp only [BoundsWF] at hw
    refine ⟨fun h => absurd h (List.cons_ne_nil _ _), fun _ => ⟨?_, ?_⟩⟩
    · intro v hv
      simp only [List.mem_cons, List.not_mem_nil, or_false] at hv
      unfold Mem
      rcases hv with rfl | rfl <;> simp [hw.1, hw.2]
    · intro c hc p hp
      have ha := hc a (by simp)
      have hb := hc b (by simp)
      unfold Mem at *
      simp only at hp
      grind
  | hc gs ih =>
    rw [BoundsWF] at hw
    rw [bverts]
    cases gs with
    | nil => rw [bound]; exact ⟨fun _ => he, fun h => absurd rfl h⟩
    | cons g rest =>
      rw [bound]
      exact good_foldl_cons (bound eb) bverts g rest (fun y hy => ih y hy (hw y hy))

theorem bound_tight' (eb : Bound α) (he : eb.isEmpty = true) (g : Geom α) (hw : BoundsWF g) (hv : bverts g ≠ []) :
    IsTight (bverts g) (bound eb g) :=
  (good_bound eb he g hw).2 hv

theorem bound_empty_iff' (eb : Bound α) (he : eb.isEmpty = true) (g : Geom α) (hw : BoundsWF g) :
    (bound eb g).isEmpty = true ↔ bverts g = [] := by
  constructor
  · intro h
    by_contra hv
    rw [tight_nonempty hv ((good_bound eb he g hw).2 hv)] at h
    cases h
  · exact (good_bound eb he g hw).1

end bounds

section equality
variable {α : Type} [BEq α] [LawfulBEq α]

theorem ptEq_iff (p q : Pt α) : ptEq p q = true ↔ p = q := by
  cases p; cases q
  simp [ptEq]

theorem ptsEq_iff (p q : List (Pt α)) : ptsEq p q = true ↔ p = q := by
  induction p generalizing q with
  | nil => cases q <;> simp [ptsEq]
  | cons a p ih => cases q <;> simp [ptsEq, ptEq_iff, ih]

theorem ptssEq_iff (p q : List (List (Pt α))) : ptssEq p q = true ↔ p = q := by
  induction p generalizing q with
  | nil => cases q <;> simp [ptssEq]
  | cons a p ih => cases q <;> simp [ptssEq, ptsEq_iff, ih]

theorem ptsssEq_iff (p q : List (List (List (Pt α)))) : ptsssEq p q = true ↔ p = q := by
  induction p generalizing q with
  | nil => cases q <;> simp [ptsssEq]
  | cons a p ih => cases q <;> simp [ptsssEq, ptssEq_iff, ih]

omit [LawfulBEq α] in
theorem equal_go_iff (gs : List (Geom α)) (ih : ∀ g ∈ gs, ∀ h, equal g h = true ↔ g = h)
    (hs : List (Geom α)) : equal.go gs hs = true ↔ gs = hs := by
  induction gs generalizing hs with
  | nil => cases hs <;> simp [equal.go]
  | cons g gs ih2 =>
    cases hs with
    | nil => simp [equal.go]
    | cons h hs =>
      simp only [equal.go, Bool.and_eq_true, List.cons.injEq]
      rw [ih g (List.mem_cons_self ..) h, ih2 (fun g hg => ih g (List.mem_cons_of_mem _ hg))]

theorem equal_iff' (g h : Geom α) : equal g h = true ↔ g = h := by
  induction g using Geom.ind generalizing h with
  | hc gs ih =>
    cases h <;> simp only [equal, reduceCtorEq, Bool.false_eq_true]
    rw [equal_go_iff gs ih]
    simp
  | _ => cases h <;> simp [equal, ptEq_iff, ptsEq_iff, ptssEq_iff, ptsssEq_iff]


theorem equalV_iff' (a b : GVal α) : equalV a b = true ↔ normV a = normV b := by
  cases a <;> cases b <;> simp [equalV, normV, equal_iff']

end equality

/-- one iteration of the swap loop of `reverse` -/
def revStep {β : Type} (l : Nat) (a : Array β) (i : Nat) : Array β :=
  if h : i < a.size ∧ l - i < a.size then a.swap i (l - i) h.1 h.2 else a

theorem rev_inv {β : Type} (a : Array β) (k : Nat) (hk : k ≤ a.size / 2) :
    ((List.range k).foldl (revStep (a.size - 1)) a).size = a.size ∧
    ∀ j, j < a.size → ((List.range k).foldl (revStep (a.size - 1)) a)[j]? =
      if j < k ∨ a.size - 1 - j < k then a[a.size - 1 - j]? else a[j]? := by
  induction k with
  | zero => simp
  | succ k ih =>
    obtain ⟨hs, hg⟩ := ih (by omega)
    rw [List.range_succ, List.foldl_append, List.foldl_cons, List.foldl_nil]
    generalize (List.range k).foldl (revStep (a.size - 1)) a = A at hs hg
    have hc : k < A.size ∧ a.size - 1 - k < A.size := by omega
    have hstep : revStep (a.size - 1) A k = A.swap k (a.size - 1 - k) hc.1 hc.2 := by
      simp only [revStep, dif_pos hc]
    rw [hstep]
    refine ⟨by rw [Array.size_swap, hs], ?_⟩
    intro j hj
    rw [Array.getElem?_swap]
    have e1 : some A[k] = A[k]? := (Array.getElem?_eq_getElem hc.1).symm
    have e2 : some A[a.size - 1 - k] = A[a.size - 1 - k]? := (Array.getElem?_eq_getElem hc.2).symm
    rw [e1, e2]
    have g1 := hg k (by omega)
    have g2 := hg (a.size - 1 - k) (by omega)
    have g3 := hg j hj
    rw [g1, g2, g3]
    have e3 : a.size - 1 - (a.size - 1 - k) = k := by omega
    rw [e3]
    split_ifs <;> first | rfl | (exfalso; omega) | (congr 1; omega)

theorem reverse_eq' {β : Type} (ps : List β) : reverse ps = ps.reverse := by
  unfold reverse
  simp only []
  obtain ⟨hs, hg⟩ := rev_inv ps.toArray (ps.toArray.size / 2) (Nat.le_refl _)
  change (List.foldl (revStep (ps.toArray.size - 1)) ps.toArray (List.range (ps.toArray.size / 2))).toList = _
  generalize (List.range (ps.toArray.size / 2)).foldl (revStep (ps.toArray.size - 1)) ps.toArray = A at hs hg
  simp only [List.size_toArray] at hs hg
  apply List.ext_getElem?
  intro j
  by_cases hj : j < ps.length
  · rw [Array.getElem?_toList, hg j hj, List.getElem?_reverse hj]
    simp only [List.getElem?_toArray]
    split_ifs
    · rfl
    · congr 1; omega
  · rw [List.getElem?_eq_none (by simp; omega), List.getElem?_eq_none (by simp; omega)]


section orient
variable {α : Type} [CommRing α]

def cross (p q : Pt α) : α := p.x * q.y - q.x * p.y

/-- fan sum from base point `o` over the open chain `l` -/
def fan (o : Pt α) : List (Pt α) → α
  | p :: q :: t => ((p.x - o.x) * (q.y - o.y) - (q.x - o.x) * (p.y - o.y)) + fan o (q :: t)
  | _ => 0

/-- open shoelace sum -/
def chain : List (Pt α) → α
  | p :: q :: t => cross p q + chain (q :: t)
  | _ => 0

def lastD : Pt α → List (Pt α) → Pt α
  | p, [] => p
  | _, q :: t => lastD q t

omit [CommRing α] in
theorem getLast?_cons_lastD (p : Pt α) (t : List (Pt α)) : (p :: t).getLast? = some (lastD p t) := by
  induction t generalizing p with
  | nil => rfl
  | cons q t ih => rw [List.getLast?_cons_cons, ih]; rfl

/-- cyclic shoelace sum -/
def cyc (l : List (Pt α)) : α :=
  chain l + (match l.getLast?, l.head? with
    | some z, some a => cross z a
    | _, _ => 0)

theorem go_eq_fan (o : Pt α) (l : List (Pt α)) (acc : α) :
    orientArea.go o l acc = acc + fan o l := by
  induction l generalizing acc with
  | nil => simp [orientArea.go, fan]
  | cons p t ih =>
    cases t with
    | nil => simp [orientArea.go, fan]
    | cons q t =>
      rw [orientArea.go, ih, fan]
      ring

theorem fan_eq (o p : Pt α) (t : List (Pt α)) :
    fan o (p :: t) = chain (p :: t) + cross o p - cross o (lastD p t) := by
  induction t generalizing p with
  | nil => simp [fan, chain, lastD]
  | cons q t ih =>
    rw [fan, ih, chain, lastD]
    simp only [cross]
    ring

theorem orientArea_eq_cyc (r : List (Pt α)) : orientArea r = cyc r := by
  cases r with
  | nil => simp [orientArea, cyc, chain]
  | cons o rest =>
    simp only [orientArea]
    rw [go_eq_fan, cyc, getLast?_cons_lastD]
    cases rest with
    | nil => simp [fan, chain, lastD, cross]
    | cons p t =>
      rw [fan_eq, chain, lastD]
      simp only [List.head?_cons, cross]
      ring

theorem chain_append_single (l : List (Pt α)) (q : Pt α) :
    chain (l ++ [q]) = chain l + (match l.getLast? with | some z => cross z q | none => 0) := by
  induction l with
  | nil => simp [chain]
  | cons a l ih =>
    cases l with
    | nil => simp [chain]
    | cons b l =>
      rw [List.getLast?_cons_cons]
      simp only [List.cons_append, chain] at ih ⊢
      rw [ih]; ring

theorem chain_reverse (l : List (Pt α)) : chain l.reverse = - chain l := by
  induction l with
  | nil => simp [chain]
  | cons p t ih =>
    rw [List.reverse_cons, chain_append_single, ih, List.getLast?_reverse]
    cases t with
    | nil => simp [chain]
    | cons q t => simp only [List.head?_cons, chain, cross]; ring

theorem cyc_reverse (l : List (Pt α)) : cyc l.reverse = - cyc l := by
  unfold cyc
  rw [chain_reverse, List.getLast?_reverse, List.head?_reverse]
  cases h1 : l.head? <;> cases h2 : l.getLast? <;> simp only [cross] <;> ring

variable [LinearOrder α] [IsStrictOrderedRing α]

theorem orientation_reverse' (r : List (Pt α)) : orientation (reverse r) = - orientation r := by
  rw [reverse_eq']
  unfold orientation
  simp only []
  rw [orientArea_eq_cyc, orientArea_eq_cyc, cyc_reverse]
  generalize cyc r = a
  have h1 : (0 : α) < -a ↔ a < 0 := neg_pos
  have h2 : -a < 0 ↔ 0 < a := neg_lt_zero
  split_ifs <;> simp_all
  exact lt_asymm ‹a < 0› ‹0 < a›

end orient

end Orb.Core
