/-
  Helper lemmas for C06.  The primed statements are re-exported by OrbProofs/C06.lean.
-/
import Orb.Core
import Mathlib.Order.Defs.LinearOrder
import Mathlib.Algebra.Order.Ring.Defs

namespace Orb.Core

/-! ### spec-side vocabulary -/

/-- `p` lies in the closed box `b`. -/
def Mem {α : Type} [LE α] (p : Pt α) (b : Bound α) : Prop :=
  b.lo.x ≤ p.x ∧ p.x ≤ b.hi.x ∧ b.lo.y ≤ p.y ∧ p.y ≤ b.hi.y

/-- Two bounds denote the same set of points: both empty, or identical. -/
def Equiv {α : Type} [LT α] [LE α] [DecidableLT α] [DecidableLE α] (a b : Bound α) : Prop :=
  (a.isEmpty = true ∧ b.isEmpty = true) ∨ a = b

/-- `b` is the smallest box containing every point of `vs`. -/
def IsTight {α : Type} [LE α] (vs : List (Pt α)) (b : Bound α) : Prop :=
  (∀ v ∈ vs, Mem v b) ∧ ∀ c : Bound α, (∀ v ∈ vs, Mem v c) → ∀ p, Mem p b → Mem p c

/-- every `Bound` value inside the geometry has min ≤ max -/
def BoundsWF {α : Type} [LE α] : Geom α → Prop
  | .bound a b => a.x ≤ b.x ∧ a.y ≤ b.y
  | .collection gs => ∀ g ∈ gs, BoundsWF g
  | _ => True


section bounds
variable {α : Type} [LinearOrder α]

theorem contains_iff' (b : Bound α) (p : Pt α) : b.contains p = true ↔ Mem p b := by
  sorry

theorem isEmpty_iff' (b : Bound α) : b.isEmpty = true ↔ ¬ ∃ p, Mem p b := by
  sorry

theorem union_nonempty' (a b : Bound α) (ha : a.isEmpty = false) (hb : b.isEmpty = false) :
    a.union b = ⟨⟨min a.lo.x b.lo.x, min a.lo.y b.lo.y⟩, ⟨max a.hi.x b.hi.x, max a.hi.y b.hi.y⟩⟩ := by
  sorry

theorem union_empty_right' (a e : Bound α) (he : e.isEmpty = true) : a.union e = a := by
  sorry

theorem union_empty_left' (a e : Bound α) (he : e.isEmpty = true) (ha : a.isEmpty = false) : e.union a = a := by
  sorry

theorem union_comm' (a b : Bound α) : Equiv (a.union b) (b.union a) := by
  sorry

theorem union_assoc' (a b c : Bound α) : Equiv ((a.union b).union c) (a.union (b.union c)) := by
  sorry

theorem union_idem' (a : Bound α) : a.union a = a := by
  sorry

theorem union_upper' (a b : Bound α) (p : Pt α) (h : Mem p a ∨ Mem p b) : Mem p (a.union b) := by
  sorry

theorem union_least' (a b c : Bound α) (ha : ∀ p, Mem p a → Mem p c) (hb : ∀ p, Mem p b → Mem p c) :
    ∀ p, Mem p (a.union b) → Mem p c := by
  sorry

theorem extend_eq_union_point' (b : Bound α) (p : Pt α) : b.extend p = b.union ⟨p, p⟩ := by
  sorry

theorem extend_contains' (b : Bound α) (p : Pt α) : Mem p (b.extend p) := by
  sorry

theorem extend_absorb' (b : Bound α) (p : Pt α) (h : Mem p b) : b.extend p = b := by
  sorry

theorem intersects_comm' (a b : Bound α) : a.intersects b = b.intersects a := by
  sorry

theorem intersects_iff_common_point' (a b : Bound α) (ha : a.isEmpty = false) (hb : b.isEmpty = false) :
    a.intersects b = true ↔ ∃ p, Mem p a ∧ Mem p b := by
  sorry

theorem multiPointBound_tight' (eb : Bound α) (ps : List (Pt α)) (h : ps ≠ []) :
    IsTight ps (multiPointBound eb ps) := by
  sorry

theorem bound_tight' (eb : Bound α) (he : eb.isEmpty = true) (g : Geom α) (hw : BoundsWF g) (hv : bverts g ≠ []) :
    IsTight (bverts g) (bound eb g) := by
  sorry

theorem bound_empty_iff' (eb : Bound α) (he : eb.isEmpty = true) (g : Geom α) (hw : BoundsWF g) :
    (bound eb g).isEmpty = true ↔ bverts g = [] := by
  sorry

end bounds

section equality
variable {α : Type} [BEq α] [LawfulBEq α]

theorem equal_iff' (g h : Geom α) : equal g h = true ↔ g = h := by
  sorry

theorem equalV_iff' (a b : GVal α) : equalV a b = true ↔ normV a = normV b := by
  sorry

theorem clone_equal' (v : GVal α) : equalV v (cloneV v) = true := by
  sorry

end equality

theorem reverse_eq' {β : Type} (ps : List β) : reverse ps = ps.reverse := by
  sorry

section orient
variable {α : Type} [CommRing α] [LinearOrder α] [IsStrictOrderedRing α]

theorem orientation_reverse' (r : List (Pt α)) : orientation (reverse r) = - orientation r := by
  sorry

end orient

end Orb.Core
