/-
  Helper lemmas for C15, third file: the ABSOLUTE position of the pixels of a tile.
  `newProjection(tile, extent).ToWGS84` of pixel (p, q) — any field element, not only integers — is
  `mercator.ToGeo` AT THE TILE'S OWN ZOOM of the world coordinate `tile + (pixel + ½) / extent`; in
  particular pixel −½ is the north-west corner `ToGeo(X, Y, Z)` and pixel extent−½ the south-east
  corner `ToGeo(X+1, Y+1, Z)` of the tile — the two corners `maptile.Tile.Bound()` computes.
  A round trip cannot see a wrong origin that both directions share; these statements (and the
  executable clause `tile-wgs84-absolute` / `tile-corner-bound` of Driver/C15.lean) do.
  The primed statements are re-exported by OrbProofs/C15.lean.
-/
import OrbProofs.C15ProjLemmas
import Mathlib.Tactic.FieldSimp
import Mathlib.Tactic.Ring

set_option linter.unusedSectionVars false

namespace Orb.Project
open Orb Orb.Core

section field
variable {α : Type} [Field α] [LinearOrder α] [IsStrictOrderedRing α]

/-- `ToGeo` depends on its point only through the world fractions `x / maxtiles`, `y / maxtiles`. -/
theorem toGeo_congr (F : MFn α) (z z' : Nat) (p p' : Pt α)
    (hx : p.x / maxTiles F z = p'.x / maxTiles F z') (hy : p.y / maxTiles F z = p'.y / maxTiles F z') :
    toGeo F z p = toGeo F z' p' := by
  unfold toGeo
  simp only [hx, hy]

theorem toWGS84_absolute_two_pow' (F : MFn α) (hofNat : ∀ n : Nat, F.ofNat n = (n : α))
    (X Y Z k : Nat) (hk : k < 32) (hX : X < 2 ^ 32) (hY : Y < 2 ^ 32) (hlev : Z + k < 64) (p q : α) :
    (newProjection F X Y Z (2 ^ k)).toWGS84 ⟨p, q⟩ =
      toGeo F Z ⟨(X : α) + (p + 1 / 2) / 2 ^ k, (Y : α) + (q + 1 / 2) / 2 ^ k⟩ := by
  rw [newProjection_pow2' F X Y Z (2 ^ k) (isPowerOfTwo_two_pow' k), trailingZeros32_two_pow' k hk,
    origin_no_wrap X k hX (by omega), origin_no_wrap Y k hY (by omega), hofNat, hofNat]
  simp only [pow2Proj]
  have h2 : (2 : α) ^ k ≠ 0 := by positivity
  have hz : (2 : α) ^ Z ≠ 0 := by positivity
  apply toGeo_congr
  · rw [maxTiles_eq' F hofNat (Z + k) hlev, maxTiles_eq' F hofNat Z (by omega)]
    push_cast
    rw [pow_add]
    field_simp
    ring
  · rw [maxTiles_eq' F hofNat (Z + k) hlev, maxTiles_eq' F hofNat Z (by omega)]
    push_cast
    rw [pow_add]
    field_simp
    ring

theorem toWGS84_absolute_other' (F : MFn α) (hofNat : ∀ n : Nat, F.ofNat n = (n : α))
    (X Y Z e : Nat) (h : isPowerOfTwo e = false) (p q : α) :
    (newProjection F X Y Z e).toWGS84 ⟨p, q⟩ =
      toGeo F Z ⟨(X : α) + (p + 1 / 2) / (e : α), (Y : α) + (q + 1 / 2) / (e : α)⟩ := by
  rw [newProjection_nonpow2' F X Y Z e h, hofNat, hofNat, hofNat]
  simp only [nonPow2Proj]
  rw [add_comm ((p + 1 / 2) / (e : α)), add_comm ((q + 1 / 2) / (e : α))]

/-- pixel −½ is the north-west corner of the tile, whatever the extent -/
theorem tile_corner_nw_two_pow' (F : MFn α) (hofNat : ∀ n : Nat, F.ofNat n = (n : α))
    (X Y Z k : Nat) (hk : k < 32) (hX : X < 2 ^ 32) (hY : Y < 2 ^ 32) (hlev : Z + k < 64) :
    (newProjection F X Y Z (2 ^ k)).toWGS84 ⟨-(1 / 2), -(1 / 2)⟩ = toGeo F Z ⟨(X : α), (Y : α)⟩ := by
  rw [toWGS84_absolute_two_pow' F hofNat X Y Z k hk hX hY hlev]
  simp

theorem tile_corner_nw_other' (F : MFn α) (hofNat : ∀ n : Nat, F.ofNat n = (n : α))
    (X Y Z e : Nat) (h : isPowerOfTwo e = false) :
    (newProjection F X Y Z e).toWGS84 ⟨-(1 / 2), -(1 / 2)⟩ = toGeo F Z ⟨(X : α), (Y : α)⟩ := by
  rw [toWGS84_absolute_other' F hofNat X Y Z e h]
  simp

/-- pixel extent−½ is the south-east corner of the tile -/
theorem tile_corner_se_two_pow' (F : MFn α) (hofNat : ∀ n : Nat, F.ofNat n = (n : α))
    (X Y Z k : Nat) (hk : k < 32) (hX : X < 2 ^ 32) (hY : Y < 2 ^ 32) (hlev : Z + k < 64) :
    (newProjection F X Y Z (2 ^ k)).toWGS84 ⟨2 ^ k - 1 / 2, 2 ^ k - 1 / 2⟩ =
      toGeo F Z ⟨(X : α) + 1, (Y : α) + 1⟩ := by
  rw [toWGS84_absolute_two_pow' F hofNat X Y Z k hk hX hY hlev]
  have h2 : (2 : α) ^ k ≠ 0 := by positivity
  simp [h2]

theorem tile_corner_se_other' (F : MFn α) (hofNat : ∀ n : Nat, F.ofNat n = (n : α))
    (X Y Z e : Nat) (h : isPowerOfTwo e = false) :
    (newProjection F X Y Z e).toWGS84 ⟨(e : α) - 1 / 2, (e : α) - 1 / 2⟩ =
      toGeo F Z ⟨(X : α) + 1, (Y : α) + 1⟩ := by
  rw [toWGS84_absolute_other' F hofNat X Y Z e h]
  have hne : e ≠ 0 := by
    intro h0; rw [h0] at h; simp [isPowerOfTwo] at h
  have he : (e : α) ≠ 0 := by exact_mod_cast hne
  simp [he]

end field

end Orb.Project
