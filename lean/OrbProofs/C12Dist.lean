/-
  C12 lemmas: `distSegSq` (planar.DistanceFromSegmentSquared) is the exact squared distance from a
  point to a closed segment, over a linear ordered field.
-/
import OrbProofs.C12Basic
import Mathlib.Tactic.Positivity
import Mathlib.Tactic.FieldSimp
import Mathlib.Tactic.NormNum
import Mathlib.Tactic.Linarith
import Mathlib.Tactic.Ring
import Mathlib.Tactic.LinearCombination

namespace Orb.Simplify
open Orb

section orderedField
variable {α : Type} [Field α] [LinearOrder α] [IsStrictOrderedRing α]

/-- the guard of `distSegSq` holds iff the squared length is positive -/
private theorem guard_pos {dx dy : α} (h : (dx != 0 || dy != 0) = true) : 0 < dx * dx + dy * dy := by
  simp only [Bool.or_eq_true, bne_iff_ne, ne_eq] at h
  rcases h with h | h
  · have := mul_self_pos.mpr h
    have := mul_self_nonneg dy
    linarith
  · have := mul_self_pos.mpr h
    have := mul_self_nonneg dx
    linarith

omit [IsStrictOrderedRing α] in
private theorem guard_zero {dx dy : α} (h : ¬ (dx != 0 || dy != 0) = true) : dx = 0 ∧ dy = 0 := by
  simp only [Bool.or_eq_true, bne_iff_ne, ne_eq, not_or, not_not] at h
  exact h

theorem distSegSq_le' (a b p : Pt α) (s : α) (h0 : 0 ≤ s) (h1 : s ≤ 1) :
    distSegSq a b p ≤ distSq p ⟨a.x + s * (b.x - a.x), a.y + s * (b.y - a.y)⟩ := by
  unfold distSegSq distSq
  simp only
  by_cases hg : (b.x - a.x != 0 || b.y - a.y != 0) = true
  · rw [if_pos hg]
    have hD := guard_pos hg
    generalize hdx : b.x - a.x = dx at *
    generalize hdy : b.y - a.y = dy at *
    generalize hu : p.x - a.x = u at *
    generalize hv : p.y - a.y = v at *
    have hpx : p.x = a.x + u := by rw [← hu]; ring
    have hpy : p.y = a.y + v := by rw [← hv]; ring
    have hbx : b.x = a.x + dx := by rw [← hdx]; ring
    have hby : b.y = a.y + dy := by rw [← hdy]; ring
    generalize hD' : dx * dx + dy * dy = D at *
    generalize hN : u * dx + v * dy = N at *
    generalize ht : N / D = t at *
    have htD : t * D = N := by rw [← ht]; exact div_mul_cancel₀ _ (ne_of_gt hD)
    rw [hpx, hpy, hbx, hby]
    split_ifs with h1t h0t
    · -- t > 1
      simp only
      have hND : D < N := by nlinarith
      nlinarith [mul_nonneg (sub_nonneg.mpr h1) (sub_nonneg.mpr hND.le),
        mul_nonneg (mul_nonneg (sub_nonneg.mpr h1) (sub_nonneg.mpr h1)) hD.le, mul_nonneg h0 hD.le]
    · simp only
      have hnn : 0 ≤ (s - t) * (s - t) * D := mul_nonneg (mul_self_nonneg _) hD.le
      subst hD' hN
      have e : ((a.x + u - (a.x + s * dx)) * (a.x + u - (a.x + s * dx))
            + (a.y + v - (a.y + s * dy)) * (a.y + v - (a.y + s * dy)))
          - ((a.x + u - (a.x + dx * t)) * (a.x + u - (a.x + dx * t))
            + (a.y + v - (a.y + dy * t)) * (a.y + v - (a.y + dy * t)))
          = (s - t) * (s - t) * (dx * dx + dy * dy) := by
        linear_combination (2 * (s - t)) * htD
      linarith
    · simp only
      have hN0 : N ≤ 0 := by
        have : t ≤ 0 := not_lt.mp h0t
        nlinarith
      nlinarith [mul_nonneg h0 (neg_nonneg.mpr hN0), mul_nonneg (mul_nonneg h0 h0) hD.le]
  · rw [if_neg hg]
    obtain ⟨hx, hy⟩ := guard_zero hg
    simp [hx, hy]

theorem distSegSq_attained' (a b p : Pt α) :
    ∃ s, 0 ≤ s ∧ s ≤ 1 ∧ distSegSq a b p = distSq p ⟨a.x + s * (b.x - a.x), a.y + s * (b.y - a.y)⟩ := by
  unfold distSegSq distSq
  simp only
  by_cases hg : (b.x - a.x != 0 || b.y - a.y != 0) = true
  · rw [if_pos hg]
    split_ifs with h1t h0t
    · exact ⟨1, zero_le_one, le_refl _, by simp only; ring⟩
    · exact ⟨_, h0t.le, not_lt.mp h1t, by simp only; ring⟩
    · exact ⟨0, le_refl _, zero_le_one, by simp⟩
  · rw [if_neg hg]
    exact ⟨0, le_refl _, zero_le_one, by simp⟩

end orderedField

end Orb.Simplify
