/-
  Helper lemmas for C09.  The primed statements are re-exported by OrbProofs/C09.lean.
-/
import Orb.Contains
import Orb.EvenOdd
import OrbProofs.C06Lemmas
import Mathlib.Algebra.Order.Field.Basic
import Mathlib.Tactic.Ring
import Mathlib.Tactic.Linarith
import Mathlib.Tactic.SplitIfs

namespace Orb.Contains
open Orb Orb.Core Orb.EvenOdd

section lists
variable {β : Type}

/-- consecutive pairs of an open chain -/
def chain : List β → List (β × β)
  | a :: b :: t => (a, b) :: chain (b :: t)
  | _ => []

def lastD' : β → List β → β
  | v, [] => v
  | _, b :: t => lastD' b t

theorem zip_eq_chain (v : β) (t : List β) : (v :: t).zip t = chain (v :: t) := by
  induction t generalizing v with
  | nil => rfl
  | cons b t ih => rw [List.zip_cons_cons, ih, chain]

theorem getLast?_getD_eq (v : β) (t : List β) : (v :: t).getLast?.getD v = lastD' v t := by
  induction t generalizing v with
  | nil => rfl
  | cons b t ih =>
    rw [List.getLast?_cons_cons, lastD', ← ih b]
    cases h : (b :: t).getLast? with
    | none => simp at h
    | some z => rfl

theorem chain_append (x : List β) (y : β) (ys : List β) :
    chain (x ++ y :: ys) = chain (x ++ [y]) ++ chain (y :: ys) := by
  induction x with
  | nil => simp [chain]
  | cons a x ih =>
    cases x with
    | nil => simp [chain]
    | cons b x =>
      simp only [List.cons_append, chain] at ih ⊢
      rw [ih]

theorem chain_snoc (v : β) (t : List β) (y : β) :
    chain (v :: t ++ [y]) = chain (v :: t) ++ [(lastD' v t, y)] := by
  induction t generalizing v with
  | nil => simp [chain, lastD']
  | cons b t ih =>
    simp only [List.cons_append, chain, lastD'] at ih ⊢
    rw [ih]

theorem chain_reverse (l : List β) : chain l.reverse = ((chain l).map Prod.swap).reverse := by
  induction l with
  | nil => simp [chain]
  | cons a l ih =>
    cases l with
    | nil => simp [chain]
    | cons b t =>
      rw [List.reverse_cons, List.reverse_cons, List.append_assoc]
      rw [show [b] ++ [a] = b :: [a] from rfl, chain_append, ← List.reverse_cons, ih]
      simp [chain]

theorem mem_chain {s e : β} {l : List β} (h : (s, e) ∈ chain l) : s ∈ l ∧ e ∈ l := by
  induction l with
  | nil => simp [chain] at h
  | cons a l ih =>
    cases l with
    | nil => simp [chain] at h
    | cons b t =>
      simp only [chain, List.mem_cons, Prod.mk.injEq] at h
      rcases h with ⟨rfl, rfl⟩ | h
      · simp
      · have := ih h
        exact ⟨List.mem_cons_of_mem _ this.1, List.mem_cons_of_mem _ this.2⟩

theorem lastD'_mem (v : β) (t : List β) : lastD' v t ∈ v :: t := by
  induction t generalizing v with
  | nil => simp [lastD']
  | cons b t ih => rw [lastD']; exact List.mem_cons_of_mem _ (ih b)

theorem parity_succ (n : Nat) : ((n + 1) % 2 == 1) = !(n % 2 == 1) := by
  rcases Nat.mod_two_eq_zero_or_one n with h | h <;> simp [Nat.add_mod, h]

/-- parity of the number of sign changes along an open chain -/
theorem chain_changes (g : β → Bool) (v : β) (t : List β) :
    ((chain (v :: t)).countP (fun se => g se.1 != g se.2) % 2 == 1) = (g v != g (lastD' v t)) := by
  induction t generalizing v with
  | nil => simp [chain, lastD']
  | cons b t ih =>
    rw [chain, lastD', List.countP_cons]
    by_cases h : g v = g b
    · simp only [h, bne_self_eq_false, Bool.false_eq_true, if_false, Nat.add_zero]
      exact ih b
    · have hb : (g v != g b) = true := by simpa using h
      simp only [hb, if_true, parity_succ, ih b]
      cases hv : g v <;> cases hb' : g b <;> cases g (lastD' b t) <;> simp_all

end lists

set_option linter.unusedSectionVars false

section spec
variable {α : Type} [CommRing α] [LinearOrder α] [IsStrictOrderedRing α]

theorem cross_swap (s e p : Pt α) : EvenOdd.cross e s p = - EvenOdd.cross s e p := by
  simp only [EvenOdd.cross]; ring

theorem onSeg_swap (s e p : Pt α) : onSeg e s p = onSeg s e p := by
  rw [onSeg, onSeg, cross_swap s e p]
  simp only [neg_pos, neg_lt_zero]
  rw [Bool.eq_iff_iff]
  simp only [Bool.and_eq_true, decide_eq_true_eq]
  constructor <;> rintro ⟨⟨⟨a, b⟩, c⟩, d⟩ <;> exact ⟨⟨⟨b, a⟩, c.symm⟩, d.symm⟩

theorem crossesAbove_swap (s e p : Pt α) : crossesAbove e s p = crossesAbove s e p := by
  rw [crossesAbove, crossesAbove, cross_swap s e p]
  simp only [neg_pos, neg_lt_zero]
  exact decide_eq_decide.mpr or_comm

/-- the spec as a function of the edge list -/
def insideE (E : List (Pt α × Pt α)) (p : Pt α) : Bool :=
  (E.any fun se => onSeg se.1 se.2 p) || (E.countP fun se => crossesAbove se.1 se.2 p) % 2 == 1

theorem inside_eq (r : List (Pt α)) (p : Pt α) : inside r p = insideE (edges r) p := rfl

theorem insideE_perm {E F : List (Pt α × Pt α)} (h : E.Perm F) (p : Pt α) : insideE E p = insideE F p := by
  unfold insideE
  rw [h.countP_eq]
  congr 1
  rw [Bool.eq_iff_iff, List.any_eq_true, List.any_eq_true]
  constructor
  · rintro ⟨x, hx, h1⟩; exact ⟨x, h.mem_iff.1 hx, h1⟩
  · rintro ⟨x, hx, h1⟩; exact ⟨x, h.mem_iff.2 hx, h1⟩

theorem insideE_swap (E : List (Pt α × Pt α)) (p : Pt α) : insideE (E.map Prod.swap) p = insideE E p := by
  unfold insideE
  rw [List.any_map, List.countP_map]
  congr 2
  · funext se; exact onSeg_swap _ _ _
  · congr 2; funext se; exact crossesAbove_swap _ _ _

theorem edges_cons (v : Pt α) (t : List (Pt α)) : edges (v :: t) = (lastD' v t, v) :: chain (v :: t) := by
  rw [edges, getLast?_getD_eq, zip_eq_chain]

theorem edges_perm (v : Pt α) (t : List (Pt α)) : (edges (v :: t)).Perm (chain (v :: t ++ [v])) := by
  rw [edges_cons, chain_snoc]
  exact (List.perm_append_singleton _ _).symm

theorem inside_rotate' (a b : List (Pt α)) (p : Pt α) : inside (b ++ a) p = inside (a ++ b) p := by
  cases a with
  | nil => simp
  | cons a0 as =>
    cases b with
    | nil => simp
    | cons b0 bs =>
      rw [inside_eq, inside_eq]
      apply insideE_perm
      have h1 : (edges (b0 :: bs ++ a0 :: as)).Perm (chain (b0 :: bs ++ [a0]) ++ chain (a0 :: as ++ [b0])) := by
        refine (edges_perm b0 (bs ++ a0 :: as)).trans ?_
        rw [show b0 :: (bs ++ a0 :: as) ++ [b0] = (b0 :: bs) ++ a0 :: (as ++ [b0]) by simp, chain_append]
        exact List.Perm.refl _
      have h2 : (edges (a0 :: as ++ b0 :: bs)).Perm (chain (a0 :: as ++ [b0]) ++ chain (b0 :: bs ++ [a0])) := by
        refine (edges_perm a0 (as ++ b0 :: bs)).trans ?_
        rw [show a0 :: (as ++ b0 :: bs) ++ [a0] = (a0 :: as) ++ b0 :: (bs ++ [a0]) by simp, chain_append]
        exact List.Perm.refl _
      exact h1.trans (List.perm_append_comm.trans h2.symm)

theorem inside_rotateLeft' (r : List (Pt α)) (k : Nat) (p : Pt α) : inside (r.rotateLeft k) p = inside r p := by
  unfold List.rotateLeft
  simp only []
  split_ifs with h
  · rfl
  · rw [inside_rotate', List.take_append_drop]

theorem inside_reverse' (r : List (Pt α)) (p : Pt α) : inside r.reverse p = inside r p := by
  cases r with
  | nil => rfl
  | cons v t =>
    rw [List.reverse_cons, inside_rotate', List.singleton_append, inside_eq, inside_eq,
      ← insideE_swap (edges (v :: t))]
    apply insideE_perm
    refine (edges_perm v t.reverse).trans ?_
    refine List.Perm.trans ?_ ((edges_perm v t).map Prod.swap).symm
    have : v :: t.reverse ++ [v] = (v :: t ++ [v]).reverse := by simp
    rw [this, chain_reverse]
    exact List.reverse_perm _

theorem onSeg_self_right (s v : Pt α) : onSeg s v v = true := by
  have hc : EvenOdd.cross s v v = 0 := by simp only [EvenOdd.cross]; ring
  simp only [onSeg, hc, lt_self_iff_false, not_false_eq_true, and_self, decide_true, Bool.true_and,
    le_refl, and_true, true_and, Bool.and_eq_true, decide_eq_true_eq]
  exact ⟨le_total _ _, le_total _ _⟩

theorem onSeg_self (v p : Pt α) (h : onSeg v v p = true) : p = v := by
  simp only [onSeg, Bool.and_eq_true, decide_eq_true_eq, or_self] at h
  obtain ⟨⟨_, h1⟩, h2⟩ := h
  cases p; cases v
  simp only [Pt.mk.injEq] at *
  exact ⟨le_antisymm h1.2 h1.1, le_antisymm h2.2 h2.1⟩

theorem crossesAbove_self (v p : Pt α) : crossesAbove v v p = false := by
  simp only [crossesAbove, decide_eq_false_iff_not, not_or, not_and]
  constructor
  · intro h1 h2; exact absurd (lt_of_le_of_lt h1 h2) (lt_irrefl _)
  · intro h1 h2; exact absurd (lt_of_le_of_lt h1 h2) (lt_irrefl _)

theorem insideE_cons_self (v : Pt α) (E : List (Pt α × Pt α)) (p : Pt α) (h : ∃ s, (s, v) ∈ E) :
    insideE ((v, v) :: E) p = insideE E p := by
  unfold insideE
  rw [List.any_cons, List.countP_cons, crossesAbove_self]
  simp only [Bool.false_eq_true, if_false, Nat.add_zero]
  congr 1
  cases ho : onSeg v v p with
  | false => rfl
  | true =>
    obtain ⟨s, hs⟩ := h
    have := onSeg_self v p ho
    subst this
    rw [Bool.true_or]
    symm
    rw [List.any_eq_true]
    exact ⟨(s, p), hs, onSeg_self_right s p⟩

theorem inside_close' (v : Pt α) (t : List (Pt α)) (p : Pt α) : inside (v :: t ++ [v]) p = inside (v :: t) p := by
  rw [inside_eq, inside_eq]
  have h1 : edges (v :: t ++ [v]) = (v, v) :: chain (v :: t ++ [v]) := by
    rw [List.cons_append, edges_cons]
    congr 2
    have : ∀ (w : Pt α) (l : List (Pt α)), lastD' w (l ++ [v]) = v := by
      intro w l
      induction l generalizing w with
      | nil => rfl
      | cons b l ih => exact ih b
    exact this v t
  rw [h1, insideE_perm (edges_perm v t) p]
  apply insideE_cons_self
  rw [chain_snoc]
  exact ⟨lastD' v t, by simp⟩

end spec

section spec2
variable {α : Type} [CommRing α] [LinearOrder α] [IsStrictOrderedRing α]

theorem onSeg_iff (s e p : Pt α) : onSeg s e p = true ↔
    EvenOdd.cross s e p = 0 ∧ ((s.x ≤ p.x ∧ p.x ≤ e.x) ∨ (e.x ≤ p.x ∧ p.x ≤ s.x)) ∧
      ((s.y ≤ p.y ∧ p.y ≤ e.y) ∨ (e.y ≤ p.y ∧ p.y ≤ s.y)) := by
  simp only [onSeg, Bool.and_eq_true, decide_eq_true_eq, not_lt, and_assoc]
  constructor
  · rintro ⟨a, b, c⟩; exact ⟨le_antisymm b a, c⟩
  · rintro ⟨a, c⟩; exact ⟨a.ge, a.le, c⟩

theorem crossesAbove_iff (s e p : Pt α) : crossesAbove s e p = true ↔
    ((s.x ≤ p.x ∧ p.x < e.x ∧ EvenOdd.cross s e p < 0) ∨ (e.x ≤ p.x ∧ p.x < s.x ∧ 0 < EvenOdd.cross s e p)) := by
  simp only [crossesAbove, decide_eq_true_eq]

theorem cross_eq (s e p : Pt α) :
    EvenOdd.cross s e p = (e.x - p.x) * (p.y - s.y) + (p.x - s.x) * (p.y - e.y) := by
  simp only [EvenOdd.cross]; ring

theorem mem_edges {s e : Pt α} {r : List (Pt α)} (h : (s, e) ∈ edges r) : s ∈ r ∧ e ∈ r := by
  cases r with
  | nil => simp [edges] at h
  | cons v t =>
    rw [edges_cons, List.mem_cons] at h
    rcases h with h | h
    · rw [Prod.mk.injEq] at h
      rw [h.1, h.2]
      exact ⟨lastD'_mem v t, List.mem_cons_self ..⟩
    · exact mem_chain h

theorem edge_left (s e p : Pt α) (hs : p.x < s.x) (he : p.x < e.x) :
    onSeg s e p = false ∧ crossesAbove s e p = false := by
  constructor
  · rw [← Bool.not_eq_true, onSeg_iff]
    rintro ⟨_, (a | a), _⟩
    · exact absurd (lt_of_lt_of_le hs a.1) (lt_irrefl _)
    · exact absurd (lt_of_lt_of_le he a.1) (lt_irrefl _)
  · rw [← Bool.not_eq_true, crossesAbove_iff]
    rintro (a | a)
    · exact absurd (lt_of_lt_of_le hs a.1) (lt_irrefl _)
    · exact absurd (lt_of_lt_of_le he a.1) (lt_irrefl _)

theorem edge_right (s e p : Pt α) (hs : s.x < p.x) (he : e.x < p.x) :
    onSeg s e p = false ∧ crossesAbove s e p = false := by
  constructor
  · rw [← Bool.not_eq_true, onSeg_iff]
    rintro ⟨_, (a | a), _⟩
    · exact absurd (lt_of_le_of_lt a.2 he) (lt_irrefl _)
    · exact absurd (lt_of_le_of_lt a.2 hs) (lt_irrefl _)
  · rw [← Bool.not_eq_true, crossesAbove_iff]
    rintro (a | a)
    · exact absurd (a.2.1.trans he) (lt_irrefl _)
    · exact absurd (a.2.1.trans hs) (lt_irrefl _)

theorem edge_above (s e p : Pt α) (hs : s.y < p.y) (he : e.y < p.y) :
    onSeg s e p = false ∧ crossesAbove s e p = false := by
  constructor
  · rw [← Bool.not_eq_true, onSeg_iff]
    rintro ⟨_, _, (a | a)⟩
    · exact absurd (lt_of_le_of_lt a.2 he) (lt_irrefl _)
    · exact absurd (lt_of_le_of_lt a.2 hs) (lt_irrefl _)
  · rw [← Bool.not_eq_true, crossesAbove_iff, cross_eq]
    rintro (⟨a, b, c⟩ | ⟨a, b, c⟩)
    · have := mul_pos (sub_pos.mpr b) (sub_pos.mpr hs)
      have := mul_nonneg (sub_nonneg.mpr a) (sub_pos.mpr he).le
      linarith
    · have := mul_nonneg (sub_nonneg.mpr a) (sub_pos.mpr hs).le
      have := mul_pos (sub_pos.mpr b) (sub_pos.mpr he)
      linarith

theorem edge_below (s e p : Pt α) (hs : p.y < s.y) (he : p.y < e.y) :
    onSeg s e p = false ∧ crossesAbove s e p = (decide (s.x ≤ p.x) != decide (e.x ≤ p.x)) := by
  constructor
  · rw [← Bool.not_eq_true, onSeg_iff]
    rintro ⟨_, _, (a | a)⟩
    · exact absurd (lt_of_lt_of_le hs a.1) (lt_irrefl _)
    · exact absurd (lt_of_lt_of_le he a.1) (lt_irrefl _)
  · rw [Bool.eq_iff_iff, crossesAbove_iff, cross_eq]
    simp only [bne_iff_ne, ne_eq, decide_eq_decide]
    constructor
    · rintro (⟨a, b, _⟩ | ⟨a, b, _⟩)
      · intro h; exact absurd (h.1 a) (not_le.mpr b)
      · intro h; exact absurd (h.2 a) (not_le.mpr b)
    · intro h
      by_cases a : s.x ≤ p.x
      · have b : p.x < e.x := not_le.1 (fun q => h ⟨fun _ => q, fun _ => a⟩)
        left
        refine ⟨a, b, ?_⟩
        have := mul_pos (sub_pos.mpr b) (sub_pos.mpr hs)
        have := mul_nonneg (sub_nonneg.mpr a) (sub_pos.mpr he).le
        linarith
      · have a' := not_le.1 a
        have b : e.x ≤ p.x := by
          by_contra q
          exact h ⟨fun x => absurd x a, fun x => absurd x q⟩
        right
        refine ⟨b, a', ?_⟩
        have := mul_nonneg (sub_nonneg.mpr b) (sub_pos.mpr hs).le
        have := mul_pos (sub_pos.mpr a') (sub_pos.mpr he)
        linarith

theorem insideE_false (E : List (Pt α × Pt α)) (p : Pt α)
    (h : ∀ se ∈ E, onSeg se.1 se.2 p = false ∧ crossesAbove se.1 se.2 p = false) : insideE E p = false := by
  unfold insideE
  have h1 : (E.any fun se => onSeg se.1 se.2 p) = false := by
    rw [List.any_eq_false]; intro x hx; rw [(h x hx).1]; simp
  have h2 : (E.countP fun se => crossesAbove se.1 se.2 p) = 0 := by
    rw [List.countP_eq_zero]; intro x hx; rw [(h x hx).2]; simp
  rw [h1, h2]; rfl

theorem inside_below (r : List (Pt α)) (p : Pt α) (h : ∀ v ∈ r, p.y < v.y) : inside r p = false := by
  cases r with
  | nil => rfl
  | cons v t =>
    rw [inside_eq]
    unfold insideE
    have h1 : ((edges (v :: t)).any fun se => onSeg se.1 se.2 p) = false := by
      rw [List.any_eq_false]; intro x hx
      have := mem_edges (s := x.1) (e := x.2) hx
      rw [(edge_below x.1 x.2 p (h _ this.1) (h _ this.2)).1]; simp
    have h2 : ((edges (v :: t)).countP fun se => crossesAbove se.1 se.2 p) =
        (edges (v :: t)).countP fun se => (fun w : Pt α => decide (w.x ≤ p.x)) se.1 != (fun w : Pt α => decide (w.x ≤ p.x)) se.2 := by
      apply List.countP_congr
      intro x hx
      have := mem_edges (s := x.1) (e := x.2) hx
      rw [(edge_below x.1 x.2 p (h _ this.1) (h _ this.2)).2]
    rw [h1, h2, edges_cons, List.countP_cons, Bool.false_or]
    have h3 := chain_changes (fun w : Pt α => decide (w.x ≤ p.x)) v t
    have key : ∀ (a b : Bool) (n : Nat), (n % 2 == 1) = (a != b) →
        ((n + if (b != a) = true then 1 else 0) % 2 == 1) = false := by
      intro a b n h; cases a <;> cases b <;> simp_all [parity_succ]
    exact key _ _ _ h3


theorem inside_of_not_contains (eb : Bound α) (r : List (Pt α)) (p : Pt α) (hr : r ≠ [])
    (h : (multiPointBound eb r).contains p = false) : inside r p = false := by
  have T := (multiPointBound_tight' eb r hr).1
  generalize multiPointBound eb r = B at T h
  have hm : ¬ Mem p B := by rw [← contains_iff', h]; simp
  by_cases c1 : B.lo.x ≤ p.x
  · by_cases c2 : p.x ≤ B.hi.x
    · by_cases c3 : B.lo.y ≤ p.y
      · by_cases c4 : p.y ≤ B.hi.y
        · exact absurd ⟨c1, c2, c3, c4⟩ hm
        · rw [inside_eq]; apply insideE_false
          intro se hse
          have := mem_edges (s := se.1) (e := se.2) hse
          exact edge_above _ _ _ (lt_of_le_of_lt (T _ this.1).2.2.2 (not_le.1 c4))
            (lt_of_le_of_lt (T _ this.2).2.2.2 (not_le.1 c4))
      · apply inside_below
        intro v hv
        exact lt_of_lt_of_le (not_le.1 c3) (T v hv).2.2.1
    · rw [inside_eq]; apply insideE_false
      intro se hse
      have := mem_edges (s := se.1) (e := se.2) hse
      exact edge_right _ _ _ (lt_of_le_of_lt (T _ this.1).2.1 (not_le.1 c2))
        (lt_of_le_of_lt (T _ this.2).2.1 (not_le.1 c2))
  · rw [inside_eq]; apply insideE_false
    intro se hse
    have := mem_edges (s := se.1) (e := se.2) hse
    exact edge_left _ _ _ (lt_of_lt_of_le (not_le.1 c1) (T _ this.1).1)
      (lt_of_lt_of_le (not_le.1 c1) (T _ this.2).1)

end spec2

section model
variable {α : Type} [Field α] [LinearOrder α] [IsStrictOrderedRing α]

theorem ray_swap (p s e : Pt α) (h : e.x < s.x) :
    rayIntersect Nudge.inf p s e = rayIntersect Nudge.inf p e s := by
  unfold rayIntersect
  simp only [h, if_true, not_lt.mpr h.le, if_false]


theorem ray_norm (p s e : Pt α) (h : s.x ≤ e.x) :
    rayIntersect Nudge.inf p s e = if onSeg s e p then (false, true) else (crossesAbove s e p, false) := by
  unfold rayIntersect
  simp only [not_lt.mpr h, if_false, beq_iff_eq]
  rcases lt_trichotomy p.x s.x with h1 | h1 | h1
  · have ho : onSeg s e p = false := by
      rw [← Bool.not_eq_true, onSeg_iff]
      rintro ⟨_, (a | a), _⟩
      · exact absurd (lt_of_lt_of_le h1 a.1) (lt_irrefl _)
      · exact absurd (lt_of_lt_of_le h1 (a.1.trans' h)) (lt_irrefl _)
    have hc : crossesAbove s e p = false := by
      rw [← Bool.not_eq_true, crossesAbove_iff]
      rintro (a | a)
      · exact absurd (lt_of_lt_of_le h1 a.1) (lt_irrefl _)
      · exact absurd (lt_of_lt_of_le h1 (a.1.trans' h)) (lt_irrefl _)
    simp [h1.ne, (lt_of_lt_of_le h1 h).ne, Nudge.inf, h1, ho, hc]
  · by_cases h2 : p.y = s.y
    · have ho : onSeg s e p = true := by
        have : p = s := by cases p; cases s; simp_all
        rw [this, onSeg_swap]; exact onSeg_self_right e s
      simp [h1, h2, ho]
    · by_cases hv : s.x = e.x
      · have hc : crossesAbove s e p = false := by
          rw [← Bool.not_eq_true, crossesAbove_iff]
          rintro (a | a)
          · exact absurd (hv ▸ lt_of_le_of_lt a.1 a.2.1) (lt_irrefl _)
          · exact absurd (hv ▸ lt_of_le_of_lt a.1 a.2.1) (lt_irrefl _)
        have ho : onSeg s e p = true ↔ ((s.y ≤ p.y ∧ p.y ≤ e.y) ∨ (e.y ≤ p.y ∧ p.y ≤ s.y)) := by
          rw [onSeg_iff]
          have : EvenOdd.cross s e p = 0 := by simp only [EvenOdd.cross, h1, ← hv]; ring
          simp [this, h1, ← hv]
        by_cases hB : (e.y < s.y ∧ p.y ≤ s.y ∧ e.y ≤ p.y) ∨ (s.y < e.y ∧ p.y ≤ e.y ∧ s.y ≤ p.y)
        · have ho' : onSeg s e p = true := by
            rw [ho]; rcases hB with a | a
            · exact Or.inr ⟨a.2.2, a.2.1⟩
            · exact Or.inl ⟨a.2.2, a.2.1⟩
          simp [h1, h2, hv, hB, ho', and_assoc]
        · have ho' : onSeg s e p = false := by
            rw [← Bool.not_eq_true, ho]
            rintro (a | a)
            · apply hB; right; exact ⟨lt_of_le_of_ne (a.1.trans a.2) (fun q => h2 (le_antisymm (q ▸ a.2) a.1)), a.2, a.1⟩
            · apply hB; left; exact ⟨lt_of_le_of_ne (a.1.trans a.2) (fun q => h2 (le_antisymm a.2 (q ▸ a.1))), a.2, a.1⟩
          simp [h1, h2, hv, hB, ho', hc, Nudge.inf, and_assoc]
      · have hlt : s.x < e.x := lt_of_le_of_ne h hv
        have hcr : EvenOdd.cross s e p = (e.x - s.x) * (p.y - s.y) := by
          simp only [EvenOdd.cross, h1]; ring
        have hpos : 0 < e.x - s.x := sub_pos.mpr hlt
        have ho : onSeg s e p = false := by
          rw [← Bool.not_eq_true, onSeg_iff, hcr]
          rintro ⟨a, _⟩
          rcases mul_eq_zero.1 a with a | a
          · exact hpos.ne' a
          · exact h2 (sub_eq_zero.1 a)
        have hc : crossesAbove s e p = decide (p.y < s.y) := by
          rw [Bool.eq_iff_iff, crossesAbove_iff, hcr, decide_eq_true_eq, h1]
          constructor
          · rintro (a | a)
            · have := a.2.2
              rw [mul_neg_iff] at this
              rcases this with b | b
              · exact sub_neg.1 b.2
              · exact absurd b.1 (not_lt.mpr hpos.le)
            · exact absurd (lt_of_le_of_lt a.1 a.2.1) (not_lt.mpr h)
          · intro a; left
            exact ⟨le_refl _, hlt, mul_neg_of_pos_of_neg hpos (sub_neg.2 a)⟩
        simp [h1, h2, hv, ho, hc, Nudge.inf, sub_eq_zero, not_le.mpr hlt]
        clear hc ho hcr
        split_ifs <;> grind
  · have hne : p.x ≠ s.x := h1.ne'
    rcases lt_trichotomy p.x e.x with h3 | h3 | h3
    · have hne2 : p.x ≠ e.x := h3.ne
      have hp1 : 0 < p.x - s.x := sub_pos.mpr h1
      have hp2 : 0 < e.x - s.x := sub_pos.mpr (h1.trans h3)
      have hp3 : 0 < e.x - p.x := sub_pos.mpr h3
      have hs1 : (p.y - s.y) / (p.x - s.x) = (e.y - s.y) / (e.x - s.x) ↔ EvenOdd.cross s e p = 0 := by
        rw [div_eq_div_iff hp1.ne' hp2.ne', EvenOdd.cross, sub_eq_zero, mul_comm]
      have hs2 : (p.y - s.y) / (p.x - s.x) ≤ (e.y - s.y) / (e.x - s.x) ↔ EvenOdd.cross s e p ≤ 0 := by
        rw [div_le_div_iff₀ hp1 hp2, EvenOdd.cross, sub_nonpos, mul_comm]
      have ho : onSeg s e p = decide (EvenOdd.cross s e p = 0 ∧
          ((s.y ≤ p.y ∧ p.y ≤ e.y) ∨ (e.y ≤ p.y ∧ p.y ≤ s.y))) := by
        rw [Bool.eq_iff_iff, onSeg_iff, decide_eq_true_eq]
        constructor
        · rintro ⟨a, _, c⟩; exact ⟨a, c⟩
        · rintro ⟨a, c⟩; exact ⟨a, Or.inl ⟨h1.le, h3.le⟩, c⟩
      have hc : crossesAbove s e p = decide (EvenOdd.cross s e p < 0) := by
        rw [Bool.eq_iff_iff, crossesAbove_iff, decide_eq_true_eq]
        constructor
        · rintro (a | a)
          · exact a.2.2
          · exact absurd a.2.1 (not_lt.mpr h1.le)
        · intro a; exact Or.inl ⟨h1.le, h3, a⟩
      have hC1 : s.y < p.y → e.y < s.y → 0 < EvenOdd.cross s e p := by
        intro a b
        rw [EvenOdd.cross]
        have := mul_pos hp2 (sub_pos.mpr a)
        have := mul_pos (sub_pos.mpr b) hp1
        linarith
      have hC2 : p.y < e.y → e.y < s.y → EvenOdd.cross s e p < 0 := by
        intro a b
        rw [cross_eq]
        have := mul_pos hp3 (sub_pos.mpr (a.trans b))
        have := mul_pos hp1 (sub_pos.mpr a)
        linarith
      have hC3 : e.y < p.y → s.y ≤ e.y → 0 < EvenOdd.cross s e p := by
        intro a b
        rw [cross_eq]
        have := mul_pos hp3 (sub_pos.mpr (lt_of_le_of_lt b a))
        have := mul_pos hp1 (sub_pos.mpr a)
        linarith
      have hC4 : p.y < s.y → s.y ≤ e.y → EvenOdd.cross s e p < 0 := by
        intro a b
        rw [cross_eq]
        have := mul_pos hp3 (sub_pos.mpr a)
        have := mul_pos hp1 (sub_pos.mpr (lt_of_lt_of_le a b))
        linarith
      simp only [hne, hne2, if_false, Nudge.inf, not_lt.mpr h1.le, not_lt.mpr h3.le, decide_false,
        Bool.false_and, Bool.or_false, Bool.false_eq_true, beq_iff_eq, hs1, hs2, ho, hc]
      generalize EvenOdd.cross s e p = C at *
      clear hs1 hs2 ho hc
      simp only [decide_eq_true_eq]
      have hd : ¬ C = 0 → decide (C ≤ 0) = decide (C < 0) := fun hz => by simp [le_iff_lt_or_eq, hz]
      split_ifs <;> grind
    · by_cases h2 : p.y = e.y
      · have ho : onSeg s e p = true := by
          have : p = e := by cases p; cases e; simp_all
          rw [this]; exact onSeg_self_right s e
        have hne' : e.x ≠ s.x := h3 ▸ hne
        simp [hne', h3, h2, ho]
      · have hcr : EvenOdd.cross s e p = (e.x - s.x) * (p.y - e.y) := by
          simp only [EvenOdd.cross, h3]; ring
        have hpos : 0 < e.x - s.x := sub_pos.mpr (h3 ▸ h1)
        have ho : onSeg s e p = false := by
          rw [← Bool.not_eq_true, onSeg_iff, hcr]
          rintro ⟨a, _⟩
          rcases mul_eq_zero.1 a with a | a
          · exact hpos.ne' a
          · exact h2 (sub_eq_zero.1 a)
        have hc : crossesAbove s e p = false := by
          rw [← Bool.not_eq_true, crossesAbove_iff]
          rintro (a | a)
          · exact absurd a.2.1 (not_lt.mpr h3.ge)
          · exact absurd a.2.1 (not_lt.mpr h1.le)
        have hne' : e.x ≠ s.x := h3 ▸ hne
        simp [hne', h3, h2, ho, hc, Nudge.inf]
    · have ho : onSeg s e p = false := by
        rw [← Bool.not_eq_true, onSeg_iff]
        rintro ⟨_, (a | a), _⟩
        · exact absurd a.2 (not_le.mpr h3)
        · exact absurd a.2 (not_le.mpr h1)
      have hc : crossesAbove s e p = false := by
        rw [← Bool.not_eq_true, crossesAbove_iff]
        rintro (a | a)
        · exact absurd a.2.1 (not_lt.mpr h3.le)
        · exact absurd a.2.1 (not_lt.mpr h1.le)
      simp [hne, h3.ne', ho, hc, Nudge.inf, h3]


theorem ray_eq (p s e : Pt α) :
    rayIntersect Nudge.inf p s e = if onSeg s e p then (false, true) else (crossesAbove s e p, false) := by
  rcases le_or_gt s.x e.x with h | h
  · exact ray_norm p s e h
  · rw [ray_swap p s e h, ray_norm p e s h.le, onSeg_swap, crossesAbove_swap]

theorem rayIntersect_on' (p s e : Pt α) : (rayIntersect Nudge.inf p s e).2 = onSeg s e p := by
  rw [ray_eq]; cases onSeg s e p <;> rfl

theorem rayIntersect_crosses' (p s e : Pt α) (h : onSeg s e p = false) :
    (rayIntersect Nudge.inf p s e).1 = crossesAbove s e p := by
  rw [ray_eq, h]; rfl

theorem ringLoop_eq (p : Pt α) (l : List (Pt α)) (c : Bool) :
    ringLoop Nudge.inf p l c =
      (((chain l).any fun se => onSeg se.1 se.2 p) ||
        (c != (((chain l).countP fun se => crossesAbove se.1 se.2 p) % 2 == 1))) := by
  induction l generalizing c with
  | nil => simp [ringLoop, chain]
  | cons a l ih =>
    cases l with
    | nil => simp [ringLoop, chain]
    | cons b t =>
      rw [ringLoop, ray_eq, chain, List.any_cons, List.countP_cons]
      cases ho : onSeg a b p with
      | true => simp
      | false =>
        simp only [Bool.false_eq_true, if_false, Bool.false_or]
        rw [ih]
        cases hc : crossesAbove a b p with
        | false => simp
        | true =>
          simp only [if_true, parity_succ]
          generalize (((chain (b :: t)).countP fun se => crossesAbove se.1 se.2 p) % 2 == 1) = d
          cases c <;> cases d <;> rfl


theorem ringContains_iff_inside' (eb : Bound α) (he : eb.isEmpty = true) (r : List (Pt α)) (p : Pt α) :
    ringContains Nudge.inf eb r p = .ok (inside r p) := by
  unfold ringContains
  cases hb : (multiPointBound eb r).contains p with
  | false =>
    simp only [Bool.not_false, if_true]
    cases r with
    | nil => rfl
    | cons v t => rw [inside_of_not_contains eb (v :: t) p (List.cons_ne_nil _ _) hb]
  | true =>
    simp only [Bool.not_true, Bool.false_eq_true, if_false]
    cases r with
    | nil =>
      exfalso
      rw [multiPointBound, contains_iff'] at hb
      exact (isEmpty_iff' eb).1 he ⟨p, hb⟩
    | cons v t =>
      simp only []
      rw [getLast?_getD_eq, ray_eq, inside_eq, edges_cons, insideE, List.any_cons, List.countP_cons,
        onSeg_swap v (lastD' v t) p, crossesAbove_swap v (lastD' v t) p]
      cases ho : onSeg v (lastD' v t) p with
      | true => simp
      | false =>
        simp only [Bool.false_eq_true, if_false, Bool.false_or]
        rw [ringLoop_eq]
        congr 2
        generalize crossesAbove v (lastD' v t) p = c
        generalize ((chain (v :: t)).countP fun se => crossesAbove se.1 se.2 p) = n
        cases c
        · simp
        · simp only [if_true, parity_succ]; cases (n % 2 == 1) <;> rfl

theorem holesLoop_eq (eb : Bound α) (he : eb.isEmpty = true) (p : Pt α) (holes : List (List (Pt α))) :
    holesLoop Nudge.inf eb p holes = .ok (holes.all fun h => !inside h p) := by
  induction holes with
  | nil => rfl
  | cons h t ih =>
    rw [holesLoop, ringContains_iff_inside' eb he, List.all_cons]
    cases inside h p
    · simpa using ih
    · rfl

theorem polygonContains_iff' (eb : Bound α) (he : eb.isEmpty = true) (outer : List (Pt α))
    (holes : List (List (Pt α))) (p : Pt α) :
    polygonContains Nudge.inf eb (outer :: holes) p = .ok (inside outer p && holes.all fun h => !inside h p) := by
  rw [polygonContains, ringContains_iff_inside' eb he]
  cases inside outer p
  · rfl
  · simpa using holesLoop_eq eb he p holes

theorem multiPolygonContains_iff' (eb : Bound α) (he : eb.isEmpty = true) (mp : List (List (List (Pt α))))
    (hne : ∀ pg ∈ mp, pg ≠ []) (p : Pt α) :
    multiPolygonContains Nudge.inf eb mp p = .ok (mp.any fun pg => polyInside pg p) := by
  induction mp with
  | nil => rfl
  | cons pg t ih =>
    cases pg with
    | nil => exact absurd rfl (hne [] (List.mem_cons_self ..))
    | cons outer holes =>
      rw [multiPolygonContains, polygonContains_iff' eb he, List.any_cons]
      have ih' := ih (fun q hq => hne q (List.mem_cons_of_mem _ hq))
      have hp : polyInside (outer :: holes) p = (inside outer p && holes.all fun h => !inside h p) := rfl
      rw [hp]
      cases (inside outer p && holes.all fun h => !inside h p)
      · simpa using ih'
      · rfl

end model

end Orb.Contains
