/-
  The heap-level clip model against the value-level one, for whole geometries
  (`Orb.HeapOps.geometryH` vs `Orb.Clip.geometry`) under separation of the capacity windows.
  Core Lean only.  Re-exported by OrbProofs/C08Heap.lean.
-/
import OrbProofs.C08HeapLemmas

set_option linter.unusedSectionVars false
set_option linter.unusedSimpArgs false

namespace Orb.HeapOps
open Orb Orb.Heap Orb.Core

variable {α : Type}

def DisjL (W1 W2 : List Hdr) : Prop := ∀ h1 ∈ W1, ∀ h2 ∈ W2, WinDisj h1 h2

/-! ### reading through a later step -/

theorem arr_lt_of_WF (σ : Store α) (x : Hdr) (hw : x.WF σ) (hc : 0 < x.cap) : x.arr < σ.length := by
  apply Nat.lt_of_not_le
  intro hge
  have : read σ x.arr = [] := by
    rw [read_eq, List.getElem?_eq_none hge]; rfl
  have h2 := hw.2
  rw [this] at h2
  simp at h2
  omega

theorem readH_of_ext {W : List Hdr} {σ σ' : Store α} (e : Ext W σ σ') (x : Hdr) (hw : x.WF σ)
    (hd : ∀ h ∈ W, WinDisj h x) : readH σ' x = readH σ x := by
  apply List.ext_getElem?
  intro k
  rw [getElem?_readH, getElem?_readH]
  by_cases hk : k < x.len
  · rw [if_pos hk, if_pos hk]
    have hlt := arr_lt_of_WF σ x hw (by have := hw.1; omega)
    apply e.frame _ _ hlt
    intro h hh
    cases hin : h.inWin x.arr (x.off + k) with
    | false => rfl
    | true =>
      exact absurd ⟨hin, (inWin_iff x _ _).2 ⟨rfl, by omega, by have := hw.1; omega⟩⟩ (hd h hh _ _)
  · rw [if_neg hk, if_neg hk]

theorem WF_of_ext {W : List Hdr} {σ σ' : Store α} (e : Ext W σ σ') (x : Hdr) (hw : x.WF σ) : x.WF σ' := by
  refine ⟨hw.1, ?_⟩
  by_cases hc : 0 < x.cap
  · rw [e.size _ (arr_lt_of_WF σ x hw hc)]; exact hw.2
  · have := hw.2
    by_cases hlt : x.arr < σ.length
    · rw [e.size _ hlt]; exact this
    · have h0 : read σ x.arr = [] := by
        rw [read_eq, List.getElem?_eq_none (Nat.le_of_not_lt hlt)]; rfl
      rw [h0] at this
      simp at this
      omega

theorem readH_res_of_ext {W1 W2 : List Hdr} {σ σ1 σ2 : Store α} {x : Hdr}
    (e1 : Ext W1 σ σ1) (hx : ResOK W1 σ σ1 x) (hw1 : ∀ h ∈ W1, h.WF σ) (e : Ext W2 σ1 σ2)
    (hw2 : ∀ h ∈ W2, h.WF σ) (hd : DisjL W1 W2) : readH σ2 x = readH σ1 x := by
  apply List.ext_getElem?
  intro k
  rw [getElem?_readH, getElem?_readH]
  by_cases hk : k < x.len
  · rw [if_pos hk, if_pos hk]
    rcases hx with ⟨h1, h2, h3, h4, h5⟩ | ⟨y, hy, h1, h2, h3, h4⟩
    · apply e.frame _ _ h2
      intro h hh
      cases hin : h.inWin x.arr (x.off + k) with
      | false => rfl
      | true =>
        have hi := (inWin_iff h _ _).1 hin
        have := arr_lt_of_WF σ h (hw2 h hh) (by omega)
        omega
    · have hlt : x.arr < σ1.length := by
        rw [h1]
        exact Nat.lt_of_lt_of_le (arr_lt_of_WF σ y (hw1 y hy) (by omega)) e1.len
      apply e.frame _ _ hlt
      intro h hh
      cases hin : h.inWin x.arr (x.off + k) with
      | false => rfl
      | true =>
        exact absurd ⟨(inWin_iff y _ _).2 ⟨h1.symm, by omega, by omega⟩, hin⟩ (hd y hy h hh _ _)
  · rw [if_neg hk, if_neg hk]

/-! ### the generic threaded loop -/

/-- items processed left to right on the store the previous ones left; `none` results dropped -/
def thread {ι ρ : Type} (step : Store α → ι → Option (Store α × Option ρ)) :
    Store α → List ι → Option (Store α × List ρ)
  | σ, [] => some (σ, [])
  | σ, i :: is =>
    match step σ i with
    | none => none
    | some (σ1, r) =>
      match thread step σ1 is with
      | none => none
      | some (σ2, rs) => some (σ2, match r with | none => rs | some x => x :: rs)

/-- the value-level counterpart: every item's result, `none` results dropped, stuck if one is -/
def specList {V V' : Type} (spec : V → Option (Option V')) : List V → Option (List V')
  | [] => some []
  | v :: vs =>
    match spec v, specList spec vs with
    | some r, some rs => some (match r with | none => rs | some x => x :: rs)
    | _, _ => none

def optHdrs {ρ : Type} (RH : ρ → List Hdr) (r : Option ρ) : List Hdr :=
  match r with | none => [] | some x => RH x

theorem thread_denote {ι ρ V V' : Type}
    (step : Store α → ι → Option (Store α × Option ρ))
    (R W : ι → List Hdr) (RH : ρ → List Hdr) (SepI : ι → Prop)
    (val : Store α → ι → V) (valR : Store α → ρ → V') (spec : V → Option (Option V'))
    (is : List ι)
    (hW : ∀ i ∈ is, ∀ h ∈ W i, h ∈ R i)
    (hgood : ∀ i ∈ is, ∀ σ σ' r, step σ i = some (σ', r) → Good (W i) σ σ' (optHdrs RH r))
    (hden : ∀ i ∈ is, ∀ σ σ' r, step σ i = some (σ', r) → (∀ h ∈ R i, h.WF σ) → SepI i →
      spec (val σ i) = some (r.map (valR σ')))
    (hval : ∀ i ∈ is, ∀ σ σ', (∀ h ∈ R i, readH σ' h = readH σ h) → val σ' i = val σ i)
    (hvalR : ∀ x σ σ', (∀ h ∈ RH x, readH σ' h = readH σ h) → valR σ' x = valR σ x)
    (σ σ' : Store α) (rs : List ρ) (hr : thread step σ is = some (σ', rs))
    (hwf : ∀ i ∈ is, ∀ h ∈ R i, h.WF σ) (hsepI : ∀ i ∈ is, SepI i)
    (hpw : (is.map R).flatten.Pairwise WinDisj) :
    specList spec (is.map (val σ)) = some (rs.map (valR σ')) ∧
    Good (is.map W).flatten σ σ' (rs.map RH).flatten := by
  induction is generalizing σ σ' rs with
  | nil =>
    simp only [thread, Option.some.injEq, Prod.mk.injEq] at hr
    rw [← hr.1, ← hr.2]
    exact ⟨rfl, Good.refl _ _⟩
  | cons i is ih =>
    simp only [thread] at hr
    cases h1 : step σ i with
    | none => simp [h1] at hr
    | some p1 =>
      obtain ⟨σ1, r⟩ := p1
      simp only [h1] at hr
      cases h2 : thread step σ1 is with
      | none => simp [h2] at hr
      | some p2 =>
        obtain ⟨σ2, rs2⟩ := p2
        simp only [h2, Option.some.injEq, Prod.mk.injEq] at hr
        obtain ⟨hr1, hr2⟩ := hr
        subst hr1
        simp only [List.map_cons, List.flatten_cons] at hpw ⊢
        rw [List.pairwise_append] at hpw
        obtain ⟨_, hpw2, hcross⟩ := hpw
        have g1 := hgood i (by simp) σ σ1 r h1
        have hWi : ∀ h ∈ W i, h.WF σ := fun h hh => hwf i (by simp) h (hW i (by simp) h hh)
        -- later items: still well-formed, and they read what they read before
        have hwf1 : ∀ j ∈ is, ∀ h ∈ R j, h.WF σ1 := fun j hj h hh =>
          WF_of_ext g1.1 h (hwf j (List.mem_cons_of_mem _ hj) h hh)
        have hread : ∀ j ∈ is, ∀ h ∈ R j, readH σ1 h = readH σ h := fun j hj h hh =>
          readH_of_ext g1.1 h (hwf j (List.mem_cons_of_mem _ hj) h hh) fun w hw =>
            hcross w (hW i (by simp) w hw) h (List.mem_flatten.2 ⟨R j, List.mem_map.2 ⟨j, hj, rfl⟩, hh⟩)
        have ih' := ih (fun j hj => hW j (List.mem_cons_of_mem _ hj))
          (fun j hj => hgood j (List.mem_cons_of_mem _ hj))
          (fun j hj => hden j (List.mem_cons_of_mem _ hj))
          (fun j hj => hval j (List.mem_cons_of_mem _ hj))
          σ1 σ2 rs2 h2 hwf1 (fun j hj => hsepI j (List.mem_cons_of_mem _ hj)) hpw2
        obtain ⟨ihv, ihg⟩ := ih'
        have hmap : is.map (val σ1) = is.map (val σ) :=
          List.map_congr_left fun j hj => hval j (List.mem_cons_of_mem _ hj) σ σ1 (hread j hj)
        have hA := hden i (by simp) σ σ1 r h1 (hwf i (by simp)) (hsepI i (by simp))
        have hW2 : ∀ h ∈ (is.map W).flatten, h.WF σ := by
          intro h hh
          obtain ⟨l, hl, hhl⟩ := List.mem_flatten.1 hh
          obtain ⟨j, hj, rfl⟩ := List.mem_map.1 hl
          exact hwf j (List.mem_cons_of_mem _ hj) h (hW j (List.mem_cons_of_mem _ hj) h hhl)
        have hD : DisjL (W i) (is.map W).flatten := by
          intro w hw h hh
          obtain ⟨l, hl, hhl⟩ := List.mem_flatten.1 hh
          obtain ⟨j, hj, rfl⟩ := List.mem_map.1 hl
          exact hcross w (hW i (by simp) w hw) h
            (List.mem_flatten.2 ⟨R j, List.mem_map.2 ⟨j, hj, rfl⟩, hW j (List.mem_cons_of_mem _ hj) h hhl⟩)
        refine ⟨?_, ?_⟩
        · simp only [specList]
          rw [hA, ← hmap, ihv]
          simp only
          rw [← hr2]
          cases r with
          | none => rfl
          | some x =>
            simp only [Option.map_some, List.map_cons]
            have : valR σ2 x = valR σ1 x := hvalR x σ1 σ2 fun h hh =>
              readH_res_of_ext g1.1 (g1.2 h hh) hWi ihg.1 hW2 hD
            rw [this]
        · have g := g1.seq ihg
          rw [← hr2]
          refine g.sub fun h hh => ?_
          cases r with
          | none => simpa [optHdrs] using hh
          | some x => simpa [optHdrs] using hh

/-! ### the loops of the model are instances of `thread` -/

section clip
variable [Add α] [Sub α] [Mul α] [Div α] [LT α] [LE α] [DecidableLT α] [DecidableLE α] [BEq α]
  [Min α] [Max α]

theorem holesH_eq_thread (box : Bound α) (hs : List Hdr) (σ : Store α) :
    holesH box σ hs = thread (ringH box) σ hs := by
  induction hs generalizing σ with
  | nil => rfl
  | cons h hs ih =>
    simp only [holesH, thread]
    cases ringH box σ h with
    | none => rfl
    | some p =>
      obtain ⟨σ1, r⟩ := p
      simp only [ih]
      cases thread (ringH box) σ1 hs with
      | none => rfl
      | some q => cases r <;> rfl

theorem multiPolygonH_eq_thread (box : Bound α) (hss : List (List Hdr)) (σ : Store α) :
    multiPolygonH box σ hss = thread (polygonH box) σ hss := by
  induction hss generalizing σ with
  | nil => rfl
  | cons h hs ih =>
    simp only [multiPolygonH, thread]
    cases polygonH box σ h with
    | none => rfl
    | some p =>
      obtain ⟨σ1, r⟩ := p
      simp only [ih]
      cases thread (polygonH box) σ1 hs with
      | none => rfl
      | some q => cases r <;> rfl

theorem collectH_eq_thread (eb box : Bound α) (gs : List (SGeom α)) (σ : Store α) :
    collectH eb box σ gs = thread (geometryH eb box) σ gs := by
  induction gs generalizing σ with
  | nil => rfl
  | cons h hs ih =>
    simp only [collectH, thread]
    cases geometryH eb box σ h with
    | none => rfl
    | some p =>
      obtain ⟨σ1, r⟩ := p
      simp only [ih]
      cases thread (geometryH eb box) σ1 hs with
      | none => rfl
      | some q => cases r <;> rfl

/-! ### the value-level folds are instances of `specList` -/

/-- a result that is the empty list counts as dropped -/
def dropSpec {V γ : Type} (f : V → Option (List γ)) (v : V) : Option (Option (List γ)) :=
  (f v).map fun r => if r.isEmpty then none else some r

theorem foldl_none {V γ : Type} (F : Option (List γ) → V → Option (List γ))
    (hF : ∀ v, F none v = none) (vs : List V) : vs.foldl F none = none := by
  induction vs with
  | nil => rfl
  | cons v vs ih => rw [List.foldl_cons, hF, ih]

theorem foldl_dropSpec {V γ : Type} (f : V → Option (List γ))
    (F : Option (List (List γ)) → V → Option (List (List γ)))
    (hF : ∀ acc v, F acc v = match acc, f v with
      | some res, some [] => some res
      | some res, some x => some (res ++ [x])
      | _, _ => none)
    (vs : List V) (acc : List (List γ)) :
    vs.foldl F (some acc) = (specList (dropSpec f) vs).map (acc ++ ·) := by
  induction vs generalizing acc with
  | nil => simp [specList]
  | cons v vs ih =>
    rw [List.foldl_cons, hF]
    simp only [specList, dropSpec]
    cases hv : f v with
    | none =>
      simp only [Option.map_none]
      have : vs.foldl F none = none := by
        clear ih
        induction vs with
        | nil => rfl
        | cons w ws ihw => rw [List.foldl_cons, hF]; exact ihw
      rw [this]
    | some r =>
      cases r with
      | nil =>
        simp only [Option.map_some, List.isEmpty_nil, if_true]
        rw [ih]
        cases specList (dropSpec f) vs <;> rfl
      | cons a l =>
        simp only [Option.map_some, List.isEmpty_cons, Bool.false_eq_true, if_false]
        rw [ih]
        cases specList (dropSpec f) vs with
        | none => rfl
        | some rs => simp [List.append_assoc]

theorem polygon_eq_specList (box : Bound α) (o : List (Pt α)) (hs : List (List (Pt α))) :
    Clip.polygon box (o :: hs) =
      match Clip.ring box o with
      | none => none
      | some [] => some []
      | some r => (specList (dropSpec (Clip.ring box)) hs).map ([r] ++ ·) := by
  simp only [Clip.polygon]
  cases Clip.ring box o with
  | none => rfl
  | some r =>
    cases r with
    | nil => rfl
    | cons a l =>
      simp only
      exact foldl_dropSpec (Clip.ring box) _ (fun acc v => by
        cases acc <;> cases Clip.ring box v <;> first | rfl | (rename_i x; cases x <;> rfl)) hs [a :: l]

theorem multiPolygon_eq_specList (box : Bound α) (mp : List (List (List (Pt α)))) :
    Clip.multiPolygon box mp = specList (dropSpec (Clip.polygon box)) mp := by
  simp only [Clip.multiPolygon]
  rw [foldl_dropSpec (Clip.polygon box) _ (fun acc v => by
    cases acc <;> cases Clip.polygon box v <;> first | rfl | (rename_i x; cases x <;> rfl)) mp []]
  cases specList (dropSpec (Clip.polygon box)) mp <;> simp

theorem collect_eq_specList (eb box : Bound α) (gs : List (Geom α)) :
    Clip.geometry.collect eb box gs = specList (Clip.geometry eb box) gs := by
  induction gs with
  | nil => rfl
  | cons g gs ih =>
    simp only [Clip.geometry.collect, specList, ih]
    cases Clip.geometry eb box g with
    | none => rfl
    | some r =>
      cases specList (Clip.geometry eb box) gs with
      | none => cases r <;> rfl
      | some rs => cases r <;> rfl

end clip

/-! ### rings, polygons, multi-polygons -/

section levels
variable [Add α] [Sub α] [Mul α] [Div α] [LT α] [LE α] [DecidableLT α] [DecidableLE α] [BEq α]
  [Min α] [Max α]

theorem flatten_map_singleton {β : Type} (l : List β) : (l.map fun x => [x]).flatten = l := by
  induction l with
  | nil => rfl
  | cons a l ih => simp [ih]

theorem ringH_dropSpec (box : Bound α) (σ σ' : Store α) (h : Hdr) (r : Option Hdr) (hw : h.WF σ)
    (hr : ringH box σ h = some (σ', r)) :
    dropSpec (Clip.ring box) (readH σ h) = some (r.map (readH σ')) := by
  unfold dropSpec
  rw [ring_denote' box σ σ' h r hw hr]
  cases r with
  | none => rfl
  | some x =>
    have hne := ringH_some_ne_nil box σ σ' h x hw hr
    simp only [Option.map_some, Option.getD_some]
    cases hx : readH σ' x with
    | nil => exact absurd hx hne
    | cons a l => rfl

theorem holesH_denote (box : Bound α) (hs : List Hdr) (σ σ' : Store α) (rs : List Hdr)
    (hr : holesH box σ hs = some (σ', rs)) (hwf : ∀ h ∈ hs, h.WF σ) (hpw : hs.Pairwise WinDisj) :
    specList (dropSpec (Clip.ring box)) (hs.map (readH σ)) = some (rs.map (readH σ')) := by
  rw [holesH_eq_thread] at hr
  exact (thread_denote (ringH box) (fun h => [h]) (fun h => [h]) (fun h => [h]) (fun _ => True)
    (fun σ h => readH σ h) (fun σ h => readH σ h) (dropSpec (Clip.ring box)) hs
    (fun _ _ h hh => hh)
    (fun i _ σ σ' r h1 => by
      have := ringH_good box σ σ' i r h1
      cases r <;> exact this)
    (fun i _ σ σ' r h1 hw _ => ringH_dropSpec box σ σ' i r (hw i (by simp)) h1)
    (fun i _ σ σ' h => h i (by simp))
    (fun x σ σ' h => h x (by simp))
    σ σ' rs hr (fun i hi h hh => by rw [List.mem_singleton.1 hh]; exact hwf i hi)
    (fun _ _ => True.intro) (by rw [flatten_map_singleton]; exact hpw)).1

theorem polygonH_denote (box : Bound α) (hs : List Hdr) (σ σ' : Store α) (r : Option (List Hdr))
    (hr : polygonH box σ hs = some (σ', r)) (hwf : ∀ h ∈ hs, h.WF σ) (hpw : hs.Pairwise WinDisj) :
    dropSpec (Clip.polygon box) (hs.map (readH σ)) = some (r.map fun l => l.map (readH σ')) := by
  cases hs with
  | nil =>
    simp only [polygonH, Option.some.injEq, Prod.mk.injEq] at hr
    rw [← hr.2]
    rfl
  | cons o holes =>
    simp only [polygonH] at hr
    have hwo := hwf o (by simp)
    rw [List.pairwise_cons] at hpw
    cases h1 : ringH box σ o with
    | none => simp [h1] at hr
    | some p1 =>
      obtain ⟨σ1, r1⟩ := p1
      have hv := ring_denote' box σ σ1 o r1 hwo h1
      unfold dropSpec
      rw [List.map_cons, polygon_eq_specList, hv]
      cases r1 with
      | none =>
        simp only [h1, Option.some.injEq, Prod.mk.injEq] at hr
        rw [← hr.2]
        rfl
      | some x =>
        simp only [h1] at hr
        cases h2 : holesH box σ1 holes with
        | none => simp [h2] at hr
        | some p2 =>
          obtain ⟨σ2, rs⟩ := p2
          simp only [h2, Option.some.injEq, Prod.mk.injEq] at hr
          rw [← hr.1, ← hr.2]
          have g1 := ringH_good box σ σ1 o (some x) h1
          have hwf1 : ∀ h ∈ holes, h.WF σ1 := fun h hh => WF_of_ext g1.1 h (hwf h (List.mem_cons_of_mem _ hh))
          have hd := holesH_denote box holes σ1 σ2 rs h2 hwf1 hpw.2
          have hmap : holes.map (readH σ1) = holes.map (readH σ) :=
            List.map_congr_left fun h hh => readH_of_ext g1.1 h (hwf h (List.mem_cons_of_mem _ hh))
              fun w hw => by rw [List.mem_singleton.1 hw]; exact hpw.1 h hh
          have g2 := holesH_good box holes σ1 σ2 rs h2
          have hx : readH σ2 x = readH σ1 x :=
            readH_res_of_ext g1.1 (g1.2 x (by simp)) (fun h hh => by rw [List.mem_singleton.1 hh]; exact hwo)
              g2.1 (fun h hh => hwf h (List.mem_cons_of_mem _ hh))
              (fun w hw h hh => by rw [List.mem_singleton.1 hw]; exact hpw.1 h hh)
          have hne := ringH_some_ne_nil box σ σ1 o x hwo h1
          simp only [Option.map_some, Option.getD_some]
          rw [← hmap, hd, ← hx]
          cases hrx : readH σ2 x with
          | nil => rw [hx] at hrx; exact absurd hrx hne
          | cons a l => simp [hrx]

theorem multiPolygonH_denote (box : Bound α) (hss : List (List Hdr)) (σ σ' : Store α)
    (rs : List (List Hdr)) (hr : multiPolygonH box σ hss = some (σ', rs))
    (hwf : ∀ hs ∈ hss, ∀ h ∈ hs, h.WF σ) (hpw : hss.flatten.Pairwise WinDisj) :
    specList (dropSpec (Clip.polygon box)) (hss.map fun hs => hs.map (readH σ)) =
      some (rs.map fun l => l.map (readH σ')) := by
  rw [multiPolygonH_eq_thread] at hr
  have hsep : ∀ hs ∈ hss, hs.Pairwise WinDisj := fun hs hh => (List.pairwise_flatten.1 hpw).1 hs hh
  exact (thread_denote (polygonH box) (fun hs => hs) (fun hs => hs) (fun hs => hs)
    (fun hs => hs.Pairwise WinDisj)
    (fun σ hs => hs.map (readH σ)) (fun σ hs => hs.map (readH σ)) (dropSpec (Clip.polygon box)) hss
    (fun _ _ h hh => hh)
    (fun i _ σ σ' r h1 => by
      have := polygonH_good box i σ σ' r h1
      cases r <;> exact this)
    (fun i _ σ σ' r h1 hw hs => polygonH_denote box i σ σ' r h1 hw hs)
    (fun i _ σ σ' h => List.map_congr_left h)
    (fun x σ σ' h => List.map_congr_left h)
    σ σ' rs hr hwf hsep (by rw [List.map_id']; exact hpw)).1

end levels

/-! ### fresh pieces -/

theorem allocsH_fst (σ : Store α) (ls : List (List (Pt α))) : (allocsH σ ls).1 = σ ++ ls := by
  induction ls generalizing σ with
  | nil => simp [allocsH]
  | cons l ls ih => simp [allocsH, ih, allocH]

theorem allocsH_read (σ : Store α) (ls : List (List (Pt α))) :
    (allocsH σ ls).2.map (readH (allocsH σ ls).1) = ls := by
  induction ls generalizing σ with
  | nil => rfl
  | cons l ls ih =>
    simp only [allocsH, List.map_cons]
    rw [ih]
    congr 1
    rw [allocsH_fst]
    simp only [allocH, readH, List.drop_zero, List.append_assoc, List.singleton_append]
    rw [read_append_length, List.take_length]

/-! ### whole geometries -/

section geometry
variable [Add α] [Sub α] [Mul α] [Div α] [LT α] [LE α] [DecidableLT α] [DecidableLE α] [BEq α]
  [Min α] [Max α]

theorem collectH_denote (eb box : Bound α) (gs : List (SGeom α))
    (ih : ∀ g ∈ gs, ∀ (σ σ' : Store α) (r : Option (SGeom α)), geometryH eb box σ g = some (σ', r) →
      (∀ h ∈ hdrs g, h.WF σ) → Sep g → Clip.geometry eb box (denoteS σ g) = some (r.map (denoteS σ')))
    (σ σ' : Store α) (rs : List (SGeom α)) (hr : collectH eb box σ gs = some (σ', rs))
    (hwf : ∀ h ∈ hdrsList gs, h.WF σ) (hpw : (hdrsList gs).Pairwise WinDisj) :
    Clip.geometry.collect eb box (denoteSList σ gs) = some (rs.map (denoteS σ')) := by
  rw [collectH_eq_thread] at hr
  rw [hdrsList_eq] at hpw
  rw [collect_eq_specList, denoteSList_eq_map]
  exact (thread_denote (geometryH eb box) hdrs ringHdrs hdrs Sep denoteS denoteS (Clip.geometry eb box) gs
    (fun g _ => ringHdrs_sub_hdrs g)
    (fun g _ σ σ' r h1 => by
      have := geometryH_good eb box g σ σ' r h1
      cases r <;> exact this)
    ih
    (fun g _ σ σ' h => denoteS_congr σ σ' g h)
    (fun x σ σ' h => denoteS_congr σ σ' x h)
    σ σ' rs hr
    (fun g hg h hh => hwf h (by
      rw [hdrsList_eq]; exact List.mem_flatten.2 ⟨hdrs g, List.mem_map.2 ⟨g, hg, rfl⟩, hh⟩))
    (fun g hg => (List.pairwise_flatten.1 hpw).1 (hdrs g) (List.mem_map.2 ⟨g, hg, rfl⟩))
    hpw).1

theorem clip_denote' (eb box : Bound α) (g : SGeom α) (σ σ' : Store α) (r : Option (SGeom α))
    (hr : geometryH eb box σ g = some (σ', r)) (hwf : ∀ h ∈ hdrs g, h.WF σ) (hsep : Sep g) :
    Clip.geometry eb box (denoteS σ g) = some (r.map (denoteS σ')) := by
  induction g using SGeom.ind generalizing σ σ' r with
  | h1 p =>
    simp only [geometryH] at hr
    simp only [denoteS, Clip.geometry]
    split at hr <;> rename_i hp <;>
      (simp only [Option.some.injEq, Prod.mk.injEq] at hr; rw [← hr.2]; simp only [hp, if_true, if_false]; rfl)
  | h8 a b =>
    simp only [geometryH] at hr
    simp only [denoteS, Clip.geometry]
    split at hr <;> rename_i hp
    · simp only [Option.some.injEq, Prod.mk.injEq] at hr; rw [← hr.2]; simp only [hp, if_true]; rfl
    · simp only [hp, if_false]
      split at hr <;> rename_i hg
      · simp only [Option.some.injEq, Prod.mk.injEq] at hr; rw [← hr.2]; simp only [hg, if_true]; rfl
      · simp only [hg, if_false]
        split at hr <;> rename_i he <;>
          (simp only [Option.some.injEq, Prod.mk.injEq] at hr; rw [← hr.2]; simp only [he, if_true, if_false]; rfl)
  | h2 h =>
    simp only [geometryH] at hr
    simp only [denoteS, Clip.geometry]
    split at hr <;> rename_i hp
    · simp only [Option.some.injEq, Prod.mk.injEq] at hr; rw [← hr.2]; simp only [hp, if_true]; rfl
    · simp only [hp, if_false]
      cases hm : Clip.multiPoint box (readH σ h) with
      | nil =>
        simp only [hm, Option.some.injEq, Prod.mk.injEq] at hr; rw [← hr.2]; rfl
      | cons a l =>
        cases l with
        | nil => simp only [hm, Option.some.injEq, Prod.mk.injEq] at hr; rw [← hr.2]; rfl
        | cons b l =>
          simp only [hm, Option.some.injEq, Prod.mk.injEq] at hr
          rw [← hr.1, ← hr.2]
          simp [denoteS, readH_alloc]
  | h3 h =>
    simp only [geometryH] at hr
    simp only [denoteS, Clip.geometry]
    split at hr <;> rename_i hp
    · simp only [Option.some.injEq, Prod.mk.injEq] at hr; rw [← hr.2]; simp only [hp, if_true]; rfl
    · simp only [hp, if_false]
      cases hm : Clip.line box false (readH σ h) with
      | none => simp [hm] at hr
      | some ls =>
        cases ls with
        | nil => simp only [hm, Option.some.injEq, Prod.mk.injEq] at hr; rw [← hr.2]; rfl
        | cons a l =>
          cases l with
          | nil =>
            simp only [hm, Option.some.injEq, Prod.mk.injEq] at hr
            rw [← hr.1, ← hr.2]
            simp [denoteS, readH_alloc]
          | cons b l =>
            simp only [hm, Option.some.injEq, Prod.mk.injEq] at hr
            rw [← hr.1, ← hr.2]
            simp [denoteS, allocsH_read]
  | h4 hs =>
    simp only [geometryH] at hr
    simp only [denoteS, Clip.geometry]
    split at hr <;> rename_i hp
    · simp only [Option.some.injEq, Prod.mk.injEq] at hr; rw [← hr.2]; simp only [hp, if_true]; rfl
    · simp only [hp, if_false]
      cases hm : Clip.multiLineString box false (hs.map (readH σ)) with
      | none => simp [hm] at hr
      | some ls =>
        cases ls with
        | nil => simp only [hm, Option.some.injEq, Prod.mk.injEq] at hr; rw [← hr.2]; rfl
        | cons a l =>
          cases l with
          | nil =>
            simp only [hm, Option.some.injEq, Prod.mk.injEq] at hr
            rw [← hr.1, ← hr.2]
            simp [denoteS, readH_alloc]
          | cons b l =>
            simp only [hm, Option.some.injEq, Prod.mk.injEq] at hr
            rw [← hr.1, ← hr.2]
            simp [denoteS, allocsH_read]
  | h5 h =>
    simp only [geometryH] at hr
    simp only [denoteS, Clip.geometry]
    have hw := hwf h (by simp [hdrs])
    split at hr <;> rename_i hp
    · simp only [Option.some.injEq, Prod.mk.injEq] at hr; rw [← hr.2]; simp only [hp, if_true]; rfl
    · simp only [hp, if_false]
      cases h1 : ringH box σ h with
      | none => simp [h1] at hr
      | some p1 =>
        obtain ⟨σ1, r1⟩ := p1
        rw [ring_denote' box σ σ1 h r1 hw h1]
        cases r1 with
        | none => simp only [h1, Option.some.injEq, Prod.mk.injEq] at hr; rw [← hr.2]; rfl
        | some x =>
          simp only [h1, Option.some.injEq, Prod.mk.injEq] at hr
          rw [← hr.1, ← hr.2]
          have hne := ringH_some_ne_nil box σ σ1 h x hw h1
          simp only [Option.map_some, Option.getD_some, denoteS]
          cases hx : readH σ1 x with
          | nil => exact absurd hx hne
          | cons a l => rfl
  | h6 hs =>
    simp only [geometryH] at hr
    simp only [denoteS, Clip.geometry]
    split at hr <;> rename_i hp
    · simp only [Option.some.injEq, Prod.mk.injEq] at hr; rw [← hr.2]; simp only [hp, if_true]; rfl
    · simp only [hp, if_false]
      cases h1 : polygonH box σ hs with
      | none => simp [h1] at hr
      | some p1 =>
        obtain ⟨σ1, r1⟩ := p1
        have hd := polygonH_denote box hs σ σ1 r1 h1 (fun h hh => hwf h (by simpa [hdrs] using hh))
          (by simpa [Sep, hdrs] using hsep)
        unfold dropSpec at hd
        cases hv : Clip.polygon box (hs.map (readH σ)) with
        | none => simp [hv] at hd
        | some v =>
          simp only [hv, Option.map_some, Option.some.injEq] at hd
          cases r1 with
          | none =>
            simp only [h1, Option.some.injEq, Prod.mk.injEq] at hr; rw [← hr.2]
            cases v with
            | nil => rfl
            | cons a l => simp at hd
          | some y =>
            simp only [h1, Option.some.injEq, Prod.mk.injEq] at hr
            rw [← hr.1, ← hr.2]
            cases v with
            | nil => simp at hd
            | cons a l =>
              simp only [List.isEmpty_cons, Bool.false_eq_true, if_false, Option.map_some, Option.some.injEq] at hd
              simp [denoteS, hd]
  | h7 hss =>
    simp only [geometryH] at hr
    simp only [denoteS, Clip.geometry]
    split at hr <;> rename_i hp
    · simp only [Option.some.injEq, Prod.mk.injEq] at hr; rw [← hr.2]; simp only [hp, if_true]; rfl
    · simp only [hp, if_false]
      cases h1 : multiPolygonH box σ hss with
      | none => simp [h1] at hr
      | some p1 =>
        obtain ⟨σ1, rs⟩ := p1
        have hd := multiPolygonH_denote box hss σ σ1 rs h1
          (fun hs hhs h hh => hwf h (by simp only [hdrs]; exact List.mem_flatten.2 ⟨hs, hhs, hh⟩))
          (by simpa [Sep, hdrs] using hsep)
        rw [multiPolygon_eq_specList, hd]
        cases rs with
        | nil => simp only [h1, Option.some.injEq, Prod.mk.injEq] at hr; rw [← hr.2]; rfl
        | cons a l =>
          cases l with
          | nil =>
            simp only [h1, Option.some.injEq, Prod.mk.injEq] at hr
            rw [← hr.1, ← hr.2]; rfl
          | cons b l =>
            simp only [h1, Option.some.injEq, Prod.mk.injEq] at hr
            rw [← hr.1, ← hr.2]; rfl
  | hc gs ih =>
    simp only [geometryH] at hr
    simp only [denoteS, Clip.geometry]
    split at hr <;> rename_i hp
    · simp only [Option.some.injEq, Prod.mk.injEq] at hr; rw [← hr.2]; simp only [hp, if_true]; rfl
    · simp only [hp, if_false]
      cases h1 : collectH eb box σ gs with
      | none => simp [h1] at hr
      | some p1 =>
        obtain ⟨σ1, rs⟩ := p1
        rw [collectH_denote eb box gs ih σ σ1 rs h1 (by simpa [hdrs] using hwf) (by simpa [Sep, hdrs] using hsep)]
        cases rs with
        | nil => simp only [h1, Option.some.injEq, Prod.mk.injEq] at hr; rw [← hr.2]; rfl
        | cons a l =>
          cases l with
          | nil =>
            simp only [h1, Option.some.injEq, Prod.mk.injEq] at hr
            rw [← hr.1, ← hr.2]; rfl
          | cons b l =>
            simp only [h1, Option.some.injEq, Prod.mk.injEq] at hr
            rw [← hr.1, ← hr.2]
            simp [denoteS, denoteSList, denoteSList_eq_map]

end geometry

end Orb.HeapOps
