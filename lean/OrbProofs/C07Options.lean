/-
  C07 — the option list of clip.LineString / clip.MultiLineString (model `Orb.Clip.applyOptions`,
  lean/Orb/ClipOptions.lean): the LAST option wins, no option means the closed bound, and the clip
  depends on the list through that value only.  Primed statements, re-exported by OrbProofs/C07.lean.
-/
import Orb.ClipOptions
import OrbProofs.C07Lemmas

set_option linter.unusedSectionVars false

namespace Orb.Clip
open Orb Orb.Core

theorem foldl_apply_openBound (opts : List Opt) (o : Options) :
    (opts.foldl Opt.apply o).openBound = (opts.getLast?.map Opt.yes).getD o.openBound := by
  induction opts generalizing o with
  | nil => rfl
  | cons x xs ih =>
    rw [List.foldl_cons, ih]
    cases xs with
    | nil => cases x; rfl
    | cons y ys =>
      rw [List.getLast?_cons_cons]
      cases h : (y :: ys).getLast? with
      | none => simp [List.getLast?_eq_none_iff] at h
      | some z => rfl

theorem options_none' : applyOptions [] = false := rfl

theorem options_eq_last' (opts : List Opt) : applyOptions opts = (opts.getLast?.map Opt.yes).getD false := by
  unfold applyOptions
  cases opts with
  | nil => rfl
  | cons x xs =>
    have : (x :: xs).length > 0 := by simp
    rw [if_pos this, foldl_apply_openBound]

theorem options_last_wins' (opts : List Opt) (b : Bool) : applyOptions (opts ++ [Opt.openBound b]) = b := by
  rw [options_eq_last']
  simp [Opt.yes]

theorem options_spelling' (o₁ o₂ : List Opt) (h : o₁.getLast?.map Opt.yes = o₂.getLast?.map Opt.yes) :
    applyOptions o₁ = applyOptions o₂ := by
  rw [options_eq_last', options_eq_last', h]

section entry
variable {α : Type} [Add α] [Sub α] [Mul α] [Div α] [LT α] [LE α] [DecidableLT α] [DecidableLE α] [BEq α]
  [Min α] [Max α]

theorem lineStringOpts_eq' (box : Bound α) (opts : List Opt) (ls : List (Pt α)) :
    lineStringOpts box opts ls = line box ((opts.getLast?.map Opt.yes).getD false) ls := by
  unfold lineStringOpts lineString
  rw [options_eq_last']

theorem multiLineStringOpts_eq' (box : Bound α) (opts : List Opt) (mls : List (List (Pt α))) :
    multiLineStringOpts box opts mls = multiLineString box ((opts.getLast?.map Opt.yes).getD false) mls := by
  unfold multiLineStringOpts
  rw [options_eq_last']

end entry

theorem options_override_witness' :
    applyOptions [Opt.openBound true, Opt.openBound false] = false ∧
    applyOptions [Opt.openBound false, Opt.openBound true] = true ∧
    applyOptions [Opt.openBound true] = true ∧ applyOptions [Opt.openBound false] = false := by decide

/-! ### the clauses of `line`, stated for the entry point with its option list -/

section field
variable {α : Type} [Field α] [LinearOrder α] [IsStrictOrderedRing α]

/-- the list asks for the closed bound: it is empty or its last entry is `OpenBound(false)` -/
def AsksClosed (opts : List Opt) : Prop := opts = [] ∨ opts.getLast? = some (Opt.openBound false)

theorem asksClosed_eff (opts : List Opt) (h : AsksClosed opts) : (opts.getLast?.map Opt.yes).getD false = false := by
  rcases h with h | h
  · subst h; rfl
  · rw [h]; rfl

theorem lineStringOpts_closed_exact' (box : Bound α) (hb : BoxOK box) (opts : List Opt) (hc : AsksClosed opts)
    (inp : List (Pt α)) (out : List (List (Pt α))) (h : lineStringOpts box opts inp = some out) :
    ∀ q, OnPieces out q ↔ (OnPath inp q ∧ InBox box q) := by
  rw [lineStringOpts_eq', asksClosed_eff opts hc] at h
  exact clip_exact' box hb inp out h

theorem lineStringOpts_vertices_in_box' (box : Bound α) (hb : BoxOK box) (opts : List Opt)
    (inp : List (Pt α)) (out : List (List (Pt α))) (h : lineStringOpts box opts inp = some out) :
    ∀ piece ∈ out, ∀ v ∈ piece, InBox box v := by
  rw [lineStringOpts_eq'] at h
  exact clip_vertices_in_box' box hb _ inp out h

end field

end Orb.Clip
