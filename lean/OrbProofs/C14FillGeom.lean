/-
  C14 fill, part 2: the geometry behind the scan-line fill (exact arithmetic).

  A segment's DDA visits a chain of cells, each entered at a parameter `τ`; the point `P(τ)` where a cell
  is entered lies in the closed square of the cell left and of the cell entered.  For a query point `q`
  strictly inside the tile `(i, j)` that is NOT visited, the crossings of the horizontal ray from `q`
  are accounted cell by cell (`cell_cross`), and every hand-over between two cells that share the point
  where the path is (`junction`) changes the potential `[cell right of i in row j] ∧ [point below q]`
  exactly by the indicator "transition between (row j, right of i) and row j+1" (`RA`).
-/
import OrbProofs.C14Line
import OrbProofs.C14FillComb

namespace Orb.TileCover
open Orb Orb.Tile

section geom
variable {K : Type} [Field K] [LinearOrder K] [IsStrictOrderedRing K] [FloorRing K]
set_option linter.unusedSectionVars false

/-- the point `(px, py)` lies in the closed square of the cell `c` -/
def InSq (c : ℕ × ℕ) (px py : K) : Prop :=
  (c.1 : K) ≤ px ∧ px ≤ (c.1 : K) + 1 ∧ (c.2 : K) ≤ py ∧ py ≤ (c.2 : K) + 1

/-- the cell is in row `j`, right of column `i` -/
def Rt (i j : ℕ) (c : ℕ × ℕ) : Bool := decide (c.2 = j) && decide (i < c.1)

/-- the side predicate handed to `RA` -/
def rightOf (i : ℕ) : ℕ × ℕ → Bool := fun e => decide (i < e.1)

/-- parity of the number of `RA` transitions along a list of cells -/
def raPar (i j : ℕ) : List (ℕ × ℕ) → Bool
  | a :: b :: t => RA (rightOf i) j a b != raPar i j (b :: t)
  | _ => false

/-- two cells whose closed squares share a point are neighbours (8-neighbourhood or equal) -/
def Near (c c' : ℕ × ℕ) : Prop :=
  c.1 ≤ c'.1 + 1 ∧ c'.1 ≤ c.1 + 1 ∧ c.2 ≤ c'.2 + 1 ∧ c'.2 ≤ c.2 + 1

theorem near_of_inSq {c c' : ℕ × ℕ} {px py : K} (h : InSq c px py) (h' : InSq c' px py) : Near c c' := by
  obtain ⟨a1, a2, a3, a4⟩ := h
  obtain ⟨b1, b2, b3, b4⟩ := h'
  refine ⟨?_, ?_, ?_, ?_⟩
  · have : (c.1 : K) ≤ ((c'.1 + 1 : ℕ) : K) := by push_cast; linarith
    exact_mod_cast this
  · have : (c'.1 : K) ≤ ((c.1 + 1 : ℕ) : K) := by push_cast; linarith
    exact_mod_cast this
  · have : (c.2 : K) ≤ ((c'.2 + 1 : ℕ) : K) := by push_cast; linarith
    exact_mod_cast this
  · have : (c'.2 : K) ≤ ((c.2 + 1 : ℕ) : K) := by push_cast; linarith
    exact_mod_cast this

/-- hand-over between two cells that share the point `(px, py)` -/
theorem junction (i j : ℕ) (q : Pt K) (hqy : (j : K) < q.y ∧ q.y < (j : K) + 1)
    (c c' : ℕ × ℕ) (px py : K) (h : InSq c px py) (h' : InSq c' px py)
    (hc : c ≠ (i, j)) (hc' : c' ≠ (i, j)) :
    ((Rt i j c && decide (q.y < py)) != RA (rightOf i) j c c') = (Rt i j c' && decide (q.y < py)) := by
  obtain ⟨n1, n2, n3, n4⟩ := near_of_inSq h h'
  obtain ⟨a1, a2, a3, a4⟩ := h
  obtain ⟨b1, b2, b3, b4⟩ := h'
  -- a cell of row j+1 forces the point above q; rows j-1 | j force it below
  have f1 : c.2 = j + 1 ∨ c'.2 = j + 1 → q.y < py := by
    rintro (e | e)
    · have : ((c.2 : ℕ) : K) = (j : K) + 1 := by rw [e]; push_cast; ring
      linarith [hqy.2]
    · have : ((c'.2 : ℕ) : K) = (j : K) + 1 := by rw [e]; push_cast; ring
      linarith [hqy.2]
  have f2 : c.2 + 1 = j ∨ c'.2 + 1 = j → ¬ q.y < py := by
    rintro (e | e)
    · have : (c.2 : K) + 1 = (j : K) := by rw [← e]; push_cast; ring
      intro hh; linarith [hqy.1]
    · have : (c'.2 : K) + 1 = (j : K) := by rw [← e]; push_cast; ring
      intro hh; linarith [hqy.1]
  have g1 : ¬ (c.1 = i ∧ c.2 = j) := fun ⟨e1, e2⟩ => hc (Prod.ext e1 e2)
  have g2 : ¬ (c'.1 = i ∧ c'.2 = j) := fun ⟨e1, e2⟩ => hc' (Prod.ext e1 e2)
  simp only [Rt, RA, rightOf]
  by_cases hs : q.y < py
  · have f2' : ¬ (c.2 + 1 = j ∨ c'.2 + 1 = j) := fun hh => f2 hh hs
    by_cases e1 : c.2 = j <;> by_cases e2 : c'.2 = j <;> by_cases e3 : i < c.1 <;> by_cases e4 : i < c'.1 <;>
      by_cases e5 : c.2 = j + 1 <;> by_cases e6 : c'.2 = j + 1
    all_goals simp [*]
    all_goals omega
  · have f1' : ¬ (c.2 = j + 1 ∨ c'.2 = j + 1) := fun hh => hs (f1 hh)
    by_cases e1 : c.2 = j <;> by_cases e2 : c'.2 = j <;> by_cases e3 : i < c.1 <;> by_cases e4 : i < c'.1 <;>
      by_cases e5 : c.2 = j + 1 <;> by_cases e6 : c'.2 = j + 1
    all_goals simp [*]

/-- the point of the segment at parameter `t` -/
def segX (a b : Pt K) (t : K) : K := a.x + t * (b.x - a.x)
def segY (a b : Pt K) (t : K) : K := a.y + t * (b.y - a.y)

/-- abscissa of the crossing of the line `a b` with the horizontal through `q` -/
def xint (q a b : Pt K) : K := a.x + (q.y - a.y) * (b.x - a.x) / (b.y - a.y)

/-- "is the point of parameter `t` below `q`" (the tile `y` axis points down: larger `y`) -/
def sP (q a b : Pt K) (t : K) : Bool := decide (q.y < segY a b t)

/-- a crossing of the horizontal through `q` between two parameters at which the path is in the closed
    square of the same cell `c ≠ (i, j)` happens in row `j`, on the side of `c` -/
theorem cell_cross (i j : ℕ) (q : Pt K) (hqx : (i : K) < q.x ∧ q.x < (i : K) + 1)
    (hqy : (j : K) < q.y ∧ q.y < (j : K) + 1) (a b : Pt K) (c : ℕ × ℕ) (τ τ' : K) (hτ : τ ≤ τ')
    (h : InSq c (segX a b τ) (segY a b τ)) (h' : InSq c (segX a b τ') (segY a b τ'))
    (hc : c ≠ (i, j)) (hne : sP q a b τ ≠ sP q a b τ') :
    Rt i j c = decide (q.x < xint q a b) := by
  obtain ⟨a1, a2, a3, a4⟩ := h
  obtain ⟨b1, b2, b3, b4⟩ := h'
  simp only [segX, segY] at a1 a2 a3 a4 b1 b2 b3 b4
  set dx := b.x - a.x with hdx
  set dy := b.y - a.y with hdy
  have hdy0 : dy ≠ 0 := by
    intro e
    apply hne
    simp only [sP, segY, ← hdy, e, mul_zero]
  -- the parameter of the crossing
  set ts := (q.y - a.y) / dy with hts
  have hyts : a.y + ts * dy = q.y := by
    rw [hts, div_mul_cancel₀ _ hdy0]; ring
  have hxts : xint q a b = a.x + ts * dx := by
    simp only [xint, ← hdx, ← hdy, hts]
    rw [div_mul_eq_mul_div]
  -- τ ≤ ts ≤ τ'
  have hbetween : τ ≤ ts ∧ ts ≤ τ' := by
    simp only [sP, segY, ← hdy] at hne
    rcases lt_or_gt_of_ne hdy0 with hneg | hpos
    · -- decreasing y
      have hmono : ∀ s t : K, s ≤ t → a.y + t * dy ≤ a.y + s * dy := by
        intro s t hst
        have := mul_le_mul_of_nonpos_right hst hneg.le
        linarith
      by_cases h1 : q.y < a.y + τ * dy
      · have h2 : ¬ q.y < a.y + τ' * dy := by
          intro h2; apply hne; simp [h1, h2]
        constructor
        · by_contra hcon
          have := hmono ts τ (not_le.mp hcon).le
          linarith
        · by_contra hcon
          have hlt : τ' < ts := not_le.mp hcon
          have : a.y + ts * dy < a.y + τ' * dy := by
            have := mul_lt_mul_of_neg_right hlt hneg
            linarith
          linarith
      · have h2 : q.y < a.y + τ' * dy := by
          by_contra h2; apply hne; simp [h1, h2]
        exfalso
        have := hmono τ τ' hτ
        linarith
    · have hmono : ∀ s t : K, s ≤ t → a.y + s * dy ≤ a.y + t * dy := by
        intro s t hst
        have := mul_le_mul_of_nonneg_right hst hpos.le
        linarith
      by_cases h1 : q.y < a.y + τ * dy
      · have h2 : ¬ q.y < a.y + τ' * dy := by
          intro h2; apply hne; simp [h1, h2]
        exfalso
        have := hmono τ τ' hτ
        linarith
      · have h2 : q.y < a.y + τ' * dy := by
          by_contra h2; apply hne; simp [h1, h2]
        constructor
        · by_contra hcon
          have hlt : ts < τ := not_le.mp hcon
          have : a.y + ts * dy < a.y + τ * dy := by
            have := mul_lt_mul_of_pos_right hlt hpos
            linarith
          linarith
        · by_contra hcon
          have := hmono τ' ts (not_le.mp hcon).le
          linarith
  obtain ⟨ht1, ht2⟩ := hbetween
  -- the crossing point is in the closed square of c
  have hxin : (c.1 : K) ≤ a.x + ts * dx ∧ a.x + ts * dx ≤ (c.1 : K) + 1 := by
    rcases le_total 0 dx with hd | hd
    · have e1 := mul_le_mul_of_nonneg_right ht1 hd
      have e2 := mul_le_mul_of_nonneg_right ht2 hd
      exact ⟨by linarith, by linarith⟩
    · have e1 := mul_le_mul_of_nonpos_right ht1 hd
      have e2 := mul_le_mul_of_nonpos_right ht2 hd
      exact ⟨by linarith, by linarith⟩
  have hyin : (c.2 : K) ≤ q.y ∧ q.y ≤ (c.2 : K) + 1 := by
    rw [← hyts]
    rcases le_total 0 dy with hd | hd
    · have e1 := mul_le_mul_of_nonneg_right ht1 hd
      have e2 := mul_le_mul_of_nonneg_right ht2 hd
      exact ⟨by linarith, by linarith⟩
    · have e1 := mul_le_mul_of_nonpos_right ht1 hd
      have e2 := mul_le_mul_of_nonpos_right ht2 hd
      exact ⟨by linarith, by linarith⟩
  have hrow : c.2 = j := by
    have e1 : (c.2 : K) < ((j + 1 : ℕ) : K) := by push_cast; linarith [hqy.2]
    have e2 : (j : K) < ((c.2 + 1 : ℕ) : K) := by push_cast; linarith [hqy.1]
    have e1' : c.2 < j + 1 := by exact_mod_cast e1
    have e2' : j < c.2 + 1 := by exact_mod_cast e2
    omega
  have hcol : c.1 ≠ i := fun e => hc (Prod.ext e hrow)
  rw [hxts]
  simp only [Rt, hrow, decide_true, Bool.true_and]
  rcases lt_or_gt_of_ne hcol with hl | hg
  · have : ((c.1 + 1 : ℕ) : K) ≤ (i : K) := by exact_mod_cast hl
    push_cast at this
    have hn : ¬ q.x < a.x + ts * dx := by
      intro hh; linarith [hqx.1]
    have hn' : ¬ i < c.1 := by omega
    simp [hn, hn']
  · have : ((i + 1 : ℕ) : K) ≤ (c.1 : K) := by exact_mod_cast hg
    push_cast at this
    have hn : q.x < a.x + ts * dx := by linarith [hqx.2]
    simp [hn, hg]

/-- a visited cell together with the parameter at which it was entered -/
structure PC (K : Type) where
  c : ℕ × ℕ
  τ : K

/-- last element of a non-empty list given as head and tail -/
def lastOf {β : Type} : β → List β → β
  | v, [] => v
  | _, b :: t => lastOf b t

/-- `v` is entered from `u` at `P(v.τ)`, a point of both closed squares -/
def PLink (a b : Pt K) (u v : PC K) : Prop :=
  u.τ ≤ v.τ ∧ InSq u.c (segX a b v.τ) (segY a b v.τ) ∧ InSq v.c (segX a b v.τ) (segY a b v.τ)

/-- crossing indicator of the part of the segment after parameter `τ` -/
def xFrom (q a b : Pt K) (τ : K) : Bool := (sP q a b τ != sP q a b 1) && decide (q.x < xint q a b)

/-- The potential identity for one segment's chain of cells. -/
theorem pchain_pot (i j : ℕ) (q : Pt K) (hqx : (i : K) < q.x ∧ q.x < (i : K) + 1)
    (hqy : (j : K) < q.y ∧ q.y < (j : K) + 1) (a b : Pt K) :
    ∀ (l : List (PC K)) (u : PC K), List.IsChain (PLink a b) (u :: l) →
      InSq u.c (segX a b u.τ) (segY a b u.τ) → (∀ v ∈ u :: l, v.τ ≤ 1) →
      InSq (lastOf u l).c (segX a b 1) (segY a b 1) →
      (∀ v ∈ u :: l, v.c ≠ (i, j)) →
      (xFrom q a b u.τ != raPar i j ((u :: l).map (·.c))) =
        ((Rt i j (lastOf u l).c && sP q a b 1) != (Rt i j u.c && sP q a b u.τ)) := by
  intro l
  induction l with
  | nil =>
    intro u _ hin h1 hlast hne
    simp only [lastOf] at hlast ⊢
    simp only [List.map_cons, List.map_nil, raPar, xFrom]
    have hu := hne u List.mem_cons_self
    by_cases hs : sP q a b u.τ = sP q a b 1
    · rw [hs]; simp
    · have := cell_cross i j q hqx hqy a b u.c u.τ 1 (h1 u List.mem_cons_self) hin hlast hu hs
      rw [← this]
      revert hs
      cases sP q a b u.τ <;> cases sP q a b 1 <;> cases Rt i j u.c <;> simp
  | cons v l ih =>
    intro u hch hin h1 hlast hne
    have hch' := List.isChain_cons_cons.mp hch
    obtain ⟨⟨hτ, hu2, hv2⟩, hrest⟩ := hch'
    have hu := hne u List.mem_cons_self
    have hv := hne v (List.mem_cons_of_mem _ List.mem_cons_self)
    have IH := ih v hrest hv2 (fun w hw => h1 w (List.mem_cons_of_mem _ hw)) hlast
      (fun w hw => hne w (List.mem_cons_of_mem _ hw))
    have J := junction i j q hqy u.c v.c _ _ hu2 hv2 hu hv
    have C : sP q a b u.τ ≠ sP q a b v.τ → Rt i j u.c = decide (q.x < xint q a b) :=
      cell_cross i j q hqx hqy a b u.c u.τ v.τ hτ hin hu2 hu
    simp only [lastOf]
    simp only [List.map_cons, raPar, xFrom] at IH ⊢
    change ((Rt i j u.c && sP q a b v.τ) != RA (rightOf i) j u.c v.c) = (Rt i j v.c && sP q a b v.τ) at J
    revert IH J C
    generalize sP q a b u.τ = su
    generalize sP q a b v.τ = sv
    generalize sP q a b 1 = s1
    generalize decide (q.x < xint q a b) = R
    generalize Rt i j u.c = Ru
    generalize Rt i j v.c = Rv
    generalize RA (rightOf i) j u.c v.c = RAuv
    generalize raPar i j (v.c :: List.map (fun x => x.c) l) = T'
    generalize Rt i j (lastOf v l).c = L
    cases su <;> cases sv <;> cases s1 <;> cases R <;> cases Ru <;> cases Rv <;> cases RAuv <;>
      cases T' <;> cases L <;> decide

end geom
end Orb.TileCover
