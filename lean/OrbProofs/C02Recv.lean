/-
  C02 — hand-built `geojson.Geometry` values and decode receivers (`Orb.GeoJSONExt`).
  Lemmas; the statements are re-exported by OrbProofs/C02.lean.
-/
import Orb.GeoJSONExt
import OrbProofs.C02Nil

namespace Orb.GeoJSON
open Orb

/-! ### hand-built values -/

/-- `&geojson.Geometry{Coordinates: x}` writes what `NewGeometry(x)` writes — for every kind except a
    collection without members (and the nil interface): `newGeometryMarshallDoc` repeats the
    conversions of `NewGeometry` (ring → polygon, bound → polygon, collection → "geometries"). -/
theorem hand_doc_eq' (c : Codec) (ty : String) (n : NG) (h1 : n.isNilIface = false)
    (h2 : emptyCollCoords n = false) : hgMember c (.mk ty n []) = geomMemberN c n := by
  cases n with
  | nilIface => simp [CoreNil.NGeom.isNilIface] at h1
  | nilCollection => simp [emptyCollCoords] at h2
  | collection gs =>
    cases gs with
    | nil => simp [emptyCollCoords] at h2
    | cons g gs =>
      simp [hgMember, hgMembers, hgBody, hgCoordsPart, geomMemberN, geomMembersN, CoreNil.NGeom.isNilIface]
  | point p => simp [hgMember, hgMembers, hgBody, hgCoordsPart, geomMemberN, CoreNil.NGeom.isNilIface]
  | bound a b => simp [hgMember, hgMembers, hgBody, hgCoordsPart, geomMemberN, CoreNil.NGeom.isNilIface]
  | ring ps => simp [hgMember, hgMembers, hgBody, hgCoordsPart, geomMemberN, CoreNil.NGeom.isNilIface]
  | multiPoint ps =>
    by_cases hc : c = Codec.bson ∧ lenN ps = 0 <;>
      simp [hgMember, hgMembers, hgBody, hgCoordsPart, geomMemberN, coordDoc, CoreNil.NGeom.isNilIface, hc]
  | lineString ps =>
    by_cases hc : c = Codec.bson ∧ lenN ps = 0 <;>
      simp [hgMember, hgMembers, hgBody, hgCoordsPart, geomMemberN, coordDoc, CoreNil.NGeom.isNilIface, hc]
  | multiLineString ps =>
    by_cases hc : c = Codec.bson ∧ lenN ps = 0 <;>
      simp [hgMember, hgMembers, hgBody, hgCoordsPart, geomMemberN, coordDoc, CoreNil.NGeom.isNilIface, hc]
  | polygon ps =>
    by_cases hc : c = Codec.bson ∧ lenN ps = 0 <;>
      simp [hgMember, hgMembers, hgBody, hgCoordsPart, geomMemberN, coordDoc, CoreNil.NGeom.isNilIface, hc]
  | multiPolygon ps =>
    by_cases hc : c = Codec.bson ∧ lenN ps = 0 <;>
      simp [hgMember, hgMembers, hgBody, hgCoordsPart, geomMemberN, coordDoc, CoreNil.NGeom.isNilIface, hc]

/-- the bound arm: the equivalent polygon — one ring of five positions, nested three deep -/
theorem hand_bound_doc' (c : Codec) (ty : String) (a b : Pt UInt64) :
    hgMember c (.mk ty (.bound a b) []) =
      .obj [("type", .str "Polygon"), ("coordinates", .arr [ptsJ (boundRing a b)])] ∧
    wellformed (hgMember c (.mk ty (.bound a b) [])) = true := by
  have h : hgMember c (.mk ty (.bound a b) []) =
      .obj [("type", .str "Polygon"), ("coordinates", .arr [ptsJ (boundRing a b)])] := by
    simp [hgMember, hgMembers, hgBody, hgCoordsPart, CoreNil.NGeom.isNilIface]
  refine ⟨h, ?_⟩
  rw [h]
  simp [wellformed, depthOfType, coordDepth, coordDepth.allDepth, ptsJ, ptJ, boundRing]

/-- the ring arm: the polygon with that one ring -/
theorem hand_ring_doc' (c : Codec) (ty : String) (ps : List (Pt UInt64)) :
    hgMember c (.mk ty (.ring (some ps)) []) =
      .obj [("type", .str "Polygon"), ("coordinates", .arr [ptsJ ps])] := by
  simp [hgMember, hgMembers, hgBody, hgCoordsPart, CoreNil.NGeom.isNilIface, nptsJ]

/-- the `Type` field of the value is never written: the document's type comes from the fields -/
theorem hand_type_ignored' (c : Codec) (ty ty' : String) (n : NG) (gs : List HG) :
    hgMember c (.mk ty n gs) = hgMember c (.mk ty' n gs) := by
  simp [hgMember]

theorem hand_top_bson_eq_member (ty : String) (n : NG) (gs : List HG)
    (h : hgMember .bson (.mk ty n gs) ≠ .null) : hgTopBson (.mk ty n gs) = hgMember .bson (.mk ty n gs) := by
  simp only [hgMember] at h ⊢
  simp only [hgTopBson]
  split at h
  · exact absurd rfl h
  · simp_all

/-- `json.Marshal(g)` / `bson.Marshal(g)` -/
def hgTop (c : Codec) (h : HG) : Json :=
  match c with
  | .json => hgTopJson h
  | .bson => hgTopBson h

theorem isEmptyColl_forgetNil (n : NG) (h : isEmptyColl (forgetNil n) = false) :
    n.isNilIface = false ∧ emptyCollCoords n = false := by
  cases n with
  | collection gs => cases gs <;> simp_all [forgetNil, forgetNils, isEmptyColl, emptyCollCoords, CoreNil.NGeom.isNilIface]
  | _ => simp_all [forgetNil, isEmptyColl, emptyCollCoords, CoreNil.NGeom.isNilIface]

/-- the round-trip clause for a hand-built value that holds one geometry in `Coordinates` -/
theorem hand_roundtrip' (c : Codec) (ty : String) (n : NG) (hok : okG (forgetNil n) = true)
    (hb : c = .json ∨ nonEmptyMulti (forgetNil n) = true) (hne : isEmptyColl (forgetNil n) = false) :
    ∃ v, geomOfDoc c (hgTop c (.mk ty n [])) = .ok v ∧ v.toGeom = canonG (forgetNil n) := by
  obtain ⟨v, hv, hg⟩ := geom_roundtrip_nil' c n hok hb hne
  obtain ⟨h1, h2⟩ := isEmptyColl_forgetNil n hne
  have hm := hand_doc_eq' c ty n h1 h2
  refine ⟨v, ?_, hg⟩
  have hnn : geomMemberN c n ≠ .null := geomMemberN_ne_null c n hok hb hne
  have hd : geomDocN c n = geomMemberN c n := geomDocN_eq_member c n hnn
  have ht : hgTop c (.mk ty n []) = geomMemberN c n := by
    cases c with
    | json => simpa [hgTop, hgTopJson] using hm
    | bson =>
      simp only [hgTop]
      rw [hand_top_bson_eq_member ty n [] (by rw [hm]; exact hnn), hm]
  rw [ht, ← hd]
  exact hv

/-! ### receivers -/

/-- after fix C02-3 every arm assigns both fields: the receiver's history does not matter -/
theorem geom_receiver_any' (old : GRecv) (d : DG) : old.assign d = ({} : GRecv).assign d := by
  cases old with
  | mk ty co ge =>
    cases d with
    | mk v bare =>
      cases v with
      | nilIface => simp [GRecv.assign, GRecv.geometry]
      | nilSlice k => simp [GRecv.assign, GRecv.geometry]
      | val g => cases g <;> simp [GRecv.assign, GRecv.geometry]

theorem geom_receiver_same_arm' (old : GRecv) (d : DG) (_h1 : d.isColl = false → old.geoms = none)
    (_h2 : d.isColl = true → old.coords = none) : old.assign d = ({} : GRecv).assign d :=
  geom_receiver_any' old d

theorem geom_receiver_clean' (c : Codec) (old : GRecv) (j : Json) (_hc : old.coords = none)
    (_hg : old.geoms = none) : geomInto c old j = geomInto c {} j := by
  simp only [geomInto]
  cases decodeGeometry c j with
  | ok d => simp only [Res.map]; rw [geom_receiver_any' old d]
  | err e => rfl
  | panic s => rfl

/-- The full statement "receiver history must not matter" for `(*Geometry).UnmarshalJSON/BSON`. -/
def geom_receiver_history_full : Prop :=
  ∀ (c : Codec) (old r r0 : GRecv) (j : Json),
    geomInto c old j = .ok r → geomInto c {} j = .ok r0 → r.geometry = r0.geometry

/-- … which HOLDS since fix C02-3 (the whole receiver agrees, not only `Geometry()`). -/
theorem geom_receiver_history_full_true' : geom_receiver_history_full := by
  intro c old r r0 j h h0
  simp only [geomInto] at h h0
  cases hd : decodeGeometry c j with
  | ok d =>
    rw [hd] at h h0
    simp only [Res.map] at h h0
    cases h; cases h0
    rw [geom_receiver_any' old d]
  | err e => rw [hd] at h; cases h
  | panic s => rw [hd] at h; cases h

/-- only the "GeometryCollection" arm without a "geometries" member leaves both fields nil -/
theorem finishGeometry_bare (c : Codec) (st : GSt) (d : DG) (h : finishGeometry c st = .ok d)
    (hb : d.bare = true) : d.v = .val (.collection []) := by
  unfold finishGeometry at h
  split at h
  · cases h
  · split at h
    · split at h
      · cases h; rfl
      · split at h
        · cases h
        · split at h
          · cases h; cases hb
          · cases h
          · cases h
    · split at h
      · split at h <;> cases h
      · split at h
        · cases h; cases hb
        · cases h
        · cases h
        · cases h

theorem decodeGeometry_bare (c : Codec) (j : Json) (d : DG) (h : decodeGeometry c j = .ok d)
    (hb : d.bare = true) : d.v = .val (.collection []) := by
  cases j with
  | obj ms =>
    simp only [decodeGeometry] at h
    split at h
    · exact finishGeometry_bare c _ d h hb
    · cases h
    · cases h
  | null => cases c <;> simp [decodeGeometry] at h
  | arr l => cases c <;> simp [decodeGeometry] at h
  | bool b => simp [decodeGeometry] at h
  | num b => simp [decodeGeometry] at h
  | str s => simp [decodeGeometry] at h
  | bad => simp [decodeGeometry] at h

/-- a NEW receiver observes exactly what `geomOfDoc` says: the receiver model extends the decoder
    model, it does not replace it -/
theorem geomInto_fresh' (c : Codec) (j : Json) :
    (geomInto c {} j).map (·.geometry) = geomOfDoc c j := by
  simp only [geomInto, geomOfDoc]
  cases hd : decodeGeometry c j with
  | err e => rfl
  | panic s => rfl
  | ok d =>
    simp only [Res.map]
    congr 1
    cases d with
    | mk v bare =>
      cases v with
      | nilIface => rfl
      | nilSlice k => rfl
      | val g =>
        cases g with
        | collection gs =>
          cases bare with
          | false => rfl
          | true =>
            have := decodeGeometry_bare c j _ hd rfl
            simp only at this
            cases this
            rfl
        | _ => rfl

/-- `Feature`: the receiver's history never matters on success -/
theorem feature_receiver_history' (c : Codec) (rawNull : Bool) (old old' : Feature) (j : Json)
    (h : (featureOfDoc c rawNull j).isOk = true) :
    featureInto c rawNull old j = featureInto c rawNull old' j := by
  simp only [featureInto]
  cases hf : featureOfDoc c rawNull j <;> simp_all [Res.isOk]

theorem fc_receiver_history' (c : Codec) (rawNull : Bool) (old old' : FC) (j : Json) :
    fcInto c rawNull old j = fcInto c rawNull old' j := rfl

theorem typed_receiver_history' (c : Codec) (k : Kind) (old old' : V) (j : Json)
    (h : (typedOfDoc c k j).isOk = true) : typedInto c k old j = typedInto c k old' j := by
  simp only [typedInto]
  cases hf : typedOfDoc c k j <;> simp_all [Res.isOk]

end Orb.GeoJSON
