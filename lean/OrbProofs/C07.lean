/-
  C07 — Line clipping returns exactly the part of the line inside the box.
  PROPERTY THEOREMS about the model `Orb.Clip` (clip/clip.go `line`, `bitCode`, `bitCodeOpen`,
  `intersect`, `push`; clip/helpers.go LineString / MultiLineString).

  The clauses "pieces appear in travel order" and "total length equals the length inside" are proved
  in OrbProofs/C07Order.lean (`clip_order`, `clip_segments`, `clip_length`, `clip_length_sem`), which
  is audited together with this file.

  Coordinates range over an arbitrary ordered field (exact arithmetic; floating-point rounding is
  not modelled).  `BoxOK` = positive width and height.
-/
import OrbProofs.C07Lemmas
import OrbProofs.C07Mls
import OrbProofs.C07Options
import OrbProofs.C07Provenance
import Mathlib.Algebra.Order.Field.Rat
import Mathlib.Tactic.NormNum

namespace Orb.Clip
open Orb Orb.Core

variable {α : Type} [Field α] [LinearOrder α] [IsStrictOrderedRing α]

/-- The Cohen–Sutherland loop never gets stuck (fuel 8 suffices, `intersect` always finds an edge):
    `line` returns a value for every input, in both modes. -/
theorem line_total (box : Bound α) (hb : BoxOK box) (isOpen : Bool) (inp : List (Pt α)) :
    ∃ out, line box isOpen inp = some out := line_total' box hb isOpen inp

/-- Segment level, closed mode: an accepted segment is exactly the part of the segment inside the
    closed box, a rejected one has no point inside. -/
theorem segLoop_closed_spec (box : Bound α) (hb : BoxOK box) (a b : Pt α) :
    (match segLoop box false 8 a b (bitCode box a) (bitCode box b) 0 0 with
     | .accept a' b' _ => InBox box a' ∧ InBox box b' ∧ OnSeg a b a' ∧ OnSeg a b b' ∧
         ∀ q, OnSeg a b q → (InBox box q ↔ OnSeg a' b' q)
     | .reject => ∀ q, OnSeg a b q → ¬ InBox box q
     | .stuck => False) := segLoop_closed_spec' box hb a b

/-- THE ROUNDING GUARDS CHANGE NOTHING over an ordered field.  clip.line clips an end point at most
    twice and then snaps it onto the box (`clampToBound`, added after finding
    C07-corner-rounding-nontermination), and with the open bound keeps a far end that is a vertex on the
    boundary instead of recomputing it.  Started as the outer loop starts it, with either option, the
    model's inner loop equals the loop without counters, clamp branch and own-intersection arm
    (`segLoopU`, OrbProofs/ClipLoop.lean): the clamp branch is unreachable and `intersect` returns that
    vertex — so every theorem of this file speaks about the code as it is. -/
theorem segLoop_guard_unused (box : Bound α) (hb : BoxOK box) (isOpen : Bool) (a b : Pt α) :
    segLoop box isOpen 8 a b (if isOpen then bitCodeOpen box a else bitCode box a)
        (if isOpen then bitCodeOpen box b else bitCode box b) 0 0 =
      segLoopU box 8 a b (if isOpen then bitCodeOpen box a else bitCode box a)
        (if isOpen then bitCodeOpen box b else bitCode box b) := segLoop_guard_unused' box hb isOpen a b

/-- TOTALITY FOR ANY ARITHMETIC (no exactness, no hypothesis on the box): whatever `+ - * / < ≤` do on
    the coordinate type — `Float` with its rounding, NaN and infinities included — the inner loop ends
    within its 8 rounds (at most two clips and one snap per end) and `line` returns a value. -/
theorem line_total_any {β : Type} [Add β] [Sub β] [Mul β] [Div β] [LT β] [LE β] [DecidableLT β]
    [DecidableLE β] [BEq β] [Min β] [Max β] (box : Bound β) (isOpen : Bool) (inp : List (Pt β)) :
    ∃ out, line box isOpen inp = some out := line_total_any' box isOpen inp

/-- … in particular on the floats the implementation runs on. -/
theorem line_total_float (box : Bound Float) (isOpen : Bool) (inp : List (Pt Float)) :
    ∃ out, line box isOpen inp = some out := line_total_any' box isOpen inp

/-- PROVENANCE, FOR ANY ARITHMETIC (no exactness, no hypothesis on the box, either option): every vertex `line`
    returns is an input vertex AS IT IS (a copy: `v ∈ inp`, the same value, no arithmetic touched it) or a
    computed point, which has a coordinate that IS an edge value of the box (`intersect` stores the edge
    value in the clipped coordinate, `clampToBound` stores edge values only).  So a rounding tolerance can
    only ever be owed to the other coordinate of a point on the boundary; a vertex off the boundary must be
    bit-identical to an input vertex (driver clause `vertex-neither-input-nor-on-boundary`, exact). -/
theorem line_vertex_copy_or_computed {β : Type} [Add β] [Sub β] [Mul β] [Div β] [LT β] [LE β] [DecidableLT β]
    [DecidableLE β] [BEq β] [Min β] [Max β] (box : Bound β) (isOpen : Bool) (inp : List (Pt β))
    (out : List (List (Pt β))) (h : line box isOpen inp = some out) :
    ∀ piece ∈ out, ∀ v ∈ piece, v ∈ inp ∨ OnEdgeValue box v := line_prov' box isOpen inp out h

/-- … in particular on the floats the implementation runs on. -/
theorem line_vertex_copy_or_computed_float (box : Bound Float) (isOpen : Bool) (inp : List (Pt Float))
    (out : List (List (Pt Float))) (h : line box isOpen inp = some out) :
    ∀ piece ∈ out, ∀ v ∈ piece, v ∈ inp ∨ OnEdgeValue box v := line_prov' box isOpen inp out h

/-- Every output vertex is inside the closed box (both modes). -/
theorem clip_vertices_in_box (box : Bound α) (hb : BoxOK box) (isOpen : Bool) (inp : List (Pt α))
    (out : List (List (Pt α))) (h : line box isOpen inp = some out) :
    ∀ piece ∈ out, ∀ v ∈ piece, InBox box v := clip_vertices_in_box' box hb isOpen inp out h

/-- Every output vertex lies on the input line (both modes). -/
theorem clip_vertices_on_input (box : Bound α) (hb : BoxOK box) (isOpen : Bool) (inp : List (Pt α))
    (out : List (List (Pt α))) (h : line box isOpen inp = some out) :
    ∀ piece ∈ out, ∀ v ∈ piece, OnPath inp v := clip_vertices_on_input' box hb isOpen inp out h

/-- SOUND AND COMPLETE, closed mode: the pieces together are exactly the set of points of the
    input lying in the closed box — nothing outside, no inside portion missing. -/
theorem clip_exact (box : Bound α) (hb : BoxOK box) (inp : List (Pt α)) (out : List (List (Pt α)))
    (h : line box false inp = some out) :
    ∀ q, OnPieces out q ↔ (OnPath inp q ∧ InBox box q) := clip_exact' box hb inp out h

/-- A line wholly inside the closed box is returned as it is (one piece, same vertices). -/
theorem clip_inside_id (box : Bound α) (hb : BoxOK box) (inp : List (Pt α)) (h2 : 2 ≤ inp.length)
    (hin : ∀ v ∈ inp, InBox box v) : line box false inp = some [inp] := clip_inside_id' box hb inp h2 hin

/-- Clipping a returned piece again returns it unchanged (idempotence). -/
theorem clip_idempotent (box : Bound α) (hb : BoxOK box) (inp : List (Pt α)) (out : List (List (Pt α)))
    (h : line box false inp = some out) : ∀ piece ∈ out, line box false piece = some [piece] :=
  clip_idempotent' box hb inp out h

/-- Nothing inside ⇒ no pieces (`LineString` then returns nil). -/
theorem clip_empty (box : Bound α) (hb : BoxOK box) (inp : List (Pt α))
    (hout : ∀ q, OnPath inp q → ¬ InBox box q) : line box false inp = some [] := clip_empty' box hb inp hout

/-- Open mode, soundness: every point of every piece is in the closed box and on the input, and
    every piece segment minus its endpoints is strictly inside. -/
theorem clip_open_interior (box : Bound α) (hb : BoxOK box) (inp : List (Pt α)) (out : List (List (Pt α)))
    (h : line box true inp = some out) :
    ∀ piece ∈ out, ∀ s ∈ segsOf piece, ∀ t, 0 < t → t < 1 → s.1 ≠ s.2 → InOpenBox box (lerp s.1 s.2 t) :=
  clip_open_interior' box hb inp out h

/-- Open mode, completeness: every point of the input strictly inside the box is on a piece. -/
theorem clip_open_complete (box : Bound α) (hb : BoxOK box) (inp : List (Pt α)) (out : List (List (Pt α)))
    (h : line box true inp = some out) :
    ∀ q, OnPath inp q → InOpenBox box q → OnPieces out q := clip_open_complete' box hb inp out h

/-- Open mode returns zero-length pieces where the line merely touches the boundary from outside
    (known finding C07-open-zero-length-touch): witness on ℚ. -/
theorem clip_open_touch_witness :
    line (⟨⟨1, 1⟩, ⟨2, 3⟩⟩ : Bound ℚ) true [⟨0, 0⟩, ⟨4, 2⟩] = some [[⟨2, 1⟩, ⟨2, 1⟩]] := clip_open_touch_witness'

/-- A line wholly inside is returned as it is ONLY from two vertices on: a one-vertex line string has no
    segment, the loop body never runs and nothing is returned (`clip.LineString` gives nil) — in both
    modes, for every box, also when the vertex lies inside the box.  Likewise for no vertex at all. -/
theorem clip_one_vertex (box : Bound α) (isOpen : Bool) (p : Pt α) : line box isOpen [p] = some [] :=
  clip_one_vertex' box isOpen p

theorem clip_no_vertex (box : Bound α) (isOpen : Bool) : line box isOpen [] = some [] :=
  clip_no_vertex' box isOpen

/-! ### the second entry point, `clip.MultiLineString` -/

/-- CONCATENATION (no hypothesis on the box, both modes): `multiLineString` returns `out` iff every
    member is clipped by `line` with the same option and `out` is the concatenation of the member
    results in member order. -/
theorem mls_concat_iff (box : Bound α) (isOpen : Bool) (mls : List (List (Pt α))) (out : List (List (Pt α))) :
    multiLineString box isOpen mls = some out ↔
      ∃ outs, List.Forall₂ (fun ls o => line box isOpen ls = some o) mls outs ∧ out = outs.flatten :=
  mls_concat_iff' box isOpen mls out

/-- … and for a box of positive size it always returns (never stuck). -/
theorem mls_concat (box : Bound α) (hb : BoxOK box) (isOpen : Bool) (mls : List (List (Pt α))) :
    ∃ outs, List.Forall₂ (fun ls o => line box isOpen ls = some o) mls outs ∧
      multiLineString box isOpen mls = some outs.flatten := mls_concat' box hb isOpen mls

/-- The two entry points agree on a single line string (both modes). -/
theorem mls_singleton (box : Bound α) (isOpen : Bool) (ls : List (Pt α)) :
    multiLineString box isOpen [ls] = line box isOpen ls := mls_singleton' box isOpen ls

/-- Every output vertex of `multiLineString` is inside the closed box (both modes). -/
theorem mls_vertices_in_box (box : Bound α) (hb : BoxOK box) (isOpen : Bool) (mls : List (List (Pt α)))
    (out : List (List (Pt α))) (h : multiLineString box isOpen mls = some out) :
    ∀ piece ∈ out, ∀ v ∈ piece, InBox box v := mls_vertices_in_box' box hb isOpen mls out h

/-- SOUND AND COMPLETE, closed mode, for `multiLineString`: the pieces together are exactly the points
    of the members lying in the closed box. -/
theorem mls_exact (box : Bound α) (hb : BoxOK box) (mls : List (List (Pt α))) (out : List (List (Pt α)))
    (h : multiLineString box false mls = some out) :
    ∀ q, OnPieces out q ↔ ((∃ ls ∈ mls, OnPath ls q) ∧ InBox box q) := mls_exact' box hb mls out h

/-- Open mode, soundness, for `multiLineString`. -/
theorem mls_open_interior (box : Bound α) (hb : BoxOK box) (mls : List (List (Pt α))) (out : List (List (Pt α)))
    (h : multiLineString box true mls = some out) :
    ∀ piece ∈ out, ∀ s ∈ segsOf piece, ∀ t, 0 < t → t < 1 → s.1 ≠ s.2 → InOpenBox box (lerp s.1 s.2 t) :=
  mls_open_interior' box hb mls out h

/-- Open mode, completeness, for `multiLineString`. -/
theorem mls_open_complete (box : Bound α) (hb : BoxOK box) (mls : List (List (Pt α))) (out : List (List (Pt α)))
    (h : multiLineString box true mls = some out) :
    ∀ ls ∈ mls, ∀ q, OnPath ls q → InOpenBox box q → OnPieces out q := mls_open_complete' box hb mls out h

/-- Non-vacuity of the open-mode split on `multiLineString`: a member that never leaves the closed box
    but touches its boundary is split at the touch point (it is not "returned as is"). -/
theorem mls_open_split_witness :
    multiLineString (⟨⟨0, 0⟩, ⟨2, 2⟩⟩ : Bound ℚ) true [[⟨1, 1⟩, ⟨2, 1⟩, ⟨1, 3/2⟩]] =
      some [[⟨1, 1⟩, ⟨2, 1⟩], [⟨2, 1⟩, ⟨1, 3/2⟩]] := mls_open_split_witness'

/-! ### the option list `opts ...Option` of both entry points (clip/options.go; model Orb/ClipOptions.lean)

  `clip.LineString(b, ls, opts...)` / `clip.MultiLineString(b, mls, opts...)` run the options, in list order,
  over a FRESH `options{}` value and pass its flag to `line`: the clip depends on the list through its
  last entry only (no entry: closed bound), and — the value being fresh — on no earlier call.  The
  harness makes the real calls with every spelling of the list (none / one / several / repeated, in every
  order; ops `line`, `mls`: a list spelled out in the case or chosen per case), each preceded by a call with
  the opposite option, and compares them with these definitions. -/

/-- no option: the closed bound -/
theorem options_none : applyOptions [] = false := options_none'

/-- THE LAST OPTION WINS, whatever precedes it -/
theorem options_last_wins (opts : List Opt) (b : Bool) : applyOptions (opts ++ [Opt.openBound b]) = b :=
  options_last_wins' opts b

/-- … i.e. the flag is the argument of the last `OpenBound` of the list, `false` for the empty list -/
theorem options_eq_last (opts : List Opt) : applyOptions opts = (opts.getLast?.map Opt.yes).getD false :=
  options_eq_last' opts

/-- two spellings with the same last entry (or both empty) are the same request -/
theorem options_spelling (o₁ o₂ : List Opt) (h : o₁.getLast?.map Opt.yes = o₂.getLast?.map Opt.yes) :
    applyOptions o₁ = applyOptions o₂ := options_spelling' o₁ o₂ h

/-- `[OpenBound(true), OpenBound(false)]` asks for the closed bound (an override appended to a default),
    `[OpenBound(false), OpenBound(true)]` for the open one -/
theorem options_override_witness :
    applyOptions [Opt.openBound true, Opt.openBound false] = false ∧
    applyOptions [Opt.openBound false, Opt.openBound true] = true ∧
    applyOptions [Opt.openBound true] = true ∧ applyOptions [Opt.openBound false] = false :=
  options_override_witness'

/-- the entry points with their option lists ARE `line` / `multiLineString` at that flag — for any
    arithmetic on the coordinate type -/
theorem lineStringOpts_eq {β : Type} [Add β] [Sub β] [Mul β] [Div β] [LT β] [LE β] [DecidableLT β]
    [DecidableLE β] [BEq β] [Min β] [Max β] (box : Bound β) (opts : List Opt) (ls : List (Pt β)) :
    lineStringOpts box opts ls = line box ((opts.getLast?.map Opt.yes).getD false) ls :=
  lineStringOpts_eq' box opts ls

theorem multiLineStringOpts_eq {β : Type} [Add β] [Sub β] [Mul β] [Div β] [LT β] [LE β] [DecidableLT β]
    [DecidableLE β] [BEq β] [Min β] [Max β] (box : Bound β) (opts : List Opt) (mls : List (List (Pt β))) :
    multiLineStringOpts box opts mls = multiLineString box ((opts.getLast?.map Opt.yes).getD false) mls :=
  multiLineStringOpts_eq' box opts mls

/-- SOUND AND COMPLETE for the entry point as it is called: whenever the option list asks for the closed
    bound (it is empty, or its last entry is `OpenBound(false)` — whatever the earlier entries say) the
    pieces are exactly the points of the input in the closed box -/
theorem lineStringOpts_closed_exact (box : Bound α) (hb : BoxOK box) (opts : List Opt) (hc : AsksClosed opts)
    (inp : List (Pt α)) (out : List (List (Pt α))) (h : lineStringOpts box opts inp = some out) :
    ∀ q, OnPieces out q ↔ (OnPath inp q ∧ InBox box q) := lineStringOpts_closed_exact' box hb opts hc inp out h

/-- every output vertex is in the closed box, for every option list -/
theorem lineStringOpts_vertices_in_box (box : Bound α) (hb : BoxOK box) (opts : List Opt)
    (inp : List (Pt α)) (out : List (List (Pt α))) (h : lineStringOpts box opts inp = some out) :
    ∀ piece ∈ out, ∀ v ∈ piece, InBox box v := lineStringOpts_vertices_in_box' box hb opts inp out h

/-- Non-vacuity: a concrete box and a concrete two-piece clip. -/
example : BoxOK (⟨⟨1, 1⟩, ⟨3, 3⟩⟩ : Bound ℚ) := by constructor <;> norm_num

end Orb.Clip
