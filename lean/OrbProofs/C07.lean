/-
  C07 — Line clipping returns exactly the part of the line inside the box.
  PROPERTY THEOREMS about the model `Orb.Clip` (clip/clip.go `line`, `bitCode`, `bitCodeOpen`,
  `intersect`, `push`; clip/helpers.go LineString / MultiLineString).

  Coordinates range over an arbitrary ordered field (exact arithmetic; floating-point rounding is
  not modelled).  `BoxOK` = positive width and height.
-/
import OrbProofs.C07Lemmas
import Mathlib.Algebra.Order.Field.Rat
import Mathlib.Tactic.NormNum

namespace Orb.Clip
open Orb Orb.Core

variable {α : Type} [Field α] [LinearOrder α] [IsStrictOrderedRing α]

/-- The Cohen–Sutherland loop never gets stuck (fuel 8 suffices, `intersect` always finds an edge):
    `line` returns a value for every input, in both modes. -/
theorem line_total (box : Bound α) (hb : BoxOK box) (isOpen : Bool) (inp : List (Pt α)) :
    ∃ out, line box isOpen inp = some out := line_total' box hb isOpen inp

/-- Segment level, closed mode: an accepted segment is exactly the part of the segment inside the
    closed box, a rejected one has no point inside. -/
theorem segLoop_closed_spec (box : Bound α) (hb : BoxOK box) (a b : Pt α) :
    (match segLoop box 8 a b (bitCode box a) (bitCode box b) with
     | .accept a' b' _ => InBox box a' ∧ InBox box b' ∧ OnSeg a b a' ∧ OnSeg a b b' ∧
         ∀ q, OnSeg a b q → (InBox box q ↔ OnSeg a' b' q)
     | .reject => ∀ q, OnSeg a b q → ¬ InBox box q
     | .stuck => False) := segLoop_closed_spec' box hb a b

/-- Every output vertex is inside the closed box (both modes). -/
theorem clip_vertices_in_box (box : Bound α) (hb : BoxOK box) (isOpen : Bool) (inp : List (Pt α))
    (out : List (List (Pt α))) (h : line box isOpen inp = some out) :
    ∀ piece ∈ out, ∀ v ∈ piece, InBox box v := clip_vertices_in_box' box hb isOpen inp out h

/-- Every output vertex lies on the input line (both modes). -/
theorem clip_vertices_on_input (box : Bound α) (hb : BoxOK box) (isOpen : Bool) (inp : List (Pt α))
    (out : List (List (Pt α))) (h : line box isOpen inp = some out) :
    ∀ piece ∈ out, ∀ v ∈ piece, OnPath inp v := clip_vertices_on_input' box hb isOpen inp out h

/-- SOUND AND COMPLETE, closed mode: the pieces together are exactly the set of points of the
    input lying in the closed box — nothing outside, no inside portion missing. -/
theorem clip_exact (box : Bound α) (hb : BoxOK box) (inp : List (Pt α)) (out : List (List (Pt α)))
    (h : line box false inp = some out) :
    ∀ q, OnPieces out q ↔ (OnPath inp q ∧ InBox box q) := clip_exact' box hb inp out h

/-- A line wholly inside the closed box is returned as it is (one piece, same vertices). -/
theorem clip_inside_id (box : Bound α) (hb : BoxOK box) (inp : List (Pt α)) (h2 : 2 ≤ inp.length)
    (hin : ∀ v ∈ inp, InBox box v) : line box false inp = some [inp] := clip_inside_id' box hb inp h2 hin

/-- Clipping a returned piece again returns it unchanged (idempotence). -/
theorem clip_idempotent (box : Bound α) (hb : BoxOK box) (inp : List (Pt α)) (out : List (List (Pt α)))
    (h : line box false inp = some out) : ∀ piece ∈ out, line box false piece = some [piece] :=
  clip_idempotent' box hb inp out h

/-- Nothing inside ⇒ no pieces (`LineString` then returns nil). -/
theorem clip_empty (box : Bound α) (hb : BoxOK box) (inp : List (Pt α))
    (hout : ∀ q, OnPath inp q → ¬ InBox box q) : line box false inp = some [] := clip_empty' box hb inp hout

/-- Open mode, soundness: every point of every piece is in the closed box and on the input, and
    every piece segment minus its endpoints is strictly inside. -/
theorem clip_open_interior (box : Bound α) (hb : BoxOK box) (inp : List (Pt α)) (out : List (List (Pt α)))
    (h : line box true inp = some out) :
    ∀ piece ∈ out, ∀ s ∈ segsOf piece, ∀ t, 0 < t → t < 1 → s.1 ≠ s.2 → InOpenBox box (lerp s.1 s.2 t) :=
  clip_open_interior' box hb inp out h

/-- Open mode, completeness: every point of the input strictly inside the box is on a piece. -/
theorem clip_open_complete (box : Bound α) (hb : BoxOK box) (inp : List (Pt α)) (out : List (List (Pt α)))
    (h : line box true inp = some out) :
    ∀ q, OnPath inp q → InOpenBox box q → OnPieces out q := clip_open_complete' box hb inp out h

/-- Open mode returns zero-length pieces where the line merely touches the boundary from outside
    (known finding C07-open-zero-length-touch): witness on ℚ. -/
theorem clip_open_touch_witness :
    line (⟨⟨1, 1⟩, ⟨2, 3⟩⟩ : Bound ℚ) true [⟨0, 0⟩, ⟨4, 2⟩] = some [[⟨2, 1⟩, ⟨2, 1⟩]] := clip_open_touch_witness'

/-- "pieces appear in travel order" and "total length equals the length inside" follow from exactness
    plus the order in which pieces are emitted; stated in full, not yet proved. -/
def clip_order_full : Prop :=
  ∀ (box : Bound α) (inp : List (Pt α)) (out : List (List (Pt α))), BoxOK box → line box false inp = some out →
    ∃ idx : List (List (Nat × α)), idx.length = out.length ∧
      -- every output vertex is `lerp in[i] in[i+1] t` for its (i, t), and (i, t) is non-decreasing
      -- lexicographically along each piece and from one piece to the next
      (idx.flatten.Pairwise fun a b => a.1 < b.1 ∨ (a.1 = b.1 ∧ a.2 ≤ b.2))

/-- Non-vacuity: a concrete box and a concrete two-piece clip. -/
example : BoxOK (⟨⟨1, 1⟩, ⟨3, 3⟩⟩ : Bound ℚ) := by constructor <;> norm_num

end Orb.Clip
