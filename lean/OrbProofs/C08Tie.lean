/-
  C08 — translation tie for clip/helpers.go `Bound` (box intersection), `MultiPoint`, `Ring`, `Polygon`,
  `MultiPolygon` (the loops around the opaque `ring()`), and for the two helpers of clip/clip.go that
  `ring()` is built from (`bitCode`, `intersect`).
  `Generated/ClipGo.lean` is REGENERATED from /repo on every run by
  harness/cmd/factgen/translate_float.go.
-/
import Orb.Clip
import Generated.ClipGo
import Orb.LoopForms

namespace Orb.C08Tie
open Orb Orb.Core

set_option linter.unusedSectionVars false

variable {α : Type} [Add α] [Sub α] [Mul α] [Div α] [Neg α] [LT α] [LE α] [DecidableLT α] [DecidableLE α]
  [BEq α] [Min α] [Max α] [OfNat α 0] [OfNat α 1] [OfNat α 2] [OfNat α 6] [NatCast α]

/-- `clip.Bound`, through the regenerated `Bound.IsEmpty` -/
theorem clipBound_tie (b o : Bound α) : Generated.ClipGo.clipBound b o = Clip.clipBound b o := rfl

/-- the inside test of `ring()`: `bitCode(box, p)&edge == 0` -/
theorem ring_inside_tie (box : Bound α) (p : Pt α) (edge : Nat) :
    ((Generated.ClipGo.bitCode box p &&& edge) == 0) = ((Clip.bitCode box p &&& edge) == 0) := by
  have h : Generated.ClipGo.bitCode box p = Clip.bitCode box p := by
    unfold Generated.ClipGo.bitCode Clip.bitCode
    split <;> split <;> (try split) <;> (try split) <;> rfl
  rw [h]

/-- the intersection point `ring()` appends -/
theorem ring_intersect_tie (box : Bound α) (edge : Nat) (a b : Pt α) :
    Generated.ClipGo.intersect box edge a b = Clip.intersect box edge a b := rfl

/-! ### clip/helpers.go: MultiPoint, Ring, Polygon, MultiPolygon

`MultiPoint`: `for _, p := range mp { if b.Contains(p) { result = append(result, p) } }` is a `List.foldl`
that `Orb.LoopForms.foldl_filter` turns into the model's `List.filter`.

`Ring`, `Polygon`, `MultiPolygon` are translated with the Sutherland–Hodgman pass `ring(box, in)` left
opaque (the explicit function parameter `ring`); a nil slice is the empty list, and the tests `r == nil`,
`p != nil` are translated (as `isEmpty`) only because the translator has checked that these values are
nil exactly when they are empty.  The model's `Clip.ring` answers `Option` (`none` = `panic("no edge??")`);
the ties hold for every `ringF` that `Clip.ring box` is `some ∘ ringF box`. -/

open Orb.LoopForms

theorem clipMultiPoint_tie (b : Bound α) (mp : List (Pt α)) :
    Generated.ClipGo.clipMultiPoint b mp = Clip.multiPoint b mp := by
  show List.foldl _ [] mp = _
  rw [foldl_filter (fun p => Generated.BoundGo.boundContains b p) mp []]
  rfl

/-- `clip.Ring` only turns an empty result into nil (the same list) -/
theorem clipRing_tie (ringF : Bound α → List (Pt α) → List (Pt α)) (b : Bound α) (r : List (Pt α)) :
    Generated.ClipGo.clipRing ringF b r = ringF b r := by
  unfold Generated.ClipGo.clipRing
  cases ringF b r with
  | nil => rfl
  | cons x t => rfl

theorem clipRing_fn (ringF : Bound α → List (Pt α) → List (Pt α)) : Generated.ClipGo.clipRing ringF = ringF := by
  funext b r; exact clipRing_tie ringF b r

/-- the loops `for … { x := F(…); if x != nil { result = append(result, x) } }` of `Polygon` and
    `MultiPolygon`, against a fold over `Option` whose step `g` keeps `some` and appends the non-empty results -/
theorem clipLoop_eq {β γ : Type} (g : Option (List (List γ)) → β → Option (List (List γ))) (f : β → List γ)
    (hg : ∀ res x, g (some res) x = some (if !(f x).isEmpty then res ++ [f x] else res))
    (xs : List β) (acc : List (List γ)) :
    xs.foldl g (some acc)
      = some (List.foldl (fun (result : List (List γ)) (x : β) =>
          let r : List γ := f x
          if !r.isEmpty then result ++ [r] else result) acc xs) := by
  induction xs generalizing acc with
  | nil => rfl
  | cons x t ih =>
    simp only [List.foldl_cons, hg]
    exact ih _

/-- `clip.Polygon` -/
theorem clipPolygon_tie (ringF : Bound α → List (Pt α) → List (Pt α)) (box : Bound α)
    (hr : ∀ r, Clip.ring box r = some (ringF box r)) (p : List (List (Pt α))) :
    Clip.polygon box p = some (Generated.ClipGo.clipPolygon ringF box p) := by
  cases p with
  | nil => rfl
  | cons outer holes =>
    unfold Generated.ClipGo.clipPolygon Clip.polygon
    rw [clipRing_fn]
    simp only [List.length_cons, Nat.succ_ne_zero, ↓reduceIte, List.getD_cons_zero, List.drop_one, List.tail_cons]
    rw [hr outer]
    cases ringF box outer with
    | nil => rfl
    | cons x u =>
      simp only [List.isEmpty_cons, Bool.false_eq_true, ↓reduceIte]
      refine clipLoop_eq _ (ringF box) (fun res h => ?_) holes _
      simp only [hr h]
      cases ringF box h <;> rfl

/-- `clip.MultiPolygon` -/
theorem clipMultiPolygon_tie (ringF : Bound α → List (Pt α) → List (Pt α)) (box : Bound α)
    (hr : ∀ r, Clip.ring box r = some (ringF box r)) (mp : List (List (List (Pt α)))) :
    Clip.multiPolygon box mp = some (Generated.ClipGo.clipMultiPolygon ringF box mp) := by
  unfold Clip.multiPolygon Generated.ClipGo.clipMultiPolygon
  refine clipLoop_eq _ (Generated.ClipGo.clipPolygon ringF box) (fun res pg => ?_) mp []
  simp only [clipPolygon_tie ringF box hr pg]
  cases Generated.ClipGo.clipPolygon ringF box pg <;> rfl

theorem clip_helpers_translated :
    "clipMultiPoint" ∈ Generated.ClipGo.translated ∧ "clipRing" ∈ Generated.ClipGo.translated ∧
    "clipPolygon" ∈ Generated.ClipGo.translated ∧ "clipMultiPolygon" ∈ Generated.ClipGo.translated := by
  decide

end Orb.C08Tie
