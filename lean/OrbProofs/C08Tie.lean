/-
  C08 — translation tie for clip/helpers.go `Bound` (box intersection) and for the two helpers
  of clip/clip.go that `ring()` is built from (`bitCode`, `intersect`).
  `Generated/ClipGo.lean` is REGENERATED from /repo on every run by
  harness/cmd/factgen/translate_float.go.
-/
import Orb.Clip
import Generated.ClipGo

namespace Orb.C08Tie
open Orb Orb.Core

set_option linter.unusedSectionVars false

variable {α : Type} [Add α] [Sub α] [Mul α] [Div α] [Neg α] [LT α] [LE α] [DecidableLT α] [DecidableLE α]
  [BEq α] [Min α] [Max α] [OfNat α 0] [OfNat α 1] [OfNat α 2] [OfNat α 6] [NatCast α]

/-- `clip.Bound`, through the regenerated `Bound.IsEmpty` -/
theorem clipBound_tie (b o : Bound α) : Generated.ClipGo.clipBound b o = Clip.clipBound b o := rfl

/-- the inside test of `ring()`: `bitCode(box, p)&edge == 0` -/
theorem ring_inside_tie (box : Bound α) (p : Pt α) (edge : Nat) :
    ((Generated.ClipGo.bitCode box p &&& edge) == 0) = ((Clip.bitCode box p &&& edge) == 0) := by
  have h : Generated.ClipGo.bitCode box p = Clip.bitCode box p := by
    unfold Generated.ClipGo.bitCode Clip.bitCode
    split <;> split <;> (try split) <;> (try split) <;> rfl
  rw [h]

/-- the intersection point `ring()` appends -/
theorem ring_intersect_tie (box : Bound α) (edge : Nat) (a b : Pt α) :
    Generated.ClipGo.intersect box edge a b = Clip.intersect box edge a b := rfl

end Orb.C08Tie
