/-
  C08 (area) — `sh_area_additive`: the signed shoelace area of the Sutherland–Hodgman clip of a closed
  ring against a box is the sum of the areas of its clips against the two halves of the box, for a
  vertical split (`sh_area_additive_x`) and for a horizontal split (`sh_area_additive_y`).

  Route: `ring_area2` (C08RegionAreaRing) turns each of the three areas into a sum over the INPUT edges
  of the per-edge functional `G box' a b` (the shoelace form over the edge clamped to `box'`); the
  per-edge identity `G box = G lower + G upper − c·(κ b − κ a)` (`split_edge`, abstract in the pair of
  clamps that is split) is proved from the split-additivity of the pulled-back shoelace form
  (C08RegionAreaSplit); the correction term is a coboundary and sums to zero round the closed input.
  Fully proved; axioms: propext, Classical.choice, Quot.sound.
-/
import OrbProofs.C08RegionAreaSplit

namespace Orb.Clip.C08R
open Orb Orb.EvenOdd Orb.Contains Orb.Clip Orb.Clip.C08
open Orb.Core hiding chain

set_option linter.unusedSectionVars false
set_option linter.unusedSimpArgs false
set_option linter.unusedVariables false

variable {α : Type} [Field α] [LinearOrder α] [IsStrictOrderedRing α]

theorem pullK_sub (box : Bound α) (k : Nat) (w w' : Pt α → Pt α → α) (a b : Pt α) :
    pullK box k (fun a b => w a b - w' a b) a b = pullK box k w a b - pullK box k w' a b := by
  unfold pullK pull; split_ifs <;> ring

theorem pullK_congr (box : Bound α) (k : Nat) {w w' : Pt α → Pt α → α} (h : ∀ a b, w a b = w' a b) (a b : Pt α) :
    pullK box k w a b = pullK box k w' a b := by
  have : w = w' := by funext a b; exact h a b
  rw [this]

/-- the pull-back of a coboundary is a coboundary -/
theorem pullK_cob (box : Bound α) (k : Nat) (h : Pt α → α) (a b : Pt α) :
    pullK box k (fun a b => h b - h a) a b = h (projK box k b) - h (projK box k a) := by
  unfold pullK pull; split_ifs <;> ring

theorem exc_projK_le (box : Bound α) {k : Nat} (hk : Edge k) (p : Pt α) : exc box k (projK box k p) ≤ 0 := by
  unfold projK; split_ifs with h
  · exact h
  · exact (exc_flatK box hk p).le

/-! ### the abstract split of one pair of opposite clamps

  `k1` is the lower edge (left / bottom) and `k2` the upper edge (right / top) of `box`; `BL` is the lower
  half of the box (its `k2` line is the split line), `BR` the upper half (its `k1` line is the split line).
  `V0` is the functional that remains to be pulled back through the two clamps. -/

structure SplitCfg (box BL BR : Bound α) (k1 k2 : Nat) (V0 : Pt α → Pt α → α) (κ : Pt α → α) (c : α) : Prop where
  e1 : Edge k1
  e2 : Edge k2
  hneg : ∀ p, exc BR k1 p = - exc BL k2 p
  hcross : ∀ a b, Orb.Clip.cross BR k1 a b = Orb.Clip.cross BL k2 a b
  hflat : ∀ p, flatK BR k1 p = flatK BL k2 p
  hmhi : ∀ p, exc BL k2 p ≤ 0 → exc box k2 p ≤ 0
  hlom : ∀ p, 0 ≤ exc box k1 p → exc BL k2 p ≤ 0
  hV : SplitAdd V0
  hlin : ∀ u v, exc BL k2 u = 0 → exc BL k2 v = 0 → V0 u v = c * (κ v - κ u)
  hκ : ∀ p, κ (flatK BL k2 p) = κ p

section split
variable {box BL BR : Bound α} {k1 k2 : Nat} {V0 : Pt α → Pt α → α} {κ : Pt α → α} {c : α}

/-- on the split line the once-pulled functional is still `c` times the coboundary of `κ` -/
theorem SplitCfg.W_line (S : SplitCfg box BL BR k1 k2 V0 κ c) (u v : Pt α) (hu : exc BL k2 u = 0)
    (hv : exc BL k2 v = 0) : pullK box k2 V0 u v = c * (κ v - κ u) := by
  rw [pullK_inside box k2 V0 u v (S.hmhi u hu.le) (S.hmhi v hv.le)]
  exact S.hlin u v hu hv

/-- a clamp onto the split line, applied to an edge wholly on its dropped closed side, leaves only the
    coboundary term -/
theorem SplitCfg.pull_line (S : SplitCfg box BL BR k1 k2 V0 κ c) (B' : Bound α) {k' : Nat} (hk' : Edge k')
    (hon : ∀ p, exc B' k' p = 0 → exc BL k2 p = 0) (hfl : ∀ p, flatK B' k' p = flatK BL k2 p)
    (a b : Pt α) (ha : 0 ≤ exc B' k' a) (hb : 0 ≤ exc B' k' b) :
    pullK B' k' (pullK box k2 V0) a b = c * (κ b - κ a) := by
  have hpa : projK B' k' a = flatK B' k' a := projK_of_nonneg B' hk' ha
  have hpb : projK B' k' b = flatK B' k' b := projK_of_nonneg B' hk' hb
  have hza : exc BL k2 (flatK B' k' a) = 0 := hon _ (exc_flatK B' hk' a)
  have hzb : exc BL k2 (flatK B' k' b) = 0 := hon _ (exc_flatK B' hk' b)
  have hκa : κ (flatK B' k' a) = κ a := by rw [hfl, S.hκ]
  have hκb : κ (flatK B' k' b) = κ b := by rw [hfl, S.hκ]
  by_cases hab : insK B' k' a = insK B' k' b
  · rw [pullK_same B' k' _ hab, hpa, hpb, S.W_line _ _ hza hzb, hκa, hκb]
  · obtain ⟨T, _, _, _, hxz⟩ := cross_param B' hk' a b hab
    rw [pullK_diff B' k' _ hab, hpa, hpb, S.W_line _ _ hza (hon _ hxz), S.W_line _ _ (hon _ hxz) hzb, hκa, hκb]
    ring

/-- Claim B: the two complementary clamps at the split line -/
theorem SplitCfg.compl (S : SplitCfg box BL BR k1 k2 V0 κ c) (a b : Pt α) :
    pullK BR k1 (pullK box k2 V0) a b + pullK BL k2 (pullK box k2 V0) a b =
      pullK box k2 V0 a b + c * (κ b - κ a) := by
  have hW : SplitAdd (pullK box k2 V0) := splitAdd_pullK box S.e2 S.hV
  have onR : ∀ p, exc BR k1 p = 0 → exc BL k2 p = 0 := fun p h => by
    have := S.hneg p; linarith
  have lineL := S.pull_line BL S.e2 (fun _ h => h) (fun _ => rfl)
  have lineR := S.pull_line BR S.e1 onR S.hflat
  rcases le_total (exc BL k2 a) 0 with ha | ha <;> rcases le_total (exc BL k2 b) 0 with hb | hb
  · -- both on the lower side
    rw [pullK_inside BL k2 _ a b ha hb,
      lineR a b (by rw [S.hneg]; linarith) (by rw [S.hneg]; linarith)]
    ring
  · -- `a` lower, `b` upper
    rcases eq_or_lt_of_le ha with ha0 | ha0
    · rw [lineL a b ha0.ge hb, pullK_inside BR k1 _ a b (by rw [S.hneg]; linarith) (by rw [S.hneg]; linarith)]
    rcases eq_or_lt_of_le hb with hb0 | hb0
    · rw [pullK_inside BL k2 _ a b ha hb0.symm.le,
        lineR a b (by rw [S.hneg]; linarith) (by rw [S.hneg]; linarith)]
      ring
    have hLne : insK BL k2 a ≠ insK BL k2 b := by
      rw [insK_true.2 ha, insK_false.2 hb0]; simp
    have hRne : insK BR k1 a ≠ insK BR k1 b := by
      rw [insK_false.2 (by rw [S.hneg]; linarith), insK_true.2 (by rw [S.hneg]; linarith)]; simp
    obtain ⟨T, T0, T1, hx, hxz⟩ := cross_param BL S.e2 a b hLne
    have hseg : OnSeg a b (Orb.Clip.cross BL k2 a b) := ⟨T, T0, T1, hx⟩
    have hzb : exc BL k2 (flatK BL k2 b) = 0 := exc_flatK BL S.e2 b
    have hza : exc BL k2 (flatK BL k2 a) = 0 := exc_flatK BL S.e2 a
    rw [pullK_diff BL k2 _ hLne, pullK_diff BR k1 _ hRne, S.hcross,
      projK_of_nonpos BL k2 ha, projK_of_nonneg BL S.e2 hb,
      projK_of_nonneg BR S.e1 (by rw [S.hneg]; linarith), projK_of_nonpos BR k1 (by rw [S.hneg]; linarith),
      S.hflat, S.W_line _ _ hxz hzb, S.W_line _ _ hza hxz, S.hκ, S.hκ, hW a b _ hseg]
    ring
  · -- `a` upper, `b` lower
    rcases eq_or_lt_of_le hb with hb0 | hb0
    · rw [lineL a b ha hb0.ge, pullK_inside BR k1 _ a b (by rw [S.hneg]; linarith) (by rw [S.hneg]; linarith)]
    rcases eq_or_lt_of_le ha with ha0 | ha0
    · rw [pullK_inside BL k2 _ a b ha0.symm.le hb,
        lineR a b (by rw [S.hneg]; linarith) (by rw [S.hneg]; linarith)]
      ring
    have hLne : insK BL k2 a ≠ insK BL k2 b := by
      rw [insK_false.2 ha0, insK_true.2 hb]; simp
    have hRne : insK BR k1 a ≠ insK BR k1 b := by
      rw [insK_true.2 (by rw [S.hneg]; linarith), insK_false.2 (by rw [S.hneg]; linarith)]; simp
    obtain ⟨T, T0, T1, hx, hxz⟩ := cross_param BL S.e2 a b hLne
    have hseg : OnSeg a b (Orb.Clip.cross BL k2 a b) := ⟨T, T0, T1, hx⟩
    have hzb : exc BL k2 (flatK BL k2 b) = 0 := exc_flatK BL S.e2 b
    have hza : exc BL k2 (flatK BL k2 a) = 0 := exc_flatK BL S.e2 a
    rw [pullK_diff BL k2 _ hLne, pullK_diff BR k1 _ hRne, S.hcross,
      projK_of_nonneg BL S.e2 ha, projK_of_nonpos BL k2 hb,
      projK_of_nonpos BR k1 (by rw [S.hneg]; linarith), projK_of_nonneg BR S.e1 (by rw [S.hneg]; linarith),
      S.hflat, S.W_line _ _ hza hxz, S.W_line _ _ hxz hzb, S.hκ, S.hκ, hW a b _ hseg]
    ring
  · -- both on the upper side
    rw [lineL a b ha hb, pullK_inside BR k1 _ a b (by rw [S.hneg]; linarith) (by rw [S.hneg]; linarith)]

/-- Claim C: clamping to the split line first makes the clamp to the far line vacuous -/
theorem SplitCfg.absorb (S : SplitCfg box BL BR k1 k2 V0 κ c) (a b : Pt α) :
    pullK BL k2 (pullK box k2 V0) a b = pullK BL k2 V0 a b := by
  have hin : ∀ u v, exc BL k2 u ≤ 0 → exc BL k2 v ≤ 0 → pullK box k2 V0 u v = V0 u v :=
    fun u v hu hv => pullK_inside box k2 V0 u v (S.hmhi u hu) (S.hmhi v hv)
  have pa := exc_projK_le BL S.e2 a
  have pb := exc_projK_le BL S.e2 b
  by_cases hab : insK BL k2 a = insK BL k2 b
  · rw [pullK_same BL k2 _ hab, pullK_same BL k2 _ hab, hin _ _ pa pb]
  · obtain ⟨T, _, _, _, hxz⟩ := cross_param BL S.e2 a b hab
    rw [pullK_diff BL k2 _ hab, pullK_diff BL k2 _ hab, hin _ _ pa hxz.le, hin _ _ hxz.le pb]

/-- Claim A: the difference of the two upper clamps lives above the split line, so the lower clamp of
    the box does not see it -/
theorem SplitCfg.lower (S : SplitCfg box BL BR k1 k2 V0 κ c) (a b : Pt α) :
    pullK box k1 (fun a b => pullK box k2 V0 a b - pullK BL k2 V0 a b) a b =
      pullK box k2 V0 a b - pullK BL k2 V0 a b := by
  have hD : SplitAdd (fun a b => pullK box k2 V0 a b - pullK BL k2 V0 a b) :=
    (splitAdd_pullK box S.e2 S.hV).sub (splitAdd_pullK BL S.e2 S.hV)
  have hz : ∀ u v, exc BL k2 u ≤ 0 → exc BL k2 v ≤ 0 →
      (fun a b => pullK box k2 V0 a b - pullK BL k2 V0 a b) u v = 0 := by
    intro u v hu hv
    show pullK box k2 V0 u v - pullK BL k2 V0 u v = 0
    rw [pullK_inside box k2 V0 u v (S.hmhi u hu) (S.hmhi v hv), pullK_inside BL k2 V0 u v hu hv, sub_self]
  have key : ∀ D : Pt α → Pt α → α, SplitAdd D →
      (∀ u v, exc BL k2 u ≤ 0 → exc BL k2 v ≤ 0 → D u v = 0) → pullK box k1 D a b = D a b := by
    intro D hD hz
    -- a point on the dropped closed side of the lower clamp, and its projection, are below the split line
    have low : ∀ p, 0 ≤ exc box k1 p → exc BL k2 p ≤ 0 ∧ exc BL k2 (projK box k1 p) ≤ 0 := by
      intro p hp
      refine ⟨S.hlom p hp, S.hlom _ ?_⟩
      rw [projK_of_nonneg box S.e1 hp, exc_flatK box S.e1]
    by_cases hab : insK box k1 a = insK box k1 b
    · rw [pullK_same box k1 _ hab]
      rcases le_total (exc box k1 a) 0 with ha | ha
      · have hb : exc box k1 b ≤ 0 := insK_true.1 (hab ▸ insK_true.2 ha)
        rw [projK_of_nonpos box k1 ha, projK_of_nonpos box k1 hb]
      · rcases eq_or_lt_of_le ha with ha0 | ha0
        · have hb : exc box k1 b ≤ 0 := insK_true.1 (hab ▸ insK_true.2 ha0.symm.le)
          rw [projK_of_nonpos box k1 ha0.symm.le, projK_of_nonpos box k1 hb]
        · have hb : 0 < exc box k1 b := insK_false.1 (hab ▸ insK_false.2 ha0)
          rw [hz _ _ (low a ha).2 (low b hb.le).2, hz _ _ (low a ha).1 (low b hb.le).1]
    · obtain ⟨T, T0, T1, hx, hxz⟩ := cross_param box S.e1 a b hab
      have hseg : OnSeg a b (Orb.Clip.cross box k1 a b) := ⟨T, T0, T1, hx⟩
      have hxl : exc BL k2 (Orb.Clip.cross box k1 a b) ≤ 0 := S.hlom _ hxz.ge
      rw [pullK_diff box k1 _ hab, hD a b _ hseg]
      rcases insK_ne hab with ⟨ha, hb⟩ | ⟨ha, hb⟩
      · rw [projK_of_nonpos box k1 ha, hz _ _ hxl (low b hb.le).2, hz _ _ hxl (low b hb.le).1]
      · rw [projK_of_nonpos box k1 hb, hz _ _ (low a ha.le).2 hxl, hz _ _ (low a ha.le).1 hxl]
  exact key _ hD hz

/-- THE PER-EDGE SPLIT IDENTITY -/
theorem SplitCfg.split_edge (S : SplitCfg box BL BR k1 k2 V0 κ c) (a b : Pt α) :
    pullK box k1 (pullK box k2 V0) a b =
      pullK box k1 (pullK BL k2 V0) a b + pullK BR k1 (pullK box k2 V0) a b - c * (κ b - κ a) := by
  have h1 := pullK_sub box k1 (pullK box k2 V0) (pullK BL k2 V0) a b
  have h2 := S.lower a b
  have h3 := S.compl a b
  have h4 := S.absorb a b
  linarith

end split

/-! ### vertical split -/

theorem projK_y_congr (box : Bound α) {k : Nat} (hk : k = 4 ∨ k = 8) {p q : Pt α} (h : p.y = q.y) :
    (projK box k p).y = (projK box k q).y := by
  unfold projK
  rcases hk with rfl | rfl <;> simp only [exc_4, exc_8, h] <;> split_ifs <;> simp [flatK, h]

theorem κy_congr (box : Bound α) {p q : Pt α} (h : p.y = q.y) : κy box p = κy box q :=
  projK_y_congr box (Or.inr rfl) (projK_y_congr box (Or.inl rfl) h)

theorem splitCfg_x (box : Bound α) (m : α) (h1 : box.lo.x ≤ m) (h2 : m ≤ box.hi.x) :
    SplitCfg box ⟨box.lo, ⟨m, box.hi.y⟩⟩ ⟨⟨m, box.lo.y⟩, box.hi⟩ 1 2 (Vy box) (κy box) m where
  e1 := Or.inr (Or.inr (Or.inr rfl))
  e2 := Or.inr (Or.inr (Or.inl rfl))
  hneg := fun p => by simp
  hcross := fun a b => by simp [Orb.Clip.cross]
  hflat := fun p => by simp [flatK]
  hmhi := fun p h => by simp only [exc_2] at h ⊢; linarith
  hlom := fun p h => by simp only [exc_1, exc_2] at h ⊢; linarith
  hV := splitAdd_pullK box (Or.inr (Or.inl rfl)) (splitAdd_pullK box (Or.inl rfl) splitAdd_sh)
  hlin := fun u v hu hv => by
    simp only [exc_2] at hu hv
    have hu' : u.x = m := by linarith
    have hv' : v.x = m := by linarith
    rw [xlin_Vy box u v (by rw [hu', hv']), hu']
  hκ := fun p => κy_congr box (by simp [flatK])

theorem G_left (box : Bound α) (m : α) :
    G (⟨box.lo, ⟨m, box.hi.y⟩⟩ : Bound α) = pullK box 1 (pullK ⟨box.lo, ⟨m, box.hi.y⟩⟩ 2 (Vy box)) := rfl

theorem G_right (box : Bound α) (m : α) :
    G (⟨⟨m, box.lo.y⟩, box.hi⟩ : Bound α) = pullK ⟨⟨m, box.lo.y⟩, box.hi⟩ 1 (pullK box 2 (Vy box)) := rfl

/-- (3) SIGNED AREA IS ADDITIVE UNDER A VERTICAL SPLIT OF THE BOX at `x = m`. -/
theorem sh_area_additive_x (box : Bound α) (m : α) (hb : BoxOK box) (h1 : box.lo.x < m) (h2 : m < box.hi.x)
    (inp out outL outR : List (Pt α)) (hc : ClosedRing inp) (h : ring box inp = some out)
    (hL : ring ⟨box.lo, ⟨m, box.hi.y⟩⟩ inp = some outL) (hR : ring ⟨⟨m, box.lo.y⟩, box.hi⟩ inp = some outR) :
    area2 out = area2 outL + area2 outR := by
  have S := splitCfg_x box m h1.le h2.le
  rw [ring_area2 box hb inp out hc h, ring_area2 ⟨box.lo, ⟨m, box.hi.y⟩⟩ ⟨h1, hb.2⟩ inp outL hc hL,
    ring_area2 ⟨⟨m, box.lo.y⟩, box.hi⟩ ⟨h2, hb.2⟩ inp outR hc hR, G_left box m, G_right box m]
  have key : ∀ a b, G box a b =
      (pullK box 1 (pullK ⟨box.lo, ⟨m, box.hi.y⟩⟩ 2 (Vy box)) a b +
        pullK ⟨⟨m, box.lo.y⟩, box.hi⟩ 1 (pullK box 2 (Vy box)) a b) +
        (-m) * ((fun s e => κy box e - κy box s) a b) := by
    intro a b
    have := S.split_edge a b
    show pullK box 1 (pullK box 2 (Vy box)) a b = _
    rw [this]; ring
  rw [sumE_congr key, sumE_add, sumE_add, sumE_smul, sumE_edges_cob]
  ring

/-! ### horizontal split -/

theorem pullK_add_cob (box : Bound α) (k : Nat) (w w' : Pt α → Pt α → α) (m : α) (h : Pt α → α) (a b : Pt α) :
    pullK box k (fun a b => w a b + w' a b + m * (h b - h a)) a b =
      pullK box k w a b + pullK box k w' a b + m * (h (projK box k b) - h (projK box k a)) := by
  unfold pullK pull; split_ifs <;> ring

theorem splitCfg_y (box : Bound α) (m : α) (h1 : box.lo.y ≤ m) (h2 : m ≤ box.hi.y) :
    SplitCfg box ⟨box.lo, ⟨box.hi.x, m⟩⟩ ⟨⟨box.lo.x, m⟩, box.hi⟩ 4 8 (sh (α := α)) (fun p => p.x) (-m) where
  e1 := Or.inr (Or.inl rfl)
  e2 := Or.inl rfl
  hneg := fun p => by simp
  hcross := fun a b => by simp [Orb.Clip.cross]
  hflat := fun p => by simp [flatK]
  hmhi := fun p h => by simp only [exc_8] at h ⊢; linarith
  hlom := fun p h => by simp only [exc_4, exc_8] at h ⊢; linarith
  hV := splitAdd_sh
  hlin := fun u v hu hv => by
    simp only [exc_8] at hu hv
    have hu' : u.y = m := by linarith
    have hv' : v.y = m := by linarith
    simp only [sh, hu', hv']; ring
  hκ := fun p => by simp [flatK]

theorem G_bottom (box : Bound α) (m : α) :
    G (⟨box.lo, ⟨box.hi.x, m⟩⟩ : Bound α) =
      pullK box 1 (pullK box 2 (pullK box 4 (pullK ⟨box.lo, ⟨box.hi.x, m⟩⟩ 8 sh))) := rfl

theorem G_top (box : Bound α) (m : α) :
    G (⟨⟨box.lo.x, m⟩, box.hi⟩ : Bound α) =
      pullK box 1 (pullK box 2 (pullK ⟨⟨box.lo.x, m⟩, box.hi⟩ 4 (pullK box 8 sh))) := rfl

/-- (3) SIGNED AREA IS ADDITIVE UNDER A HORIZONTAL SPLIT OF THE BOX at `y = m`. -/
theorem sh_area_additive_y (box : Bound α) (m : α) (hb : BoxOK box) (h1 : box.lo.y < m) (h2 : m < box.hi.y)
    (inp out outB outT : List (Pt α)) (hc : ClosedRing inp) (h : ring box inp = some out)
    (hB : ring ⟨box.lo, ⟨box.hi.x, m⟩⟩ inp = some outB) (hT : ring ⟨⟨box.lo.x, m⟩, box.hi⟩ inp = some outT) :
    area2 out = area2 outB + area2 outT := by
  have S := splitCfg_y box m h1.le h2.le
  rw [ring_area2 box hb inp out hc h, ring_area2 ⟨box.lo, ⟨box.hi.x, m⟩⟩ ⟨hb.1, h1⟩ inp outB hc hB,
    ring_area2 ⟨⟨box.lo.x, m⟩, box.hi⟩ ⟨hb.1, h2⟩ inp outT hc hT, G_bottom box m, G_top box m]
  have hV : ∀ a b, Vy box a b =
      pullK box 4 (pullK ⟨box.lo, ⟨box.hi.x, m⟩⟩ 8 sh) a b + pullK ⟨⟨box.lo.x, m⟩, box.hi⟩ 4 (pullK box 8 sh) a b +
        m * ((fun p : Pt α => p.x) b - (fun p : Pt α => p.x) a) := by
    intro a b
    have := S.split_edge a b
    show pullK box 4 (pullK box 8 sh) a b = _
    rw [this]; ring
  have key : ∀ a b, G box a b =
      (pullK box 1 (pullK box 2 (pullK box 4 (pullK ⟨box.lo, ⟨box.hi.x, m⟩⟩ 8 sh))) a b +
        pullK box 1 (pullK box 2 (pullK ⟨⟨box.lo.x, m⟩, box.hi⟩ 4 (pullK box 8 sh))) a b) +
        m * ((fun s e => (projK box 2 (projK box 1 e)).x - (projK box 2 (projK box 1 s)).x) a b) := by
    intro a b
    show pullK box 1 (pullK box 2 (Vy box)) a b = _
    rw [pullK_congr box 1 (pullK_congr box 2 hV), pullK_congr box 1 (pullK_add_cob box 2 _ _ m _),
      pullK_add_cob box 1 _ _ m (fun p => (projK box 2 p).x)]
  rw [sumE_congr key, sumE_add, sumE_add, sumE_smul,
    sumE_edges_cob (fun p => (projK box 2 (projK box 1 p)).x)]
  ring

/-- (3) both splits, in one statement -/
theorem sh_area_additive (box : Bound α) (hb : BoxOK box) (inp out : List (Pt α)) (hc : ClosedRing inp)
    (h : ring box inp = some out) (m : α) :
    (box.lo.x < m → m < box.hi.x → ∀ outL outR, ring ⟨box.lo, ⟨m, box.hi.y⟩⟩ inp = some outL →
        ring ⟨⟨m, box.lo.y⟩, box.hi⟩ inp = some outR → area2 out = area2 outL + area2 outR) ∧
    (box.lo.y < m → m < box.hi.y → ∀ outB outT, ring ⟨box.lo, ⟨box.hi.x, m⟩⟩ inp = some outB →
        ring ⟨⟨box.lo.x, m⟩, box.hi⟩ inp = some outT → area2 out = area2 outB + area2 outT) :=
  ⟨fun h1 h2 outL outR hL hR => sh_area_additive_x box m hb h1 h2 inp out outL outR hc h hL hR,
   fun h1 h2 outB outT hB hT => sh_area_additive_y box m hb h1 h2 inp out outB outT hc h hB hT⟩

/-! ### sanity: the unit of `area2` on the concrete cut of `ring_witness` (ℚ): the clipped unit square -/

example : area2 ([⟨1, 1⟩, ⟨2, 1⟩, ⟨2, 2⟩, ⟨1, 2⟩, ⟨1, 1⟩] : List (Pt ℚ)) = 2 := by
  simp [area2, sumE, edges, sh]; norm_num

end Orb.Clip.C08R
