/-
  Helper lemmas for C11.  The primed statements are re-exported by OrbProofs/C11.lean.
-/
import OrbProofs.C11Tree

namespace Orb.Quadtree
open Orb Orb.Core

set_option linter.unusedSectionVars false

variable {α : Type} [Field α] [LinearOrder α] [IsStrictOrderedRing α]

theorem inv_empty' (b : Bound α) : QInv (⟨b, .nil⟩ : QT α) := by
  simp [QInv, Inv]

theorem contains_inCell (b : Bound α) (p : Pt α) (h : b.contains p = true) : inCell (rootCell b) p := by
  unfold Bound.contains at h
  split_ifs at h with h1 h2
  simp only [not_or, not_lt] at h1 h2
  exact ⟨h2.1, h2.2, h1.1, h1.2⟩

theorem add_spec' (q : QT α) (p : Ptr α) (h : QInv q) :
    Spec q.bound (contents q.root) (.add p) (.flag (add q p).2) (contents (add q p).1.root) ∧
    QInv (add q p).1 ∧ (add q p).1.bound = q.bound ∧ ((add q p).2 = false → (add q p).1 = q) := by
  unfold add
  cases hc : q.bound.contains p.p with
  | false => simp [Spec, hc, h]
  | true =>
    simp only [Bool.not_true, Bool.false_eq_true, if_false, Spec, hc, if_true, true_and]
    refine ⟨contents_ins _ _ _, ?_, by simp⟩
    exact Inv_ins _ _ _ h (contains_inCell _ _ hc)

theorem remove_spec' (sqrt : α → α) (hs : SqrtUp sqrt) (q : QT α) (pt : Pt α) (eq : Ptr α → Bool) (h : QInv q) :
    Spec q.bound (contents q.root) (.remove pt eq) (.flag (remove sqrt q pt eq).2) (contents (remove sqrt q pt eq).1.root) ∧
    QInv (remove sqrt q pt eq).1 ∧ (remove sqrt q pt eq).1.bound = q.bound := by
  sorry

theorem matching_spec' (sqrt : α → α) (hs : SqrtUp sqrt) (q : QT α) (pt : Pt α) (f : Ptr α → Bool) (h : QInv q) :
    Spec q.bound (contents q.root) (.matching pt f) (.ptr (matching sqrt q pt f)) (contents q.root) := by
  sorry

theorem kNearest_spec' (sqrt : α → α) (hs : SqrtUp sqrt) (q : QT α) (pt : Pt α) (k : Nat) (f : Ptr α → Bool)
    (md : Option α) (h : QInv q) :
    Spec q.bound (contents q.root) (.kNearest pt k f md) (.ptrs (kNearest sqrt q pt k f md)) (contents q.root) := by
  sorry

theorem inBound_spec' (q : QT α) (b : Bound α) (f : Ptr α → Bool) (h : QInv q) :
    Spec q.bound (contents q.root) (.inBound b f) (.ptrs (inBound q b f)) (contents q.root) := by
  sorry

theorem remove_nodes_le' (sqrt : α → α) (q : QT α) (pt : Pt α) (eq : Ptr α → Bool) :
    nodes (remove sqrt q pt eq).1.root ≤ nodes q.root := by
  sorry

theorem history_refines' (sqrt : α → α) (hs : SqrtUp sqrt) (b : Bound α) (ops : List (Op α)) :
    Trace sqrt ⟨b, .nil⟩ ops := by
  sorry

end Orb.Quadtree
