/-
  Helper lemmas for C11.  The primed statements are re-exported by OrbProofs/C11.lean.
  The spec-side vocabulary (inCell, Inv, QInv, SqrtUp, inBox, within, Op, Out, step, Spec, Trace) lives in
  C11Tree.lean; C11Visit.lean has the generic pruned-traversal theorem and the find / in-bound visitors,
  C11Heap.lean the array max-heap, C11Near.lean the k-nearest visitor and the drain loop.
-/
import OrbProofs.C11Visit
import OrbProofs.C11Near

namespace Orb.Quadtree
open Orb Orb.Core

set_option linter.unusedSectionVars false

variable {α : Type} [Field α] [LinearOrder α] [IsStrictOrderedRing α]

theorem inv_empty' (b : Bound α) : QInv (⟨b, .nil⟩ : QT α) := by
  simp [QInv, Inv]

theorem contains_inCell (b : Bound α) (p : Pt α) (h : b.contains p = true) : inCell (rootCell b) p := by
  unfold Bound.contains at h
  split_ifs at h with h1 h2
  simp only [not_or, not_lt] at h1 h2
  exact ⟨h2.1, h2.2, h1.1, h1.2⟩

theorem add_spec' (q : QT α) (p : Ptr α) (h : QInv q) :
    Spec q.bound (contents q.root) (.add p) (.flag (add q p).2) (contents (add q p).1.root) ∧
    QInv (add q p).1 ∧ (add q p).1.bound = q.bound ∧ ((add q p).2 = false → (add q p).1 = q) := by
  unfold add
  have hbox := contains_eq_inBox q.bound p.p
  cases hc : q.bound.contains p.p with
  | false => rw [hc] at hbox; simp [Spec, ← hbox, h]
  | true =>
    rw [hc] at hbox
    simp only [Bool.not_true, Bool.false_eq_true, if_false, Spec, ← hbox, if_true, true_and]
    refine ⟨contents_ins _ _ _, ?_, by simp⟩
    exact Inv_ins _ _ _ h (contains_inCell _ _ hc)

theorem remove_spec' (sqrt : α → α) (hs : SqrtUp sqrt) (q : QT α) (pt : Pt α) (eq : Ptr α → Bool) (h : QInv q) :
    Spec q.bound (contents q.root) (.remove pt eq) (.flag (remove sqrt q pt eq).2) (contents (remove sqrt q pt eq).1.root) ∧
    QInv (remove sqrt q pt eq).1 ∧ (remove sqrt q pt eq).1.bound = q.bound := by
  have hr : remove sqrt q pt eq =
      match (findRaw sqrt q pt eq).closest with
      | none => (q, false)
      | some (_, path) => ({ q with root := modifyAt clearNode path q.root }, true) := by
    unfold remove
    cases hr : q.root with
    | nil => simp [findRaw, hr, visit]
    | node v c0 c1 c2 c3 => rfl
  rw [hr]
  rcases findRaw_spec hs q pt eq h with ⟨h1, -, -, h4⟩ | ⟨x, path, h1, h2, -, -, h5, h6, h7⟩
  · rw [h1]
    exact ⟨⟨h4, List.Perm.refl _⟩, h, rfl⟩
  · rw [h1]
    refine ⟨?_, Inv_modifyAt clearNode Inv_clearNode path _ _ h, rfl⟩
    exact ⟨x, h5, h6, h7, contents_modifyAt_clear path q.root x h2⟩

theorem matching_spec' (sqrt : α → α) (hs : SqrtUp sqrt) (q : QT α) (pt : Pt α) (f : Ptr α → Bool) (h : QInv q) :
    Spec q.bound (contents q.root) (.matching pt f) (.ptr (matching sqrt q pt f)) (contents q.root) := by
  refine ⟨List.Perm.refl _, ?_⟩
  have hm : matching sqrt q pt f = (findRaw sqrt q pt f).closest.map (·.1) := by
    unfold matching
    cases hr : q.root with
    | nil => simp [findRaw, hr, visit]
    | node v c0 c1 c2 c3 => rfl
  rw [hm]
  rcases findRaw_spec hs q pt f h with ⟨h1, -, -, h4⟩ | ⟨x, path, h1, -, -, -, h5, h6, h7⟩
  · rw [h1]; exact h4
  · rw [h1]; exact ⟨h5, h6, h7⟩

theorem kNearest_spec' (sqrt : α → α) (hs : SqrtUp sqrt) (q : QT α) (pt : Pt α) (k : Nat) (f : Ptr α → Bool)
    (md : Option α) (h : QInv q) :
    Spec q.bound (contents q.root) (.kNearest pt k f md) (.ptrs (kNearest sqrt q pt k f md)) (contents q.root) := by
  refine ⟨List.Perm.refl _, ?_⟩
  by_cases hk : k = 0
  · have e : kNearest sqrt q pt k f md = [] := by
      unfold kNearest; cases q.root <;> simp [hk]
    rw [e, hk]
    exact ⟨_, List.Perm.refl _, by simp, List.Pairwise.nil, by simp⟩
  have hk' : 0 < k := Nat.pos_of_ne_zero hk
  have hP := kNearest_visit hs q pt k hk' f md h
  cases hr : q.root with
  | nil =>
    have e : kNearest sqrt q pt k f md = [] := by
      unfold kNearest; simp [hr]
    rw [e]
    exact ⟨[], by simp [contents], by simp [contents], List.Pairwise.nil, by simp⟩
  | node v c0 c1 c2 c3 =>
    unfold kNearest
    rw [hr] at hP ⊢
    simp only [hk, if_false]
    generalize visit (nearestVisitor sqrt pt f k) (Tree.node v c0 c1 c2 c3) (rootCell q.bound) []
      ⟨#[], q.bound, md.map fun m => m * m⟩ = st at hP ⊢
    obtain ⟨D, hc, hph⟩ := hP
    obtain ⟨hdp, hds⟩ := drain_spec pt st.heap.size st.heap [] hc.ord rfl hc.ent List.Pairwise.nil (by simp)
    simp only [List.append_nil] at hdp
    refine ⟨D, (hdp.append_right D).trans hc.perm, ?_, hds, ?_⟩
    · have hlen : (List.filter (fun x => f x && within pt md x) (contents (Tree.node v c0 c1 c2 c3))).length
          = st.heap.size + D.length := by
        rw [← hc.perm.length_eq]; simp
      rw [hdp.length_eq, hlen]
      simp only [List.length_map, Array.length_toList]
      rcases hph with ⟨-, -, hD⟩ | ⟨hsz, -⟩
      · have := hc.size_le; subst hD; simp; omega
      · omega
    · intro x hx y hy
      obtain ⟨e, he, rfl⟩ := List.mem_map.mp (hdp.mem_iff.mp hx)
      rw [← hc.ent e he]
      exact hc.le e he y hy

theorem inBound_spec' (q : QT α) (b : Bound α) (f : Ptr α → Bool) (h : QInv q) :
    Spec q.bound (contents q.root) (.inBound b f) (.ptrs (inBound q b f)) (contents q.root) := by
  refine ⟨List.Perm.refl _, ?_⟩
  unfold inBound
  cases hr : q.root with
  | nil => simp [contents]
  | node v c0 c1 c2 c3 =>
    have := inBound_visit b f q.root (rootCell q.bound) h
    rw [hr] at this
    exact this

theorem remove_nodes_le' (sqrt : α → α) (q : QT α) (pt : Pt α) (eq : Ptr α → Bool) :
    nodes (remove sqrt q pt eq).1.root ≤ nodes q.root := by
  unfold remove
  split
  · exact le_refl _
  · split
    · exact le_refl _
    · exact nodes_modifyAt clearNode nodes_clearNode _ _

theorem trace_of_inv (sqrt : α → α) (hs : SqrtUp sqrt) (ops : List (Op α)) :
    ∀ q : QT α, QInv q → Trace sqrt q ops := by
  induction ops with
  | nil => intro q _; trivial
  | cons op rest ih =>
    intro q h
    cases op with
    | add p =>
      obtain ⟨h1, h2, -, -⟩ := add_spec' q p h
      exact ⟨h1, ih _ h2⟩
    | remove pt eq =>
      obtain ⟨h1, h2, -⟩ := remove_spec' sqrt hs q pt eq h
      exact ⟨h1, ih _ h2⟩
    | matching pt f => exact ⟨matching_spec' sqrt hs q pt f h, ih _ h⟩
    | kNearest pt k f md => exact ⟨kNearest_spec' sqrt hs q pt k f md h, ih _ h⟩
    | inBound b f => exact ⟨inBound_spec' q b f h, ih _ h⟩

theorem history_refines' (sqrt : α → α) (hs : SqrtUp sqrt) (b : Bound α) (ops : List (Op α)) :
    Trace sqrt ⟨b, .nil⟩ ops :=
  trace_of_inv sqrt hs ops _ (inv_empty' b)

end Orb.Quadtree
