/-
  Helper lemmas for C11.  The primed statements are re-exported by OrbProofs/C11.lean.
-/
import Orb.Quadtree
import Mathlib.Algebra.Order.Field.Basic
import Mathlib.Data.List.Perm.Basic
import Mathlib.Data.List.Sort

namespace Orb.Quadtree
open Orb Orb.Core

/-! ### spec-side vocabulary -/

section vocab
variable {α : Type} [Field α] [LinearOrder α] [IsStrictOrderedRing α]

/-- `p` lies in the closed cell `c` -/
def inCell (c : Cell α) (p : Pt α) : Prop := c.l ≤ p.x ∧ p.x ≤ c.r ∧ c.b ≤ p.y ∧ p.y ≤ c.t

/-- structural invariant: every stored value lies in the cell of its node (cells are derived
    from the tree bound by the same midpoint arithmetic the code uses) -/
def Inv : Tree α → Cell α → Prop
  | .nil, _ => True
  | .node v c0 c1 c2 c3, c =>
    (∀ p, v = some p → inCell c p.p) ∧ Inv c0 (c.sub 0) ∧ Inv c1 (c.sub 1) ∧ Inv c2 (c.sub 2) ∧ Inv c3 (c.sub 3)

def QInv (q : QT α) : Prop := Inv q.root (rootCell q.bound)

/-- the only assumption on the square root used to size the pruning box: an upper bound -/
def SqrtUp (sqrt : α → α) : Prop := ∀ x, 0 ≤ x → 0 ≤ sqrt x ∧ x ≤ sqrt x * sqrt x

/-- closed-box membership used by the in-bound query -/
def inBox (b : Bound α) (p : Pt α) : Bool :=
  decide (b.lo.x ≤ p.x ∧ p.x ≤ b.hi.x ∧ b.lo.y ≤ p.y ∧ p.y ≤ b.hi.y)

/-- "strictly within the optional distance limit" -/
def within (pt : Pt α) (maxDist : Option α) (x : Ptr α) : Bool :=
  match maxDist with
  | none => true
  | some m => decide (distSq x.p pt < m * m)

/-- operations of a history -/
inductive Op (α : Type) where
  | add (p : Ptr α)
  | remove (pt : Pt α) (eq : Ptr α → Bool)
  | matching (pt : Pt α) (f : Ptr α → Bool)
  | kNearest (pt : Pt α) (k : Nat) (f : Ptr α → Bool) (maxDist : Option α)
  | inBound (b : Bound α) (f : Ptr α → Bool)

/-- observable results -/
inductive Out (α : Type) where
  | flag (b : Bool)
  | ptr (p : Option (Ptr α))
  | ptrs (l : List (Ptr α))

/-- one step of the implementation model -/
def step (sqrt : α → α) (q : QT α) : Op α → QT α × Out α
  | .add p => let (q', ok) := add q p; (q', .flag ok)
  | .remove pt eq => let (q', ok) := remove sqrt q pt eq; (q', .flag ok)
  | .matching pt f => (q, .ptr (matching sqrt q pt f))
  | .kNearest pt k f md => (q, .ptrs (kNearest sqrt q pt k f md))
  | .inBound b f => (q, .ptrs (inBound q b f))

/-- THE SPECIFICATION: what a plain list `cs` of the stored pointers allows as the answer `out`
    and as the new contents `cs'` (a multiset: everything is up to permutation). -/
def Spec (qb : Bound α) (cs : List (Ptr α)) : Op α → Out α → List (Ptr α) → Prop
  | .add p, .flag ok, cs' =>
    (ok = qb.contains p.p) ∧ (if ok then cs'.Perm (p :: cs) else cs'.Perm cs)
  | .remove pt eq, .flag ok, cs' =>
    if ok then ∃ x, x ∈ cs ∧ eq x = true ∧ (∀ y ∈ cs, eq y = true → distSq x.p pt ≤ distSq y.p pt) ∧ cs.Perm (x :: cs')
    else (∀ y ∈ cs, eq y = false) ∧ cs'.Perm cs
  | .matching pt f, .ptr r, cs' =>
    cs'.Perm cs ∧
    (match r with
     | none => ∀ y ∈ cs, f y = false
     | some x => x ∈ cs ∧ f x = true ∧ ∀ y ∈ cs, f y = true → distSq x.p pt ≤ distSq y.p pt)
  | .kNearest pt k f md, .ptrs r, cs' =>
    cs'.Perm cs ∧
    ∃ rest, (r ++ rest).Perm (cs.filter fun x => f x && within pt md x) ∧
      r.length = min k (cs.filter fun x => f x && within pt md x).length ∧
      r.Pairwise (fun a b => distSq a.p pt ≤ distSq b.p pt) ∧
      ∀ x ∈ r, ∀ y ∈ rest, distSq x.p pt ≤ distSq y.p pt
  | .inBound b f, .ptrs r, cs' =>
    cs'.Perm cs ∧ r.Perm (cs.filter fun x => f x && inBox b x.p)
  | _, _, _ => False

/-- every step of a history meets the specification w.r.t. the tree's own contents -/
def Trace (sqrt : α → α) : QT α → List (Op α) → Prop
  | _, [] => True
  | q, op :: rest =>
    Spec q.bound (contents q.root) op (step sqrt q op).2 (contents (step sqrt q op).1.root) ∧
    Trace sqrt (step sqrt q op).1 rest

end vocab

variable {α : Type} [Field α] [LinearOrder α] [IsStrictOrderedRing α]

theorem inv_empty' (b : Bound α) : QInv (⟨b, .nil⟩ : QT α) := by
  sorry

theorem add_spec' (q : QT α) (p : Ptr α) (h : QInv q) :
    Spec q.bound (contents q.root) (.add p) (.flag (add q p).2) (contents (add q p).1.root) ∧
    QInv (add q p).1 ∧ (add q p).1.bound = q.bound ∧ ((add q p).2 = false → (add q p).1 = q) := by
  sorry

theorem remove_spec' (sqrt : α → α) (hs : SqrtUp sqrt) (q : QT α) (pt : Pt α) (eq : Ptr α → Bool) (h : QInv q) :
    Spec q.bound (contents q.root) (.remove pt eq) (.flag (remove sqrt q pt eq).2) (contents (remove sqrt q pt eq).1.root) ∧
    QInv (remove sqrt q pt eq).1 ∧ (remove sqrt q pt eq).1.bound = q.bound := by
  sorry

theorem matching_spec' (sqrt : α → α) (hs : SqrtUp sqrt) (q : QT α) (pt : Pt α) (f : Ptr α → Bool) (h : QInv q) :
    Spec q.bound (contents q.root) (.matching pt f) (.ptr (matching sqrt q pt f)) (contents q.root) := by
  sorry

theorem kNearest_spec' (sqrt : α → α) (hs : SqrtUp sqrt) (q : QT α) (pt : Pt α) (k : Nat) (f : Ptr α → Bool)
    (md : Option α) (h : QInv q) :
    Spec q.bound (contents q.root) (.kNearest pt k f md) (.ptrs (kNearest sqrt q pt k f md)) (contents q.root) := by
  sorry

theorem inBound_spec' (q : QT α) (b : Bound α) (f : Ptr α → Bool) (h : QInv q) :
    Spec q.bound (contents q.root) (.inBound b f) (.ptrs (inBound q b f)) (contents q.root) := by
  sorry

theorem remove_nodes_le' (sqrt : α → α) (q : QT α) (pt : Pt α) (eq : Ptr α → Bool) :
    nodes (remove sqrt q pt eq).1.root ≤ nodes q.root := by
  sorry

theorem history_refines' (sqrt : α → α) (hs : SqrtUp sqrt) (b : Bound α) (ops : List (Op α)) :
    Trace sqrt ⟨b, .nil⟩ ops := by
  sorry

end Orb.Quadtree
