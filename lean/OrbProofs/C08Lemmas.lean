/-
  Helper lemmas for C08.  The primed statements are re-exported by OrbProofs/C08.lean.
-/
import OrbProofs.C07Lemmas
import OrbProofs.C08Ring
import OrbProofs.C08Counter
import OrbProofs.C08Chain
import Mathlib.Tactic.NormNum
import Mathlib.Algebra.Order.Field.Rat

namespace Orb.Clip
open Orb Orb.Core

/-! ### spec-side vocabulary (BoxOK, InBox, lerp, OnSeg … come from C07Lemmas) -/

section vocab
variable {α : Type} [Field α] [LinearOrder α] [IsStrictOrderedRing α]

/-- every vertex of a geometry value -/
def gverts : Geom α → List (Pt α)
  | .point p => [p]
  | .multiPoint ps | .lineString ps | .ring ps => ps
  | .multiLineString ls | .polygon ls => ls.flatten
  | .multiPolygon ps => ps.flatten.flatten
  | .bound a b => [a, b]
  | .collection gs => gs.flatMap gverts

/-- the ring is explicitly closed -/
def ClosedRing (r : List (Pt α)) : Prop := r ≠ [] ∧ r.head? = r.getLast?

end vocab

variable {α : Type} [Field α] [LinearOrder α] [IsStrictOrderedRing α]

set_option linter.unusedSectionVars false
set_option linter.unusedSimpArgs false

namespace C08

theorem ring_total' (box : Bound α) (inp : List (Pt α)) : ∃ out, ring box inp = some out := by
  cases inp with
  | nil => exact ⟨[], rfl⟩
  | cons f t =>
    rw [ring_cons_eq]
    obtain ⟨l, hl, -⟩ := chain_spec box (ptEqB f ((f :: t).getLast?.getD f)) (f :: t) conv_true
      (fun _ _ => trivial)
    rw [hl]
    obtain ⟨out, ho, -⟩ := rclose_some (ptEqB f ((f :: t).getLast?.getD f)) l
    exact ⟨out, ho⟩

set_option linter.unusedVariables false in
theorem ring_vertices_in_box' (box : Bound α) (hb : BoxOK box) (inp out : List (Pt α)) (h : ring box inp = some out) :
    ∀ v ∈ out, InBox box v := by
  cases inp with
  | nil =>
    have : out = [] := by simpa [ring] using h.symm
    subst this; simp
  | cons f t =>
    rw [ring_cons_eq] at h
    obtain ⟨l, hl, hin⟩ := chain_spec box (ptEqB f ((f :: t).getLast?.getD f)) (f :: t) conv_true
      (fun _ _ => trivial)
    rw [hl] at h
    obtain ⟨out', ho, hsub, -⟩ := rclose_some (ptEqB f ((f :: t).getLast?.getD f)) l
    rw [ho] at h
    cases h
    intro v hv
    exact (hin v (hsub v hv)).1

theorem ring_inside_id' (box : Bound α) (inp : List (Pt α)) (hin : ∀ v ∈ inp, InBox box v) :
    ring box inp = some inp := by
  cases inp with
  | nil => rfl
  | cons f t =>
    rw [ring_cons_eq]
    have i1 : ∀ v ∈ f :: t, ((bitCode box v &&& 1) == 0) = true := fun v hv => (ins_1 box v).2 (hin v hv).1
    have i2 : ∀ v ∈ f :: t, ((bitCode box v &&& 2) == 0) = true :=
      fun v hv => (ins_2 box v).2 (Or.inr (hin v hv).2.1)
    have i4 : ∀ v ∈ f :: t, ((bitCode box v &&& 4) == 0) = true := fun v hv => (ins_4 box v).2 (hin v hv).2.2.1
    have i8 : ∀ v ∈ f :: t, ((bitCode box v &&& 8) == 0) = true :=
      fun v hv => (ins_8 box v).2 (Or.inr (hin v hv).2.2.2)
    rw [rpass_id box _ 1 _ (intersect_1 box) _ i1, rpass_id box _ 2 _ (intersect_2 box) _ i2,
      rpass_id box _ 4 _ (intersect_4 box) _ i4, rpass_id box _ 8 _ (intersect_8 box) _ i8]
    exact rclose_self f t

theorem ring_disjoint_nil' (box : Bound α) (inp : List (Pt α))
    (h : (∀ v ∈ inp, v.x < box.lo.x) ∨ (∀ v ∈ inp, v.x > box.hi.x) ∨ (∀ v ∈ inp, v.y < box.lo.y) ∨ (∀ v ∈ inp, v.y > box.hi.y)) :
    ring box inp = some [] := by
  cases inp with
  | nil => rfl
  | cons f t =>
    rw [ring_cons_eq]
    have key : ∀ C : Pt α → Prop, Conv C → (∀ v ∈ f :: t, C v) → (∀ v, InBox box v → C v → False) →
        rclose (ptEqB f ((f :: t).getLast?.getD f))
          (rpass box (ptEqB f ((f :: t).getLast?.getD f)) 8
            (rpass box (ptEqB f ((f :: t).getLast?.getD f)) 4
              (rpass box (ptEqB f ((f :: t).getLast?.getD f)) 2
                (rpass box (ptEqB f ((f :: t).getLast?.getD f)) 1 (some (f :: t)))))) = some [] := by
      intro C hC hin hno
      obtain ⟨l, hl, hl'⟩ := chain_spec box (ptEqB f ((f :: t).getLast?.getD f)) (f :: t) hC hin
      have : l = [] := List.eq_nil_iff_forall_not_mem.2 (fun v hv => hno v (hl' v hv).1 (hl' v hv).2)
      rw [hl, this]; rfl
    rcases h with h | h | h | h
    · exact key _ (conv_x_lt box.lo.x) h (fun v hb hc => absurd hb.1 (not_le.2 hc))
    · exact key _ (conv_lt_x box.hi.x) h (fun v hb hc => absurd hb.2.1 (not_le.2 hc))
    · exact key _ (conv_y_lt box.lo.y) h (fun v hb hc => absurd hb.2.2.1 (not_le.2 hc))
    · exact key _ (conv_lt_y box.hi.y) h (fun v hb hc => absurd hb.2.2.2 (not_le.2 hc))

/-- the general form of `ring_disjoint_nil'`: ANY convex set (`Conv`: closed under taking points of
    segments) that contains every vertex and has no point in the box — the ring's convex hull misses the box -/
theorem ring_hull_disjoint_nil' (box : Bound α) (inp : List (Pt α)) (C : Pt α → Prop) (hC : Conv C)
    (hin : ∀ v ∈ inp, C v) (hno : ∀ v, InBox box v → ¬ C v) : ring box inp = some [] := by
  cases inp with
  | nil => rfl
  | cons f t =>
    rw [ring_cons_eq]
    obtain ⟨l, hl, hl'⟩ := chain_spec box (ptEqB f ((f :: t).getLast?.getD f)) (f :: t) hC hin
    have : l = [] := List.eq_nil_iff_forall_not_mem.2 (fun v hv => hno v (hl' v hv).1 (hl' v hv).2)
    rw [hl, this]; rfl

theorem ring_closed' (box : Bound α) (inp out : List (Pt α)) (hc : ClosedRing inp) (h : ring box inp = some out)
    (hne : out ≠ []) : ClosedRing out := by
  obtain ⟨hn, hhl⟩ := hc
  cases inp with
  | nil => exact absurd rfl hn
  | cons f t =>
    rw [ring_cons_eq] at h
    have hic : ptEqB f ((f :: t).getLast?.getD f) = true := by
      rw [ptEqB_iff, ← hhl]; rfl
    rw [hic] at h
    exact rclose_closed _ out h hne

theorem polygon_fold (box : Bound α) (holes : List (List (Pt α))) (hs : List (List (Pt α)))
    (hm : holes.mapM (ring box) = some hs) (pre : List (List (Pt α))) :
    holes.foldl (fun acc h => match acc, ring box h with
        | some res, some [] => some res
        | some res, some h' => some (res ++ [h'])
        | _, _ => none) (some pre) = some (pre ++ hs.filter (· ≠ [])) := by
  induction holes generalizing hs pre with
  | nil =>
    simp at hm; subst hm; simp
  | cons h t ih =>
    rw [List.mapM_cons] at hm
    cases hr : ring box h with
    | none => simp [hr] at hm
    | some r =>
      cases ht : t.mapM (ring box) with
      | none => simp [hr, ht] at hm
      | some ts =>
        simp [hr, ht] at hm
        subst hm
        rw [List.foldl_cons, hr]
        cases r with
        | nil => simp only []; rw [ih ts ht]; simp
        | cons a r' => simp only []; rw [ih ts ht]; simp

theorem mapM_ring_total (box : Bound α) (holes : List (List (Pt α))) :
    ∃ hs, holes.mapM (ring box) = some hs := by
  induction holes with
  | nil => exact ⟨[], by simp⟩
  | cons h t ih =>
    obtain ⟨r, hr⟩ := ring_total' box h
    obtain ⟨ts, ht⟩ := ih
    exact ⟨r :: ts, by rw [List.mapM_cons, hr, ht]; rfl⟩

theorem polygon_spec' (box : Bound α) (outer : List (Pt α)) (holes : List (List (Pt α))) :
    ∃ o hs, ring box outer = some o ∧ holes.mapM (ring box) = some hs ∧
      polygon box (outer :: holes) = some (if o = [] then [] else o :: hs.filter (· ≠ [])) := by
  obtain ⟨o, ho⟩ := ring_total' box outer
  obtain ⟨hs, hhs⟩ := mapM_ring_total box holes
  refine ⟨o, hs, ho, hhs, ?_⟩
  simp only [polygon, ho]
  cases o with
  | nil => simp
  | cons a o' =>
    simp only []
    refine (polygon_fold box holes hs hhs [a :: o']).trans ?_
    simp

theorem clipBound_is_intersection' (b c : Bound α) (hb : b.isEmpty = false) (hc : c.isEmpty = false) (p : Pt α) :
    InBox (clipBound b c) p ↔ (InBox b p ∧ InBox c p) := by
  simp only [clipBound, hb, hc, Bool.and_self, Bool.false_eq_true, if_false, InBox, max_le_iff, le_min_iff]
  tauto

/-! ### the generic entry point -/

/-- structural induction for the nested inductive `Geom` -/
theorem geom_ind {β : Type} {motive : Geom β → Prop}
    (h1 : ∀ p, motive (.point p)) (h2 : ∀ ps, motive (.multiPoint ps))
    (h3 : ∀ ps, motive (.lineString ps)) (h4 : ∀ ls, motive (.multiLineString ls))
    (h5 : ∀ ps, motive (.ring ps)) (h6 : ∀ rs, motive (.polygon rs))
    (h7 : ∀ ps, motive (.multiPolygon ps)) (h8 : ∀ a b, motive (.bound a b))
    (hc : ∀ gs, (∀ g ∈ gs, motive g) → motive (.collection gs)) : ∀ g, motive g := by
  intro g
  refine Geom.rec (motive_1 := motive) (motive_2 := fun gs => ∀ g ∈ gs, motive g)
    h1 h2 h3 h4 h5 h6 h7 h8 hc ?_ ?_ g
  · intro g hg; cases hg
  · intro head tail hh ht g hg
    rcases List.mem_cons.1 hg with rfl | hg
    · exact hh
    · exact ht g hg

/-- the call returns, and whatever geometry it returns has all its vertices in the box -/
def GeoGood (box : Bound α) (res : Option (Option (Geom α))) : Prop :=
  ∃ r, res = some r ∧ ∀ g', r = some g' → ∀ v ∈ gverts g', InBox box v

theorem good_nil (box : Bound α) : GeoGood box (some none) := ⟨none, rfl, by simp⟩

theorem good_some (box : Bound α) (g : Geom α) (h : ∀ v ∈ gverts g, InBox box v) :
    GeoGood box (some (some g)) := ⟨some g, rfl, by rintro g' ⟨⟩; exact h⟩

theorem good_pre (box : Bound α) (c : Bool) (X : Option (Option (Geom α))) (h : c = true → GeoGood box X) :
    GeoGood box (if (!c) = true then some none else X) := by
  cases c with
  | false => simpa using good_nil box
  | true => simpa using h rfl

theorem contains_inBox (box : Bound α) (p : Pt α) (h : box.contains p = true) : InBox box p := by
  simp only [Bound.contains] at h
  split_ifs at h with h1 h2
  rw [not_or, not_lt, not_lt] at h1 h2
  exact ⟨h2.1, h2.2, h1.1, h1.2⟩

theorem intersects_pt_inBox (box : Bound α) (p : Pt α) (h : box.intersects ⟨p, p⟩ = true) : InBox box p := by
  simp only [Bound.intersects] at h
  split_ifs at h with h1
  simp only [not_or, not_lt, gt_iff_lt] at h1
  exact ⟨h1.2.1, h1.1, h1.2.2.2, h1.2.2.1⟩

theorem clipBound_in (box c : Bound α) (hb : BoxOK box) (hne : (clipBound box c).isEmpty = false) :
    InBox box (clipBound box c).lo ∧ InBox box (clipBound box c).hi := by
  have hbe : box.isEmpty = false := by
    simp only [Bound.isEmpty, decide_eq_false_iff_not, gt_iff_lt, not_or, not_lt]
    exact ⟨hb.1.le, hb.2.le⟩
  cases hce : c.isEmpty with
  | true =>
    simp only [clipBound, hbe, hce, Bool.false_and, Bool.false_eq_true, if_false, if_true]
    exact ⟨⟨le_refl _, hb.1.le, le_refl _, hb.2.le⟩, ⟨hb.1.le, le_refl _, hb.2.le, le_refl _⟩⟩
  | false =>
    simp only [clipBound, hbe, hce, Bool.false_and, Bool.false_eq_true, if_false] at hne ⊢
    simp only [Bound.isEmpty, decide_eq_false_iff_not, gt_iff_lt, not_or, not_lt] at hne
    obtain ⟨hx, hy⟩ := hne
    refine ⟨⟨le_max_left _ _, hx.trans (min_le_left _ _), le_max_left _ _, hy.trans (min_le_left _ _)⟩,
      ⟨(le_max_left _ _).trans hx, min_le_left _ _, (le_max_left _ _).trans hy, min_le_left _ _⟩⟩

/-- the "drop the empty ones" fold shared by `polygon` and `multiPolygon`, with the step function
    abstracted (the `match` of the model is characterised by `hF`) -/
theorem fold_skip {β γ : Type} (f : β → Option (List γ)) (P : List γ → Prop)
    (F : Option (List (List γ)) → β → Option (List (List γ)))
    (hF : ∀ res x y, f x = some y → F (some res) x = some (if y.isEmpty then res else res ++ [y]))
    (hf : ∀ x, ∃ y, f x = some y ∧ (y ≠ [] → P y)) (l : List β) :
    ∀ r0 : List (List γ), (∀ y ∈ r0, P y) →
    ∃ out, l.foldl F (some r0) = some out ∧ ∀ y ∈ out, P y := by
  induction l with
  | nil => intro r0 h0; exact ⟨r0, rfl, h0⟩
  | cons x t ih =>
    intro r0 h0
    obtain ⟨y, hy, hP⟩ := hf x
    rw [List.foldl_cons, hF r0 x y hy]
    cases y with
    | nil => exact ih r0 h0
    | cons a y' =>
      refine ih (r0 ++ [a :: y']) ?_
      intro z hz
      rcases List.mem_append.1 hz with hz | hz
      · exact h0 z hz
      · simp at hz; subst hz; exact hP (by simp)

theorem polygon_ok (box : Bound α) (hb : BoxOK box) (p : List (List (Pt α))) :
    ∃ out, polygon box p = some out ∧ ∀ r ∈ out, ∀ v ∈ r, InBox box v := by
  cases p with
  | nil => exact ⟨[], rfl, by simp⟩
  | cons outer holes =>
    obtain ⟨o, ho⟩ := ring_total' box outer
    have hin := ring_vertices_in_box' box hb outer o ho
    simp only [polygon, ho]
    cases o with
    | nil => exact ⟨[], rfl, by simp⟩
    | cons a o' =>
      simp only []
      refine fold_skip (ring box) (fun r => ∀ v ∈ r, InBox box v) _ ?_
        (fun h => by
          obtain ⟨y, hy⟩ := ring_total' box h
          exact ⟨y, hy, fun _ => ring_vertices_in_box' box hb h y hy⟩) holes [a :: o']
        (by intro y hy; simp at hy; subst hy; exact hin)
      intro res x y hy
      simp only [hy]
      cases y <;> rfl

theorem multiPolygon_ok (box : Bound α) (hb : BoxOK box) (mp : List (List (List (Pt α)))) :
    ∃ out, multiPolygon box mp = some out ∧ ∀ p ∈ out, ∀ r ∈ p, ∀ v ∈ r, InBox box v := by
  unfold multiPolygon
  refine fold_skip (polygon box) (fun p => ∀ r ∈ p, ∀ v ∈ r, InBox box v) _ ?_
    (fun p => by
      obtain ⟨y, hy, hP⟩ := polygon_ok box hb p
      exact ⟨y, hy, fun _ => hP⟩) mp [] (by simp)
  intro res x y hy
  simp only [hy]
  cases y <;> rfl

theorem fold_lines (box : Bound α) (hb : BoxOK box)
    (F : Option (List (List (Pt α))) → List (Pt α) → Option (List (List (Pt α))))
    (hF : ∀ r l x, line box false l = some x → F (some r) l = some (r ++ x))
    (ls : List (List (Pt α))) :
    ∀ r0 : List (List (Pt α)), (∀ piece ∈ r0, ∀ v ∈ piece, InBox box v) →
    ∃ out, ls.foldl F (some r0) = some out ∧ ∀ piece ∈ out, ∀ v ∈ piece, InBox box v := by
  induction ls with
  | nil => intro r0 h0; exact ⟨r0, rfl, h0⟩
  | cons l t ih =>
    intro r0 h0
    obtain ⟨x, hx⟩ := line_total' box hb false l
    have hP := clip_vertices_in_box' box hb false l x hx
    rw [List.foldl_cons, hF r0 l x hx]
    refine ih (r0 ++ x) ?_
    intro z hz
    rcases List.mem_append.1 hz with hz | hz
    · exact h0 z hz
    · exact hP z hz

theorem multiLineString_ok (box : Bound α) (hb : BoxOK box) (ls : List (List (Pt α))) :
    ∃ out, multiLineString box false ls = some out ∧ ∀ piece ∈ out, ∀ v ∈ piece, InBox box v := by
  unfold multiLineString
  refine fold_lines box hb _ ?_ ls [] (by simp)
  intro r l x hx
  simp only [hx]

theorem collect_ok (eb box : Bound α) (gs : List (Geom α))
    (ih : ∀ g ∈ gs, GeoGood box (geometry eb box g)) :
    ∃ l, geometry.collect eb box gs = some l ∧ ∀ g' ∈ l, ∀ v ∈ gverts g', InBox box v := by
  induction gs with
  | nil => exact ⟨[], by simp [geometry.collect], by simp⟩
  | cons g rest ihr =>
    obtain ⟨r, hr, hg⟩ := ih g List.mem_cons_self
    obtain ⟨l, hl, hlP⟩ := ihr (fun g' hg' => ih g' (List.mem_cons_of_mem _ hg'))
    simp only [geometry.collect, hr, hl]
    cases r with
    | none => exact ⟨l, rfl, hlP⟩
    | some c =>
      refine ⟨c :: l, rfl, ?_⟩
      intro g' hg'
      rcases List.mem_cons.1 hg' with rfl | hg'
      · exact hg _ rfl
      · exact hlP g' hg'

theorem geometry_good (eb box : Bound α) (hb : BoxOK box) (g : Geom α) : GeoGood box (geometry eb box g) := by
  induction g using geom_ind with
  | h1 p =>
    simp only [geometry]
    apply good_pre
    intro hi
    apply good_some
    simp only [Core.bound] at hi
    simp only [gverts, List.mem_singleton]
    rintro v rfl
    exact intersects_pt_inBox box v hi
  | h2 ps =>
    simp only [geometry]
    apply good_pre
    intro _
    have hall : ∀ v ∈ multiPoint box ps, InBox box v := by
      intro v hv
      simp only [multiPoint, List.mem_filter] at hv
      exact contains_inBox box v hv.2
    generalize multiPoint box ps = l at hall
    match l, hall with
    | [], _ => exact good_nil box
    | [p], hall => exact good_some box _ (by simpa [gverts] using hall)
    | p :: q :: t, hall => exact good_some box _ (by simpa only [gverts] using hall)
  | h3 ps =>
    simp only [geometry]
    apply good_pre
    intro _
    obtain ⟨out, ho⟩ := line_total' box hb false ps
    have hP := clip_vertices_in_box' box hb false ps out ho
    rw [ho]
    match out, hP with
    | [], _ => exact good_nil box
    | [l], hP => exact good_some box _ (by simpa [gverts] using hP)
    | l :: m :: t, hP =>
      refine good_some box _ ?_
      intro v hv
      simp only [gverts, List.mem_flatten] at hv
      obtain ⟨piece, hp, hv⟩ := hv
      exact hP piece hp v hv
  | h4 ls =>
    simp only [geometry]
    apply good_pre
    intro _
    obtain ⟨out, ho, hP⟩ := multiLineString_ok box hb ls
    rw [ho]
    match out, hP with
    | [], _ => exact good_nil box
    | [l], hP => exact good_some box _ (by simpa [gverts] using hP)
    | l :: m :: t, hP =>
      refine good_some box _ ?_
      intro v hv
      simp only [gverts, List.mem_flatten] at hv
      obtain ⟨piece, hp, hv⟩ := hv
      exact hP piece hp v hv
  | h5 r =>
    simp only [geometry]
    apply good_pre
    intro _
    obtain ⟨out, ho⟩ := ring_total' box r
    have hP := ring_vertices_in_box' box hb r out ho
    rw [ho]
    match out, hP with
    | [], _ => exact good_nil box
    | a :: t, hP => exact good_some box _ (by simpa only [gverts] using hP)
  | h6 p =>
    simp only [geometry]
    apply good_pre
    intro _
    obtain ⟨out, ho, hP⟩ := polygon_ok box hb p
    rw [ho]
    match out, hP with
    | [], _ => exact good_nil box
    | a :: t, hP =>
      refine good_some box _ ?_
      intro v hv
      simp only [gverts, List.mem_flatten] at hv
      obtain ⟨r, hr, hv⟩ := hv
      exact hP r hr v hv
  | h7 mp =>
    simp only [geometry]
    apply good_pre
    intro _
    obtain ⟨out, ho, hP⟩ := multiPolygon_ok box hb mp
    rw [ho]
    match out, hP with
    | [], _ => exact good_nil box
    | [p], hP =>
      refine good_some box _ ?_
      intro v hv
      simp only [gverts, List.mem_flatten] at hv
      obtain ⟨r, hr, hv⟩ := hv
      exact hP p (by simp) r hr v hv
    | p :: q :: t, hP =>
      refine good_some box _ ?_
      intro v hv
      simp only [gverts, List.mem_flatten] at hv
      obtain ⟨r, ⟨pp, hpp, hr⟩, hv⟩ := hv
      exact hP pp hpp r hr v hv
  | h8 a b =>
    simp only [geometry]
    apply good_pre
    intro _
    cases hg : (⟨a, b⟩ : Bound α).isEmpty with
    | true => simpa using good_nil box
    | false =>
    simp only [Bool.false_eq_true, if_false]
    cases he : (clipBound box ⟨a, b⟩).isEmpty with
    | true => simpa using good_nil box
    | false =>
      obtain ⟨h1, h2⟩ := clipBound_in box ⟨a, b⟩ hb he
      simp only [Bool.false_eq_true, if_false]
      refine good_some box _ ?_
      intro v hv
      simp only [gverts, List.mem_cons, List.not_mem_nil, or_false] at hv
      rcases hv with rfl | rfl
      · exact h1
      · exact h2
  | hc gs ih =>
    simp only [geometry]
    apply good_pre
    intro _
    obtain ⟨l, hl, hP⟩ := collect_ok eb box gs ih
    rw [hl]
    match l, hP with
    | [], _ => exact good_nil box
    | [g], hP => exact good_some box _ (hP g (by simp))
    | g :: h :: t, hP =>
      refine good_some box _ ?_
      intro v hv
      simp only [gverts, List.mem_flatMap] at hv
      obtain ⟨g', hg', hv⟩ := hv
      exact hP g' hg' v hv

theorem geometry_total' (eb box : Bound α) (hb : BoxOK box) (g : Geom α) : ∃ r, geometry eb box g = some r := by
  obtain ⟨r, hr, -⟩ := geometry_good eb box hb g
  exact ⟨r, hr⟩

theorem geometry_vertices_in_box' (eb box : Bound α) (hb : BoxOK box) (g r : Geom α)
    (h : geometry eb box g = some (some r)) : ∀ v ∈ gverts r, InBox box v := by
  obtain ⟨r', hr, hP⟩ := geometry_good eb box hb g
  rw [h] at hr
  cases hr
  exact hP r rfl

theorem ring_witness' : ring (⟨⟨0, 0⟩, ⟨2, 2⟩⟩ : Bound ℚ) [⟨1, 1⟩, ⟨3, 1⟩, ⟨3, 3⟩, ⟨1, 3⟩, ⟨1, 1⟩] =
    some [⟨1, 1⟩, ⟨2, 1⟩, ⟨2, 2⟩, ⟨1, 2⟩, ⟨1, 1⟩] := by
  have hic : ptEqB (⟨1, 1⟩ : Pt ℚ)
      (([⟨1, 1⟩, ⟨3, 1⟩, ⟨3, 3⟩, ⟨1, 3⟩, ⟨1, 1⟩] : List (Pt ℚ)).getLast?.getD ⟨1, 1⟩) = true := by
    rw [ptEqB_iff]; rfl
  rw [ring_cons_eq, hic]
  have p1 : rpass (⟨⟨0, 0⟩, ⟨2, 2⟩⟩ : Bound ℚ) true 1 (some [⟨1, 1⟩, ⟨3, 1⟩, ⟨3, 3⟩, ⟨1, 3⟩, ⟨1, 1⟩]) =
      some [⟨1, 1⟩, ⟨3, 1⟩, ⟨3, 3⟩, ⟨1, 3⟩, ⟨1, 1⟩] := by
    simp only [rpass]
    rw [ringPass_eq _ 1 _ (intersect_1 _)]
    simp [passL, emit, ins_1m]
  rw [p1]
  have p2 : rpass (⟨⟨0, 0⟩, ⟨2, 2⟩⟩ : Bound ℚ) true 2 (some [⟨1, 1⟩, ⟨3, 1⟩, ⟨3, 3⟩, ⟨1, 3⟩, ⟨1, 1⟩]) =
      some [⟨1, 1⟩, ⟨2, 1⟩, ⟨2, 3⟩, ⟨1, 3⟩, ⟨1, 1⟩] := by
    simp only [rpass]
    rw [ringPass_eq _ 2 _ (intersect_2 _)]
    simp [passL, emit, ins_2']
    norm_num
  rw [p2]
  have p3 : rpass (⟨⟨0, 0⟩, ⟨2, 2⟩⟩ : Bound ℚ) true 4 (some [⟨1, 1⟩, ⟨2, 1⟩, ⟨2, 3⟩, ⟨1, 3⟩, ⟨1, 1⟩]) =
      some [⟨1, 1⟩, ⟨2, 1⟩, ⟨2, 3⟩, ⟨1, 3⟩, ⟨1, 1⟩] := by
    simp only [rpass]
    rw [ringPass_eq _ 4 _ (intersect_4 _)]
    simp [passL, emit, ins_4']
  rw [p3]
  have p4 : rpass (⟨⟨0, 0⟩, ⟨2, 2⟩⟩ : Bound ℚ) true 8 (some [⟨1, 1⟩, ⟨2, 1⟩, ⟨2, 3⟩, ⟨1, 3⟩, ⟨1, 1⟩]) =
      some [⟨1, 1⟩, ⟨2, 1⟩, ⟨2, 2⟩, ⟨1, 2⟩, ⟨1, 1⟩] := by
    simp only [rpass]
    rw [ringPass_eq _ 8 _ (intersect_8 _)]
    simp [passL, emit, ins_8']
    norm_num
  rw [p4]
  simp [rclose, ptEqB]


end C08

/-! ### the statements re-exported by `OrbProofs/C08.lean` (proofs live in the namespace `C08`) -/

theorem ring_total' (box : Bound α) (inp : List (Pt α)) : ∃ out, ring box inp = some out :=
  C08.ring_total' box inp

theorem ring_vertices_in_box' (box : Bound α) (hb : BoxOK box) (inp out : List (Pt α)) (h : ring box inp = some out) :
    ∀ v ∈ out, InBox box v :=
  C08.ring_vertices_in_box' box hb inp out h

/- FALSE of the model: see `C08.ring_vertices_on_input_false` in OrbProofs/C08Counter.lean (a triangle
   containing a box corner: Sutherland–Hodgman emits the corner).  Left `sorry`, not weakened.
   True replacements, proved in OrbProofs/C08Chain.lean: `C08.ring_vertices_on_chain` (every output vertex
   lies on a segment of the implicitly closed input chain OR is a box corner) and
   `C08.ring_vertices_in_hull` (every output vertex is in the convex hull of the input vertices). -/

theorem ring_inside_id' (box : Bound α) (inp : List (Pt α)) (hin : ∀ v ∈ inp, InBox box v) :
    ring box inp = some inp :=
  C08.ring_inside_id' box inp hin

theorem ring_disjoint_nil' (box : Bound α) (inp : List (Pt α))
    (h : (∀ v ∈ inp, v.x < box.lo.x) ∨ (∀ v ∈ inp, v.x > box.hi.x) ∨ (∀ v ∈ inp, v.y < box.lo.y) ∨ (∀ v ∈ inp, v.y > box.hi.y)) :
    ring box inp = some [] :=
  C08.ring_disjoint_nil' box inp h

theorem ring_hull_disjoint_nil' (box : Bound α) (inp : List (Pt α)) (C : Pt α → Prop) (hC : C08.Conv C)
    (hin : ∀ v ∈ inp, C v) (hno : ∀ v, InBox box v → ¬ C v) : ring box inp = some [] :=
  C08.ring_hull_disjoint_nil' box inp C hC hin hno

theorem ring_closed' (box : Bound α) (inp out : List (Pt α)) (hc : ClosedRing inp) (h : ring box inp = some out)
    (hne : out ≠ []) : ClosedRing out :=
  C08.ring_closed' box inp out hc h hne

theorem polygon_spec' (box : Bound α) (outer : List (Pt α)) (holes : List (List (Pt α))) :
    ∃ o hs, ring box outer = some o ∧ holes.mapM (ring box) = some hs ∧
      polygon box (outer :: holes) = some (if o = [] then [] else o :: hs.filter (· ≠ [])) :=
  C08.polygon_spec' box outer holes

theorem clipBound_is_intersection' (b c : Bound α) (hb : b.isEmpty = false) (hc : c.isEmpty = false) (p : Pt α) :
    InBox (clipBound b c) p ↔ (InBox b p ∧ InBox c p) :=
  C08.clipBound_is_intersection' b c hb hc p

theorem geometry_total' (eb box : Bound α) (hb : BoxOK box) (g : Geom α) : ∃ r, geometry eb box g = some r :=
  C08.geometry_total' eb box hb g

theorem geometry_vertices_in_box' (eb box : Bound α) (hb : BoxOK box) (g r : Geom α)
    (h : geometry eb box g = some (some r)) : ∀ v ∈ gverts r, InBox box v :=
  C08.geometry_vertices_in_box' eb box hb g r h

theorem ring_witness' : ring (⟨⟨0, 0⟩, ⟨2, 2⟩⟩ : Bound ℚ) [⟨1, 1⟩, ⟨3, 1⟩, ⟨3, 3⟩, ⟨1, 3⟩, ⟨1, 1⟩] =
    some [⟨1, 1⟩, ⟨2, 1⟩, ⟨2, 2⟩, ⟨1, 2⟩, ⟨1, 1⟩] :=
  C08.ring_witness'

end Orb.Clip
