/-
  Helper lemmas for C08.  The primed statements are re-exported by OrbProofs/C08.lean.
-/
import OrbProofs.C07Lemmas
import Mathlib.Algebra.Order.Field.Rat

namespace Orb.Clip
open Orb Orb.Core

/-! ### spec-side vocabulary (BoxOK, InBox, lerp, OnSeg … come from C07Lemmas) -/

section vocab
variable {α : Type} [Field α] [LinearOrder α] [IsStrictOrderedRing α]

/-- every vertex of a geometry value -/
def gverts : Geom α → List (Pt α)
  | .point p => [p]
  | .multiPoint ps | .lineString ps | .ring ps => ps
  | .multiLineString ls | .polygon ls => ls.flatten
  | .multiPolygon ps => ps.flatten.flatten
  | .bound a b => [a, b]
  | .collection gs => gs.flatMap gverts

/-- the ring is explicitly closed -/
def ClosedRing (r : List (Pt α)) : Prop := r ≠ [] ∧ r.head? = r.getLast?

end vocab

variable {α : Type} [Field α] [LinearOrder α] [IsStrictOrderedRing α]

theorem ring_total' (box : Bound α) (inp : List (Pt α)) : ∃ out, ring box inp = some out := by
  sorry

theorem ring_vertices_in_box' (box : Bound α) (hb : BoxOK box) (inp out : List (Pt α)) (h : ring box inp = some out) :
    ∀ v ∈ out, InBox box v := by
  sorry

theorem ring_vertices_on_input' (box : Bound α) (hb : BoxOK box) (inp out : List (Pt α)) (h : ring box inp = some out) :
    ∀ v ∈ out, v ∈ inp ∨ ∃ a ∈ inp, ∃ b ∈ inp, OnSeg a b v := by
  sorry

theorem ring_inside_id' (box : Bound α) (inp : List (Pt α)) (hin : ∀ v ∈ inp, InBox box v) :
    ring box inp = some inp := by
  sorry

theorem ring_disjoint_nil' (box : Bound α) (inp : List (Pt α))
    (h : (∀ v ∈ inp, v.x < box.lo.x) ∨ (∀ v ∈ inp, v.x > box.hi.x) ∨ (∀ v ∈ inp, v.y < box.lo.y) ∨ (∀ v ∈ inp, v.y > box.hi.y)) :
    ring box inp = some [] := by
  sorry

theorem ring_closed' (box : Bound α) (inp out : List (Pt α)) (hc : ClosedRing inp) (h : ring box inp = some out)
    (hne : out ≠ []) : ClosedRing out := by
  sorry

theorem polygon_spec' (box : Bound α) (outer : List (Pt α)) (holes : List (List (Pt α))) :
    ∃ o hs, ring box outer = some o ∧ holes.mapM (ring box) = some hs ∧
      polygon box (outer :: holes) = some (if o = [] then [] else o :: hs.filter (· ≠ [])) := by
  sorry

theorem clipBound_is_intersection' (b c : Bound α) (hb : b.isEmpty = false) (hc : c.isEmpty = false) (p : Pt α) :
    InBox (clipBound b c) p ↔ (InBox b p ∧ InBox c p) := by
  sorry

theorem geometry_total' (eb box : Bound α) (hb : BoxOK box) (g : Geom α) : ∃ r, geometry eb box g = some r := by
  sorry

theorem geometry_vertices_in_box' (eb box : Bound α) (hb : BoxOK box) (g r : Geom α)
    (h : geometry eb box g = some (some r)) : ∀ v ∈ gverts r, InBox box v := by
  sorry

theorem ring_witness' : ring (⟨⟨0, 0⟩, ⟨2, 2⟩⟩ : Bound ℚ) [⟨1, 1⟩, ⟨3, 1⟩, ⟨3, 3⟩, ⟨1, 3⟩, ⟨1, 1⟩] =
    some [⟨1, 1⟩, ⟨2, 1⟩, ⟨2, 2⟩, ⟨1, 2⟩, ⟨1, 1⟩] := by
  sorry

end Orb.Clip
