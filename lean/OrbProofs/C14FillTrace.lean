/-
  C14 fill, part 3: what `line` (with the ring flag) computes, as a list of visited cells.
-/
import OrbProofs.C14FillGeom

namespace Orb.TileCover
open Orb Orb.Tile

/-- the ring trace appended by a list of emitted cells; `prev` is the row of the cell emitted before -/
def rows : Option ℕ → List (ℕ × ℕ) → List (ℕ × ℕ)
  | _, [] => []
  | prev, c :: t => (if prev = some c.2 then [] else [c]) ++ rows (some c.2) t

def tileOf (zoom : ℕ) (c : ℕ × ℕ) : Tile := ⟨c.1, c.2, zoom⟩

section trace
variable {K : Type} [Field K] [LinearOrder K] [IsStrictOrderedRing K] [FloorRing K]
set_option linter.unusedSectionVars false

theorem emit_ring (zoom : Nat) (s : LState K) :
    (LState.emit (opsK K) zoom s).ring =
      s.ring.map (fun r => if s.y = s.prevY then r else r ++ [(⌊s.x⌋.toNat, ⌊s.y⌋.toNat)]) := by
  unfold LState.emit
  cases hr : s.ring with
  | none => simp
  | some r =>
    by_cases h : s.y = s.prevY
    · simp [h]
    · simp [h, opsK]

theorem emit_prevX (zoom : Nat) (s : LState K) : (LState.emit (opsK K) zoom s).prevX = s.x := rfl
theorem emit_prevY (zoom : Nat) (s : LState K) : (LState.emit (opsK K) zoom s).prevY = s.y := rfl

theorem inSq_of_inCl {a b : Pt K} {z w : ℤ} {t : K} (hz : 0 ≤ z) (hw : 0 ≤ w)
    (hx : InCl a.x b.x z t) (hy : InCl a.y b.y w t) :
    InSq (z.toNat, w.toNat) (segX a b t) (segY a b t) := by
  unfold InSq segX segY
  show ((z.toNat : ℕ) : K) ≤ _ ∧ _ ≤ ((z.toNat : ℕ) : K) + 1 ∧
    ((w.toNat : ℕ) : K) ≤ _ ∧ _ ≤ ((w.toNat : ℕ) : K) + 1
  rw [natCast_toNat hz, natCast_toNat hw]
  exact ⟨hx.1, hx.2, hy.1, hy.2⟩

/-- The walk of one segment: the cells visited after the current one, each with the parameter at which
    it is entered; what happens to the set, the ring trace and `prevX, prevY, y`. -/
theorem walk_trace (zoom : Nat) (a b : Pt K) (sx sy tdx tdy : K)
    (hax : 0 ≤ a.x) (hbx : 0 ≤ b.x) (hay : 0 ≤ a.y) (hby : 0 ≤ b.y) (s' : LState K) :
    ∀ (fuel : Nat) (tMX tMY : Option K) (s : LState K) (z w : ℤ) (τ : K),
      AxInv a.x b.x z tMX sx tdx → AxInv a.y b.y w tMY sy tdy → s.x = z → s.y = w →
      s.prevX = z → s.prevY = w →
      0 ≤ τ → τ ≤ 1 → InCl a.x b.x z τ → InCl a.y b.y w τ → LeOpt τ tMX → LeOpt τ tMY →
      walk (opsK K) zoom sx sy tdx tdy fuel tMX tMY s = some s' →
      ∃ l : List (PC K),
        List.IsChain (PLink a b) (⟨(z.toNat, w.toNat), τ⟩ :: l) ∧
        (∀ v ∈ l, v.τ ≤ 1) ∧
        InSq (lastOf (⟨(z.toNat, w.toNat), τ⟩ : PC K) l).c (segX a b 1) (segY a b 1) ∧
        s'.set = (l.map fun v => tileOf zoom v.c).reverse ++ s.set ∧
        s'.ring = s.ring.map (· ++ rows (some w.toNat) (l.map (·.c))) ∧
        s'.y = (((lastOf (⟨(z.toNat, w.toNat), τ⟩ : PC K) l).c.2 : ℕ) : K) ∧
        s'.prevX = (((lastOf (⟨(z.toNat, w.toNat), τ⟩ : PC K) l).c.1 : ℕ) : K) ∧
        s'.prevY = (((lastOf (⟨(z.toNat, w.toNat), τ⟩ : PC K) l).c.2 : ℕ) : K) := by
  intro fuel
  have hexit : ∀ (tMX tMY : Option K) (s : LState K) (z w : ℤ) (τ : K),
      AxInv a.x b.x z tMX sx tdx → AxInv a.y b.y w tMY sy tdy → s.x = z → s.y = w →
      s.prevX = z → s.prevY = w →
      ¬ (ltOne tMX || ltOne tMY) = true → s = s' →
      ∃ l : List (PC K),
        List.IsChain (PLink a b) (⟨(z.toNat, w.toNat), τ⟩ :: l) ∧
        (∀ v ∈ l, v.τ ≤ 1) ∧
        InSq (lastOf (⟨(z.toNat, w.toNat), τ⟩ : PC K) l).c (segX a b 1) (segY a b 1) ∧
        s'.set = (l.map fun v => tileOf zoom v.c).reverse ++ s.set ∧
        s'.ring = s.ring.map (· ++ rows (some w.toNat) (l.map (·.c))) ∧
        s'.y = (((lastOf (⟨(z.toNat, w.toNat), τ⟩ : PC K) l).c.2 : ℕ) : K) ∧
        s'.prevX = (((lastOf (⟨(z.toNat, w.toNat), τ⟩ : PC K) l).c.1 : ℕ) : K) ∧
        s'.prevY = (((lastOf (⟨(z.toNat, w.toNat), τ⟩ : PC K) l).c.2 : ℕ) : K) := by
    intro tMX tMY s z w τ hx hy hsx hsy hpx hpy hc hs
    simp only [Bool.or_eq_true, not_or, Bool.not_eq_true] at hc
    subst hs
    obtain ⟨h1, h2⟩ := ax_exit hx hc.1
    obtain ⟨h3, h4⟩ := ax_exit hy hc.2
    have hz := ax_nonneg hx hax hbx
    have hw := ax_nonneg hy hay hby
    refine ⟨[], List.IsChain.singleton _, by simp, ?_, by simp, ?_, ?_, ?_, ?_⟩
    · show InSq (z.toNat, w.toNat) (segX a b 1) (segY a b 1)
      apply inSq_of_inCl hz hw
      · exact ⟨by rw [one_mul]; linarith, by rw [one_mul]; linarith⟩
      · exact ⟨by rw [one_mul]; linarith, by rw [one_mul]; linarith⟩
    · simp only [List.map_nil, rows, List.append_nil]
      cases s.ring <;> rfl
    · show s.y = ((w.toNat : ℕ) : K)
      rw [natCast_toNat hw]; exact hsy
    · show s.prevX = ((z.toNat : ℕ) : K)
      rw [natCast_toNat hz]; exact hpx
    · show s.prevY = ((w.toNat : ℕ) : K)
      rw [natCast_toNat hw]; exact hpy
  induction fuel with
  | zero =>
    intro tMX tMY s z w τ hx hy hsx hsy hpx hpy hτ0 hτ1 hzτ hwτ hτX hτY hwalk
    by_cases hc : (ltOne tMX || ltOne tMY) = true
    · simp [walk, hc] at hwalk
    · simp only [walk, hc] at hwalk
      exact hexit tMX tMY s z w τ hx hy hsx hsy hpx hpy hc (by simpa using hwalk)
  | succ n ih =>
    intro tMX tMY s z w τ hx hy hsx hsy hpx hpy hτ0 hτ1 hzτ hwτ hτX hτY hwalk
    have hz := ax_nonneg hx hax hbx
    have hw := ax_nonneg hy hay hby
    by_cases hc : (ltOne tMX || ltOne tMY) = true
    · by_cases hl : ltInf tMX tMY = true
      · have hX := ltOne_of_ltInf hc hl
        obtain ⟨m, rfl, hm1⟩ := some_of_ltOne hX
        obtain ⟨z', hz', hinv, hstep, _⟩ := ax_step hx hX
        have hz'0 := ax_nonneg hinv hax hbx
        obtain ⟨hedge, htd⟩ := ax_edge hx hz'
        have hτm : τ ≤ m := hτX
        have hmY : LeOpt m tMY := leOpt_of_ltInf hl
        have hwm : InCl a.y b.y w m := ax_mid hy hwτ hτm hmY
        have hzm : InCl a.x b.x z m := ax_mid hx hzτ hτm (show LeOpt m (some m) from le_rfl)
        simp only [walk, hc, hl, if_true] at hwalk
        have e : s.x + sx = (z' : K) := by rw [hsx, hz']
        have hsx' : (LState.emit (opsK K) zoom { s with x := s.x + sx }).x = (z' : K) := by
          rw [emit_x]; exact e
        have hsy' : (LState.emit (opsK K) zoom { s with x := s.x + sx }).y = (w : K) := by
          rw [emit_y]; exact hsy
        have hpx' : (LState.emit (opsK K) zoom { s with x := s.x + sx }).prevX = (z' : K) := by
          rw [emit_prevX]; exact e
        have hpy' : (LState.emit (opsK K) zoom { s with x := s.x + sx }).prevY = (w : K) := by
          rw [emit_prevY]; exact hsy
        have hemit : (LState.emit (opsK K) zoom { s with x := s.x + sx }).set =
            tileOf zoom (z'.toNat, w.toNat) :: s.set := by
          rw [emit_set]
          show (⟨⌊s.x + sx⌋.toNat, ⌊s.y⌋.toNat, zoom⟩ : Tile) :: s.set = _
          rw [hsx, hsy, hz', Int.floor_intCast, Int.floor_intCast]; rfl
        have hring : (LState.emit (opsK K) zoom { s with x := s.x + sx }).ring = s.ring := by
          rw [emit_ring]
          show s.ring.map (fun r => if s.y = s.prevY then r else _) = s.ring
          rw [hsy, hpy]; simp
        have hmX' : LeOpt m ((some m).map (· + tdx)) := by
          show m ≤ m + tdx
          linarith
        obtain ⟨l, hch, hl1, hlast, hset, hrg, hy', hpx'', hpy''⟩ :=
          ih _ _ _ z' w m hinv hy hsx' hsy' hpx' hpy' (le_trans hτ0 hτm) hm1.le
            hedge hwm hmX' hmY hwalk
        refine ⟨⟨(z'.toNat, w.toNat), m⟩ :: l, ?_, ?_, hlast, ?_, ?_, hy', hpx'', hpy''⟩
        · refine List.IsChain.cons_cons ⟨hτm, ?_, ?_⟩ hch
          · exact inSq_of_inCl hz hw hzm hwm
          · exact inSq_of_inCl hz'0 hw hedge hwm
        · intro v hv
          rcases List.mem_cons.mp hv with h | h
          · rw [h]; exact hm1.le
          · exact hl1 v h
        · rw [hset, hemit]; simp
        · rw [hrg, hring]
          cases s.ring with
          | none => rfl
          | some r => simp [rows]
      · have hY := ltOne_of_not_ltInf hc hl
        obtain ⟨m, rfl, hm1⟩ := some_of_ltOne hY
        obtain ⟨w', hw', hinv, hstep, _⟩ := ax_step hy hY
        have hw'0 := ax_nonneg hinv hay hby
        obtain ⟨hedge, htd⟩ := ax_edge hy hw'
        have hτm : τ ≤ m := hτY
        have hmX : LeOpt m tMX := leOpt_of_not_ltInf hl
        have hzm : InCl a.x b.x z m := ax_mid hx hzτ hτm hmX
        have hwm : InCl a.y b.y w m := ax_mid hy hwτ hτm (show LeOpt m (some m) from le_rfl)
        simp only [walk, hc, hl, if_true] at hwalk
        have e : s.y + sy = (w' : K) := by rw [hsy, hw']
        have hsx' : (LState.emit (opsK K) zoom { s with y := s.y + sy }).x = (z : K) := by
          rw [emit_x]; exact hsx
        have hsy' : (LState.emit (opsK K) zoom { s with y := s.y + sy }).y = (w' : K) := by
          rw [emit_y]; exact e
        have hpx' : (LState.emit (opsK K) zoom { s with y := s.y + sy }).prevX = (z : K) := by
          rw [emit_prevX]; exact hsx
        have hpy' : (LState.emit (opsK K) zoom { s with y := s.y + sy }).prevY = (w' : K) := by
          rw [emit_prevY]; exact e
        have hemit : (LState.emit (opsK K) zoom { s with y := s.y + sy }).set =
            tileOf zoom (z.toNat, w'.toNat) :: s.set := by
          rw [emit_set]
          show (⟨⌊s.x⌋.toNat, ⌊s.y + sy⌋.toNat, zoom⟩ : Tile) :: s.set = _
          rw [hsx, hsy, hw', Int.floor_intCast, Int.floor_intCast]; rfl
        have hww' : w'.toNat ≠ w.toNat := by omega
        have hring : (LState.emit (opsK K) zoom { s with y := s.y + sy }).ring =
            s.ring.map (· ++ [(z.toNat, w'.toNat)]) := by
          rw [emit_ring]
          show s.ring.map (fun r => if s.y + sy = s.prevY then r else
            r ++ [(⌊s.x⌋.toNat, ⌊s.y + sy⌋.toNat)]) = _
          have hne : ¬ ((w' : K) = (w : K)) := by
            intro h
            have := Int.cast_injective h
            omega
          rw [e, hpy, hsx, Int.floor_intCast, Int.floor_intCast]
          simp [hne]
        have hmY' : LeOpt m ((some m).map (· + tdy)) := by
          show m ≤ m + tdy
          linarith
        obtain ⟨l, hch, hl1, hlast, hset, hrg, hy', hpx'', hpy''⟩ :=
          ih _ _ _ z w' m hx hinv hsx' hsy' hpx' hpy' (le_trans hτ0 hτm) hm1.le
            hzm hedge hmX hmY' hwalk
        refine ⟨⟨(z.toNat, w'.toNat), m⟩ :: l, ?_, ?_, hlast, ?_, ?_, hy', hpx'', hpy''⟩
        · refine List.IsChain.cons_cons ⟨hτm, ?_, ?_⟩ hch
          · exact inSq_of_inCl hz hw hzm hwm
          · exact inSq_of_inCl hz hw'0 hzm hedge
        · intro v hv
          rcases List.mem_cons.mp hv with h | h
          · rw [h]; exact hm1.le
          · exact hl1 v h
        · rw [hset, hemit]; simp
        · rw [hrg, hring]
          have hne2 : ¬ (w.toNat = w'.toNat) := by omega
          cases s.ring with
          | none => rfl
          | some r => simp [rows, hne2]
    · simp only [walk, hc] at hwalk
      exact hexit tMX tMY s z w τ hx hy hsx hsy hpx hpy hc (by simpa using hwalk)

/-- the cell of a point -/
def cellOf (a : Pt K) : ℕ × ℕ := (⌊a.x⌋.toNat, ⌊a.y⌋.toNat)

/-- State between two segments: nothing emitted yet (`none`), or `p` is the last emitted cell. -/
def St (zoom : ℕ) (s : LState K) : Option (ℕ × ℕ) → Prop
  | none => s.prevX = -1 ∧ s.prevY = -1
  | some p => s.prevX = (p.1 : K) ∧ s.prevY = (p.2 : K) ∧ s.y = (p.2 : K) ∧ tileOf zoom p ∈ s.set

theorem lastOf_mem {β : Type} (u : β) (l : List β) : lastOf u l ∈ u :: l := by
  induction l generalizing u with
  | nil => simp [lastOf]
  | cons b t ih => rw [lastOf]; exact List.mem_cons_of_mem _ (ih b)

theorem lastOf_map {β γ : Type} (f : β → γ) (u : β) (l : List β) :
    lastOf (f u) (l.map f) = f (lastOf u l) := by
  induction l generalizing u with
  | nil => rfl
  | cons b t ih => simp only [List.map_cons, lastOf]; exact ih b

theorem inSq_cellOf (a : Pt K) (hax : 0 ≤ a.x) (hay : 0 ≤ a.y) : InSq (cellOf a) a.x a.y := by
  unfold InSq cellOf
  show ((⌊a.x⌋.toNat : ℕ) : K) ≤ _ ∧ _ ≤ ((⌊a.x⌋.toNat : ℕ) : K) + 1 ∧
    ((⌊a.y⌋.toNat : ℕ) : K) ≤ _ ∧ _ ≤ ((⌊a.y⌋.toNat : ℕ) : K) + 1
  rw [natCast_toNat (Int.floor_nonneg.mpr hax), natCast_toNat (Int.floor_nonneg.mpr hay)]
  exact ⟨Int.floor_le _, (Int.lt_floor_add_one _).le, Int.floor_le _, (Int.lt_floor_add_one _).le⟩

/-- One non-degenerate segment of `line`, from a state that satisfies `St`. -/
theorem segment_trace (zoom fuel : Nat) (a b : Pt K) (s s' : LState K)
    (hax : 0 ≤ a.x) (hay : 0 ≤ a.y) (hbx : 0 ≤ b.x) (hby : 0 ≤ b.y)
    (cur : Option (ℕ × ℕ)) (hst : St zoom s cur) (hab : a ≠ b)
    (h : segment (opsK K) zoom fuel s a b = some s') :
    ∃ l : List (PC K),
      List.IsChain (PLink a b) (⟨cellOf a, 0⟩ :: l) ∧ (∀ v ∈ l, v.τ ≤ 1) ∧
      InSq (lastOf (⟨cellOf a, 0⟩ : PC K) l).c (segX a b 1) (segY a b 1) ∧
      (∀ c ∈ ((⟨cellOf a, 0⟩ : PC K) :: l).map (·.c), tileOf zoom c ∈ s'.set) ∧
      (∀ t ∈ s.set, t ∈ s'.set) ∧
      s'.ring = s.ring.map (· ++ rows (cur.map (·.2)) (((⟨cellOf a, 0⟩ : PC K) :: l).map (·.c))) ∧
      St zoom s' (some (lastOf (⟨cellOf a, 0⟩ : PC K) l).c) := by
  rw [segment_eq] at h
  have hne : ¬ (b.y - a.y == 0 && b.x - a.x == 0) = true := by
    intro hc
    simp only [Bool.and_eq_true, beq_iff_eq, sub_eq_zero] at hc
    apply hab
    cases a; cases b; simp_all
  simp only [hne] at h
  have hfx : (0 : ℤ) ≤ ⌊a.x⌋ := Int.floor_nonneg.mpr hax
  have hfy : (0 : ℤ) ≤ ⌊a.y⌋ := Int.floor_nonneg.mpr hay
  have hx0 : InCl a.x b.x ⌊a.x⌋ 0 := by
    refine ⟨?_, ?_⟩
    · rw [zero_mul, add_zero]; exact Int.floor_le a.x
    · rw [zero_mul, add_zero]; exact (Int.lt_floor_add_one a.x).le
  have hy0 : InCl a.y b.y ⌊a.y⌋ 0 := by
    refine ⟨?_, ?_⟩
    · rw [zero_mul, add_zero]; exact Int.floor_le a.y
    · rw [zero_mul, add_zero]; exact (Int.lt_floor_add_one a.y).le
  -- the state at the start of the walk
  obtain ⟨s1, hs1, h1x, h1y, h1px, h1py, h1mem, h1sup, h1ring⟩ :
      ∃ s1 : LState K,
        s1 = (if !(((⌊a.x⌋ : ℤ) : K) == s.prevX) || !(((⌊a.y⌋ : ℤ) : K) == s.prevY) then
          LState.emit (opsK K) zoom { s with x := ((⌊a.x⌋ : ℤ) : K), y := ((⌊a.y⌋ : ℤ) : K) }
         else { s with x := ((⌊a.x⌋ : ℤ) : K), y := ((⌊a.y⌋ : ℤ) : K) }) ∧
        s1.x = ((⌊a.x⌋ : ℤ) : K) ∧ s1.y = ((⌊a.y⌋ : ℤ) : K) ∧
        s1.prevX = ((⌊a.x⌋ : ℤ) : K) ∧ s1.prevY = ((⌊a.y⌋ : ℤ) : K) ∧
        tileOf zoom (cellOf a) ∈ s1.set ∧
        (∀ c ∈ s.set, c ∈ s1.set) ∧
        s1.ring = s.ring.map (· ++ (if cur.map (·.2) = some (cellOf a).2 then [] else [cellOf a])) := by
    refine ⟨_, rfl, ?_⟩
    by_cases hcnd : (!(((⌊a.x⌋ : ℤ) : K) == s.prevX) || !(((⌊a.y⌋ : ℤ) : K) == s.prevY)) = true
    · simp only [hcnd, if_true]
      have hset : (LState.emit (opsK K) zoom
          { s with x := ((⌊a.x⌋ : ℤ) : K), y := ((⌊a.y⌋ : ℤ) : K) }).set =
          tileOf zoom (cellOf a) :: s.set := by
        rw [emit_set]
        show (⟨⌊((⌊a.x⌋ : ℤ) : K)⌋.toNat, ⌊((⌊a.y⌋ : ℤ) : K)⌋.toNat, zoom⟩ : Tile) :: s.set = _
        rw [Int.floor_intCast, Int.floor_intCast]; rfl
      refine ⟨rfl, rfl, rfl, rfl, ?_, ?_, ?_⟩
      · rw [hset]; exact List.mem_cons_self
      · intro c hc
        rw [hset]
        exact List.mem_cons_of_mem _ hc
      · rw [emit_ring]
        show s.ring.map (fun r => if ((⌊a.y⌋ : ℤ) : K) = s.prevY then r else
          r ++ [(⌊((⌊a.x⌋ : ℤ) : K)⌋.toNat, ⌊((⌊a.y⌋ : ℤ) : K)⌋.toNat)]) = _
        rw [Int.floor_intCast, Int.floor_intCast]
        have hiff : (((⌊a.y⌋ : ℤ) : K) = s.prevY) ↔ (cur.map (·.2) = some (cellOf a).2) := by
          cases cur with
          | none =>
            obtain ⟨_, p2⟩ := hst
            simp only [Option.map_none, reduceCtorEq, iff_false]
            intro he
            have : ((⌊a.y⌋ : ℤ) : K) = ((-1 : ℤ) : K) := by rw [he, p2]; simp
            have := Int.cast_injective this
            omega
          | some p =>
            obtain ⟨_, p2, _, _⟩ := hst
            simp only [Option.map_some, Option.some.injEq, cellOf]
            rw [p2]
            constructor
            · intro he
              have : ((⌊a.y⌋ : ℤ) : K) = (((p.2 : ℕ) : ℤ) : K) := by rw [he]; simp
              have := Int.cast_injective this
              omega
            · intro he
              rw [he, natCast_toNat hfy]
        cases s.ring with
        | none => rfl
        | some r =>
          by_cases hc2 : ((⌊a.y⌋ : ℤ) : K) = s.prevY
          · simp [hc2, hiff.mp hc2]
          · have : ¬ (cur.map (·.2) = some (cellOf a).2) := fun hh => hc2 (hiff.mpr hh)
            simp [hc2, this]
            rfl
    · have hcnd' := hcnd
      simp only [Bool.or_eq_true, Bool.not_eq_true', beq_eq_false_iff_ne, ne_eq, not_or,
        not_not] at hcnd'
      obtain ⟨e1, e2⟩ := hcnd'
      simp only [hcnd]
      cases cur with
      | none =>
        exfalso
        obtain ⟨p1, _⟩ := hst
        have : ((⌊a.x⌋ : ℤ) : K) = ((-1 : ℤ) : K) := by rw [e1, p1]; simp
        have := Int.cast_injective this
        omega
      | some p =>
        obtain ⟨p1, p2, _, pm⟩ := hst
        have q1 : ⌊a.x⌋.toNat = p.1 := by
          have : ((⌊a.x⌋ : ℤ) : K) = (((p.1 : ℕ) : ℤ) : K) := by rw [e1, p1]; simp
          have := Int.cast_injective this
          omega
        have q2 : ⌊a.y⌋.toNat = p.2 := by
          have : ((⌊a.y⌋ : ℤ) : K) = (((p.2 : ℕ) : ℤ) : K) := by rw [e2, p2]; simp
          have := Int.cast_injective this
          omega
        have hcp : cellOf a = p := Prod.ext q1 q2
        refine ⟨rfl, rfl, e1.symm, e2.symm, ?_, fun c hc => hc, ?_⟩
        · rw [hcp]; exact pm
        · show s.ring = _
          rw [hcp]
          cases s.ring with
          | none => rfl
          | some r => simp
  rw [← hs1] at h
  obtain ⟨l, hch, hl1, hlast, hset, hrg, hy', hpx', hpy'⟩ :=
    walk_trace zoom a b _ _ _ _ hax hbx hay hby s' fuel _ _ s1 ⌊a.x⌋ ⌊a.y⌋ 0
      (ax_init a.x b.x) (ax_init a.y b.y) h1x h1y h1px h1py
      le_rfl zero_le_one hx0 hy0 (ax_tM_nonneg (ax_init a.x b.x)) (ax_tM_nonneg (ax_init a.y b.y)) h
  have hmemAll : ∀ c ∈ ((⟨cellOf a, 0⟩ : PC K) :: l).map (·.c), tileOf zoom c ∈ s'.set := by
    intro c hc
    rw [hset]
    simp only [List.map_cons, List.mem_cons] at hc
    rcases hc with hc | hc
    · rw [hc]
      exact List.mem_append_right _ h1mem
    · apply List.mem_append_left
      rw [List.mem_reverse, List.mem_map]
      obtain ⟨v, hv, rfl⟩ := List.mem_map.mp hc
      exact ⟨v, hv, rfl⟩
  refine ⟨l, hch, hl1, hlast, hmemAll, ?_, ?_, ⟨hpx', hpy', hy', ?_⟩⟩
  · intro t ht
    rw [hset]
    exact List.mem_append_right _ (h1sup t ht)
  · rw [hrg, h1ring]
    cases s.ring with
    | none => rfl
    | some r =>
      simp only [Option.map_some, List.map_cons, rows, List.append_assoc]
      rfl
  · apply hmemAll
    exact List.mem_map.mpr ⟨_, lastOf_mem _ l, rfl⟩

/-! ### the whole segment loop -/

/-- last emitted cell after emitting `l` when `cur` was the last one before -/
def lastO {β : Type} : Option β → List β → Option β
  | cur, [] => cur
  | _, c :: t => lastO (some c) t

/-- `R` holds between consecutive cells of `cur :: l` -/
def chainO {β : Type} (R : β → β → Prop) : Option β → List β → Prop
  | _, [] => True
  | none, c :: t => chainO R (some c) t
  | some p, c :: t => R p c ∧ chainO R (some c) t

/-- parity of the `RA` transitions along `cur :: l` -/
def raParO (i j : ℕ) : Option (ℕ × ℕ) → List (ℕ × ℕ) → Bool
  | _, [] => false
  | none, c :: t => raParO i j (some c) t
  | some p, c :: t => RA (rightOf i) j p c != raParO i j (some c) t

theorem lastO_append {β : Type} (cur : Option β) (l1 l2 : List β) :
    lastO cur (l1 ++ l2) = lastO (lastO cur l1) l2 := by
  induction l1 generalizing cur with
  | nil => rfl
  | cons c t ih => simp only [List.cons_append, lastO]; exact ih _

theorem lastO_cons_eq {β : Type} (cur : Option β) (c : β) (t : List β) :
    lastO cur (c :: t) = some (lastOf c t) := by
  induction t generalizing cur c with
  | nil => rfl
  | cons d t ih => simp only [lastO, lastOf] at ih ⊢; exact ih (some c) d

theorem chainO_append {β : Type} (R : β → β → Prop) (cur : Option β) (l1 l2 : List β) :
    chainO R cur (l1 ++ l2) ↔ chainO R cur l1 ∧ chainO R (lastO cur l1) l2 := by
  induction l1 generalizing cur with
  | nil => simp [chainO, lastO]
  | cons c t ih =>
    cases cur with
    | none => simp only [List.cons_append, chainO, lastO]; exact ih _
    | some p => simp only [List.cons_append, chainO, lastO]; rw [ih]; tauto

theorem raParO_append (i j : ℕ) (cur : Option (ℕ × ℕ)) (l1 l2 : List (ℕ × ℕ)) :
    raParO i j cur (l1 ++ l2) = (raParO i j cur l1 != raParO i j (lastO cur l1) l2) := by
  induction l1 generalizing cur with
  | nil => simp [raParO, lastO]
  | cons c t ih =>
    cases cur with
    | none => simp only [List.cons_append, raParO, lastO]; exact ih _
    | some p =>
      simp only [List.cons_append, raParO, lastO]; rw [ih]
      cases RA (rightOf i) j p c <;> cases raParO i j (some c) t <;>
        cases raParO i j (lastO (some c) t) l2 <;> rfl

theorem raPar_eq_raParO (i j : ℕ) (c : ℕ × ℕ) (t : List (ℕ × ℕ)) :
    raPar i j (c :: t) = raParO i j (some c) t := by
  induction t generalizing c with
  | nil => rfl
  | cons d t ih => simp only [raPar, raParO]; rw [ih]

theorem rows_append (cur : Option (ℕ × ℕ)) (l1 l2 : List (ℕ × ℕ)) :
    rows (cur.map (·.2)) (l1 ++ l2) =
      rows (cur.map (·.2)) l1 ++ rows ((lastO cur l1).map (·.2)) l2 := by
  induction l1 generalizing cur with
  | nil => simp [rows, lastO]
  | cons c t ih =>
    simp only [List.cons_append, rows, lastO, List.append_assoc]
    have := ih (some c)
    simp only [Option.map_some] at this
    rw [this]

theorem chainO_of_plink (a b : Pt K) (l : List (PC K)) (u : PC K)
    (h : List.IsChain (PLink a b) (u :: l)) : chainO Near (some u.c) (l.map (·.c)) := by
  induction l generalizing u with
  | nil => trivial
  | cons v t ih =>
    obtain ⟨⟨_, h1, h2⟩, hrest⟩ := List.isChain_cons_cons.mp h
    exact ⟨near_of_inSq h1 h2, ih v hrest⟩

/-- crossing indicator of `polygon_interior_full` for the edge `a b` and the horizontal ray from `q` -/
def xCross (q a b : Pt K) : Bool :=
  decide ((a.y > q.y) ≠ (b.y > q.y)) &&
    decide (q.x < a.x + (q.y - a.y) * (b.x - a.x) / (b.y - a.y))

/-- parity of the number of crossing edges of an open chain -/
def xPar (q : Pt K) : List (Pt K) → Bool
  | a :: b :: t => xCross q a b != xPar q (b :: t)
  | _ => false

/-- the potential of a vertex `v` handled in the cell `c` -/
def psi (i j : ℕ) (q : Pt K) (c : ℕ × ℕ) (v : Pt K) : Bool := Rt i j c && decide (q.y < v.y)

theorem xFrom_zero (q a b : Pt K) : xFrom q a b 0 = xCross q a b := by
  simp only [xFrom, xCross, sP, segY, xint, zero_mul, add_zero, one_mul, add_sub_cancel, gt_iff_lt]
  by_cases h1 : q.y < a.y <;> by_cases h2 : q.y < b.y <;> simp [h1, h2] <;> congr

theorem xCross_self (q a : Pt K) : xCross q a a = false := by
  simp [xCross]

theorem segment_degenerate (zoom fuel : Nat) (s : LState K) (a : Pt K) :
    segment (opsK K) zoom fuel s a a = some s := by
  rw [segment_eq]; simp

/-- The segment loop of `line` as a list of visited cells: set, ring trace, final state, adjacency of
    consecutive cells, and the potential identity for a query point `q` strictly inside an unvisited
    tile `(i, j)`. -/
theorem lineSegs_trace (zoom fuel : Nat) (i j : ℕ) (q : Pt K)
    (hqx : (i : K) < q.x ∧ q.x < (i : K) + 1) (hqy : (j : K) < q.y ∧ q.y < (j : K) + 1) :
    ∀ (pts : List (Pt K)) (s s' : LState K) (cur : Option (ℕ × ℕ)),
      (∀ p ∈ pts, 0 ≤ p.x ∧ 0 ≤ p.y) → St zoom s cur →
      (∀ p v, cur = some p → pts.head? = some v → InSq p v.x v.y) →
      lineSegs (opsK K) zoom fuel s pts = some s' →
      ∃ cells : List (ℕ × ℕ),
        (∀ c ∈ cells, tileOf zoom c ∈ s'.set) ∧ (∀ t ∈ s.set, t ∈ s'.set) ∧
        s'.ring = s.ring.map (· ++ rows (cur.map (·.2)) cells) ∧
        St zoom s' (lastO cur cells) ∧
        chainO Near cur cells ∧
        (∀ p v, lastO cur cells = some p → pts.getLast? = some v → InSq p v.x v.y) ∧
        (cur = none → ∀ c v, cells.head? = some c → pts.head? = some v → c = cellOf v) ∧
        ((∀ c ∈ cur.toList ++ cells, c ≠ (i, j)) → ∀ v0 vl, pts.head? = some v0 →
          pts.getLast? = some vl →
          (xPar q pts != raParO i j cur cells) =
            (psi i j q ((lastO cur cells).getD (cellOf vl)) vl != psi i j q (cur.getD (cellOf v0)) v0)) := by
  intro pts
  induction pts with
  | nil =>
    intro s s' cur _ hst _ h
    simp only [lineSegs, Option.some.injEq] at h
    subst h
    refine ⟨[], by simp, fun t ht => ht, ?_, hst, trivial, by simp, by simp, by simp⟩
    cases s.ring <;> simp [rows]
  | cons a rest ih =>
    cases rest with
    | nil =>
      intro s s' cur _ hst hin h
      simp only [lineSegs, Option.some.injEq] at h
      subst h
      refine ⟨[], by simp, fun t ht => ht, ?_, hst, trivial, ?_, by simp, ?_⟩
      · cases s.ring <;> simp [rows]
      · intro p v hp hv
        exact hin p v hp (by simpa using hv)
      · intro _ v0 vl h0 hl
        simp only [List.head?_cons, Option.some.injEq, List.getLast?_singleton] at h0 hl
        subst h0; subst hl
        simp [xPar, raParO, lastO]
    | cons b rest =>
      intro s s' cur hnn hst hin h
      simp only [lineSegs] at h
      have ha := hnn a (by simp)
      have hb := hnn b (by simp)
      have hnn' : ∀ p ∈ b :: rest, 0 ≤ p.x ∧ 0 ≤ p.y := fun p hp => hnn p (List.mem_cons_of_mem _ hp)
      by_cases hab : a = b
      · -- degenerate segment: skipped
        subst hab
        rw [segment_degenerate] at h
        simp only [Option.bind_some] at h
        obtain ⟨cells, c1, c2, c3, c4, c5, c6, c7, c8⟩ := ih s s' cur hnn' hst
          (fun p v hp hv => hin p v hp (by simpa using hv)) h
        refine ⟨cells, c1, c2, c3, c4, c5, ?_, ?_, ?_⟩
        · intro p v hp hv
          rw [List.getLast?_cons_cons] at hv
          exact c6 p v hp hv
        · intro hc c v h1 h2
          exact c7 hc c v h1 (by simpa using h2)
        · intro hne v0 vl h0 hl
          rw [List.getLast?_cons_cons] at hl
          have := c8 hne v0 vl (by simpa using h0) hl
          simp only [xPar, xCross_self, Bool.false_bne]
          exact this
      · cases hseg : segment (opsK K) zoom fuel s a b with
        | none => rw [hseg] at h; simp at h
        | some s1 =>
          rw [hseg] at h
          simp only [Option.bind_some] at h
          obtain ⟨l, hch, hl1, hlast, hmem1, hsup1, hring1, hst1⟩ :=
            segment_trace zoom fuel a b s s1 ha.1 ha.2 hb.1 hb.2 cur hst hab hseg
          set u0 : PC K := ⟨cellOf a, 0⟩ with hu0
          set last1 := (lastOf u0 l).c with hlast1
          have hlastb : InSq last1 b.x b.y := by
            have e1 : segX a b 1 = b.x := by simp [segX]
            have e2 : segY a b 1 = b.y := by simp [segY]
            rw [e1, e2] at hlast
            exact hlast
          obtain ⟨cells2, c1, c2, c3, c4, c5, c6, c7, c8⟩ := ih s1 s' (some last1) hnn' hst1
            (fun p v hp hv => by
              simp only [Option.some.injEq] at hp
              simp only [List.head?_cons, Option.some.injEq] at hv
              subst hp; subst hv; exact hlastb) h
          set cells1 := (u0 :: l).map (·.c) with hcells1
          have hcells1' : cells1 = cellOf a :: l.map (·.c) := rfl
          have hlastO1 : lastO cur cells1 = some last1 := by
            rw [hcells1', lastO_cons_eq, hlast1, ← lastOf_map (fun v : PC K => v.c) u0 l]
          have hlast1mem : last1 ∈ cells1 :=
            List.mem_map.mpr ⟨_, lastOf_mem u0 l, rfl⟩
          have hin0 : InSq (cellOf a) a.x a.y := inSq_cellOf a ha.1 ha.2
          refine ⟨cells1 ++ cells2, ?_, ?_, ?_, ?_, ?_, ?_, ?_, ?_⟩
          · intro c hc
            rcases List.mem_append.mp hc with hc | hc
            · exact c2 _ (hmem1 c hc)
            · exact c1 c hc
          · exact fun t ht => c2 t (hsup1 t ht)
          · rw [c3, hring1, rows_append, hlastO1]
            cases s.ring with
            | none => rfl
            | some r => simp
          · rw [lastO_append, hlastO1]; exact c4
          · rw [chainO_append, hlastO1]
            refine ⟨?_, c5⟩
            have hrest : chainO Near (some (cellOf a)) (l.map (·.c)) :=
              chainO_of_plink a b l u0 hch
            rw [hcells1']
            cases cur with
            | none => exact hrest
            | some p => exact ⟨near_of_inSq (hin p a rfl rfl) hin0, hrest⟩
          · intro p v hp hv
            rw [lastO_append, hlastO1] at hp
            rw [List.getLast?_cons_cons] at hv
            exact c6 p v hp hv
          · intro _ c v h1 h2
            simp only [hcells1', List.cons_append, List.head?_cons, Option.some.injEq] at h1 h2
            rw [← h1, ← h2]
          · intro hne v0 vl h0 hl
            simp only [List.head?_cons, Option.some.injEq] at h0
            subst h0
            rw [List.getLast?_cons_cons] at hl
            have hne1 : ∀ c ∈ cells1, c ≠ (i, j) := fun c hc =>
              hne c (List.mem_append_right _ (List.mem_append_left _ hc))
            have hne2 : ∀ c ∈ (some last1).toList ++ cells2, c ≠ (i, j) := by
              intro c hc
              simp only [Option.toList_some, List.cons_append, List.nil_append, List.mem_cons] at hc
              rcases hc with hc | hc
              · rw [hc]; exact hne1 _ hlast1mem
              · exact hne c (List.mem_append_right _ (List.mem_append_right _ hc))
            have IH := c8 hne2 b vl rfl hl
            have POT := pchain_pot i j q hqx hqy a b l u0 hch
              (by simpa [hu0, segX, segY] using hin0)
              (by
                intro v hv
                rcases List.mem_cons.mp hv with h | h
                · rw [h]; exact zero_le_one
                · exact hl1 v h)
              hlast
              (fun v hv => hne1 v.c (List.mem_map.mpr ⟨v, hv, rfl⟩))
            have e0 : sP q a b u0.τ = decide (q.y < a.y) := by simp [hu0, sP, segY]
            have e1 : sP q a b 1 = decide (q.y < b.y) := by simp [sP, segY]
            have e2 : xFrom q a b u0.τ = xCross q a b := xFrom_zero q a b
            rw [e0, e1, e2, ← hcells1, ← hlast1] at POT
            rw [hcells1', raPar_eq_raParO] at POT
            rw [raParO_append, lastO_append, hlastO1]
            simp only [xPar]
            simp only [Option.getD_some] at IH
            simp only [psi] at IH ⊢
            cases cur with
            | none =>
              simp only [hcells1', raParO, Option.getD_none]
              revert IH POT
              generalize xCross q a b = X1
              generalize xPar q (b :: rest) = X2
              generalize raParO i j (some (cellOf a)) (List.map (fun x => x.c) l) = T1
              generalize raParO i j (some last1) cells2 = T2
              generalize (Rt i j ((lastO (some last1) cells2).getD (cellOf vl)) && decide (q.y < vl.y)) = PL
              generalize (Rt i j last1 && decide (q.y < b.y)) = P1
              generalize (Rt i j (cellOf a) && decide (q.y < a.y)) = P0
              cases X1 <;> cases X2 <;> cases T1 <;> cases T2 <;> cases PL <;> cases P1 <;> cases P0 <;> decide
            | some p =>
              have hp0 : p ≠ (i, j) := hne p (by simp)
              have J := junction i j q hqy p (cellOf a) a.x a.y (hin p a rfl rfl) hin0 hp0
                (hne1 _ (by rw [hcells1']; exact List.mem_cons_self))
              simp only [hcells1', raParO, Option.getD_some]
              revert IH POT J
              generalize xCross q a b = X1
              generalize xPar q (b :: rest) = X2
              generalize raParO i j (some (cellOf a)) (List.map (fun x => x.c) l) = T1
              generalize raParO i j (some last1) cells2 = T2
              generalize (Rt i j ((lastO (some last1) cells2).getD (cellOf vl)) && decide (q.y < vl.y)) = PL
              generalize (Rt i j last1 && decide (q.y < b.y)) = P1
              generalize (Rt i j (cellOf a) && decide (q.y < a.y)) = P0
              generalize (Rt i j p && decide (q.y < a.y)) = Pp
              generalize RA (rightOf i) j p (cellOf a) = RApf
              cases X1 <;> cases X2 <;> cases T1 <;> cases T2 <;> cases PL <;> cases P1 <;> cases P0 <;>
                cases Pp <;> cases RApf <;> decide

end trace
end Orb.TileCover
