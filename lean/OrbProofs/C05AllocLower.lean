/-
  C05, the former finding C05-wkb-nested-multi-quadratic as a regression statement.  On
  `nestedMultiInput` (a multi claiming k+1 members followed by k nested one-member multi headers and an
  empty member) the byte-slice decoder of MultiLineString used to scan member i through the k-i remaining
  headers (one `make` each) and then advance by just 9 bytes: 12·k·(k+1) bytes requested for an input
  of 9k+18 bytes, and the decode SUCCEEDED.  A member must now be a plain line string: the first nested
  header is `ErrIncorrectGeometry`, after the one `make` of the outer multi.
-/
import OrbProofs.C05Lemmas

namespace Orb.WKB
open Orb Generated.Params

/-! ### lengths -/

theorem nestHeaders_length (t k : Nat) : (nestHeaders t k).length = 9 * k := by
  induction k with
  | zero => rfl
  | succ k ih =>
    simp only [nestHeaders, List.length_append, List.length_cons, u32_length, ih]; omega

theorem nestedMultiInput_length' (t leaf k : Nat) : (nestedMultiInput t leaf k).length = 9 * k + 18 := by
  simp only [nestedMultiInput, List.length_append, List.length_cons, u32_length, nestHeaders_length]
  omega

/-! ### headers of the family -/

/-- a little-endian header without SRID -/
theorem bot_le (t : Nat) (ht : TC t) (body : Bytes) (hb : 1 ≤ body.length) :
    unmarshalBOT (1 :: (u32 .little t ++ body)) = .ok (.little, t, 0, body) := by
  have := unmarshalBOT_hdr .little t 0 body ht (by decide) hb
  simpa only [hdr_zero, orderByte] using this

theorem tc_mls : TC wkb_multiLineStringType := by unfold TC wkb_multiLineStringType; omega

/-- the bare empty member followed by anything -/
def leafB (tail : Bytes) : Bytes :=
  1 :: (u32 .little wkb_lineStringType ++ (u32 .little 0 ++ tail))

theorem nestHeaders_succ_append (t j : Nat) (rest : Bytes) :
    nestHeaders t (j + 1) ++ rest = 1 :: (u32 .little t ++ (u32 .little 1 ++ (nestHeaders t j ++ rest))) := by
  simp only [nestHeaders, List.cons_append, List.append_assoc]

theorem nested_eq (k : Nat) :
    nestedMultiInput wkb_multiLineStringType wkb_lineStringType k
      = 1 :: (u32 .little wkb_multiLineStringType ++ (u32 .little (k + 1) ++
          (nestHeaders wkb_multiLineStringType k ++ leafB []))) := by
  simp only [nestedMultiInput, leafB, List.cons_append, List.append_assoc, List.append_nil]

theorem nested_bot (k : Nat) :
    unmarshalBOT (nestedMultiInput wkb_multiLineStringType wkb_lineStringType k)
      = .ok (.little, wkb_multiLineStringType, 0,
          u32 .little (k + 1) ++ (nestHeaders wkb_multiLineStringType k ++ leafB [])) := by
  rw [nested_eq]
  exact bot_le _ tc_mls _ (by simp only [List.length_append, u32_length]; omega)

/-! ### the first member is a nested multi: rejected -/

/-- a member that is itself a MultiLineString is the wrong geometry, and costs nothing -/
theorem scanMember_nested (j : Nat) (tail : Bytes) :
    scanMember wkb_lineStringType unmarshalPoints (nestHeaders wkb_multiLineStringType (j + 1) ++ tail)
      = .err .incorrectGeometry
    ∧ scanMemberAlloc wkb_lineStringType unmarshalPointsAlloc
        (nestHeaders wkb_multiLineStringType (j + 1) ++ tail) = 0 := by
  have hb := bot_le wkb_multiLineStringType tc_mls
    (u32 .little 1 ++ (nestHeaders wkb_multiLineStringType j ++ tail))
    (by simp only [List.length_append, u32_length]; omega)
  have hne : wkb_multiLineStringType ≠ wkb_lineStringType := by decide
  rw [nestHeaders_succ_append]
  exact ⟨by simp only [scanMember, hb, hne, ne_eq, not_false_eq_true, if_true],
         by simp only [scanMemberAlloc, hb, hne, ne_eq, not_false_eq_true, if_true]⟩

/-- the decode fails at the first nested header … -/
theorem nested_unmarshal_rejected' (k : Nat) (hk : k + 2 < 2 ^ 32) :
    unmarshal (nestedMultiInput wkb_multiLineStringType wkb_lineStringType (k + 1))
      = .err .incorrectGeometry := by
  have hmod : (k + 1 + 1) % 2 ^ 32 = k + 1 + 1 := Nat.mod_eq_of_lt hk
  have h4 : ¬ (u32 Order.little (k + 1 + 1) ++
      (nestHeaders wkb_multiLineStringType (k + 1) ++ leafB [])).length < 4 := by
    simp only [List.length_append, u32_length]; omega
  have n1 : ¬ wkb_multiLineStringType = wkb_pointType := by decide
  have n2 : ¬ wkb_multiLineStringType = wkb_multiPointType := by decide
  have n3 : ¬ wkb_multiLineStringType = wkb_lineStringType := by decide
  unfold unmarshal
  rw [nested_bot]
  simp only [if_neg n1, if_neg n2, if_neg n3, if_true, unmarshalMultiLineString, unmarshalMultiF, if_neg h4,
    rd32_u32, drop_u32, hmod, memberLoop, (scanMember_nested k (leafB [])).1]

/-- … having requested the outer `make` and nothing else. -/
theorem nested_unmarshalAlloc' (k : Nat) (hk : k + 2 < 2 ^ 32) :
    unmarshalAlloc (nestedMultiInput wkb_multiLineStringType wkb_lineStringType (k + 1))
      = szSlice * allocCap (k + 2) wkb_MaxMultiAlloc := by
  have hmod : (k + 1 + 1) % 2 ^ 32 = k + 1 + 1 := Nat.mod_eq_of_lt hk
  have h4 : lenLt (u32 Order.little (k + 1 + 1) ++
      (nestHeaders wkb_multiLineStringType (k + 1) ++ leafB [])) 4 = false := by
    rw [lenLt_eq]; simp only [List.length_append, u32_length, decide_eq_false_iff_not]; omega
  have n1 : ¬ wkb_multiLineStringType = wkb_pointType := by decide
  have n2 : ¬ wkb_multiLineStringType = wkb_multiPointType := by decide
  have n3 : ¬ wkb_multiLineStringType = wkb_lineStringType := by decide
  unfold unmarshalAlloc
  rw [nested_bot]
  simp only [if_neg n1, if_neg n2, if_neg n3, if_true, unmarshalMultiLineStringAlloc, unmarshalMultiFAlloc, h4,
    rd32_u32, drop_u32, hmod, memberLoopAlloc, (scanMember_nested k (leafB [])).1,
    (scanMember_nested k (leafB [])).2]
  rfl

end Orb.WKB
