/-
  C05 allocation accounting: the byte-slice decoder of MultiLineString (likewise MultiPolygon) is NOT
  linear.  On `nestedMultiInput` (a multi claiming k+1 members followed by k nested one-member multi
  headers and an empty member) member i is scanned through the k-i remaining headers, each of which
  runs `make(…, 0, 1)`, and the next member starts just 9 bytes later (re-derived stride of an empty
  line string): 12·k·(k+1) bytes are requested for an input of 9k+18 bytes, and the decode SUCCEEDS.
-/
import OrbProofs.C05Lemmas

namespace Orb.WKB
open Orb Generated.Params

/-! ### lengths -/

theorem nestHeaders_length (t k : Nat) : (nestHeaders t k).length = 9 * k := by
  induction k with
  | zero => rfl
  | succ k ih =>
    simp only [nestHeaders, List.length_append, List.length_cons, u32_length, ih]; omega

theorem nestedMultiInput_length' (t leaf k : Nat) : (nestedMultiInput t leaf k).length = 9 * k + 18 := by
  simp only [nestedMultiInput, List.length_append, List.length_cons, u32_length, nestHeaders_length]
  omega

/-! ### generic steps of the member loop -/

theorem memberLoop_step {β : Type} (scan : Bytes → R (β × Nat)) (stride : β → Nat) (n : Nat) (data : Bytes)
    (x : β) (s : Nat) (xs : List β) (hs : scan data = .ok (x, s)) (hl : stride x ≤ data.length)
    (hr : memberLoop scan stride n (data.drop (stride x)) = .ok xs) :
    memberLoop scan stride (n + 1) data = .ok (x :: xs) := by
  rw [memberLoop, hs]
  simp only [sliceFrom, if_pos hl, hr]

theorem memberLoopAlloc_step {β : Type} (scan : Bytes → R (β × Nat)) (scanAlloc : Bytes → Nat)
    (stride : β → Nat) (n : Nat) (data : Bytes)
    (x : β) (s : Nat) (hs : scan data = .ok (x, s)) (hl : stride x ≤ data.length) :
    memberLoopAlloc scan scanAlloc stride (n + 1) data
      = scanAlloc data + memberLoopAlloc scan scanAlloc stride n (data.drop (stride x)) := by
  rw [memberLoopAlloc, hs]
  simp only [sliceFrom, if_pos hl]

theorem memberLoopAlloc_zero {β : Type} (scan : Bytes → R (β × Nat)) (scanAlloc : Bytes → Nat)
    (stride : β → Nat) (data : Bytes) : memberLoopAlloc scan scanAlloc stride 0 data = 0 := by
  rw [memberLoopAlloc]

/-! ### headers of the family -/

/-- a little-endian header without SRID -/
theorem bot_le (t : Nat) (ht : TC t) (body : Bytes) (hb : 1 ≤ body.length) :
    unmarshalBOT (1 :: (u32 .little t ++ body)) = .ok (.little, t, 0, body) := by
  have := unmarshalBOT_hdr .little t 0 body ht (by decide) hb
  simpa only [hdr_zero, orderByte] using this

theorem tc_ls : TC wkb_lineStringType := by unfold TC wkb_lineStringType; omega
theorem tc_mls : TC wkb_multiLineStringType := by unfold TC wkb_multiLineStringType; omega

/-- `ScanLineString`'s own allocations at nesting budget `f` -/
def lsScanAlloc (f : Nat) : Bytes → Nat :=
  scanSingleAlloc wkb_lineStringType wkb_multiLineStringType unmarshalPointsAlloc
    (unmarshalMultiLineStringAlloc f)

/-- the re-derived stride of `unmarshalMultiLineString` -/
def lsStride : List (Pt UInt64) → Nat := fun ls => 16 * ls.length + 9

theorem mls_succ (f : Nat) (o : Order) (n : Nat) (rest : Bytes) :
    unmarshalMultiLineString (f + 1) o (u32 o n ++ rest)
      = memberLoop (scanLineString f) lsStride (n % 2 ^ 32) rest := by
  unfold unmarshalMultiLineString
  rw [unmarshalMultiF]
  have h4 : ¬ (u32 o n ++ rest).length < 4 := by
    simp only [List.length_append, u32_length]; omega
  rw [if_neg h4, rd32_u32, drop_u32]
  rfl

theorem mlsAlloc_succ (f : Nat) (o : Order) (n : Nat) (rest : Bytes) :
    unmarshalMultiLineStringAlloc (f + 1) o (u32 o n ++ rest)
      = szSlice * allocCap (n % 2 ^ 32) wkb_MaxMultiAlloc
        + memberLoopAlloc (scanLineString f) (lsScanAlloc f) lsStride (n % 2 ^ 32) rest := by
  unfold unmarshalMultiLineStringAlloc
  rw [unmarshalMultiFAlloc]
  have h4 : lenLt (u32 o n ++ rest) 4 = false := by
    rw [lenLt_eq]; simp only [List.length_append, u32_length, decide_eq_false_iff_not]; omega
  rw [h4, rd32_u32, drop_u32]
  rfl

/-- the empty line string's body -/
theorem unmarshalPoints_zero (tail : Bytes) : unmarshalPoints .little (u32 .little 0 ++ tail) = .ok [] := by
  unfold unmarshalPoints
  have h4 : ¬ (u32 Order.little 0 ++ tail).length < 4 := by
    simp only [List.length_append, u32_length]; omega
  simp only [if_neg h4, rd32_u32, drop_u32, Nat.zero_mod, Nat.zero_mul, Nat.not_lt_zero, if_false, readPts]

theorem unmarshalPointsAlloc_zero (tail : Bytes) :
    unmarshalPointsAlloc .little (u32 .little 0 ++ tail) = 0 := by
  unfold unmarshalPointsAlloc
  simp only [rd32_u32, Nat.zero_mod, allocCap, Nat.not_lt_zero, if_false, Nat.mul_zero, ite_self,
    gt_iff_lt]

/-- the bare empty member followed by anything -/
def leafB (tail : Bytes) : Bytes :=
  1 :: (u32 .little wkb_lineStringType ++ (u32 .little 0 ++ tail))

theorem leafB_length (tail : Bytes) : (leafB tail).length = 9 + tail.length := by
  simp only [leafB, List.length_cons, List.length_append, u32_length]; omega

theorem nestHeaders_succ_append (t j : Nat) (rest : Bytes) :
    nestHeaders t (j + 1) ++ rest = 1 :: (u32 .little t ++ (u32 .little 1 ++ (nestHeaders t j ++ rest))) := by
  simp only [nestHeaders, List.cons_append, List.append_assoc]

theorem drop9_nest (t j : Nat) (rest : Bytes) :
    (nestHeaders t (j + 1) ++ rest).drop 9 = nestHeaders t j ++ rest := by
  rw [nestHeaders_succ_append, show (9 : Nat) = 8 + 1 from rfl, List.drop_succ_cons, ← List.append_assoc]
  exact List.drop_left' (by simp only [List.length_append, u32_length])

theorem chain_length (j : Nat) (tail : Bytes) :
    (nestHeaders wkb_multiLineStringType j ++ leafB tail).length = 9 * j + 9 + tail.length := by
  simp only [List.length_append, nestHeaders_length, leafB_length]; omega

/-! ### one member: the chain of the remaining headers -/

theorem chain (j : Nat) : ∀ (f : Nat) (tail : Bytes), j ≤ f →
    scanLineString f (nestHeaders wkb_multiLineStringType j ++ leafB tail) = .ok ([], 0)
    ∧ lsScanAlloc f (nestHeaders wkb_multiLineStringType j ++ leafB tail) = 24 * j := by
  induction j with
  | zero =>
    intro f tail _
    have hb := bot_le wkb_lineStringType tc_ls (u32 .little 0 ++ tail)
      (by simp only [List.length_append, u32_length]; omega)
    constructor
    · simp only [nestHeaders, List.nil_append, leafB, scanLineString, scanSingle, hb, if_true,
        unmarshalPoints_zero]
    · simp only [nestHeaders, List.nil_append, leafB, lsScanAlloc, scanSingleAlloc, hb, if_true,
        unmarshalPointsAlloc_zero]
  | succ j ih =>
    intro f tail hf
    obtain ⟨f, rfl⟩ : ∃ g, f = g + 1 := ⟨f - 1, by omega⟩
    have hj : j ≤ f := by omega
    obtain ⟨ih1, ih2⟩ := ih f tail hj
    have hlen := chain_length j tail
    have hne : ¬ wkb_multiLineStringType = wkb_lineStringType := by decide
    have hb := bot_le wkb_multiLineStringType tc_mls
      (u32 .little 1 ++ (nestHeaders wkb_multiLineStringType j ++ leafB tail))
      (by simp only [List.length_append, u32_length]; omega)
    have hst : lsStride ([] : List (Pt UInt64)) = 9 := rfl
    have h1 : (1 : Nat) % 2 ^ 32 = 1 := by decide
    constructor
    · have hm : memberLoop (scanLineString f) lsStride 1
          (nestHeaders wkb_multiLineStringType j ++ leafB tail) = .ok [[]] :=
        memberLoop_step (scanLineString f) lsStride 0 _ [] 0 [] ih1
          (by rw [hst, hlen]; omega) (by rw [memberLoop])
      rw [nestHeaders_succ_append]
      simp only [scanLineString, scanSingle, hb, if_neg hne, if_true]
      rw [mls_succ, h1]
      rw [hm]
    · have hm : memberLoopAlloc (scanLineString f) (lsScanAlloc f) lsStride 1
          (nestHeaders wkb_multiLineStringType j ++ leafB tail) = 24 * j := by
        rw [memberLoopAlloc_step (scanLineString f) (lsScanAlloc f) lsStride 0 _ [] 0 ih1
          (by rw [hst, hlen]; omega), ih2, memberLoopAlloc_zero]
        rfl
      have hcap : szSlice * allocCap 1 wkb_MaxMultiAlloc = 24 := by decide
      rw [nestHeaders_succ_append]
      simp only [lsScanAlloc, scanSingleAlloc, hb, if_neg hne, if_true]
      rw [mlsAlloc_succ, h1, hcap]
      show 24 + memberLoopAlloc (scanLineString f) (lsScanAlloc f) lsStride 1 _ = _
      rw [hm]
      omega

/-! ### the enclosing loop -/

theorem loop_ok (j : Nat) : ∀ (f : Nat), j ≤ f →
    memberLoop (scanLineString f) lsStride (j + 1) (nestHeaders wkb_multiLineStringType j ++ leafB [])
      = .ok (List.replicate (j + 1) []) := by
  induction j with
  | zero =>
    intro f hf
    have hc := (chain 0 f [] hf).1
    exact memberLoop_step _ _ 0 _ [] 0 [] hc
      (by rw [chain_length]; show 9 ≤ _; omega) (by rw [memberLoop])
  | succ j ih =>
    intro f hf
    have hc := (chain (j + 1) f [] hf).1
    have hst : lsStride ([] : List (Pt UInt64)) = 9 := rfl
    refine memberLoop_step _ _ (j + 1) _ [] 0 (List.replicate (j + 1) []) hc
      (by rw [chain_length, hst]; omega) ?_
    rw [hst, drop9_nest]
    exact ih f (by omega)

theorem loop_alloc (j : Nat) : ∀ (f : Nat), j ≤ f →
    memberLoopAlloc (scanLineString f) (lsScanAlloc f) lsStride (j + 1)
        (nestHeaders wkb_multiLineStringType j ++ leafB [])
      = 12 * (j * (j + 1)) := by
  induction j with
  | zero =>
    intro f hf
    obtain ⟨hc, ha⟩ := chain 0 f [] hf
    rw [memberLoopAlloc_step _ _ _ 0 _ [] 0 hc (by rw [chain_length]; show 9 ≤ _; omega), ha]
    rw [memberLoopAlloc_zero]
  | succ j ih =>
    intro f hf
    obtain ⟨hc, ha⟩ := chain (j + 1) f [] hf
    have hst : lsStride ([] : List (Pt UInt64)) = 9 := rfl
    rw [memberLoopAlloc_step _ _ _ (j + 1) _ [] 0 hc (by rw [chain_length, hst]; omega), ha, hst,
      drop9_nest, ih f (by omega)]
    have : (j + 1) * (j + 1 + 1) = j * (j + 1) + 2 * (j + 1) := by
      rw [← Nat.add_mul, Nat.mul_comm]
    rw [this]; omega

/-! ### top level -/

theorem nested_eq (k : Nat) :
    nestedMultiInput wkb_multiLineStringType wkb_lineStringType k
      = 1 :: (u32 .little wkb_multiLineStringType ++ (u32 .little (k + 1) ++
          (nestHeaders wkb_multiLineStringType k ++ leafB []))) := by
  simp only [nestedMultiInput, leafB, List.cons_append, List.append_assoc, List.append_nil]

theorem nested_bot (k : Nat) :
    unmarshalBOT (nestedMultiInput wkb_multiLineStringType wkb_lineStringType k)
      = .ok (.little, wkb_multiLineStringType, 0,
          u32 .little (k + 1) ++ (nestHeaders wkb_multiLineStringType k ++ leafB [])) := by
  rw [nested_eq]
  exact bot_le _ tc_mls _ (by simp only [List.length_append, u32_length]; omega)

/-- the decode succeeds: k+1 empty line strings -/
theorem nested_unmarshal_ok' (k : Nat) (hk : k + 1 < 2 ^ 32) :
    unmarshal (nestedMultiInput wkb_multiLineStringType wkb_lineStringType k)
      = .ok (.multiLineString (List.replicate (k + 1) []), 0) := by
  have hfuel : (nestedMultiInput wkb_multiLineStringType wkb_lineStringType k).length
      = (9 * k + 17) + 1 := by rw [nestedMultiInput_length']
  have hmod : (k + 1) % 2 ^ 32 = k + 1 := Nat.mod_eq_of_lt hk
  have hl := loop_ok k (9 * k + 17) (by omega)
  unfold unmarshal
  rw [nested_bot]
  simp only [hfuel]
  rw [mls_succ, hmod, hl]
  have n1 : ¬ wkb_multiLineStringType = wkb_pointType := by decide
  have n2 : ¬ wkb_multiLineStringType = wkb_multiPointType := by decide
  have n3 : ¬ wkb_multiLineStringType = wkb_lineStringType := by decide
  simp only [if_neg n1, if_neg n2, if_neg n3, if_true]

/-- what the decoder's own `make` calls request on it -/
theorem nested_unmarshalAlloc' (k : Nat) (hk : k + 1 < 2 ^ 32) :
    unmarshalAlloc (nestedMultiInput wkb_multiLineStringType wkb_lineStringType k)
      = szSlice * allocCap (k + 1) wkb_MaxMultiAlloc + 12 * (k * (k + 1)) := by
  have hfuel : (nestedMultiInput wkb_multiLineStringType wkb_lineStringType k).length
      = (9 * k + 17) + 1 := by rw [nestedMultiInput_length']
  have hmod : (k + 1) % 2 ^ 32 = k + 1 := Nat.mod_eq_of_lt hk
  have hl := loop_alloc k (9 * k + 17) (by omega)
  unfold unmarshalAlloc
  rw [nested_bot]
  simp only [hfuel]
  rw [mlsAlloc_succ, hmod, hl]
  have n1 : ¬ wkb_multiLineStringType = wkb_pointType := by decide
  have n2 : ¬ wkb_multiLineStringType = wkb_multiPointType := by decide
  have n3 : ¬ wkb_multiLineStringType = wkb_lineStringType := by decide
  simp only [if_neg n1, if_neg n2, if_neg n3, if_true]

/-- No linear bound with constants that fit the format's own 32-bit counts holds for `Unmarshal`. -/
theorem unmarshalAlloc_exceeds' (c K : Nat) (h : c + K + 3 < 2 ^ 32) :
    ∃ bs : Bytes, c * bs.length + K < unmarshalAlloc bs := by
  refine ⟨nestedMultiInput wkb_multiLineStringType wkb_lineStringType (c + K + 2), ?_⟩
  rw [nested_unmarshalAlloc' _ (by omega), nestedMultiInput_length']
  generalize szSlice * allocCap (c + K + 2 + 1) wkb_MaxMultiAlloc = a
  have e1 : (c + K + 2) * (c + K + 2 + 1) = (c + K + 2) * c + (c + K + 2) * (K + 3) := by
    rw [← Nat.mul_add]; congr 1
  have e2 : c * (9 * (c + K + 2) + 18) = 9 * ((c + K + 2) * c) + 18 * c := by
    rw [Nat.mul_add, Nat.mul_comm c (9 * _), Nat.mul_assoc, Nat.mul_comm c 18]
  have e3 : (c + K + 2) * (K + 3) = c * K + K * K + 3 * c + 5 * K + 6 := by
    simp only [Nat.mul_add, Nat.add_mul]; omega
  rw [e1, e2, e3]
  generalize (c + K + 2) * c = p
  generalize c * K = q
  generalize K * K = r
  omega

/-- in particular not the property's bound (the one that holds for the stream decoder) -/
theorem unmarshalAlloc_not_linear' :
    ¬ ∀ bs : Bytes, unmarshalAlloc bs ≤ allocPerByte * bs.length + allocFixed := by
  intro hall
  obtain ⟨bs, hbs⟩ := unmarshalAlloc_exceeds' allocPerByte allocFixed (by decide)
  have := hall bs
  omega

end Orb.WKB
