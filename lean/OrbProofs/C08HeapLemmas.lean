/-
  Lemmas for the heap-level part of C08 (`Orb.HeapOps.geometryH`): what clip.Geometry writes to the
  caller's memory and where its result lives.  Core Lean only.  The primed statements are
  re-exported by OrbProofs/C08Heap.lean.
-/
import OrbProofs.HeapOpsBase
import OrbProofs.C06HeapLemmas

set_option linter.unusedSectionVars false
set_option linter.unusedSimpArgs false

namespace Orb.HeapOps
open Orb Orb.Heap Orb.Core

variable {α : Type}

/-! ### `writeAt`, cell by cell -/

theorem cell_writeAt (a : Nat) (xs : List (Pt α)) (i : Nat) (σ : Store α) (b j : Nat) :
    cell (writeAt a i xs σ) b j =
      if a = b ∧ i ≤ j ∧ j < i + xs.length then (cell σ b j).bind fun _ => xs[j - i]? else cell σ b j := by
  induction xs generalizing i σ with
  | nil =>
    rw [if_neg (by simp)]
    rfl
  | cons x xs ih =>
    simp only [writeAt]
    rw [ih, cell_upd]
    by_cases h1 : a = b ∧ i = j
    · rw [if_pos h1, if_neg (by omega : ¬ (a = b ∧ i + 1 ≤ j ∧ j < i + 1 + xs.length)),
        if_pos (by simp only [List.length_cons]; omega : a = b ∧ i ≤ j ∧ j < i + (x :: xs).length)]
      have : j - i = 0 := by omega
      rw [this]
      cases cell σ b j <;> rfl
    · rw [if_neg h1]
      by_cases h2 : a = b ∧ i + 1 ≤ j ∧ j < i + 1 + xs.length
      · rw [if_pos h2, if_pos (by simp only [List.length_cons]; omega : a = b ∧ i ≤ j ∧ j < i + (x :: xs).length)]
        have : j - i = (j - (i + 1)) + 1 := by omega
        rw [this, List.getElem?_cons_succ]
      · rw [if_neg h2, if_neg (by simp only [List.length_cons]; omega : ¬ (a = b ∧ i ≤ j ∧ j < i + (x :: xs).length))]

theorem length_writeAt (a : Nat) (xs : List (Pt α)) (i : Nat) (σ : Store α) :
    (writeAt a i xs σ).length = σ.length := by
  induction xs generalizing i σ with
  | nil => rfl
  | cons x xs ih => simp only [writeAt]; rw [ih, length_upd]

theorem read_length_writeAt (a : Nat) (xs : List (Pt α)) (i : Nat) (σ : Store α) (b : Nat) :
    (read (writeAt a i xs σ) b).length = (read σ b).length := by
  induction xs generalizing i σ with
  | nil => rfl
  | cons x xs ih => simp only [writeAt]; rw [ih, read_length_upd]

/-! ### `Ext W σ σ'`: σ' is σ with writes only inside the windows `W`, plus new arrays -/

structure Ext (W : List Hdr) (σ σ' : Store α) : Prop where
  len : σ.length ≤ σ'.length
  size : ∀ a, a < σ.length → (read σ' a).length = (read σ a).length
  frame : ∀ a i, a < σ.length → (∀ h ∈ W, h.inWin a i = false) → cell σ' a i = cell σ a i

theorem Ext.refl (W : List Hdr) (σ : Store α) : Ext W σ σ :=
  ⟨Nat.le_refl _, fun _ _ => rfl, fun _ _ _ _ => rfl⟩

theorem Ext.mono {W W' : List Hdr} {σ σ' : Store α} (h : Ext W σ σ') (hs : ∀ x ∈ W, x ∈ W') : Ext W' σ σ' :=
  ⟨h.len, h.size, fun a i ha hw => h.frame a i ha fun x hx => hw x (hs x hx)⟩

theorem Ext.trans {W1 W2 : List Hdr} {σ σ1 σ2 : Store α} (h1 : Ext W1 σ σ1) (h2 : Ext W2 σ1 σ2) :
    Ext (W1 ++ W2) σ σ2 :=
  ⟨Nat.le_trans h1.len h2.len,
   fun a ha => by rw [h2.size a (Nat.lt_of_lt_of_le ha h1.len), h1.size a ha],
   fun a i ha hw => by
     rw [h2.frame a i (Nat.lt_of_lt_of_le ha h1.len) fun x hx => hw x (List.mem_append_right _ hx),
       h1.frame a i ha fun x hx => hw x (List.mem_append_left _ hx)]⟩

theorem Ext.trans_same {W : List Hdr} {σ σ1 σ2 : Store α} (h1 : Ext W σ σ1) (h2 : Ext W σ1 σ2) : Ext W σ σ2 :=
  (h1.trans h2).mono fun x hx => by
    rcases List.mem_append.1 hx with h | h <;> exact h

theorem cell_append_lt (σ ext : Store α) {a : Nat} (h : a < σ.length) (i : Nat) :
    cell (σ ++ ext) a i = cell σ a i := by
  unfold cell
  rw [read_append_lt σ ext h]

theorem ext_append (W : List Hdr) (σ ext : Store α) : Ext W σ (σ ++ ext) :=
  ⟨by simp, fun a ha => by rw [read_append_lt σ ext ha], fun a i ha _ => cell_append_lt σ ext ha i⟩

theorem ext_writeAt (h : Hdr) (i : Nat) (xs : List (Pt α)) (σ : Store α)
    (h1 : h.off ≤ i) (h2 : i + xs.length ≤ h.off + h.cap) : Ext [h] σ (writeAt h.arr i xs σ) :=
  ⟨by rw [length_writeAt]; exact Nat.le_refl _,
   fun a _ => read_length_writeAt _ _ _ _ a,
   fun a j _ hw => by
     rw [cell_writeAt]
     by_cases hc : h.arr = a ∧ i ≤ j ∧ j < i + xs.length
     · have := hw h (by simp)
       have hin : h.inWin a j = true := (inWin_iff h a j).2 ⟨hc.1, by omega, by omega⟩
       rw [hin] at this
       cases this
     · rw [if_neg hc]⟩

/-! ### `ringEffect` -/

theorem ringEffect_ext (σ : Store α) (h : Hdr) (t : Trace α) : Ext [h] σ (ringEffect σ h t).1 := by
  have w2 : ∀ (p : List (Pt α)) (τ : Store α), Ext [h] τ (writeAt h.arr h.off (p.take h.cap) τ) := fun p τ =>
    ext_writeAt h h.off _ τ (Nat.le_refl _) (by simp only [List.length_take]; omega)
  cases t with
  | nil0 => exact Ext.refl _ _
  | nil2 p2 => exact w2 p2 σ
  | done p2 p4 out =>
    simp only [ringEffect]
    split
    · split
      · split
        · refine ((w2 p2 σ).trans_same (w2 p4 _)).trans_same (ext_writeAt h _ _ _ (by omega) ?_)
          simp only [List.length_drop]; omega
        · exact ((w2 p2 σ).trans_same (w2 p4 _)).trans_same (ext_append _ _ _)
      · exact ((w2 p2 σ).trans_same (w2 p4 _)).trans_same (ext_append _ _ _)
    · exact (w2 p2 σ).trans_same (ext_append _ _ _)

/-- where a returned slice lives: a whole new array, or the window of one of the headers `W`
    (same first element, same capacity) -/
def ResOK (W : List Hdr) (σ σ' : Store α) (x : Hdr) : Prop :=
  (σ.length ≤ x.arr ∧ x.arr < σ'.length ∧ x.off = 0 ∧ x.cap = x.len ∧ (read σ' x.arr).length = x.len) ∨
  (∃ h ∈ W, x.arr = h.arr ∧ x.off = h.off ∧ x.cap = h.cap ∧ x.len ≤ h.cap)

theorem ResOK.mono {W W' : List Hdr} {σ σ' : Store α} {x : Hdr} (h : ResOK W σ σ' x) (hs : ∀ y ∈ W, y ∈ W') :
    ResOK W' σ σ' x := by
  rcases h with h | ⟨y, hy, h⟩
  · exact Or.inl h
  · exact Or.inr ⟨y, hs y hy, h⟩

/-- a result of an earlier step is still a good result after a later step -/
theorem ResOK.then {W W2 : List Hdr} {σ σ1 σ2 : Store α} {x : Hdr} (h : ResOK W σ σ1 x) (e : Ext W2 σ1 σ2) :
    ResOK (W ++ W2) σ σ2 x := by
  rcases h with ⟨h1, h2, h3, h4, h5⟩ | ⟨y, hy, h⟩
  · exact Or.inl ⟨h1, Nat.lt_of_lt_of_le h2 e.len, h3, h4, by rw [e.size _ h2, h5]⟩
  · exact Or.inr ⟨y, List.mem_append_left _ hy, h⟩

/-- a result of a later step is a good result of the whole -/
theorem ResOK.after {W W2 : List Hdr} {σ σ1 σ2 : Store α} {x : Hdr} (e : Ext W σ σ1) (h : ResOK W2 σ1 σ2 x) :
    ResOK (W ++ W2) σ σ2 x := by
  rcases h with ⟨h1, h2, h3, h4, h5⟩ | ⟨y, hy, h⟩
  · exact Or.inl ⟨Nat.le_trans e.len h1, h2, h3, h4, h5⟩
  · exact Or.inr ⟨y, List.mem_append_right _ hy, h⟩

theorem resOK_alloc (W : List Hdr) (σ : Store α) (xs : List (Pt α)) :
    ResOK W σ (allocH σ xs).1 (allocH σ xs).2 := by
  refine Or.inl ⟨Nat.le_refl _, by simp [allocH], rfl, rfl, ?_⟩
  simp only [allocH]
  rw [read_append_length]

theorem ringEffect_res (σ : Store α) (h : Hdr) (t : Trace α) (x : Hdr)
    (hx : (ringEffect σ h t).2 = some x) : ResOK [h] σ (ringEffect σ h t).1 x := by
  have w2 : ∀ (p : List (Pt α)) (τ : Store α), Ext [h] τ (writeAt h.arr h.off (p.take h.cap) τ) := fun p τ =>
    ext_writeAt h h.off _ τ (Nat.le_refl _) (by simp only [List.length_take]; omega)
  cases t with
  | nil0 => simp [ringEffect] at hx
  | nil2 p2 => simp [ringEffect] at hx
  | done p2 p4 out =>
    simp only [ringEffect] at hx ⊢
    split at hx
    · split at hx
      · split at hx
        · rename_i h1 h2 h3
          simp only [h1, h2, h3, if_true]
          simp only [Option.some.injEq] at hx
          subst hx
          exact Or.inr ⟨h, by simp, rfl, rfl, rfl, h3⟩
        · rename_i h1 h2 h3
          simp only [h1, h2, h3, if_true, if_false]
          simp only [Option.some.injEq] at hx
          subst hx
          exact (ResOK.after ((w2 p2 σ).trans_same (w2 p4 _)) (resOK_alloc [] _ out)).mono (by simp)
      · rename_i h1 h2
        simp only [h1, h2, if_true, if_false]
        simp only [Option.some.injEq] at hx
        subst hx
        exact (ResOK.after ((w2 p2 σ).trans_same (w2 p4 _)) (resOK_alloc [] _ out)).mono (by simp)
    · rename_i h1
      simp only [h1, if_false]
      simp only [Option.some.injEq] at hx
      subst hx
      exact (ResOK.after (w2 p2 σ) (resOK_alloc [] _ out)).mono (by simp)

/-! ### `ring()` at the heap level against the value-level `Orb.Clip.ring` -/

section ringvalue
variable [Add α] [Sub α] [Mul α] [Div α] [LT α] [LE α] [DecidableLT α] [DecidableLE α] [BEq α]
  [Min α] [Max α]

theorem closeOut_eq (closed : Bool) (a : Pt α) (p : List (Pt α)) :
    (if closed = true then
        match a :: p, (a :: p).getLast? with
        | f' :: _, some l' => if Clip.ptEqB f' l' = true then some (a :: p) else some (a :: p ++ [f'])
        | _, _ => some (a :: p)
      else some (a :: p)) = some (closeOut closed (a :: p)) := by
  unfold closeOut
  cases closed
  · simp
  · simp only [if_true]
    cases hl : (a :: p).getLast? with
    | none => rfl
    | some l' =>
      simp only []
      by_cases hq : Clip.ptEqB a l' = true <;> simp [hq]

theorem ringTrace_value' (box : Bound α) (inp : List (Pt α)) :
    Clip.ring box inp = (ringTrace box inp).map Trace.value := by
  cases inp with
  | nil => rfl
  | cons f tl =>
    simp only [Clip.ring, ringTrace]
    generalize Clip.ptEqB f ((f :: tl).getLast?.getD f) = closed
    cases Clip.ringPass box 1 closed (f :: tl) with
    | none => rfl
    | some p1 =>
    cases p1 with
    | nil => rfl
    | cons a1 p1 =>
    simp only [List.isEmpty_cons, Bool.false_eq_true, if_false]
    cases Clip.ringPass box 2 closed (a1 :: p1) with
    | none => rfl
    | some p2 =>
    cases p2 with
    | nil => rfl
    | cons a2 p2 =>
    simp only [List.isEmpty_cons, Bool.false_eq_true, if_false]
    cases Clip.ringPass box 4 closed (a2 :: p2) with
    | none => rfl
    | some p3 =>
    cases p3 with
    | nil => rfl
    | cons a3 p3 =>
    simp only [List.isEmpty_cons, Bool.false_eq_true, if_false]
    cases Clip.ringPass box 8 closed (a3 :: p3) with
    | none => rfl
    | some p4 =>
    cases p4 with
    | nil => rfl
    | cons a4 p4 =>
    simp only [List.isEmpty_cons, Bool.false_eq_true, if_false, Option.map_some, Trace.value]
    exact closeOut_eq closed a4 p4

theorem closeOut_prefix (closed : Bool) (p4 : List (Pt α)) : ∃ t, closeOut closed p4 = p4 ++ t := by
  unfold closeOut
  cases closed
  · exact ⟨[], by simp⟩
  · simp only [if_true]
    split
    · split
      · exact ⟨[], by simp⟩
      · exact ⟨_, rfl⟩
    · exact ⟨[], by simp⟩

/-- the traces `ringTrace` produces re-close by appending -/
def Trace.Consistent : Trace α → Prop
  | .done _ p4 out => p4 ≠ [] ∧ ∃ t, out = p4 ++ t
  | _ => True

theorem ringTrace_consistent (box : Bound α) (inp : List (Pt α)) (t : Trace α)
    (ht : ringTrace box inp = some t) : t.Consistent := by
  cases inp with
  | nil => simp only [ringTrace, Option.some.injEq] at ht; subst ht; exact True.intro
  | cons f tl =>
    simp only [ringTrace] at ht
    repeat' split at ht
    all_goals first
      | (simp only [Option.some.injEq] at ht; subst ht
         first
           | exact True.intro
           | exact ⟨fun h0 => by simp_all, closeOut_prefix _ _⟩)
      | cases ht

end ringvalue

theorem cell_writeAt_in (a : Nat) (xs : List (Pt α)) (i : Nat) (σ : Store α) (j : Nat)
    (h1 : i ≤ j) (h2 : j < i + xs.length) (h3 : j < (read σ a).length) :
    cell (writeAt a i xs σ) a j = xs[j - i]? := by
  rw [cell_writeAt, if_pos ⟨rfl, h1, h2⟩]
  unfold cell
  rw [List.getElem?_eq_getElem h3]
  rfl

theorem cell_writeAt_out (a : Nat) (xs : List (Pt α)) (i : Nat) (σ : Store α) (j : Nat)
    (h : ¬ (i ≤ j ∧ j < i + xs.length)) : cell (writeAt a i xs σ) a j = cell σ a j := by
  rw [cell_writeAt, if_neg (fun hh => h hh.2)]

/-- reading back the in-place result of `ring()` -/
theorem readH_inplace (σ : Store α) (h : Hdr) (hw : h.WF σ) (p2 p4 t : List (Pt α))
    (h4 : p4.length ≤ h.cap) (ho : (p4 ++ t).length ≤ h.cap) :
    readH (writeAt h.arr (h.off + p4.length) ((p4 ++ t).drop p4.length)
        (writeAt h.arr h.off (p4.take h.cap) (writeAt h.arr h.off (p2.take h.cap) σ)))
      { h with len := (p4 ++ t).length } = p4 ++ t := by
  rw [List.drop_left, List.take_of_length_le h4]
  apply List.ext_getElem?
  intro k
  rw [getElem?_readH]
  simp only
  by_cases hk : k < (p4 ++ t).length
  · rw [if_pos hk]
    have hlen : h.off + k < (read σ h.arr).length := by
      have := hw.2
      omega
    by_cases hk4 : k < p4.length
    · rw [cell_writeAt_out _ _ _ _ _ (by omega), cell_writeAt_in _ _ _ _ _ (by omega) (by omega)
        (by rw [read_length_writeAt]; exact hlen)]
      have : h.off + k - h.off = k := by omega
      rw [this, List.getElem?_append_left hk4]
    · rw [List.length_append] at hk
      rw [cell_writeAt_in _ _ _ _ _ (by omega) (by omega)
        (by rw [read_length_writeAt, read_length_writeAt]; exact hlen)]
      have : h.off + k - (h.off + p4.length) = k - p4.length := by omega
      rw [this, List.getElem?_append_right (by omega)]
  · rw [if_neg hk, List.getElem?_eq_none (by omega)]

theorem readH_alloc (σ : Store α) (xs : List (Pt α)) : readH (allocH σ xs).1 (allocH σ xs).2 = xs := by
  simp only [readH, allocH, List.drop_zero]
  rw [read_append_length, List.take_length]

/-- what the returned header reads is what `ring()` returns -/
theorem ringEffect_denote (σ : Store α) (h : Hdr) (hw : h.WF σ) (t : Trace α) (hc : t.Consistent) :
    ((ringEffect σ h t).2.map (readH (ringEffect σ h t).1)).getD [] = t.value := by
  cases t with
  | nil0 => rfl
  | nil2 p2 => rfl
  | done p2 p4 out =>
    obtain ⟨_, t, rfl⟩ := hc
    simp only [ringEffect, Trace.value]
    by_cases h2 : p2.length ≤ h.cap
    · by_cases h4 : p4.length ≤ h.cap
      · by_cases ho : (p4 ++ t).length ≤ h.cap
        · simp only [h2, h4, ho, if_true]
          exact readH_inplace σ h hw p2 p4 t h4 ho
        · simp only [h2, h4, ho, if_true, if_false, Option.map_some, Option.getD_some]
          exact readH_alloc _ _
      · simp only [h2, h4, if_true, if_false, Option.map_some, Option.getD_some]
        exact readH_alloc _ _
    · simp only [h2, if_false, Option.map_some, Option.getD_some]
      exact readH_alloc _ _

section ringdenote
variable [Add α] [Sub α] [Mul α] [Div α] [LT α] [LE α] [DecidableLT α] [DecidableLE α] [BEq α]
  [Min α] [Max α]

theorem ring_denote' (box : Bound α) (σ σ' : Store α) (h : Hdr) (r : Option Hdr) (hw : h.WF σ)
    (hr : ringH box σ h = some (σ', r)) :
    Clip.ring box (readH σ h) = some ((r.map (readH σ')).getD []) := by
  unfold ringH at hr
  rw [ringTrace_value']
  cases ht : ringTrace box (readH σ h) with
  | none => simp [ht] at hr
  | some t =>
    simp only [ht, Option.map_some, Option.some.injEq] at hr
    have := ringEffect_denote σ h hw t (ringTrace_consistent box _ t ht)
    rw [hr] at this
    simp only [Option.map_some]
    rw [← this]

/-- a ring that is returned has vertices -/
theorem ringH_some_ne_nil (box : Bound α) (σ σ' : Store α) (h : Hdr) (x : Hdr) (hw : h.WF σ)
    (hr : ringH box σ h = some (σ', some x)) : readH σ' x ≠ [] := by
  unfold ringH at hr
  cases ht : ringTrace box (readH σ h) with
  | none => simp [ht] at hr
  | some t =>
    simp only [ht, Option.map_some, Option.some.injEq] at hr
    have hc := ringTrace_consistent box _ t ht
    have := ringEffect_denote σ h hw t hc
    rw [hr] at this
    simp only [Option.map_some, Option.getD_some] at this
    rw [this]
    cases t with
    | nil0 => simp [ringEffect] at hr
    | nil2 p2 => simp [ringEffect] at hr
    | done p2 p4 out =>
      obtain ⟨hne, t, rfl⟩ := hc
      simp only [Trace.value]
      intro h0
      exact hne (List.append_eq_nil_iff.1 h0).1

theorem ringH_none_iff' (box : Bound α) (σ : Store α) (h : Hdr) :
    ringH box σ h = none ↔ Clip.ring box (readH σ h) = none := by
  unfold ringH
  rw [ringTrace_value']
  cases ringTrace box (readH σ h) <;> simp

end ringdenote

/-! ### threading: `Good W σ σ' xs` = wrote only inside `W`, and every returned slice `xs` is fresh or a `W`-slice -/

def Good (W : List Hdr) (σ σ' : Store α) (xs : List Hdr) : Prop :=
  Ext W σ σ' ∧ ∀ x ∈ xs, ResOK W σ σ' x

theorem Good.refl (W : List Hdr) (σ : Store α) : Good W σ σ [] := ⟨Ext.refl _ _, fun _ h => by cases h⟩

theorem Good.seq {W1 W2 : List Hdr} {σ σ1 σ2 : Store α} {xs1 xs2 : List Hdr}
    (h1 : Good W1 σ σ1 xs1) (h2 : Good W2 σ1 σ2 xs2) : Good (W1 ++ W2) σ σ2 (xs1 ++ xs2) :=
  ⟨h1.1.trans h2.1, fun x hx => by
    rcases List.mem_append.1 hx with h | h
    · exact (h1.2 x h).then h2.1
    · exact ResOK.after h1.1 (h2.2 x h)⟩

theorem Good.mono {W W' : List Hdr} {σ σ' : Store α} {xs : List Hdr} (h : Good W σ σ' xs)
    (hs : ∀ x ∈ W, x ∈ W') : Good W' σ σ' xs :=
  ⟨h.1.mono hs, fun x hx => (h.2 x hx).mono hs⟩

theorem Good.sub {W : List Hdr} {σ σ' : Store α} {xs ys : List Hdr} (h : Good W σ σ' xs)
    (hs : ∀ x ∈ ys, x ∈ xs) : Good W σ σ' ys :=
  ⟨h.1, fun x hx => h.2 x (hs x hx)⟩

theorem good_alloc (W : List Hdr) (σ : Store α) (xs : List (Pt α)) :
    Good W σ (allocH σ xs).1 [(allocH σ xs).2] :=
  ⟨ext_append _ _ _, fun x hx => by
    rw [List.mem_singleton] at hx
    subst hx
    exact resOK_alloc W σ xs⟩

theorem good_allocs (σ : Store α) (ls : List (List (Pt α))) :
    Good [] σ (allocsH σ ls).1 (allocsH σ ls).2 := by
  induction ls generalizing σ with
  | nil => exact Good.refl _ _
  | cons l ls ih =>
    simp only [allocsH]
    exact (good_alloc [] σ l).seq (ih (allocH σ l).1)

section clip
variable [Add α] [Sub α] [Mul α] [Div α] [LT α] [LE α] [DecidableLT α] [DecidableLE α] [BEq α]
  [Min α] [Max α]

theorem ringH_good (box : Bound α) (σ σ' : Store α) (h : Hdr) (r : Option Hdr)
    (hr : ringH box σ h = some (σ', r)) : Good [h] σ σ' r.toList := by
  unfold ringH at hr
  cases ht : ringTrace box (readH σ h) with
  | none => simp [ht] at hr
  | some t =>
    simp only [ht, Option.map_some, Option.some.injEq] at hr
    have e := ringEffect_ext σ h t
    have q := ringEffect_res σ h t
    rw [hr] at e q
    refine ⟨e, fun x hx => q x ?_⟩
    cases r with
    | none => cases hx
    | some y => simp only [Option.toList, List.mem_singleton] at hx; rw [hx]

theorem holesH_good (box : Bound α) (hs : List Hdr) (σ σ' : Store α) (rs : List Hdr)
    (hr : holesH box σ hs = some (σ', rs)) : Good hs σ σ' rs := by
  induction hs generalizing σ σ' rs with
  | nil =>
    simp only [holesH, Option.some.injEq, Prod.mk.injEq] at hr
    rw [← hr.1, ← hr.2]
    exact Good.refl _ _
  | cons h hs ih =>
    simp only [holesH] at hr
    cases h1 : ringH box σ h with
    | none => simp [h1] at hr
    | some p1 =>
      obtain ⟨σ1, r⟩ := p1
      simp only [h1] at hr
      cases h2 : holesH box σ1 hs with
      | none => simp [h2] at hr
      | some p2 =>
        obtain ⟨σ2, rs2⟩ := p2
        simp only [h2, Option.some.injEq, Prod.mk.injEq] at hr
        rw [← hr.1, ← hr.2]
        have g := (ringH_good box σ σ1 h r h1).seq (ih σ1 σ2 rs2 h2)
        rw [List.singleton_append] at g
        refine g.sub fun x hx => ?_
        cases r with
        | none => simpa using hx
        | some y => simpa using hx

theorem polygonH_good (box : Bound α) (hs : List Hdr) (σ σ' : Store α) (r : Option (List Hdr))
    (hr : polygonH box σ hs = some (σ', r)) : Good hs σ σ' (r.getD []) := by
  cases hs with
  | nil =>
    simp only [polygonH, Option.some.injEq, Prod.mk.injEq] at hr
    rw [← hr.1, ← hr.2]
    exact Good.refl _ _
  | cons h hs =>
    simp only [polygonH] at hr
    cases h1 : ringH box σ h with
    | none => simp [h1] at hr
    | some p1 =>
      obtain ⟨σ1, r1⟩ := p1
      cases r1 with
      | none =>
        simp only [h1, Option.some.injEq, Prod.mk.injEq] at hr
        rw [← hr.1, ← hr.2]
        exact ((ringH_good box σ σ1 h none h1).mono (by simp)).sub (by simp)
      | some y =>
        simp only [h1] at hr
        cases h2 : holesH box σ1 hs with
        | none => simp [h2] at hr
        | some p2 =>
          obtain ⟨σ2, rs2⟩ := p2
          simp only [h2, Option.some.injEq, Prod.mk.injEq] at hr
          rw [← hr.1, ← hr.2]
          exact (ringH_good box σ σ1 h (some y) h1).seq (holesH_good box hs σ1 σ2 rs2 h2)

theorem multiPolygonH_good (box : Bound α) (hss : List (List Hdr)) (σ σ' : Store α) (rs : List (List Hdr))
    (hr : multiPolygonH box σ hss = some (σ', rs)) : Good hss.flatten σ σ' rs.flatten := by
  induction hss generalizing σ σ' rs with
  | nil =>
    simp only [multiPolygonH, Option.some.injEq, Prod.mk.injEq] at hr
    rw [← hr.1, ← hr.2]
    exact Good.refl _ _
  | cons hs hss ih =>
    simp only [multiPolygonH] at hr
    cases h1 : polygonH box σ hs with
    | none => simp [h1] at hr
    | some p1 =>
      obtain ⟨σ1, r⟩ := p1
      simp only [h1] at hr
      cases h2 : multiPolygonH box σ1 hss with
      | none => simp [h2] at hr
      | some p2 =>
        obtain ⟨σ2, rs2⟩ := p2
        simp only [h2, Option.some.injEq, Prod.mk.injEq] at hr
        rw [← hr.1, ← hr.2]
        have g := (polygonH_good box hs σ σ1 r h1).seq (ih σ1 σ2 rs2 h2)
        rw [List.flatten_cons]
        refine g.sub fun x hx => ?_
        cases r with
        | none => simpa using hx
        | some y => simpa using hx

/-- the headers of an optional result -/
def resHdrs (r : Option (SGeom α)) : List Hdr := match r with | none => [] | some r => hdrs r

theorem collectH_good (eb box : Bound α) (gs : List (SGeom α))
    (ih : ∀ g ∈ gs, ∀ (σ σ' : Store α) (r : Option (SGeom α)),
      geometryH eb box σ g = some (σ', r) → Good (ringHdrs g) σ σ' (resHdrs r))
    (σ σ' : Store α) (rs : List (SGeom α)) (hr : collectH eb box σ gs = some (σ', rs)) :
    Good (ringHdrsList gs) σ σ' (hdrsList rs) := by
  induction gs generalizing σ σ' rs with
  | nil =>
    simp only [collectH, Option.some.injEq, Prod.mk.injEq] at hr
    rw [← hr.1, ← hr.2]
    exact Good.refl _ _
  | cons g gs ihl =>
    simp only [collectH] at hr
    cases h1 : geometryH eb box σ g with
    | none => simp [h1] at hr
    | some p1 =>
      obtain ⟨σ1, r⟩ := p1
      simp only [h1] at hr
      cases h2 : collectH eb box σ1 gs with
      | none => simp [h2] at hr
      | some p2 =>
        obtain ⟨σ2, rs2⟩ := p2
        simp only [h2, Option.some.injEq, Prod.mk.injEq] at hr
        rw [← hr.1, ← hr.2]
        have g' := (ih g (by simp) σ σ1 r h1).seq
          (ihl (fun g hg => ih g (List.mem_cons_of_mem _ hg)) σ1 σ2 rs2 h2)
        simp only [ringHdrsList]
        refine g'.sub fun x hx => ?_
        cases r with
        | none => simpa [resHdrs] using hx
        | some y => simpa [resHdrs, hdrsList] using hx

theorem geometryH_good (eb box : Bound α) (g : SGeom α) (σ σ' : Store α) (r : Option (SGeom α))
    (hr : geometryH eb box σ g = some (σ', r)) : Good (ringHdrs g) σ σ' (resHdrs r) := by
  induction g using SGeom.ind generalizing σ σ' r with
  | h1 p =>
    simp only [geometryH] at hr
    split at hr <;> (simp only [Option.some.injEq, Prod.mk.injEq] at hr; rw [← hr.1, ← hr.2])
    · exact Good.refl _ _
    · exact Good.refl _ _
  | h8 a b =>
    simp only [geometryH] at hr
    split at hr
    · simp only [Option.some.injEq, Prod.mk.injEq] at hr; rw [← hr.1, ← hr.2]; exact Good.refl _ _
    · split at hr
      · simp only [Option.some.injEq, Prod.mk.injEq] at hr; rw [← hr.1, ← hr.2]; exact Good.refl _ _
      · split at hr <;> (simp only [Option.some.injEq, Prod.mk.injEq] at hr; rw [← hr.1, ← hr.2])
        · exact Good.refl _ _
        · exact Good.refl _ _
  | h2 h =>
    simp only [geometryH] at hr
    split at hr
    · simp only [Option.some.injEq, Prod.mk.injEq] at hr; rw [← hr.1, ← hr.2]; exact Good.refl _ _
    · split at hr <;> (simp only [Option.some.injEq, Prod.mk.injEq] at hr; rw [← hr.1, ← hr.2])
      · exact Good.refl _ _
      · exact Good.refl _ _
      · exact good_alloc _ _ _
  | h3 h =>
    simp only [geometryH] at hr
    split at hr
    · simp only [Option.some.injEq, Prod.mk.injEq] at hr; rw [← hr.1, ← hr.2]; exact Good.refl _ _
    · split at hr
      · cases hr
      · simp only [Option.some.injEq, Prod.mk.injEq] at hr; rw [← hr.1, ← hr.2]; exact Good.refl _ _
      · simp only [Option.some.injEq, Prod.mk.injEq] at hr; rw [← hr.1, ← hr.2]; exact good_alloc _ _ _
      · simp only [Option.some.injEq, Prod.mk.injEq] at hr; rw [← hr.1, ← hr.2]; exact good_allocs _ _
  | h4 hs =>
    simp only [geometryH] at hr
    split at hr
    · simp only [Option.some.injEq, Prod.mk.injEq] at hr; rw [← hr.1, ← hr.2]; exact Good.refl _ _
    · split at hr
      · cases hr
      · simp only [Option.some.injEq, Prod.mk.injEq] at hr; rw [← hr.1, ← hr.2]; exact Good.refl _ _
      · simp only [Option.some.injEq, Prod.mk.injEq] at hr; rw [← hr.1, ← hr.2]; exact good_alloc _ _ _
      · simp only [Option.some.injEq, Prod.mk.injEq] at hr; rw [← hr.1, ← hr.2]; exact good_allocs _ _
  | h5 h =>
    simp only [geometryH] at hr
    split at hr
    · simp only [Option.some.injEq, Prod.mk.injEq] at hr; rw [← hr.1, ← hr.2]; exact Good.refl _ _
    · split at hr
      · cases hr
      · rename_i σ1 h1
        simp only [Option.some.injEq, Prod.mk.injEq] at hr; rw [← hr.1, ← hr.2]
        exact ringH_good box σ σ1 h none h1
      · rename_i σ1 y h1
        simp only [Option.some.injEq, Prod.mk.injEq] at hr; rw [← hr.1, ← hr.2]
        exact ringH_good box σ σ1 h (some y) h1
  | h6 hs =>
    simp only [geometryH] at hr
    split at hr
    · simp only [Option.some.injEq, Prod.mk.injEq] at hr; rw [← hr.1, ← hr.2]; exact Good.refl _ _
    · split at hr
      · cases hr
      · rename_i σ1 h1
        simp only [Option.some.injEq, Prod.mk.injEq] at hr; rw [← hr.1, ← hr.2]
        exact polygonH_good box hs σ σ1 none h1
      · rename_i σ1 y h1
        simp only [Option.some.injEq, Prod.mk.injEq] at hr; rw [← hr.1, ← hr.2]
        exact polygonH_good box hs σ σ1 (some y) h1
  | h7 hss =>
    simp only [geometryH] at hr
    split at hr
    · simp only [Option.some.injEq, Prod.mk.injEq] at hr; rw [← hr.1, ← hr.2]; exact Good.refl _ _
    · split at hr
      · cases hr
      · rename_i σ1 h1
        simp only [Option.some.injEq, Prod.mk.injEq] at hr; rw [← hr.1, ← hr.2]
        exact (multiPolygonH_good box hss σ σ1 [] h1)
      · rename_i σ1 p h1
        simp only [Option.some.injEq, Prod.mk.injEq] at hr; rw [← hr.1, ← hr.2]
        simpa [resHdrs, hdrs, ringHdrs] using (multiPolygonH_good box hss σ σ1 [p] h1)
      · rename_i σ1 l _ _ h1
        simp only [Option.some.injEq, Prod.mk.injEq] at hr; rw [← hr.1, ← hr.2]
        exact multiPolygonH_good box hss σ σ1 l h1
  | hc gs ih =>
    simp only [geometryH] at hr
    split at hr
    · simp only [Option.some.injEq, Prod.mk.injEq] at hr; rw [← hr.1, ← hr.2]; exact Good.refl _ _
    · split at hr
      · cases hr
      · rename_i σ1 h1
        simp only [Option.some.injEq, Prod.mk.injEq] at hr; rw [← hr.1, ← hr.2]
        exact collectH_good eb box gs ih σ σ1 [] h1
      · rename_i σ1 y h1
        simp only [Option.some.injEq, Prod.mk.injEq] at hr; rw [← hr.1, ← hr.2]
        simpa [resHdrs, hdrsList, ringHdrs] using collectH_good eb box gs ih σ σ1 [y] h1
      · rename_i σ1 l _ _ h1
        simp only [Option.some.injEq, Prod.mk.injEq] at hr; rw [← hr.1, ← hr.2]
        exact collectH_good eb box gs ih σ σ1 l h1

end clip

end Orb.HeapOps
