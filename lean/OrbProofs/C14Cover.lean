/-
  C14 lemmas, part 1: covers (point, multi-point, bound, collection, totality, polygon trace bound).
  Statements with a prime are re-exported by OrbProofs/C14.lean.
  Helper lemmas carry the prefix `cov_` / `Cov` (the sibling files C14Merge / C14Dda share the namespace).
-/
import Orb.TileCover
import OrbProofs.C13Lemmas
set_option linter.unusedSectionVars false

namespace Orb.TileCover
open Orb Orb.Tile
section covers
variable {α : Type} [Add α] [Sub α] [Div α] [Neg α] [OfNat α 0] [OfNat α 1] [LT α] [DecidableLT α] [BEq α]

theorem cover_point' (ops : Ops α) (frac : Pt α → Pt α) (zoom fuel : Nat) (p : Pt α) :
    cover ops frac zoom fuel (.point p) = .ok [tileAt ops p.x (frac p) zoom] := by
  simp only [cover]

theorem cov_shl32_one_pow {z : Nat} (hz : z ≤ 31) : shl32 1 z = 2 ^ z := by
  have h : 2 ^ z < 2 ^ 32 := Nat.pow_lt_pow_right (by omega) (by omega)
  have := shl32_eq (a := 1) (s := z) (by omega)
  omega

theorem tileAt_spec' (ops : Ops α) (lon : α) (f : Pt α) (zoom : Nat) (hz : zoom ≤ 31) :
    tileAt ops lon f zoom =
      (let x := Nat.min (ops.toU32 f.x) (2 ^ zoom - 1)
       ⟨if 0 < x ∧ lon < ops.westEdge x (2 ^ zoom) then x - 1 else x, ops.toU32 f.y, zoom⟩) := by
  have hp : 0 < 2 ^ zoom := Nat.pow_pos (by omega)
  have hx : (if 2 ^ zoom ≠ 0 ∧ ops.toU32 f.x ≥ 2 ^ zoom then 2 ^ zoom - 1 else ops.toU32 f.x)
      = Nat.min (ops.toU32 f.x) (2 ^ zoom - 1) := by
    show _ = min _ _
    rw [Nat.min_def]
    split <;> split <;> omega
  simp only [tileAt, cov_shl32_one_pow hz, hx]
  apply tile_ext <;> simp only []
  by_cases h : 0 < Nat.min (ops.toU32 f.x) (2 ^ zoom - 1) ∧
      lon < ops.westEdge (Nat.min (ops.toU32 f.x) (2 ^ zoom - 1)) (2 ^ zoom)
  · rw [if_pos h, if_pos ⟨by omega, h.1, h.2⟩]
  · rw [if_neg h, if_neg (fun h' => h ⟨h'.2.1, h'.2.2⟩)]

/-- The column `maptile.At` returns is never east of the longitude, as far as the edge expression can tell:
    a positive result column that was not stepped back has its west edge at or west of the longitude;
    a stepped-back column is the one just west of an edge the longitude lies west of. -/
theorem tileAt_column' (ops : Ops α) (lon : α) (f : Pt α) (zoom : Nat) (hz : zoom ≤ 31) :
    let x := Nat.min (ops.toU32 f.x) (2 ^ zoom - 1)
    let t := tileAt ops lon f zoom
    (t.x = x ∧ (0 < x → ¬ lon < ops.westEdge x (2 ^ zoom))) ∨
    (t.x + 1 = x ∧ lon < ops.westEdge x (2 ^ zoom)) := by
  intro x t
  have ht : t = _ := tileAt_spec' ops lon f zoom hz
  by_cases h : 0 < x ∧ lon < ops.westEdge x (2 ^ zoom)
  · right
    refine ⟨?_, h.2⟩
    rw [ht]; simp only []
    rw [if_pos h]; omega
  · left
    refine ⟨?_, fun h0 hl => h ⟨h0, hl⟩⟩
    rw [ht]; simp only []
    rw [if_neg h]

theorem cover_multiPoint' (ops : Ops α) (frac : Pt α → Pt α) (zoom fuel : Nat) (ps : List (Pt α)) :
    ∃ S, cover ops frac zoom fuel (.multiPoint ps) = .ok S ∧
      ∀ t, t ∈ S ↔ ∃ p ∈ ps, t = tileAt ops p.x (frac p) zoom := by
  refine ⟨ps.map fun p => tileAt ops p.x (frac p) zoom, by simp only [cover], ?_⟩
  intro t
  simp only [List.mem_map]
  constructor
  · rintro ⟨p, hp, rfl⟩; exact ⟨p, hp, rfl⟩
  · rintro ⟨p, hp, rfl⟩; exact ⟨p, hp, rfl⟩

theorem cov_mem_coverRect (lo hi t : Tile) (z : Nat) :
    t ∈ coverRect lo hi z ↔ t.z = z ∧ lo.x ≤ t.x ∧ t.x ≤ hi.x ∧ hi.y ≤ t.y ∧ t.y ≤ lo.y := by
  simp only [coverRect, List.mem_flatMap, List.mem_map, List.mem_range]
  constructor
  · rintro ⟨i, hi', j, hj, rfl⟩
    refine ⟨rfl, ?_⟩
    show lo.x ≤ lo.x + i ∧ lo.x + i ≤ hi.x ∧ hi.y ≤ hi.y + j ∧ hi.y + j ≤ lo.y
    omega
  · rintro ⟨h1, h2, h3, h4, h5⟩
    refine ⟨t.x - lo.x, by omega, t.y - hi.y, by omega, ?_⟩
    apply tile_ext <;> simp only [] <;> omega

theorem cover_bound_rect' (ops : Ops α) (frac : Pt α → Pt α) (zoom fuel : Nat) (a b : Pt α) :
    ∃ S, cover ops frac zoom fuel (.bound a b) = .ok S ∧
      ∀ t, t ∈ S ↔ (¬ (b.x < a.x ∨ b.y < a.y) ∧ t.z = zoom ∧
        (tileAt ops a.x (frac a) zoom).x ≤ t.x ∧ t.x ≤ (tileAt ops b.x (frac b) zoom).x ∧
        (tileAt ops b.x (frac b) zoom).y ≤ t.y ∧ t.y ≤ (tileAt ops a.x (frac a) zoom).y) := by
  by_cases h : b.x < a.x ∨ b.y < a.y
  · refine ⟨[], by simp only [cover, if_pos h], ?_⟩
    intro t
    simp [h]
  · refine ⟨coverRect (tileAt ops a.x (frac a) zoom) (tileAt ops b.x (frac b) zoom) zoom, by simp only [cover, if_neg h], ?_⟩
    intro t
    rw [cov_mem_coverRect]
    simp [h]

/-- one step of the collection loop -/
def cov_collStep (ops : Ops α) (frac : Pt α → Pt α) (zoom fuel : Nat)
    (acc : CRes (List Tile)) (g : Geom α) : CRes (List Tile) :=
  match acc with
  | .ok set =>
    (match cover ops frac zoom fuel g with
     | .ok s => .ok (s ++ set)
     | .err e => .err e
     | .panic w => .panic w)
  | r => r

theorem cov_cover_collection_eq (ops : Ops α) (frac : Pt α → Pt α) (zoom fuel : Nat) (gs : List (Geom α)) :
    cover ops frac zoom fuel (.collection gs) = gs.foldl (cov_collStep ops frac zoom fuel) (.ok []) := by
  simp only [cover]; rfl

theorem cov_collStep_fold_not_ok (ops : Ops α) (frac : Pt α → Pt α) (zoom fuel : Nat) (gs : List (Geom α))
    (r : CRes (List Tile)) (hr : r.isOk = false) :
    gs.foldl (cov_collStep ops frac zoom fuel) r = r := by
  induction gs with
  | nil => rfl
  | cons g gs ih =>
    rw [List.foldl_cons]
    cases r with
    | ok s => simp [Res.isOk] at hr
    | err e => exact ih
    | panic w => exact ih

theorem cov_collStep_fold_ok (ops : Ops α) (frac : Pt α → Pt α) (zoom fuel : Nat) (gs : List (Geom α))
    (hs : ∀ g ∈ gs, ∃ s, cover ops frac zoom fuel g = .ok s) (set0 : List Tile) :
    ∃ S, gs.foldl (cov_collStep ops frac zoom fuel) (.ok set0) = .ok S ∧
      ∀ t, t ∈ S ↔ t ∈ set0 ∨ ∃ g ∈ gs, ∃ s, cover ops frac zoom fuel g = .ok s ∧ t ∈ s := by
  induction gs generalizing set0 with
  | nil => exact ⟨set0, rfl, by simp⟩
  | cons g gs ih =>
    obtain ⟨s, hs'⟩ := hs g (List.mem_cons_self ..)
    have hstep : cov_collStep ops frac zoom fuel (.ok set0) g = .ok (s ++ set0) := by
      simp only [cov_collStep, hs']
    obtain ⟨S, hS, hmem⟩ := ih (fun g' hg' => hs g' (List.mem_cons_of_mem _ hg')) (s ++ set0)
    refine ⟨S, by rw [List.foldl_cons, hstep, hS], ?_⟩
    intro t
    rw [hmem, List.mem_append]
    constructor
    · rintro ((h | h) | ⟨g', hg', s', hs'', ht⟩)
      · exact Or.inr ⟨g, List.mem_cons_self .., s, hs', h⟩
      · exact Or.inl h
      · exact Or.inr ⟨g', List.mem_cons_of_mem _ hg', s', hs'', ht⟩
    · rintro (h | ⟨g', hg', s', hs'', ht⟩)
      · exact Or.inl (Or.inr h)
      · rcases List.mem_cons.1 hg' with rfl | hg'
        · rw [hs'] at hs''; cases hs''; exact Or.inl (Or.inl ht)
        · exact Or.inr ⟨g', hg', s', hs'', ht⟩

theorem cover_collection_union' (ops : Ops α) (frac : Pt α → Pt α) (zoom fuel : Nat) (gs : List (Geom α))
    (hs : ∀ g ∈ gs, ∃ s, cover ops frac zoom fuel g = .ok s) :
    ∃ S, cover ops frac zoom fuel (.collection gs) = .ok S ∧
      ∀ t, t ∈ S ↔ ∃ g ∈ gs, ∃ s, cover ops frac zoom fuel g = .ok s ∧ t ∈ s := by
  obtain ⟨S, hS, hmem⟩ := cov_collStep_fold_ok ops frac zoom fuel gs hs []
  refine ⟨S, by rw [cov_cover_collection_eq, hS], ?_⟩
  intro t; rw [hmem]; simp

theorem cover_collection_error' (ops : Ops α) (frac : Pt α → Pt α) (zoom fuel : Nat)
    (gs₁ : List (Geom α)) (g : Geom α) (gs₂ : List (Geom α))
    (hs : ∀ g ∈ gs₁, ∃ s, cover ops frac zoom fuel g = .ok s)
    (hg : (cover ops frac zoom fuel g).isOk = false) :
    cover ops frac zoom fuel (.collection (gs₁ ++ g :: gs₂)) = cover ops frac zoom fuel g := by
  obtain ⟨S, hS, -⟩ := cov_collStep_fold_ok ops frac zoom fuel gs₁ hs []
  rw [cov_cover_collection_eq, List.foldl_append, hS, List.foldl_cons]
  have hstep : cov_collStep ops frac zoom fuel (.ok S) g = cover ops frac zoom fuel g := by
    simp only [cov_collStep]
    cases hc : cover ops frac zoom fuel g with
    | ok s => rw [hc] at hg; simp [Res.isOk] at hg
    | err e => rfl
    | panic w => rfl
  rw [hstep]
  exact cov_collStep_fold_not_ok ops frac zoom fuel gs₂ _ hg

/-! ### totality -/

theorem Geom.ind14 {α : Type} {motive : Geom α → Prop}
    (h1 : ∀ p, motive (.point p)) (h2 : ∀ ps, motive (.multiPoint ps))
    (h3 : ∀ ps, motive (.lineString ps)) (h4 : ∀ ls, motive (.multiLineString ls))
    (h5 : ∀ ps, motive (.ring ps)) (h6 : ∀ rs, motive (.polygon rs))
    (h7 : ∀ ps, motive (.multiPolygon ps)) (h8 : ∀ a b, motive (.bound a b))
    (hc : ∀ gs, (∀ g ∈ gs, motive g) → motive (.collection gs)) : ∀ g, motive g := by
  intro g
  refine Geom.rec (motive_1 := motive) (motive_2 := fun gs => ∀ g ∈ gs, motive g)
    h1 h2 h3 h4 h5 h6 h7 h8 hc ?_ ?_ g
  · intro g hg; cases hg
  · intro head tail hh ht g hg
    rcases List.mem_cons.1 hg with rfl | hg
    · exact hh
    · exact ht g hg

theorem cov_line_not_panic (ops : Ops α) (zoom fuel : Nat) (set : List Tile) (pts : List (Pt α))
    (ring : Option (List (Nat × Nat))) : (line ops zoom fuel set pts ring).isPanic = false := by
  unfold line
  repeat' split
  all_goals rfl

theorem cov_traceRings_not_panic (ops : Ops α) (zoom fuel : Nat) (rings : List (List (Pt α))) :
    ∀ set inter, (traceRings ops zoom fuel set inter rings).isPanic = false := by
  induction rings with
  | nil => intro set inter; rfl
  | cons r rs ih =>
    intro set inter
    have hl := cov_line_not_panic ops zoom fuel set r (some [])
    rw [traceRings]
    split
    · exact ih _ _
    · rfl
    · rename_i w hw; rw [hw] at hl; simp [Res.isPanic] at hl

theorem cov_polygon_not_panic (ops : Ops α) (zoom fuel : Nat) (set : List Tile) (rings : List (List (Pt α))) :
    (polygon ops zoom fuel set rings).isPanic = false := by
  have ht := cov_traceRings_not_panic ops zoom fuel rings set []
  unfold polygon
  split
  · split <;> rfl
  · rfl
  · rename_i w hw; rw [hw] at ht; simp [Res.isPanic] at ht

theorem cov_multiLine_not_panic (ops : Ops α) (zoom fuel : Nat) (ls : List (List (Pt α))) :
    ∀ set, (multiLine ops zoom fuel set ls).isPanic = false := by
  induction ls with
  | nil => intro set; rfl
  | cons l ls ih =>
    intro set
    have hl := cov_line_not_panic ops zoom fuel set l none
    rw [multiLine]
    split
    · exact ih _
    · rfl
    · rename_i w hw; rw [hw] at hl; simp [Res.isPanic] at hl

theorem cov_multiPolygon_not_panic (ops : Ops α) (zoom fuel : Nat) (ps : List (List (List (Pt α)))) :
    ∀ set, (multiPolygon ops zoom fuel set ps).isPanic = false := by
  induction ps with
  | nil => intro set; rfl
  | cons p ps ih =>
    intro set
    have hl := cov_polygon_not_panic ops zoom fuel set p
    rw [multiPolygon]
    split
    · exact ih _
    · rfl
    · rename_i w hw; rw [hw] at hl; simp [Res.isPanic] at hl

theorem cov_collStep_fold_not_panic (ops : Ops α) (frac : Pt α → Pt α) (zoom fuel : Nat) (gs : List (Geom α))
    (hs : ∀ g ∈ gs, (cover ops frac zoom fuel g).isPanic = false) :
    ∀ r : CRes (List Tile), r.isPanic = false →
      (gs.foldl (cov_collStep ops frac zoom fuel) r).isPanic = false := by
  induction gs with
  | nil => intro r hr; exact hr
  | cons g gs ih =>
    intro r hr
    rw [List.foldl_cons]
    apply ih (fun g' hg' => hs g' (List.mem_cons_of_mem _ hg'))
    have hg := hs g (List.mem_cons_self ..)
    cases r with
    | ok s =>
      simp only [cov_collStep]
      cases hc : cover ops frac zoom fuel g with
      | ok s' => rfl
      | err e => rfl
      | panic w => rw [hc] at hg; simp [Res.isPanic] at hg
    | err e => rfl
    | panic w => simp [Res.isPanic] at hr

theorem cover_total' (ops : Ops α) (frac : Pt α → Pt α) (zoom fuel : Nat) (g : Geom α) :
    (cover ops frac zoom fuel g).isPanic = false := by
  induction g using Geom.ind14 with
  | h1 p => simp only [cover]; rfl
  | h2 ps => simp only [cover]; rfl
  | h3 ps =>
    simp only [cover]
    have hl := cov_line_not_panic ops zoom fuel [] (ps.map frac) none
    cases hc : line ops zoom fuel [] (ps.map frac) none with
    | ok s => rfl
    | err e => rfl
    | panic w => rw [hc] at hl; simp [Res.isPanic] at hl
  | h4 ls => simp only [cover]; exact cov_multiLine_not_panic ..
  | h5 ps =>
    simp only [cover]
    split
    · rfl
    · exact cov_polygon_not_panic ..
  | h6 rs => simp only [cover]; exact cov_polygon_not_panic ..
  | h7 ps => simp only [cover]; exact cov_multiPolygon_not_panic ..
  | h8 a b =>
    simp only [cover]
    split <;> rfl
  | hc gs ih =>
    rw [cov_cover_collection_eq]
    exact cov_collStep_fold_not_panic ops frac zoom fuel gs ih _ rfl

theorem polygon_contains_boundary_cover' (ops : Ops α) (zoom fuel : Nat) (set : List Tile)
    (rings : List (List (Pt α))) (S : List Tile) (h : polygon ops zoom fuel set rings = .ok S) :
    ∃ set' inter, traceRings ops zoom fuel set [] rings = .ok (set', inter) ∧ ∀ t ∈ set', t ∈ S := by
  unfold polygon at h
  split at h
  · rename_i set' inter heq
    split at h
    · cases h
    · cases h
      exact ⟨set', inter, heq, fun t ht => List.mem_append_right _ ht⟩
  · cases h
  · cases h

/-! ### the polygon trace bound -/

-- (the membership invariant of the ring trace and `polygon_within_trace_bound'` live in `C14Unions`)

theorem cov_ringIntersections_subset (ring : List (Nat × Nat)) (e : Nat × Nat)
    (h : e ∈ ringIntersections ring) : e ∈ ring := by
  simp only [ringIntersections, List.mem_filterMap, List.mem_range] at h
  obtain ⟨i, hi, h⟩ := h
  split at h
  · cases h
    rw [List.getD_eq_getElem?_getD, List.getElem?_eq_getElem hi]
    exact List.getElem_mem hi
  · cases h

theorem cov_fillPairs_mem (zoom : Nat) (l : List (Nat × Nat)) (t : Tile) (h : t ∈ fillPairs zoom l) :
    t.z = zoom ∧ ∃ a ∈ l, ∃ b ∈ l, t.y = a.2 ∧ add32 a.1 1 ≤ t.x ∧ t.x < b.1 := by
  induction l using fillPairs.induct with
  | case1 a b rest ih =>
    rw [fillPairs] at h
    rcases List.mem_append.1 h with h | h
    · simp only [List.mem_map, List.mem_range] at h
      obtain ⟨k, hk, rfl⟩ := h
      refine ⟨rfl, a, List.mem_cons_self .., b, List.mem_cons_of_mem _ (List.mem_cons_self ..), rfl, ?_, ?_⟩
      · show add32 a.1 1 ≤ add32 a.1 1 + k
        omega
      · show add32 a.1 1 + k < b.1
        omega
    · obtain ⟨hz, a', ha', b', hb', h3⟩ := ih h
      exact ⟨hz, a', List.mem_cons_of_mem _ (List.mem_cons_of_mem _ ha'),
        b', List.mem_cons_of_mem _ (List.mem_cons_of_mem _ hb'), h3⟩
  | case2 l hl =>
    rw [fillPairs] at h
    · cases h
    · exact hl

theorem cov_mem_sortYX (l : List (Nat × Nat)) (e : Nat × Nat) (h : e ∈ sortYX l) : e ∈ l :=
  (List.mergeSort_perm l _).mem_iff.1 h

end covers
end Orb.TileCover
