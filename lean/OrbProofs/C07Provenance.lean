/-
  C07 — provenance of the output vertices of `clip.line`, FOR ANY ARITHMETIC (floats included).

  Every vertex `line` returns is either an input vertex as it is (a COPY: no arithmetic touched it) or a
  point produced by `intersect` / `clampToBound` (COMPUTED), and a computed point has at least one
  coordinate that IS an edge value of the box (`intersect` stores the edge value itself in the clipped
  coordinate, `clampToBound` only ever stores edge values).  No hypothesis on the box, on the option or on
  what `+ - * / < ≤` do: the statement is about which values the code can store, so it holds for the
  `Float` instance the implementation runs on.  It is what entitles the driver to judge with NO tolerance
  every output vertex that is not on the boundary (it must be bit-identical to an input vertex), and to
  allow the rounding tolerance only for the computed coordinate of a boundary point.
  Primed statements, re-exported by OrbProofs/C07.lean.
-/
import Orb.Clip
import Mathlib.Tactic.SplitIfs

set_option linter.unusedSectionVars false
set_option linter.unusedVariables false

namespace Orb.Clip
open Orb Orb.Core

variable {α : Type} [Add α] [Sub α] [Mul α] [Div α] [LT α] [LE α] [DecidableLT α] [DecidableLE α] [BEq α]
  [Min α] [Max α]

/-- some coordinate of `p` IS (bit for bit) an edge value of the box -/
def OnEdgeValue (box : Bound α) (p : Pt α) : Prop :=
  p.x = box.lo.x ∨ p.x = box.hi.x ∨ p.y = box.lo.y ∨ p.y = box.hi.y

/-- `v` is an input vertex as it is, or has a coordinate that is an edge value -/
def CopyOrComputed (box : Bound α) (inp : List (Pt α)) (v : Pt α) : Prop := v ∈ inp ∨ OnEdgeValue box v

theorem intersect_onEdgeValue (box : Bound α) (e : Nat) (a b p : Pt α) (h : intersect box e a b = some p) :
    OnEdgeValue box p := by
  unfold intersect at h
  split_ifs at h with h1 h2 h3 h4
  · obtain rfl := Option.some.inj h; exact Or.inr (Or.inr (Or.inr rfl))
  · obtain rfl := Option.some.inj h; exact Or.inr (Or.inr (Or.inl rfl))
  · obtain rfl := Option.some.inj h; exact Or.inr (Or.inl rfl)
  · obtain rfl := Option.some.inj h; exact Or.inl rfl

theorem clamp_onEdgeValue (box : Bound α) (p : Pt α) (h : OnEdgeValue box p) :
    OnEdgeValue box (clampToBound box p) := by
  unfold OnEdgeValue clampToBound at *
  simp only
  rcases h with h | h | h | h
  · by_cases h1 : p.x < box.lo.x
    · rw [if_pos h1]; exact Or.inl rfl
    · rw [if_neg h1]
      by_cases h2 : p.x > box.hi.x
      · rw [if_pos h2]; exact Or.inr (Or.inl rfl)
      · rw [if_neg h2]; exact Or.inl h
  · by_cases h1 : p.x < box.lo.x
    · rw [if_pos h1]; exact Or.inl rfl
    · rw [if_neg h1]
      by_cases h2 : p.x > box.hi.x
      · rw [if_pos h2]; exact Or.inr (Or.inl rfl)
      · rw [if_neg h2]; exact Or.inr (Or.inl h)
  · by_cases h1 : p.y < box.lo.y
    · rw [if_pos h1]; exact Or.inr (Or.inr (Or.inl rfl))
    · rw [if_neg h1]
      by_cases h2 : p.y > box.hi.y
      · rw [if_pos h2]; exact Or.inr (Or.inr (Or.inr rfl))
      · rw [if_neg h2]; exact Or.inr (Or.inr (Or.inl h))
  · by_cases h1 : p.y < box.lo.y
    · rw [if_pos h1]; exact Or.inr (Or.inr (Or.inl rfl))
    · rw [if_neg h1]
      by_cases h2 : p.y > box.hi.y
      · rw [if_pos h2]; exact Or.inr (Or.inr (Or.inr rfl))
      · rw [if_neg h2]; exact Or.inr (Or.inr (Or.inr h))

/-- the inner loop: an end that has not been clipped yet (`clips = 0`) is the segment's own end point, an
    end that has been clipped has an edge value; so are the two ends of an accepted segment -/
theorem segLoop_prov (box : Bound α) (isOpen : Bool) (a0 b0 : Pt α) :
    ∀ (fuel : Nat) (a b : Pt α) (cA cB nA nB : Nat),
      ((nA = 0 ∧ a = a0) ∨ OnEdgeValue box a) → ((nB = 0 ∧ b = b0) ∨ OnEdgeValue box b) →
      ∀ a' b' c, segLoop box isOpen fuel a b cA cB nA nB = .accept a' b' c →
        (a' = a0 ∨ OnEdgeValue box a') ∧ (b' = b0 ∨ OnEdgeValue box b') := by
  intro fuel
  induction fuel with
  | zero => intro a b cA cB nA nB _ _ a' b' c h; rw [segLoop] at h; exact absurd h (by simp)
  | succ n ih =>
    intro a b cA cB nA nB hA hB a' b' c h
    rw [segLoop] at h
    split_ifs at h with h1 h2 h3 h4 h5 h6
    · -- accepted
      injection h with ha hb _
      subst ha; subst hb
      exact ⟨hA.elim (fun x => Or.inl x.2) Or.inr, hB.elim (fun x => Or.inl x.2) Or.inr⟩
    · -- start end snapped: it had been clipped (twice), so it has an edge value, and keeps one
      have hE : OnEdgeValue box a := hA.elim (fun x => absurd (x.1 ▸ h4 : (0 : Nat) = 2) (by decide)) id
      exact ih _ _ _ _ _ _ (Or.inr (clamp_onEdgeValue box a hE)) hB a' b' c h
    · -- start end clipped
      cases hi : intersect box cA a b with
      | none => rw [hi] at h; exact absurd h (by simp)
      | some p =>
        rw [hi] at h
        exact ih _ _ _ _ _ _ (Or.inr (intersect_onEdgeValue box cA a b p hi)) hB a' b' c h
    · -- far end kept (open bound)
      exact ih _ _ _ _ _ _ hA hB a' b' c h
    · -- far end snapped
      have hE : OnEdgeValue box b := hB.elim (fun x => absurd (x.1 ▸ h6 : (0 : Nat) = 2) (by decide)) id
      exact ih _ _ _ _ _ _ hA (Or.inr (clamp_onEdgeValue box b hE)) a' b' c h
    · -- far end clipped
      cases hi : intersect box cB a b with
      | none => rw [hi] at h; exact absurd h (by simp)
      | some p =>
        rw [hi] at h
        exact ih _ _ _ _ _ _ hA (Or.inr (intersect_onEdgeValue box cB a b p hi)) a' b' c h

/-- all vertices of all pieces -/
def AllVerts (P : Pt α → Prop) (out : List (List (Pt α))) : Prop := ∀ piece ∈ out, ∀ v ∈ piece, P v

theorem mem_modify {β : Type} (f : β → β) : ∀ (l : List β) (i : Nat) (x : β),
    x ∈ l.modify i f → x ∈ l ∨ ∃ y ∈ l, x = f y := by
  intro l
  induction l with
  | nil => intro i x h; simp at h
  | cons a l ih =>
    intro i x h
    cases i with
    | zero =>
      simp at h
      rcases h with h | h
      · exact Or.inr ⟨a, by simp, h⟩
      · exact Or.inl (by simp [h])
    | succ i =>
      simp at h
      rcases h with h | h
      · exact Or.inl (by simp [h])
      · rcases ih i x h with h | ⟨y, hy, hxy⟩
        · exact Or.inl (by simp [h])
        · exact Or.inr ⟨y, by simp [hy], hxy⟩

theorem push_allVerts (P : Pt α → Prop) (out : List (List (Pt α))) (i : Nat) (p : Pt α)
    (ho : AllVerts P out) (hp : P p) : AllVerts P (push out i p) := by
  unfold push
  split_ifs with h
  · intro piece hpiece v hv
    rcases List.mem_append.1 hpiece with h1 | h1
    · exact ho piece h1 v hv
    · simp at h1; subst h1; simp at hv; subst hv; exact hp
  · intro piece hpiece v hv
    rcases mem_modify _ out i piece hpiece with h1 | ⟨y, hy, hxy⟩
    · exact ho piece h1 v hv
    · subst hxy
      rcases List.mem_append.1 hv with h2 | h2
      · exact ho y hy v h2
      · simp at h2; subst h2; exact hp

theorem lineStep_prov (box : Bound α) (isOpen : Bool) (inp : List (Pt α)) (st : LineSt α) (a b : Pt α)
    (last : Bool) (ha : a ∈ inp) (hb : b ∈ inp) (ho : AllVerts (CopyOrComputed box inp) st.out) :
    AllVerts (CopyOrComputed box inp) (lineStep box isOpen st a b last).out := by
  unfold lineStep
  simp only
  cases hs : segLoop box isOpen 8 a b st.codeA (if isOpen then bitCodeOpen box b else bitCode box b) 0 0 with
  | accept a' b' c =>
    obtain ⟨h1, h2⟩ := segLoop_prov box isOpen a b 8 a b _ _ 0 0 (Or.inl ⟨rfl, rfl⟩) (Or.inl ⟨rfl, rfl⟩) a' b' c hs
    have pa : CopyOrComputed box inp a' := h1.elim (fun e => Or.inl (e ▸ ha)) Or.inr
    have pb : CopyOrComputed box inp b' := h2.elim (fun e => Or.inl (e ▸ hb)) Or.inr
    have p1 := push_allVerts _ _ st.line _ ho pa
    have p2 := push_allVerts _ _ st.line _ p1 pb
    simp only
    split_ifs <;> first | exact p2 | exact p1
  | reject => exact ho
  | stuck => exact ho

theorem lineLoop_prov (box : Bound α) (isOpen : Bool) (inp : List (Pt α)) :
    ∀ (l : List (Pt α)) (st : LineSt α), (∀ v ∈ l, v ∈ inp) → AllVerts (CopyOrComputed box inp) st.out →
      AllVerts (CopyOrComputed box inp) (lineLoop box isOpen st l).out := by
  intro l
  induction l with
  | nil =>
    intro st _ ho; rw [lineLoop]
    · exact ho
    · intro _ _ _ h; simp at h
  | cons a rest ih =>
    intro st hl ho
    cases rest with
    | nil =>
      rw [lineLoop]
      · exact ho
      · intro _ _ _ h; simp at h
    | cons b rest =>
      rw [lineLoop]
      refine ih _ (fun v hv => hl v (List.mem_cons_of_mem _ hv)) ?_
      exact lineStep_prov box isOpen inp st a b _ (hl a (by simp)) (hl b (by simp)) ho

/-- PROVENANCE, any arithmetic, any box, either option: every vertex `line` returns is an input vertex as it
    is, or has a coordinate that is an edge value of the box. -/
theorem line_prov' (box : Bound α) (isOpen : Bool) (inp : List (Pt α)) (out : List (List (Pt α)))
    (h : line box isOpen inp = some out) : ∀ piece ∈ out, ∀ v ∈ piece, v ∈ inp ∨ OnEdgeValue box v := by
  unfold line at h
  cases inp with
  | nil => simp at h; subst h; intro piece hp; simp at hp
  | cons p rest =>
    simp only at h
    split_ifs at h
    all_goals
      obtain rfl := Option.some.inj h
      exact lineLoop_prov box isOpen (p :: rest) (p :: rest) _ (fun v hv => hv)
        (by intro piece hp; simp at hp)

end Orb.Clip
