/-
  C16 — Smart clipping closes cut rings around the box with the asked winding.
  PROPERTY THEOREMS about the model `Orb.SmartClip` (clip/smartclip/smart.go, around_bound.go; the
  open-bound line clipper is `Orb.Clip.line box true`, clip/clip.go).  Exact arithmetic over an
  ordered field.  Orientations are `orb.CCW = 1`, `orb.CW = -1`; boundary codes are
  1 left, 2 right, 4 bottom, 8 top and their corner sums 5, 6, 9, 10.

  What is a theorem and what is not:
  * theorems: the `nexts` tables are the two cyclic orders of the eight codes and `pointFor` places
    each code on its side or corner; `aroundBound` closes its input, stays on the boundary and walks
    the box edge in the requested direction; a ring wholly inside comes back unchanged, one with no
    point in the open box yields nothing (`ring_wholly_outside_nil`); every ring `smartWrap` returns is
    closed and inside the box; the entry
    points never panic, for every geometry value (`geometry_total`; it rests on `line_spec`, the
    specification of the open-bound line clipper proved in C16Line, and on C08's `geometry_total` for
    the kinds that are clipped plainly).  EXACT ARITHMETIC: `line_spec` and every
    totality theorem below are statements over a linearly ordered FIELD.  (In float64 the inner loop of
    clip.line used not to terminate when an intersection landed one ulp beyond the neighbouring box
    line — a vertex on a corner of a general-position box; found by this property's corner-snapped
    family under a per-case watchdog, repaired in /repo 2c23ded, and `Clip.line_total_any` now gives
    termination of that loop for ANY arithmetic.  The other loops are bounded by list lengths and the
    eight-entry corner table.)
  * NOT a theorem (`*_full` definitions below, carried by the executable property on the
    implementation's outputs): the returned polygons enclose exactly the clipped region, with the
    requested winding, holes attached to their container, open input completed on its interior side.
-/
import OrbProofs.C16Lemmas
import OrbProofs.C16Outside
import Mathlib.Algebra.Order.Field.Rat

namespace Orb.SmartClip
open Orb Orb.Core

/-! ### the corner tables -/

/-- The model's `nexts` tables are the `[11]int` literals of around_bound.go (`Generated.Tables` is
    regenerated from the Go source on every run: a changed entry breaks this proof and the ones below). -/
theorem nexts_generated : nextsCW = Generated.Tables.nextsCW ∧ nextsCCW = Generated.Tables.nextsCCW :=
  nexts_generated'

/-- Following `nexts[CCW]` from the left side visits the eight codes in counter-clockwise order. -/
theorem nexts_ccw_order : orbit (nexts CCW) 8 1 = ccwOrder := nexts_ccw_order'

/-- Following `nexts[CW]` visits them in the reverse (clockwise) order. -/
theorem nexts_cw_order : orbit (nexts CW) 8 1 = 1 :: (ccwOrder.drop 1).reverse := nexts_cw_order'

/-- From any boundary code, following `nexts[o]` visits all eight codes and returns after eight steps. -/
theorem nexts_cycle : ∀ o ∈ [CW, CCW], ∀ c ∈ ccwOrder,
    (orbit (nexts o) 9 c).getLast? = some c ∧ (orbit (nexts o) 8 c).isPerm ccwOrder = true := nexts_cycle'

/-- The two tables are inverse permutations of the eight codes. -/
theorem nexts_inverse : ∀ c ∈ ccwOrder,
    (nextAt (nexts CCW) c).bind (nextAt (nexts CW)) = .ok c ∧
    (nextAt (nexts CW) c).bind (nextAt (nexts CCW)) = .ok c := nexts_inverse'

section field
variable {α : Type} [Field α] [LinearOrder α] [IsStrictOrderedRing α]

/-- The model's `pointFor` is the `switch` of around_bound.go, case by case (min / max / mid of each
    coordinate as extracted from the Go source), and the switch has exactly the eight boundary codes. -/
theorem pointFor_generated (box : Bound α) : ∀ e ∈ Generated.Tables.pointFor,
    pointFor box (e.code : Int) = .ok ⟨pfCoord box.lo.x box.hi.x e.x, pfCoord box.lo.y box.hi.y e.y⟩ :=
  pointFor_generated' box

theorem pointFor_generated_codes :
    Generated.Tables.pointFor.map (fun e => (e.code : Int)) = [1, 2, 4, 5, 6, 8, 9, 10] := pointFor_generated_codes'

/-- `pointFor` puts the representative of each code on the boundary, in the region of that code. -/
theorem pointFor_on_side (box : Bound α) (hb : BoxOK box) : ∀ c ∈ ccwOrder,
    ∃ p, pointFor box c = .ok p ∧ OnBoundary box p ∧ (bitCodeOpen box p : Int) = c := pointFor_on_side' box hb

/-- `ccwOrder` is geometrically counter-clockwise: down the left side, right along the bottom, up the
    right side, left along the top. -/
theorem pointFor_ccw_geometric (box : Bound α) (hb : BoxOK box) :
    ∃ l bl b br r tr t tl : Pt α,
      ccwOrder.map (pointFor box) = [.ok l, .ok bl, .ok b, .ok br, .ok r, .ok tr, .ok t, .ok tl] ∧
      (tl.x = box.lo.x ∧ l.x = box.lo.x ∧ bl.x = box.lo.x ∧ bl.y < l.y ∧ l.y < tl.y) ∧
      (bl.y = box.lo.y ∧ b.y = box.lo.y ∧ br.y = box.lo.y ∧ bl.x < b.x ∧ b.x < br.x) ∧
      (br.x = box.hi.x ∧ r.x = box.hi.x ∧ tr.x = box.hi.x ∧ br.y < r.y ∧ r.y < tr.y) ∧
      (tr.y = box.hi.y ∧ t.y = box.hi.y ∧ tl.y = box.hi.y ∧ tl.x < t.x ∧ t.x < tr.x) :=
  pointFor_ccw_geometric' box hb

/-! ### aroundBound -/

/-- The result extends the input, starts where it started and ends with its first point. -/
theorem aroundBound_closed (box : Bound α) (inp out : List (Pt α)) (o : Int)
    (h : aroundBound box inp o = .ok out) (hne : inp ≠ []) :
    inp <+: out ∧ out.head? = inp.head? ∧ out.getLast? = inp.head? := aroundBound_closed' box inp out o h hne

/-- Every appended point lies on the boundary of the box. -/
theorem aroundBound_on_boundary (box : Bound α) (hb : BoxOK box) (inp out : List (Pt α)) (o : Int)
    (h : aroundBound box inp o = .ok out) (hin : ∀ v ∈ inp, OnBoundary box v) :
    ∀ v ∈ out, OnBoundary box v := aroundBound_on_boundary' box hb inp out o h hin

/-- Either the input is already closed and returned as it is; or both ends lie in the same region and
    the first point is appended directly (the connection runs along that one side in direction `o`);
    or the appended points are the representatives of the codes met when walking `nexts[o]` from the
    code of the last point to the code of the first — each in its own region, none skipped, at most
    seven — followed by the first point. -/
theorem aroundBound_direction (box : Bound α) (hb : BoxOK box) (inp out : List (Pt α)) (o : Int) (f l : Pt α)
    (hf : inp.head? = some f) (hl : inp.getLast? = some l) (h : aroundBound box inp o = .ok out) :
    (out = inp ∧ f = l) ∨
    ((bitCodeOpen box l : Int) = bitCodeOpen box f ∧ out = inp ++ [f]) ∨
    ∃ cs ps, List.IsChain (fun a b => nextAt (nexts o) a = .ok b)
        ((bitCodeOpen box l : Int) :: (cs ++ [(bitCodeOpen box f : Int)])) ∧
      (bitCodeOpen box f : Int) ∉ cs ∧ cs.length ≤ 7 ∧
      List.Forall₂ (fun c p => pointFor box c = .ok p ∧ (bitCodeOpen box p : Int) = c) cs ps ∧
      out = inp ++ ps ++ [f] :=
  aroundBound_direction' box hb inp out o f l hf hl h

/-- With both ends on the boundary and a valid orientation `aroundBound` returns (no panic, the walk
    round the table terminates). -/
theorem aroundBound_total (box : Bound α) (hb : BoxOK box) (inp : List (Pt α)) (o : Int) (f l : Pt α)
    (ho : o = CW ∨ o = CCW) (h2 : 2 ≤ inp.length)
    (hf : inp.head? = some f) (hl : inp.getLast? = some l) (hfb : OnBoundary box f) (hlb : OnBoundary box l) :
    ∃ out, aroundBound box inp o = .ok out := aroundBound_total' box hb inp o f l ho h2 hf hl hfb hlb

/-! ### wholly inside, wholly outside -/

/-- A ring wholly (strictly) inside the box is returned unchanged. -/
theorem ring_inside_unchanged (box : Bound α) (r : List (Pt α)) (o : Int) (hne : r ≠ [])
    (hin : ∀ v ∈ r, InOpenBox box v) : ring box r o = .ok [[r]] := ring_inside_unchanged' box r o hne hin

/-- A ring on the outer side of one box edge (touching it allowed) yields nothing. -/
theorem ring_outside_nil (box : Bound α) (hb : BoxOK box) (r : List (Pt α)) (o : Int)
    (h : (∀ v ∈ r, v.x ≤ box.lo.x) ∨ (∀ v ∈ r, box.hi.x ≤ v.x) ∨
         (∀ v ∈ r, v.y ≤ box.lo.y) ∨ (∀ v ∈ r, box.hi.y ≤ v.y)) : ring box r o = .ok [] :=
  ring_outside_nil' box hb r o h

/-- "ONE WHOLLY OUTSIDE YIELDS NOTHING", at full strength (OrbProofs/C16Outside.lean): if no point of the
    implicitly closed ring lies in the OPEN box — every edge `a b` of `r ++ [r[0]]` satisfies
    `∀ t ∈ [0,1], a + t(b-a) ∉ open box`; edges along a side, corner touches, L-shapes round a corner,
    diagonals through a corner are all allowed — then `clipRings` finds neither an open piece nor a
    closed ring and `smartclip.Ring` returns nil.  (`ring_outside_nil` above is the special case of one
    closed outer half-plane: `ringAvoids_of_halfplane`.)  With `ring_nil_const` (C16Region) the region
    of such a ring is constant on the open box. -/
theorem ring_wholly_outside_nil (box : Bound α) (hb : BoxOK box) (r : List (Pt α)) (o : Int)
    (h : RingAvoidsOpenBox box r) : clipRings box [r] = .ok ([], []) ∧ ring box r o = .ok [] :=
  ring_outside_nil_strong box hb r o h

/-- the same for `smartclip.Polygon` (every ring avoids the open box) … -/
theorem polygon_wholly_outside_nil (box : Bound α) (hb : BoxOK box) (p : List (List (Pt α))) (o : Int)
    (h : ∀ r ∈ p, RingAvoidsOpenBox box r) : polygon box p o = .ok [] :=
  polygon_outside_nil_strong box hb p o h

/-- … and for `smartclip.MultiPolygon`, which looks at the OUTER rings only before it returns nil. -/
theorem multiPolygon_wholly_outside_nil (box : Bound α) (hb : BoxOK box) (mp : List (List (List (Pt α))))
    (o : Int) (h : ∀ r ∈ outerRings mp, RingAvoidsOpenBox box r) : multiPolygon box mp o = .ok [] :=
  multiPolygon_outside_nil_strong box hb mp o h

/-- A polygon wholly inside the box is returned unchanged. -/
theorem polygon_inside_unchanged (box : Bound α) (p : List (List (Pt α))) (o : Int) (hne : p ≠ [])
    (hr : ∀ r ∈ p, r ≠ []) (hin : ∀ r ∈ p, ∀ v ∈ r, InOpenBox box v) : polygon box p o = .ok [p] :=
  polygon_inside_unchanged' box p o hne hr hin

/-! ### output rings are closed and inside the box -/

/-- Every polygon `smartWrap` returns is one explicitly closed ring. -/
theorem output_rings_closed (box : Bound α) (input : List (List (Pt α))) (o : Int)
    (out : List (List (List (Pt α)))) (h : smartWrap box input o = .ok out) : SingleClosed out :=
  smartWrap_rings_closed' box input o out h

/-- Every vertex `smartWrap` returns is a vertex of a piece or one of the eight `pointFor` points;
    in particular it lies in the box when the pieces do. -/
theorem output_in_box (box : Bound α) (hb : BoxOK box) (input : List (List (Pt α))) (o : Int)
    (out : List (List (List (Pt α)))) (h : smartWrap box input o = .ok out)
    (hin : ∀ ls ∈ input, ∀ v ∈ ls, InBox box v) : ∀ pg ∈ out, ∀ rg ∈ pg, ∀ v ∈ rg, InBox box v :=
  smartWrap_in_box' box hb input o out h hin

/-- `smartclip.Ring`: the input handed back as it is, or closed rings only. -/
theorem ring_output_closed (box : Bound α) (r : List (Pt α)) (o : Int) (out : List (List (List (Pt α))))
    (h : ring box r o = .ok out) : out = [[r]] ∨ SingleClosed out := ring_output_closed' box r o out h

theorem polygon_output_closed (box : Bound α) (p : List (List (Pt α))) (o : Int)
    (out : List (List (List (Pt α)))) (h : polygon box p o = .ok out) :
    out = [p] ∨ ∀ pg ∈ out, pg ≠ [] ∧ ∀ rg ∈ pg, ClosedRing rg := polygon_output_closed' box p o out h

theorem multiPolygon_output_closed (box : Bound α) (mp : List (List (List (Pt α)))) (o : Int)
    (out : List (List (List (Pt α)))) (h : multiPolygon box mp o = .ok out) :
    out = mp ∨ ∀ pg ∈ out, pg ≠ [] ∧ ∀ rg ∈ pg, ClosedRing rg := multiPolygon_output_closed' box mp o out h

/-- `smartclip.Ring` / `Polygon` / `MultiPolygon`: the input handed back as it is, or vertices in the box. -/
theorem ring_output_in_box (box : Bound α) (hb : BoxOK box) (r : List (Pt α)) (o : Int)
    (out : List (List (List (Pt α)))) (h : ring box r o = .ok out) :
    out = [[r]] ∨ ∀ pg ∈ out, ∀ rg ∈ pg, ∀ v ∈ rg, InBox box v := ring_output_in_box'' box hb r o out h

theorem polygon_output_in_box (box : Bound α) (hb : BoxOK box) (p : List (List (Pt α)))
    (o : Int) (out : List (List (List (Pt α)))) (h : polygon box p o = .ok out) :
    out = [p] ∨ ∀ pg ∈ out, ∀ rg ∈ pg, ∀ v ∈ rg, InBox box v := polygon_output_in_box'' box hb p o out h

theorem multiPolygon_output_in_box (box : Bound α) (hb : BoxOK box)
    (mp : List (List (List (Pt α)))) (o : Int) (out : List (List (List (Pt α))))
    (h : multiPolygon box mp o = .ok out) :
    out = mp ∨ ∀ pg ∈ out, ∀ rg ∈ pg, ∀ v ∈ rg, InBox box v := multiPolygon_output_in_box'' box hb mp o out h

/-! ### totality: no panic on any input -/

/-- The endpoint order never panics on pieces with both ends on the boundary … -/
theorem lessE_ok (mls : List (List (Pt α))) (a b : Endpoint α) (ha : EpOK mls a) (hb : EpOK mls b) :
    ∃ r, lessE mls a b = .ok r := lessE_ok' mls a b ha hb

/-- … nor does the stitching loop, whose fuel suffices. -/
theorem smartWrap_total (box : Bound α) (hb : BoxOK box) (input : List (List (Pt α))) (o : Int)
    (ho : o = CW ∨ o = CCW) (hp : ∀ ls ∈ input, PieceOK box ls) : ∃ out, smartWrap box input o = .ok out :=
  smartWrap_total' box hb input o ho hp

/-- The open-bound line clipper as smartclip uses it, for every box of positive area: it never gets
    stuck, every piece has at least two points in the closed box, starts on the boundary unless it
    starts at a first vertex strictly inside, ends on the boundary unless it ends at a last vertex
    strictly inside. -/
theorem line_spec (box : Bound α) (hb : BoxOK box) : LineSpec box := line_spec' box hb

/-- Every piece `clipRings` hands on has both ends on the boundary (the implicit closing and the
    re-joining leave no end inside the box — this is where a two-vertex open ring used to crash). -/
theorem clipRings_spec (box : Bound α) (hb : BoxOK box) (rings : List (List (Pt α))) :
    ∃ op cl, clipRings box rings = .ok (op, cl) ∧ (∀ ls ∈ op, PieceOK box ls) ∧ (∀ ls ∈ cl, InsideRing box ls) :=
  clipRings_spec'' box hb rings

theorem ring_total (box : Bound α) (hb : BoxOK box) (r : List (Pt α)) (o : Int)
    (ho : o = CW ∨ o = CCW) : ∃ out, ring box r o = .ok out := ring_total'' box hb r o ho

theorem polygon_total (box : Bound α) (hb : BoxOK box) (p : List (List (Pt α))) (o : Int)
    (ho : o = CW ∨ o = CCW) : ∃ out, polygon box p o = .ok out := polygon_total'' box hb p o ho

theorem multiPolygon_total (box : Bound α) (hb : BoxOK box) (mp : List (List (List (Pt α)))) (o : Int)
    (ho : o = CW ∨ o = CCW) : ∃ out, multiPolygon box mp o = .ok out := multiPolygon_total'' box hb mp o ho

/-- TOTALITY of the generic entry point, at full strength: for every box of positive area, both
    orientations and EVERY geometry value (any kind, any nesting, empty members, rings of 0, 1, 2, …
    vertices, open or closed, nil interface and typed nil slices) `smartclip.Geometry` returns a value:
    no panic, no index out of range, and the loops of the model do not run out of fuel.
    (With an orientation other than CW/CCW the Go code panics "invalid orientation" as soon as two piece
    ends must be connected round the box: `smartWrap_invalid_orientation_witness`.) -/
theorem geometry_total (eb box : Bound α) (hb : BoxOK box) (o : Int) (ho : o = CW ∨ o = CCW) (v : GVal α) :
    ∃ r, geometryV eb box o v = .ok r := geometry_total'' eb box hb o ho v

/-! ### the headline clause — NOT proved, carried by the executable property -/

/-- REGION EQUALITY with winding and holes, stated in full.  `inside r q` is the even-odd rule for a
    closed chain, `area2 r` twice the signed (shoelace) area.  For a simple closed ring wound `o`
    whose boundary meets the open box, the returned polygons are pairwise disjoint, each wound `o`, and
    a point strictly inside the box and off the ring is inside exactly one of them iff it is inside the ring. -/
def smartclip_region_full (inside : List (Pt α) → Pt α → Prop) (area2 : List (Pt α) → α)
    (Simple : List (Pt α) → Prop) (OnRing : List (Pt α) → Pt α → Prop) : Prop :=
  ∀ (box : Bound α) (r : List (Pt α)) (o : Int) (out : List (List (List (Pt α)))),
    BoxOK box → (o = CW ∨ o = CCW) → ClosedRing r → Simple r →
    ((o = CCW ∧ 0 < area2 r) ∨ (o = CW ∧ area2 r < 0)) →
    (∃ a b, (a, b) ∈ r.zip (r.drop 1) ∧ ∃ q, InOpenBox box q ∧ OnRing [a, b] q) →
    ring box r o = .ok out →
    (∀ pg ∈ out, ∃ rg, pg = [rg] ∧ ((o = CCW ∧ 0 < area2 rg) ∨ (o = CW ∧ area2 rg < 0))) ∧
    ∀ q, InOpenBox box q → ¬ OnRing r q →
      ((∃ pg ∈ out, ∃ rg, pg = [rg] ∧ inside rg q) ↔ inside r q) ∧
      (∀ pg₁ ∈ out, ∀ pg₂ ∈ out, ∀ r₁ r₂, pg₁ = [r₁] → pg₂ = [r₂] → inside r₁ q → inside r₂ q → pg₁ = pg₂)

/-- OPEN INPUT, stated in full: an open path whose two ends lie outside the closed box, which is a
    contiguous part of a simple closed ring `full` wound `o` whose omitted part does not meet the open
    box, gives the same output region as `full` itself.  (Carried by the `open` and `arc` streams.) -/
def smartclip_open_full (region : List (List (List (Pt α))) → Pt α → Prop)
    (MeetsOpenBox : Bound α → List (Pt α) → Prop) : Prop :=
  ∀ (box : Bound α) (path omitted : List (Pt α)) (o : Int) (out₁ out₂ : List (List (List (Pt α)))) (f l : Pt α),
    BoxOK box → path.head? = some f → path.getLast? = some l → ¬ InBox box f → ¬ InBox box l →
    ¬ MeetsOpenBox box (l :: omitted ++ [f]) →
    ring box path o = .ok out₁ → ring box (path ++ omitted ++ [f]) o = .ok out₂ →
    ∀ q, InOpenBox box q → (region out₁ q ↔ region out₂ q)

end field

/-! ### non-vacuity: concrete runs over ℚ -/

theorem aroundBound_witness :
    aroundBound (⟨⟨0, 0⟩, ⟨4, 4⟩⟩ : Bound ℚ) [⟨4, 1⟩, ⟨0, 3⟩] CCW =
      .ok [⟨4, 1⟩, ⟨0, 3⟩, ⟨0, 0⟩, ⟨2, 0⟩, ⟨4, 0⟩, ⟨4, 1⟩] := aroundBound_witness'

theorem smartWrap_invalid_orientation_witness :
    smartWrap (⟨⟨0, 0⟩, ⟨4, 4⟩⟩ : Bound ℚ) [[⟨0, 1⟩, ⟨2, 2⟩, ⟨0, 3⟩]] 0 = .panic "invalid orientation" :=
  smartWrap_invalid_orientation_witness'

/-- the former crash (a two-vertex open ring with an end strictly inside the box) now returns -/
theorem ring_two_vertex_witness :
    ring (⟨⟨1, 1⟩, ⟨5, 5⟩⟩ : Bound ℚ) [⟨2, 2⟩, ⟨7, 2⟩] CCW = .ok [[[⟨5, 2⟩, ⟨2, 2⟩, ⟨5, 2⟩]]] :=
  ring_two_vertex_witness'

/-- a ring touching the top side twice with perpendicular arrivals comes back as ONE polygon -/
theorem ring_touch_witness :
    ring (⟨⟨0, 0⟩, ⟨8, 8⟩⟩ : Bound ℚ)
      [⟨1, 2⟩, ⟨7, 2⟩, ⟨6, 4⟩, ⟨6, 8⟩, ⟨5, 4⟩, ⟨3, 4⟩, ⟨3, 8⟩, ⟨2, 4⟩, ⟨1, 2⟩] CCW =
      .ok [[[⟨3, 8⟩, ⟨2, 4⟩, ⟨1, 2⟩, ⟨7, 2⟩, ⟨6, 4⟩, ⟨6, 8⟩, ⟨6, 8⟩, ⟨5, 4⟩, ⟨3, 4⟩, ⟨3, 8⟩]]] :=
  ring_touch_witness'

/-- an open ring is completed along the box edge on its interior side: the short way for one winding,
    all the way round for the other -/
theorem ring_open_witness :
    ring (⟨⟨1, 1⟩, ⟨6, 6⟩⟩ : Bound ℚ) [⟨0, 2⟩, ⟨2, 2⟩, ⟨2, 3⟩, ⟨0, 3⟩] CCW =
      .ok [[[⟨1, 2⟩, ⟨2, 2⟩, ⟨2, 3⟩, ⟨1, 3⟩, ⟨1, 2⟩]]] ∧
    ring (⟨⟨1, 1⟩, ⟨6, 6⟩⟩ : Bound ℚ) [⟨0, 3⟩, ⟨2, 3⟩, ⟨2, 2⟩, ⟨0, 2⟩] CCW =
      .ok [[[⟨1, 3⟩, ⟨2, 3⟩, ⟨2, 2⟩, ⟨1, 2⟩, ⟨1, 1⟩, ⟨7/2, 1⟩, ⟨6, 1⟩, ⟨6, 7/2⟩, ⟨6, 6⟩, ⟨7/2, 6⟩, ⟨1, 6⟩, ⟨1, 3⟩]]] :=
  ring_open_witness'

/-- an L-shaped ring round the top-right corner of the box lies in no single outer half-plane and yields
    nothing (the hypothesis of `ring_wholly_outside_nil` is satisfiable beyond `ring_outside_nil`) -/
theorem ring_L_shape_outside_witness (o : Int) :
    ring (⟨⟨0, 0⟩, ⟨4, 4⟩⟩ : Bound ℚ) [⟨5, -1⟩, ⟨5, 5⟩, ⟨-1, 5⟩, ⟨-1, 6⟩, ⟨6, 6⟩, ⟨6, -1⟩, ⟨5, -1⟩] o = .ok [] :=
  (ring_L_shape_witness o).2

example : ∃ out, ring (⟨⟨0, 0⟩, ⟨8, 8⟩⟩ : Bound ℚ)
    [⟨1, 2⟩, ⟨7, 2⟩, ⟨6, 4⟩, ⟨6, 8⟩, ⟨5, 4⟩, ⟨3, 4⟩, ⟨3, 8⟩, ⟨2, 4⟩, ⟨1, 2⟩] CCW = .ok out ∧ out.length = 1 :=
  ⟨_, ring_touch_witness, rfl⟩

end Orb.SmartClip
