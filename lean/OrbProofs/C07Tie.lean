/-
  C07 — translation tie for clip/clip.go (`bitCode`, `bitCodeOpen`, `intersect`, `clampToBound`).
  `Generated/ClipGo.lean` is REGENERATED from /repo on every run by
  harness/cmd/factgen/translate_float.go; the theorems below prove each regenerated definition
  equal to the hand-written model definition of `Orb.Clip`, for every number type.
-/
import Orb.Clip
import Generated.ClipGo

namespace Orb.C07Tie
open Orb Orb.Core

set_option linter.unusedSectionVars false

variable {α : Type} [Add α] [Sub α] [Mul α] [Div α] [Neg α] [LT α] [LE α] [DecidableLT α] [DecidableLE α]
  [BEq α] [Min α] [Max α] [OfNat α 0] [OfNat α 1] [OfNat α 2] [OfNat α 6] [NatCast α]

/-- `bitCode`: the Go code ORs the x-code and the y-code into `code := 0`; the model writes the
    two codes side by side (with the bit values of `Generated.Params`). -/
theorem bitCode_tie (b : Bound α) (p : Pt α) : Generated.ClipGo.bitCode b p = Clip.bitCode b p := by
  unfold Generated.ClipGo.bitCode Clip.bitCode
  split <;> split <;> (try split) <;> (try split) <;> rfl

theorem bitCodeOpen_tie (b : Bound α) (p : Pt α) : Generated.ClipGo.bitCodeOpen b p = Clip.bitCodeOpen b p := by
  unfold Generated.ClipGo.bitCodeOpen Clip.bitCodeOpen
  split <;> split <;> (try split) <;> (try split) <;> rfl

/-- `intersect` (`panic("no edge??")` is `none`) -/
theorem intersect_tie (box : Bound α) (edge : Nat) (a b : Pt α) :
    Generated.ClipGo.intersect box edge a b = Clip.intersect box edge a b := rfl

/-- `clampToBound`: the Go code overwrites `p[0]`, then `p[1]`; the model builds the point at once
    (the second test reads `p[1]`, which the first assignment does not touch). -/
theorem clampToBound_tie (box : Bound α) (p : Pt α) :
    Generated.ClipGo.clampToBound box p = Clip.clampToBound box p := by
  obtain ⟨x, y⟩ := p
  unfold Generated.ClipGo.clampToBound Clip.clampToBound
  by_cases h1 : x < box.lo.x <;> by_cases h2 : x > box.hi.x <;> by_cases h3 : y < box.lo.y <;>
    by_cases h4 : y > box.hi.y <;> simp [h1, h2, h3, h4]

theorem all_translated_ClipGo : Generated.ClipGo.translated =
    ["bitCode", "bitCodeOpen", "intersect", "clampToBound", "clipBound", "clipMultiPoint", "clipRing", "clipPolygon",
     "clipMultiPolygon"] := by
  decide

end Orb.C07Tie
