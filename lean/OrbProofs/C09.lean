/-
  C09 — Point-in-ring/polygon answers match exact even-odd geometry.
  PROPERTY THEOREMS about the model `Orb.Contains` (planar/contains.go) and the spec `Orb.EvenOdd`.

  Coordinates range over an arbitrary linearly ordered field (the spec only needs an ordered
  commutative ring).  Section `model`: the `math.Nextafter` nudge as the infinitesimal `Nudge.inf`
  (see Orb/Contains.lean).  Section `finite`: the nudge the Go code really performs,
  `Nudge.real next` — the instance `OrbProofs/C09Tie.lean` ties Go's `rayIntersect` to — for ANY
  `next` with `p.x < next p.x`, and for the concrete `next x = x + ε`: the exact per-edge condition
  under which the finite nudge answers what the infinitesimal one answers
  (`rayIntersect_finite_nudge_iff`), hence `RingContains` = the closed even-odd region
  (`ringContains_finite_nudge`), and the two facts that need no condition on the size of the nudge
  (boundary points: `ringContains_real_on_boundary`, `polygonContains_real_on_hole_boundary`).
  What stays outside the theorems: the ROUNDING of `−` and `/` in float64 (ordered-field arithmetic is
  exact); the driver checks `edgeNudgeOK` with the real one-ulp step on every exact-spec case, so that
  there the answer rests on these theorems plus order-exactness of the float slopes, not on sampling.
-/
import OrbProofs.C09Nudge
import Mathlib.Tactic.NormNum

namespace Orb.Contains
open Orb Orb.Core Orb.EvenOdd

section spec
variable {α : Type} [CommRing α] [LinearOrder α] [IsStrictOrderedRing α]

/-- The region does not depend on which vertex the ring starts at (every rotation). -/
theorem inside_rotate (a b : List (Pt α)) (p : Pt α) : inside (b ++ a) p = inside (a ++ b) p :=
  inside_rotate' a b p

theorem inside_rotateLeft (r : List (Pt α)) (k : Nat) (p : Pt α) : inside (r.rotateLeft k) p = inside r p :=
  inside_rotateLeft' r k p

/-- … nor on its direction. -/
theorem inside_reverse (r : List (Pt α)) (p : Pt α) : inside r.reverse p = inside r p :=
  inside_reverse' r p

/-- An explicitly closed ring (first vertex repeated at the end) has the region of the implicitly closed one. -/
theorem inside_close (v : Pt α) (t : List (Pt α)) (p : Pt α) : inside (v :: t ++ [v]) p = inside (v :: t) p :=
  inside_close' v t p

end spec

section model
variable {α : Type} [Field α] [LinearOrder α] [IsStrictOrderedRing α]

/-- `rayIntersect` reports `on` exactly for points of the closed segment (vertices, vertical and
    horizontal edges included) … -/
theorem rayIntersect_on (p s e : Pt α) : (rayIntersect Nudge.inf p s e).2 = onSeg s e p :=
  rayIntersect_on' p s e

/-- … and otherwise `intersects` exactly when the upward ray crosses the edge under the half-open rule
    `min s.x e.x ≤ p.x < max s.x e.x` (every alignment: ray through a vertex, local extremum, horizontal edge). -/
theorem rayIntersect_crosses (p s e : Pt α) (h : onSeg s e p = false) :
    (rayIntersect Nudge.inf p s e).1 = crossesAbove s e p :=
  rayIntersect_crosses' p s e h

/-- `RingContains` = the closed even-odd region of the implicitly closed ring; it never panics
    (the bound pre-test rejects only points outside the region, the empty ring included). -/
theorem ringContains_iff_inside (eb : Bound α) (he : eb.isEmpty = true) (r : List (Pt α)) (p : Pt α) :
    ringContains Nudge.inf eb r p = .ok (inside r p) :=
  ringContains_iff_inside' eb he r p

/-- hence the answer is independent of start vertex, direction and explicit closing -/
theorem ringContains_rotate (eb : Bound α) (he : eb.isEmpty = true) (a b : List (Pt α)) (p : Pt α) :
    ringContains Nudge.inf eb (b ++ a) p = ringContains Nudge.inf eb (a ++ b) p := by
  rw [ringContains_iff_inside eb he, ringContains_iff_inside eb he, inside_rotate]

theorem ringContains_reverse (eb : Bound α) (he : eb.isEmpty = true) (r : List (Pt α)) (p : Pt α) :
    ringContains Nudge.inf eb r.reverse p = ringContains Nudge.inf eb r p := by
  rw [ringContains_iff_inside eb he, ringContains_iff_inside eb he, inside_reverse]

theorem ringContains_close (eb : Bound α) (he : eb.isEmpty = true) (v : Pt α) (t : List (Pt α)) (p : Pt α) :
    ringContains Nudge.inf eb (v :: t ++ [v]) p = ringContains Nudge.inf eb (v :: t) p := by
  rw [ringContains_iff_inside eb he, ringContains_iff_inside eb he, inside_close]

/-- A polygon contains a point iff its outer ring does and no hole does. -/
theorem polygonContains_iff (eb : Bound α) (he : eb.isEmpty = true) (outer : List (Pt α))
    (holes : List (List (Pt α))) (p : Pt α) :
    polygonContains Nudge.inf eb (outer :: holes) p = .ok (inside outer p && holes.all fun h => !inside h p) :=
  polygonContains_iff' eb he outer holes p

/-- A multi-polygon (of polygons that have an outer ring) contains a point iff any member does. -/
theorem multiPolygonContains_iff (eb : Bound α) (he : eb.isEmpty = true) (mp : List (List (List (Pt α))))
    (hne : ∀ pg ∈ mp, pg ≠ []) (p : Pt α) :
    multiPolygonContains Nudge.inf eb mp p = .ok (mp.any fun pg => polyInside pg p) :=
  multiPolygonContains_iff' eb he mp hne p

end model

section finite
variable {α : Type} [Field α] [LinearOrder α] [IsStrictOrderedRing α]

/-- PER EDGE, EXACTLY.  For any finite nudge (`p.x < next p.x`), `rayIntersect` answers what it answers with
    the infinitesimal nudge IF AND ONLY IF `edgeNudgeOK next p s e` (Orb/Contains.lean): unless the query
    is level with the left endpoint `l` of a non-vertical edge `l r` (and is not `l`) nothing is required;
    there, below `l`: `next p.x ≤ r.x` and (`p.y < r.y` or the nudged point is still strictly under the
    edge's line); above `l`: the nudged point has left the edge's box or is still strictly over its line. -/
theorem rayIntersect_finite_nudge_iff (next : α → α) (p s e : Pt α) (hn : p.x < next p.x) :
    rayIntersect (Nudge.real next) p s e = rayIntersect Nudge.inf p s e ↔ edgeNudgeOK next p s e = true :=
  rayIntersect_finite_nudge_iff' next p s e hn

/-- the condition does not depend on the direction of the edge -/
theorem edgeNudgeOK_swap (next : α → α) (p s e : Pt α) : edgeNudgeOK next p e s = edgeNudgeOK next p s e :=
  edgeNudgeOK_swap' next p s e

/-- On the closed segment every finite nudge reports `on`, whatever its size. -/
theorem rayIntersect_real_on (next : α → α) (p s e : Pt α) (hn : p.x < next p.x) (h : onSeg s e p = true) :
    rayIntersect (Nudge.real next) p s e = (false, true) :=
  rayIntersect_real_on' next p s e hn h

/-- EDGE LEVEL, the concrete nudge `next x = x + ε`, `ε > 0`.  Sufficient: `ε` is at most the gap to either
    endpoint abscissa on the right of the query, and — only if the query is level with the edge's LEFT
    endpoint, the edge is not vertical and its `y`-range contains `p.y` — `ε·|e.y − s.y| < |cross s e p|`,
    i.e. `ε` is smaller than the horizontal distance from `p` to the edge's line (the gap that decides the
    slope comparison `rs ⋚ ds`). -/
theorem rayIntersect_finite_nudge (ε : α) (hε : 0 < ε) (p s e : Pt α)
    (gs : p.x < s.x → p.x + ε ≤ s.x) (ge : p.x < e.x → p.x + ε ≤ e.x)
    (hs : s.x ≠ e.x → p.x = min s.x e.x → min s.y e.y ≤ p.y → p.y ≤ max s.y e.y →
      ε * |e.y - s.y| < |EvenOdd.cross s e p|) :
    rayIntersect (Nudge.real (· + ε)) p s e = rayIntersect Nudge.inf p s e :=
  rayIntersect_finite_nudge' ε hε p s e gs ge hs

/-- On the boundary `RingContains` answers `true` with every finite nudge, whatever its size. -/
theorem ringContains_real_on_boundary (next : α → α) (eb : Bound α) (he : eb.isEmpty = true) (r : List (Pt α))
    (p : Pt α) (hn : p.x < next p.x) (hb : onBoundary r p = true) :
    ringContains (Nudge.real next) eb r p = .ok true :=
  ringContains_real_on_boundary' next eb he r p hn hb

/-- RING LEVEL, any finite nudge: if, off the boundary, every edge of the implicitly closed ring meets the exact
    per-edge condition, `RingContains` = the closed even-odd region. -/
theorem ringContains_finite_nudge_exact (next : α → α) (eb : Bound α) (he : eb.isEmpty = true) (r : List (Pt α))
    (p : Pt α) (hn : p.x < next p.x)
    (h : onBoundary r p = false → ∀ se ∈ edges r, edgeNudgeOK next p se.1 se.2 = true) :
    ringContains (Nudge.real next) eb r p = .ok (inside r p) :=
  ringContains_finite_nudge_exact' next eb he r p hn h

/-- RING LEVEL, THE CONCRETE FINITE NUDGE `next x = x + ε`, `ε > 0`.  If — off the boundary; on it nothing is
    required — `ε` is at most every positive gap `v.x − p.x` between the query abscissa and a vertex abscissa,
    and `ε·|e.y − s.y| < |cross s e p|` for every non-vertical edge whose left endpoint is level with the query
    and whose `y`-range contains `p.y`, then `RingContains`, computed with the real nudge, is the closed
    even-odd region of the implicitly closed ring. -/
theorem ringContains_finite_nudge (ε : α) (hε : 0 < ε) (eb : Bound α) (he : eb.isEmpty = true)
    (r : List (Pt α)) (p : Pt α)
    (hgap : onBoundary r p = false → ∀ v ∈ r, p.x < v.x → p.x + ε ≤ v.x)
    (hslope : onBoundary r p = false → ∀ se ∈ edges r, se.1.x ≠ se.2.x → p.x = min se.1.x se.2.x →
      min se.1.y se.2.y ≤ p.y → p.y ≤ max se.1.y se.2.y →
      ε * |se.2.y - se.1.y| < |EvenOdd.cross se.1 se.2 p|) :
    ringContains (Nudge.real (· + ε)) eb r p = .ok (inside r p) :=
  ringContains_finite_nudge' ε hε eb he r p (fun hb => ⟨hgap hb, hslope hb⟩)

omit [IsStrictOrderedRing α] in
/-- WHAT THE DRIVER EVALUATES on every exact-spec case (with `next` the real one-ulp step of the query abscissa):
    every edge meets the exact condition, or the point is on the boundary … -/
theorem nudgeCond_iff (next : α → α) (r : List (Pt α)) (p : Pt α) :
    NudgeCond next r p ↔
      (((edges r).all fun se => edgeNudgeOK next p se.1 se.2) || onBoundary r p) = true := by
  simp [NudgeCond, List.all_eq_true]

/-- … which gives `RingContains` = even-odd region with that finite nudge … -/
theorem ringContains_of_nudgeCond' (next : α → α) (eb : Bound α) (he : eb.isEmpty = true) (r : List (Pt α))
    (p : Pt α) (hn : p.x < next p.x) (c : NudgeCond next r p) :
    ringContains (Nudge.real next) eb r p = .ok (inside r p) :=
  ringContains_of_nudgeCond next eb he r p hn c

/-- … and passes from a ring to every rotation, to its reversal and to its explicit closing (so it is evaluated on
    the base ring of a case only). -/
theorem nudgeCond_rotate (next : α → α) (a b : List (Pt α)) (p : Pt α) (c : NudgeCond next (a ++ b) p) :
    NudgeCond next (b ++ a) p :=
  nudgeCond_rotate' next a b p c

theorem nudgeCond_reverse (next : α → α) (r : List (Pt α)) (p : Pt α) (c : NudgeCond next r p) :
    NudgeCond next r.reverse p :=
  nudgeCond_reverse' next r p c

theorem nudgeCond_close (next : α → α) (v : Pt α) (t : List (Pt α)) (p : Pt α) (c : NudgeCond next (v :: t) p) :
    NudgeCond next (v :: t ++ [v]) p :=
  nudgeCond_close' next v t p c

/-- ENTRY POINTS with a finite nudge: `PolygonContains` = inside the outer ring and in no hole … -/
theorem polygonContains_finite_nudge_exact (next : α → α) (eb : Bound α) (he : eb.isEmpty = true)
    (outer : List (Pt α)) (holes : List (List (Pt α))) (p : Pt α) (hn : p.x < next p.x)
    (h : ∀ rg ∈ outer :: holes, onBoundary rg p = false → ∀ se ∈ edges rg, edgeNudgeOK next p se.1 se.2 = true) :
    polygonContains (Nudge.real next) eb (outer :: holes) p =
      .ok (inside outer p && holes.all fun h => !inside h p) :=
  polygonContains_finite_nudge_exact' next eb he outer holes p hn h

/-- … and `MultiPolygonContains` = any member. -/
theorem multiPolygonContains_finite_nudge_exact (next : α → α) (eb : Bound α) (he : eb.isEmpty = true)
    (mp : List (List (List (Pt α)))) (hne : ∀ pg ∈ mp, pg ≠ []) (p : Pt α) (hn : p.x < next p.x)
    (h : ∀ pg ∈ mp, ∀ rg ∈ pg, onBoundary rg p = false → ∀ se ∈ edges rg, edgeNudgeOK next p se.1 se.2 = true) :
    multiPolygonContains (Nudge.real next) eb mp p = .ok (mp.any fun pg => polyInside pg p) :=
  multiPolygonContains_finite_nudge_exact' next eb he mp hne p hn h

/-- HOLE BOUNDARIES.  "No hole contains the point" uses the CLOSED region of the hole: a point on a hole's
    boundary (a hole vertex included) is NOT in the polygon — `PolygonContains` answers `false` — although the
    function's comment says "Points on the boundary are considered in" (true of the outer ring's boundary only,
    and there only if no hole contains the point).  With the infinitesimal nudge … -/
theorem polygonContains_on_hole_boundary (eb : Bound α) (he : eb.isEmpty = true)
    (outer : List (Pt α)) (holes : List (List (Pt α))) (p : Pt α)
    (hole : List (Pt α)) (hm : hole ∈ holes) (hb : onBoundary hole p = true) :
    polygonContains Nudge.inf eb (outer :: holes) p = .ok false :=
  polygonContains_on_hole_boundary' eb he outer holes p hole hm hb

/-- … and with every finite nudge, whatever its size and whatever it does on the other rings. -/
theorem polygonContains_real_on_hole_boundary (next : α → α) (eb : Bound α) (he : eb.isEmpty = true)
    (outer : List (Pt α)) (holes : List (List (Pt α))) (p : Pt α) (hn : p.x < next p.x)
    (hole : List (Pt α)) (hm : hole ∈ holes) (hb : onBoundary hole p = true) :
    polygonContains (Nudge.real next) eb (outer :: holes) p = .ok false :=
  polygonContains_real_on_hole_boundary' next eb he outer holes p hn hole hm hb

end finite

/-- (note, outside the property's quantifier) a polygon with no rings indexes `p[0]`: the code panics -/
theorem polygonContains_nil {α : Type} [Sub α] [Div α] [OfNat α 0] [BEq α] [LT α] [LE α] [DecidableLT α] [DecidableLE α]
    [Min α] [Max α] (N : Nudge α) (eb : Bound α) (p : Pt α) :
    (polygonContains N eb [] p).isPanic = true := rfl

/-- Non-vacuity: a concrete triangle, a point strictly inside, a vertex, a point on the closing edge,
    a point level with a vertex but outside, evaluated by the spec over `Int`. -/
example : inside ([⟨0, 0⟩, ⟨4, 0⟩, ⟨4, 4⟩] : List (Pt Int)) ⟨3, 1⟩ = true ∧
    inside ([⟨0, 0⟩, ⟨4, 0⟩, ⟨4, 4⟩] : List (Pt Int)) ⟨4, 4⟩ = true ∧
    inside ([⟨0, 0⟩, ⟨4, 0⟩, ⟨4, 4⟩] : List (Pt Int)) ⟨2, 2⟩ = true ∧
    inside ([⟨0, 0⟩, ⟨4, 0⟩, ⟨4, 4⟩] : List (Pt Int)) ⟨0, 4⟩ = false ∧
    inside ([⟨0, 0⟩, ⟨4, 0⟩, ⟨4, 4⟩] : List (Pt Int)) ⟨1, 2⟩ = false := by decide

/-- Non-vacuity of the finite-nudge hypotheses, and their sharpness.  Triangle `(0,2) (4,0) (4,4)`, query `(0,1)`
    directly below the left vertex: the slope condition reads `ε·2 < 4`.  `ε = 1` meets the hypotheses of
    `ringContains_finite_nudge`; … -/
example : let r : List (Pt ℚ) := [⟨0, 2⟩, ⟨4, 0⟩, ⟨4, 4⟩]; let p : Pt ℚ := ⟨0, 1⟩
    (∀ v ∈ r, p.x < v.x → p.x + 1 ≤ v.x) ∧
    (∀ se ∈ edges r, se.1.x ≠ se.2.x → p.x = min se.1.x se.2.x → min se.1.y se.2.y ≤ p.y → p.y ≤ max se.1.y se.2.y →
      1 * |se.2.y - se.1.y| < |EvenOdd.cross se.1 se.2 p|) := by
  constructor
  · simp
  · simp [edges, EvenOdd.cross]; norm_num

/-- … at `ε = 2` the nudged point `(2,1)` lies ON the edge `(0,2) (4,0)` and `rayIntersect` with that finite
    nudge differs from the infinitesimal one (it reports `on` for a point that is not on the ring). -/
example : rayIntersect (Nudge.real (· + (2 : ℚ))) (⟨0, 1⟩ : Pt ℚ) ⟨0, 2⟩ ⟨4, 0⟩ ≠
    rayIntersect Nudge.inf (⟨0, 1⟩ : Pt ℚ) ⟨0, 2⟩ ⟨4, 0⟩ := by
  intro h
  have := (rayIntersect_finite_nudge_iff (· + (2 : ℚ)) (⟨0, 1⟩ : Pt ℚ) ⟨0, 2⟩ ⟨4, 0⟩ (by norm_num)).1 h
  norm_num [edgeNudgeOK] at this

end Orb.Contains
