/-
  C09 — Point-in-ring/polygon answers match exact even-odd geometry.
  PROPERTY THEOREMS about the model `Orb.Contains` (planar/contains.go) and the spec `Orb.EvenOdd`.

  Coordinates range over an arbitrary linearly ordered field (the spec only needs an ordered
  commutative ring); the `math.Nextafter` nudge is the infinitesimal `Nudge.inf` (see Orb/Contains.lean:
  exact wherever one ulp is below every coordinate gap — the "small dyadic rationals" of the
  property's quantifier; its finite size elsewhere is a float effect covered by the Float twin only).
-/
import OrbProofs.C09Lemmas

namespace Orb.Contains
open Orb Orb.Core Orb.EvenOdd

section spec
variable {α : Type} [CommRing α] [LinearOrder α] [IsStrictOrderedRing α]

/-- The region does not depend on which vertex the ring starts at (every rotation). -/
theorem inside_rotate (a b : List (Pt α)) (p : Pt α) : inside (b ++ a) p = inside (a ++ b) p :=
  inside_rotate' a b p

theorem inside_rotateLeft (r : List (Pt α)) (k : Nat) (p : Pt α) : inside (r.rotateLeft k) p = inside r p :=
  inside_rotateLeft' r k p

/-- … nor on its direction. -/
theorem inside_reverse (r : List (Pt α)) (p : Pt α) : inside r.reverse p = inside r p :=
  inside_reverse' r p

/-- An explicitly closed ring (first vertex repeated at the end) has the region of the implicitly closed one. -/
theorem inside_close (v : Pt α) (t : List (Pt α)) (p : Pt α) : inside (v :: t ++ [v]) p = inside (v :: t) p :=
  inside_close' v t p

end spec

section model
variable {α : Type} [Field α] [LinearOrder α] [IsStrictOrderedRing α]

/-- `rayIntersect` reports `on` exactly for points of the closed segment (vertices, vertical and
    horizontal edges included) … -/
theorem rayIntersect_on (p s e : Pt α) : (rayIntersect Nudge.inf p s e).2 = onSeg s e p :=
  rayIntersect_on' p s e

/-- … and otherwise `intersects` exactly when the upward ray crosses the edge under the half-open rule
    `min s.x e.x ≤ p.x < max s.x e.x` (every alignment: ray through a vertex, local extremum, horizontal edge). -/
theorem rayIntersect_crosses (p s e : Pt α) (h : onSeg s e p = false) :
    (rayIntersect Nudge.inf p s e).1 = crossesAbove s e p :=
  rayIntersect_crosses' p s e h

/-- `RingContains` = the closed even-odd region of the implicitly closed ring; it never panics
    (the bound pre-test rejects only points outside the region, the empty ring included). -/
theorem ringContains_iff_inside (eb : Bound α) (he : eb.isEmpty = true) (r : List (Pt α)) (p : Pt α) :
    ringContains Nudge.inf eb r p = .ok (inside r p) :=
  ringContains_iff_inside' eb he r p

/-- hence the answer is independent of start vertex, direction and explicit closing -/
theorem ringContains_rotate (eb : Bound α) (he : eb.isEmpty = true) (a b : List (Pt α)) (p : Pt α) :
    ringContains Nudge.inf eb (b ++ a) p = ringContains Nudge.inf eb (a ++ b) p := by
  rw [ringContains_iff_inside eb he, ringContains_iff_inside eb he, inside_rotate]

theorem ringContains_reverse (eb : Bound α) (he : eb.isEmpty = true) (r : List (Pt α)) (p : Pt α) :
    ringContains Nudge.inf eb r.reverse p = ringContains Nudge.inf eb r p := by
  rw [ringContains_iff_inside eb he, ringContains_iff_inside eb he, inside_reverse]

theorem ringContains_close (eb : Bound α) (he : eb.isEmpty = true) (v : Pt α) (t : List (Pt α)) (p : Pt α) :
    ringContains Nudge.inf eb (v :: t ++ [v]) p = ringContains Nudge.inf eb (v :: t) p := by
  rw [ringContains_iff_inside eb he, ringContains_iff_inside eb he, inside_close]

/-- A polygon contains a point iff its outer ring does and no hole does. -/
theorem polygonContains_iff (eb : Bound α) (he : eb.isEmpty = true) (outer : List (Pt α))
    (holes : List (List (Pt α))) (p : Pt α) :
    polygonContains Nudge.inf eb (outer :: holes) p = .ok (inside outer p && holes.all fun h => !inside h p) :=
  polygonContains_iff' eb he outer holes p

/-- A multi-polygon (of polygons that have an outer ring) contains a point iff any member does. -/
theorem multiPolygonContains_iff (eb : Bound α) (he : eb.isEmpty = true) (mp : List (List (List (Pt α))))
    (hne : ∀ pg ∈ mp, pg ≠ []) (p : Pt α) :
    multiPolygonContains Nudge.inf eb mp p = .ok (mp.any fun pg => polyInside pg p) :=
  multiPolygonContains_iff' eb he mp hne p

end model

/-- (note, outside the property's quantifier) a polygon with no rings indexes `p[0]`: the code panics -/
theorem polygonContains_nil {α : Type} [Sub α] [Div α] [OfNat α 0] [BEq α] [LT α] [LE α] [DecidableLT α] [DecidableLE α]
    [Min α] [Max α] (N : Nudge α) (eb : Bound α) (p : Pt α) :
    (polygonContains N eb [] p).isPanic = true := rfl

/-- Non-vacuity: a concrete triangle, a point strictly inside, a vertex, a point on the closing edge,
    a point level with a vertex but outside, evaluated by the spec over `Int`. -/
example : inside ([⟨0, 0⟩, ⟨4, 0⟩, ⟨4, 4⟩] : List (Pt Int)) ⟨3, 1⟩ = true ∧
    inside ([⟨0, 0⟩, ⟨4, 0⟩, ⟨4, 4⟩] : List (Pt Int)) ⟨4, 4⟩ = true ∧
    inside ([⟨0, 0⟩, ⟨4, 0⟩, ⟨4, 4⟩] : List (Pt Int)) ⟨2, 2⟩ = true ∧
    inside ([⟨0, 0⟩, ⟨4, 0⟩, ⟨4, 4⟩] : List (Pt Int)) ⟨0, 4⟩ = false ∧
    inside ([⟨0, 0⟩, ⟨4, 0⟩, ⟨4, 4⟩] : List (Pt Int)) ⟨1, 2⟩ = false := by decide

end Orb.Contains
