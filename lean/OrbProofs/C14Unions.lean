/-
  C14 lemmas, part 6: unions and polygon boundaries.

  * `line` / `polygon` only ever ADD tiles to the set they are handed, and what they add does not depend
    on it (`line_append`, `polygon_append`; any number type, in particular the Float twin).  Hence the
    cover of a multi-line-string / multi-polygon is the union of the covers of its members, or the
    outcome of the first member without a cover (`cover_multiLineString_union'`, `…_error'`,
    `cover_multiPolygon_union'`, `…_error'`).
  * exact arithmetic: the ring loop of `polygon` is sound and complete edge by edge
    (`traceRings_geo`), so a polygon cover contains every tile whose open square an edge of any ring
    enters (`polygon_boundary_complete'`) and stays inside the tile-space bound of the vertices
    (`polygon_within_vertex_bound'`).
  Statements with a prime are re-exported by OrbProofs/C14.lean.
-/
import OrbProofs.C14Cover
import OrbProofs.C14Line

namespace Orb.TileCover
open Orb Orb.Tile

section generic
set_option linter.unusedSectionVars false
variable {α : Type} [Add α] [Sub α] [Div α] [Neg α] [OfNat α 0] [OfNat α 1] [LT α] [DecidableLT α] [BEq α]

/-! ### the set is only ever extended -/

/-- the same state over a larger starting set -/
def LState.addSet (s : LState α) (base : List Tile) : LState α := { s with set := s.set ++ base }

theorem emit_addSet (ops : Ops α) (zoom : Nat) (s : LState α) (base : List Tile) :
    LState.emit ops zoom (s.addSet base) = (LState.emit ops zoom s).addSet base := rfl

theorem walk_addSet (ops : Ops α) (zoom : Nat) (sx sy tdx tdy : α) (base : List Tile) :
    ∀ (fuel : Nat) (tMaxX tMaxY : Option α) (s : LState α),
      walk ops zoom sx sy tdx tdy fuel tMaxX tMaxY (s.addSet base) =
        (walk ops zoom sx sy tdx tdy fuel tMaxX tMaxY s).map (·.addSet base) := by
  intro fuel
  induction fuel with
  | zero =>
    intro tX tY s
    simp only [walk]
    split <;> rfl
  | succ n ih =>
    intro tX tY s
    simp only [walk]
    split
    · split
      · exact ih _ _ (LState.emit ops zoom { s with x := s.x + sx })
      · exact ih _ _ (LState.emit ops zoom { s with y := s.y + sy })
    · rfl

theorem segment_addSet (ops : Ops α) (zoom fuel : Nat) (s : LState α) (a b : Pt α) (base : List Tile) :
    segment ops zoom fuel (s.addSet base) a b = (segment ops zoom fuel s a b).map (·.addSet base) := by
  unfold segment
  dsimp only
  split
  · rfl
  · refine Eq.trans ?_ (walk_addSet ops zoom _ _ _ _ base fuel _ _ _)
    congr 1
    have key : ∀ (c : Prop) [Decidable c] (A B : LState α),
        (if c then A.addSet base else B.addSet base) = (if c then A else B).addSet base := by
      intro c _ A B; split <;> rfl
    exact key _ (LState.emit ops zoom { s with x := ops.floor a.x, y := ops.floor a.y })
      { s with x := ops.floor a.x, y := ops.floor a.y }

theorem lineSegs_addSet (ops : Ops α) (zoom fuel : Nat) (base : List Tile) :
    ∀ (pts : List (Pt α)) (s : LState α),
      lineSegs ops zoom fuel (s.addSet base) pts = (lineSegs ops zoom fuel s pts).map (·.addSet base) := by
  intro pts
  induction pts with
  | nil => intro s; simp only [lineSegs, Option.map_some]
  | cons a l ih =>
    intro s
    cases l with
    | nil => simp only [lineSegs, Option.map_some]
    | cons b l' =>
      rw [lineSegs, lineSegs, segment_addSet]
      cases segment ops zoom fuel s a b with
      | none => rfl
      | some s1 =>
        simp only [Option.map_some, Option.bind_some]
        exact ih s1

/-- `line` over a larger starting set: the same tiles are added, the same ring trace is returned. -/
theorem line_append (ops : Ops α) (zoom fuel : Nat) (set base : List Tile) (pts : List (Pt α))
    (ring : Option (List (Nat × Nat))) :
    line ops zoom fuel (set ++ base) pts ring =
      (line ops zoom fuel set pts ring).map (fun r => (r.1 ++ base, r.2)) := by
  unfold line
  have h := lineSegs_addSet ops zoom fuel base pts ⟨set, ring, -1, -1, 0, 0⟩
  change lineSegs ops zoom fuel ⟨set ++ base, ring, -1, -1, 0, 0⟩ pts = _ at h
  rw [h]
  cases lineSegs ops zoom fuel ⟨set, ring, -1, -1, 0, 0⟩ pts with
  | none => rfl
  | some s =>
    simp only [Option.map_some]
    show (match (s.addSet base).ring with
      | none => (.ok ((s.addSet base).set, none) : CRes (List Tile × Option (List (Nat × Nat))))
      | some r =>
        match r.head? with
        | none => .ok ((s.addSet base).set, some r)
        | some first =>
          if ops.toU32 (s.addSet base).y == first.2 then .ok ((s.addSet base).set, some r.dropLast)
          else .ok ((s.addSet base).set, some r)) = _
    show (match s.ring with
      | none => (.ok (s.set ++ base, none) : CRes (List Tile × Option (List (Nat × Nat))))
      | some r =>
        match r.head? with
        | none => .ok (s.set ++ base, some r)
        | some first =>
          if ops.toU32 s.y == first.2 then .ok (s.set ++ base, some r.dropLast)
          else .ok (s.set ++ base, some r)) = _
    cases s.ring with
    | none => rfl
    | some r =>
      dsimp only
      cases r.head? with
      | none => rfl
      | some first =>
        dsimp only
        by_cases hc : (ops.toU32 s.y == first.2) = true
        · rw [if_pos hc, if_pos hc]; rfl
        · rw [if_neg hc, if_neg hc]; rfl

theorem line_nil_append (ops : Ops α) (zoom fuel : Nat) (base : List Tile) (pts : List (Pt α))
    (ring : Option (List (Nat × Nat))) :
    line ops zoom fuel base pts ring =
      (line ops zoom fuel [] pts ring).map (fun r => (r.1 ++ base, r.2)) :=
  line_append ops zoom fuel [] base pts ring

theorem traceRings_append (ops : Ops α) (zoom fuel : Nat) (base : List Tile) :
    ∀ (rings : List (List (Pt α))) (set : List Tile) (inter : List (Nat × Nat)),
      traceRings ops zoom fuel (set ++ base) inter rings =
        (traceRings ops zoom fuel set inter rings).map (fun r => (r.1 ++ base, r.2)) := by
  intro rings
  induction rings with
  | nil => intro set inter; rfl
  | cons r rs ih =>
    intro set inter
    rw [traceRings, traceRings, line_append]
    cases line ops zoom fuel set r (some []) with
    | ok res =>
      obtain ⟨s1, ring⟩ := res
      simp only [Res.map]
      exact ih s1 _
    | err e => rfl
    | panic w => rfl

/-- `polygon` over a larger starting set: the same tiles are added. -/
theorem polygon_append (ops : Ops α) (zoom fuel : Nat) (set base : List Tile) (rings : List (List (Pt α))) :
    polygon ops zoom fuel (set ++ base) rings = (polygon ops zoom fuel set rings).map (· ++ base) := by
  unfold polygon
  rw [traceRings_append]
  cases traceRings ops zoom fuel set [] rings with
  | ok res =>
    obtain ⟨s1, inter⟩ := res
    simp only [Res.map]
    split
    · rfl
    · simp only [List.append_assoc]
  | err e => rfl
  | panic w => rfl

theorem polygon_nil_append (ops : Ops α) (zoom fuel : Nat) (base : List Tile) (rings : List (List (Pt α))) :
    polygon ops zoom fuel base rings = (polygon ops zoom fuel [] rings).map (· ++ base) :=
  polygon_append ops zoom fuel [] base rings

/-! ### multi-line-strings and multi-polygons are unions -/

theorem multiLine_union (ops : Ops α) (zoom fuel : Nat) :
    ∀ (ls : List (List (Pt α))) (set : List Tile),
      (∀ l ∈ ls, ∃ r, line ops zoom fuel [] l none = .ok r) →
      ∃ S, multiLine ops zoom fuel set ls = .ok S ∧
        ∀ t, t ∈ S ↔ (t ∈ set ∨ ∃ l ∈ ls, ∃ r, line ops zoom fuel [] l none = .ok r ∧ t ∈ r.1) := by
  intro ls
  induction ls with
  | nil => intro set _; exact ⟨set, rfl, by simp⟩
  | cons l ls ih =>
    intro set hs
    obtain ⟨r, hr⟩ := hs l List.mem_cons_self
    obtain ⟨S, hS, hmem⟩ := ih (r.1 ++ set) (fun l' hl' => hs l' (List.mem_cons_of_mem _ hl'))
    refine ⟨S, ?_, ?_⟩
    · rw [multiLine, line_nil_append, hr]
      exact hS
    · intro t
      rw [hmem t, List.mem_append]
      constructor
      · rintro ((h | h) | ⟨l', hl', r', hr', ht⟩)
        · exact Or.inr ⟨l, List.mem_cons_self, r, hr, h⟩
        · exact Or.inl h
        · exact Or.inr ⟨l', List.mem_cons_of_mem _ hl', r', hr', ht⟩
      · rintro (h | ⟨l', hl', r', hr', ht⟩)
        · exact Or.inl (Or.inr h)
        · rcases List.mem_cons.mp hl' with e | hl''
          · subst e
            rw [hr] at hr'
            cases hr'
            exact Or.inl (Or.inl ht)
          · exact Or.inr ⟨l', hl'', r', hr', ht⟩

theorem multiLine_error (ops : Ops α) (zoom fuel : Nat) (l : List (Pt α)) (ls₂ : List (List (Pt α)))
    (hl : (line ops zoom fuel [] l none).isOk = false) :
    ∀ (ls₁ : List (List (Pt α))) (set : List Tile),
      (∀ l' ∈ ls₁, ∃ r, line ops zoom fuel [] l' none = .ok r) →
      multiLine ops zoom fuel set (ls₁ ++ l :: ls₂) = (line ops zoom fuel [] l none).map (·.1) := by
  intro ls₁
  induction ls₁ with
  | nil =>
    intro set _
    rw [List.nil_append, multiLine, line_nil_append]
    cases hline : line ops zoom fuel [] l none with
    | ok r => rw [hline] at hl; cases hl
    | err e => rfl
    | panic w => rfl
  | cons l' ls ih =>
    intro set hs
    obtain ⟨r, hr⟩ := hs l' List.mem_cons_self
    rw [List.cons_append, multiLine, line_nil_append, hr]
    exact ih _ (fun l'' hl'' => hs l'' (List.mem_cons_of_mem _ hl''))

theorem multiPolygon_union (ops : Ops α) (zoom fuel : Nat) :
    ∀ (ps : List (List (List (Pt α)))) (set : List Tile),
      (∀ p ∈ ps, ∃ s, polygon ops zoom fuel [] p = .ok s) →
      ∃ S, multiPolygon ops zoom fuel set ps = .ok S ∧
        ∀ t, t ∈ S ↔ (t ∈ set ∨ ∃ p ∈ ps, ∃ s, polygon ops zoom fuel [] p = .ok s ∧ t ∈ s) := by
  intro ps
  induction ps with
  | nil => intro set _; exact ⟨set, rfl, by simp⟩
  | cons p ps ih =>
    intro set hs
    obtain ⟨s, hp⟩ := hs p List.mem_cons_self
    obtain ⟨S, hS, hmem⟩ := ih (s ++ set) (fun p' hp' => hs p' (List.mem_cons_of_mem _ hp'))
    refine ⟨S, ?_, ?_⟩
    · rw [multiPolygon, polygon_nil_append, hp]
      exact hS
    · intro t
      rw [hmem t, List.mem_append]
      constructor
      · rintro ((h | h) | ⟨p', hp', s', hs', ht⟩)
        · exact Or.inr ⟨p, List.mem_cons_self, s, hp, h⟩
        · exact Or.inl h
        · exact Or.inr ⟨p', List.mem_cons_of_mem _ hp', s', hs', ht⟩
      · rintro (h | ⟨p', hp', s', hs', ht⟩)
        · exact Or.inl (Or.inr h)
        · rcases List.mem_cons.mp hp' with e | hp''
          · subst e
            rw [hp] at hs'
            cases hs'
            exact Or.inl (Or.inl ht)
          · exact Or.inr ⟨p', hp'', s', hs', ht⟩

theorem multiPolygon_error (ops : Ops α) (zoom fuel : Nat) (p : List (List (Pt α)))
    (ps₂ : List (List (List (Pt α)))) (hp : (polygon ops zoom fuel [] p).isOk = false) :
    ∀ (ps₁ : List (List (List (Pt α)))) (set : List Tile),
      (∀ p' ∈ ps₁, ∃ s, polygon ops zoom fuel [] p' = .ok s) →
      multiPolygon ops zoom fuel set (ps₁ ++ p :: ps₂) = polygon ops zoom fuel [] p := by
  intro ps₁
  induction ps₁ with
  | nil =>
    intro set _
    rw [List.nil_append, multiPolygon, polygon_nil_append]
    cases hpoly : polygon ops zoom fuel [] p with
    | ok r => rw [hpoly] at hp; cases hp
    | err e => rfl
    | panic w => rfl
  | cons p' ps ih =>
    intro set hs
    obtain ⟨s, hs'⟩ := hs p' List.mem_cons_self
    rw [List.cons_append, multiPolygon, polygon_nil_append, hs']
    exact ih _ (fun p'' hp'' => hs p'' (List.mem_cons_of_mem _ hp''))

/-- what `cover` says about a line string, in terms of `line` -/
theorem cover_lineString_ok_iff (ops : Ops α) (frac : Pt α → Pt α) (zoom fuel : Nat) (l : List (Pt α))
    (s : List Tile) :
    cover ops frac zoom fuel (.lineString l) = .ok s ↔
      ∃ r, line ops zoom fuel [] (l.map frac) none = .ok r ∧ r.1 = s := by
  simp only [cover]
  cases line ops zoom fuel [] (l.map frac) none with
  | ok r => simp [Res.map]
  | err e => simp [Res.map]
  | panic w => simp [Res.map]

/-- The cover of a multi-line-string whose members all have covers is their union. -/
theorem cover_multiLineString_union' (ops : Ops α) (frac : Pt α → Pt α) (zoom fuel : Nat)
    (ls : List (List (Pt α)))
    (hs : ∀ l ∈ ls, ∃ s, cover ops frac zoom fuel (.lineString l) = .ok s) :
    ∃ S, cover ops frac zoom fuel (.multiLineString ls) = .ok S ∧
      ∀ t, t ∈ S ↔ ∃ l ∈ ls, ∃ s, cover ops frac zoom fuel (.lineString l) = .ok s ∧ t ∈ s := by
  obtain ⟨S, hS, hmem⟩ := multiLine_union ops zoom fuel (ls.map (·.map frac)) [] (by
    intro l hl
    obtain ⟨l0, hl0, rfl⟩ := List.mem_map.mp hl
    obtain ⟨s, hs0⟩ := hs l0 hl0
    obtain ⟨r, hr, _⟩ := (cover_lineString_ok_iff ops frac zoom fuel l0 s).mp hs0
    exact ⟨r, hr⟩)
  refine ⟨S, by simp only [cover]; exact hS, ?_⟩
  intro t
  rw [hmem t]
  constructor
  · rintro (h | ⟨l, hl, r, hr, ht⟩)
    · cases h
    · obtain ⟨l0, hl0, rfl⟩ := List.mem_map.mp hl
      exact ⟨l0, hl0, r.1, (cover_lineString_ok_iff ops frac zoom fuel l0 r.1).mpr ⟨r, hr, rfl⟩, ht⟩
  · rintro ⟨l0, hl0, s, hs0, ht⟩
    obtain ⟨r, hr, e⟩ := (cover_lineString_ok_iff ops frac zoom fuel l0 s).mp hs0
    exact Or.inr ⟨l0.map frac, List.mem_map.mpr ⟨l0, hl0, rfl⟩, r, hr, e ▸ ht⟩

/-- … and otherwise the outcome of the first member without a cover. -/
theorem cover_multiLineString_error' (ops : Ops α) (frac : Pt α → Pt α) (zoom fuel : Nat)
    (ls₁ : List (List (Pt α))) (l : List (Pt α)) (ls₂ : List (List (Pt α)))
    (hs : ∀ l' ∈ ls₁, ∃ s, cover ops frac zoom fuel (.lineString l') = .ok s)
    (hl : (cover ops frac zoom fuel (.lineString l)).isOk = false) :
    cover ops frac zoom fuel (.multiLineString (ls₁ ++ l :: ls₂)) = cover ops frac zoom fuel (.lineString l) := by
  simp only [cover, List.map_append, List.map_cons]
  apply multiLine_error ops zoom fuel (l.map frac) (ls₂.map (·.map frac)) ?_ (ls₁.map (·.map frac)) []
  · intro l' hl'
    obtain ⟨l0, hl0, rfl⟩ := List.mem_map.mp hl'
    obtain ⟨s, hs0⟩ := hs l0 hl0
    obtain ⟨r, hr, _⟩ := (cover_lineString_ok_iff ops frac zoom fuel l0 s).mp hs0
    exact ⟨r, hr⟩
  · simp only [cover] at hl
    cases hline : line ops zoom fuel [] (l.map frac) none with
    | ok r => rw [hline] at hl; cases hl
    | err e => rfl
    | panic w => rfl

theorem cover_polygon_eq (ops : Ops α) (frac : Pt α → Pt α) (zoom fuel : Nat) (p : List (List (Pt α))) :
    cover ops frac zoom fuel (.polygon p) = polygon ops zoom fuel [] (p.map (·.map frac)) := by
  simp only [cover]

/-- The cover of a multi-polygon whose members all have covers is their union. -/
theorem cover_multiPolygon_union' (ops : Ops α) (frac : Pt α → Pt α) (zoom fuel : Nat)
    (ps : List (List (List (Pt α))))
    (hs : ∀ p ∈ ps, ∃ s, cover ops frac zoom fuel (.polygon p) = .ok s) :
    ∃ S, cover ops frac zoom fuel (.multiPolygon ps) = .ok S ∧
      ∀ t, t ∈ S ↔ ∃ p ∈ ps, ∃ s, cover ops frac zoom fuel (.polygon p) = .ok s ∧ t ∈ s := by
  obtain ⟨S, hS, hmem⟩ := multiPolygon_union ops zoom fuel (ps.map (·.map (·.map frac))) [] (by
    intro p hp
    obtain ⟨p0, hp0, rfl⟩ := List.mem_map.mp hp
    simpa only [cover_polygon_eq] using hs p0 hp0)
  refine ⟨S, by simp only [cover]; exact hS, ?_⟩
  intro t
  rw [hmem t]
  constructor
  · rintro (h | ⟨p, hp, s, hs0, ht⟩)
    · cases h
    · obtain ⟨p0, hp0, rfl⟩ := List.mem_map.mp hp
      exact ⟨p0, hp0, s, by rw [cover_polygon_eq]; exact hs0, ht⟩
  · rintro ⟨p0, hp0, s, hs0, ht⟩
    rw [cover_polygon_eq] at hs0
    exact Or.inr ⟨_, List.mem_map.mpr ⟨p0, hp0, rfl⟩, s, hs0, ht⟩

/-- … and otherwise the outcome of the first member without a cover (`ErrUnevenIntersections`). -/
theorem cover_multiPolygon_error' (ops : Ops α) (frac : Pt α → Pt α) (zoom fuel : Nat)
    (ps₁ : List (List (List (Pt α)))) (p : List (List (Pt α))) (ps₂ : List (List (List (Pt α))))
    (hs : ∀ p' ∈ ps₁, ∃ s, cover ops frac zoom fuel (.polygon p') = .ok s)
    (hp : (cover ops frac zoom fuel (.polygon p)).isOk = false) :
    cover ops frac zoom fuel (.multiPolygon (ps₁ ++ p :: ps₂)) = cover ops frac zoom fuel (.polygon p) := by
  rw [cover_polygon_eq] at hp ⊢
  simp only [cover, List.map_append, List.map_cons]
  apply multiPolygon_error ops zoom fuel _ _ hp (ps₁.map (·.map (·.map frac))) []
  intro p' hp'
  obtain ⟨p0, hp0, rfl⟩ := List.mem_map.mp hp'
  simpa only [cover_polygon_eq] using hs p0 hp0

/-! ### the polygon trace bound, with the no-wrap hypothesis only where it is used -/

/-- every entry of a ring trace has its tile in the set -/
def CovIn (zoom : Nat) (set0 : List Tile) (set : List Tile) (ring : Option (List (Nat × Nat))) : Prop :=
  (∀ t ∈ set0, t ∈ set) ∧ ∀ r, ring = some r → ∀ e ∈ r, (⟨e.1, e.2, zoom⟩ : Tile) ∈ set

theorem covIn_emit (ops : Ops α) (zoom : Nat) (set0 : List Tile)
    (s : LState α) (h : CovIn zoom set0 s.set s.ring) :
    CovIn zoom set0 (LState.emit ops zoom s).set (LState.emit ops zoom s).ring := by
  obtain ⟨h1, h2⟩ := h
  refine ⟨fun t ht => List.mem_cons_of_mem _ (h1 t ht), ?_⟩
  intro r hr e he
  cases hring : s.ring with
  | none => simp only [LState.emit, hring] at hr; cases hr
  | some r0 =>
    simp only [LState.emit, hring] at hr ⊢
    have hold : ∀ e ∈ r0, (⟨e.1, e.2, zoom⟩ : Tile) ∈ (⟨ops.toU32 s.x, ops.toU32 s.y, zoom⟩ : Tile) :: s.set :=
      fun e he => List.mem_cons_of_mem _ (h2 r0 hring e he)
    split at hr
    · cases hr
      rcases List.mem_append.1 he with he | he
      · exact hold e he
      · rw [List.mem_singleton] at he
        subst he
        exact List.mem_cons_self ..
    · cases hr
      exact hold e he

theorem covIn_walk (ops : Ops α) (zoom : Nat) (set0 : List Tile)
    (sx sy tdx tdy : α) (fuel : Nat) :
    ∀ (tMaxX tMaxY : Option α) (s s' : LState α),
      walk ops zoom sx sy tdx tdy fuel tMaxX tMaxY s = some s' →
      CovIn zoom set0 s.set s.ring → CovIn zoom set0 s'.set s'.ring := by
  induction fuel with
  | zero =>
    intro tMaxX tMaxY s s' h hg
    rw [walk] at h
    split at h
    · cases h
    · cases h; exact hg
  | succ fuel ih =>
    intro tMaxX tMaxY s s' h hg
    rw [walk] at h
    split at h
    · split at h
      · exact ih _ _ _ _ h (covIn_emit ops zoom set0 _ hg)
      · exact ih _ _ _ _ h (covIn_emit ops zoom set0 _ hg)
    · cases h; exact hg

theorem covIn_segment (ops : Ops α) (zoom fuel : Nat) (set0 : List Tile)
    (s s' : LState α) (start stop : Pt α)
    (h : segment ops zoom fuel s start stop = some s')
    (hg : CovIn zoom set0 s.set s.ring) : CovIn zoom set0 s'.set s'.ring := by
  unfold segment at h
  simp only [] at h
  split at h
  · cases h; exact hg
  · refine covIn_walk ops zoom set0 _ _ _ _ fuel _ _ _ _ h ?_
    split
    · exact covIn_emit ops zoom set0 _ hg
    · exact hg

theorem covIn_lineSegs (ops : Ops α) (zoom fuel : Nat) (set0 : List Tile)
    (pts : List (Pt α)) :
    ∀ (s s' : LState α), lineSegs ops zoom fuel s pts = some s' →
      CovIn zoom set0 s.set s.ring → CovIn zoom set0 s'.set s'.ring := by
  induction pts with
  | nil => intro s s' h hg; simp only [lineSegs] at h; cases h; exact hg
  | cons a l ih =>
    intro s s' h hg
    cases l with
    | nil => simp only [lineSegs] at h; cases h; exact hg
    | cons b l' =>
      rw [lineSegs] at h
      cases hseg : segment ops zoom fuel s a b with
      | none => rw [hseg] at h; cases h
      | some s1 =>
        rw [hseg] at h
        exact ih s1 s' h (covIn_segment ops zoom fuel set0 s s1 a b hseg hg)

theorem covIn_line (ops : Ops α) (zoom fuel : Nat)
    (set : List Tile) (pts : List (Pt α)) (set' : List Tile) (ring : Option (List (Nat × Nat)))
    (h : line ops zoom fuel set pts (some []) = .ok (set', ring)) :
    (∀ t ∈ set, t ∈ set') ∧ ∀ e ∈ ring.getD [], (⟨e.1, e.2, zoom⟩ : Tile) ∈ set' := by
  unfold line at h
  split at h
  · cases h
  · rename_i s hs
    have hg : CovIn zoom set s.set s.ring := by
      refine covIn_lineSegs ops zoom fuel set pts _ s hs ⟨fun t ht => ht, ?_⟩
      intro r hr e he
      cases hr
      cases he
    split at h
    · cases h
      exact ⟨hg.1, fun e he => by cases he⟩
    · rename_i r hr
      split at h
      · cases h
        exact ⟨hg.1, fun e he => hg.2 r hr e he⟩
      · split at h
        · cases h
          exact ⟨hg.1, fun e he => hg.2 r hr e (List.dropLast_subset _ he)⟩
        · cases h
          exact ⟨hg.1, fun e he => hg.2 r hr e he⟩

/-- every intersection the ring loop collects is a traced tile -/
theorem covIn_traceRings (ops : Ops α) (zoom fuel : Nat)
    (rings : List (List (Pt α))) :
    ∀ (set : List Tile) (inter : List (Nat × Nat)) (set' : List Tile) (inter' : List (Nat × Nat)),
      traceRings ops zoom fuel set inter rings = .ok (set', inter') →
      (∀ e ∈ inter, (⟨e.1, e.2, zoom⟩ : Tile) ∈ set) →
      (∀ t ∈ set, t ∈ set') ∧ ∀ e ∈ inter', (⟨e.1, e.2, zoom⟩ : Tile) ∈ set' := by
  induction rings with
  | nil =>
    intro set inter set' inter' h hin
    rw [traceRings] at h
    cases h
    exact ⟨fun t ht => ht, hin⟩
  | cons r rs ih =>
    intro set inter set' inter' h hin
    rw [traceRings] at h
    split at h
    · rename_i set1 ring hl
      obtain ⟨hsub, hent⟩ := covIn_line ops zoom fuel set r set1 ring hl
      have := ih set1 _ set' inter' h (by
        intro e he
        rcases List.mem_append.1 he with he | he
        · exact hsub _ (hin e he)
        · exact hent e (cov_ringIntersections_subset _ e he))
      exact ⟨fun t ht => this.1 t (hsub t ht), this.2⟩
    · cases h
    · cases h

/-- Every tile of a polygon cover is a traced tile or was filled on the row of a traced tile, strictly
    between two traced tiles — provided no INTERSECTION ENTRY sits in the last `uint32` column (the Go
    loop `for x := I[i].x + 1; …` would wrap there).  The hypothesis concerns only the entries of the
    intersection list of this very input. -/
theorem polygon_within_trace_bound' (ops : Ops α) (zoom fuel : Nat)
    (rings : List (List (Pt α))) (S : List Tile) (h : polygon ops zoom fuel [] rings = .ok S) :
    ∃ set' inter, traceRings ops zoom fuel [] [] rings = .ok (set', inter) ∧
      (∀ e ∈ inter, (⟨e.1, e.2, zoom⟩ : Tile) ∈ set') ∧
      ((∀ e ∈ inter, e.1 + 1 < 2 ^ 32) →
        ∀ t ∈ S, t ∈ set' ∨
          ∃ a b, a ∈ set' ∧ b ∈ set' ∧ t.z = zoom ∧ t.y = a.y ∧ a.x < t.x ∧ t.x < b.x) := by
  unfold polygon at h
  split at h
  · rename_i set' inter heq
    split at h
    · cases h
    · cases h
      obtain ⟨-, hent⟩ := covIn_traceRings ops zoom fuel rings [] [] set' inter heq
        (fun e he => by cases he)
      refine ⟨set', inter, heq, hent, ?_⟩
      intro hU t ht
      rcases List.mem_append.1 ht with ht | ht
      · right
        obtain ⟨hz, a, ha, b, hb, hy, hlo, hhi⟩ := cov_fillPairs_mem zoom _ t ht
        have hA := hent a (cov_mem_sortYX _ _ ha)
        have hB := hent b (cov_mem_sortYX _ _ hb)
        refine ⟨⟨a.1, a.2, zoom⟩, ⟨b.1, b.2, zoom⟩, hA, hB, hz, hy, ?_, hhi⟩
        have := add32_eq (hU a (cov_mem_sortYX _ _ ha))
        show a.1 < t.x
        omega
      · exact Or.inl ht
  · cases h
  · cases h

end generic

/-! ### exact arithmetic: boundary completeness and the vertices' bound -/

section exact
variable {K : Type} [Field K] [LinearOrder K] [IsStrictOrderedRing K] [FloorRing K]
set_option linter.unusedSectionVars false

/-- `line` (with or without a ring trace) from any starting set, edge by edge -/
theorem line_geo (zoom fuel : Nat) (set : List Tile) (pts : List (Pt K))
    (ring : Option (List (Nat × Nat))) (hnn : ∀ p ∈ pts, 0 ≤ p.x ∧ 0 ≤ p.y)
    (r : List Tile × Option (List (Nat × Nat)))
    (h : line (opsK K) zoom fuel set pts ring = .ok r) :
    (∀ c ∈ r.1, c ∈ set ∨ (c.z = zoom ∧ ∃ e ∈ pts.zip (pts.drop 1), Meets e.1.x e.2.x e.1.y e.2.y c)) ∧
    (∀ c ∈ set, c ∈ r.1) ∧
    (∀ e ∈ pts.zip (pts.drop 1), e.1 ≠ e.2 → ∀ (i j : Nat) (t : K), 0 ≤ t → t ≤ 1 →
      (i : K) < e.1.x + t * (e.2.x - e.1.x) → e.1.x + t * (e.2.x - e.1.x) < (i : K) + 1 →
      (j : K) < e.1.y + t * (e.2.y - e.1.y) → e.1.y + t * (e.2.y - e.1.y) < (j : K) + 1 →
      (⟨i, j, zoom⟩ : Tile) ∈ r.1) := by
  obtain ⟨s, hs, hr⟩ := line_ok_set zoom fuel set pts ring r h
  rw [hr]
  exact lineSegs_geo zoom fuel pts ⟨set, ring, -1, -1, 0, 0⟩ s hnn (Or.inl ⟨rfl, rfl⟩) hs

/-- the ring loop of `polygon`, edge by edge -/
theorem traceRings_geo (zoom fuel : Nat) :
    ∀ (rings : List (List (Pt K))) (set : List Tile) (inter : List (Nat × Nat)) (set' : List Tile)
      (inter' : List (Nat × Nat)),
      (∀ r ∈ rings, ∀ p ∈ r, 0 ≤ p.x ∧ 0 ≤ p.y) →
      traceRings (opsK K) zoom fuel set inter rings = .ok (set', inter') →
      (∀ c ∈ set', c ∈ set ∨ (c.z = zoom ∧ ∃ r ∈ rings, ∃ e ∈ r.zip (r.drop 1),
        Meets e.1.x e.2.x e.1.y e.2.y c)) ∧
      (∀ c ∈ set, c ∈ set') ∧
      (∀ r ∈ rings, ∀ e ∈ r.zip (r.drop 1), e.1 ≠ e.2 → ∀ (i j : Nat) (t : K), 0 ≤ t → t ≤ 1 →
        (i : K) < e.1.x + t * (e.2.x - e.1.x) → e.1.x + t * (e.2.x - e.1.x) < (i : K) + 1 →
        (j : K) < e.1.y + t * (e.2.y - e.1.y) → e.1.y + t * (e.2.y - e.1.y) < (j : K) + 1 →
        (⟨i, j, zoom⟩ : Tile) ∈ set') := by
  intro rings
  induction rings with
  | nil =>
    intro set inter set' inter' _ h
    simp only [traceRings, Res.ok.injEq, Prod.mk.injEq] at h
    obtain ⟨h1, _⟩ := h
    subst h1
    exact ⟨fun c hc => Or.inl hc, fun c hc => hc, by simp⟩
  | cons r rs ih =>
    intro set inter set' inter' hnn h
    simp only [traceRings] at h
    cases hline : line (opsK K) zoom fuel set r (some []) with
    | err e => rw [hline] at h; simp at h
    | panic w => rw [hline] at h; simp at h
    | ok res =>
      rw [hline] at h
      obtain ⟨gA, gB, gC⟩ := line_geo zoom fuel set r (some []) (hnn r List.mem_cons_self) res hline
      obtain ⟨set1, ring⟩ := res
      simp only at h gA gB gC
      obtain ⟨iA, iB, iC⟩ := ih set1 _ set' inter'
        (fun r' hr' => hnn r' (List.mem_cons_of_mem _ hr')) h
      refine ⟨?_, fun c hc => iB c (gB c hc), ?_⟩
      · intro c hc
        rcases iA c hc with h' | ⟨hz, r', hr', e, he, hm⟩
        · rcases gA c h' with h'' | ⟨hz, e, he, hm⟩
          · exact Or.inl h''
          · exact Or.inr ⟨hz, r, List.mem_cons_self, e, he, hm⟩
        · exact Or.inr ⟨hz, r', List.mem_cons_of_mem _ hr', e, he, hm⟩
      · intro r' hr' e he hne i j t ht0 ht1 e1 e2 e3 e4
        rcases List.mem_cons.mp hr' with h' | h'
        · subst h'
          exact iB _ (gC e he hne i j t ht0 ht1 e1 e2 e3 e4)
        · exact iC r' h' e he hne i j t ht0 ht1 e1 e2 e3 e4

/-- **Polygon boundary completeness.**  Every tile whose open square an edge of any ring enters is in
    the polygon's cover (rings need not be closed; any starting set). -/
theorem polygon_boundary_complete' (zoom fuel : Nat) (set : List Tile) (rings : List (List (Pt K)))
    (S : List Tile) (hnn : ∀ r ∈ rings, ∀ p ∈ r, 0 ≤ p.x ∧ 0 ≤ p.y)
    (h : polygon (opsK K) zoom fuel set rings = .ok S) :
    ∀ r ∈ rings, ∀ e ∈ r.zip (r.drop 1), e.1 ≠ e.2 → ∀ (i j : Nat) (t : K), 0 ≤ t → t ≤ 1 →
      (i : K) < e.1.x + t * (e.2.x - e.1.x) → e.1.x + t * (e.2.x - e.1.x) < (i : K) + 1 →
      (j : K) < e.1.y + t * (e.2.y - e.1.y) → e.1.y + t * (e.2.y - e.1.y) < (j : K) + 1 →
      (⟨i, j, zoom⟩ : Tile) ∈ S := by
  obtain ⟨set', inter, htr, hsub⟩ := polygon_contains_boundary_cover' (opsK K) zoom fuel set rings S h
  obtain ⟨_, _, gC⟩ := traceRings_geo zoom fuel rings set [] set' inter hnn htr
  intro r hr e he hne i j t ht0 ht1 e1 e2 e3 e4
  exact hsub _ (gC r hr e he hne i j t ht0 ht1 e1 e2 e3 e4)

/-- a point of a segment lies between the bounds of its end points -/
theorem seg_between {a b t lo hi : K} (ht0 : 0 ≤ t) (ht1 : t ≤ 1) (ha : lo ≤ a ∧ a ≤ hi)
    (hb : lo ≤ b ∧ b ≤ hi) : lo ≤ a + t * (b - a) ∧ a + t * (b - a) ≤ hi := by
  have e : a + t * (b - a) = (1 - t) * a + t * b := by ring
  rw [e]
  have h1 : 0 ≤ 1 - t := by linarith
  constructor
  · calc lo = (1 - t) * lo + t * lo := by ring
      _ ≤ (1 - t) * a + t * b :=
        add_le_add (mul_le_mul_of_nonneg_left ha.1 h1) (mul_le_mul_of_nonneg_left hb.1 ht0)
  · calc (1 - t) * a + t * b ≤ (1 - t) * hi + t * hi :=
        add_le_add (mul_le_mul_of_nonneg_left ha.2 h1) (mul_le_mul_of_nonneg_left hb.2 ht0)
      _ = hi := by ring

theorem mem_of_mem_zip_drop {β : Type} (l : List β) (e : β × β) (h : e ∈ l.zip (l.drop 1)) :
    e.1 ∈ l ∧ e.2 ∈ l := by
  obtain ⟨h1, h2⟩ := List.of_mem_zip h
  exact ⟨h1, List.mem_of_mem_drop h2⟩

/-- **No tile outside the polygon's tile-space bound.**  In exact arithmetic, for rings with non-negative
    tile-space coordinates whose vertices all lie in the box `[x0, x1] × [y0, y1]` (with `x1` below the
    last `uint32` column): every tile of the cover has the cover's zoom and its closed square meets the
    box. -/
theorem polygon_within_vertex_bound' (zoom fuel : Nat) (rings : List (List (Pt K))) (S : List Tile)
    (x0 x1 y0 y1 : K) (hnn : ∀ r ∈ rings, ∀ p ∈ r, 0 ≤ p.x ∧ 0 ≤ p.y)
    (hbox : ∀ r ∈ rings, ∀ p ∈ r, x0 ≤ p.x ∧ p.x ≤ x1 ∧ y0 ≤ p.y ∧ p.y ≤ y1)
    (hx1 : x1 + 1 < 2 ^ 32)
    (h : polygon (opsK K) zoom fuel [] rings = .ok S) :
    ∀ t ∈ S, t.z = zoom ∧ x0 ≤ (t.x : K) + 1 ∧ (t.x : K) ≤ x1 ∧ y0 ≤ (t.y : K) + 1 ∧ (t.y : K) ≤ y1 := by
  obtain ⟨set', inter, htr, hent, hfill⟩ := polygon_within_trace_bound' (opsK K) zoom fuel rings S h
  obtain ⟨gA, _, _⟩ := traceRings_geo zoom fuel rings [] [] set' inter hnn htr
  -- every traced tile meets an edge, hence the box
  have htrace : ∀ c ∈ set', c.z = zoom ∧ x0 ≤ (c.x : K) + 1 ∧ (c.x : K) ≤ x1 ∧
      y0 ≤ (c.y : K) + 1 ∧ (c.y : K) ≤ y1 := by
    intro c hc
    rcases gA c hc with h' | ⟨hz, r, hr, e, he, t, ht0, ht1, m1, m2, m3, m4⟩
    · cases h'
    · obtain ⟨hm1, hm2⟩ := mem_of_mem_zip_drop r e he
      have b1 := hbox r hr e.1 hm1
      have b2 := hbox r hr e.2 hm2
      have bx := seg_between ht0 ht1 ⟨b1.1, b1.2.1⟩ ⟨b2.1, b2.2.1⟩
      have by_ := seg_between ht0 ht1 ⟨b1.2.2.1, b1.2.2.2⟩ ⟨b2.2.2.1, b2.2.2.2⟩
      exact ⟨hz, le_trans bx.1 m2, le_trans m1 bx.2, le_trans by_.1 m4, le_trans m3 by_.2⟩
  have hU : ∀ e ∈ inter, e.1 + 1 < 2 ^ 32 := by
    intro e he
    have := (htrace _ (hent e he)).2.2.1
    have h2 : ((e.1 + 1 : ℕ) : K) < ((2 ^ 32 : ℕ) : K) := by
      push_cast
      have : (e.1 : K) ≤ x1 := this
      linarith
    exact_mod_cast h2
  intro t ht
  rcases hfill hU t ht with h' | ⟨a, b, ha, hb, hz, hy, hlo, hhi⟩
  · exact htrace t h'
  · obtain ⟨_, a1, _, a3, a4⟩ := htrace a ha
    obtain ⟨_, _, b2, _, _⟩ := htrace b hb
    have hlo' : (a.x : K) + 1 ≤ (t.x : K) := by exact_mod_cast hlo
    have hhi' : (t.x : K) ≤ (b.x : K) := by exact_mod_cast hhi.le
    rw [hy]
    exact ⟨hz, by linarith, le_trans hhi' b2, a3, a4⟩

/-- the exact cover of a multi-line-string: sound and complete segment by segment -/
theorem multiLineString_cover_exact' (frac : Pt K → Pt K) (zoom fuel : Nat) (ls : List (List (Pt K)))
    (hnn : ∀ l ∈ ls, ∀ p ∈ l, 0 ≤ (frac p).x ∧ 0 ≤ (frac p).y) (S : List Tile)
    (h : cover (opsK K) frac zoom fuel (.multiLineString ls) = .ok S) :
    (∀ c ∈ S, c.z = zoom ∧ ∃ l ∈ ls, ∃ e ∈ (l.map frac).zip ((l.map frac).drop 1), ∃ t : K, 0 ≤ t ∧ t ≤ 1 ∧
        (c.x : K) ≤ e.1.x + t * (e.2.x - e.1.x) ∧ e.1.x + t * (e.2.x - e.1.x) ≤ (c.x : K) + 1 ∧
        (c.y : K) ≤ e.1.y + t * (e.2.y - e.1.y) ∧ e.1.y + t * (e.2.y - e.1.y) ≤ (c.y : K) + 1) ∧
    (∀ l ∈ ls, ∀ e ∈ (l.map frac).zip ((l.map frac).drop 1), e.1 ≠ e.2 →
      ∀ (i j : Nat) (t : K), 0 ≤ t → t ≤ 1 →
        (i : K) < e.1.x + t * (e.2.x - e.1.x) → e.1.x + t * (e.2.x - e.1.x) < (i : K) + 1 →
        (j : K) < e.1.y + t * (e.2.y - e.1.y) → e.1.y + t * (e.2.y - e.1.y) < (j : K) + 1 →
        (⟨i, j, zoom⟩ : Tile) ∈ S) := by
  simp only [cover] at h
  have key : ∀ (ls' : List (List (Pt K))) (set S : List Tile),
      (∀ l ∈ ls', ∀ p ∈ l, 0 ≤ p.x ∧ 0 ≤ p.y) →
      multiLine (opsK K) zoom fuel set ls' = .ok S →
      (∀ c ∈ S, c ∈ set ∨ (c.z = zoom ∧ ∃ l ∈ ls', ∃ e ∈ l.zip (l.drop 1),
        Meets e.1.x e.2.x e.1.y e.2.y c)) ∧
      (∀ c ∈ set, c ∈ S) ∧
      (∀ l ∈ ls', ∀ e ∈ l.zip (l.drop 1), e.1 ≠ e.2 → ∀ (i j : Nat) (t : K), 0 ≤ t → t ≤ 1 →
        (i : K) < e.1.x + t * (e.2.x - e.1.x) → e.1.x + t * (e.2.x - e.1.x) < (i : K) + 1 →
        (j : K) < e.1.y + t * (e.2.y - e.1.y) → e.1.y + t * (e.2.y - e.1.y) < (j : K) + 1 →
        (⟨i, j, zoom⟩ : Tile) ∈ S) := by
    intro ls'
    induction ls' with
    | nil =>
      intro set S _ h
      simp only [multiLine, Res.ok.injEq] at h
      subst h
      exact ⟨fun c hc => Or.inl hc, fun c hc => hc, by simp⟩
    | cons l rest ih =>
      intro set S hnn h
      simp only [multiLine] at h
      cases hline : line (opsK K) zoom fuel set l none with
      | err e => rw [hline] at h; simp at h
      | panic w => rw [hline] at h; simp at h
      | ok res =>
        rw [hline] at h
        obtain ⟨gA, gB, gC⟩ := line_geo zoom fuel set l none (hnn l List.mem_cons_self) res hline
        obtain ⟨set1, ring⟩ := res
        simp only at h gA gB gC
        obtain ⟨iA, iB, iC⟩ := ih set1 S (fun l' hl' => hnn l' (List.mem_cons_of_mem _ hl')) h
        refine ⟨?_, fun c hc => iB c (gB c hc), ?_⟩
        · intro c hc
          rcases iA c hc with h' | ⟨hz, l', hl', e, he, hm⟩
          · rcases gA c h' with h'' | ⟨hz, e, he, hm⟩
            · exact Or.inl h''
            · exact Or.inr ⟨hz, l, List.mem_cons_self, e, he, hm⟩
          · exact Or.inr ⟨hz, l', List.mem_cons_of_mem _ hl', e, he, hm⟩
        · intro l' hl' e he hne i j t ht0 ht1 e1 e2 e3 e4
          rcases List.mem_cons.mp hl' with h' | h'
          · subst h'
            exact iB _ (gC e he hne i j t ht0 ht1 e1 e2 e3 e4)
          · exact iC l' h' e he hne i j t ht0 ht1 e1 e2 e3 e4
  obtain ⟨A, _, C⟩ := key (ls.map (·.map frac)) [] S (by
    intro l hl p hp
    obtain ⟨l0, hl0, rfl⟩ := List.mem_map.mp hl
    obtain ⟨p0, hp0, rfl⟩ := List.mem_map.mp hp
    exact hnn l0 hl0 p0 hp0) h
  refine ⟨?_, ?_⟩
  · intro c hc
    rcases A c hc with h' | ⟨hz, l, hl, e, he, hm⟩
    · cases h'
    · obtain ⟨l0, hl0, rfl⟩ := List.mem_map.mp hl
      exact ⟨hz, l0, hl0, e, he, hm⟩
  · intro l hl e he
    exact C (l.map frac) (List.mem_map.mpr ⟨l, hl, rfl⟩) e he

/-- boundary completeness of a multi-polygon: every tile whose open square an edge of any ring of any
    member enters is in the cover -/
theorem multiPolygon_boundary_complete' (zoom fuel : Nat) :
    ∀ (ps : List (List (List (Pt K)))) (set S : List Tile),
      (∀ pg ∈ ps, ∀ r ∈ pg, ∀ p ∈ r, 0 ≤ p.x ∧ 0 ≤ p.y) →
      multiPolygon (opsK K) zoom fuel set ps = .ok S →
      (∀ c ∈ set, c ∈ S) ∧
      ∀ pg ∈ ps, ∀ r ∈ pg, ∀ e ∈ r.zip (r.drop 1), e.1 ≠ e.2 → ∀ (i j : Nat) (t : K), 0 ≤ t → t ≤ 1 →
        (i : K) < e.1.x + t * (e.2.x - e.1.x) → e.1.x + t * (e.2.x - e.1.x) < (i : K) + 1 →
        (j : K) < e.1.y + t * (e.2.y - e.1.y) → e.1.y + t * (e.2.y - e.1.y) < (j : K) + 1 →
        (⟨i, j, zoom⟩ : Tile) ∈ S := by
  intro ps
  induction ps with
  | nil =>
    intro set S _ h
    simp only [multiPolygon, Res.ok.injEq] at h
    subst h
    exact ⟨fun c hc => hc, by simp⟩
  | cons pg rest ih =>
    intro set S hnn h
    simp only [multiPolygon] at h
    cases hp : polygon (opsK K) zoom fuel set pg with
    | err e => rw [hp] at h; simp at h
    | panic w => rw [hp] at h; simp at h
    | ok S1 =>
      rw [hp] at h
      simp only at h
      obtain ⟨M, I⟩ := ih S1 S (fun pg' hpg' => hnn pg' (List.mem_cons_of_mem _ hpg')) h
      obtain ⟨set', inter, htr, hsub⟩ := polygon_contains_boundary_cover' (opsK K) zoom fuel set pg S1 hp
      obtain ⟨_, gB, _⟩ := traceRings_geo zoom fuel pg set [] set' inter (hnn pg List.mem_cons_self) htr
      refine ⟨fun c hc => M c (hsub c (gB c hc)), ?_⟩
      intro pg' hpg' r hr e he hne i j t ht0 ht1 e1 e2 e3 e4
      rcases List.mem_cons.mp hpg' with h' | h'
      · subst h'
        exact M _ (polygon_boundary_complete' zoom fuel set pg' S1 (hnn pg' List.mem_cons_self) hp
          r hr e he hne i j t ht0 ht1 e1 e2 e3 e4)
      · exact I pg' h' r hr e he hne i j t ht0 ht1 e1 e2 e3 e4

end exact
end Orb.TileCover
