/-
  C07, outer loop: the piece list built by `lineStep` / `lineLoop` / `line`.
  Invariant `Good`: every piece has at least two vertices, every piece segment is a clipped input
  segment, and every input point of the region to keep lies on a piece.
-/
import OrbProofs.C07SegLoop

set_option linter.unusedSectionVars false

namespace Orb.Clip
open Orb Orb.Core Generated.Params

variable {α : Type} [Field α] [LinearOrder α] [IsStrictOrderedRing α]

/-! ### lists of vertices -/

theorem segsOf_cons_cons (a b : Pt α) (r : List (Pt α)) :
    segsOf (a :: b :: r) = (a, b) :: segsOf (b :: r) := rfl

theorem segsOf_append_pair (l : List (Pt α)) (x y : Pt α) :
    segsOf (l ++ [x, y]) = segsOf (l ++ [x]) ++ [(x, y)] := by
  induction l with
  | nil => rfl
  | cons z l ih =>
    cases l with
    | nil => rfl
    | cons w l =>
      simp only [List.cons_append] at ih ⊢
      rw [segsOf_cons_cons, segsOf_cons_cons, ih]
      rfl

theorem mem_segsOf_append_pair {l : List (Pt α)} {x y : Pt α} {u : Pt α × Pt α}
    (h : u ∈ segsOf (l ++ [x])) : u ∈ segsOf (l ++ [x, y]) := by
  rw [segsOf_append_pair]; exact List.mem_append_left _ h

theorem last_mem_segsOf_append_pair (l : List (Pt α)) (x y : Pt α) : (x, y) ∈ segsOf (l ++ [x, y]) := by
  rw [segsOf_append_pair]; simp

theorem onPath_append_pair (l : List (Pt α)) (x y q : Pt α) :
    OnPath (l ++ [x, y]) q ↔ OnPath (l ++ [x]) q ∨ OnSeg x y q := by
  unfold OnPath
  rw [segsOf_append_pair]
  constructor
  · rintro ⟨s, hs, hq⟩
    rcases List.mem_append.1 hs with h | h
    · exact Or.inl ⟨s, h, hq⟩
    · rw [List.mem_singleton] at h; subst h; exact Or.inr hq
  · rintro (⟨s, hs, hq⟩ | hq)
    · exact ⟨s, List.mem_append_left _ hs, hq⟩
    · exact ⟨(x, y), List.mem_append_right _ (List.mem_singleton.2 rfl), hq⟩

/-- every vertex of a path with at least two vertices is an end of one of its segments -/
theorem mem_endpoint : ∀ (piece : List (Pt α)) (v : Pt α), v ∈ piece → 2 ≤ piece.length →
    ∃ s ∈ segsOf piece, v = s.1 ∨ v = s.2 := by
  intro piece
  induction piece with
  | nil => intro v hv; simp at hv
  | cons z l ih =>
    intro v hv hlen
    cases l with
    | nil => simp at hlen
    | cons w l =>
      rw [segsOf_cons_cons]
      rcases List.mem_cons.1 hv with rfl | hv'
      · exact ⟨(v, w), List.mem_cons_self, Or.inl rfl⟩
      · cases l with
        | nil =>
          rw [List.mem_singleton] at hv'
          subst hv'
          exact ⟨(z, v), List.mem_cons_self, Or.inr rfl⟩
        | cons w' l =>
          obtain ⟨s, hs, hv''⟩ := ih v hv' (by simp)
          exact ⟨s, List.mem_cons_of_mem _ hs, hv''⟩

theorem segsOf_ne_nil {piece : List (Pt α)} (h : 2 ≤ piece.length) : ∃ s, s ∈ segsOf piece := by
  match piece, h with
  | a :: b :: r, _ => exact ⟨(a, b), by rw [segsOf_cons_cons]; exact List.mem_cons_self⟩

/-! ### `push` -/

theorem push_new (done : List (List (Pt α))) (p : Pt α) : push done done.length p = done ++ [[p]] := by
  simp [push]

theorem modify_last (done : List (List (Pt α))) (cur : List (Pt α)) (f : List (Pt α) → List (Pt α)) :
    (done ++ [cur]).modify done.length f = done ++ [f cur] := by
  induction done with
  | nil => simp
  | cons x l ih => simp [ih]

theorem push_open (done : List (List (Pt α))) (cur : List (Pt α)) (p : Pt α) :
    push (done ++ [cur]) done.length p = done ++ [cur ++ [p]] := by
  unfold push
  rw [if_neg (by simp), modify_last]

/-! ### the invariant -/

/-- the region code the outer loop attaches to a vertex -/
abbrev code (box : Bound α) (isOpen : Bool) (p : Pt α) : Nat :=
  if isOpen then bitCodeOpen box p else bitCode box p

theorem W_code {box : Bound α} (hb : BoxOK box) (isOpen : Bool) (p : Pt α) :
    W box (code box isOpen p) p := by
  cases isOpen
  · exact W_bitCode hb p
  · exact W_bitCodeOpen hb p

theorem bitCount_code_le (box : Bound α) (isOpen : Bool) (p : Pt α) : bitCount (code box isOpen p) ≤ 2 := by
  cases isOpen
  · exact bitCount_bitCode_le box p
  · exact bitCount_bitCodeOpen_le box p

/-- the outer step of the model (`lineStep`, inner loop with the rounding guards) is the step over the
    loop without the guards, when the carried code is the code of `a` -/
theorem lineStep_eq_U {box : Bound α} (hb : BoxOK box) (isOpen : Bool) {st : LineSt α} {a : Pt α} (b : Pt α)
    (last : Bool) (hcode : st.codeA = code box isOpen a) :
    lineStep box isOpen st a b last = lineStepU box isOpen st a b last := by
  refine lineStep_eq_lineStepU last ?_
  rw [hcode]
  exact segLoop_eq_segLoopU hb isOpen (W_code hb isOpen a) (W_code hb isOpen b) (bitCount_code_le box isOpen a)
    (bitCount_code_le box isOpen b) (fun ho => by subst ho; exact ⟨rfl, rfl⟩) 8

/-- a piece segment `s` is a clipped part of some segment of `path` -/
def SegOK (box : Bound α) (isOpen : Bool) (path : List (Pt α)) (s : Pt α × Pt α) : Prop :=
  InBox box s.1 ∧ InBox box s.2 ∧ (∃ u ∈ segsOf path, OnSeg u.1 u.2 s.1 ∧ OnSeg u.1 u.2 s.2) ∧
  (isOpen = true → ∀ t, 0 < t → t < 1 → s.1 ≠ s.2 → InOpenBox box (lerp s.1 s.2 t))

def Good (box : Bound α) (isOpen : Bool) (path : List (Pt α)) (V : List (List (Pt α))) : Prop :=
  (∀ piece ∈ V, 2 ≤ piece.length) ∧
  (∀ piece ∈ V, ∀ s ∈ segsOf piece, SegOK box isOpen path s) ∧
  ∀ q, OnPath path q → Reg (isOpen = false) box q → OnPieces V q

theorem SegOK.mono {box : Bound α} {isOpen : Bool} {pre : List (Pt α)} {a b : Pt α}
    {s : Pt α × Pt α} (h : SegOK box isOpen (pre ++ [a]) s) : SegOK box isOpen (pre ++ [a, b]) s := by
  obtain ⟨h1, h2, ⟨u, hu, hu'⟩, h4⟩ := h
  exact ⟨h1, h2, ⟨u, mem_segsOf_append_pair hu, hu'⟩, h4⟩

theorem good_of_no_segs (box : Bound α) (isOpen : Bool) {path : List (Pt α)} (h : segsOf path = []) :
    Good box isOpen path [] := by
  refine ⟨by simp, by simp, ?_⟩
  rintro q ⟨s, hs, _⟩
  rw [h] at hs
  simp at hs

/-- a rejected segment: nothing to add -/
theorem good_reject {box : Bound α} {isOpen : Bool} {pre : List (Pt α)} {a b : Pt α}
    {V : List (List (Pt α))} (hG : Good box isOpen (pre ++ [a]) V)
    (hrej : ∀ q, OnSeg a b q → ¬ Reg (isOpen = false) box q) : Good box isOpen (pre ++ [a, b]) V := by
  obtain ⟨g1, g2, g3⟩ := hG
  refine ⟨g1, fun piece hp s hs => (g2 piece hp s hs).mono, ?_⟩
  intro q hq hreg
  rcases (onPath_append_pair pre a b q).1 hq with h | h
  · exact g3 q h hreg
  · exact absurd hreg (hrej q h)

/-- an accepted segment starting a new piece -/
theorem good_new {box : Bound α} {isOpen : Bool} {pre : List (Pt α)} {a b a' b' : Pt α}
    {done : List (List (Pt α))} (hG : Good box isOpen (pre ++ [a]) done)
    (hok : SegOK box isOpen (pre ++ [a, b]) (a', b'))
    (hcomp : ∀ q, OnSeg a b q → Reg (isOpen = false) box q → OnSeg a' b' q) :
    Good box isOpen (pre ++ [a, b]) (done ++ [[a', b']]) := by
  obtain ⟨g1, g2, g3⟩ := hG
  refine ⟨?_, ?_, ?_⟩
  · intro piece hp
    rcases List.mem_append.1 hp with h | h
    · exact g1 piece h
    · rw [List.mem_singleton] at h; subst h; simp
  · intro piece hp s hs
    rcases List.mem_append.1 hp with h | h
    · exact (g2 piece h s hs).mono
    · rw [List.mem_singleton] at h; subst h
      have : s = (a', b') := by simpa [segsOf] using hs
      subst this; exact hok
  · intro q hq hreg
    rcases (onPath_append_pair pre a b q).1 hq with h | h
    · obtain ⟨piece, hp, hq'⟩ := g3 q h hreg
      exact ⟨piece, List.mem_append_left _ hp, hq'⟩
    · refine ⟨[a', b'], List.mem_append_right _ (List.mem_singleton.2 rfl), (a', b'), ?_, hcomp q h hreg⟩
      simp [segsOf]

/-- an accepted segment continuing the open piece -/
theorem good_ext {box : Bound α} {isOpen : Bool} {pre : List (Pt α)} {a b b' : Pt α}
    {done : List (List (Pt α))} {cur : List (Pt α)}
    (hG : Good box isOpen (pre ++ [a]) (done ++ [cur ++ [a]]))
    (hok : SegOK box isOpen (pre ++ [a, b]) (a, b'))
    (hcomp : ∀ q, OnSeg a b q → Reg (isOpen = false) box q → OnSeg a b' q) :
    Good box isOpen (pre ++ [a, b]) (done ++ [cur ++ [a, b']]) := by
  obtain ⟨g1, g2, g3⟩ := hG
  have hmem : cur ++ [a] ∈ done ++ [cur ++ [a]] := List.mem_append_right _ (List.mem_singleton.2 rfl)
  refine ⟨?_, ?_, ?_⟩
  · intro piece hp
    rcases List.mem_append.1 hp with h | h
    · exact g1 piece (List.mem_append_left _ h)
    · rw [List.mem_singleton] at h; subst h; simp
  · intro piece hp s hs
    rcases List.mem_append.1 hp with h | h
    · exact (g2 piece (List.mem_append_left _ h) s hs).mono
    · rw [List.mem_singleton] at h; subst h
      rw [segsOf_append_pair] at hs
      rcases List.mem_append.1 hs with h' | h'
      · exact (g2 _ hmem s h').mono
      · rw [List.mem_singleton] at h'; subst h'; exact hok
  · intro q hq hreg
    rcases (onPath_append_pair pre a b q).1 hq with h | h
    · obtain ⟨piece, hp, hq'⟩ := g3 q h hreg
      rcases List.mem_append.1 hp with h' | h'
      · exact ⟨piece, List.mem_append_left _ h', hq'⟩
      · rw [List.mem_singleton] at h'; subst h'
        exact ⟨cur ++ [a, b'], List.mem_append_right _ (List.mem_singleton.2 rfl),
          (onPath_append_pair cur a b' q).2 (Or.inl hq')⟩
    · exact ⟨cur ++ [a, b'], List.mem_append_right _ (List.mem_singleton.2 rfl),
        (onPath_append_pair cur a b' q).2 (Or.inr (hcomp q h hreg))⟩

/-! ### one step of the outer loop -/

/-- how the state represents the virtual piece list `V` (the open piece is completed by the
    pending vertex `a`, which the next accepted segment pushes) -/
def Repr (st : LineSt α) (a : Pt α) (V : List (List (Pt α))) : Prop :=
  ∃ done, st.line = done.length ∧
    ((st.out = done ∧ V = done) ∨
     ∃ cur, st.out = done ++ [cur] ∧ st.codeA = 0 ∧ V = done ++ [cur ++ [a]])

theorem lineStep_eq (box : Bound α) (isOpen : Bool) (st : LineSt α) (a b : Pt α) (last : Bool) :
    lineStepU box isOpen st a b last =
      match segLoopU box 8 a b st.codeA (code box isOpen b) with
      | .accept a' b' codeB' =>
        if codeB' ≠ code box isOpen b then
          { out := push (push st.out st.line a') st.line b',
            line := if last then st.line else st.line + 1, codeA := code box isOpen b, stuck := st.stuck }
        else if last then
          { out := push (push st.out st.line a') st.line b', line := st.line,
            codeA := code box isOpen b, stuck := st.stuck }
        else { out := push st.out st.line a', line := st.line, codeA := code box isOpen b, stuck := st.stuck }
      | .reject => { st with codeA := code box isOpen b }
      | .stuck => { st with codeA := code box isOpen b, stuck := true } := rfl

theorem lineStep_reject {box : Bound α} {isOpen : Bool} {st : LineSt α} {a b : Pt α} (last : Bool)
    (hr : segLoopU box 8 a b st.codeA (code box isOpen b) = .reject) :
    lineStepU box isOpen st a b last = ⟨st.out, st.line, code box isOpen b, st.stuck⟩ := by
  rw [lineStep_eq, hr]

theorem lineStep_accept_out {box : Bound α} {isOpen : Bool} {st : LineSt α} {a b a' b' : Pt α}
    (last : Bool) (hr : segLoopU box 8 a b st.codeA (code box isOpen b) = .accept a' b' 0)
    (hE : code box isOpen b ≠ 0) :
    lineStepU box isOpen st a b last =
      ⟨push (push st.out st.line a') st.line b', if last then st.line else st.line + 1,
        code box isOpen b, st.stuck⟩ := by
  have hE' : (0 : Nat) ≠ code box isOpen b := fun h => hE h.symm
  rw [lineStep_eq, hr]
  simp only [hE', ne_eq, not_false_eq_true, if_true]

theorem lineStep_accept_in_last {box : Bound α} {isOpen : Bool} {st : LineSt α} {a b a' b' : Pt α}
    (hr : segLoopU box 8 a b st.codeA (code box isOpen b) = .accept a' b' 0)
    (hE : code box isOpen b = 0) :
    lineStepU box isOpen st a b true =
      ⟨push (push st.out st.line a') st.line b', st.line, code box isOpen b, st.stuck⟩ := by
  rw [lineStep_eq, hr]
  simp only [hE, ne_eq, not_true_eq_false, if_false, if_true]

theorem lineStep_accept_in {box : Bound α} {isOpen : Bool} {st : LineSt α} {a b a' b' : Pt α}
    (hr : segLoopU box 8 a b st.codeA (code box isOpen b) = .accept a' b' 0)
    (hE : code box isOpen b = 0) :
    lineStepU box isOpen st a b false =
      ⟨push st.out st.line a', st.line, code box isOpen b, st.stuck⟩ := by
  rw [lineStep_eq, hr]
  simp only [hE, ne_eq, not_true_eq_false, if_false, Bool.false_eq_true]

theorem lineStep_spec {box : Bound α} (hb : BoxOK box) (isOpen : Bool) (pre : List (Pt α)) (a b : Pt α)
    (st : LineSt α) (V : List (List (Pt α))) (hstuck : st.stuck = false)
    (hcode : st.codeA = code box isOpen a) (hG : Good box isOpen (pre ++ [a]) V) (hR : Repr st a V)
    (last : Bool) :
    (lineStep box isOpen st a b last).stuck = false ∧
    (lineStep box isOpen st a b last).codeA = code box isOpen b ∧
    ∃ V', Good box isOpen (pre ++ [a, b]) V' ∧
      (last = true → (lineStep box isOpen st a b last).out = V') ∧
      (last = false → Repr (lineStep box isOpen st a b last) b V') := by
  rw [lineStep_eq_U hb isOpen b last hcode]
  have hWA : W box st.codeA a := hcode ▸ W_code hb isOpen a
  have hWB : W box (code box isOpen b) b := W_code hb isOpen b
  have key := segLoop_spec hb (isOpen = false) 8 a b st.codeA (code box isOpen b) hWA hWB
    (by intro h; subst h; exact ⟨hcode, rfl⟩) (mu_lt_eight hWA.1 hWB.1)
  generalize hr : segLoopU box 8 a b st.codeA (code box isOpen b) = r at key
  cases r with
  | stuck => exact key.elim
  | reject =>
    obtain ⟨hne, hrej⟩ := key
    rw [lineStep_reject last hr]
    refine ⟨hstuck, rfl, V, good_reject hG hrej, ?_, ?_⟩
    · intro _
      obtain ⟨done, _, h | ⟨cur, _, h0, _⟩⟩ := hR
      · show st.out = V
        rw [h.1, h.2]
      · exact absurd h0 hne
    · intro _
      obtain ⟨done, hl, h | ⟨cur, _, h0, _⟩⟩ := hR
      · exact ⟨done, hl, Or.inl h⟩
      · exact absurd h0 hne
  | accept a' b' c =>
    obtain ⟨hc, hia, hib, hoa, hob, ha', hb', hcomp⟩ := key
    subst hc
    have hand := segLoop_accept_and hr
    have hok : SegOK box isOpen (pre ++ [a, b]) (a', b') := by
      refine ⟨hia, hib, ⟨(a, b), last_mem_segsOf_append_pair pre a b, hoa, hob⟩, ?_⟩
      intro ho t ht0 ht1 hne
      subst ho
      rw [hcode] at hand
      exact open_interior hb hand hia hib hoa hob hne ht0 ht1
    obtain ⟨done, hl, ⟨ho, hV⟩ | ⟨cur, ho, h0, hV⟩⟩ := hR
    · -- no open piece: a new piece starts
      subst hV
      have hG' := good_new hG hok hcomp
      have p1 : push st.out st.line a' = V ++ [[a']] := by rw [hl, ho]; exact push_new _ _
      have p2 : push (V ++ [[a']]) st.line b' = V ++ [[a', b']] := by
        rw [hl]; exact push_open _ _ _
      by_cases hE : code box isOpen b = 0
      · have hbb : b' = b := hb' hE
        cases last
        · rw [lineStep_accept_in hr hE, p1]
          refine ⟨hstuck, rfl, _, hG', by simp, fun _ => ⟨V, hl, Or.inr ⟨[a'], rfl, hE, ?_⟩⟩⟩
          rw [hbb]; rfl
        · rw [lineStep_accept_in_last hr hE, p1, p2]
          exact ⟨hstuck, rfl, _, hG', fun _ => rfl, by simp⟩
      · rw [lineStep_accept_out last hr hE, p1, p2]
        refine ⟨hstuck, rfl, _, hG', fun _ => rfl, ?_⟩
        intro hlast
        subst hlast
        exact ⟨V ++ [[a', b']], by simp [hl], Or.inl ⟨rfl, rfl⟩⟩
    · -- an open piece: the start is unclipped and continues it
      subst hV
      have haa : a' = a := ha' h0
      subst haa
      have hG' := good_ext hG hok hcomp
      have p1 : push st.out st.line a' = done ++ [cur ++ [a']] := by rw [hl, ho]; exact push_open _ _ _
      have p2 : push (done ++ [cur ++ [a']]) st.line b' = done ++ [cur ++ [a', b']] := by
        rw [hl, push_open]; simp
      by_cases hE : code box isOpen b = 0
      · have hbb : b' = b := hb' hE
        cases last
        · rw [lineStep_accept_in hr hE, p1]
          refine ⟨hstuck, rfl, _, hG', by simp, fun _ => ⟨done, hl, Or.inr ⟨cur ++ [a'], rfl, hE, ?_⟩⟩⟩
          rw [hbb]; simp
        · rw [lineStep_accept_in_last hr hE, p1, p2]
          exact ⟨hstuck, rfl, _, hG', fun _ => rfl, by simp⟩
      · rw [lineStep_accept_out last hr hE, p1, p2]
        refine ⟨hstuck, rfl, _, hG', fun _ => rfl, ?_⟩
        intro hlast
        subst hlast
        exact ⟨done ++ [cur ++ [a', b']], by simp [hl], Or.inl ⟨rfl, rfl⟩⟩

/-! ### the whole loop -/

theorem lineLoop_cons_cons (box : Bound α) (isOpen : Bool) (st : LineSt α) (a b : Pt α)
    (rest : List (Pt α)) :
    lineLoop box isOpen st (a :: b :: rest) =
      lineLoop box isOpen (lineStep box isOpen st a b rest.isEmpty) (b :: rest) := by
  rw [lineLoop]

theorem lineLoop_single (box : Bound α) (isOpen : Bool) (st : LineSt α) (a : Pt α) :
    lineLoop box isOpen st [a] = st := by
  rw [lineLoop]
  intro _ _ _ h; simp at h

theorem lineLoop_good {box : Bound α} (hb : BoxOK box) (isOpen : Bool) :
    ∀ (rest pre : List (Pt α)) (a : Pt α) (st : LineSt α), rest ≠ [] → st.stuck = false →
      st.codeA = code box isOpen a → (∃ V, Good box isOpen (pre ++ [a]) V ∧ Repr st a V) →
      (lineLoop box isOpen st (a :: rest)).stuck = false ∧
      Good box isOpen (pre ++ a :: rest) (lineLoop box isOpen st (a :: rest)).out := by
  intro rest
  induction rest with
  | nil => intro pre a st h; exact absurd rfl h
  | cons b rest ih =>
    intro pre a st _ hstuck hcode ⟨V, hG, hR⟩
    rw [lineLoop_cons_cons]
    cases rest with
    | nil =>
      obtain ⟨h1, _, V', hG', hout, _⟩ := lineStep_spec hb isOpen pre a b st V hstuck hcode hG hR true
      rw [lineLoop_single]
      refine ⟨h1, ?_⟩
      show Good box isOpen (pre ++ [a, b]) (lineStep box isOpen st a b true).out
      rw [hout rfl]; exact hG'
    | cons c rest =>
      obtain ⟨h1, h2, V', hG', _, hrep⟩ := lineStep_spec hb isOpen pre a b st V hstuck hcode hG hR false
      have := ih (pre ++ [a]) b (lineStep box isOpen st a b false) (by simp) h1 h2
        ⟨V', by rw [List.append_assoc]; exact hG', hrep rfl⟩
      rw [List.append_assoc] at this
      exact this

theorem line_good {box : Bound α} (hb : BoxOK box) (isOpen : Bool) (inp : List (Pt α)) :
    ∃ out, line box isOpen inp = some out ∧ Good box isOpen inp out := by
  cases inp with
  | nil => exact ⟨[], rfl, good_of_no_segs box isOpen rfl⟩
  | cons p rest =>
    cases rest with
    | nil =>
      refine ⟨[], ?_, good_of_no_segs box isOpen rfl⟩
      simp [line, lineLoop_single]
    | cons b rest =>
      have := lineLoop_good hb isOpen (b :: rest) [] p ⟨[], 0, code box isOpen p, false⟩ (by simp) rfl rfl
        ⟨[], good_of_no_segs box isOpen rfl, [], rfl, Or.inl ⟨rfl, rfl⟩⟩
      obtain ⟨h1, h2⟩ := this
      refine ⟨_, ?_, h2⟩
      show (if (lineLoop box isOpen ⟨[], 0, code box isOpen p, false⟩ (p :: b :: rest)).stuck = true then none
        else some (lineLoop box isOpen ⟨[], 0, code box isOpen p, false⟩ (p :: b :: rest)).out) = _
      rw [h1]; rfl

/-! ### a path inside the box comes back unchanged -/

theorem bitCode_of_inBox {box : Bound α} {p : Pt α} (h : InBox box p) : bitCode box p = 0 := by
  obtain ⟨h1, h2, h3, h4⟩ := h
  unfold bitCode
  rw [if_neg (not_lt.2 h1), if_neg (not_lt.2 h2), if_neg (not_lt.2 h3), if_neg (not_lt.2 h4)]
  rfl

theorem segLoop_zero (box : Bound α) (a b : Pt α) : segLoopU box 8 a b 0 0 = .accept a b 0 := by
  rw [segLoopU]; simp

theorem lineStep_inside (box : Bound α) (out : List (List (Pt α))) (a b : Pt α) (hb : InBox box b)
    (last : Bool) :
    lineStep box false ⟨out, 0, 0, false⟩ a b last =
      ⟨if last then push (push out 0 a) 0 b else push out 0 a, 0, 0, false⟩ := by
  have hE : code box false b = 0 := bitCode_of_inBox hb
  have hbr : segLoop box false 8 a b (LineSt.codeA ⟨out, 0, 0, false⟩) (code box false b) 0 0 =
      segLoopU box 8 a b (LineSt.codeA ⟨out, 0, 0, false⟩) (code box false b) := by
    rw [hE]; exact segLoop_eq_segLoopU_decided box false 7 a b (cA := 0) (cB := 0) 0 0 (Or.inl rfl)
  rw [lineStep_eq_lineStepU last hbr]
  have hr : segLoopU box 8 a b (LineSt.codeA ⟨out, 0, 0, false⟩) (code box false b) = .accept a b 0 := by
    rw [hE]; exact segLoop_zero box a b
  cases last
  · rw [lineStep_accept_in hr hE, hE]; rfl
  · rw [lineStep_accept_in_last hr hE, hE]; rfl

theorem lineLoop_inside (box : Bound α) :
    ∀ (rest : List (Pt α)) (a : Pt α) (pre : List (Pt α)) (out : List (List (Pt α))),
      ((out = [] ∧ pre = []) ∨ out = [pre]) → rest ≠ [] → (∀ v ∈ rest, InBox box v) →
      lineLoop box false ⟨out, 0, 0, false⟩ (a :: rest) = ⟨[pre ++ a :: rest], 0, 0, false⟩ := by
  intro rest
  induction rest with
  | nil => intro a pre out _ h; exact absurd rfl h
  | cons b rest ih =>
    intro a pre out hout _ hin
    have hb := hin b List.mem_cons_self
    have hp : push out 0 a = [pre ++ [a]] := by
      rcases hout with ⟨rfl, rfl⟩ | rfl
      · rfl
      · exact push_open [] pre a
    rw [lineLoop_cons_cons, lineStep_inside box out a b hb]
    cases rest with
    | nil =>
      rw [lineLoop_single, hp]
      have : push [pre ++ [a]] 0 b = [pre ++ [a] ++ [b]] := push_open [] _ b
      simp [this]
    | cons c rest =>
      simp only [List.isEmpty_cons, Bool.false_eq_true, if_false]
      rw [hp, ih b (pre ++ [a]) [pre ++ [a]] (Or.inr rfl) (by simp)
        (fun v hv => hin v (List.mem_cons_of_mem _ hv))]
      simp

end Orb.Clip
