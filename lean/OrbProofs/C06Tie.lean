/-
  C06 — translation tie for the root package (bound.go, point.go, ring.go, and the `Bound()` / `Equal()`
  loops of multi_point.go, line_string.go, polygon.go, multi_line_string.go, multi_polygon.go).
  `Generated/BoundGo.lean` is REGENERATED from /repo on every run by the Go→Lean translator in
  harness/cmd/factgen/translate_float.go.  The theorems below prove that each regenerated
  definition IS the hand-written model definition (of `Orb.Core`, and of the copies of
  `Bound.ToRing` / `Bound.Center` in `Orb.Planar` / `Orb.TileGeo`) — for every number type and
  every choice of instances — so a change of the Go source of these functions changes a Lean
  definition and breaks a proof obligation here, independently of any sampling.
-/
import Orb.Core
import Orb.Planar
import Orb.TileGeo
import Orb.LoopForms
import Generated.BoundGo

namespace Orb.C06Tie
open Orb Orb.Core

set_option linter.unusedSectionVars false

variable {α : Type} [Add α] [Sub α] [Mul α] [Div α] [Neg α] [LT α] [LE α] [DecidableLT α] [DecidableLE α]
  [BEq α] [Min α] [Max α] [OfNat α 0] [OfNat α 1] [OfNat α 2] [OfNat α 6] [NatCast α]

/-! ### bound.go -/

theorem boundTop_tie (b : Bound α) : Generated.BoundGo.boundTop b = b.hi.y := rfl
theorem boundBottom_tie (b : Bound α) : Generated.BoundGo.boundBottom b = b.lo.y := rfl
theorem boundRight_tie (b : Bound α) : Generated.BoundGo.boundRight b = b.hi.x := rfl
theorem boundLeft_tie (b : Bound α) : Generated.BoundGo.boundLeft b = b.lo.x := rfl
theorem boundLeftTop_tie (b : Bound α) : Generated.BoundGo.boundLeftTop b = b.leftTop := rfl
theorem boundRightBottom_tie (b : Bound α) : Generated.BoundGo.boundRightBottom b = b.rightBottom := rfl
theorem boundIsEmpty_tie (b : Bound α) : Generated.BoundGo.boundIsEmpty b = b.isEmpty := rfl
theorem boundContains_tie (b : Bound α) (p : Pt α) : Generated.BoundGo.boundContains b p = b.contains p := rfl
theorem boundExtend_tie (b : Bound α) (p : Pt α) : Generated.BoundGo.boundExtend b p = b.extend p := rfl
theorem boundUnion_tie (b o : Bound α) : Generated.BoundGo.boundUnion b o = b.union o := rfl
theorem boundIntersects_tie (b o : Bound α) : Generated.BoundGo.boundIntersects b o = b.intersects o := rfl

/-- `Bound.Equal` is the `.bound` case of `orb.Equal` -/
theorem boundEqual_tie (a b c d : Pt α) :
    Generated.BoundGo.boundEqual ⟨a, b⟩ ⟨c, d⟩ = Core.equal (.bound a b) (.bound c d) := rfl

/-- `Bound.ToRing` (modelled in `Orb.Planar`, where area / length / distance of a bound use it) -/
theorem boundToRing_tie (b : Bound α) : Generated.BoundGo.boundToRing b = Planar.boundRing b.lo b.hi := rfl

/-- `Bound.Center` (modelled in `Orb.TileGeo` for `Tile.Center`) -/
theorem boundCenter_tie (b : Bound α) :
    Generated.BoundGo.boundCenter b = TileGeo.bndCenter ⟨b.lo, b.hi⟩ := rfl

/-! ### point.go -/

/-- coordinate order: `X` / `Lon` is `p[0]`, `Y` / `Lat` is `p[1]` -/
theorem pointX_tie (p : Pt α) : Generated.BoundGo.pointX p = p.x := rfl
theorem pointY_tie (p : Pt α) : Generated.BoundGo.pointY p = p.y := rfl
theorem pointLon_tie (p : Pt α) : Generated.BoundGo.pointLon p = p.x := rfl
theorem pointLat_tie (p : Pt α) : Generated.BoundGo.pointLat p = p.y := rfl
theorem pointEqual_tie (p q : Pt α) : Generated.BoundGo.pointEqual p q = Core.ptEq p q := rfl

/-! ### ring.go -/

/-- the shoelace loop `for i := 1; i < len(r)-1; i++` of `Ring.Orientation` -/
theorem orientArea_go_eq (o : Pt α) (l : List (Pt α)) (acc : α) :
    orientArea.go o l acc =
      Generated.BoundGo.foldPairs (fun (area : α) (p q : Pt α) =>
        area + ((p.x - o.x) * (q.y - o.y) - (q.x - o.x) * (p.y - o.y))) l acc := by
  induction l generalizing acc with
  | nil => rfl
  | cons p t ih =>
    cases t with
    | nil => rfl
    | cons q t' =>
      simp only [orientArea.go, Generated.BoundGo.foldPairs]
      exact ih _

/-- `Ring.Orientation`.  For the empty ring the Go code returns 0 before looking at the area; the
    model compares the area `0` with `0`, which is the same as soon as `0 < 0` is false. -/
theorem ringOrientation_tie (r : List (Pt α)) (h0 : ¬ (0 : α) < 0) :
    Generated.BoundGo.ringOrientation r = orientation r := by
  cases r with
  | nil => simp [Generated.BoundGo.ringOrientation, orientation, orientArea, h0]
  | cons o rest =>
    simp only [Generated.BoundGo.ringOrientation, orientation, orientArea, orientArea_go_eq]
    simp

/-! ### multi_point.go, line_string.go, ring.go, polygon.go, multi_line_string.go, multi_polygon.go

The loops of the slice kinds.  `Bound()`: `for _, p := range mp { b = b.Extend(p) }` is a `List.foldl`,
`for i := 1; i < len(mls); i++ { bound = bound.Union(mls[i].Bound()) }` a `List.foldl` over
`mls.drop 1`; the package variable `emptyBound` is the explicit parameter `eb`, as in the models.
`Equal()`: the length guard followed by `for i := range mp { if !mp[i].Equal(o[i]) { return false } }`
is the returning loop `foldlRet` over the indices, which `Orb.LoopForms.equal_loop` turns into
`all2` ("same length and pointwise"), the shape of `Core.ptsEq` / `ptssEq` / `ptsssEq`. -/

open Orb.LoopForms

theorem multiPointBound_tie (eb : Bound α) (mp : List (Pt α)) :
    Generated.BoundGo.multiPointBound eb mp = multiPointBound eb mp := by
  cases mp with
  | nil => rfl
  | cons p t => rfl

theorem lineStringBound_tie (eb : Bound α) (ls : List (Pt α)) :
    Generated.BoundGo.lineStringBound eb ls = multiPointBound eb ls := multiPointBound_tie eb ls

theorem ringBound_tie (eb : Bound α) (r : List (Pt α)) :
    Generated.BoundGo.ringBound eb r = multiPointBound eb r := multiPointBound_tie eb r

theorem polygonBound_tie (eb : Bound α) (p : List (List (Pt α))) :
    Generated.BoundGo.polygonBound eb p = polygonBound eb p := by
  cases p with
  | nil => rfl
  | cons r t => exact ringBound_tie eb r

theorem multiLineStringBound_tie (eb : Bound α) (mls : List (List (Pt α))) :
    Generated.BoundGo.multiLineStringBound eb mls = multiLineStringBound eb mls := by
  cases mls with
  | nil => rfl
  | cons l rest =>
    have hf : (fun (bound : Bound α) (x : List (Pt α)) =>
        Generated.BoundGo.boundUnion bound (Generated.BoundGo.lineStringBound eb x))
        = (fun b l => b.union (multiPointBound eb l)) := by
      funext b l; rw [lineStringBound_tie]; rfl
    show List.foldl _ (Generated.BoundGo.lineStringBound eb l) rest = _
    rw [hf, lineStringBound_tie]; rfl

theorem multiPolygonBound_tie (eb : Bound α) (mp : List (List (List (Pt α)))) :
    Generated.BoundGo.multiPolygonBound eb mp = multiPolygonBound eb mp := by
  cases mp with
  | nil => rfl
  | cons p rest =>
    have hf : (fun (bound : Bound α) (x : List (List (Pt α))) =>
        Generated.BoundGo.boundUnion bound (Generated.BoundGo.polygonBound eb x))
        = (fun b p => b.union (polygonBound eb p)) := by
      funext b p; rw [polygonBound_tie]; rfl
    show List.foldl _ (Generated.BoundGo.polygonBound eb p) rest = _
    rw [hf, polygonBound_tie]; rfl

/-- "same length and pointwise `ptEq`" is the model's recursion -/
theorem all2_ptsEq (xs ys : List (Pt α)) :
    all2 (fun a b => Generated.BoundGo.pointEqual a b) xs ys = ptsEq xs ys := by
  induction xs generalizing ys with
  | nil => cases ys <;> rfl
  | cons x t ih =>
    cases ys with
    | nil => rfl
    | cons y u => simp only [all2, ptsEq, ih]; rfl

theorem multiPointEqual_tie (mp o : List (Pt α)) :
    Generated.BoundGo.multiPointEqual mp o = ptsEq mp o := by
  rw [← all2_ptsEq]
  exact equal_loop (fun a b => Generated.BoundGo.pointEqual a b) mp o ⟨0, 0⟩ ⟨0, 0⟩

theorem lineStringEqual_tie (ls o : List (Pt α)) :
    Generated.BoundGo.lineStringEqual ls o = ptsEq ls o := multiPointEqual_tie ls o

theorem ringEqual_tie (r o : List (Pt α)) :
    Generated.BoundGo.ringEqual r o = ptsEq r o := multiPointEqual_tie r o

theorem all2_ptssEq (f : List (Pt α) → List (Pt α) → Bool) (hf : ∀ a b, f a b = ptsEq a b)
    (xs ys : List (List (Pt α))) : all2 f xs ys = ptssEq xs ys := by
  induction xs generalizing ys with
  | nil => cases ys <;> rfl
  | cons x t ih =>
    cases ys with
    | nil => rfl
    | cons y u => simp only [all2, ptssEq, ih, hf]

theorem polygonEqual_tie (p o : List (List (Pt α))) :
    Generated.BoundGo.polygonEqual p o = ptssEq p o := by
  rw [← all2_ptssEq (fun a b => Generated.BoundGo.ringEqual a b) ringEqual_tie]
  exact equal_loop (fun a b => Generated.BoundGo.ringEqual a b) p o [] []

theorem multiLineStringEqual_tie (mls o : List (List (Pt α))) :
    Generated.BoundGo.multiLineStringEqual mls o = ptssEq mls o := by
  rw [← all2_ptssEq (fun a b => Generated.BoundGo.lineStringEqual a b) lineStringEqual_tie]
  exact equal_loop (fun a b => Generated.BoundGo.lineStringEqual a b) mls o [] []

theorem all2_ptsssEq (f : List (List (Pt α)) → List (List (Pt α)) → Bool) (hf : ∀ a b, f a b = ptssEq a b)
    (xs ys : List (List (List (Pt α)))) : all2 f xs ys = ptsssEq xs ys := by
  induction xs generalizing ys with
  | nil => cases ys <;> rfl
  | cons x t ih =>
    cases ys with
    | nil => rfl
    | cons y u => simp only [all2, ptsssEq, ih, hf]

theorem multiPolygonEqual_tie (mp o : List (List (List (Pt α)))) :
    Generated.BoundGo.multiPolygonEqual mp o = ptsssEq mp o := by
  rw [← all2_ptsssEq (fun a b => Generated.BoundGo.polygonEqual a b) polygonEqual_tie]
  exact equal_loop (fun a b => Generated.BoundGo.polygonEqual a b) mp o [] []

/-- the `Equal` / `Bound` methods of the slice kinds are the cases of `Core.equal` / `Core.bound` -/
theorem equal_kinds_tie :
    (∀ p q : List (Pt α), Generated.BoundGo.multiPointEqual p q = Core.equal (.multiPoint p) (.multiPoint q)) ∧
    (∀ p q : List (Pt α), Generated.BoundGo.lineStringEqual p q = Core.equal (.lineString p) (.lineString q)) ∧
    (∀ p q : List (Pt α), Generated.BoundGo.ringEqual p q = Core.equal (.ring p) (.ring q)) ∧
    (∀ p q : List (List (Pt α)), Generated.BoundGo.polygonEqual p q = Core.equal (.polygon p) (.polygon q)) ∧
    (∀ p q : List (List (Pt α)),
      Generated.BoundGo.multiLineStringEqual p q = Core.equal (.multiLineString p) (.multiLineString q)) ∧
    (∀ p q : List (List (List (Pt α))),
      Generated.BoundGo.multiPolygonEqual p q = Core.equal (.multiPolygon p) (.multiPolygon q)) :=
  ⟨multiPointEqual_tie, lineStringEqual_tie, ringEqual_tie, polygonEqual_tie, multiLineStringEqual_tie,
    multiPolygonEqual_tie⟩

theorem bound_kinds_tie (eb : Bound α) :
    (∀ p : List (Pt α), Generated.BoundGo.multiPointBound eb p = Core.bound eb (.multiPoint p)) ∧
    (∀ p : List (Pt α), Generated.BoundGo.lineStringBound eb p = Core.bound eb (.lineString p)) ∧
    (∀ p : List (Pt α), Generated.BoundGo.ringBound eb p = Core.bound eb (.ring p)) ∧
    (∀ p : List (List (Pt α)), Generated.BoundGo.polygonBound eb p = Core.bound eb (.polygon p)) ∧
    (∀ p : List (List (Pt α)), Generated.BoundGo.multiLineStringBound eb p = Core.bound eb (.multiLineString p)) ∧
    (∀ p : List (List (List (Pt α))), Generated.BoundGo.multiPolygonBound eb p = Core.bound eb (.multiPolygon p)) :=
  ⟨fun p => by rw [Core.bound]; exact multiPointBound_tie eb p,
   fun p => by rw [Core.bound]; exact lineStringBound_tie eb p,
   fun p => by rw [Core.bound]; exact ringBound_tie eb p,
   fun p => by rw [Core.bound]; exact polygonBound_tie eb p,
   fun p => by rw [Core.bound]; exact multiLineStringBound_tie eb p,
   fun p => by rw [Core.bound]; exact multiPolygonBound_tie eb p⟩

/-- every function the translator is asked for in the root package was translated -/
theorem all_translated_BoundGo : Generated.BoundGo.translated =
    ["boundTop", "boundBottom", "boundRight", "boundLeft", "boundLeftTop", "boundRightBottom", "boundIsEmpty",
     "boundContains", "boundExtend", "boundUnion", "boundIntersects", "boundCenter", "boundEqual", "boundToRing",
     "pointX", "pointY", "pointLon", "pointLat", "pointEqual", "ringClosed", "ringOrientation",
     "multiPointBound", "multiPointEqual", "lineStringBound", "lineStringEqual", "ringBound", "ringEqual",
     "polygonBound", "polygonEqual", "multiLineStringBound", "multiLineStringEqual", "multiPolygonBound",
     "multiPolygonEqual"] := by
  decide

end Orb.C06Tie
