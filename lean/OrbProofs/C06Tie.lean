/-
  C06 — translation tie for the root package (bound.go, point.go, ring.go).
  `Generated/BoundGo.lean` is REGENERATED from /repo on every run by the Go→Lean translator in
  harness/cmd/factgen/translate_float.go.  The theorems below prove that each regenerated
  definition IS the hand-written model definition (of `Orb.Core`, and of the copies of
  `Bound.ToRing` / `Bound.Center` in `Orb.Planar` / `Orb.TileGeo`) — for every number type and
  every choice of instances — so a change of the Go source of these functions changes a Lean
  definition and breaks a proof obligation here, independently of any sampling.
-/
import Orb.Core
import Orb.Planar
import Orb.TileGeo
import Generated.BoundGo

namespace Orb.C06Tie
open Orb Orb.Core

set_option linter.unusedSectionVars false

variable {α : Type} [Add α] [Sub α] [Mul α] [Div α] [Neg α] [LT α] [LE α] [DecidableLT α] [DecidableLE α]
  [BEq α] [Min α] [Max α] [OfNat α 0] [OfNat α 1] [OfNat α 2] [OfNat α 6] [NatCast α]

/-! ### bound.go -/

theorem boundTop_tie (b : Bound α) : Generated.BoundGo.boundTop b = b.hi.y := rfl
theorem boundBottom_tie (b : Bound α) : Generated.BoundGo.boundBottom b = b.lo.y := rfl
theorem boundRight_tie (b : Bound α) : Generated.BoundGo.boundRight b = b.hi.x := rfl
theorem boundLeft_tie (b : Bound α) : Generated.BoundGo.boundLeft b = b.lo.x := rfl
theorem boundLeftTop_tie (b : Bound α) : Generated.BoundGo.boundLeftTop b = b.leftTop := rfl
theorem boundRightBottom_tie (b : Bound α) : Generated.BoundGo.boundRightBottom b = b.rightBottom := rfl
theorem boundIsEmpty_tie (b : Bound α) : Generated.BoundGo.boundIsEmpty b = b.isEmpty := rfl
theorem boundContains_tie (b : Bound α) (p : Pt α) : Generated.BoundGo.boundContains b p = b.contains p := rfl
theorem boundExtend_tie (b : Bound α) (p : Pt α) : Generated.BoundGo.boundExtend b p = b.extend p := rfl
theorem boundUnion_tie (b o : Bound α) : Generated.BoundGo.boundUnion b o = b.union o := rfl
theorem boundIntersects_tie (b o : Bound α) : Generated.BoundGo.boundIntersects b o = b.intersects o := rfl

/-- `Bound.Equal` is the `.bound` case of `orb.Equal` -/
theorem boundEqual_tie (a b c d : Pt α) :
    Generated.BoundGo.boundEqual ⟨a, b⟩ ⟨c, d⟩ = Core.equal (.bound a b) (.bound c d) := rfl

/-- `Bound.ToRing` (modelled in `Orb.Planar`, where area / length / distance of a bound use it) -/
theorem boundToRing_tie (b : Bound α) : Generated.BoundGo.boundToRing b = Planar.boundRing b.lo b.hi := rfl

/-- `Bound.Center` (modelled in `Orb.TileGeo` for `Tile.Center`) -/
theorem boundCenter_tie (b : Bound α) :
    Generated.BoundGo.boundCenter b = TileGeo.bndCenter ⟨b.lo, b.hi⟩ := rfl

/-! ### point.go -/

/-- coordinate order: `X` / `Lon` is `p[0]`, `Y` / `Lat` is `p[1]` -/
theorem pointX_tie (p : Pt α) : Generated.BoundGo.pointX p = p.x := rfl
theorem pointY_tie (p : Pt α) : Generated.BoundGo.pointY p = p.y := rfl
theorem pointLon_tie (p : Pt α) : Generated.BoundGo.pointLon p = p.x := rfl
theorem pointLat_tie (p : Pt α) : Generated.BoundGo.pointLat p = p.y := rfl
theorem pointEqual_tie (p q : Pt α) : Generated.BoundGo.pointEqual p q = Core.ptEq p q := rfl

/-! ### ring.go -/

/-- the shoelace loop `for i := 1; i < len(r)-1; i++` of `Ring.Orientation` -/
theorem orientArea_go_eq (o : Pt α) (l : List (Pt α)) (acc : α) :
    orientArea.go o l acc =
      Generated.BoundGo.foldPairs (fun (area : α) (p q : Pt α) =>
        area + ((p.x - o.x) * (q.y - o.y) - (q.x - o.x) * (p.y - o.y))) l acc := by
  induction l generalizing acc with
  | nil => rfl
  | cons p t ih =>
    cases t with
    | nil => rfl
    | cons q t' =>
      simp only [orientArea.go, Generated.BoundGo.foldPairs]
      exact ih _

/-- `Ring.Orientation`.  For the empty ring the Go code returns 0 before looking at the area; the
    model compares the area `0` with `0`, which is the same as soon as `0 < 0` is false. -/
theorem ringOrientation_tie (r : List (Pt α)) (h0 : ¬ (0 : α) < 0) :
    Generated.BoundGo.ringOrientation r = orientation r := by
  cases r with
  | nil => simp [Generated.BoundGo.ringOrientation, orientation, orientArea, h0]
  | cons o rest =>
    simp only [Generated.BoundGo.ringOrientation, orientation, orientArea, orientArea_go_eq]
    simp

/-- every function the translator is asked for in the root package was translated -/
theorem all_translated_BoundGo : Generated.BoundGo.translated =
    ["boundTop", "boundBottom", "boundRight", "boundLeft", "boundLeftTop", "boundRightBottom", "boundIsEmpty",
     "boundContains", "boundExtend", "boundUnion", "boundIntersects", "boundCenter", "boundEqual", "boundToRing",
     "pointX", "pointY", "pointLon", "pointLat", "pointEqual", "ringClosed", "ringOrientation"] := by
  decide

end Orb.C06Tie
