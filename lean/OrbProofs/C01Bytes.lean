/-
  Byte-level helper lemmas for C01: integers ⇄ bytes, headers, lengths.
-/
import Orb.WKB

namespace Orb.WKB
open Orb Generated.Params

/-! ### leBytes / leNat -/

theorem leBytes_length (n k : Nat) : (leBytes n k).length = k := by
  induction k generalizing n with
  | zero => rfl
  | succ k ih => simp [leBytes, ih]

theorem leNat_leBytes (n k : Nat) : leNat (leBytes n k) = n % 256 ^ k := by
  induction k generalizing n with
  | zero => simp [leBytes, leNat, Nat.mod_one]
  | succ k ih =>
    have h1 : n % 256 ^ (k + 1) = n % 256 + 256 * (n / 256 % 256 ^ k) := by
      rw [Nat.pow_succ', Nat.mod_mul]
    have h2 : n % 256 % 2 ^ 8 = n % 256 := by omega
    simp only [leBytes, leNat, ih, UInt8.toNat_ofNat', h2, h1]

theorem leNat_lt (bs : Bytes) : leNat bs < 256 ^ bs.length := by
  induction bs with
  | nil => simp [leNat]
  | cons b bs ih =>
    simp only [leNat, List.length_cons, Nat.pow_succ']
    have := b.toNat_lt
    omega

theorem u32_length (o : Order) (n : Nat) : (u32 o n).length = 4 := by
  cases o <;> simp [u32, leBytes_length]

theorem u64_length (o : Order) (b : UInt64) : (u64 o b).length = 8 := by
  cases o <;> simp [u64, leBytes_length]

theorem encPt_length (o : Order) (p : Pt UInt64) : (encPt o p).length = 16 := by
  simp [encPt, u64_length]

theorem rd32_u32 (o : Order) (n : Nat) (rest : Bytes) : rd32 o (u32 o n ++ rest) = n % 2 ^ 32 := by
  cases o
  · simp only [rd32, u32]
    rw [List.take_left' (by simp [leBytes_length]), List.reverse_reverse, leNat_leBytes]
    omega
  · simp only [rd32, u32]
    rw [List.take_left' (by simp [leBytes_length]), leNat_leBytes]
    omega

theorem rd32_u32' (o : Order) (n : Nat) (rest : Bytes) (h : n < 2 ^ 32) : rd32 o (u32 o n ++ rest) = n := by
  rw [rd32_u32]; omega

theorem rd32_lt (o : Order) (bs : Bytes) : rd32 o bs < 2 ^ 32 := by
  have key : ∀ l : Bytes, l.length ≤ 4 → leNat l < 2 ^ 32 := by
    intro l hl
    have h1 := leNat_lt l
    have h2 : 256 ^ l.length ≤ 256 ^ 4 := Nat.pow_le_pow_right (by decide) hl
    have h3 : (256 : Nat) ^ 4 = 2 ^ 32 := by decide
    omega
  cases o
  · simp only [rd32]; apply key; simp; omega
  · simp only [rd32]; apply key; simp; omega

theorem rd64_u64 (o : Order) (b : UInt64) (rest : Bytes) : rd64 o (u64 o b ++ rest) = b := by
  have hb : b.toNat % 256 ^ 8 = b.toNat := by
    have := b.toNat_lt
    have h3 : (256 : Nat) ^ 8 = 2 ^ 64 := by decide
    omega
  cases o
  · simp only [rd64, u64]
    rw [List.take_left' (by simp [leBytes_length]), List.reverse_reverse, leNat_leBytes, hb,
      UInt64.ofNat_toNat]
  · simp only [rd64, u64]
    rw [List.take_left' (by simp [leBytes_length]), leNat_leBytes, hb, UInt64.ofNat_toNat]

end Orb.WKB

namespace Orb.WKB
open Orb Generated.Params

@[simp] theorem drop_u32 (o : Order) (n : Nat) (rest : Bytes) : (u32 o n ++ rest).drop 4 = rest :=
  List.drop_left' (u32_length o n)

@[simp] theorem take_u32 (o : Order) (n : Nat) (rest : Bytes) : (u32 o n ++ rest).take 4 = u32 o n :=
  List.take_left' (u32_length o n)

/-! ### headers -/

/-- type word (+ EWKB flag and SRID word when `srid ≠ 0`) -/
def hdr (o : Order) (t srid : Nat) : Bytes :=
  if srid = 0 then u32 o t else u32 o (t ||| wkb_ewkbType) ++ u32 o srid

/-- the seven type codes -/
def TC (t : Nat) : Prop := t = 1 ∨ t = 2 ∨ t = 3 ∨ t = 4 ∨ t = 5 ∨ t = 6 ∨ t = 7

theorem typePrefix_eq (o : Order) (t l srid : Nat) : typePrefix o t l srid = hdr o t srid ++ u32 o l := by
  unfold typePrefix hdr
  split <;> simp

theorem hdr_length_ge (o : Order) (t srid : Nat) : 4 ≤ (hdr o t srid).length := by
  unfold hdr; split <;> simp [u32_length]

theorem hdr_zero (o : Order) (t : Nat) : hdr o t 0 = u32 o t := by simp [hdr]

theorem tc_flag0 {t : Nat} (ht : TC t) : t % 2 ^ 32 &&& wkb_ewkbType = 0 := by
  rcases ht with h | h | h | h | h | h | h <;> subst h <;> decide

theorem tc_flag1 {t : Nat} (ht : TC t) : (t ||| wkb_ewkbType) % 2 ^ 32 &&& wkb_ewkbType ≠ 0 := by
  rcases ht with h | h | h | h | h | h | h <;> subst h <;> decide

theorem tc_maskB0 {t : Nat} (ht : TC t) : t % 2 ^ 32 &&& wkb_hdrMaskBytes = t := by
  rcases ht with h | h | h | h | h | h | h <;> subst h <;> decide

theorem tc_maskB1 {t : Nat} (ht : TC t) : (t ||| wkb_ewkbType) % 2 ^ 32 &&& wkb_hdrMaskBytes = t := by
  rcases ht with h | h | h | h | h | h | h <;> subst h <;> decide

theorem tc_mod {t : Nat} (ht : TC t) : t % 2 ^ 32 = t := by
  rcases ht with h | h | h | h | h | h | h <;> subst h <;> decide

theorem tc_maskS1 {t : Nat} (ht : TC t) : (t ||| wkb_ewkbType) % 2 ^ 32 &&& wkb_hdrMaskStream = t := by
  rcases ht with h | h | h | h | h | h | h <;> subst h <;> decide

theorem orderByte_ne (o : Order) : orderByte o = 0 ∨ orderByte o = 1 := by
  cases o <;> simp [orderByte]

theorem unmarshalBOT_hdr (o : Order) (t srid : Nat) (body : Bytes) (ht : TC t) (hs : srid < 2 ^ 32)
    (hb : 1 ≤ body.length) :
    unmarshalBOT (orderByte o :: (hdr o t srid ++ body)) = .ok (o, t, srid, body) := by
  have hbo : byteOrderType (orderByte o :: (hdr o t srid ++ body)) =
      .ok (o, rd32 o (hdr o t srid ++ body)) := by
    unfold byteOrderType
    have h4 := hdr_length_ge o t srid
    have : ¬ (orderByte o :: (hdr o t srid ++ body)).length < 6 := by
      simp only [List.length_cons, List.length_append]; omega
    rw [if_neg this]
    cases o <;> simp [orderByte]
  unfold unmarshalBOT
  rw [hbo]
  by_cases h0 : srid = 0
  · subst h0
    simp only [hdr_zero, rd32_u32, tc_flag0 ht, tc_maskB0 ht, if_true, List.drop_succ_cons, drop_u32]
  · have hne := tc_flag1 ht
    have hlen : ¬ (orderByte o :: (hdr o t srid ++ body)).length < 10 := by
      simp only [hdr, if_neg h0, List.length_cons, List.length_append, u32_length]; omega
    simp only [hdr, if_neg h0, List.append_assoc] at hlen ⊢
    simp only [rd32_u32, if_neg hne, tc_maskB1 ht]
    have d5 : (orderByte o :: (u32 o (t ||| wkb_ewkbType) ++ (u32 o srid ++ body))).drop 5
        = u32 o srid ++ body := by
      simp [List.drop_succ_cons]
    have d9 : (orderByte o :: (u32 o (t ||| wkb_ewkbType) ++ (u32 o srid ++ body))).drop 9 = body := by
      rw [show (9 : Nat) = 8 + 1 from rfl, List.drop_succ_cons, ← List.append_assoc]
      exact List.drop_left' (by simp [u32_length])
    rw [d5, d9, rd32_u32' _ _ _ hs, if_neg hlen]

end Orb.WKB

namespace Orb.WKB
open Orb Generated.Params

/-! ### stream primitives -/

theorem readFull_append (l rest : Bytes) (n : Nat) (h : l.length = n) :
    readFull n (l ++ rest) = .ok (l, rest) := by
  unfold readFull
  have h1 : ¬ ((l ++ rest).length = 0 ∧ n > 0) := by
    simp only [List.length_append]; omega
  have h2 : ¬ (l ++ rest).length < n := by
    simp only [List.length_append]; omega
  rw [if_neg h1, if_neg h2, List.take_left' h, List.drop_left' h]

theorem rd32_u32_nil (o : Order) (n : Nat) : rd32 o (u32 o n) = n % 2 ^ 32 := by
  have := rd32_u32 o n []
  simpa using this

theorem rd64_u64_nil (o : Order) (b : UInt64) : rd64 o (u64 o b) = b := by
  have := rd64_u64 o b []
  simpa using this

theorem readU32_u32 (o : Order) (n : Nat) (rest : Bytes) :
    readU32 o (u32 o n ++ rest) = .ok (n % 2 ^ 32, rest) := by
  unfold readU32
  rw [readFull_append _ _ _ (u32_length o n)]
  simp only [rd32_u32_nil]

theorem readU32_u32' (o : Order) (n : Nat) (rest : Bytes) (h : n < 2 ^ 32) :
    readU32 o (u32 o n ++ rest) = .ok (n, rest) := by
  rw [readU32_u32, Nat.mod_eq_of_lt h]

theorem readPoint_encPt (o : Order) (p : Pt UInt64) (rest : Bytes) :
    readPoint o (encPt o p ++ rest) = .ok (p, rest) := by
  unfold readPoint encPt
  rw [List.append_assoc, readFull_append _ _ _ (u64_length o p.x)]
  simp only
  rw [readFull_append _ _ _ (u64_length o p.y)]
  simp only [rd64_u64_nil]

theorem readBOT_hdr (o : Order) (t srid : Nat) (body : Bytes) (ht : TC t) (hs : srid < 2 ^ 32) :
    readBOT (orderByte o :: (hdr o t srid ++ body)) = .ok (o, t, srid, body) := by
  unfold readBOT
  have hoo : (if orderByte o = 0 then some Order.big else if orderByte o = 1 then some Order.little else none)
      = some o := by
    cases o <;> simp [orderByte]
  simp only [hoo]
  by_cases h0 : srid = 0
  · subst h0
    have hf : t &&& wkb_ewkbType = 0 := by
      have := tc_flag0 ht; rwa [tc_mod ht] at this
    simp only [hdr_zero, readU32_u32, tc_mod ht, hf, if_true]
  · simp only [hdr, if_neg h0, List.append_assoc, readU32_u32, if_neg (tc_flag1 ht), tc_maskS1 ht,
      Nat.mod_eq_of_lt hs]

end Orb.WKB
