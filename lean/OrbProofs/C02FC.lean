/-
  C02 — the feature-collection round trip (lemmas; re-exported by OrbProofs/C02.lean).
  The document of a feature collection is a Go map written key-sorted (`normKeys`); the decoder
  looks the reserved keys up and keeps the rest as foreign members.
-/
import OrbProofs.C02Lemmas
namespace Orb.GeoJSON
open Orb

/-! ### `insertKeep` / `normKeys`: sortedness, lookups, filters on keys -/

theorem str_tri {a b : String} (h1 : ¬ a < b) (h2 : a ≠ b) : b < a := by
  apply Classical.byContradiction
  intro h3
  exact h2 (String.le_antisymm (String.not_lt.1 h3) (String.not_lt.1 h1))

/-- every key of `m` is above `k` -/
def KeysAbove (k : String) (m : Members) : Prop := ∀ kv ∈ m, k < kv.1

theorem sortedKeys_cons_iff (k : String) (v : Json) (m : Members) :
    SortedKeys ((k, v) :: m) ↔ KeysAbove k m ∧ SortedKeys m := by
  induction m generalizing k v with
  | nil => simp [SortedKeys, KeysAbove]
  | cons kv m ih =>
    obtain ⟨k', v'⟩ := kv
    simp only [SortedKeys, ih k' v', KeysAbove, List.mem_cons, forall_eq_or_imp]
    constructor
    · rintro ⟨h1, h2, h3⟩
      exact ⟨⟨h1, fun kv hkv => String.lt_trans h1 (h2 kv hkv)⟩, h2, h3⟩
    · rintro ⟨⟨h1, _⟩, h2, h3⟩
      exact ⟨h1, h2, h3⟩

theorem insertKeep_above (k : String) (v : Json) (m : Members) (h : KeysAbove k m) :
    insertKeep k v m = (k, v) :: m := by
  cases m with
  | nil => rfl
  | cons kv m =>
    obtain ⟨k', v'⟩ := kv
    have : k < k' := h (k', v') (by simp)
    simp [insertKeep, this]

theorem keysAbove_insertKeep (a k : String) (v : Json) (m : Members) (hk : a < k) (h : KeysAbove a m) :
    KeysAbove a (insertKeep k v m) := by
  induction m with
  | nil => intro kv hkv; simp [insertKeep] at hkv; subst hkv; exact hk
  | cons kv m ih =>
    obtain ⟨k', v'⟩ := kv
    have h1 : a < k' := h (k', v') (by simp)
    have h2 : KeysAbove a m := fun kv hkv => h kv (by simp [hkv])
    simp only [insertKeep]
    split
    · intro kv hkv
      rcases List.mem_cons.1 hkv with rfl | hkv
      · exact hk
      · exact h kv hkv
    · split
      · exact h
      · intro kv hkv
        rcases List.mem_cons.1 hkv with rfl | hkv
        · exact h1
        · exact ih h2 kv hkv

theorem sortedKeys_insertKeep (k : String) (v : Json) (m : Members) (h : SortedKeys m) :
    SortedKeys (insertKeep k v m) := by
  induction m with
  | nil => simp [insertKeep, SortedKeys]
  | cons kv m ih =>
    obtain ⟨k', v'⟩ := kv
    have h' := (sortedKeys_cons_iff k' v' m).1 h
    simp only [insertKeep]
    split
    · rename_i hlt
      exact ⟨hlt, h⟩
    · split
      · exact h
      · rename_i h1 h2
        exact (sortedKeys_cons_iff _ _ _).2
          ⟨keysAbove_insertKeep k' k v m (str_tri h1 h2) h'.1, ih h'.2⟩

theorem sortedKeys_normKeys (L : Members) : SortedKeys (normKeys L) := by
  induction L with
  | nil => trivial
  | cons kv L ih => obtain ⟨k, v⟩ := kv; exact sortedKeys_insertKeep k v _ ih

theorem normKeys_idem (L : Members) : normKeys (normKeys L) = normKeys L :=
  normKeys_sorted _ (sortedKeys_normKeys L)

/-- the last member with key `k` -/
def lookupLast (k : String) : Members → Option Json
  | [] => none
  | (k', v) :: ms =>
    match lookupLast k ms with
    | some w => some w
    | none => if k' = k then some v else none

theorem lookupKey_above (k : String) (m : Members) (h : KeysAbove k m) : lookupKey k m = none := by
  induction m with
  | nil => rfl
  | cons kv m ih =>
    obtain ⟨k', v'⟩ := kv
    have h1 : k < k' := h (k', v') (by simp)
    have h2 : KeysAbove k m := fun kv hkv => h kv (by simp [hkv])
    have : k' ≠ k := by rintro rfl; exact String.lt_irrefl _ h1
    simp [lookupKey, this, ih h2]

theorem lookupKey_insertKeep (k k' : String) (v : Json) (m : Members) (h : SortedKeys m) :
    lookupKey k (insertKeep k' v m) =
      (match lookupKey k m with
       | some w => some w
       | none => if k' = k then some v else none) := by
  induction m with
  | nil => simp [insertKeep, lookupKey]
  | cons kv m ih =>
    obtain ⟨k'', v''⟩ := kv
    have h' := (sortedKeys_cons_iff k'' v'' m).1 h
    simp only [insertKeep]
    split
    · rename_i hlt
      by_cases hk : k' = k
      · subst hk
        have hne : k'' ≠ k' := by rintro rfl; exact String.lt_irrefl _ hlt
        have := lookupKey_above k' m (fun kv hkv => String.lt_trans hlt (h'.1 kv hkv))
        simp [lookupKey, hne, this]
      · have : lookupKey k ((k', v) :: (k'', v'') :: m) = lookupKey k ((k'', v'') :: m) := by
          simp [lookupKey, hk]
        rw [this]
        cases lookupKey k ((k'', v'') :: m) <;> simp [hk]
    · split
      · rename_i h1 h2
        subst h2
        by_cases hk : k' = k
        · simp [lookupKey, hk]
        · simp only [hk, if_false]
          cases lookupKey k ((k', v'') :: m) <;> rfl
      · rename_i h1 h2
        by_cases hk : k'' = k
        · simp [lookupKey, hk]
        · simp only [lookupKey, hk, if_false]
          exact ih h'.2

theorem lookupKey_normKeys (k : String) (L : Members) : lookupKey k (normKeys L) = lookupLast k L := by
  induction L with
  | nil => rfl
  | cons kv L ih =>
    obtain ⟨k', v⟩ := kv
    rw [normKeys, lookupKey_insertKeep k k' v _ (sortedKeys_normKeys L), ih, lookupLast]

theorem lookupLast_append (k : String) (A B : Members) :
    lookupLast k (A ++ B) = (match lookupLast k B with | some w => some w | none => lookupLast k A) := by
  induction A with
  | nil => simp [lookupLast]; cases lookupLast k B <;> rfl
  | cons kv A ih =>
    obtain ⟨k', v⟩ := kv
    simp only [List.cons_append, lookupLast, ih]
    cases lookupLast k B <;> rfl

theorem lookupLast_none (k : String) (A : Members) (h : ∀ kv ∈ A, kv.1 ≠ k) : lookupLast k A = none := by
  induction A with
  | nil => rfl
  | cons kv A ih =>
    obtain ⟨k', v⟩ := kv
    have h1 : k' ≠ k := h (k', v) (by simp)
    simp [lookupLast, ih (fun kv hkv => h kv (by simp [hkv])), h1]

/-! filter on keys -/

theorem keysAbove_filter (k : String) (p : String × Json → Bool) (m : Members) (h : KeysAbove k m) :
    KeysAbove k (m.filter p) := fun kv hkv => h kv (List.mem_filter.1 hkv).1

theorem sortedKeys_filter (p : String × Json → Bool) (m : Members) (h : SortedKeys m) :
    SortedKeys (m.filter p) := by
  induction m with
  | nil => trivial
  | cons kv m ih =>
    obtain ⟨k, v⟩ := kv
    have h' := (sortedKeys_cons_iff k v m).1 h
    rw [List.filter_cons]
    split
    · exact (sortedKeys_cons_iff _ _ _).2 ⟨keysAbove_filter k p m h'.1, ih h'.2⟩
    · exact ih h'.2

theorem filter_insertKeep (q : String → Bool) (k : String) (v : Json) (m : Members) (h : SortedKeys m) :
    (insertKeep k v m).filter (fun kv => q kv.1) =
      if q k then insertKeep k v (m.filter fun kv => q kv.1) else m.filter fun kv => q kv.1 := by
  induction m with
  | nil => by_cases hq : q k = true <;> simp [insertKeep, hq]
  | cons kv m ih =>
    obtain ⟨k', v'⟩ := kv
    have h' := (sortedKeys_cons_iff k' v' m).1 h
    simp only [insertKeep]
    split
    · rename_i hlt
      have hab : KeysAbove k ((k', v') :: m) := by
        intro kv hkv
        rcases List.mem_cons.1 hkv with rfl | hkv
        · exact hlt
        · exact String.lt_trans hlt (h'.1 kv hkv)
      by_cases hq : q k = true
      · rw [if_pos hq, insertKeep_above k v _ (keysAbove_filter k _ _ hab)]
        rw [List.filter_cons]; simp [hq]
      · rw [if_neg hq]
        rw [List.filter_cons]; simp [hq]
    · split
      · rename_i h1 h2
        subst h2
        by_cases hq : q k = true
        · rw [if_pos hq, List.filter_cons]
          simp [hq, insertKeep, h1]
        · rw [if_neg hq]
      · rename_i h1 h2
        by_cases hq' : q k' = true
        · rw [List.filter_cons, List.filter_cons]
          simp only [hq', if_true, ih h'.2]
          by_cases hq : q k = true
          · simp [hq, insertKeep, h1, h2]
          · simp [hq]
        · rw [List.filter_cons, List.filter_cons]
          simp only [hq', ih h'.2]
          simp

theorem filter_normKeys (q : String → Bool) (L : Members) :
    (normKeys L).filter (fun kv => q kv.1) = normKeys (L.filter fun kv => q kv.1) := by
  induction L with
  | nil => rfl
  | cons kv L ih =>
    obtain ⟨k, v⟩ := kv
    rw [normKeys, filter_insertKeep q k v _ (sortedKeys_normKeys L), ih, List.filter_cons]
    by_cases hq : q k = true
    · simp [hq, normKeys]
    · simp [hq]


/-! ### the feature collection -/

theorem eraseKey_none (k : String) (m : Members) (h : ∀ kv ∈ m, kv.1 ≠ k) : eraseKey k m = m := by
  induction m with
  | nil => rfl
  | cons kv m ih =>
    obtain ⟨k', v⟩ := kv
    have h1 : k' ≠ k := h (k', v) (by simp)
    simp [eraseKey, h1, ih (fun kv hkv => h kv (by simp [hkv]))]

/-- the "bbox" member of the feature-collection document -/
def fcBBoxPart : Option (List UInt64) → Members
  | some bb => [("bbox", bboxJ bb)]
  | none => []

/-- what `okFC` says about the foreign members -/
theorem okFC_extra (x : FC) (hok : okFC x = true) :
    okMembers (x.extra.getD []) = true ∧
    (∀ kv ∈ x.extra.getD [], kv.1 ≠ "type" ∧ kv.1 ≠ "bbox" ∧ kv.1 ≠ "features") := by
  simp only [okFC, Bool.and_eq_true] at hok
  obtain ⟨⟨⟨_, _⟩, hE⟩, hres⟩ := hok
  refine ⟨hE, fun kv hkv => ?_⟩
  have := List.all_eq_true.1 hres kv hkv
  simpa [reservedKey, and_assoc] using this

theorem fcDoc_eq (c : Codec) (x : FC) (hok : okFC x = true) :
    fcDoc c x = .obj (normKeys (x.extra.getD [] ++
      ([("type", .str "FeatureCollection")] ++ fcBBoxPart x.bbox ++
        [("features", .arr ((x.features.getD []).map (featureMember c)))]))) := by
  obtain ⟨hE, hres⟩ := okFC_extra x hok
  have h1 : eraseKey "bbox" (x.extra.getD []) = x.extra.getD [] :=
    eraseKey_none _ _ fun kv hkv => (hres kv hkv).2.1
  unfold fcDoc fcDocG
  rw [h1, valOfMembers_ok _ hE]
  cases x.bbox <;> simp [fcBBoxPart]

theorem decodeFeatures_map (c : Codec) (fs : List (Option Feature))
    (h : ∀ f ∈ fs, ∃ g, f = some g ∧ okFeature g = true ∧ (c = .json ∨ okVB g.geom = true)) :
    decodeFeatures c (fs.map (featureMember c)) = .ok (fs.map fun f => f.map canonF) := by
  induction fs with
  | nil => rfl
  | cons f fs ih =>
    obtain ⟨g, rfl, hg, hb⟩ := h f (by simp)
    have h1 : featureElem c (featureDoc c g) = .ok (some (canonF g)) := by
      have : featureElem c (featureDoc c g) = (featureOfDoc c false (featureDoc c g)).map some := rfl
      rw [this, feature_roundtrip' c g hg hb]; rfl
    have h2 := ih (fun f hf => h f (by simp [hf]))
    simp only [List.map_cons, featureMember, decodeFeatures, h1, h2, Option.map]

theorem fcExtrasOf_ok (c : Codec) (ex : Option Members) (h : okMembers (ex.getD []) = true) :
    fcExtrasOf c (ex.getD []) = .ok (canonProps ex) := by
  cases ex with
  | none => rfl
  | some ps =>
    cases ps with
    | nil => rfl
    | cons p ps =>
      have h1 : okMembers (p :: ps) = true := by simpa using h
      have h2 := normVal_ok _ h1
      have h3 := valOfMembers_ok _ h1
      simp only [canonProps, h2]
      simp [fcExtrasOf, hasInfMembers_ok _ h1, hasBadMembers_ok _ h1, h3]

/-- **Feature collection round trip** (json and bson) -/
theorem fc_roundtrip' (c : Codec) (x : FC) (hok : okFC x = true) (hb : c = .json ∨ okFCB x = true) :
    fcOfDoc c false (fcDoc c x) = .ok (canonFC x) := by
  obtain ⟨hE, hres⟩ := okFC_extra x hok
  rw [fcDoc_eq c x hok]
  have hok' := hok
  simp only [okFC, Bool.and_eq_true] at hok'
  obtain ⟨⟨⟨hbb, hfs⟩, _⟩, _⟩ := hok'
  -- the features decode
  have hF : decodeFeatures c ((x.features.getD []).map (featureMember c)) =
      .ok ((x.features.getD []).map fun f => f.map canonF) := by
    apply decodeFeatures_map
    intro f hf
    have h1 := List.all_eq_true.1 hfs f hf
    cases f with
    | none => simp at h1
    | some g =>
      refine ⟨g, rfl, by simpa using h1, ?_⟩
      rcases hb with hb | hb
      · exact Or.inl hb
      · have h2 := List.all_eq_true.1 (by simpa [okFCB] using hb) (some g) hf
        exact Or.inr (by simpa [okFeatureB] using h2)
  -- the reserved keys are looked up in the members appended after the foreign ones
  have hn : ∀ k, k = "type" ∨ k = "bbox" ∨ k = "features" → lookupLast k (x.extra.getD []) = none := by
    intro k hk
    apply lookupLast_none
    intro kv hkv
    obtain ⟨a, b, d⟩ := hres kv hkv
    rcases hk with rfl | rfl | rfl <;> assumption
  have hfil : ((x.extra.getD [] ++
      ([("type", Json.str "FeatureCollection")] ++ fcBBoxPart x.bbox ++
        [("features", Json.arr ((x.features.getD []).map (featureMember c)))])).filter
          fun kv => !reservedKey kv.1) = x.extra.getD [] := by
    rw [List.filter_append]
    have h1 : (x.extra.getD []).filter (fun kv => !reservedKey kv.1) = x.extra.getD [] :=
      List.filter_eq_self.2 fun kv hkv => by
        obtain ⟨a, b, d⟩ := hres kv hkv
        simp [reservedKey, a, b, d]
    rw [h1]
    cases x.bbox <;> simp (config := { decide := true }) [fcBBoxPart, reservedKey]
  have hex := fcExtrasOf_ok c x.extra hE
  have hbbox : fcBBoxOf c (lookupLast "bbox" (fcBBoxPart x.bbox)) = .ok x.bbox := by
    cases hx : x.bbox with
    | none => rfl
    | some bb =>
      have := bboxOf_bboxJ c bb (by simpa [hx] using hbb)
      simp [fcBBoxPart, lookupLast, fcBBoxOf, this]
  simp only [fcOfDoc, Bool.false_eq_true, if_false, normKeys_idem, decodeFCMap, lookupKey_normKeys,
    filter_normKeys (fun k => !reservedKey k), hfil, normKeys_sorted _ ((okMembers_iff _).1 hE).2, hex]
  have hl1 : lookupLast "type" (x.extra.getD [] ++
      ([("type", Json.str "FeatureCollection")] ++ fcBBoxPart x.bbox ++
        [("features", Json.arr ((x.features.getD []).map (featureMember c)))])) =
      some (.str "FeatureCollection") := by
    rw [lookupLast_append, hn _ (Or.inl rfl)]
    cases x.bbox <;> simp (config := { decide := true }) [fcBBoxPart, lookupLast]
  have hl2 : lookupLast "bbox" (x.extra.getD [] ++
      ([("type", Json.str "FeatureCollection")] ++ fcBBoxPart x.bbox ++
        [("features", Json.arr ((x.features.getD []).map (featureMember c)))])) =
      lookupLast "bbox" (fcBBoxPart x.bbox) := by
    rw [lookupLast_append, hn _ (Or.inr (Or.inl rfl))]
    cases x.bbox <;> simp (config := { decide := true }) [fcBBoxPart, lookupLast]
  have hl3 : lookupLast "features" (x.extra.getD [] ++
      ([("type", Json.str "FeatureCollection")] ++ fcBBoxPart x.bbox ++
        [("features", Json.arr ((x.features.getD []).map (featureMember c)))])) =
      some (.arr ((x.features.getD []).map (featureMember c))) := by
    rw [lookupLast_append, hn _ (Or.inr (Or.inr rfl))]
    cases x.bbox <;> simp (config := { decide := true }) [fcBBoxPart, lookupLast]
  simp (config := { decide := true }) only [hl1, hl2, hl3, hbbox, fcTypeOf, fcFeaturesOf, hF, Res.map, canonFC]
  simp

theorem canonProps_getD (ex : Option Members) (h : okMembers (ex.getD []) = true) :
    (canonProps ex).getD [] = ex.getD [] := by
  cases ex with
  | none => rfl
  | some ps =>
    cases ps with
    | nil => rfl
    | cons p ps =>
      have h1 : okMembers (p :: ps) = true := by simpa using h
      simp [canonProps, normVal_ok _ h1]

/-- marshalling the decoded feature collection again gives the same document -/
theorem fc_remarshal' (c : Codec) (x : FC) (hok : okFC x = true)
    (hr : (x.features.getD []).all (fun f => match f with | some f => noNilRing f.geom | none => true) = true) :
    fcDoc c (canonFC x) = fcDoc c x := by
  obtain ⟨hE, _⟩ := okFC_extra x hok
  simp only [okFC, Bool.and_eq_true] at hok
  obtain ⟨⟨⟨_, hfs⟩, _⟩, _⟩ := hok
  have hfeat : ((x.features.getD []).map fun f => f.map canonF).map (featureMember c) =
      (x.features.getD []).map (featureMember c) := by
    rw [List.map_map]
    apply List.map_congr_left
    intro f hf
    cases f with
    | none => rfl
    | some g =>
      have h1 : okFeature g = true := by simpa using List.all_eq_true.1 hfs (some g) hf
      have h2 : noNilRing g.geom = true := by simpa using List.all_eq_true.1 hr (some g) hf
      simp [featureMember, feature_remarshal' c g h1 h2]
  simp only [fcDoc, fcDocG, canonFC, canonProps_getD _ hE, Option.getD_some, hfeat]

end Orb.GeoJSON
