/-
  C06 — Core values: Clone is deep, Equal is structural, Bound is the tight box.
  PROPERTY THEOREMS about the model `Orb.Core` (bound.go, clone.go, equal.go, the
  per-kind Bound/Equal/Clone methods, LineString.Reverse, Ring.Orientation).

  Coordinates range over an arbitrary linear order (bound laws), an arbitrary
  type with lawful `==` (equality) or an arbitrary ordered commutative ring
  (orientation): exact arithmetic; NaN is outside these theorems.

  The clause about MEMORY ("a clone shares no memory with the original: mutating either
  leaves the other unchanged") is stated over the heap model `Orb.Heap` (slice headers into a
  store of backing arrays) in the second half of this file, for an arbitrary coordinate type.

  NIL MEMBERS (nil rings / lines / polygons, typed nil and nil-interface members of collections)
  are the subject of the third part, over the model `Orb.CoreNil`: there `cloneN`, `equalN`, `boundN`
  follow the nil tests of the code, extend the `Orb.Core` functions (`equalN_extends`,
  `boundN_extends`), and "a clone is equal to the original" is stated for them (`clone_preserves`,
  `clone_equal`).  `orb.Round` is in OrbProofs/C06Round.lean.
-/
import OrbProofs.C06Lemmas
import OrbProofs.C06HeapLemmas
import OrbProofs.C06Nil

namespace Orb.Core

section bounds
variable {α : Type} [LinearOrder α]

/-- `Contains` is membership in the closed box. -/
theorem contains_iff (b : Bound α) (p : Pt α) : b.contains p = true ↔ Mem p b := contains_iff' b p

/-- `IsEmpty` holds exactly when the box has no points. -/
theorem isEmpty_iff (b : Bound α) : b.isEmpty = true ↔ ¬ ∃ p, Mem p b := isEmpty_iff' b

/-- Union of two non-empty boxes is the componentwise min/max box (the least box containing both). -/
theorem union_nonempty (a b : Bound α) (ha : a.isEmpty = false) (hb : b.isEmpty = false) :
    a.union b = ⟨⟨min a.lo.x b.lo.x, min a.lo.y b.lo.y⟩, ⟨max a.hi.x b.hi.x, max a.hi.y b.hi.y⟩⟩ :=
  union_nonempty' a b ha hb

/-- The empty box is the identity of union, on both sides. -/
theorem union_empty_right (a e : Bound α) (he : e.isEmpty = true) : a.union e = a := union_empty_right' a e he
theorem union_empty_left (a e : Bound α) (he : e.isEmpty = true) (ha : a.isEmpty = false) : e.union a = a :=
  union_empty_left' a e he ha

/-- Lattice laws (all empty boxes are identified by `Equiv`). -/
theorem union_comm (a b : Bound α) : Equiv (a.union b) (b.union a) := union_comm' a b
theorem union_assoc (a b c : Bound α) : Equiv ((a.union b).union c) (a.union (b.union c)) := union_assoc' a b c
theorem union_idem (a : Bound α) : a.union a = a := union_idem' a

/-- A point is in the union iff … (upper bound) and the union is below every common upper bound (least). -/
theorem union_upper (a b : Bound α) (p : Pt α) (h : Mem p a ∨ Mem p b) : Mem p (a.union b) := union_upper' a b p h
theorem union_least (a b c : Bound α) (ha : ∀ p, Mem p a → Mem p c) (hb : ∀ p, Mem p b → Mem p c) :
    ∀ p, Mem p (a.union b) → Mem p c := union_least' a b c ha hb

/-- Extending by a point is the union with that point's box; it contains the point and keeps what it had. -/
theorem extend_eq_union_point (b : Bound α) (p : Pt α) : b.extend p = b.union ⟨p, p⟩ := extend_eq_union_point' b p
theorem extend_contains (b : Bound α) (p : Pt α) : Mem p (b.extend p) := extend_contains' b p
theorem extend_absorb (b : Bound α) (p : Pt α) (h : Mem p b) : b.extend p = b := extend_absorb' b p h

/-- `Intersects` is symmetric and, for non-empty boxes, holds iff the boxes share a point. -/
theorem intersects_comm (a b : Bound α) : a.intersects b = b.intersects a := intersects_comm' a b
theorem intersects_iff_common_point (a b : Bound α) (ha : a.isEmpty = false) (hb : b.isEmpty = false) :
    a.intersects b = true ↔ ∃ p, Mem p a ∧ Mem p b := intersects_iff_common_point' a b ha hb

/-- `MultiPoint.Bound` is the tight box of its points. -/
theorem multiPointBound_tight (eb : Bound α) (ps : List (Pt α)) (h : ps ≠ []) :
    IsTight ps (multiPointBound eb ps) := multiPointBound_tight' eb ps h

/-- The bound of any geometry is the smallest box containing every vertex (outer rings for polygons) … -/
theorem bound_tight (eb : Bound α) (he : eb.isEmpty = true) (g : Geom α) (hw : BoundsWF g) (hv : bverts g ≠ []) :
    IsTight (bverts g) (bound eb g) := bound_tight' eb he g hw hv

/-- … and it is empty exactly when there are no vertices. -/
theorem bound_empty_iff (eb : Bound α) (he : eb.isEmpty = true) (g : Geom α) (hw : BoundsWF g) :
    (bound eb g).isEmpty = true ↔ bverts g = [] := bound_empty_iff' eb he g hw

end bounds

section equality
variable {α : Type} [BEq α] [LawfulBEq α]

/-- `Equal` holds exactly when kind, nesting, lengths and every coordinate agree. -/
theorem equal_iff (g h : Geom α) : equal g h = true ↔ g = h := equal_iff' g h

/-- … including nil interfaces and typed nil slices (a nil slice equals the empty slice of its kind). -/
theorem equalV_iff (a b : GVal α) : equalV a b = true ↔ normV a = normV b := equalV_iff' a b

/-- Equality is an equivalence. -/
theorem equalV_refl (a : GVal α) : equalV a a = true := (equalV_iff a a).2 rfl
theorem equalV_symm (a b : GVal α) (h : equalV a b = true) : equalV b a = true :=
  (equalV_iff b a).2 ((equalV_iff a b).1 h).symm
theorem equalV_trans (a b c : GVal α) (h1 : equalV a b = true) (h2 : equalV b c = true) : equalV a c = true :=
  (equalV_iff a c).2 (((equalV_iff a b).1 h1).trans ((equalV_iff b c).1 h2))

/- "A clone is equal to the original": `Orb.Core.cloneV` is the identity BY DEFINITION, so at this level
   the clause is `equalV_refl` and is not restated under another name.  Its content is
   `Orb.CoreNil.clone_preserves` / `clone_equal` below (the clone function there is a recursion that
   follows the per-type `Clone` methods and their nil tests) and `Orb.Heap.clone_equal_denote`. -/

end equality

/-- The in-place index-swap loop of `Reverse` reverses the list; twice is the identity. -/
theorem reverse_eq {β : Type} (ps : List β) : reverse ps = ps.reverse := reverse_eq' ps
theorem reverse_reverse {β : Type} (ps : List β) : reverse (reverse ps) = ps := by
  rw [reverse_eq, reverse_eq, List.reverse_reverse]

section orient
variable {α : Type} [CommRing α] [LinearOrder α] [IsStrictOrderedRing α]

/-- Reversing a ring negates its orientation (closed or not, any length incl. 0). -/
theorem orientation_reverse (r : List (Pt α)) : orientation (reverse r) = - orientation r :=
  orientation_reverse' r

end orient

/-- Non-vacuity: a concrete non-empty box pair, a concrete unequal/equal pair, a concrete CCW ring. -/
example : (⟨⟨0, 0⟩, ⟨2, 2⟩⟩ : Bound Int).isEmpty = false ∧ (⟨⟨1, 1⟩, ⟨-1, -1⟩⟩ : Bound Int).isEmpty = true ∧
    (⟨⟨0, 0⟩, ⟨2, 2⟩⟩ : Bound Int).intersects ⟨⟨2, 1⟩, ⟨5, 9⟩⟩ = true ∧
    orientation ([⟨0, 0⟩, ⟨1, 0⟩, ⟨1, 1⟩, ⟨0, 0⟩] : List (Pt Int)) = 1 := by decide

end Orb.Core

/-! ## Values with nil members

`NGeom` keeps nil-ness at every level: `Polygon{nil}` is `.polygon (some [none])`,
`Collection{MultiPoint(nil), nil}` is `.collection [.multiPoint none, .nilIface]`. -/
namespace Orb.CoreNil
open Orb Orb.Core

variable {α : Type}

/-- `orb.Clone` returns a value of the same kind, nesting, lengths, coordinates AND nil-ness: a clone of
    a nil ring / line / polygon is nil, a clone of a typed nil member is that typed nil, a clone of a
    nil-interface member is the nil interface, a clone of an empty slice is an (empty, non-nil) slice. -/
theorem clone_preserves (g : NGeom α) : cloneN g = g := cloneN_eq' g

/-- … spelled out on the members the nil tests of `Ring.Clone`, `Polygon.Clone`, `orb.Clone` exist for -/
theorem clone_nil_members (p : Pt α) :
    cloneN (.polygon (some [none, some [p]])) = .polygon (some [none, some [p]]) ∧
    cloneN (.multiPolygon (some [none, some [none]])) = (.multiPolygon (some [none, some [none]]) : NGeom α) ∧
    cloneN (.collection [.nilIface, .multiPoint none, .nilCollection, .collection [.nilIface]]) =
      (.collection [.nilIface, .multiPoint none, .nilCollection, .collection [.nilIface]] : NGeom α) ∧
    cloneN (.multiPoint (some [])) = (.multiPoint (some []) : NGeom α) :=
  ⟨clone_preserves _, clone_preserves _, clone_preserves _, clone_preserves _⟩

section equality
variable [BEq α] [LawfulBEq α]

/-- `Equal` holds exactly when the two values agree after every nil SLICE is read as the empty slice
    of its type: kind, nesting, lengths and every coordinate.  The nil INTERFACE (top level or member
    of a collection) is equal to the nil interface only. -/
theorem equalN_iff (g h : NGeom α) : equalN g h = true ↔ normN g = normN h := equalN_iff' g h

theorem equalN_refl (g : NGeom α) : equalN g g = true := (equalN_iff g g).2 rfl
theorem equalN_symm (g h : NGeom α) (e : equalN g h = true) : equalN h g = true :=
  (equalN_iff h g).2 ((equalN_iff g h).1 e).symm
theorem equalN_trans (a b c : NGeom α) (h1 : equalN a b = true) (h2 : equalN b c = true) : equalN a c = true :=
  (equalN_iff a c).2 (((equalN_iff a b).1 h1).trans ((equalN_iff b c).1 h2))

/-- A clone is equal to the original — nil members of every sort included. -/
theorem clone_equal (g : NGeom α) : equalN g (cloneN g) = true := by
  rw [clone_preserves]; exact equalN_refl g

end equality

/-- On values without nil members (and on the top-level nil values of `GVal`) `equalN` IS `Core.equalV`. -/
theorem equalN_extends [BEq α] (a b : GVal α) : equalN (ofGVal a) (ofGVal b) = equalV a b := equalN_ofGVal' a b

section bounds
variable [LinearOrder α]

/-- `Bound()` reads nil slices as empty and `Collection.Bound` skips nil-interface members: the bound is
    the `Core.bound` of the value with those removed (`strip`). -/
theorem boundN_strip (eb : Bound α) (g : NGeom α) (g' : Geom α) (h : strip g = some g') :
    boundN eb g = bound eb g' := boundN_strip' eb g g' h

omit [LinearOrder α] in
/-- every value but the nil interface has such a reading … -/
theorem strip_isSome (g : NGeom α) (h : g ≠ .nilIface) : (strip g).isSome = true := by
  cases hs : strip g with
  | none => exact absurd ((strip_eq_none_iff g).1 hs) h
  | some _ => rfl

omit [LinearOrder α] in
/-- … which drops exactly the nil-interface members -/
theorem strip_collection (gs : List (NGeom α)) :
    strip (.collection gs) = some (.collection (gs.filterMap strip)) := by
  rw [strip, stripList_eq_filterMap]

/-- On values without nil members `boundN` IS `Core.bound`. -/
theorem boundN_extends (eb : Bound α) (g : Geom α) : boundN eb (ofGeom g) = bound eb g :=
  boundN_strip eb _ g (strip_ofGeom' g)

/-- The bound is the smallest box containing every vertex (outer rings for polygons) of the non-nil
    members, at every nesting depth … -/
theorem boundN_tight (eb : Bound α) (he : eb.isEmpty = true) (g : NGeom α) (g' : Geom α) (hs : strip g = some g')
    (hw : BoundsWF g') (hv : bverts g' ≠ []) : IsTight (bverts g') (boundN eb g) := by
  rw [boundN_strip eb g g' hs]; exact bound_tight eb he g' hw hv

/-- … and it is empty exactly when there are none (`Collection{nil}`, `Collection{nil, Polygon{nil}}`, …). -/
theorem boundN_empty_iff (eb : Bound α) (he : eb.isEmpty = true) (g : NGeom α) (g' : Geom α) (hs : strip g = some g')
    (hw : BoundsWF g') : (boundN eb g).isEmpty = true ↔ bverts g' = [] := by
  rw [boundN_strip eb g g' hs]; exact bound_empty_iff eb he g' hw

end bounds

/-- Non-vacuity: nil slices against empty ones (equal), the nil interface against an empty collection
    (not equal), and the bound of a collection whose first, middle and last members are nil. -/
example :
    equalN (.polygon (some [none]) : NGeom Int) (.polygon (some [some []])) = true ∧
    equalN (.nilCollection : NGeom Int) (.collection []) = true ∧
    equalN (.collection [.nilIface] : NGeom Int) (.collection [.nilCollection]) = false ∧
    equalN (.collection [.nilIface] : NGeom Int) (.collection [.nilIface]) = true ∧
    boundN ⟨⟨1, 1⟩, ⟨-1, -1⟩⟩ (.collection [.nilIface, .point ⟨3, 4⟩, .nilIface, .polygon (some [none]),
      .lineString (some [⟨0, 9⟩]), .nilIface] : NGeom Int) = ⟨⟨0, 4⟩, ⟨3, 9⟩⟩ ∧
    boundN ⟨⟨1, 1⟩, ⟨-1, -1⟩⟩ (.collection [.nilIface, .nilIface] : NGeom Int) = ⟨⟨1, 1⟩, ⟨-1, -1⟩⟩ := by
  refine ⟨?_, ?_, ?_, ?_, ?_, ?_⟩
  · simp [equalN, ptssEqN, ptssEqL, ptsEqN, ptsOf, ptsEq]
  · simp [equalN, equalNList]
  · simp [equalN, equalNList]
  · simp [equalN, equalNList]
  · simp [boundN, boundStart, boundRest, polygonBound, multiPointBound, ptssOf, ptsOf]
    decide
  · simp [boundN, boundStart]

end Orb.CoreNil

/-! ## Heap level: a clone shares no memory with the original

`σ` is the store of backing arrays before the call, `g` the headers of the original,
`(clone σ g).1` the store after the call and `(clone σ g).2` the headers of the clone.
`WF σ g` (no dangling header) holds for every Go value. -/
namespace Orb.Heap
open Orb

variable {α : Type}

/-- The clone denotes the value the original had … -/
theorem clone_denote (σ : Store α) (g : HGeom α) (h : WF σ g) :
    denote (clone σ g).1 (clone σ g).2 = denote σ g := clone_denote' σ g h

/-- … so `orb.Equal` answers `true` on (original, clone) … -/
theorem clone_equal_denote [BEq α] [LawfulBEq α] (σ : Store α) (g : HGeom α) (h : WF σ g) :
    Core.equal (denote σ g) (denote (clone σ g).1 (clone σ g).2) = true := by
  rw [clone_denote σ g h]; exact (Core.equal_iff _ _).2 rfl

/-- … and the call does not disturb the original (it only appends arrays). -/
theorem clone_preserves_original (σ : Store α) (g : HGeom α) (h : WF σ g) :
    denote (clone σ g).1 g = denote σ g := clone_preserves_original' σ g h

/-- The clone's headers are exactly the next unused array ids, one per point slice of the original,
    in traversal order … -/
theorem clone_footprint_eq (σ : Store α) (g : HGeom α) :
    footprint (clone σ g).2 = List.range' σ.length (footprint g).length := clone_footprint σ g

/-- … hence: every array of the clone is fresh (allocated by the call), no two point slices of the
    clone share an array — whatever sharing the original has internally — and no array of the clone
    is an array of the original. -/
theorem clone_fresh (σ : Store α) (g : HGeom α) :
    (∀ a ∈ footprint (clone σ g).2, σ.length ≤ a) ∧
    (footprint (clone σ g).2).Nodup ∧
    (WF σ g → ∀ a ∈ footprint (clone σ g).2, a ∉ footprint g) := clone_fresh' σ g

/-- The clone is well-formed in the new store. -/
theorem clone_WF (σ : Store α) (g : HGeom α) : WF (clone σ g).1 (clone σ g).2 := clone_wf σ g

/-- Frame rule: a write to an array outside the footprint of a value is invisible in it. -/
theorem write_frame (σ : Store α) (g : HGeom α) (a i : Nat) (v : Pt α) (h : a ∉ footprint g) :
    denote (write σ a i v) g = denote σ g := write_frame' σ g a i v h

/-- What a write does: array `a` gets `v` at index `i`, every other array is untouched. -/
theorem read_write (σ : Store α) (a b i : Nat) (v : Pt α) :
    read (write σ a i v) b = if b = a then (read σ a).set i v else read σ b := by
  by_cases h : b = a
  · subst h; simp [read_write_same]
  · simp [h, read_write_ne σ a b i v h]

/-- Mutating either leaves the other unchanged: overwriting ANY vertex (any index `i`, any value `v`)
    of ANY array of the clone leaves the value of the original as it was before the call, and
    overwriting any vertex of any array of the original leaves the value of the clone equal to
    the value the original had when it was cloned. -/
theorem clone_independent (σ : Store α) (g : HGeom α) (h : WF σ g) :
    (∀ a ∈ footprint (clone σ g).2, ∀ (i : Nat) (v : Pt α),
        denote (write (clone σ g).1 a i v) g = denote σ g) ∧
    (∀ a ∈ footprint g, ∀ (i : Nat) (v : Pt α),
        denote (write (clone σ g).1 a i v) (clone σ g).2 = denote σ g) := clone_independent' σ g h

/-- Non-vacuity on a concrete nested value whose ORIGINAL shares memory internally (array 0 is both
    rings of the polygon and two rings of the nested multi-polygon): the value is well-formed, the
    clone lives in arrays 2‥7 (all distinct), a write through the clone is visible in the clone and
    a write through the original is visible in the original (in every member sharing the array),
    so the independence statement is not about writes that do nothing. -/
example :
    let σ : Store Int := [[⟨0, 0⟩, ⟨1, 0⟩, ⟨1, 1⟩, ⟨0, 0⟩], [⟨5, 5⟩]]
    let g : HGeom Int := .collection [.polygon [0, 0],
      .collection [.lineString 1, .multiPolygon [[0], [1, 0]]], .point ⟨9, 9⟩]
    (∀ a ∈ footprint g, a < σ.length) ∧
    footprint g = [0, 0, 1, 0, 1, 0] ∧
    footprint (clone σ g).2 = [2, 3, 4, 5, 6, 7] ∧
    (clone σ g).1.length = 8 ∧
    read (clone σ g).1 7 = [⟨0, 0⟩, ⟨1, 0⟩, ⟨1, 1⟩, ⟨0, 0⟩] ∧
    read (write (clone σ g).1 7 1 ⟨3, 3⟩) 7 = [⟨0, 0⟩, ⟨3, 3⟩, ⟨1, 1⟩, ⟨0, 0⟩] ∧
    read (write (clone σ g).1 0 1 ⟨3, 3⟩) 0 = [⟨0, 0⟩, ⟨3, 3⟩, ⟨1, 1⟩, ⟨0, 0⟩] ∧
    read (write (clone σ g).1 0 1 ⟨3, 3⟩) 7 = [⟨0, 0⟩, ⟨1, 0⟩, ⟨1, 1⟩, ⟨0, 0⟩] := by decide

example :
    denote (write [[⟨0, 0⟩, ⟨1, 0⟩], [⟨5, 5⟩]] 0 1 ⟨3, 3⟩)
      (.collection [.polygon [0, 0], .lineString 1] : HGeom Int) =
    .collection [.polygon [[⟨0, 0⟩, ⟨3, 3⟩], [⟨0, 0⟩, ⟨3, 3⟩]], .lineString [⟨5, 5⟩]] := rfl

end Orb.Heap
