/-
  Lemmas for the heap-level part of C15 (`Orb.HeapOps.projectH`): project.Geometry overwrites the
  caller's slices in place.  Core Lean only.  The primed statements are re-exported by
  OrbProofs/C15Heap.lean.
-/
import OrbProofs.HeapOpsBase

set_option linter.unusedSectionVars false
set_option linter.unusedSimpArgs false

namespace Orb.HeapOps
open Orb Orb.Heap Orb.Core

variable {α : Type}

theorem map_iter_zero {β : Type} (f : β → β) (x : Option β) : x.map (iter f 0) = x := by
  cases x <;> rfl

theorem coverCount_nil (a i : Nat) : coverCount [] a i = 0 := rfl

theorem coverCount_cons (h : Hdr) (hs : List Hdr) (a i : Nat) :
    coverCount (h :: hs) a i = (if h.covers a i then 1 else 0) + coverCount hs a i := by
  simp [coverCount, List.countP_cons, Nat.add_comm]

theorem coverCount_append (hs hs' : List Hdr) (a i : Nat) :
    coverCount (hs ++ hs') a i = coverCount hs a i + coverCount hs' a i := by
  simp [coverCount, List.countP_append]

/-! ### the loops, cell by cell -/

theorem cell_projLoop (f : Pt α → Pt α) (a : Nat) (n i : Nat) (σ : Store α) (b j : Nat) :
    cell (projLoop f a i n σ) b j =
      (cell σ b j).map (iter f (if a = b ∧ i ≤ j ∧ j < i + n then 1 else 0)) := by
  induction n generalizing i σ with
  | zero =>
    have : ¬ (a = b ∧ i ≤ j ∧ j < i + 0) := by omega
    simp only [projLoop, this, if_false, map_iter_zero]
  | succ n ih =>
    simp only [projLoop]
    rw [ih, cell_upd]
    by_cases h1 : a = b ∧ i = j
    · rw [if_pos h1, if_neg (by omega : ¬ (a = b ∧ i + 1 ≤ j ∧ j < i + 1 + n)),
        if_pos (by omega : a = b ∧ i ≤ j ∧ j < i + (n + 1)), map_iter_zero]
      cases cell σ b j <;> rfl
    · rw [if_neg h1]
      by_cases h2 : a = b ∧ i + 1 ≤ j ∧ j < i + 1 + n
      · rw [if_pos h2, if_pos (by omega : a = b ∧ i ≤ j ∧ j < i + (n + 1))]
      · rw [if_neg h2, if_neg (by omega : ¬ (a = b ∧ i ≤ j ∧ j < i + (n + 1)))]

theorem cell_projHdr (f : Pt α → Pt α) (σ : Store α) (h : Hdr) (a i : Nat) :
    cell (projHdr f σ h) a i = (cell σ a i).map (iter f (if h.covers a i then 1 else 0)) := by
  unfold projHdr
  rw [cell_projLoop]
  by_cases hc : h.arr = a ∧ h.off ≤ i ∧ i < h.off + h.len
  · simp [hc, (covers_iff h a i).2 hc]
  · have : ¬ (h.covers a i = true) := fun hh => hc ((covers_iff h a i).1 hh)
    simp [hc, this]

theorem cell_projHdrs (f : Pt α → Pt α) (hs : List Hdr) (σ : Store α) (a i : Nat) :
    cell (projHdrs f σ hs) a i = (cell σ a i).map (iter f (coverCount hs a i)) := by
  induction hs generalizing σ with
  | nil => simp [projHdrs, coverCount_nil, map_iter_zero]
  | cons h hs ih =>
    simp only [projHdrs]
    rw [ih, cell_projHdr, iter_map, coverCount_cons]

theorem cell_projHdrss (f : Pt α → Pt α) (hss : List (List Hdr)) (σ : Store α) (a i : Nat) :
    cell (projHdrss f σ hss) a i = (cell σ a i).map (iter f (coverCount hss.flatten a i)) := by
  induction hss generalizing σ with
  | nil => simp [projHdrss, coverCount_nil, map_iter_zero]
  | cons hs hss ih =>
    simp only [projHdrss, List.flatten_cons]
    rw [ih, cell_projHdrs, iter_map, coverCount_append]

section project
variable [LT α] [LE α] [DecidableLT α] [DecidableLE α] [Min α] [Max α]

theorem cell_projectHList (f : Pt α → Pt α) (gs : List (SGeom α))
    (ih : ∀ g ∈ gs, ∀ (σ : Store α) (a i : Nat),
      cell (projectH σ g f).1 a i = (cell σ a i).map (iter f (coverCount (hdrs g) a i)))
    (σ : Store α) (a i : Nat) :
    cell (projectHList σ gs f).1 a i = (cell σ a i).map (iter f (coverCount (hdrsList gs) a i)) := by
  induction gs generalizing σ with
  | nil => simp [projectHList, hdrsList, coverCount_nil, map_iter_zero]
  | cons g gs ihl =>
    simp only [projectHList, hdrsList]
    rw [ihl (fun g hg => ih g (List.mem_cons_of_mem _ hg)), ih g (by simp), iter_map, coverCount_append]

/-- THE general law: afterwards every cell holds `f` applied once per header occurrence covering it. -/
theorem project_cell' (σ : Store α) (g : SGeom α) (f : Pt α → Pt α) (a i : Nat) :
    cell (projectH σ g f).1 a i = (cell σ a i).map (iter f (coverCount (hdrs g) a i)) := by
  induction g using SGeom.ind generalizing σ a i with
  | h1 p => simp [projectH, hdrs, coverCount_nil, map_iter_zero]
  | h2 h => simp only [projectH, hdrs, cell_projHdr, coverCount_cons, coverCount_nil, Nat.add_zero]
  | h3 h => simp only [projectH, hdrs, cell_projHdr, coverCount_cons, coverCount_nil, Nat.add_zero]
  | h5 h => simp only [projectH, hdrs, cell_projHdr, coverCount_cons, coverCount_nil, Nat.add_zero]
  | h4 hs => simp only [projectH, hdrs, cell_projHdrs]
  | h6 hs => simp only [projectH, hdrs, cell_projHdrs]
  | h7 hss => simp only [projectH, hdrs, cell_projHdrss]
  | h8 lo hi => simp [projectH, hdrs, coverCount_nil, map_iter_zero]
  | hc gs ih =>
    simp only [projectH, hdrs]
    exact cell_projectHList f gs ih σ a i

/-! ### the returned value -/

theorem projectHList_snd (f : Pt α → Pt α) (gs : List (SGeom α))
    (ih : ∀ g ∈ gs, ∀ σ : Store α, (projectH σ g f).2 = retS f g) (σ : Store α) :
    (projectHList σ gs f).2 = retSList f gs := by
  induction gs generalizing σ with
  | nil => simp [projectHList, retSList]
  | cons g gs ihl =>
    simp only [projectHList, retSList]
    rw [ih g (by simp), ihl (fun g hg => ih g (List.mem_cons_of_mem _ hg))]

theorem projectH_snd' (σ : Store α) (g : SGeom α) (f : Pt α → Pt α) : (projectH σ g f).2 = retS f g := by
  induction g using SGeom.ind generalizing σ with
  | hc gs ih =>
    simp only [projectH, retS]
    rw [projectHList_snd f gs ih σ]
  | _ => simp [projectH, retS]

theorem hdrs_retS' (f : Pt α → Pt α) (g : SGeom α) : hdrs (retS f g) = hdrs g := by
  induction g using SGeom.ind with
  | hc gs ih =>
    simp only [retS, hdrs]
    induction gs with
    | nil => simp [retSList, hdrsList]
    | cons g gs ihl =>
      simp only [retSList, hdrsList]
      rw [ih g (by simp), ihl (fun g hg => ih g (List.mem_cons_of_mem _ hg))]
  | _ => simp [retS, hdrs]

/-! ### sizes -/

theorem length_projLoop (f : Pt α → Pt α) (a n i : Nat) (σ : Store α) :
    (projLoop f a i n σ).length = σ.length := by
  induction n generalizing i σ with
  | zero => rfl
  | succ n ih => simp only [projLoop]; rw [ih, length_upd]

theorem length_projHdrs (f : Pt α → Pt α) (hs : List Hdr) (σ : Store α) :
    (projHdrs f σ hs).length = σ.length := by
  induction hs generalizing σ with
  | nil => rfl
  | cons h hs ih => simp only [projHdrs]; rw [ih]; exact length_projLoop f _ _ _ σ

theorem length_projHdrss (f : Pt α → Pt α) (hss : List (List Hdr)) (σ : Store α) :
    (projHdrss f σ hss).length = σ.length := by
  induction hss generalizing σ with
  | nil => rfl
  | cons hs hss ih => simp only [projHdrss]; rw [ih, length_projHdrs]

theorem length_projectH' (σ : Store α) (g : SGeom α) (f : Pt α → Pt α) :
    (projectH σ g f).1.length = σ.length := by
  induction g using SGeom.ind generalizing σ with
  | h1 p => rfl
  | h2 h => exact length_projLoop f _ _ _ σ
  | h3 h => exact length_projLoop f _ _ _ σ
  | h5 h => exact length_projLoop f _ _ _ σ
  | h4 hs => exact length_projHdrs f hs σ
  | h6 hs => exact length_projHdrs f hs σ
  | h7 hss => exact length_projHdrss f hss σ
  | h8 lo hi => rfl
  | hc gs ih =>
    simp only [projectH]
    induction gs generalizing σ with
    | nil => rfl
    | cons g gs ihl =>
      simp only [projectHList]
      rw [ihl (fun g hg => ih g (List.mem_cons_of_mem _ hg)), ih g (by simp)]

/-- a list whose cells are the images of another list's cells has the same length -/
theorem length_eq_of_getElem?_map {β : Type} (l l' : List β) (F : Nat → β → β)
    (h : ∀ i, l'[i]? = (l[i]?).map (F i)) : l'.length = l.length := by
  apply Nat.le_antisymm
  · apply Nat.le_of_not_lt
    intro hlt
    have h1 := h l.length
    rw [List.getElem?_eq_none (Nat.le_refl _)] at h1
    rw [List.getElem?_eq_getElem hlt] at h1
    cases h1
  · apply Nat.le_of_not_lt
    intro hlt
    have h1 := h l'.length
    rw [List.getElem?_eq_none (Nat.le_refl _), List.getElem?_eq_getElem hlt] at h1
    cases h1

theorem read_length_projectH' (σ : Store α) (g : SGeom α) (f : Pt α → Pt α) (a : Nat) :
    (read (projectH σ g f).1 a).length = (read σ a).length :=
  length_eq_of_getElem?_map _ _ (fun i => iter f (coverCount (hdrs g) a i))
    (fun i => project_cell' σ g f a i)

/-! ### frame, in place, aliasing -/

theorem project_frame_cell' (σ : Store α) (g : SGeom α) (f : Pt α → Pt α) (a i : Nat)
    (h : coverCount (hdrs g) a i = 0) : cell (projectH σ g f).1 a i = cell σ a i := by
  rw [project_cell', h, map_iter_zero]

theorem coverCount_eq_zero_of_arr (hs : List Hdr) (a i : Nat) (h : ∀ x ∈ hs, x.arr ≠ a) :
    coverCount hs a i = 0 := by
  unfold coverCount
  rw [List.countP_eq_zero]
  intro x hx hc
  exact h x hx ((covers_iff x a i).1 hc).1

theorem project_frame' (σ : Store α) (g : SGeom α) (f : Pt α → Pt α) (a : Nat)
    (h : ∀ x ∈ hdrs g, x.arr ≠ a) : read (projectH σ g f).1 a = read σ a :=
  read_ext _ _ _ fun i => project_frame_cell' σ g f a i (coverCount_eq_zero_of_arr _ a i h)

/-- a slice all of whose cells are covered `k` times holds `f^k` of its old contents -/
theorem project_aliasing' (σ : Store α) (g : SGeom α) (f : Pt α → Pt α) (h : Hdr) (k : Nat)
    (hk : ∀ j, j < h.len → coverCount (hdrs g) h.arr (h.off + j) = k) :
    readH (projectH σ g f).1 h = (readH σ h).map (iter f k) := by
  apply List.ext_getElem?
  intro j
  rw [List.getElem?_map, getElem?_readH, getElem?_readH]
  by_cases hj : j < h.len
  · simp only [hj, if_true]
    rw [project_cell', hk j hj]
  · simp [hj]

theorem coverCount_pos_of_mem (hs : List Hdr) (h : Hdr) (hm : h ∈ hs) (j : Nat) (hj : j < h.len) :
    0 < coverCount hs h.arr (h.off + j) := by
  unfold coverCount
  rw [List.countP_pos_iff]
  exact ⟨h, hm, (covers_iff h _ _).2 ⟨rfl, by omega, by omega⟩⟩

theorem iter_one {β : Type} (f : β → β) : iter f 1 = f := rfl

theorem project_in_place_contents' (σ : Store α) (g : SGeom α) (f : Pt α → Pt α)
    (hno : NoOverlap g) (h : Hdr) (hm : h ∈ hdrs g) :
    readH (projectH σ g f).1 h = (readH σ h).map f := by
  have := project_aliasing' σ g f h 1 (fun j hj => by
    have h1 := coverCount_pos_of_mem (hdrs g) h hm j hj
    have h2 := hno h.arr (h.off + j)
    omega)
  rw [this, iter_one]

/-- the same slice twice (members of one polygon / multi-line-string, or of a collection): twice -/
theorem project_aliasing_same_twice' (σ : Store α) (f : Pt α → Pt α) (h : Hdr) (g : SGeom α)
    (hg : hdrs g = [h, h]) :
    readH (projectH σ g f).1 h = (readH σ h).map fun p => f (f p) := by
  have := project_aliasing' σ g f h 2 (fun j hj => by
    rw [hg, coverCount_cons, coverCount_cons, coverCount_nil,
      (covers_iff h h.arr (h.off + j)).2 ⟨rfl, by omega, by omega⟩]
    rfl)
  rw [this]
  rfl

/-- a slice and its own sub-slice `h[s : s+n]` (any capacity): the cells of the sub-slice twice, the
    others once -/
theorem project_aliasing_subslice' (σ : Store α) (f : Pt α → Pt α) (h : Hdr) (s n c : Nat) (g : SGeom α)
    (hg : hdrs g = [h, ⟨h.arr, h.off + s, n, c⟩]) (j : Nat) :
    (readH (projectH σ g f).1 h)[j]? =
      ((readH σ h)[j]?).map (iter f (if s ≤ j ∧ j < s + n then 2 else 1)) := by
  rw [getElem?_readH, getElem?_readH]
  by_cases hj : j < h.len
  · simp only [hj, if_true]
    rw [project_cell', hg, coverCount_cons, coverCount_cons, coverCount_nil,
      (covers_iff h h.arr (h.off + j)).2 ⟨rfl, by omega, by omega⟩]
    by_cases hs : s ≤ j ∧ j < s + n
    · rw [if_pos hs, (covers_iff ⟨h.arr, h.off + s, n, c⟩ h.arr (h.off + j)).2 ⟨rfl, by simp; omega, by simp; omega⟩]
      rfl
    · rw [if_neg hs]
      have : ¬ ((⟨h.arr, h.off + s, n, c⟩ : Hdr).covers h.arr (h.off + j) = true) := by
        intro hc
        have := (covers_iff _ _ _).1 hc
        simp at this
        omega
      simp [this]
  · simp [hj]

/-! ### link to the value-level model `Orb.Project.geometry` -/

theorem ptsM_pure (f : Pt α → Pt α) (l : List (Pt α)) :
    (Project.ptsM (σ := Unit) (fun p s => (f p, s)) l ()).1 = l.map f := by
  induction l with
  | nil => simp [Project.ptsM]
  | cons p ps ih => simp [Project.ptsM, ih]

theorem ptssM_pure (f : Pt α → Pt α) (ls : List (List (Pt α))) :
    (Project.ptssM (σ := Unit) (fun p s => (f p, s)) ls ()).1 = ls.map (·.map f) := by
  induction ls with
  | nil => simp [Project.ptssM]
  | cons l ls ih => simp [Project.ptssM, ih, ptsM_pure]

theorem ptsssM_pure (f : Pt α → Pt α) (ps : List (List (List (Pt α)))) :
    (Project.ptsssM (σ := Unit) (fun p s => (f p, s)) ps ()).1 = ps.map (·.map (·.map f)) := by
  induction ps with
  | nil => simp [Project.ptsssM]
  | cons l ls ih => simp [Project.ptsssM, ih, ptssM_pure]

theorem geometry_collection (f : Pt α → Pt α) (gs : List (Geom α)) :
    Project.geometry f (.collection gs) = .collection (gs.map (Project.geometry f)) := by
  unfold Project.geometry
  simp only [Project.geometryM]
  congr 1
  induction gs with
  | nil => simp [Project.geometryM.go]
  | cons g gs ih => simp only [Project.geometryM.go, List.map_cons]; rw [← ih]

theorem retSList_eq_map (f : Pt α → Pt α) (gs : List (SGeom α)) : retSList f gs = gs.map (retS f) := by
  induction gs with
  | nil => rfl
  | cons g gs ih => simp [retSList, ih]

theorem mem_hdrsList (gs : List (SGeom α)) (g : SGeom α) (hg : g ∈ gs) (h : Hdr) (hh : h ∈ hdrs g) :
    h ∈ hdrsList gs := by
  induction gs with
  | nil => cases hg
  | cons g' gs ih =>
    simp only [hdrsList, List.mem_append]
    rcases List.mem_cons.1 hg with rfl | hg
    · exact Or.inl hh
    · exact Or.inr (ih hg)

/-- whenever every slice of `g` reads `map f` of what it read before, the returned headers denote
    the value-level projection -/
theorem denote_retS (σ σ' : Store α) (f : Pt α → Pt α) (g : SGeom α)
    (h : ∀ x ∈ hdrs g, readH σ' x = (readH σ x).map f) :
    denoteS σ' (retS f g) = Project.geometry f (denoteS σ g) := by
  induction g using SGeom.ind with
  | h1 p => simp [retS, denoteS, Project.geometry, Project.geometryM]
  | h2 x => simp [retS, denoteS, Project.geometry, Project.geometryM, ptsM_pure, h x (by simp [hdrs])]
  | h3 x => simp [retS, denoteS, Project.geometry, Project.geometryM, ptsM_pure, h x (by simp [hdrs])]
  | h5 x => simp [retS, denoteS, Project.geometry, Project.geometryM, ptsM_pure, h x (by simp [hdrs])]
  | h4 hs =>
    simp only [retS, denoteS, Project.geometry, Project.geometryM, ptssM_pure, List.map_map]
    congr 1
    exact List.map_congr_left fun x hx => h x (by simpa [hdrs] using hx)
  | h6 hs =>
    simp only [retS, denoteS, Project.geometry, Project.geometryM, ptssM_pure, List.map_map]
    congr 1
    exact List.map_congr_left fun x hx => h x (by simpa [hdrs] using hx)
  | h7 hss =>
    simp only [retS, denoteS, Project.geometry, Project.geometryM, ptsssM_pure, List.map_map]
    congr 1
    apply List.map_congr_left
    intro hs hhs
    simp only [Function.comp, List.map_map]
    exact List.map_congr_left fun x hx => h x (List.mem_flatten.2 ⟨hs, hhs, hx⟩)
  | h8 lo hi => simp [retS, denoteS, Project.geometry, Project.geometryM]
  | hc gs ih =>
    simp only [retS, denoteS]
    rw [geometry_collection, denoteSList_eq_map, denoteSList_eq_map, retSList_eq_map, List.map_map, List.map_map]
    congr 1
    apply List.map_congr_left
    intro g hg
    exact ih g hg fun x hx => h x (mem_hdrsList gs g hg x hx)

theorem project_denote' (σ : Store α) (g : SGeom α) (f : Pt α → Pt α) (hno : NoOverlap g) :
    denoteS (projectH σ g f).1 (projectH σ g f).2 = Project.geometry f (denoteS σ g) := by
  rw [projectH_snd']
  exact denote_retS σ _ f g fun x hx => project_in_place_contents' σ g f hno x hx

end project

end Orb.HeapOps
