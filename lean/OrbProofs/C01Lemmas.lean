/-
  Helper lemmas for C01.  The primed statements are re-exported by OrbProofs/C01.lean.
-/
import OrbProofs.C01Consume

namespace Orb.WKB
open Orb Generated.Params

/-! ### spec-side vocabulary -/

/-- every slice length fits the 32-bit count field of the format -/
def WF32 : G → Prop
  | .point _ => True
  | .multiPoint ps => ps.length < 2^32
  | .lineString ps => ps.length < 2^32
  | .ring ps => ps.length < 2^32
  | .multiLineString ls => ls.length < 2^32 ∧ ∀ l ∈ ls, l.length < 2^32
  | .polygon rs => rs.length < 2^32 ∧ ∀ r ∈ rs, r.length < 2^32
  | .multiPolygon ps => ps.length < 2^32 ∧ ∀ p ∈ ps, p.length < 2^32 ∧ ∀ r ∈ p, r.length < 2^32
  | .bound _ _ => True
  | .collection gs => gs.length < 2^32 ∧ ∀ g ∈ gs, WF32 g

/-! ### stream decoder and byte decoder on encoder output -/

theorem decodeWith_enc (coll : Order → Bytes → R (List G × Bytes)) (o : Order) (srid : Nat) (g : G)
    (rest : Bytes) (hw : WF32 g) (hs : srid < 2 ^ 32)
    (hcoll : ∀ gs, g = .collection gs → coll o (body o g ++ rest) = .ok (canon.canonList gs, rest)) :
    decodeWith coll (encGeom o srid g ++ rest) = .ok (canon g, srid, rest) := by
  rw [encGeom_eq, List.cons_append, List.append_assoc]
  unfold decodeWith
  rw [readBOT_hdr o _ srid _ (tcode_TC g) hs]
  cases g with
  | point p =>
    simp [tcode, body, wkb_pointType, readPoint_encPt, canon]
  | multiPoint ps =>
    simp only [WF32] at hw
    simp [tcode, body, wkb_pointType, wkb_multiPointType, readU32_u32' _ _ _ hw, readMembers_points, canon]
  | lineString ps =>
    simp only [WF32] at hw
    simp [tcode, body, wkb_pointType, wkb_multiPointType, wkb_lineStringType, readLineString_enc _ _ _ hw, canon]
  | multiLineString ls =>
    simp only [WF32] at hw
    simp [tcode, body, wkb_pointType, wkb_multiPointType, wkb_lineStringType, wkb_multiLineStringType,
      readU32_u32' _ _ _ hw.1, readMembers_lineStrings _ _ _ hw.2, canon]
  | ring r =>
    simp only [WF32] at hw
    simp [tcode, body, wkb_pointType, wkb_multiPointType, wkb_lineStringType, wkb_multiLineStringType,
      wkb_polygonType, canon]
    rw [readPolygon_enc o [r] rest (by simp) (by simpa using hw)]
  | polygon rs =>
    simp only [WF32] at hw
    simp [tcode, body, wkb_pointType, wkb_multiPointType, wkb_lineStringType, wkb_multiLineStringType,
      wkb_polygonType, canon, readPolygon_enc o rs rest hw.1 hw.2]
  | multiPolygon ps =>
    simp only [WF32] at hw
    simp [tcode, body, wkb_pointType, wkb_multiPointType, wkb_lineStringType, wkb_multiLineStringType,
      wkb_polygonType, wkb_multiPolygonType, canon, readU32_u32' _ _ _ hw.1, readMembers_polygons _ _ _ hw.2]
  | bound a b =>
    simp [tcode, body, wkb_pointType, wkb_multiPointType, wkb_lineStringType, wkb_multiLineStringType,
      wkb_polygonType, canon]
    rw [readPolygon_enc o [boundRing a b] rest (by simp) (by simp [boundRing])]
  | collection gs =>
    have := hcoll gs rfl
    simp [tcode, wkb_pointType, wkb_multiPointType, wkb_lineStringType, wkb_multiLineStringType,
      wkb_polygonType, wkb_multiPolygonType, wkb_geometryCollectionType, canon, this]

theorem encList_length_mem (o : Order) (gs : List G) (g : G) (h : g ∈ gs) :
    (encGeom o 0 g).length ≤ (encGeom.encList o gs).length := by
  induction gs with
  | nil => cases h
  | cons x xs ih =>
    simp only [encGeom.encList, List.length_append]
    rcases List.mem_cons.1 h with h | h
    · subst h; omega
    · have := ih h; omega

theorem collLoop_enc (dec : Bytes → R (G × Nat × Bytes)) (o : Order) (gs : List G) (rest : Bytes)
    (h : ∀ g ∈ gs, ∀ rest', dec (encGeom o 0 g ++ rest') = .ok (canon g, 0, rest')) :
    collLoop dec gs.length (encGeom.encList o gs ++ rest) = .ok (canon.canonList gs, rest) := by
  induction gs with
  | nil => rfl
  | cons x xs ih =>
    have ih' := ih (fun y hy => h y (by simp [hy]))
    simp only [encGeom.encList, List.length_cons, collLoop, List.append_assoc, h x (by simp), ih',
      canon.canonList]

theorem readCollectionF_enc (fuel : Nat) : ∀ (o : Order) (gs : List G) (rest : Bytes),
    gs.length < 2 ^ 32 → (∀ g ∈ gs, WF32 g) → 4 + (encGeom.encList o gs).length ≤ fuel →
    readCollectionF fuel o (u32 o gs.length ++ (encGeom.encList o gs ++ rest)) =
      .ok (canon.canonList gs, rest) := by
  induction fuel with
  | zero => intro o gs rest _ _ h; omega
  | succ fuel ih =>
    intro o gs rest hl hw hf
    simp only [readCollectionF, readU32_u32' _ _ _ hl]
    apply collLoop_enc
    intro g hg rest'
    apply decodeWith_enc _ o 0 g rest' (hw g hg) (by decide)
    intro gs' hgs'
    subst hgs'
    have hwg := hw _ hg
    simp only [WF32] at hwg
    simp only [body, List.append_assoc]
    apply ih o gs' rest' hwg.1 hwg.2
    have h1 := encList_length_mem o gs _ hg
    rw [encGeom_eq] at h1
    simp only [body, tcode, hdr_zero, List.length_cons, List.length_append, u32_length] at h1
    omega


theorem decodeStream_enc_aux (o : Order) (srid : Nat) (g : G) (hw : WF32 g) (hs : srid < 2^32) (rest : Bytes)
    (fuel : Nat) (hf : (encGeom o srid g).length ≤ fuel) :
    decodeStream fuel (encGeom o srid g ++ rest) = .ok (canon g, srid, rest) := by
  unfold decodeStream
  apply decodeWith_enc _ o srid g rest hw hs
  intro gs hgs
  subst hgs
  simp only [WF32] at hw
  simp only [body, List.append_assoc]
  apply readCollectionF_enc fuel o gs rest hw.1 hw.2
  rw [encGeom_eq] at hf
  have := hdr_length_ge o (tcode (Geom.collection gs)) srid
  simp only [body, List.length_cons, List.length_append, u32_length] at hf
  omega

theorem decode_enc_aux (o : Order) (srid : Nat) (g : G) (hw : WF32 g) (hs : srid < 2^32) :
    decode (encGeom o srid g) = .ok (canon g, srid) := by
  have := decodeStream_enc_aux o srid g hw hs [] _ (Nat.le_refl _)
  rw [List.append_nil] at this
  simp only [decode, this]

theorem unmarshal_enc_aux (o : Order) (srid : Nat) (g : G) (hw : WF32 g) (hs : srid < 2^32) :
    unmarshal (encGeom o srid g) = .ok (canon g, srid) := by
  have hd := decode_enc_aux o srid g hw hs
  obtain ⟨n, hn⟩ := encGeom_length_succ o srid g
  unfold unmarshal
  rw [unmarshalBOT_enc o srid g hs]
  simp only []
  rw [hn]
  cases g with
  | point p =>
    have := unmarshalPoint_encPt o p []
    simp only [List.append_nil] at this
    simp [tcode, body, wkb_pointType, canon, this]
  | multiPoint ps =>
    simp only [WF32] at hw
    have := unmarshalMultiPoint_enc n o ps [] hw
    simp only [List.append_nil] at this
    simp [tcode, body, wkb_pointType, wkb_multiPointType, canon, this]
  | lineString ps =>
    simp only [WF32] at hw
    have := unmarshalPoints_enc o ps [] hw
    simp only [List.append_nil] at this
    simp [tcode, body, wkb_pointType, wkb_multiPointType, wkb_lineStringType, canon, this]
  | multiLineString ls =>
    simp only [WF32] at hw
    have := unmarshalMultiLineString_enc n o ls [] hw.1 hw.2
    simp only [List.append_nil] at this
    simp [tcode, body, wkb_pointType, wkb_multiPointType, wkb_lineStringType, wkb_multiLineStringType,
      canon, this]
  | ring r =>
    simp only [WF32] at hw
    have := unmarshalPolygon_enc o [r] [] (by simp) (by simpa using hw)
    simp only [List.append_nil] at this
    simp [tcode, body, wkb_pointType, wkb_multiPointType, wkb_lineStringType, wkb_multiLineStringType,
      wkb_polygonType, canon, this]
  | polygon rs =>
    simp only [WF32] at hw
    have := unmarshalPolygon_enc o rs [] hw.1 hw.2
    simp only [List.append_nil] at this
    simp [tcode, body, wkb_pointType, wkb_multiPointType, wkb_lineStringType, wkb_multiLineStringType,
      wkb_polygonType, canon, this]
  | multiPolygon ps =>
    simp only [WF32] at hw
    have := unmarshalMultiPolygon_enc n o ps [] hw.1 hw.2
    simp only [List.append_nil] at this
    simp [tcode, body, wkb_pointType, wkb_multiPointType, wkb_lineStringType, wkb_multiLineStringType,
      wkb_polygonType, wkb_multiPolygonType, canon, this]
  | bound a b =>
    have := unmarshalPolygon_enc o [boundRing a b] [] (by simp) (by simp [boundRing])
    simp only [List.append_nil] at this
    simp [tcode, body, wkb_pointType, wkb_multiPointType, wkb_lineStringType, wkb_multiLineStringType,
      wkb_polygonType, canon, this]
  | collection gs =>
    simp [tcode, wkb_pointType, wkb_multiPointType, wkb_lineStringType, wkb_multiLineStringType,
      wkb_polygonType, wkb_multiPolygonType, wkb_geometryCollectionType, hd]

/-! ### the Scan table -/

theorem scanDest_table (bnd : BoundFn) (d : Dest) (o : Order) (srid : Nat) (g : G) (hw : WF32 g)
    (hs : srid < 2^32) :
    scanDest bnd d (encGeom o srid g) =
      (match coerce bnd d (canon g) with
       | some v => .ok (v, srid)
       | none => .err .incorrectGeometry) := by
  have hu := unmarshal_enc_aux o srid g hw hs
  have hd := decode_enc_aux o srid g hw hs
  have hb := unmarshalBOT_enc o srid g hs
  obtain ⟨n, hn⟩ := encGeom_length_succ o srid g
  cases d with
  | any => simp only [scanDest, hu, coerce]
  | point =>
    simp only [scanDest, hn, scanPoint_def]
    cases g with
    | point p =>
      rw [scanSingle_enc_single 1 4 _ _ o srid _ p hs rfl (body_point o p)]
      simp [canon, coerce]
    | multiPoint ps =>
      simp only [WF32] at hw
      rw [scanSingle_enc_multi 1 4 _ _ o srid _ ps hs rfl (by decide) (body_multiPoint n o ps hw)]
      match ps with
      | [] => simp [canon, coerce]
      | [_] => simp [canon, coerce]
      | _ :: _ :: _ => simp [canon, coerce]
    | lineString _ | multiLineString _ | ring _ | polygon _ | multiPolygon _ | bound _ _ | collection _ =>
      rw [scanSingle_enc_other 1 4 _ _ o srid _ hs (by simp [tcode]) (by simp [tcode])]
      simp [canon, coerce]
  | multiPoint =>
    simp only [scanDest, hu]
    cases g <;> simp [canon, coerce]
  | lineString =>
    simp only [scanDest, hn, scanLineString_def]
    cases g with
    | lineString ps =>
      simp only [WF32] at hw
      rw [scanSingle_enc_single 2 5 _ _ o srid _ ps hs rfl (body_lineString o ps hw)]
      simp [canon, coerce]
    | multiLineString ls =>
      simp only [WF32] at hw
      rw [scanSingle_enc_multi 2 5 _ _ o srid _ ls hs rfl (by decide) (body_multiLineString n o ls hw.1 hw.2)]
      match ls with
      | [] => simp [canon, coerce]
      | [_] => simp [canon, coerce]
      | _ :: _ :: _ => simp [canon, coerce]
    | point _ | multiPoint _ | ring _ | polygon _ | multiPolygon _ | bound _ _ | collection _ =>
      rw [scanSingle_enc_other 2 5 _ _ o srid _ hs (by simp [tcode]) (by simp [tcode])]
      simp [canon, coerce]
  | multiLineString =>
    simp only [scanDest, hb, hn]
    cases g with
    | lineString ps =>
      simp only [WF32] at hw
      simp [tcode, wkb_lineStringType, body_lineString o ps hw, canon, coerce]
    | multiLineString ls =>
      simp only [WF32] at hw
      simp [tcode, wkb_lineStringType, wkb_multiLineStringType, body_multiLineString n o ls hw.1 hw.2,
        canon, coerce]
    | point _ | multiPoint _ | ring _ | polygon _ | multiPolygon _ | bound _ _ | collection _ =>
      simp [tcode, wkb_lineStringType, wkb_multiLineStringType, canon, coerce]
  | ring =>
    simp only [scanDest, hu]
    cases g with
    | polygon rs =>
      match rs with
      | [] => simp [canon, coerce]
      | [_] => simp [canon, coerce]
      | _ :: _ :: _ => simp [canon, coerce]
    | _ => simp [canon, coerce]
  | polygon =>
    simp only [scanDest, hn, scanPolygon_def]
    cases g with
    | ring r =>
      simp only [WF32] at hw
      rw [scanSingle_enc_single 3 6 _ _ o srid _ [r] hs rfl (body_ring o r hw)]
      simp [canon, coerce]
    | polygon rs =>
      simp only [WF32] at hw
      rw [scanSingle_enc_single 3 6 _ _ o srid _ rs hs rfl (body_polygon o rs hw.1 hw.2)]
      simp [canon, coerce]
    | bound a b =>
      rw [scanSingle_enc_single 3 6 _ _ o srid _ [boundRing a b] hs rfl (body_bound o a b)]
      simp [canon, coerce]
    | multiPolygon ps =>
      simp only [WF32] at hw
      rw [scanSingle_enc_multi 3 6 _ _ o srid _ ps hs rfl (by decide) (body_multiPolygon n o ps hw.1 hw.2)]
      match ps with
      | [] => simp [canon, coerce]
      | [_] => simp [canon, coerce]
      | _ :: _ :: _ => simp [canon, coerce]
    | point _ | multiPoint _ | lineString _ | multiLineString _ | collection _ =>
      rw [scanSingle_enc_other 3 6 _ _ o srid _ hs (by simp [tcode]) (by simp [tcode])]
      simp [canon, coerce]
  | multiPolygon =>
    simp only [scanDest, hb, hn]
    cases g with
    | ring r =>
      simp only [WF32] at hw
      simp [tcode, wkb_polygonType, body_ring o r hw, canon, coerce]
    | polygon rs =>
      simp only [WF32] at hw
      simp [tcode, wkb_polygonType, body_polygon o rs hw.1 hw.2, canon, coerce]
    | bound a b =>
      simp [tcode, wkb_polygonType, body_bound o a b, canon, coerce]
    | multiPolygon ps =>
      simp only [WF32] at hw
      simp [tcode, wkb_polygonType, wkb_multiPolygonType, body_multiPolygon n o ps hw.1 hw.2, canon, coerce]
    | point _ | multiPoint _ | lineString _ | multiLineString _ | collection _ =>
      simp [tcode, wkb_polygonType, wkb_multiPolygonType, canon, coerce]
  | collection =>
    simp only [scanDest, hd]
    cases g <;> simp [canon, coerce]
  | bound =>
    simp only [scanDest, hu, coerce]

/-! ### non-WKB first byte: every destination reports ErrNotWKBHeader -/

theorem unmarshalBOT_badhdr (b0 : UInt8) (tl : Bytes) (h0 : b0 ≠ 0) (h1 : b0 ≠ 1) (hl : 5 ≤ tl.length) :
    unmarshalBOT (b0 :: tl) = .err .notWKBHeader := by
  have : ¬ (b0 :: tl).length < 6 := by simp only [List.length_cons]; omega
  simp only [unmarshalBOT, byteOrderType, if_neg this, if_neg h0, if_neg h1]

theorem readBOT_badhdr (b0 : UInt8) (tl : Bytes) (h0 : b0 ≠ 0) (h1 : b0 ≠ 1) :
    readBOT (b0 :: tl) = .err .notWKBHeader := by
  simp only [readBOT, if_neg h0, if_neg h1]

theorem scanDest_badhdr (bnd : BoundFn) (d : Dest) (b0 : UInt8) (tl : Bytes) (h0 : b0 ≠ 0) (h1 : b0 ≠ 1)
    (hl : 5 ≤ tl.length) : scanDest bnd d (b0 :: tl) = .err .notWKBHeader := by
  have hb := unmarshalBOT_badhdr b0 tl h0 h1 hl
  have hr := readBOT_badhdr b0 tl h0 h1
  cases d <;>
    simp only [scanDest, unmarshal, scanPoint, scanLineString, scanPolygon, scanSingle, decode, decodeStream,
      decodeWith, hb, hr]

theorem u32_little_shape (p : Nat) (hp : p < 2 ^ 32) :
    ∃ b1 b2 b3, u32 .little p = [UInt8.ofNat (p % 256), b1, b2, b3] := by
  simp only [u32, Nat.mod_eq_of_lt hp, leBytes]
  exact ⟨_, _, _, rfl⟩

theorem ofNat_mod_ne (p : Nat) (c : Nat) (hc : c < 256) (h : p % 256 ≠ c) : UInt8.ofNat (p % 256) ≠ UInt8.ofNat c := by
  intro he
  have := congrArg UInt8.toNat he
  simp only [UInt8.toNat_ofNat'] at this
  omega

/-! ### the property theorems (statements fixed; re-exported by C01.lean) -/

theorem encode_nil' (o : Order) (srid : Nat) (k : Kind) :
    encode o srid .nilIface = [] ∧ encode o srid (.nilSlice k) = [] := by
  exact ⟨rfl, rfl⟩

theorem unmarshal_encode' (o : Order) (srid : Nat) (g : G) (hw : WF32 g) (hs : srid < 2^32) :
    unmarshal (encGeom o srid g) = .ok (canon g, srid) := by
  exact unmarshal_enc_aux o srid g hw hs

theorem decodeStream_encode' (o : Order) (srid : Nat) (g : G) (hw : WF32 g) (hs : srid < 2^32) (rest : Bytes)
    (fuel : Nat) (hf : (encGeom o srid g).length ≤ fuel) :
    decodeStream fuel (encGeom o srid g ++ rest) = .ok (canon g, srid, rest) := by
  exact decodeStream_enc_aux o srid g hw hs rest fuel hf

theorem decode_encode' (o : Order) (srid : Nat) (g : G) (hw : WF32 g) (hs : srid < 2^32) :
    decode (encGeom o srid g) = .ok (canon g, srid) := by
  exact decode_enc_aux o srid g hw hs

theorem scan_table' (bnd : BoundFn) (d : Dest) (o : Order) (srid : Nat) (g : G) (hw : WF32 g) (hs : srid < 2^32) :
    scan bnd d (encGeom o srid g) =
      (match coerce bnd d (canon g) with
       | some v => .ok (v, srid)
       | none => .err .incorrectGeometry) := by
  rw [scan_enc]
  exact scanDest_table bnd d o srid g hw hs

theorem paths_agree' (bnd : BoundFn) (o : Order) (srid : Nat) (g : G) (hw : WF32 g) (hs : srid < 2^32) :
    unmarshal (encGeom o srid g) = decode (encGeom o srid g) ∧
    scan bnd .any (encGeom o srid g) = unmarshal (encGeom o srid g) := by
  refine ⟨?_, ?_⟩
  · rw [unmarshal_enc_aux o srid g hw hs, decode_enc_aux o srid g hw hs]
  · rw [scan_enc]; rfl

theorem framing_hex' (bnd : BoundFn) (d : Dest) (upper : Bool) (o : Order) (srid : Nat) (g : G) :
    scan bnd d (hexEncode upper (encGeom o srid g)) = scan bnd d (encGeom o srid g) := by
  rw [scan_hex_enc, scan_enc]

theorem framing_bslash_x' (bnd : BoundFn) (d : Dest) (o : Order) (srid : Nat) (g : G) :
    scan bnd d (92 :: 120 :: hexEncode false (encGeom o srid g)) = scan bnd d (encGeom o srid g) := by
  rw [scan_bslash_enc, scan_enc]

theorem framing_prefix_ewkb' (bnd : BoundFn) (d : Dest) (o : Order) (srid p : Nat) (g : G) (hw : WF32 g)
    (hs : srid < 2^32) (hp : p < 2^32) :
    ewkbScan bnd true d (u32 .little p ++ encGeom o srid g) =
      (match coerce bnd d (canon g) with
       | some v => .ok (v, if srid ≠ 0 then srid else p)
       | none => .err .incorrectGeometry) := by
  obtain ⟨n, hn⟩ := encGeom_length_succ o srid g
  have hlen : ¬ (u32 .little p ++ encGeom o srid g).length < 5 := by
    simp only [List.length_append, u32_length, hn]; omega
  simp only [ewkbScan, if_true, if_neg hlen, drop_u32, scan_table' bnd d o srid g hw hs,
    rd32_u32' _ _ _ hp]
  cases coerce bnd d (canon g) <;> rfl

/-- no hex framing is detected ⇒ `Scan` leaves the caller's buffer as it was -/
theorem scanBuf_raw (a b : UInt8) (t : Bytes) (h92 : a ≠ 92) (h48 : a ≠ 48) :
    scanBuf (a :: b :: t) = a :: b :: t := by
  simp [scanBuf, h92, h48]

theorem framing_prefix_wkb_partial' (bnd : BoundFn) (d : Dest) (o : Order) (p : Nat) (g : G) (hw : WF32 g)
    (hp : p < 2^32) (h0 : p % 256 ≠ 0) (h1 : p % 256 ≠ 1) (h2 : p % 256 ≠ 48) (h3 : p % 256 ≠ 92) :
    wkbScan bnd d (u32 .little p ++ encGeom o 0 g) =
      (match coerce bnd d (canon g) with
       | some v => .ok v
       | none => .err .incorrectGeometry) := by
  obtain ⟨b1, b2, b3, hu⟩ := u32_little_shape p hp
  obtain ⟨n, hn⟩ := encGeom_length_succ o 0 g
  obtain ⟨c1, tl, he, hl⟩ := encGeom_shape o 0 g
  have hscan : scan bnd d (u32 .little p ++ encGeom o 0 g) = .err .notWKBHeader := by
    rw [hu]
    simp only [List.cons_append, List.nil_append]
    rw [scan_raw bnd d _ _ _ (ofNat_mod_ne p 92 (by decide) h3) (ofNat_mod_ne p 48 (by decide) h2)
      (by simp only [List.length_cons, hn]; omega)]
    exact scanDest_badhdr bnd d _ _ (ofNat_mod_ne p 0 (by decide) h0) (ofNat_mod_ne p 1 (by decide) h1)
      (by simp only [List.length_cons, he]; omega)
  have hbuf : scanBuf (u32 .little p ++ encGeom o 0 g) = u32 .little p ++ encGeom o 0 g := by
    rw [hu]
    simp only [List.cons_append, List.nil_append]
    exact scanBuf_raw _ _ _ (ofNat_mod_ne p 92 (by decide) h3) (ofNat_mod_ne p 48 (by decide) h2)
  simp only [wkbScan, hscan, hbuf, sliceFrom_append _ _ _ (u32_length .little p),
    scan_table' bnd d o 0 g hw (by decide)]
  cases coerce bnd d (canon g) <;> rfl

theorem wkbScan_prefix_witness' (bnd : BoundFn) :
    ∃ v, wkbScan bnd .any (u32 .little 256 ++ encGeom .little 0 (.point ⟨0x3ff0000000000000, 0x4000000000000000⟩)) = .ok v ∧
      v ≠ .point ⟨0x3ff0000000000000, 0x4000000000000000⟩ := by
  refine ⟨.point ⟨0x0100000000000000, 0x0000f03f00000000⟩, by rfl, ?_⟩
  intro h
  injection h with h
  injection h with h _
  exact absurd h (by decide)

/-! ### inversion: everything a decoder returns is canonical and fits the 32-bit counts -/

theorem unmarshalBOT_srid {buf : Bytes} {o : Order} {t srid : Nat} {gd : Bytes}
    (h : unmarshalBOT buf = .ok (o, t, srid, gd)) : srid < 2 ^ 32 := by
  unfold unmarshalBOT at h
  split at h
  · split at h
    · injection h with h; injection h with _ h; injection h with _ h; injection h with h _
      subst h; decide
    · split at h
      · contradiction
      · injection h with h; injection h with _ h; injection h with _ h; injection h with h _
        subst h; exact rd32_lt _ _
  · contradiction
  · contradiction

theorem readPts_length (o : Order) (n : Nat) : ∀ data, (readPts o data n).length = n := by
  induction n with
  | zero => intro; rfl
  | succ n ih => intro data; simp only [readPts, List.length_cons, ih]

theorem unmarshalPoints_ok {o : Order} {data : Bytes} {ps : List (Pt UInt64)}
    (h : unmarshalPoints o data = .ok ps) : ps.length < 2 ^ 32 := by
  unfold unmarshalPoints at h
  split at h
  · contradiction
  · simp only [] at h
    split at h
    · contradiction
    · injection h with h
      subst h
      rw [readPts_length]
      exact rd32_lt _ _

theorem unmarshalPolygon_loop_ok {o : Order} (n : Nat) : ∀ {data : Bytes} {rs : List (List (Pt UInt64))},
    unmarshalPolygon.loop o n data = .ok rs → rs.length = n ∧ ∀ r ∈ rs, r.length < 2 ^ 32 := by
  induction n with
  | zero =>
    intro data rs h
    simp only [unmarshalPolygon.loop] at h
    injection h with h; subst h; simp
  | succ n ih =>
    intro data rs h
    simp only [unmarshalPolygon.loop] at h
    split at h
    · rename_i ps hps
      split at h
      · rename_i rest hrest
        split at h
        · rename_i rs' hrs'
          injection h with h
          subst h
          have := ih hrs'
          have hp := unmarshalPoints_ok hps
          refine ⟨by simp [this.1], ?_⟩
          intro r hr
          rcases List.mem_cons.1 hr with hr | hr
          · subst hr; exact hp
          · exact this.2 r hr
        all_goals contradiction
      all_goals contradiction
    all_goals contradiction


theorem unmarshalPolygon_ok {o : Order} {data : Bytes} {rs : List (List (Pt UInt64))}
    (h : unmarshalPolygon o data = .ok rs) : rs.length < 2 ^ 32 ∧ ∀ r ∈ rs, r.length < 2 ^ 32 := by
  unfold unmarshalPolygon at h
  split at h
  · contradiction
  · have := unmarshalPolygon_loop_ok _ h
    exact ⟨by rw [this.1]; exact rd32_lt _ _, this.2⟩

theorem memberLoop_ok {β : Type} (P : β → Prop) (scan : Bytes → R (β × Nat)) (stride : β → Nat)
    (hscan : ∀ d x s, scan d = .ok (x, s) → P x) (n : Nat) : ∀ {data : Bytes} {xs : List β},
    memberLoop scan stride n data = .ok xs → xs.length = n ∧ ∀ x ∈ xs, P x := by
  induction n with
  | zero =>
    intro data xs h
    simp only [memberLoop] at h
    injection h with h; subst h; simp
  | succ n ih =>
    intro data xs h
    simp only [memberLoop] at h
    split at h
    · rename_i x s hx
      split at h
      · rename_i rest hrest
        split at h
        · rename_i xs' hxs'
          injection h with h
          subst h
          have := ih hxs'
          have hp := hscan _ _ _ hx
          refine ⟨by simp [this.1], ?_⟩
          intro y hy
          rcases List.mem_cons.1 hy with hy | hy
          · subst hy; exact hp
          · exact this.2 y hy
        all_goals contradiction
      all_goals contradiction
    all_goals contradiction

theorem scanSingle_ok {β : Type} (P : β → Prop) (tS tM : Nat) (single : Order → Bytes → R β)
    (multi : Order → Bytes → R (List β))
    (hsingle : ∀ o d x, single o d = .ok x → P x)
    (hmulti : ∀ o d xs, multi o d = .ok xs → ∀ x ∈ xs, P x)
    {data : Bytes} {x : β} {s : Nat} (h : scanSingle tS tM single multi data = .ok (x, s)) : P x := by
  unfold scanSingle at h
  split at h
  · split at h
    · split at h
      · rename_i p hp
        injection h with h; injection h with h _; subst h
        exact hsingle _ _ _ hp
      all_goals contradiction
    · split at h
      · split at h
        · rename_i p hp
          injection h with h; injection h with h _; subst h
          exact hmulti _ _ _ hp _ (by simp)
        all_goals contradiction
      · contradiction
  all_goals contradiction

theorem unmarshalMultiF_ok {β : Type} (P : β → Prop) (tS tM : Nat) (single : Order → Bytes → R β)
    (stride : β → Nat) (hsingle : ∀ o d x, single o d = .ok x → P x) (fuel : Nat) :
    ∀ (o : Order) (data : Bytes) (xs : List β),
    unmarshalMultiF tS tM single stride fuel o data = .ok xs → xs.length < 2 ^ 32 ∧ ∀ x ∈ xs, P x := by
  induction fuel with
  | zero => intro o data xs h; simp only [unmarshalMultiF] at h; contradiction
  | succ fuel ih =>
    intro o data xs h
    simp only [unmarshalMultiF] at h
    split at h
    · contradiction
    · have := memberLoop_ok P _ _ (fun d x s hx =>
        scanSingle_ok P tS tM single _ hsingle (fun o d xs hxs => (ih o d xs hxs).2) hx) _ h
      exact ⟨by rw [this.1]; exact rd32_lt _ _, this.2⟩

/-! stream side -/

theorem readU32_ok {o : Order} {s r : Bytes} {n : Nat} (h : readU32 o s = .ok (n, r)) : n < 2 ^ 32 := by
  unfold readU32 at h
  split at h
  · injection h with h; injection h with h _; subst h; exact rd32_lt _ _
  all_goals contradiction

theorem readPtsLoop_ok {o : Order} (n : Nat) : ∀ {s r : Bytes} {ps : List (Pt UInt64)},
    readPtsLoop o n s = .ok (ps, r) → ps.length = n := by
  induction n with
  | zero =>
    intro s r ps h
    simp only [readPtsLoop] at h
    injection h with h; injection h with h _; subst h; rfl
  | succ n ih =>
    intro s r ps h
    simp only [readPtsLoop] at h
    split at h
    · split at h
      · rename_i hps
        injection h with h; injection h with h _; subst h
        simp [ih hps]
      all_goals contradiction
    all_goals contradiction

theorem readLineString_ok {o : Order} {s r : Bytes} {ps : List (Pt UInt64)}
    (h : readLineString o s = .ok (ps, r)) : ps.length < 2 ^ 32 := by
  unfold readLineString at h
  split at h
  · rename_i hn
    rw [readPtsLoop_ok _ h]; exact readU32_ok hn
  all_goals contradiction

theorem readRingsLoop_ok {o : Order} (n : Nat) : ∀ {s r : Bytes} {rs : List (List (Pt UInt64))},
    readRingsLoop o n s = .ok (rs, r) → rs.length = n ∧ ∀ x ∈ rs, x.length < 2 ^ 32 := by
  induction n with
  | zero =>
    intro s r rs h
    simp only [readRingsLoop] at h
    injection h with h; injection h with h _; subst h; simp
  | succ n ih =>
    intro s r rs h
    simp only [readRingsLoop] at h
    split at h
    · rename_i hx
      split at h
      · rename_i hrs
        injection h with h; injection h with h _; subst h
        have := ih hrs
        have hp := readLineString_ok hx
        refine ⟨by simp [this.1], ?_⟩
        intro y hy
        rcases List.mem_cons.1 hy with hy | hy
        · subst hy; exact hp
        · exact this.2 y hy
      all_goals contradiction
    all_goals contradiction

theorem readPolygon_ok {o : Order} {s r : Bytes} {rs : List (List (Pt UInt64))}
    (h : readPolygon o s = .ok (rs, r)) : rs.length < 2 ^ 32 ∧ ∀ x ∈ rs, x.length < 2 ^ 32 := by
  unfold readPolygon at h
  split at h
  · rename_i hn
    have := readRingsLoop_ok _ h
    exact ⟨by rw [this.1]; exact readU32_ok hn, this.2⟩
  all_goals contradiction

theorem readMembers_ok {β : Type} (P : β → Prop) (want : Nat) (rd : Order → Bytes → R (β × Bytes))
    (hrd : ∀ o s x r, rd o s = .ok (x, r) → P x) (n : Nat) : ∀ {s r : Bytes} {xs : List β},
    readMembers want rd n s = .ok (xs, r) → xs.length = n ∧ ∀ x ∈ xs, P x := by
  induction n with
  | zero =>
    intro s r xs h
    simp only [readMembers] at h
    injection h with h; injection h with h _; subst h; simp
  | succ n ih =>
    intro s r xs h
    simp only [readMembers] at h
    split at h
    · split at h
      · contradiction
      · split at h
        · rename_i hx
          split at h
          · rename_i hxs
            injection h with h; injection h with h _; subst h
            have := ih hxs
            have hp := hrd _ _ _ _ hx
            refine ⟨by simp [this.1], ?_⟩
            intro y hy
            rcases List.mem_cons.1 hy with hy | hy
            · subst hy; exact hp
            · exact this.2 y hy
          all_goals contradiction
        all_goals contradiction
    all_goals contradiction


/-- decoded values are canonical and well-formed -/
def Good (g : G) : Prop := canon g = g ∧ WF32 g

theorem canonList_id (gs : List G) (h : ∀ g ∈ gs, canon g = g) : canon.canonList gs = gs := by
  induction gs with
  | nil => rfl
  | cons x xs ih =>
    simp only [canon.canonList, h x (by simp), ih (fun y hy => h y (by simp [hy]))]

theorem good_collection (gs : List G) (hl : gs.length < 2 ^ 32) (h : ∀ g ∈ gs, Good g) :
    Good (.collection gs) := by
  refine ⟨?_, ?_⟩
  · simp only [canon, canonList_id gs (fun g hg => (h g hg).1)]
  · simp only [WF32]
    exact ⟨hl, fun g hg => (h g hg).2⟩

theorem collLoop_ok (P : G → Prop) (dec : Bytes → R (G × Nat × Bytes))
    (hdec : ∀ s g sr r, dec s = .ok (g, sr, r) → P g) (n : Nat) : ∀ {s r : Bytes} {gs : List G},
    collLoop dec n s = .ok (gs, r) → gs.length = n ∧ ∀ g ∈ gs, P g := by
  induction n with
  | zero =>
    intro s r gs h
    simp only [collLoop] at h
    injection h with h; injection h with h _; subst h; simp
  | succ n ih =>
    intro s r gs h
    simp only [collLoop] at h
    split at h
    · rename_i hx
      split at h
      · rename_i hxs
        injection h with h; injection h with h _; subst h
        have := ih hxs
        have hp := hdec _ _ _ _ hx
        refine ⟨by simp [this.1], ?_⟩
        intro y hy
        rcases List.mem_cons.1 hy with hy | hy
        · subst hy; exact hp
        · exact this.2 y hy
      all_goals contradiction
    all_goals contradiction

theorem decodeWith_ok (coll : Order → Bytes → R (List G × Bytes))
    (hcoll : ∀ o s gs r, coll o s = .ok (gs, r) → gs.length < 2 ^ 32 ∧ ∀ g ∈ gs, Good g)
    {s r : Bytes} {g : G} {srid : Nat} (h : decodeWith coll s = .ok (g, srid, r)) : Good g := by
  unfold decodeWith at h
  split at h
  · split at h
    · -- point
      split at h
      · injection h with h; injection h with h _; subst h
        exact ⟨rfl, by simp only [WF32]⟩
      all_goals contradiction
    · split at h
      · -- multiPoint
        split at h
        · rename_i hn
          split at h
          · rename_i hm
            injection h with h; injection h with h _; subst h
            have := readMembers_ok (fun _ => True) _ _ (fun _ _ _ _ _ => trivial) _ hm
            exact ⟨rfl, by simp only [WF32]; rw [this.1]; exact readU32_ok hn⟩
          all_goals contradiction
        all_goals contradiction
      · split at h
        · -- lineString
          split at h
          · rename_i hl
            injection h with h; injection h with h _; subst h
            exact ⟨rfl, by simp only [WF32]; exact readLineString_ok hl⟩
          all_goals contradiction
        · split at h
          · -- multiLineString
            split at h
            · rename_i hn
              split at h
              · rename_i hm
                injection h with h; injection h with h _; subst h
                have := readMembers_ok (fun l => l.length < 2 ^ 32) _ _
                  (fun _ _ _ _ hx => readLineString_ok hx) _ hm
                exact ⟨rfl, by simp only [WF32]; exact ⟨by rw [this.1]; exact readU32_ok hn, this.2⟩⟩
              all_goals contradiction
            all_goals contradiction
          · split at h
            · -- polygon
              split at h
              · rename_i hp
                injection h with h; injection h with h _; subst h
                exact ⟨rfl, by simp only [WF32]; exact readPolygon_ok hp⟩
              all_goals contradiction
            · split at h
              · -- multiPolygon
                split at h
                · rename_i hn
                  split at h
                  · rename_i hm
                    injection h with h; injection h with h _; subst h
                    have := readMembers_ok
                      (fun p : List (List (Pt UInt64)) => p.length < 2 ^ 32 ∧ ∀ r ∈ p, r.length < 2 ^ 32) _ _
                      (fun _ _ _ _ hx => readPolygon_ok hx) _ hm
                    exact ⟨rfl, by simp only [WF32]; exact ⟨by rw [this.1]; exact readU32_ok hn, this.2⟩⟩
                  all_goals contradiction
                all_goals contradiction
              · split at h
                · -- collection
                  split at h
                  · rename_i hc
                    injection h with h; injection h with h _; subst h
                    have := hcoll _ _ _ _ hc
                    exact good_collection _ this.1 this.2
                  all_goals contradiction
                · contradiction
  all_goals contradiction

theorem readCollectionF_ok (fuel : Nat) : ∀ (o : Order) (s : Bytes) (gs : List G) (r : Bytes),
    readCollectionF fuel o s = .ok (gs, r) → gs.length < 2 ^ 32 ∧ ∀ g ∈ gs, Good g := by
  induction fuel with
  | zero => intro o s gs r h; simp only [readCollectionF] at h; contradiction
  | succ fuel ih =>
    intro o s gs r h
    simp only [readCollectionF] at h
    split at h
    · rename_i hn
      have := collLoop_ok Good _ (fun s g sr r hd => decodeWith_ok _ ih hd) _ h
      exact ⟨by rw [this.1]; exact readU32_ok hn, this.2⟩
    all_goals contradiction

theorem decode_ok {data : Bytes} {g : G} {s : Nat} (h : decode data = .ok (g, s)) : Good g := by
  unfold decode decodeStream at h
  split at h
  · rename_i hd
    injection h with h; injection h with h _; subst h
    exact decodeWith_ok _ (readCollectionF_ok _) hd
  all_goals contradiction


theorem unmarshal_ok {bs : Bytes} {g : G} {srid : Nat} (h : unmarshal bs = .ok (g, srid)) :
    Good g ∧ srid < 2 ^ 32 := by
  unfold unmarshal at h
  split at h
  · rename_i o typ srid' gd hb
    have hs := unmarshalBOT_srid hb
    simp only [] at h
    split at h
    · -- point
      split at h
      · injection h with h; injection h with h h'; subst h; subst h'
        exact ⟨⟨rfl, by simp only [WF32]⟩, hs⟩
      all_goals contradiction
    · split at h
      · -- multiPoint
        split at h
        · rename_i hm
          injection h with h; injection h with h h'; subst h; subst h'
          have := unmarshalMultiF_ok (fun _ => True) _ _ _ _ (fun _ _ _ _ => trivial) _ _ _ _ hm
          exact ⟨⟨rfl, by simp only [WF32]; exact this.1⟩, hs⟩
        all_goals contradiction
      · split at h
        · -- lineString
          split at h
          · rename_i hm
            injection h with h; injection h with h h'; subst h; subst h'
            exact ⟨⟨rfl, by simp only [WF32]; exact unmarshalPoints_ok hm⟩, hs⟩
          all_goals contradiction
        · split at h
          · -- multiLineString
            split at h
            · rename_i hm
              injection h with h; injection h with h h'; subst h; subst h'
              have := unmarshalMultiF_ok (fun l : List (Pt UInt64) => l.length < 2 ^ 32) _ _ _ _
                (fun _ _ _ hx => unmarshalPoints_ok hx) _ _ _ _ hm
              exact ⟨⟨rfl, by simp only [WF32]; exact this⟩, hs⟩
            all_goals contradiction
          · split at h
            · -- polygon
              split at h
              · rename_i hm
                injection h with h; injection h with h h'; subst h; subst h'
                exact ⟨⟨rfl, by simp only [WF32]; exact unmarshalPolygon_ok hm⟩, hs⟩
              all_goals contradiction
            · split at h
              · -- multiPolygon
                split at h
                · rename_i hm
                  injection h with h; injection h with h h'; subst h; subst h'
                  have := unmarshalMultiF_ok
                    (fun p : List (List (Pt UInt64)) => p.length < 2 ^ 32 ∧ ∀ r ∈ p, r.length < 2 ^ 32) _ _ _ _
                    (fun _ _ _ hx => unmarshalPolygon_ok hx) _ _ _ _ hm
                  exact ⟨⟨rfl, by simp only [WF32]; exact this⟩, hs⟩
                all_goals contradiction
              · split at h
                · -- collection
                  split at h
                  · rename_i hd
                    injection h with h; injection h with h h'; subst h; subst h'
                    exact ⟨decode_ok hd, hs⟩
                  all_goals contradiction
                · contradiction
  all_goals contradiction

theorem reencode_stable' (bs : Bytes) (g : G) (srid : Nat) (h : unmarshal bs = .ok (g, srid)) (o : Order) :
    unmarshal (encGeom o srid g) = .ok (g, srid) := by
  obtain ⟨⟨hc, hw⟩, hs⟩ := unmarshal_ok h
  have := unmarshal_encode' o srid g hw hs
  rw [hc] at this
  exact this


end Orb.WKB
