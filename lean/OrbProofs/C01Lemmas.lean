/-
  Helper lemmas for C01.  The primed statements are re-exported by OrbProofs/C01.lean.
-/
import OrbProofs.C01Consume

namespace Orb.WKB
open Orb Generated.Params

/-! ### spec-side vocabulary -/

/-- every slice length fits the 32-bit count field of the format -/
def WF32 : G → Prop
  | .point _ => True
  | .multiPoint ps => ps.length < 2^32
  | .lineString ps => ps.length < 2^32
  | .ring ps => ps.length < 2^32
  | .multiLineString ls => ls.length < 2^32 ∧ ∀ l ∈ ls, l.length < 2^32
  | .polygon rs => rs.length < 2^32 ∧ ∀ r ∈ rs, r.length < 2^32
  | .multiPolygon ps => ps.length < 2^32 ∧ ∀ p ∈ ps, p.length < 2^32 ∧ ∀ r ∈ p, r.length < 2^32
  | .bound _ _ => True
  | .collection gs => gs.length < 2^32 ∧ ∀ g ∈ gs, WF32 g

/-! ### stream decoder and byte decoder on encoder output -/

theorem decodeWith_enc (coll : Order → Bytes → R (List G × Bytes)) (o : Order) (srid : Nat) (g : G)
    (rest : Bytes) (hw : WF32 g) (hs : srid < 2 ^ 32)
    (hcoll : ∀ gs, g = .collection gs → coll o (body o g ++ rest) = .ok (canon.canonList gs, rest)) :
    decodeWith coll (encGeom o srid g ++ rest) = .ok (canon g, srid, rest) := by
  rw [encGeom_eq, List.cons_append, List.append_assoc]
  unfold decodeWith
  rw [readBOT_hdr o _ srid _ (tcode_TC g) hs]
  cases g with
  | point p =>
    simp [tcode, body, wkb_pointType, readPoint_encPt, canon]
  | multiPoint ps =>
    simp only [WF32] at hw
    simp [tcode, body, wkb_pointType, wkb_multiPointType, readU32_u32' _ _ _ hw, readMembers_points, canon]
  | lineString ps =>
    simp only [WF32] at hw
    simp [tcode, body, wkb_pointType, wkb_multiPointType, wkb_lineStringType, readLineString_enc _ _ _ hw, canon]
  | multiLineString ls =>
    simp only [WF32] at hw
    simp [tcode, body, wkb_pointType, wkb_multiPointType, wkb_lineStringType, wkb_multiLineStringType,
      readU32_u32' _ _ _ hw.1, readMembers_lineStrings _ _ _ hw.2, canon]
  | ring r =>
    simp only [WF32] at hw
    simp [tcode, body, wkb_pointType, wkb_multiPointType, wkb_lineStringType, wkb_multiLineStringType,
      wkb_polygonType, canon]
    rw [readPolygon_enc o [r] rest (by simp) (by simpa using hw)]
  | polygon rs =>
    simp only [WF32] at hw
    simp [tcode, body, wkb_pointType, wkb_multiPointType, wkb_lineStringType, wkb_multiLineStringType,
      wkb_polygonType, canon, readPolygon_enc o rs rest hw.1 hw.2]
  | multiPolygon ps =>
    simp only [WF32] at hw
    simp [tcode, body, wkb_pointType, wkb_multiPointType, wkb_lineStringType, wkb_multiLineStringType,
      wkb_polygonType, wkb_multiPolygonType, canon, readU32_u32' _ _ _ hw.1, readMembers_polygons _ _ _ hw.2]
  | bound a b =>
    simp [tcode, body, wkb_pointType, wkb_multiPointType, wkb_lineStringType, wkb_multiLineStringType,
      wkb_polygonType, canon]
    rw [readPolygon_enc o [boundRing a b] rest (by simp) (by simp [boundRing])]
  | collection gs =>
    have := hcoll gs rfl
    simp [tcode, wkb_pointType, wkb_multiPointType, wkb_lineStringType, wkb_multiLineStringType,
      wkb_polygonType, wkb_multiPolygonType, wkb_geometryCollectionType, canon, this]

/-- a collection whose reader fails: `Decode` passes the error on -/
theorem decodeWith_enc_coll_err (coll : Order → Bytes → R (List G × Bytes)) (o : Order) (srid : Nat)
    (gs : List G) (rest : Bytes) (hs : srid < 2 ^ 32) (e : Err)
    (hcoll : coll o (body o (.collection gs) ++ rest) = .err e) :
    decodeWith coll (encGeom o srid (.collection gs) ++ rest) = .err e := by
  rw [encGeom_eq, List.cons_append, List.append_assoc]
  unfold decodeWith
  rw [readBOT_hdr o _ srid _ (tcode_TC _) hs]
  simp [tcode, wkb_pointType, wkb_multiPointType, wkb_lineStringType, wkb_multiLineStringType,
    wkb_polygonType, wkb_multiPolygonType, wkb_geometryCollectionType, hcoll]

/-! ### nesting depth -/

theorem collDepth_collection (gs : List G) : collDepth (.collection gs) = 1 + collDepth.collDepthList gs := by
  simp only [collDepth]

theorem collDepth_of_not_collection {g : G} (h : ∀ gs, g ≠ .collection gs) : collDepth g = 0 := by
  cases g <;> first | rfl | exact absurd rfl (h _)

theorem collDepthList_le {gs : List G} {n : Nat} :
    collDepth.collDepthList gs ≤ n ↔ ∀ g ∈ gs, collDepth g ≤ n := by
  induction gs with
  | nil => simp [collDepth.collDepthList]
  | cons x xs ih =>
    simp only [collDepth.collDepthList, Nat.max_le, ih, List.mem_cons, forall_eq_or_imp]

/-- `Decode` on an encoding, given what the collection reader does on its body: the value, or the
    reader's error (which only a collection can run into) -/
theorem decodeWith_enc_char (coll : Order → Bytes → R (List G × Bytes)) (o : Order) (srid : Nat) (g : G)
    (rest : Bytes) (hw : WF32 g) (hs : srid < 2 ^ 32) (e : Err) (P : Prop) [Decidable P]
    (hcoll : ∀ gs, g = .collection gs →
      coll o (body o g ++ rest) = if P then .ok (canon.canonList gs, rest) else .err e)
    (hP : (∀ gs, g ≠ .collection gs) → P) :
    decodeWith coll (encGeom o srid g ++ rest) = if P then .ok (canon g, srid, rest) else .err e := by
  by_cases hp : P
  · rw [if_pos hp]
    apply decodeWith_enc coll o srid g rest hw hs
    intro gs hgs
    rw [hcoll gs hgs, if_pos hp]
  · rw [if_neg hp]
    cases g with
    | collection gs =>
      apply decodeWith_enc_coll_err coll o srid gs rest hs e
      rw [hcoll gs rfl, if_neg hp]
    | _ => exact absurd (hP (fun gs h => by cases h)) hp

theorem collLoop_enc_char (dec : Bytes → R (G × Nat × Bytes)) (o : Order) (left : Nat) (e : Err)
    (gs : List G) (rest : Bytes)
    (h : ∀ g ∈ gs, ∀ rest', dec (encGeom o 0 g ++ rest') =
      if collDepth g ≤ left then .ok (canon g, 0, rest') else .err e) :
    collLoop dec gs.length (encGeom.encList o gs ++ rest) =
      if collDepth.collDepthList gs ≤ left then .ok (canon.canonList gs, rest) else .err e := by
  induction gs with
  | nil => simp [collLoop, collDepth.collDepthList, encGeom.encList, canon.canonList]
  | cons x xs ih =>
    have ih' := ih (fun y hy => h y (by simp [hy]))
    simp only [encGeom.encList, List.length_cons, collLoop, List.append_assoc, h x (by simp),
      collDepth.collDepthList, Nat.max_le, canon.canonList]
    by_cases hx : collDepth x ≤ left
    · simp only [hx, if_true, true_and, ih']
      by_cases hxs : collDepth.collDepthList xs ≤ left
      · simp only [hxs, if_true]
      · simp only [hxs, if_false]
    · simp only [hx, if_false, false_and]

/-- `readCollection` with `left` levels still allowed, on the body of an encoded collection: the
    canonical members when the collection (one level) and its members fit, `ErrNestingTooDeep` if not. -/
theorem readCollectionF_enc (left : Nat) : ∀ (o : Order) (gs : List G) (rest : Bytes),
    gs.length < 2 ^ 32 → (∀ g ∈ gs, WF32 g) →
    readCollectionF left o (u32 o gs.length ++ (encGeom.encList o gs ++ rest)) =
      if 1 + collDepth.collDepthList gs ≤ left then .ok (canon.canonList gs, rest)
      else .err .nestingTooDeep := by
  induction left with
  | zero =>
    intro o gs rest _ _
    rw [if_neg (by omega)]
    rfl
  | succ left ih =>
    intro o gs rest hl hw
    simp only [readCollectionF, readU32_u32' _ _ _ hl]
    rw [collLoop_enc_char _ o left .nestingTooDeep gs rest]
    · by_cases hd : collDepth.collDepthList gs ≤ left
      · rw [if_pos hd, if_pos (by omega)]
      · rw [if_neg hd, if_neg (by omega)]
    · intro g hg rest'
      apply decodeWith_enc_char _ o 0 g rest' (hw g hg) (by decide)
      · intro gs' hgs'
        subst hgs'
        have hwg := hw _ hg
        simp only [WF32] at hwg
        simp only [body, List.append_assoc, collDepth_collection]
        exact ih o gs' rest' hwg.1 hwg.2
      · intro hn
        rw [collDepth_of_not_collection hn]
        exact Nat.zero_le _

/-- The stream decoder on an encoding, completely: the canonical value when the collections of `g` are
    nested no deeper than the levels left, `ErrNestingTooDeep` otherwise. -/
theorem decodeStream_enc_char (o : Order) (srid : Nat) (g : G) (hw : WF32 g) (hs : srid < 2^32) (rest : Bytes)
    (left : Nat) :
    decodeStream left (encGeom o srid g ++ rest) =
      if collDepth g ≤ left then .ok (canon g, srid, rest) else .err .nestingTooDeep := by
  unfold decodeStream
  apply decodeWith_enc_char _ o srid g rest hw hs
  · intro gs hgs
    subst hgs
    simp only [WF32] at hw
    simp only [body, List.append_assoc, collDepth_collection]
    exact readCollectionF_enc left o gs rest hw.1 hw.2
  · intro hn
    rw [collDepth_of_not_collection hn]
    exact Nat.zero_le _

theorem decodeStream_enc_aux (o : Order) (srid : Nat) (g : G) (hw : WF32 g) (hs : srid < 2^32) (rest : Bytes)
    (left : Nat) (hd : collDepth g ≤ left) :
    decodeStream left (encGeom o srid g ++ rest) = .ok (canon g, srid, rest) := by
  rw [decodeStream_enc_char o srid g hw hs rest left, if_pos hd]

theorem decode_enc_char (o : Order) (srid : Nat) (g : G) (hw : WF32 g) (hs : srid < 2^32) :
    decode (encGeom o srid g) =
      if collDepth g ≤ wkb_MaxCollectionDepth then .ok (canon g, srid) else .err .nestingTooDeep := by
  have := decodeStream_enc_char o srid g hw hs [] wkb_MaxCollectionDepth
  rw [List.append_nil] at this
  by_cases hd : collDepth g ≤ wkb_MaxCollectionDepth
  · rw [if_pos hd] at this ⊢
    simp only [decode, this]
  · rw [if_neg hd] at this ⊢
    simp only [decode, this]

theorem decode_enc_aux (o : Order) (srid : Nat) (g : G) (hw : WF32 g) (hs : srid < 2^32)
    (hd : collDepth g ≤ wkb_MaxCollectionDepth) :
    decode (encGeom o srid g) = .ok (canon g, srid) := by
  rw [decode_enc_char o srid g hw hs, if_pos hd]

/-- every kind but a collection: the byte decoder returns the canonical value -/
theorem unmarshal_enc_leaf (o : Order) (srid : Nat) (g : G) (hw : WF32 g) (hs : srid < 2^32)
    (hg : ∀ gs, g ≠ .collection gs) :
    unmarshal (encGeom o srid g) = .ok (canon g, srid) := by
  unfold unmarshal
  rw [unmarshalBOT_enc o srid g hs]
  simp only []
  cases g with
  | point p =>
    have := unmarshalPoint_encPt o p []
    simp only [List.append_nil] at this
    simp [tcode, body, wkb_pointType, canon, this]
  | multiPoint ps =>
    simp only [WF32] at hw
    have := unmarshalMultiPoint_enc o ps [] hw
    simp only [List.append_nil] at this
    simp [tcode, body, wkb_pointType, wkb_multiPointType, canon, this]
  | lineString ps =>
    simp only [WF32] at hw
    have := unmarshalPoints_enc o ps [] hw
    simp only [List.append_nil] at this
    simp [tcode, body, wkb_pointType, wkb_multiPointType, wkb_lineStringType, canon, this]
  | multiLineString ls =>
    simp only [WF32] at hw
    have := unmarshalMultiLineString_enc o ls [] hw.1 hw.2
    simp only [List.append_nil] at this
    simp [tcode, body, wkb_pointType, wkb_multiPointType, wkb_lineStringType, wkb_multiLineStringType,
      canon, this]
  | ring r =>
    simp only [WF32] at hw
    have := unmarshalPolygon_enc o [r] [] (by simp) (by simpa using hw)
    simp only [List.append_nil] at this
    simp [tcode, body, wkb_pointType, wkb_multiPointType, wkb_lineStringType, wkb_multiLineStringType,
      wkb_polygonType, canon, this]
  | polygon rs =>
    simp only [WF32] at hw
    have := unmarshalPolygon_enc o rs [] hw.1 hw.2
    simp only [List.append_nil] at this
    simp [tcode, body, wkb_pointType, wkb_multiPointType, wkb_lineStringType, wkb_multiLineStringType,
      wkb_polygonType, canon, this]
  | multiPolygon ps =>
    simp only [WF32] at hw
    have := unmarshalMultiPolygon_enc o ps [] hw.1 hw.2
    simp only [List.append_nil] at this
    simp [tcode, body, wkb_pointType, wkb_multiPointType, wkb_lineStringType, wkb_multiLineStringType,
      wkb_polygonType, wkb_multiPolygonType, canon, this]
  | bound a b =>
    have := unmarshalPolygon_enc o [boundRing a b] [] (by simp) (by simp [boundRing])
    simp only [List.append_nil] at this
    simp [tcode, body, wkb_pointType, wkb_multiPointType, wkb_lineStringType, wkb_multiLineStringType,
      wkb_polygonType, canon, this]
  | collection gs => exact absurd rfl (hg gs)

/-- a collection: what the stream decoder says (EOF errors would be mapped to ErrNotWKB) -/
theorem unmarshal_enc_coll_ok (o : Order) (srid : Nat) (gs : List G) (hs : srid < 2^32) (g : G) (s' : Nat)
    (h : decode (encGeom o srid (.collection gs)) = .ok (g, s')) :
    unmarshal (encGeom o srid (.collection gs)) = .ok (g, srid) := by
  unfold unmarshal
  rw [unmarshalBOT_enc o srid _ hs]
  simp [tcode, wkb_pointType, wkb_multiPointType, wkb_lineStringType, wkb_multiLineStringType,
    wkb_polygonType, wkb_multiPolygonType, wkb_geometryCollectionType, h]

theorem unmarshal_enc_coll_deep (o : Order) (srid : Nat) (gs : List G) (hs : srid < 2^32)
    (h : decode (encGeom o srid (.collection gs)) = .err .nestingTooDeep) :
    unmarshal (encGeom o srid (.collection gs)) = .err .nestingTooDeep := by
  unfold unmarshal
  rw [unmarshalBOT_enc o srid _ hs]
  simp [tcode, wkb_pointType, wkb_multiPointType, wkb_lineStringType, wkb_multiLineStringType,
    wkb_polygonType, wkb_multiPolygonType, wkb_geometryCollectionType, h]

/-- The byte decoder on an encoding, completely. -/
theorem unmarshal_enc_char (o : Order) (srid : Nat) (g : G) (hw : WF32 g) (hs : srid < 2^32) :
    unmarshal (encGeom o srid g) =
      if collDepth g ≤ wkb_MaxCollectionDepth then .ok (canon g, srid) else .err .nestingTooDeep := by
  cases g with
  | collection gs =>
    have hd := decode_enc_char o srid _ hw hs
    by_cases hdep : collDepth (.collection gs) ≤ wkb_MaxCollectionDepth
    · rw [if_pos hdep] at hd ⊢
      exact unmarshal_enc_coll_ok o srid gs hs _ _ hd
    · rw [if_neg hdep] at hd ⊢
      exact unmarshal_enc_coll_deep o srid gs hs hd
  | _ =>
    rw [unmarshal_enc_leaf o srid _ hw hs (fun gs h => by cases h), if_pos]
    simp only [collDepth]; exact Nat.zero_le _

theorem unmarshal_enc_aux (o : Order) (srid : Nat) (g : G) (hw : WF32 g) (hs : srid < 2^32)
    (hd : collDepth g ≤ wkb_MaxCollectionDepth) :
    unmarshal (encGeom o srid g) = .ok (canon g, srid) := by
  rw [unmarshal_enc_char o srid g hw hs, if_pos hd]

/-! ### the Scan table -/

theorem scanDest_table (bnd : BoundFn) (d : Dest) (o : Order) (srid : Nat) (g : G) (hw : WF32 g)
    (hs : srid < 2^32) (hdep : collDepth g ≤ wkb_MaxCollectionDepth) :
    scanDest bnd d (encGeom o srid g) =
      (match coerce bnd d (canon g) with
       | some v => .ok (v, srid)
       | none => .err .incorrectGeometry) := by
  have hu := unmarshal_enc_aux o srid g hw hs hdep
  have hd := decode_enc_aux o srid g hw hs hdep
  have hb := unmarshalBOT_enc o srid g hs
  cases d with
  | any => simp only [scanDest, hu, coerce]
  | point =>
    simp only [scanDest, scanPoint_def]
    cases g with
    | point p =>
      rw [scanSingle_enc_single 1 4 _ _ o srid _ p hs rfl (body_point o p)]
      simp [canon, coerce]
    | multiPoint ps =>
      simp only [WF32] at hw
      rw [scanSingle_enc_multi 1 4 _ _ o srid _ ps hs rfl (by decide) (body_multiPoint o ps hw)]
      match ps with
      | [] => simp [canon, coerce]
      | [_] => simp [canon, coerce]
      | _ :: _ :: _ => simp [canon, coerce]
    | lineString _ | multiLineString _ | ring _ | polygon _ | multiPolygon _ | bound _ _ | collection _ =>
      rw [scanSingle_enc_other 1 4 _ _ o srid _ hs (by simp [tcode]) (by simp [tcode])]
      simp [canon, coerce]
  | multiPoint =>
    simp only [scanDest, hu]
    cases g <;> simp [canon, coerce]
  | lineString =>
    simp only [scanDest, scanLineString_def]
    cases g with
    | lineString ps =>
      simp only [WF32] at hw
      rw [scanSingle_enc_single 2 5 _ _ o srid _ ps hs rfl (body_lineString o ps hw)]
      simp [canon, coerce]
    | multiLineString ls =>
      simp only [WF32] at hw
      rw [scanSingle_enc_multi 2 5 _ _ o srid _ ls hs rfl (by decide) (body_multiLineString o ls hw.1 hw.2)]
      match ls with
      | [] => simp [canon, coerce]
      | [_] => simp [canon, coerce]
      | _ :: _ :: _ => simp [canon, coerce]
    | point _ | multiPoint _ | ring _ | polygon _ | multiPolygon _ | bound _ _ | collection _ =>
      rw [scanSingle_enc_other 2 5 _ _ o srid _ hs (by simp [tcode]) (by simp [tcode])]
      simp [canon, coerce]
  | multiLineString =>
    simp only [scanDest, hb]
    cases g with
    | lineString ps =>
      simp only [WF32] at hw
      simp [tcode, wkb_lineStringType, body_lineString o ps hw, canon, coerce]
    | multiLineString ls =>
      simp only [WF32] at hw
      simp [tcode, wkb_lineStringType, wkb_multiLineStringType, body_multiLineString o ls hw.1 hw.2,
        canon, coerce]
    | point _ | multiPoint _ | ring _ | polygon _ | multiPolygon _ | bound _ _ | collection _ =>
      simp [tcode, wkb_lineStringType, wkb_multiLineStringType, canon, coerce]
  | ring =>
    simp only [scanDest, hu]
    cases g with
    | polygon rs =>
      match rs with
      | [] => simp [canon, coerce]
      | [_] => simp [canon, coerce]
      | _ :: _ :: _ => simp [canon, coerce]
    | _ => simp [canon, coerce]
  | polygon =>
    simp only [scanDest, scanPolygon_def]
    cases g with
    | ring r =>
      simp only [WF32] at hw
      rw [scanSingle_enc_single 3 6 _ _ o srid _ [r] hs rfl (body_ring o r hw)]
      simp [canon, coerce]
    | polygon rs =>
      simp only [WF32] at hw
      rw [scanSingle_enc_single 3 6 _ _ o srid _ rs hs rfl (body_polygon o rs hw.1 hw.2)]
      simp [canon, coerce]
    | bound a b =>
      rw [scanSingle_enc_single 3 6 _ _ o srid _ [boundRing a b] hs rfl (body_bound o a b)]
      simp [canon, coerce]
    | multiPolygon ps =>
      simp only [WF32] at hw
      rw [scanSingle_enc_multi 3 6 _ _ o srid _ ps hs rfl (by decide) (body_multiPolygon o ps hw.1 hw.2)]
      match ps with
      | [] => simp [canon, coerce]
      | [_] => simp [canon, coerce]
      | _ :: _ :: _ => simp [canon, coerce]
    | point _ | multiPoint _ | lineString _ | multiLineString _ | collection _ =>
      rw [scanSingle_enc_other 3 6 _ _ o srid _ hs (by simp [tcode]) (by simp [tcode])]
      simp [canon, coerce]
  | multiPolygon =>
    simp only [scanDest, hb]
    cases g with
    | ring r =>
      simp only [WF32] at hw
      simp [tcode, wkb_polygonType, body_ring o r hw, canon, coerce]
    | polygon rs =>
      simp only [WF32] at hw
      simp [tcode, wkb_polygonType, body_polygon o rs hw.1 hw.2, canon, coerce]
    | bound a b =>
      simp [tcode, wkb_polygonType, body_bound o a b, canon, coerce]
    | multiPolygon ps =>
      simp only [WF32] at hw
      simp [tcode, wkb_polygonType, wkb_multiPolygonType, body_multiPolygon o ps hw.1 hw.2, canon, coerce]
    | point _ | multiPoint _ | lineString _ | multiLineString _ | collection _ =>
      simp [tcode, wkb_polygonType, wkb_multiPolygonType, canon, coerce]
  | collection =>
    simp only [scanDest, hd]
    cases g <;> simp [canon, coerce]
  | bound =>
    simp only [scanDest, hu, coerce]

/-! ### non-WKB first byte: every destination reports ErrNotWKBHeader -/

theorem unmarshalBOT_badhdr (b0 : UInt8) (tl : Bytes) (h0 : b0 ≠ 0) (h1 : b0 ≠ 1) (hl : 5 ≤ tl.length) :
    unmarshalBOT (b0 :: tl) = .err .notWKBHeader := by
  have : ¬ (b0 :: tl).length < 6 := by simp only [List.length_cons]; omega
  simp only [unmarshalBOT, byteOrderType, if_neg this, if_neg h0, if_neg h1]

theorem readBOT_badhdr (b0 : UInt8) (tl : Bytes) (h0 : b0 ≠ 0) (h1 : b0 ≠ 1) :
    readBOT (b0 :: tl) = .err .notWKBHeader := by
  simp only [readBOT, if_neg h0, if_neg h1]

theorem scanDest_badhdr (bnd : BoundFn) (d : Dest) (b0 : UInt8) (tl : Bytes) (h0 : b0 ≠ 0) (h1 : b0 ≠ 1)
    (hl : 5 ≤ tl.length) : scanDest bnd d (b0 :: tl) = .err .notWKBHeader := by
  have hb := unmarshalBOT_badhdr b0 tl h0 h1 hl
  have hr := readBOT_badhdr b0 tl h0 h1
  cases d <;>
    simp only [scanDest, unmarshal, scanPoint, scanLineString, scanPolygon, scanSingle, decode, decodeStream,
      decodeWith, hb, hr]

theorem u32_little_shape (p : Nat) (hp : p < 2 ^ 32) :
    ∃ b1 b2 b3, u32 .little p = [UInt8.ofNat (p % 256), b1, b2, b3] := by
  simp only [u32, Nat.mod_eq_of_lt hp, leBytes]
  exact ⟨_, _, _, rfl⟩

theorem ofNat_mod_ne (p : Nat) (c : Nat) (hc : c < 256) (h : p % 256 ≠ c) : UInt8.ofNat (p % 256) ≠ UInt8.ofNat c := by
  intro he
  have := congrArg UInt8.toNat he
  simp only [UInt8.toNat_ofNat'] at this
  omega

/-! ### the property theorems (statements fixed; re-exported by C01.lean) -/

theorem encode_nil' (o : Order) (srid : Nat) (k : Kind) :
    encode o srid .nilIface = [] ∧ encode o srid (.nilSlice k) = [] := by
  exact ⟨rfl, rfl⟩

theorem unmarshal_encode' (o : Order) (srid : Nat) (g : G) (hw : WF32 g) (hs : srid < 2^32)
    (hd : collDepth g ≤ wkb_MaxCollectionDepth) :
    unmarshal (encGeom o srid g) = .ok (canon g, srid) := by
  exact unmarshal_enc_aux o srid g hw hs hd

theorem decodeStream_encode' (o : Order) (srid : Nat) (g : G) (hw : WF32 g) (hs : srid < 2^32) (rest : Bytes)
    (left : Nat) (hd : collDepth g ≤ left) :
    decodeStream left (encGeom o srid g ++ rest) = .ok (canon g, srid, rest) := by
  exact decodeStream_enc_aux o srid g hw hs rest left hd

theorem decode_encode' (o : Order) (srid : Nat) (g : G) (hw : WF32 g) (hs : srid < 2^32)
    (hd : collDepth g ≤ wkb_MaxCollectionDepth) :
    decode (encGeom o srid g) = .ok (canon g, srid) := by
  exact decode_enc_aux o srid g hw hs hd

theorem encode_too_deep' (o : Order) (srid : Nat) (g : G) (hw : WF32 g) (hs : srid < 2^32)
    (hd : wkb_MaxCollectionDepth < collDepth g) :
    decode (encGeom o srid g) = .err .nestingTooDeep ∧ unmarshal (encGeom o srid g) = .err .nestingTooDeep := by
  rw [decode_enc_char o srid g hw hs, unmarshal_enc_char o srid g hw hs, if_neg (by omega)]
  exact ⟨rfl, rfl⟩

theorem decodeStream_too_deep' (o : Order) (srid : Nat) (g : G) (hw : WF32 g) (hs : srid < 2^32) (rest : Bytes)
    (left : Nat) (hd : left < collDepth g) :
    decodeStream left (encGeom o srid g ++ rest) = .err .nestingTooDeep := by
  rw [decodeStream_enc_char o srid g hw hs rest left, if_neg (by omega)]

theorem scan_table' (bnd : BoundFn) (d : Dest) (o : Order) (srid : Nat) (g : G) (hw : WF32 g) (hs : srid < 2^32)
    (hd : collDepth g ≤ wkb_MaxCollectionDepth) :
    scan bnd d (encGeom o srid g) =
      (match coerce bnd d (canon g) with
       | some v => .ok (v, srid)
       | none => .err .incorrectGeometry) := by
  rw [scan_enc]
  exact scanDest_table bnd d o srid g hw hs hd

theorem paths_agree' (bnd : BoundFn) (o : Order) (srid : Nat) (g : G) (hw : WF32 g) (hs : srid < 2^32) :
    unmarshal (encGeom o srid g) = decode (encGeom o srid g) ∧
    scan bnd .any (encGeom o srid g) = unmarshal (encGeom o srid g) := by
  refine ⟨?_, ?_⟩
  · rw [unmarshal_enc_char o srid g hw hs, decode_enc_char o srid g hw hs]
  · rw [scan_enc]; rfl

theorem framing_hex' (bnd : BoundFn) (d : Dest) (upper : Bool) (o : Order) (srid : Nat) (g : G) :
    scan bnd d (hexEncode upper (encGeom o srid g)) = scan bnd d (encGeom o srid g) := by
  rw [scan_hex_enc, scan_enc]

theorem framing_bslash_x' (bnd : BoundFn) (d : Dest) (o : Order) (srid : Nat) (g : G) :
    scan bnd d (92 :: 120 :: hexEncode false (encGeom o srid g)) = scan bnd d (encGeom o srid g) := by
  rw [scan_bslash_enc, scan_enc]

theorem framing_prefix_ewkb' (bnd : BoundFn) (d : Dest) (o : Order) (srid p : Nat) (g : G) (hw : WF32 g)
    (hs : srid < 2^32) (hp : p < 2^32) (hd : collDepth g ≤ wkb_MaxCollectionDepth) :
    ewkbScan bnd true d (u32 .little p ++ encGeom o srid g) =
      (match coerce bnd d (canon g) with
       | some v => .ok (v, if srid ≠ 0 then srid else p)
       | none => .err .incorrectGeometry) := by
  obtain ⟨n, hn⟩ := encGeom_length_succ o srid g
  have hlen : ¬ (u32 .little p ++ encGeom o srid g).length < 5 := by
    simp only [List.length_append, u32_length, hn]; omega
  simp only [ewkbScan, if_true, if_neg hlen, drop_u32, scan_table' bnd d o srid g hw hs hd,
    rd32_u32' _ _ _ hp]
  cases coerce bnd d (canon g) <;> rfl

/-- no hex framing is detected ⇒ `Scan` leaves the caller's buffer as it was -/
theorem scanBuf_raw (a b : UInt8) (t : Bytes) (h92 : a ≠ 92) (h48 : a ≠ 48) :
    scanBuf (a :: b :: t) = a :: b :: t := by
  simp [scanBuf, h92, h48]

theorem framing_prefix_wkb_partial' (bnd : BoundFn) (d : Dest) (o : Order) (p : Nat) (g : G) (hw : WF32 g)
    (hp : p < 2^32) (h0 : p % 256 ≠ 0) (h1 : p % 256 ≠ 1) (h2 : p % 256 ≠ 48) (h3 : p % 256 ≠ 92)
    (hd : collDepth g ≤ wkb_MaxCollectionDepth) :
    wkbScan bnd d (u32 .little p ++ encGeom o 0 g) =
      (match coerce bnd d (canon g) with
       | some v => .ok v
       | none => .err .incorrectGeometry) := by
  obtain ⟨b1, b2, b3, hu⟩ := u32_little_shape p hp
  obtain ⟨n, hn⟩ := encGeom_length_succ o 0 g
  obtain ⟨c1, tl, he, hl⟩ := encGeom_shape o 0 g
  have hscan : scan bnd d (u32 .little p ++ encGeom o 0 g) = .err .notWKBHeader := by
    rw [hu]
    simp only [List.cons_append, List.nil_append]
    rw [scan_raw bnd d _ _ _ (ofNat_mod_ne p 92 (by decide) h3) (ofNat_mod_ne p 48 (by decide) h2)
      (by simp only [List.length_cons, hn]; omega)]
    exact scanDest_badhdr bnd d _ _ (ofNat_mod_ne p 0 (by decide) h0) (ofNat_mod_ne p 1 (by decide) h1)
      (by simp only [List.length_cons, he]; omega)
  have hbuf : scanBuf (u32 .little p ++ encGeom o 0 g) = u32 .little p ++ encGeom o 0 g := by
    rw [hu]
    simp only [List.cons_append, List.nil_append]
    exact scanBuf_raw _ _ _ (ofNat_mod_ne p 92 (by decide) h3) (ofNat_mod_ne p 48 (by decide) h2)
  simp only [wkbScan, hscan, hbuf, sliceFrom_append _ _ _ (u32_length .little p),
    scan_table' bnd d o 0 g hw (by decide) hd]
  cases coerce bnd d (canon g) <;> rfl

theorem wkbScan_prefix_witness' (bnd : BoundFn) :
    ∃ v, wkbScan bnd .any (u32 .little 256 ++ encGeom .little 0 (.point ⟨0x3ff0000000000000, 0x4000000000000000⟩)) = .ok v ∧
      v ≠ .point ⟨0x3ff0000000000000, 0x4000000000000000⟩ := by
  refine ⟨.point ⟨0x0100000000000000, 0x0000f03f00000000⟩, by rfl, ?_⟩
  intro h
  injection h with h
  injection h with h _
  exact absurd h (by decide)

/-! ### inversion: everything a decoder returns is canonical and fits the 32-bit counts -/

theorem unmarshalBOT_srid {buf : Bytes} {o : Order} {t srid : Nat} {gd : Bytes}
    (h : unmarshalBOT buf = .ok (o, t, srid, gd)) : srid < 2 ^ 32 := by
  unfold unmarshalBOT at h
  split at h
  · split at h
    · injection h with h; injection h with _ h; injection h with _ h; injection h with h _
      subst h; decide
    · split at h
      · contradiction
      · injection h with h; injection h with _ h; injection h with _ h; injection h with h _
        subst h; exact rd32_lt _ _
  · contradiction
  · contradiction

theorem readPts_length (o : Order) (n : Nat) : ∀ data, (readPts o data n).length = n := by
  induction n with
  | zero => intro; rfl
  | succ n ih => intro data; simp only [readPts, List.length_cons, ih]

theorem unmarshalPoints_ok {o : Order} {data : Bytes} {ps : List (Pt UInt64)}
    (h : unmarshalPoints o data = .ok ps) : ps.length < 2 ^ 32 := by
  unfold unmarshalPoints at h
  split at h
  · contradiction
  · simp only [] at h
    split at h
    · contradiction
    · injection h with h
      subst h
      rw [readPts_length]
      exact rd32_lt _ _

theorem unmarshalPolygon_loop_ok {o : Order} (n : Nat) : ∀ {data : Bytes} {rs : List (List (Pt UInt64))},
    unmarshalPolygon.loop o n data = .ok rs → rs.length = n ∧ ∀ r ∈ rs, r.length < 2 ^ 32 := by
  induction n with
  | zero =>
    intro data rs h
    simp only [unmarshalPolygon.loop] at h
    injection h with h; subst h; simp
  | succ n ih =>
    intro data rs h
    simp only [unmarshalPolygon.loop] at h
    split at h
    · rename_i ps hps
      split at h
      · rename_i rest hrest
        split at h
        · rename_i rs' hrs'
          injection h with h
          subst h
          have := ih hrs'
          have hp := unmarshalPoints_ok hps
          refine ⟨by simp [this.1], ?_⟩
          intro r hr
          rcases List.mem_cons.1 hr with hr | hr
          · subst hr; exact hp
          · exact this.2 r hr
        all_goals contradiction
      all_goals contradiction
    all_goals contradiction


theorem unmarshalPolygon_ok {o : Order} {data : Bytes} {rs : List (List (Pt UInt64))}
    (h : unmarshalPolygon o data = .ok rs) : rs.length < 2 ^ 32 ∧ ∀ r ∈ rs, r.length < 2 ^ 32 := by
  unfold unmarshalPolygon at h
  split at h
  · contradiction
  · have := unmarshalPolygon_loop_ok _ h
    exact ⟨by rw [this.1]; exact rd32_lt _ _, this.2⟩

theorem memberLoop_ok {β : Type} (P : β → Prop) (scan : Bytes → R (β × Nat)) (stride : β → Nat)
    (hscan : ∀ d x s, scan d = .ok (x, s) → P x) (n : Nat) : ∀ {data : Bytes} {xs : List β},
    memberLoop scan stride n data = .ok xs → xs.length = n ∧ ∀ x ∈ xs, P x := by
  induction n with
  | zero =>
    intro data xs h
    simp only [memberLoop] at h
    injection h with h; subst h; simp
  | succ n ih =>
    intro data xs h
    simp only [memberLoop] at h
    split at h
    · rename_i x s hx
      split at h
      · rename_i rest hrest
        split at h
        · rename_i xs' hxs'
          injection h with h
          subst h
          have := ih hxs'
          have hp := hscan _ _ _ hx
          refine ⟨by simp [this.1], ?_⟩
          intro y hy
          rcases List.mem_cons.1 hy with hy | hy
          · subst hy; exact hp
          · exact this.2 y hy
        all_goals contradiction
      all_goals contradiction
    all_goals contradiction

theorem scanSingle_ok {β : Type} (P : β → Prop) (tS tM : Nat) (single : Order → Bytes → R β)
    (multi : Order → Bytes → R (List β))
    (hsingle : ∀ o d x, single o d = .ok x → P x)
    (hmulti : ∀ o d xs, multi o d = .ok xs → ∀ x ∈ xs, P x)
    {data : Bytes} {x : β} {s : Nat} (h : scanSingle tS tM single multi data = .ok (x, s)) : P x := by
  unfold scanSingle at h
  split at h
  · split at h
    · split at h
      · rename_i p hp
        injection h with h; injection h with h _; subst h
        exact hsingle _ _ _ hp
      all_goals contradiction
    · split at h
      · split at h
        · rename_i p hp
          injection h with h; injection h with h _; subst h
          exact hmulti _ _ _ hp _ (by simp)
        all_goals contradiction
      · contradiction
  all_goals contradiction

theorem scanMember_ok {β : Type} (P : β → Prop) (tS : Nat) (single : Order → Bytes → R β)
    (hsingle : ∀ o d x, single o d = .ok x → P x)
    {data : Bytes} {x : β} {s : Nat} (h : scanMember tS single data = .ok (x, s)) : P x := by
  unfold scanMember at h
  split at h
  · split at h
    · contradiction
    · split at h
      · rename_i p hp
        injection h with h; injection h with h _; subst h
        exact hsingle _ _ _ hp
      all_goals contradiction
  all_goals contradiction

theorem unmarshalMultiF_ok {β : Type} (P : β → Prop) (tS : Nat) (single : Order → Bytes → R β)
    (stride : β → Nat) (hsingle : ∀ o d x, single o d = .ok x → P x)
    (o : Order) (data : Bytes) (xs : List β)
    (h : unmarshalMultiF tS single stride o data = .ok xs) : xs.length < 2 ^ 32 ∧ ∀ x ∈ xs, P x := by
  simp only [unmarshalMultiF] at h
  split at h
  · contradiction
  · have := memberLoop_ok P _ _ (fun d x s hx => scanMember_ok P tS single hsingle hx) _ h
    exact ⟨by rw [this.1]; exact rd32_lt _ _, this.2⟩

/-! stream side -/

theorem readU32_ok {o : Order} {s r : Bytes} {n : Nat} (h : readU32 o s = .ok (n, r)) : n < 2 ^ 32 := by
  unfold readU32 at h
  split at h
  · injection h with h; injection h with h _; subst h; exact rd32_lt _ _
  all_goals contradiction

theorem readPtsLoop_ok {o : Order} (n : Nat) : ∀ {s r : Bytes} {ps : List (Pt UInt64)},
    readPtsLoop o n s = .ok (ps, r) → ps.length = n := by
  induction n with
  | zero =>
    intro s r ps h
    simp only [readPtsLoop] at h
    injection h with h; injection h with h _; subst h; rfl
  | succ n ih =>
    intro s r ps h
    simp only [readPtsLoop] at h
    split at h
    · split at h
      · rename_i hps
        injection h with h; injection h with h _; subst h
        simp [ih hps]
      all_goals contradiction
    all_goals contradiction

theorem readLineString_ok {o : Order} {s r : Bytes} {ps : List (Pt UInt64)}
    (h : readLineString o s = .ok (ps, r)) : ps.length < 2 ^ 32 := by
  unfold readLineString at h
  split at h
  · rename_i hn
    rw [readPtsLoop_ok _ h]; exact readU32_ok hn
  all_goals contradiction

theorem readRingsLoop_ok {o : Order} (n : Nat) : ∀ {s r : Bytes} {rs : List (List (Pt UInt64))},
    readRingsLoop o n s = .ok (rs, r) → rs.length = n ∧ ∀ x ∈ rs, x.length < 2 ^ 32 := by
  induction n with
  | zero =>
    intro s r rs h
    simp only [readRingsLoop] at h
    injection h with h; injection h with h _; subst h; simp
  | succ n ih =>
    intro s r rs h
    simp only [readRingsLoop] at h
    split at h
    · rename_i hx
      split at h
      · rename_i hrs
        injection h with h; injection h with h _; subst h
        have := ih hrs
        have hp := readLineString_ok hx
        refine ⟨by simp [this.1], ?_⟩
        intro y hy
        rcases List.mem_cons.1 hy with hy | hy
        · subst hy; exact hp
        · exact this.2 y hy
      all_goals contradiction
    all_goals contradiction

theorem readPolygon_ok {o : Order} {s r : Bytes} {rs : List (List (Pt UInt64))}
    (h : readPolygon o s = .ok (rs, r)) : rs.length < 2 ^ 32 ∧ ∀ x ∈ rs, x.length < 2 ^ 32 := by
  unfold readPolygon at h
  split at h
  · rename_i hn
    have := readRingsLoop_ok _ h
    exact ⟨by rw [this.1]; exact readU32_ok hn, this.2⟩
  all_goals contradiction

theorem readMembers_ok {β : Type} (P : β → Prop) (want : Nat) (rd : Order → Bytes → R (β × Bytes))
    (hrd : ∀ o s x r, rd o s = .ok (x, r) → P x) (n : Nat) : ∀ {s r : Bytes} {xs : List β},
    readMembers want rd n s = .ok (xs, r) → xs.length = n ∧ ∀ x ∈ xs, P x := by
  induction n with
  | zero =>
    intro s r xs h
    simp only [readMembers] at h
    injection h with h; injection h with h _; subst h; simp
  | succ n ih =>
    intro s r xs h
    simp only [readMembers] at h
    split at h
    · split at h
      · contradiction
      · split at h
        · rename_i hx
          split at h
          · rename_i hxs
            injection h with h; injection h with h _; subst h
            have := ih hxs
            have hp := hrd _ _ _ _ hx
            refine ⟨by simp [this.1], ?_⟩
            intro y hy
            rcases List.mem_cons.1 hy with hy | hy
            · subst hy; exact hp
            · exact this.2 y hy
          all_goals contradiction
        all_goals contradiction
    all_goals contradiction


/-- decoded values are canonical and well-formed -/
def Good (g : G) : Prop := canon g = g ∧ WF32 g

theorem canonList_id (gs : List G) (h : ∀ g ∈ gs, canon g = g) : canon.canonList gs = gs := by
  induction gs with
  | nil => rfl
  | cons x xs ih =>
    simp only [canon.canonList, h x (by simp), ih (fun y hy => h y (by simp [hy]))]

theorem good_collection (gs : List G) (hl : gs.length < 2 ^ 32) (h : ∀ g ∈ gs, Good g) :
    Good (.collection gs) := by
  refine ⟨?_, ?_⟩
  · simp only [canon, canonList_id gs (fun g hg => (h g hg).1)]
  · simp only [WF32]
    exact ⟨hl, fun g hg => (h g hg).2⟩

theorem collLoop_ok (P : G → Prop) (dec : Bytes → R (G × Nat × Bytes))
    (hdec : ∀ s g sr r, dec s = .ok (g, sr, r) → P g) (n : Nat) : ∀ {s r : Bytes} {gs : List G},
    collLoop dec n s = .ok (gs, r) → gs.length = n ∧ ∀ g ∈ gs, P g := by
  induction n with
  | zero =>
    intro s r gs h
    simp only [collLoop] at h
    injection h with h; injection h with h _; subst h; simp
  | succ n ih =>
    intro s r gs h
    simp only [collLoop] at h
    split at h
    · rename_i hx
      split at h
      · rename_i hxs
        injection h with h; injection h with h _; subst h
        have := ih hxs
        have hp := hdec _ _ _ _ hx
        refine ⟨by simp [this.1], ?_⟩
        intro y hy
        rcases List.mem_cons.1 hy with hy | hy
        · subst hy; exact hp
        · exact this.2 y hy
      all_goals contradiction
    all_goals contradiction

theorem decodeWith_ok (coll : Order → Bytes → R (List G × Bytes))
    (hcoll : ∀ o s gs r, coll o s = .ok (gs, r) → gs.length < 2 ^ 32 ∧ ∀ g ∈ gs, Good g)
    {s r : Bytes} {g : G} {srid : Nat} (h : decodeWith coll s = .ok (g, srid, r)) : Good g := by
  unfold decodeWith at h
  split at h
  · split at h
    · -- point
      split at h
      · injection h with h; injection h with h _; subst h
        exact ⟨rfl, by simp only [WF32]⟩
      all_goals contradiction
    · split at h
      · -- multiPoint
        split at h
        · rename_i hn
          split at h
          · rename_i hm
            injection h with h; injection h with h _; subst h
            have := readMembers_ok (fun _ => True) _ _ (fun _ _ _ _ _ => trivial) _ hm
            exact ⟨rfl, by simp only [WF32]; rw [this.1]; exact readU32_ok hn⟩
          all_goals contradiction
        all_goals contradiction
      · split at h
        · -- lineString
          split at h
          · rename_i hl
            injection h with h; injection h with h _; subst h
            exact ⟨rfl, by simp only [WF32]; exact readLineString_ok hl⟩
          all_goals contradiction
        · split at h
          · -- multiLineString
            split at h
            · rename_i hn
              split at h
              · rename_i hm
                injection h with h; injection h with h _; subst h
                have := readMembers_ok (fun l => l.length < 2 ^ 32) _ _
                  (fun _ _ _ _ hx => readLineString_ok hx) _ hm
                exact ⟨rfl, by simp only [WF32]; exact ⟨by rw [this.1]; exact readU32_ok hn, this.2⟩⟩
              all_goals contradiction
            all_goals contradiction
          · split at h
            · -- polygon
              split at h
              · rename_i hp
                injection h with h; injection h with h _; subst h
                exact ⟨rfl, by simp only [WF32]; exact readPolygon_ok hp⟩
              all_goals contradiction
            · split at h
              · -- multiPolygon
                split at h
                · rename_i hn
                  split at h
                  · rename_i hm
                    injection h with h; injection h with h _; subst h
                    have := readMembers_ok
                      (fun p : List (List (Pt UInt64)) => p.length < 2 ^ 32 ∧ ∀ r ∈ p, r.length < 2 ^ 32) _ _
                      (fun _ _ _ _ hx => readPolygon_ok hx) _ hm
                    exact ⟨rfl, by simp only [WF32]; exact ⟨by rw [this.1]; exact readU32_ok hn, this.2⟩⟩
                  all_goals contradiction
                all_goals contradiction
              · split at h
                · -- collection
                  split at h
                  · rename_i hc
                    injection h with h; injection h with h _; subst h
                    have := hcoll _ _ _ _ hc
                    exact good_collection _ this.1 this.2
                  all_goals contradiction
                · contradiction
  all_goals contradiction

theorem readCollectionF_ok (fuel : Nat) : ∀ (o : Order) (s : Bytes) (gs : List G) (r : Bytes),
    readCollectionF fuel o s = .ok (gs, r) → gs.length < 2 ^ 32 ∧ ∀ g ∈ gs, Good g := by
  induction fuel with
  | zero => intro o s gs r h; simp only [readCollectionF] at h; contradiction
  | succ fuel ih =>
    intro o s gs r h
    simp only [readCollectionF] at h
    split at h
    · rename_i hn
      have := collLoop_ok Good _ (fun s g sr r hd => decodeWith_ok _ ih hd) _ h
      exact ⟨by rw [this.1]; exact readU32_ok hn, this.2⟩
    all_goals contradiction

/-! what a decoder returns is nested no deeper than the levels it was allowed -/

theorem decodeWith_depth (coll : Order → Bytes → R (List G × Bytes)) (left : Nat)
    (hcoll : ∀ o s gs r, coll o s = .ok (gs, r) → 1 + collDepth.collDepthList gs ≤ left)
    {s r : Bytes} {g : G} {srid : Nat} (h : decodeWith coll s = .ok (g, srid, r)) : collDepth g ≤ left := by
  unfold decodeWith at h
  split at h
  · repeat' split at h
    all_goals first
      | contradiction
      | (rename_i hc
         injection h with h; injection h with h _; subst h
         rw [collDepth_collection]; exact hcoll _ _ _ _ hc)
      | (injection h with h; injection h with h _; subst h
         simp only [collDepth]; exact Nat.zero_le _)
  all_goals contradiction

theorem readCollectionF_depth (left : Nat) : ∀ (o : Order) (s : Bytes) (gs : List G) (r : Bytes),
    readCollectionF left o s = .ok (gs, r) → 1 + collDepth.collDepthList gs ≤ left := by
  induction left with
  | zero => intro o s gs r h; simp only [readCollectionF] at h; contradiction
  | succ left ih =>
    intro o s gs r h
    simp only [readCollectionF] at h
    split at h
    · have := collLoop_ok (fun g => collDepth g ≤ left) _
        (fun s g sr r hd => decodeWith_depth _ left ih hd) _ h
      have := collDepthList_le.2 this.2
      omega
    all_goals contradiction

theorem decodeStream_ok_depth {left : Nat} {s r : Bytes} {g : G} {srid : Nat}
    (h : decodeStream left s = .ok (g, srid, r)) : collDepth g ≤ left :=
  decodeWith_depth _ left (readCollectionF_depth left) h

theorem decode_ok_depth {data : Bytes} {g : G} {s : Nat} (h : decode data = .ok (g, s)) :
    collDepth g ≤ wkb_MaxCollectionDepth := by
  unfold decode at h
  split at h
  · rename_i hd
    injection h with h; injection h with h _; subst h
    exact decodeStream_ok_depth hd
  all_goals contradiction

theorem decode_ok {data : Bytes} {g : G} {s : Nat} (h : decode data = .ok (g, s)) : Good g := by
  unfold decode decodeStream at h
  split at h
  · rename_i hd
    injection h with h; injection h with h _; subst h
    exact decodeWith_ok _ (readCollectionF_ok _) hd
  all_goals contradiction


theorem unmarshal_ok {bs : Bytes} {g : G} {srid : Nat} (h : unmarshal bs = .ok (g, srid)) :
    Good g ∧ srid < 2 ^ 32 := by
  unfold unmarshal at h
  split at h
  · rename_i o typ srid' gd hb
    have hs := unmarshalBOT_srid hb
    simp only [] at h
    split at h
    · -- point
      split at h
      · injection h with h; injection h with h h'; subst h; subst h'
        exact ⟨⟨rfl, by simp only [WF32]⟩, hs⟩
      all_goals contradiction
    · split at h
      · -- multiPoint
        split at h
        · rename_i hm
          injection h with h; injection h with h h'; subst h; subst h'
          have := unmarshalMultiF_ok (fun _ => True) _ _ _ (fun _ _ _ _ => trivial) _ _ _ hm
          exact ⟨⟨rfl, by simp only [WF32]; exact this.1⟩, hs⟩
        all_goals contradiction
      · split at h
        · -- lineString
          split at h
          · rename_i hm
            injection h with h; injection h with h h'; subst h; subst h'
            exact ⟨⟨rfl, by simp only [WF32]; exact unmarshalPoints_ok hm⟩, hs⟩
          all_goals contradiction
        · split at h
          · -- multiLineString
            split at h
            · rename_i hm
              injection h with h; injection h with h h'; subst h; subst h'
              have := unmarshalMultiF_ok (fun l : List (Pt UInt64) => l.length < 2 ^ 32) _ _ _
                (fun _ _ _ hx => unmarshalPoints_ok hx) _ _ _ hm
              exact ⟨⟨rfl, by simp only [WF32]; exact this⟩, hs⟩
            all_goals contradiction
          · split at h
            · -- polygon
              split at h
              · rename_i hm
                injection h with h; injection h with h h'; subst h; subst h'
                exact ⟨⟨rfl, by simp only [WF32]; exact unmarshalPolygon_ok hm⟩, hs⟩
              all_goals contradiction
            · split at h
              · -- multiPolygon
                split at h
                · rename_i hm
                  injection h with h; injection h with h h'; subst h; subst h'
                  have := unmarshalMultiF_ok
                    (fun p : List (List (Pt UInt64)) => p.length < 2 ^ 32 ∧ ∀ r ∈ p, r.length < 2 ^ 32) _ _ _
                    (fun _ _ _ hx => unmarshalPolygon_ok hx) _ _ _ hm
                  exact ⟨⟨rfl, by simp only [WF32]; exact this⟩, hs⟩
                all_goals contradiction
              · split at h
                · -- collection
                  split at h
                  · rename_i hd
                    injection h with h; injection h with h h'; subst h; subst h'
                    exact ⟨decode_ok hd, hs⟩
                  all_goals contradiction
                · contradiction
  all_goals contradiction

/-- what the byte decoder returns is nested no deeper than `MaxCollectionDepth` (only a collection,
    decoded by the stream decoder, is nested at all) -/
theorem unmarshal_ok_depth {bs : Bytes} {g : G} {srid : Nat} (h : unmarshal bs = .ok (g, srid)) :
    collDepth g ≤ wkb_MaxCollectionDepth := by
  unfold unmarshal at h
  split at h
  · simp only [] at h
    repeat' split at h
    all_goals first
      | contradiction
      | (rename_i hd
         injection h with h; injection h with h _; subst h
         exact decode_ok_depth hd)
      | (injection h with h; injection h with h _; subst h
         simp only [collDepth]; exact Nat.zero_le _)
  all_goals contradiction

theorem reencode_stable' (bs : Bytes) (g : G) (srid : Nat) (h : unmarshal bs = .ok (g, srid)) (o : Order) :
    unmarshal (encGeom o srid g) = .ok (g, srid) := by
  obtain ⟨⟨hc, hw⟩, hs⟩ := unmarshal_ok h
  have := unmarshal_encode' o srid g hw hs (unmarshal_ok_depth h)
  rw [hc] at this
  exact this


end Orb.WKB
