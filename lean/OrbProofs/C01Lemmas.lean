/-
  Helper lemmas for C01.  The primed statements are re-exported by OrbProofs/C01.lean.
-/
import Orb.WKB

namespace Orb.WKB

/-! ### spec-side vocabulary -/

/-- every slice length fits the 32-bit count field of the format -/
def WF32 : G → Prop
  | .point _ => True
  | .multiPoint ps => ps.length < 2^32
  | .lineString ps => ps.length < 2^32
  | .ring ps => ps.length < 2^32
  | .multiLineString ls => ls.length < 2^32 ∧ ∀ l ∈ ls, l.length < 2^32
  | .polygon rs => rs.length < 2^32 ∧ ∀ r ∈ rs, r.length < 2^32
  | .multiPolygon ps => ps.length < 2^32 ∧ ∀ p ∈ ps, p.length < 2^32 ∧ ∀ r ∈ p, r.length < 2^32
  | .bound _ _ => True
  | .collection gs => gs.length < 2^32 ∧ ∀ g ∈ gs, WF32 g

theorem encode_nil' (o : Order) (srid : Nat) (k : Kind) :
    encode o srid .nilIface = [] ∧ encode o srid (.nilSlice k) = [] := by
  sorry

theorem unmarshal_encode' (o : Order) (srid : Nat) (g : G) (hw : WF32 g) (hs : srid < 2^32) :
    unmarshal (encGeom o srid g) = .ok (canon g, srid) := by
  sorry

theorem decodeStream_encode' (o : Order) (srid : Nat) (g : G) (hw : WF32 g) (hs : srid < 2^32) (rest : Bytes)
    (fuel : Nat) (hf : (encGeom o srid g).length ≤ fuel) :
    decodeStream fuel (encGeom o srid g ++ rest) = .ok (canon g, srid, rest) := by
  sorry

theorem decode_encode' (o : Order) (srid : Nat) (g : G) (hw : WF32 g) (hs : srid < 2^32) :
    decode (encGeom o srid g) = .ok (canon g, srid) := by
  sorry

theorem scan_table' (bnd : BoundFn) (d : Dest) (o : Order) (srid : Nat) (g : G) (hw : WF32 g) (hs : srid < 2^32) :
    scan bnd d (encGeom o srid g) =
      (match coerce bnd d (canon g) with
       | some v => .ok (v, srid)
       | none => .err .incorrectGeometry) := by
  sorry

theorem paths_agree' (bnd : BoundFn) (o : Order) (srid : Nat) (g : G) (hw : WF32 g) (hs : srid < 2^32) :
    unmarshal (encGeom o srid g) = decode (encGeom o srid g) ∧
    scan bnd .any (encGeom o srid g) = unmarshal (encGeom o srid g) := by
  sorry

theorem framing_hex' (bnd : BoundFn) (d : Dest) (upper : Bool) (o : Order) (srid : Nat) (g : G) :
    scan bnd d (hexEncode upper (encGeom o srid g)) = scan bnd d (encGeom o srid g) := by
  sorry

theorem framing_bslash_x' (bnd : BoundFn) (d : Dest) (o : Order) (srid : Nat) (g : G) :
    scan bnd d (92 :: 120 :: hexEncode false (encGeom o srid g)) = scan bnd d (encGeom o srid g) := by
  sorry

theorem framing_prefix_ewkb' (bnd : BoundFn) (d : Dest) (o : Order) (srid p : Nat) (g : G) (hw : WF32 g)
    (hs : srid < 2^32) (hp : p < 2^32) :
    ewkbScan bnd true d (u32 .little p ++ encGeom o srid g) =
      (match coerce bnd d (canon g) with
       | some v => .ok (v, if srid ≠ 0 then srid else p)
       | none => .err .incorrectGeometry) := by
  sorry

theorem framing_prefix_wkb_partial' (bnd : BoundFn) (d : Dest) (o : Order) (p : Nat) (g : G) (hw : WF32 g)
    (hp : p < 2^32) (h0 : p % 256 ≠ 0) (h1 : p % 256 ≠ 1) (h2 : p % 256 ≠ 48) (h3 : p % 256 ≠ 92) :
    wkbScan bnd d (u32 .little p ++ encGeom o 0 g) =
      (match coerce bnd d (canon g) with
       | some v => .ok v
       | none => .err .incorrectGeometry) := by
  sorry

theorem wkbScan_prefix_witness' (bnd : BoundFn) :
    ∃ v, wkbScan bnd .any (u32 .little 256 ++ encGeom .little 0 (.point ⟨0x3ff0000000000000, 0x4000000000000000⟩)) = .ok v ∧
      v ≠ .point ⟨0x3ff0000000000000, 0x4000000000000000⟩ := by
  sorry

theorem reencode_stable' (bs : Bytes) (g : G) (srid : Nat) (h : unmarshal bs = .ok (g, srid)) (o : Order) :
    unmarshal (encGeom o srid g) = .ok (g, srid) := by
  sorry

end Orb.WKB
