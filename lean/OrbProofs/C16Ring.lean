/-
  C16 lemmas, part D: `clipRings` and the entry points `ring`, `polygon`, `multiPolygon`, `geometry`.
-/
import OrbProofs.C16Wrap
import OrbProofs.C16Line

namespace Orb.SmartClip
open Orb Orb.Core

variable {α : Type} [Field α] [LinearOrder α] [IsStrictOrderedRing α]

/-- an interior ring as `clipRings` returns it: explicitly closed, starting strictly inside the box -/
def InsideRing (box : Bound α) (ls : List (Pt α)) : Prop :=
  ClosedRing ls ∧ ∀ p, ls.head? = some p → InOpenBox box p

/-- plain `clip.Geometry` never gets stuck (C08 `geometry_total`) -/
def PlainClipTotal (eb box : Bound α) : Prop := ∀ g : Geom α, ∃ r, Clip.geometry eb box g = some r

/-! ### helpers -/

set_option linter.unusedSectionVars false

theorem ptEq_iffD (p q : Pt α) : Core.ptEq p q = true ↔ p = q := by
  cases p; cases q; simp [Core.ptEq]

@[simp] theorem resD_ok_bind {ε β γ : Type} (a : β) (f : β → Res ε γ) : (Res.ok a >>= f) = f a := rfl
@[simp] theorem resD_pure {ε β : Type} (a : β) : (pure a : Res ε β) = Res.ok a := rfl
theorem resD_bind_eq_ok {ε β γ : Type} {r : Res ε β} {f : β → Res ε γ} {b : γ} (h : r >>= f = .ok b) :
    ∃ a, r = .ok a ∧ f a = .ok b := by
  cases r with
  | ok a => exact ⟨a, rfl, h⟩
  | err e => exact absurd h (by intro h'; cases h')
  | panic s => exact absurd h (by intro h'; cases h')

theorem onBoundary_of_openD (box : Bound α) (p : Pt α) (h : InOpenBox box p) : onBoundary box p = false := by
  obtain ⟨h1, h2, h3, h4⟩ := h
  simp [onBoundary, ne_of_gt h1, ne_of_gt h2, ne_of_gt h3, ne_of_gt h4]

theorem onBoundary_of_onD (box : Bound α) (p : Pt α) (h : OnBoundary box p) : onBoundary box p = true := by
  obtain ⟨_, h⟩ := h
  simp only [onBoundary, Bool.or_eq_true, beq_iff_eq]
  rcases h with h | h | h | h <;> simp [h]

theorem pointSide_of_openD (box : Bound α) (p : Pt α) (h : InOpenBox box p) : pointSide box p = notOnSide := by
  obtain ⟨h1, h2, h3, h4⟩ := h
  simp [pointSide, ne_of_gt h1, ne_of_lt h2, ne_of_gt h3, ne_of_lt h4]

theorem contains_of_openD (box : Bound α) (p : Pt α) (h : InOpenBox box p) : box.contains p = true := by
  obtain ⟨h1, h2, h3, h4⟩ := h
  simp [Bound.contains, not_lt_of_gt h1, not_lt_of_gt h2, not_lt_of_gt h3, not_lt_of_gt h4]

theorem not_open_of_onD (box : Bound α) (p : Pt α) (h : OnBoundary box p) : ¬ InOpenBox box p := by
  intro ⟨h1, h2, h3, h4⟩
  rcases h.2 with h | h | h | h <;> simp [h] at h1 h2 h3 h4

theorem open_of_contains_falseD (box : Bound α) (p : Pt α) (h : box.contains p = false) : ¬ InOpenBox box p := by
  intro h'; rw [contains_of_openD box p h'] at h; cases h
theorem joinOuter_skip (box : Bound α) (out : List (List (Pt α))) : ∀ (d k fuel : Nat),
    (∀ j, k ≤ j → j < k + d → ∃ ls e, out[j]? = some ls ∧ ls.getLast? = some e ∧ onBoundary box e = true) →
    k + d ≤ out.length →
    joinOuter box (fuel + d) out (k : Int) = joinOuter box fuel out ((k + d : Nat) : Int) := by
  intro d
  induction d with
  | zero => intro k fuel _ _; rfl
  | succ d ih =>
    intro k fuel h hk
    obtain ⟨ls, e, h1, h2, h3⟩ := h k (le_refl _) (by omega)
    have : fuel + (d + 1) = (fuel + d) + 1 := by omega
    rw [this, joinOuter]
    have hlt : ¬ ((k : Int) ≥ (out.length : Int)) := by omega
    have hnn : ¬ ((k : Int) < 0) := by omega
    rw [if_neg hlt, if_neg hnn]
    simp only [Int.toNat_natCast, h1, h2, h3, if_true]
    have := ih (k + 1) fuel (fun j hj1 hj2 => h j (by omega) (by omega)) (by omega)
    rw [show ((k : Int) + 1) = ((k + 1 : Nat) : Int) by push_cast; rfl, this]
    congr 2; omega

theorem joinInner_nomatch (e : Pt α) (out : List (List (Pt α))) (i : Int) : ∀ (fuel j : Nat),
    out.length + 1 ≤ fuel + j → j ≤ out.length →
    (∀ k, j ≤ k → (k : Int) ≠ i → ∀ ls, out[k]? = some ls → ∃ h tl, ls = h :: tl ∧ h ≠ e) →
    joinInner e fuel out i j = .ok (out, i) := by
  intro fuel
  induction fuel with
  | zero => intro j h1 h2 _; omega
  | succ fuel ih =>
    intro j h1 h2 h
    rw [joinInner]
    by_cases hj : j ≥ out.length
    · rw [if_pos hj]
    · rw [if_neg hj]
      have hrec := ih (j + 1) (by omega) (by omega) (fun k hk => h k (by omega))
      by_cases hij : i = (j : Int)
      · rw [if_pos (by simp [hij])]; exact hrec
      · rw [if_neg (by simpa using hij)]
        have hlt : j < out.length := by omega
        obtain ⟨hd, tl, hls, hne⟩ := h j (le_refl _) (fun h' => hij h'.symm) out[j] (List.getElem?_eq_getElem hlt)
        rw [List.getElem?_eq_getElem hlt, hls]
        simp only
        have : Core.ptEq hd e = false := by
          rw [Bool.eq_false_iff]; intro h'; exact hne ((ptEq_iffD _ _).1 h')
        rw [this]; exact hrec

theorem modify_append_singletonD {β : Type} (mid : List β) (x : β) (g : β → β) :
    (mid ++ [x]).modify mid.length g = mid ++ [g x] := by
  induction mid with
  | nil => rfl
  | cons a mid ih => simp [List.modify_succ_cons, ih]

theorem joinOuter_join (box : Bound α) (f : Pt α) (hf : InOpenBox box f) (tl0 : List (Pt α))
    (mid : List (List (Pt α))) (pl : List (Pt α)) (hpl : pl.getLast? = some f)
    (h0 : ∃ e, (f :: tl0).getLast? = some e ∧ onBoundary box e = true)
    (hmid : ∀ m ∈ mid, (∃ e, m.getLast? = some e ∧ onBoundary box e = true) ∧ ∃ h tl, m = h :: tl ∧ h ≠ f)
    (fuel : Nat) (hfuel : mid.length + 3 ≤ fuel) :
    joinOuter box fuel ((f :: tl0) :: (mid ++ [pl])) 0 = .ok ((pl ++ tl0) :: mid) := by
  obtain ⟨fuel2, rfl⟩ : ∃ fuel2, fuel = (fuel2 + 2) + (mid.length + 1) := ⟨fuel - (mid.length + 3), by omega⟩
  have hskip := joinOuter_skip box ((f :: tl0) :: (mid ++ [pl])) (mid.length + 1) 0 (fuel2 + 2) (by
    intro j _ hj
    cases j with
    | zero => obtain ⟨e, he1, he2⟩ := h0; exact ⟨_, e, rfl, he1, he2⟩
    | succ j =>
      have hj' : j < mid.length := by omega
      obtain ⟨⟨e, he1, he2⟩, _⟩ := hmid mid[j] (List.getElem_mem hj')
      refine ⟨mid[j], e, ?_, he1, he2⟩
      rw [List.getElem?_cons_succ, List.getElem?_append_left hj', List.getElem?_eq_getElem hj']) (by simp)
  rw [show (0 : Int) = ((0 : Nat) : Int) by rfl, hskip]
  rw [joinOuter]
  have hlen : ((f :: tl0) :: (mid ++ [pl])).length = mid.length + 2 := by simp
  rw [if_neg (by rw [hlen]; push_cast; omega), if_neg (by omega)]
  have hget : ((f :: tl0) :: (mid ++ [pl]))[((0 + (mid.length + 1) : Nat) : Int).toNat]? = some pl := by
    simp
  rw [hget]
  simp only [hpl, onBoundary_of_openD box f hf, Bool.false_eq_true, if_false]
  -- the inner loop
  have hinner : joinInner f (((f :: tl0) :: (mid ++ [pl])).length + 1) ((f :: tl0) :: (mid ++ [pl]))
      ((0 + (mid.length + 1) : Nat) : Int) 0 = .ok ((pl ++ tl0) :: mid, (mid.length : Int)) := by
    rw [joinInner]
    rw [if_neg (by simp)]
    rw [if_neg (by simp; omega)]
    simp only [List.getElem?_cons_zero]
    rw [if_pos ((ptEq_iffD f f).2 rfl)]
    rw [if_neg (by rw [hlen]; push_cast; omega)]
    have h1 : ((f :: tl0) :: (mid ++ [pl])).modify ((0 + (mid.length + 1) : Nat) : Int).toNat (· ++ tl0)
        = ((f :: tl0) :: mid) ++ [pl ++ tl0] := by
      simp [List.modify_succ_cons, modify_append_singletonD]
    simp only [h1]
    rw [List.getLast?_concat, Option.getD_some, List.cons_append, List.set_cons_zero]
    have h2 : ((pl ++ tl0) :: (mid ++ [pl ++ tl0])).dropLast = (pl ++ tl0) :: mid := by
      rw [← List.cons_append, List.dropLast_concat]
    rw [h2]
    have := joinInner_nomatch f ((pl ++ tl0) :: mid) (mid.length : Int) (mid.length + 2) 1
      (by simp) (by simp) (by
        intro k hk hki ls hls
        cases k with
        | zero => omega
        | succ k =>
          rw [List.getElem?_cons_succ] at hls
          exact (hmid ls (List.mem_of_getElem? hls)).2)
    rw [← this]
    congr 1
    · simp
  rw [hinner]
  simp only [resD_ok_bind]
  rw [joinOuter]
  rw [if_pos (by simp)]


def closingD (box : Bound α) (r : List (Pt α)) : Res String (List (Pt α)) :=
  if !(ringClosed r) then
      match r.head?, r.getLast? with
      | some f, some l => if box.contains f || box.contains l then pure (r ++ [f]) else pure r
      | _, _ => .panic "index out of range"
    else pure r

def clipTailD (box : Bound α) (r' : List (Pt α)) : Res String (List (List (Pt α))) :=
  match Clip.line box true r' with
  | none => .err "clip stuck"
  | some [] => pure []
  | some out =>
    match r'.head?, r'.getLast? with
    | some f, some l => if Core.ptEq f l then joinOuter box (2 * out.length + 2) out 0 else pure out
    | _, _ => .panic "index out of range"

theorem clipOne_eq (box : Bound α) (r : List (Pt α)) :
    clipOne box r = if r.isEmpty then .ok [] else closingD box r >>= clipTailD box := rfl

theorem closing_spec (box : Bound α) (r : List (Pt α)) (hne : r ≠ []) :
    ∃ r' f l, closingD box r = .ok r' ∧ r'.head? = some f ∧ r'.getLast? = some l ∧
      (r' = r ∨ (r.head? = some f ∧ r' = r ++ [f])) ∧
      ((f = l ∧ 2 ≤ r'.length) ∨ (¬ InOpenBox box f ∧ ¬ InOpenBox box l)) := by
  cases r with
  | nil => exact absurd rfl hne
  | cons f t =>
  obtain ⟨l, hl⟩ : ∃ l, (f :: t).getLast? = some l := ⟨_, List.getLast?_eq_some_getLast hne⟩
  unfold closingD
  cases hc : ringClosed (f :: t) with
  | true =>
    refine ⟨f :: t, f, l, by simp, rfl, hl, Or.inl rfl, Or.inl ?_⟩
    simp only [ringClosed, hl, List.head?_cons, Bool.and_eq_true, decide_eq_true_eq, ptEq_iffD] at hc
    exact ⟨hc.2, by omega⟩
  | false =>
    simp only [Bool.not_false, if_true, List.head?_cons, hl]
    cases hcc : (box.contains f || box.contains l) with
    | true =>
      exact ⟨(f :: t) ++ [f], f, f, by simp, by simp, List.getLast?_concat, Or.inr ⟨rfl, rfl⟩, Or.inl ⟨rfl, by simp⟩⟩
    | false =>
      rw [Bool.or_eq_false_iff] at hcc
      exact ⟨f :: t, f, l, by simp, rfl, hl, Or.inl rfl,
        Or.inr ⟨open_of_contains_falseD box f hcc.1, open_of_contains_falseD box l hcc.2⟩⟩

theorem getLast?_append_consD {β : Type} (a : List β) (x : β) (t : List β) :
    (a ++ x :: t).getLast? = (x :: t).getLast? := by
  rw [List.getLast?_append, List.getLast?_eq_some_getLast (List.cons_ne_nil x t)]; rfl

theorem eq_nil_or_snocD {β : Type} (l : List β) : l = [] ∨ ∃ m x, l = m ++ [x] := by
  cases l with
  | nil => left; rfl
  | cons a t =>
    right
    exact ⟨(a :: t).dropLast, (a :: t).getLast (by simp), (List.dropLast_concat_getLast _).symm⟩

theorem joinOuter_all_boundary (box : Bound α) (out : List (List (Pt α)))
    (h : ∀ ls ∈ out, ∃ e, ls.getLast? = some e ∧ onBoundary box e = true) :
    joinOuter box (2 * out.length + 2) out 0 = .ok out := by
  have := joinOuter_skip box out out.length 0 (out.length + 2) (by
    intro j _ hj
    have hj' : j < out.length := by omega
    obtain ⟨e, he1, he2⟩ := h out[j] (List.getElem_mem hj')
    exact ⟨out[j], e, List.getElem?_eq_getElem hj', he1, he2⟩) (by simp)
  rw [show 2 * out.length + 2 = out.length + 2 + out.length by omega,
    show (0 : Int) = ((0 : Nat) : Int) by rfl, this, joinOuter, if_pos (by simp)]

theorem joinOuter_single (box : Bound α) (p : List (Pt α)) (f : Pt α) (hp : p.getLast? = some f) (fuel : Nat) :
    joinOuter box (fuel + 2) [p] 0 = .ok [p] := by
  rw [joinOuter, if_neg (by simp), if_neg (by simp)]
  simp only [Int.toNat_zero, List.getElem?_cons_zero, hp]
  cases hb : onBoundary box f with
  | true =>
    simp only [if_true]
    rw [joinOuter, if_pos (by simp)]
  | false =>
    simp only [Bool.false_eq_true, if_false]
    rw [joinInner_nomatch f [p] 0 _ 0 (by simp) (by simp) (by
      intro k _ hk ls hls
      cases k with
      | zero => exact absurd rfl hk
      | succ k => simp at hls)]
    simp only [resD_ok_bind]
    rw [joinOuter, if_pos (by simp)]

theorem clipTail_spec (box : Bound α) (hl : LineSpec box) (r' : List (Pt α)) (f l : Pt α)
    (hf : r'.head? = some f) (hll : r'.getLast? = some l)
    (hc : (f = l ∧ 2 ≤ r'.length) ∨ (¬ InOpenBox box f ∧ ¬ InOpenBox box l)) :
    ∃ out, clipTailD box r' = .ok out ∧ ∀ ls ∈ out, PieceOK box ls ∨ InsideRing box ls := by
  obtain ⟨out, hline, hlen, hbox, hhead, hlast, hfirst, hend⟩ := hl r'
  unfold clipTailD
  rw [hline]
  cases out with
  | nil => exact ⟨[], rfl, by simp⟩
  | cons p0 rest =>
  simp only [hf, hll]
  by_cases hfo : InOpenBox box f ∧ f = l
  · obtain ⟨hfo, rfl⟩ := hfo
    have h2 : 2 ≤ r'.length := by
      rcases hc with hc | hc
      · exact hc.2
      · exact absurd hfo hc.1
    rw [if_pos ((ptEq_iffD f f).2 rfl)]
    obtain ⟨pc, hpc, hp0⟩ := hfirst h2 f hf hfo
    simp only [List.getElem?_cons_zero, Option.some.injEq] at hpc
    subst hpc
    obtain ⟨pl, hpl1, hpl2⟩ := hend h2 f hll hfo
    rcases eq_nil_or_snocD rest with rfl | ⟨mid, pl', rfl⟩
    · simp only [List.getLast?_singleton, Option.some.injEq] at hpl1
      subst hpl1
      refine ⟨[p0], joinOuter_single box p0 f hpl2 _, ?_⟩
      intro ls hls
      simp only [List.mem_singleton] at hls
      subst hls
      refine Or.inr ⟨⟨?_, by rw [hp0, hpl2]⟩, ?_⟩
      · intro h; rw [h] at hp0; cases hp0
      · intro p hp; rw [hp0] at hp; cases hp; exact hfo
    · have : pl = pl' := by
        rw [← List.cons_append, List.getLast?_concat] at hpl1
        exact (Option.some.inj hpl1).symm
      subst this
      obtain ⟨tl0, rfl⟩ : ∃ tl0, p0 = f :: tl0 := by
        cases p0 with
        | nil => cases hp0
        | cons a t => simp only [List.head?_cons, Option.some.injEq] at hp0; exact ⟨t, by rw [hp0]⟩
      have hlenout : ((f :: tl0) :: (mid ++ [pl])).length = mid.length + 2 := by simp
      -- ends of the pieces before the last one
      have hends : ∀ k ls, k < mid.length + 1 → ((f :: tl0) :: (mid ++ [pl]))[k]? = some ls →
          ∃ e, ls.getLast? = some e ∧ OnBoundary box e := by
        intro k ls hk hls
        have h2l := hlen ls (List.mem_of_getElem? hls)
        have hne : ls ≠ [] := by intro h; rw [h] at h2l; simp at h2l
        refine ⟨ls.getLast hne, List.getLast?_eq_some_getLast hne, ?_⟩
        rcases hlast k ls hls _ (List.getLast?_eq_some_getLast hne) with h | h
        · exact h
        · rw [hlenout] at h; omega
      have hheads : ∀ k ls, ((f :: tl0) :: (mid ++ [pl]))[k + 1]? = some ls →
          ∃ h tl, ls = h :: tl ∧ OnBoundary box h := by
        intro k ls hls
        have h2l := hlen ls (List.mem_of_getElem? hls)
        cases ls with
        | nil => simp at h2l
        | cons h tl =>
          refine ⟨h, tl, rfl, ?_⟩
          rcases hhead (k + 1) _ hls h rfl with h' | h'
          · exact h'
          · omega
      have hmidk : ∀ m ∈ mid, ∃ k, k < mid.length ∧ ((f :: tl0) :: (mid ++ [pl]))[k + 1]? = some m := by
        intro m hm
        obtain ⟨k, hk, rfl⟩ := List.getElem_of_mem hm
        exact ⟨k, hk, by rw [List.getElem?_cons_succ, List.getElem?_append_left hk, List.getElem?_eq_getElem hk]⟩
      have hplk : ((f :: tl0) :: (mid ++ [pl]))[mid.length + 1]? = some pl := by simp
      have hjoin := joinOuter_join box f hfo tl0 mid pl hpl2
        (by
          obtain ⟨e, he1, he2⟩ := hends 0 (f :: tl0) (by omega) rfl
          exact ⟨e, he1, onBoundary_of_onD box e he2⟩)
        (by
          intro m hm
          obtain ⟨k, hk, hmk⟩ := hmidk m hm
          obtain ⟨e, he1, he2⟩ := hends (k + 1) m (by omega) hmk
          obtain ⟨h, tl, hm1, hm2⟩ := hheads k m hmk
          refine ⟨⟨e, he1, onBoundary_of_onD box e he2⟩, h, tl, hm1, ?_⟩
          rintro rfl
          exact not_open_of_onD box _ hm2 hfo)
        (2 * ((f :: tl0) :: (mid ++ [pl])).length + 2) (by rw [hlenout]; omega)
      refine ⟨_, hjoin, ?_⟩
      intro ls hls
      left
      rcases List.mem_cons.1 hls with rfl | hls
      · -- the joined piece
        obtain ⟨h, tl, hpl3, hpl4⟩ := hheads mid.length pl hplk
        obtain ⟨e, he1, he2⟩ := hends 0 (f :: tl0) (by omega) rfl
        have h2l := hlen (f :: tl0) (List.mem_cons_self)
        have htl0 : tl0 ≠ [] := by intro h; rw [h] at h2l; simp at h2l
        refine ⟨?_, ?_, ?_⟩
        · subst hpl3; simp only [List.length_append, List.length_cons] at *
          have := List.length_pos_iff.2 htl0
          omega
        · intro p hp; subst hpl3; simp only [List.cons_append, List.head?_cons, Option.some.injEq] at hp
          subst hp; exact hpl4
        · intro p hp
          cases tl0 with
          | nil => exact absurd rfl htl0
          | cons x t =>
            rw [getLast?_append_consD] at hp
            rw [List.getLast?_cons_cons, hp] at he1
            cases he1; exact he2
      · obtain ⟨k, hk, hmk⟩ := hmidk ls hls
        obtain ⟨e, he1, he2⟩ := hends (k + 1) ls (by omega) hmk
        obtain ⟨h, tl, hm1, hm2⟩ := hheads k ls hmk
        refine ⟨hlen ls (List.mem_of_getElem? hmk), ?_, ?_⟩
        · intro p hp; subst hm1; cases hp; exact hm2
        · intro p hp; rw [hp] at he1; cases he1; exact he2
  · -- every piece starts and ends on the boundary
    have hok : ∀ ls ∈ p0 :: rest, PieceOK box ls := by
      intro ls hls
      obtain ⟨k, hk⟩ := List.getElem?_of_mem hls
      refine ⟨hlen ls hls, ?_, ?_⟩
      · intro p hp
        rcases hhead k ls hk p hp with h | ⟨_, h1, h2⟩
        · exact h
        · rw [hf] at h1; cases h1
          rcases hc with hc | hc
          · exact absurd ⟨h2, hc.1⟩ hfo
          · exact absurd h2 hc.1
      · intro p hp
        rcases hlast k ls hk p hp with h | ⟨_, h1, h2⟩
        · exact h
        · rw [hll] at h1; cases h1
          rcases hc with hc | hc
          · exact absurd ⟨hc.1 ▸ h2, hc.1⟩ hfo
          · exact absurd h2 hc.2
    refine ⟨p0 :: rest, ?_, fun ls hls => Or.inl (hok ls hls)⟩
    cases hpe : Core.ptEq f l with
    | false => simp
    | true =>
      simp only [if_true]
      apply joinOuter_all_boundary
      intro ls hls
      obtain ⟨h2l, _, h3⟩ := hok ls hls
      have hne : ls ≠ [] := by intro h; rw [h] at h2l; simp at h2l
      exact ⟨ls.getLast hne, List.getLast?_eq_some_getLast hne,
        onBoundary_of_onD box _ (h3 _ (List.getLast?_eq_some_getLast hne))⟩

theorem clipOne_spec_aux (box : Bound α) (_hb : BoxOK box) (hl : LineSpec box) (r : List (Pt α)) :
    ∃ out, clipOne box r = .ok out ∧ ∀ ls ∈ out, PieceOK box ls ∨ InsideRing box ls := by
  rw [clipOne_eq]
  cases r with
  | nil => exact ⟨[], rfl, by simp⟩
  | cons a t =>
    obtain ⟨r', f, l, h1, h2, h3, _, h5⟩ := closing_spec box (a :: t) (List.cons_ne_nil _ _)
    simp only [List.isEmpty_cons, Bool.false_eq_true, if_false, h1, resD_ok_bind]
    exact clipTail_spec box hl r' f l h2 h3 h5

theorem clipAll_spec (box : Bound α) (hb : BoxOK box) (hl : LineSpec box) (rings : List (List (Pt α))) :
    ∃ all, clipAll box rings = .ok all ∧ ∀ ls ∈ all, PieceOK box ls ∨ InsideRing box ls := by
  induction rings with
  | nil => exact ⟨[], rfl, by simp⟩
  | cons r rest ih =>
    obtain ⟨a, ha1, ha2⟩ := clipOne_spec_aux box hb hl r
    obtain ⟨b, hb1, hb2⟩ := ih
    refine ⟨a ++ b, by simp [clipAll, ha1, hb1], ?_⟩
    intro ls hls
    rcases List.mem_append.1 hls with h | h
    · exact ha2 ls h
    · exact hb2 ls h

/-- `len(ls) == 2 && ls[0] == ls[1] && pointSide(box, ls[0]) != notOnSide` -/
def touchBD (box : Bound α) (ls : List (Pt α)) : Bool :=
  match ls with
  | [p, q] => Core.ptEq p q && pointSide box p != notOnSide
  | _ => false

theorem partition_unfold (box : Bound α) (ls : List (Pt α)) (rest : List (List (Pt α))) :
    partitionPieces box (ls :: rest) =
      (closedInside box ls >>= fun c => partitionPieces box rest >>= fun (op, cl) =>
        if touchBD box ls then pure (op, cl) else if c then pure (op, ls :: cl) else pure (ls :: op, cl)) := rfl

/-- what `partitionPieces` does with one piece whose ends are known -/
theorem partition_cons (box : Bound α) (ls : List (Pt α)) (rest op cl : List (List (Pt α))) (f l : Pt α)
    (hf : ls.head? = some f) (hl : ls.getLast? = some l) (hr : partitionPieces box rest = .ok (op, cl)) :
    partitionPieces box (ls :: rest) =
      .ok (if touchBD box ls then (op, cl)
           else if (Core.ptEq f l && pointSide box f == notOnSide) then (op, ls :: cl) else (ls :: op, cl)) := by
  rw [partition_unfold]
  simp only [closedInside, hf, hl, hr, resD_ok_bind, resD_pure]
  split_ifs <;> rfl

theorem partition_total (box : Bound α) (all : List (List (Pt α)))
    (h : ∀ ls ∈ all, PieceOK box ls ∨ InsideRing box ls) :
    ∃ op cl, partitionPieces box all = .ok (op, cl) ∧ (∀ ls ∈ op, PieceOK box ls) ∧
      (∀ ls ∈ cl, InsideRing box ls) := by
  induction all with
  | nil => exact ⟨[], [], rfl, by simp, by simp⟩
  | cons ls rest ih =>
    obtain ⟨op, cl, h1, h2, h3⟩ := ih (fun x hx => h x (List.mem_cons_of_mem _ hx))
    have hne : ls ≠ [] := by
      rcases h ls List.mem_cons_self with h' | h'
      · intro e; have := h'.1; rw [e] at this; simp at this
      · exact h'.1.1
    obtain ⟨f, hf⟩ : ∃ f, ls.head? = some f := by
      cases ls with
      | nil => exact absurd rfl hne
      | cons a t => exact ⟨a, rfl⟩
    obtain ⟨l, hl⟩ : ∃ l, ls.getLast? = some l := ⟨_, List.getLast?_eq_some_getLast hne⟩
    rw [partition_cons box ls rest op cl f l hf hl h1]
    split_ifs with ht hc
    · exact ⟨op, cl, rfl, h2, h3⟩
    · refine ⟨op, ls :: cl, rfl, h2, ?_⟩
      intro x hx
      rcases List.mem_cons.1 hx with rfl | hx
      · rcases h x List.mem_cons_self with h' | h'
        · exfalso
          simp only [Bool.and_eq_true, beq_iff_eq] at hc
          have := pointSide_onBoundary' box f (h'.2.1 f hf)
          rw [hc.2, notOnSide] at this; omega
        · exact h'
      · exact h3 x hx
    · refine ⟨ls :: op, cl, rfl, ?_, h3⟩
      intro x hx
      rcases List.mem_cons.1 hx with rfl | hx
      · rcases h x List.mem_cons_self with h' | h'
        · exact h'
        · exfalso
          apply hc
          have hfl : f = l := by
            have := h'.1.2; rw [hf, hl] at this; exact Option.some.inj this
          simp only [Bool.and_eq_true, beq_iff_eq, ptEq_iffD]
          exact ⟨hfl, pointSide_of_openD box f (h'.2 f hf)⟩
      · exact h2 x hx

theorem clipRings_spec_aux (box : Bound α) (hb : BoxOK box) (hl : LineSpec box) (rings : List (List (Pt α))) :
    ∃ op cl, clipRings box rings = .ok (op, cl) ∧ (∀ ls ∈ op, PieceOK box ls) ∧ (∀ ls ∈ cl, InsideRing box ls) := by
  obtain ⟨all, h1, h2⟩ := clipAll_spec box hb hl rings
  obtain ⟨op, cl, h3, h4, h5⟩ := partition_total box all h2
  exact ⟨op, cl, by simp [clipRings, h1, h3], h4, h5⟩

theorem partition_spec_aux (box : Bound α) (all : List (List (Pt α))) : ∀ (op cl : List (List (Pt α))),
    partitionPieces box all = .ok (op, cl) →
    (∀ ls ∈ op, ls ∈ all) ∧ (∀ ls ∈ cl, ls ∈ all ∧ ClosedRing ls) := by
  induction all with
  | nil =>
    intro op cl h
    simp only [partitionPieces, Res.ok.injEq, Prod.mk.injEq] at h
    obtain ⟨rfl, rfl⟩ := h
    simp
  | cons ls rest ih =>
    intro op cl h
    rw [partition_unfold] at h
    obtain ⟨c, hc, h⟩ := resD_bind_eq_ok h
    obtain ⟨⟨op0, cl0⟩, hr, h⟩ := resD_bind_eq_ok h
    obtain ⟨ih1, ih2⟩ := ih op0 cl0 hr
    simp only [resD_pure] at h
    split_ifs at h with ht hcc
    · simp only [Res.ok.injEq, Prod.mk.injEq] at h
      obtain ⟨rfl, rfl⟩ := h
      exact ⟨fun x hx => List.mem_cons_of_mem _ (ih1 x hx),
        fun x hx => ⟨List.mem_cons_of_mem _ (ih2 x hx).1, (ih2 x hx).2⟩⟩
    · simp only [Res.ok.injEq, Prod.mk.injEq] at h
      obtain ⟨rfl, rfl⟩ := h
      refine ⟨fun x hx => List.mem_cons_of_mem _ (ih1 x hx), ?_⟩
      intro x hx
      rcases List.mem_cons.1 hx with rfl | hx
      · refine ⟨List.mem_cons_self, ?_⟩
        unfold closedInside at hc
        cases x with
        | nil => simp at hc
        | cons a t =>
          obtain ⟨l, hl⟩ : ∃ l, (a :: t).getLast? = some l := ⟨_, List.getLast?_eq_some_getLast (List.cons_ne_nil _ _)⟩
          simp only [List.head?_cons, hl, Res.ok.injEq] at hc
          subst hc
          simp only [Bool.and_eq_true, ptEq_iffD] at hcc
          exact ⟨List.cons_ne_nil _ _, by rw [hl, List.head?_cons, hcc.1]⟩
      · exact ⟨List.mem_cons_of_mem _ (ih2 x hx).1, (ih2 x hx).2⟩
    · simp only [Res.ok.injEq, Prod.mk.injEq] at h
      obtain ⟨rfl, rfl⟩ := h
      refine ⟨?_, fun x hx => ⟨List.mem_cons_of_mem _ (ih2 x hx).1, (ih2 x hx).2⟩⟩
      intro x hx
      rcases List.mem_cons.1 hx with rfl | hx
      · exact List.mem_cons_self
      · exact List.mem_cons_of_mem _ (ih1 x hx)

/-! ### addToMultiPolygon / addAll -/

/-- the replacement test of the `addToMultiPolygon` loop: the polygon with this outer ring contains the
    ring and is (by the vertex test) inside the best one so far -/
def takeB (ring : List (Pt α)) (best : Option (Nat × List (Pt α))) (outer : List (Pt α)) : Bool :=
  polygonContains outer ring &&
    (match best with
     | none => true
     | some (_, bo) => polygonContains bo outer)

theorem bestContainer_nil (ring : List (Pt α)) (i : Nat) (best : Option (Nat × List (Pt α))) :
    bestContainer ring [] i best = .ok best := rfl

theorem bestContainer_cons_nil (ring : List (Pt α)) (rest : List (List (List (Pt α)))) (i : Nat)
    (best : Option (Nat × List (Pt α))) :
    bestContainer ring ([] :: rest) i best = .panic "index out of range" := rfl

theorem bestContainer_cons (ring outer : List (Pt α)) (holes : List (List (Pt α)))
    (rest : List (List (List (Pt α)))) (i : Nat) (best : Option (Nat × List (Pt α))) :
    bestContainer ring ((outer :: holes) :: rest) i best =
      bestContainer ring rest (i + 1) (if takeB ring best outer then some (i, outer) else best) := rfl

/-- the loop of `addToMultiPolygon` does not panic when every polygon has an outer ring -/
theorem bestContainer_total (ring : List (Pt α)) : ∀ (mp : List (List (List (Pt α)))) (i : Nat)
    (best : Option (Nat × List (Pt α))), (∀ pg ∈ mp, pg ≠ []) → ∃ b, bestContainer ring mp i best = .ok b := by
  intro mp
  induction mp with
  | nil => intro i best _; exact ⟨best, rfl⟩
  | cons pg rest ih =>
    intro i best h
    cases pg with
    | nil => exact absurd rfl (h [] List.mem_cons_self)
    | cons outer holes =>
      rw [bestContainer_cons]
      exact ih _ _ (fun x hx => h x (List.mem_cons_of_mem _ hx))

/-- what the loop of `addToMultiPolygon` returns: either the incoming `best` (no polygon passed the
    replacement test), or the index and outer ring of a polygon `k` of the list whose outer ring contains
    a vertex of the ring, and no later polygon passes the replacement test against it -/
theorem bestContainer_spec (ring : List (Pt α)) : ∀ (mp : List (List (List (Pt α)))) (i : Nat)
    (best b : Option (Nat × List (Pt α))), bestContainer ring mp i best = .ok b →
    (b = best ∧ ∀ pg ∈ mp, ∃ outer holes, pg = outer :: holes ∧ takeB ring best outer = false) ∨
    (∃ k outer holes, mp[k]? = some (outer :: holes) ∧ b = some (i + k, outer) ∧
      polygonContains outer ring = true ∧
      ∀ k' pg, k < k' → mp[k']? = some pg → ∃ o' hs, pg = o' :: hs ∧ takeB ring (some (i + k, outer)) o' = false) := by
  intro mp
  induction mp with
  | nil =>
    intro i best b h
    rw [bestContainer_nil, Res.ok.injEq] at h
    exact Or.inl ⟨h.symm, by simp⟩
  | cons pg rest ih =>
    intro i best b h
    cases pg with
    | nil => rw [bestContainer_cons_nil] at h; cases h
    | cons outer holes =>
      rw [bestContainer_cons] at h
      rcases ih _ _ _ h with ⟨hb, hno⟩ | ⟨k, o, hs, hk, hb, hc, hlater⟩
      · by_cases ht : takeB ring best outer = true
        · rw [if_pos ht] at hb hno
          refine Or.inr ⟨0, outer, holes, rfl, hb, ?_, ?_⟩
          · simp only [takeB, Bool.and_eq_true] at ht
            exact ht.1
          · intro k' pg hk' hpg
            cases k' with
            | zero => exact absurd hk' (Nat.lt_irrefl 0)
            | succ k' =>
              rw [List.getElem?_cons_succ] at hpg
              exact hno pg (List.mem_of_getElem? hpg)
        · rw [if_neg ht] at hb hno
          refine Or.inl ⟨hb, ?_⟩
          intro pg hpg
          rcases List.mem_cons.1 hpg with rfl | hpg
          · exact ⟨outer, holes, rfl, by simpa using ht⟩
          · exact hno pg hpg
      · refine Or.inr ⟨k + 1, o, hs, by rw [List.getElem?_cons_succ]; exact hk, ?_, hc, ?_⟩
        · rw [hb]; congr 2; omega
        · intro k' pg hk' hpg
          cases k' with
          | zero => exact absurd hk' (Nat.not_lt_zero _)
          | succ k' =>
            rw [List.getElem?_cons_succ] at hpg
            have e : i + (k + 1) = i + 1 + k := by omega
            rw [e]
            exact hlater k' pg (Nat.lt_of_succ_lt_succ hk') hpg

theorem addTo_unfold (mp : List (List (List (Pt α)))) (ring : List (Pt α)) :
    addToMultiPolygon mp ring = bestContainer ring mp 0 none >>= fun b =>
      match b with
      | none => pure mp
      | some (i, _) => pure (mp.modify i (· ++ [ring])) := rfl

/-- `addToMultiPolygon`, case by case: either no outer ring contains a vertex of the ring and nothing
    changes, or the ring is appended to polygon `j`, whose outer ring contains one of its vertices, and
    no later polygon both contains a vertex of the ring and has an outer vertex inside polygon `j`'s
    outer ring (the scan keeps the innermost candidate) -/
theorem addTo_spec (mp : List (List (List (Pt α)))) (ring : List (Pt α)) (out : List (List (List (Pt α))))
    (h : addToMultiPolygon mp ring = .ok out) :
    (out = mp ∧ ∀ pg ∈ mp, ∃ outer holes, pg = outer :: holes ∧ polygonContains outer ring = false) ∨
    (∃ j outer holes, mp[j]? = some (outer :: holes) ∧ out = mp.modify j (· ++ [ring]) ∧
      polygonContains outer ring = true ∧
      ∀ k pg, j < k → mp[k]? = some pg → ∃ o' hs, pg = o' :: hs ∧
        (polygonContains o' ring && polygonContains outer o') = false) := by
  rw [addTo_unfold] at h
  obtain ⟨b, hb, h⟩ := resD_bind_eq_ok h
  rcases bestContainer_spec ring mp 0 none b hb with ⟨rfl, hno⟩ | ⟨k, outer, holes, hk, rfl, hc, hlater⟩
  · simp only [resD_pure, Res.ok.injEq] at h
    refine Or.inl ⟨h.symm, ?_⟩
    intro pg hpg
    obtain ⟨o, hs, e, ht⟩ := hno pg hpg
    exact ⟨o, hs, e, by simpa [takeB] using ht⟩
  · simp only [resD_pure, Res.ok.injEq, Nat.zero_add] at h
    refine Or.inr ⟨k, outer, holes, hk, h.symm, hc, ?_⟩
    intro k' pg hk' hpg
    obtain ⟨o', hs, e, ht⟩ := hlater k' pg hk' hpg
    exact ⟨o', hs, e, by simpa [takeB] using ht⟩

theorem mem_modify_append {β : Type} (x : β) : ∀ (l : List (List β)) (j : Nat), ∀ pg ∈ l.modify j (· ++ [x]),
    pg ∈ l ∨ ∃ pg0 ∈ l, pg = pg0 ++ [x] := by
  intro l
  induction l with
  | nil => intro j pg hpg; simp at hpg
  | cons a l ih =>
    intro j pg hpg
    cases j with
    | zero =>
      rw [List.modify_zero_cons] at hpg
      rcases List.mem_cons.1 hpg with rfl | hpg
      · exact Or.inr ⟨a, List.mem_cons_self, rfl⟩
      · exact Or.inl (List.mem_cons_of_mem _ hpg)
    | succ j =>
      rw [List.modify_succ_cons] at hpg
      rcases List.mem_cons.1 hpg with rfl | hpg
      · exact Or.inl List.mem_cons_self
      · rcases ih j pg hpg with h' | ⟨pg0, h', rfl⟩
        · exact Or.inl (List.mem_cons_of_mem _ h')
        · exact Or.inr ⟨pg0, List.mem_cons_of_mem _ h', rfl⟩

theorem addTo_mem (mp : List (List (List (Pt α)))) (ring : List (Pt α)) : ∀ out,
    addToMultiPolygon mp ring = .ok out → ∀ pg ∈ out, pg ∈ mp ∨ ∃ pg0 ∈ mp, pg = pg0 ++ [ring] := by
  intro out h pg hpg
  rcases addTo_spec mp ring out h with ⟨rfl, _⟩ | ⟨j, _, _, _, rfl, _, _⟩
  · exact Or.inl hpg
  · exact mem_modify_append ring mp j pg hpg

theorem addTo_total (mp : List (List (List (Pt α)))) (ring : List (Pt α)) (h : ∀ pg ∈ mp, pg ≠ []) :
    ∃ out, addToMultiPolygon mp ring = .ok out ∧ out.length = mp.length ∧
      ∀ pg ∈ out, pg ∈ mp ∨ ∃ pg0 ∈ mp, pg = pg0 ++ [ring] := by
  obtain ⟨b, hb⟩ := bestContainer_total ring mp 0 none h
  have hex : ∃ out, addToMultiPolygon mp ring = .ok out := by
    rw [addTo_unfold, hb]
    cases b with
    | none => exact ⟨_, rfl⟩
    | some p => exact ⟨_, rfl⟩
  obtain ⟨out, ho⟩ := hex
  refine ⟨out, ho, ?_, addTo_mem mp ring out ho⟩
  rcases addTo_spec mp ring out ho with ⟨rfl, _⟩ | ⟨j, _, _, _, rfl, _, _⟩
  · rfl
  · exact List.length_modify _ _ _

theorem addAll_cons (mp : List (List (List (Pt α)))) (r : List (Pt α)) (rings : List (List (Pt α))) :
    addAll mp (r :: rings) = addToMultiPolygon mp r >>= fun mp' => addAll mp' rings := rfl

theorem addAll_total_aux (rings : List (List (Pt α))) : ∀ (mp : List (List (List (Pt α)))),
    (∀ pg ∈ mp, pg ≠ []) →
    ∃ out, addAll mp rings = .ok out ∧ (∀ pg ∈ out, pg ≠ []) ∧ out.length = mp.length := by
  induction rings with
  | nil => intro mp h; exact ⟨mp, rfl, h, rfl⟩
  | cons r rest ih =>
    intro mp h
    obtain ⟨mp', h1, h2, h3⟩ := addTo_total mp r h
    obtain ⟨out, h4, h5, h6⟩ := ih mp' (by
      intro pg hpg
      rcases h3 pg hpg with h' | ⟨pg0, _, rfl⟩
      · exact h pg h'
      · simp)
    exact ⟨out, by rw [addAll_cons, h1]; exact h4, h5, by rw [h6, h2]⟩

/-- `addAll` only moves the given rings into existing polygons -/
theorem addAll_pres (P : List (Pt α) → Prop) (rings : List (List (Pt α))) :
    ∀ (mp out : List (List (List (Pt α)))), addAll mp rings = .ok out →
    (∀ pg ∈ mp, pg ≠ [] ∧ ∀ rg ∈ pg, P rg) → (∀ rg ∈ rings, P rg) → ∀ pg ∈ out, pg ≠ [] ∧ ∀ rg ∈ pg, P rg := by
  induction rings with
  | nil =>
    intro mp out h hmp _
    simp only [addAll, List.foldlM_nil, resD_pure, Res.ok.injEq] at h
    subst h; exact hmp
  | cons r rest ih =>
    intro mp out h hmp hr
    rw [addAll_cons] at h
    obtain ⟨mp', h1, h2⟩ := resD_bind_eq_ok h
    refine ih mp' out h2 ?_ (fun rg hrg => hr rg (List.mem_cons_of_mem _ hrg))
    intro pg hpg
    rcases addTo_mem mp r mp' h1 pg hpg with h' | ⟨pg0, h', rfl⟩
    · exact hmp pg h'
    · refine ⟨by simp, ?_⟩
      intro rg hrg
      rcases List.mem_append.1 hrg with h'' | h''
      · exact (hmp pg0 h').2 rg h''
      · simp only [List.mem_singleton] at h''
        subst h''; exact hr _ List.mem_cons_self

theorem ring_unfold (box : Bound α) (r : List (Pt α)) (o : Int) :
    ring box r o = if r.isEmpty then .ok [] else
      clipRings box [r] >>= fun (op, cl) =>
        if op.isEmpty then (if cl.isEmpty then pure [] else pure [[r]]) else smartWrap box op o := rfl

theorem polygon_unfold (box : Bound α) (p : List (List (Pt α))) (o : Int) :
    polygon box p o = if p.isEmpty then .ok [] else
      clipRings box p >>= fun (op, cl) =>
        if op.isEmpty then (if cl.isEmpty then pure [] else pure [p])
        else smartWrap box op o >>= fun result =>
          match result with
          | [pg] => pure [pg ++ cl]
          | _ => addAll result cl := rfl

theorem multiPolygon_unfold (box : Bound α) (mp : List (List (List (Pt α)))) (o : Int) :
    multiPolygon box mp o = if mp.isEmpty then .ok [] else
      clipRings box (outerRings mp) >>= fun (op, closedOuters) =>
        if op.isEmpty && closedOuters.isEmpty then pure []
        else if op.isEmpty && closedOuters.length == (outerRings mp).length then pure mp
        else clipRings box (mp.flatMap fun p => p.drop 1) >>= fun (inners, closedInners) =>
          smartWrap box (op ++ inners) o >>= fun result =>
            addAll (result ++ closedOuters.map fun r => [r]) closedInners := rfl

theorem singleClosed_neD (mp : List (List (List (Pt α)))) (h : SingleClosed mp) :
    ∀ pg ∈ mp, pg ≠ [] ∧ ∀ rg ∈ pg, ClosedRing rg := by
  intro pg hpg
  obtain ⟨rg, rfl, hrg⟩ := h pg hpg
  exact ⟨by simp, by simpa using hrg⟩

theorem ring_total_aux (box : Bound α) (hb : BoxOK box) (hl : LineSpec box) (r : List (Pt α)) (o : Int)
    (ho : o = CW ∨ o = CCW) : ∃ out, ring box r o = .ok out := by
  rw [ring_unfold]
  split_ifs with hr
  · exact ⟨[], rfl⟩
  · obtain ⟨op, cl, h1, h2, h3⟩ := clipRings_spec_aux box hb hl [r]
    simp only [h1, resD_ok_bind]
    split_ifs
    · exact ⟨_, rfl⟩
    · exact ⟨_, rfl⟩
    · exact smartWrap_total' box hb op o ho h2

theorem polygon_total_aux (box : Bound α) (hb : BoxOK box) (hl : LineSpec box) (p : List (List (Pt α))) (o : Int)
    (ho : o = CW ∨ o = CCW) : ∃ out, polygon box p o = .ok out := by
  rw [polygon_unfold]
  split_ifs with hr
  · exact ⟨[], rfl⟩
  · obtain ⟨op, cl, h1, h2, h3⟩ := clipRings_spec_aux box hb hl p
    simp only [h1, resD_ok_bind]
    split_ifs
    · exact ⟨_, rfl⟩
    · exact ⟨_, rfl⟩
    · obtain ⟨res, hres⟩ := smartWrap_total' box hb op o ho h2
      simp only [hres, resD_ok_bind]
      have hsc := smartWrap_rings_closed' box op o res hres
      split
      · exact ⟨_, rfl⟩
      · obtain ⟨out, ho1, _⟩ := addAll_total_aux cl res (fun pg hpg => (singleClosed_neD res hsc pg hpg).1)
        exact ⟨out, ho1⟩

theorem multiPolygon_total_aux (box : Bound α) (hb : BoxOK box) (hl : LineSpec box)
    (mp : List (List (List (Pt α)))) (o : Int) (ho : o = CW ∨ o = CCW) :
    ∃ out, multiPolygon box mp o = .ok out := by
  rw [multiPolygon_unfold]
  split_ifs with hr
  · exact ⟨[], rfl⟩
  · obtain ⟨op, cl, h1, h2, h3⟩ := clipRings_spec_aux box hb hl (outerRings mp)
    simp only [h1, resD_ok_bind]
    split_ifs
    · exact ⟨_, rfl⟩
    · exact ⟨_, rfl⟩
    · obtain ⟨inn, cli, h4, h5, h6⟩ := clipRings_spec_aux box hb hl (mp.flatMap fun p => p.drop 1)
      simp only [h4, resD_ok_bind]
      obtain ⟨res, hres⟩ := smartWrap_total' box hb (op ++ inn) o ho (by
        intro ls hls
        rcases List.mem_append.1 hls with h | h
        · exact h2 ls h
        · exact h5 ls h)
      simp only [hres, resD_ok_bind]
      have hsc := smartWrap_rings_closed' box (op ++ inn) o res hres
      obtain ⟨out, ho1, _⟩ := addAll_total_aux cli (res ++ cl.map fun r => [r]) (by
        intro pg hpg
        rcases List.mem_append.1 hpg with h | h
        · exact (singleClosed_neD res hsc pg h).1
        · obtain ⟨r, _, rfl⟩ := List.mem_map.1 h
          simp)
      exact ⟨out, ho1⟩

/-- structural induction for the nested inductive `Geom` -/
theorem geomIndD {β : Type} {motive : Geom β → Prop}
    (h1 : ∀ p, motive (.point p)) (h2 : ∀ ps, motive (.multiPoint ps))
    (h3 : ∀ ps, motive (.lineString ps)) (h4 : ∀ ls, motive (.multiLineString ls))
    (h5 : ∀ ps, motive (.ring ps)) (h6 : ∀ rs, motive (.polygon rs))
    (h7 : ∀ ps, motive (.multiPolygon ps)) (h8 : ∀ a b, motive (.bound a b))
    (hc : ∀ gs, (∀ g ∈ gs, motive g) → motive (.collection gs)) : ∀ g, motive g := by
  intro g
  refine Geom.rec (motive_1 := motive) (motive_2 := fun gs => ∀ g ∈ gs, motive g)
    h1 h2 h3 h4 h5 h6 h7 h8 hc ?_ ?_ g
  · intro g hg; cases hg
  · intro head tail hh ht g hg
    rcases List.mem_cons.1 hg with rfl | hg
    · exact hh
    · exact ht g hg

theorem plainClip_totalD (eb box : Bound α) (hp : PlainClipTotal eb box) (g : Geom α) :
    ∃ r, plainClip eb box g = .ok r := by
  obtain ⟨r, hr⟩ := hp g
  unfold plainClip
  rw [hr]
  cases r <;> exact ⟨_, rfl⟩

theorem members_totalD (eb box : Bound α) (o : Int) (gs : List (Geom α))
    (h : ∀ g ∈ gs, ∃ r, geometry eb box o g = .ok r) : ∃ r, geometry.members eb box o gs = .ok r := by
  induction gs with
  | nil => exact ⟨[], by rw [geometry.members]⟩
  | cons g rest ih =>
    obtain ⟨c, hc⟩ := h g List.mem_cons_self
    obtain ⟨r, hr⟩ := ih (fun x hx => h x (List.mem_cons_of_mem _ hx))
    rw [geometry.members]
    simp only [hc, hr, resD_ok_bind]
    cases c <;> exact ⟨_, rfl⟩

theorem geometry_total_aux (eb box : Bound α) (hb : BoxOK box) (hl : LineSpec box) (hp : PlainClipTotal eb box)
    (o : Int) (ho : o = CW ∨ o = CCW) : ∀ g : Geom α, ∃ r, geometry eb box o g = .ok r := by
  intro g
  induction g using geomIndD with
  | h1 p => rw [geometry]; exact plainClip_totalD eb box hp _
  | h2 p => rw [geometry]; exact plainClip_totalD eb box hp _
  | h3 p => rw [geometry]; exact plainClip_totalD eb box hp _
  | h4 p => rw [geometry]; exact plainClip_totalD eb box hp _
  | h8 a b => rw [geometry]; exact plainClip_totalD eb box hp _
  | h5 r =>
    obtain ⟨out, h⟩ := ring_total_aux box hb hl r o ho
    rw [geometry]; simp only [h, resD_ok_bind]; exact ⟨_, rfl⟩
  | h6 r =>
    obtain ⟨out, h⟩ := polygon_total_aux box hb hl r o ho
    rw [geometry]; simp only [h, resD_ok_bind]; exact ⟨_, rfl⟩
  | h7 r =>
    obtain ⟨out, h⟩ := multiPolygon_total_aux box hb hl r o ho
    rw [geometry]; simp only [h, resD_ok_bind]; exact ⟨_, rfl⟩
  | hc gs ih =>
    rw [geometry]
    split_ifs
    · exact plainClip_totalD eb box hp _
    · obtain ⟨res, hres⟩ := members_totalD eb box o gs ih
      simp only [hres, resD_ok_bind]
      split <;> exact ⟨_, rfl⟩

theorem geometryV_total_aux (eb box : Bound α) (hb : BoxOK box) (hl : LineSpec box) (hp : PlainClipTotal eb box)
    (o : Int) (ho : o = CW ∨ o = CCW) (v : GVal α) : ∃ r, geometryV eb box o v = .ok r := by
  cases v with
  | nilIface => exact ⟨_, rfl⟩
  | nilSlice k => exact geometry_total_aux eb box hb hl hp o ho _
  | val g => exact geometry_total_aux eb box hb hl hp o ho g

/-- every vertex of `a` is a vertex of `b` -/
def VSub (a b : List (List (Pt α))) : Prop := ∀ ls ∈ a, ∀ v ∈ ls, ∃ ls0 ∈ b, v ∈ ls0

theorem VSub.refl (a : List (List (Pt α))) : VSub a a := fun ls hls _ hv => ⟨ls, hls, hv⟩
theorem VSub.trans {a b c : List (List (Pt α))} (h1 : VSub a b) (h2 : VSub b c) : VSub a c := by
  intro ls hls v hv
  obtain ⟨ls0, h3, h4⟩ := h1 ls hls v hv
  exact h2 ls0 h3 v h4

theorem mem_modifyD {β : Type} (g : β → β) (l : List β) : ∀ (n : Nat) (x : β), x ∈ l.modify n g →
    x ∈ l ∨ ∃ y ∈ l, x = g y := by
  induction l with
  | nil => intro n x hx; simp at hx
  | cons a t ih =>
    intro n x hx
    cases n with
    | zero =>
      rw [List.modify_zero_cons] at hx
      rcases List.mem_cons.1 hx with rfl | hx
      · exact Or.inr ⟨a, List.mem_cons_self, rfl⟩
      · exact Or.inl (List.mem_cons_of_mem _ hx)
    | succ n =>
      rw [List.modify_succ_cons] at hx
      rcases List.mem_cons.1 hx with rfl | hx
      · exact Or.inl List.mem_cons_self
      · rcases ih n x hx with h | ⟨y, hy, rfl⟩
        · exact Or.inl (List.mem_cons_of_mem _ h)
        · exact Or.inr ⟨y, List.mem_cons_of_mem _ hy, rfl⟩

theorem join_step_vsub (out : List (List (Pt α))) (n j : Nat) (h : Pt α) (tl : List (Pt α))
    (hj : out[j]? = some (h :: tl)) :
    VSub (((out.modify n (· ++ tl)).set j ((out.modify n (· ++ tl)).getLast?.getD [])).dropLast) out := by
  have h1 : VSub (out.modify n (· ++ tl)) out := by
    intro ls hls v hv
    rcases mem_modifyD _ out n ls hls with h' | ⟨y, hy, rfl⟩
    · exact ⟨ls, h', hv⟩
    · rcases List.mem_append.1 hv with h'' | h''
      · exact ⟨y, hy, h''⟩
      · exact ⟨h :: tl, List.mem_of_getElem? hj, List.mem_cons_of_mem _ h''⟩
  refine VSub.trans ?_ h1
  intro ls hls v hv
  have hls := (List.dropLast_sublist _).subset hls
  rcases List.mem_or_eq_of_mem_set hls with h' | rfl
  · exact ⟨ls, h', hv⟩
  · cases hg : (out.modify n (· ++ tl)).getLast? with
    | none => rw [hg] at hv; simp at hv
    | some x =>
      rw [hg] at hv
      exact ⟨x, List.mem_of_getLast? hg, hv⟩

theorem joinInner_vertices (e : Pt α) : ∀ (fuel : Nat) (out : List (List (Pt α))) (i : Int) (j : Nat)
    (out' : List (List (Pt α))) (i' : Int), joinInner e fuel out i j = .ok (out', i') → VSub out' out := by
  intro fuel
  induction fuel with
  | zero => intro out i j out' i' h; simp [joinInner] at h
  | succ fuel ih =>
    intro out i j out' i' h
    rw [joinInner] at h
    by_cases h1 : j ≥ out.length
    · rw [if_pos h1] at h
      simp only [Res.ok.injEq, Prod.mk.injEq] at h
      rw [← h.1]; exact VSub.refl _
    · rw [if_neg h1] at h
      by_cases h2 : (i == (j : Int)) = true
      · rw [if_pos h2] at h; exact ih _ _ _ _ _ h
      · rw [if_neg h2] at h
        split at h
        · rename_i hd tl hj
          by_cases h3 : Core.ptEq hd e = true
          · rw [if_pos h3] at h
            by_cases h4 : i < 0 ∨ i ≥ (out.length : Int)
            · rw [if_pos h4] at h; cases h
            · rw [if_neg h4] at h
              exact VSub.trans (ih _ _ _ _ _ h) (join_step_vsub out _ j hd tl hj)
          · rw [if_neg h3] at h; exact ih _ _ _ _ _ h
        · cases h
        · simp only [Res.ok.injEq, Prod.mk.injEq] at h
          rw [← h.1]; exact VSub.refl _

theorem joinOuter_vertices_aux (box : Bound α) : ∀ (fuel : Nat) (out out' : List (List (Pt α))) (i : Int),
    joinOuter box fuel out i = .ok out' → VSub out' out := by
  intro fuel
  induction fuel with
  | zero => intro out out' i h; simp [joinOuter] at h
  | succ fuel ih =>
    intro out out' i h
    rw [joinOuter] at h
    split_ifs at h with h1 h2
    · simp only [Res.ok.injEq] at h
      rw [← h]; exact VSub.refl _
    · split at h
      · simp only [Res.ok.injEq] at h
        rw [← h]; exact VSub.refl _
      · split at h
        · cases h
        · split_ifs at h with h3
          · exact ih _ _ _ h
          · obtain ⟨⟨o2, i2⟩, h4, h5⟩ := resD_bind_eq_ok h
            exact VSub.trans (ih _ _ _ h5) (joinInner_vertices _ _ _ _ _ _ _ h4)

theorem clipTail_in_box (box : Bound α) (hl : LineSpec box) (r' : List (Pt α)) (out : List (List (Pt α)))
    (h : clipTailD box r' = .ok out) : ∀ ls ∈ out, ∀ v ∈ ls, InBox box v := by
  obtain ⟨out0, hline, _, hbox, _⟩ := hl r'
  unfold clipTailD at h
  rw [hline] at h
  cases out0 with
  | nil =>
    simp only [resD_pure, Res.ok.injEq] at h
    subst h; simp
  | cons p0 rest =>
    simp only at h
    split at h
    · split_ifs at h
      · intro ls hls v hv
        obtain ⟨ls0, h1, h2⟩ := joinOuter_vertices_aux box _ _ _ _ h ls hls v hv
        exact hbox ls0 h1 v h2
      · simp only [resD_pure, Res.ok.injEq] at h
        subst h; exact hbox
    · cases h

theorem clipOne_in_box (box : Bound α) (hl : LineSpec box) (r : List (Pt α)) (out : List (List (Pt α)))
    (h : clipOne box r = .ok out) : ∀ ls ∈ out, ∀ v ∈ ls, InBox box v := by
  rw [clipOne_eq] at h
  split_ifs at h
  · simp only [Res.ok.injEq] at h
    subst h; simp
  · obtain ⟨r', _, h2⟩ := resD_bind_eq_ok h
    exact clipTail_in_box box hl r' out h2

theorem clipAll_in_box (box : Bound α) (hl : LineSpec box) (rings : List (List (Pt α))) :
    ∀ all, clipAll box rings = .ok all → ∀ ls ∈ all, ∀ v ∈ ls, InBox box v := by
  induction rings with
  | nil =>
    intro all h
    simp only [clipAll, Res.ok.injEq] at h
    subst h; simp
  | cons r rest ih =>
    intro all h
    rw [clipAll] at h
    obtain ⟨a, h1, h⟩ := resD_bind_eq_ok h
    obtain ⟨b, h2, h⟩ := resD_bind_eq_ok h
    simp only [resD_pure, Res.ok.injEq] at h
    subst h
    intro ls hls
    rcases List.mem_append.1 hls with h' | h'
    · exact clipOne_in_box box hl r a h1 ls h'
    · exact ih b h2 ls h'

theorem clipRings_inv (box : Bound α) (rings op cl : List (List (Pt α)))
    (h : clipRings box rings = .ok (op, cl)) :
    ∃ all, clipAll box rings = .ok all ∧ partitionPieces box all = .ok (op, cl) := by
  unfold clipRings at h
  exact resD_bind_eq_ok h

theorem clipRings_in_box_aux (box : Bound α) (hl : LineSpec box) (rings op cl : List (List (Pt α)))
    (h : clipRings box rings = .ok (op, cl)) :
    (∀ ls ∈ op, ∀ v ∈ ls, InBox box v) ∧ (∀ ls ∈ cl, ∀ v ∈ ls, InBox box v) := by
  obtain ⟨all, h1, h2⟩ := clipRings_inv box rings op cl h
  obtain ⟨h3, h4⟩ := partition_spec_aux box all op cl h2
  have := clipAll_in_box box hl rings all h1
  exact ⟨fun ls hls => this ls (h3 ls hls), fun ls hls => this ls (h4 ls hls).1⟩

theorem clipRings_closed (box : Bound α) (rings op cl : List (List (Pt α)))
    (h : clipRings box rings = .ok (op, cl)) : ∀ ls ∈ cl, ClosedRing ls := by
  obtain ⟨all, _, h2⟩ := clipRings_inv box rings op cl h
  exact fun ls hls => ((partition_spec_aux box all op cl h2).2 ls hls).2

/-! ### the entry points: closed rings -/

theorem ring_output_closed_aux (box : Bound α) (r : List (Pt α)) (o : Int) (out : List (List (List (Pt α))))
    (h : ring box r o = .ok out) : out = [[r]] ∨ SingleClosed out := by
  rw [ring_unfold] at h
  split_ifs at h
  · simp only [Res.ok.injEq] at h
    subst h; right; intro pg hpg; simp at hpg
  · obtain ⟨⟨op, cl⟩, h1, h⟩ := resD_bind_eq_ok h
    simp only at h
    split_ifs at h
    · simp only [resD_pure, Res.ok.injEq] at h
      subst h; right; intro pg hpg; simp at hpg
    · simp only [resD_pure, Res.ok.injEq] at h
      exact Or.inl h.symm
    · exact Or.inr (smartWrap_rings_closed' box op o out h)

theorem polygon_output_aux (P : List (Pt α) → Prop) (box : Bound α) (p : List (List (Pt α))) (o : Int)
    (out : List (List (List (Pt α)))) (h : polygon box p o = .ok out)
    (hcl : ∀ op cl, clipRings box p = .ok (op, cl) → ∀ rg ∈ cl, P rg)
    (hw : ∀ op cl res, clipRings box p = .ok (op, cl) → smartWrap box op o = .ok res →
      ∀ pg ∈ res, ∀ rg ∈ pg, P rg) :
    out = [p] ∨ ∀ pg ∈ out, pg ≠ [] ∧ ∀ rg ∈ pg, P rg := by
  rw [polygon_unfold] at h
  split_ifs at h
  · simp only [Res.ok.injEq] at h
    subst h; right; intro pg hpg; simp at hpg
  · obtain ⟨⟨op, cl⟩, h1, h⟩ := resD_bind_eq_ok h
    simp only at h
    split_ifs at h
    · simp only [resD_pure, Res.ok.injEq] at h
      subst h; right; intro pg hpg; simp at hpg
    · simp only [resD_pure, Res.ok.injEq] at h
      exact Or.inl h.symm
    · obtain ⟨res, h2, h⟩ := resD_bind_eq_ok h
      have hsc := singleClosed_neD res (smartWrap_rings_closed' box op o res h2)
      have hres := hw op cl res h1 h2
      have hclP := hcl op cl h1
      right
      split at h
      · rename_i pg
        simp only [resD_pure, Res.ok.injEq] at h
        subst h
        intro x hx
        simp only [List.mem_singleton] at hx
        subst hx
        have := hsc pg List.mem_cons_self
        refine ⟨by simp [this.1], ?_⟩
        intro rg hrg
        rcases List.mem_append.1 hrg with h' | h'
        · exact hres pg List.mem_cons_self rg h'
        · exact hclP rg h'
      · exact addAll_pres P cl res out h (fun pg hpg => ⟨(hsc pg hpg).1, hres pg hpg⟩) hclP

theorem multiPolygon_output_aux (P : List (Pt α) → Prop) (box : Bound α) (mp : List (List (List (Pt α))))
    (o : Int) (out : List (List (List (Pt α)))) (h : multiPolygon box mp o = .ok out)
    (hcl : ∀ rings op cl, clipRings box rings = .ok (op, cl) → ∀ rg ∈ cl, P rg)
    (hw : ∀ op cl inn cli res, clipRings box (outerRings mp) = .ok (op, cl) →
      clipRings box (mp.flatMap fun p => p.drop 1) = .ok (inn, cli) → smartWrap box (op ++ inn) o = .ok res →
      ∀ pg ∈ res, ∀ rg ∈ pg, P rg) :
    out = mp ∨ ∀ pg ∈ out, pg ≠ [] ∧ ∀ rg ∈ pg, P rg := by
  rw [multiPolygon_unfold] at h
  split_ifs at h
  · simp only [Res.ok.injEq] at h
    subst h; right; intro pg hpg; simp at hpg
  · obtain ⟨⟨op, cl⟩, h1, h⟩ := resD_bind_eq_ok h
    simp only at h
    split_ifs at h
    · simp only [resD_pure, Res.ok.injEq] at h
      subst h; right; intro pg hpg; simp at hpg
    · simp only [resD_pure, Res.ok.injEq] at h
      exact Or.inl h.symm
    · obtain ⟨⟨inn, cli⟩, h2, h⟩ := resD_bind_eq_ok h
      simp only at h
      obtain ⟨res, h3, h⟩ := resD_bind_eq_ok h
      have hsc := singleClosed_neD res (smartWrap_rings_closed' box _ o res h3)
      have hres := hw op cl inn cli res h1 h2 h3
      right
      refine addAll_pres P cli _ out h ?_ (hcl _ inn cli h2)
      intro pg hpg
      rcases List.mem_append.1 hpg with h' | h'
      · exact ⟨(hsc pg h').1, hres pg h'⟩
      · obtain ⟨r, hr, rfl⟩ := List.mem_map.1 h'
        refine ⟨by simp, ?_⟩
        intro rg hrg
        simp only [List.mem_singleton] at hrg
        subst hrg
        exact hcl _ op cl h1 rg hr

/-- a ring that starts and ends at the same point strictly inside the box -/
def IRD (box : Bound α) (ls : List (Pt α)) : Prop :=
  ∃ f, ls.head? = some f ∧ ls.getLast? = some f ∧ InOpenBox box f

theorem closing_mem (r r' : List (Pt α)) (f : Pt α)
    (h : r' = r ∨ (r.head? = some f ∧ r' = r ++ [f])) : ∀ v ∈ r', v ∈ r := by
  rcases h with rfl | ⟨h1, rfl⟩
  · exact fun v hv => hv
  · intro v hv
    rcases List.mem_append.1 hv with h' | h'
    · exact h'
    · simp only [List.mem_singleton] at h'
      subst h'
      exact List.mem_of_mem_head? h1

theorem clipOne_inside (box : Bound α) (r : List (Pt α)) (hne : r ≠ []) (hin : ∀ v ∈ r, InOpenBox box v) :
    ∃ r', clipOne box r = .ok [r'] ∧ (r' = r ∨ ∃ f, r.head? = some f ∧ r' = r ++ [f]) ∧ IRD box r' := by
  obtain ⟨r', f, l, h1, h2, h3, h4, h5⟩ := closing_spec box r hne
  have hmem := closing_mem r r' f h4
  have hin' : ∀ v ∈ r', InOpenBox box v := fun v hv => hin v (hmem v hv)
  have hfo : InOpenBox box f := hin' f (List.mem_of_mem_head? h2)
  rcases h5 with ⟨rfl, h5⟩ | h5
  · refine ⟨r', ?_, ?_, f, h2, h3, hfo⟩
    · rw [clipOne_eq, if_neg (by simpa using hne), h1, resD_ok_bind]
      unfold clipTailD
      rw [line_open_inside' box r' h5 hin']
      simp only [h2, h3]
      rw [if_pos ((ptEq_iffD f f).2 rfl)]
      exact joinOuter_single box r' f h3 _
    · rcases h4 with h4 | h4
      · exact Or.inl h4
      · exact Or.inr ⟨f, h4⟩
  · exact absurd hfo h5.1

theorem partition_inside (box : Bound α) (all : List (List (Pt α))) (h : ∀ ls ∈ all, IRD box ls) :
    partitionPieces box all = .ok ([], all) := by
  induction all with
  | nil => rfl
  | cons ls rest ih =>
    obtain ⟨f, h1, h2, h3⟩ := h ls List.mem_cons_self
    rw [partition_cons box ls rest [] rest f f h1 h2 (ih fun x hx => h x (List.mem_cons_of_mem _ hx))]
    have ht : touchBD box ls = false := by
      unfold touchBD
      split
      · rename_i p q
        simp only [List.head?_cons, Option.some.injEq] at h1
        subst h1
        simp [pointSide_of_openD box p h3]
      · rfl
    rw [ht]
    simp [pointSide_of_openD box f h3, (ptEq_iffD f f).2 rfl]

theorem clipAll_inside (box : Bound α) (p : List (List (Pt α))) (hr : ∀ r ∈ p, r ≠ [])
    (hin : ∀ r ∈ p, ∀ v ∈ r, InOpenBox box v) :
    ∃ all, clipAll box p = .ok all ∧ all.length = p.length ∧ ∀ ls ∈ all, IRD box ls := by
  induction p with
  | nil => exact ⟨[], rfl, rfl, by simp⟩
  | cons r rest ih =>
    obtain ⟨r', h1, _, h3⟩ := clipOne_inside box r (hr r List.mem_cons_self) (hin r List.mem_cons_self)
    obtain ⟨all, h4, h5, h6⟩ := ih (fun x hx => hr x (List.mem_cons_of_mem _ hx))
      (fun x hx => hin x (List.mem_cons_of_mem _ hx))
    refine ⟨r' :: all, by simp [clipAll, h1, h4], by simp [h5], ?_⟩
    intro ls hls
    rcases List.mem_cons.1 hls with rfl | hls
    · exact h3
    · exact h6 ls hls

theorem clipRings_inside_aux (box : Bound α) (r : List (Pt α)) (hne : r ≠ []) (hin : ∀ v ∈ r, InOpenBox box v) :
    ∃ r', clipRings box [r] = .ok ([], [r']) ∧ (r' = r ∨ ∃ f, r.head? = some f ∧ r' = r ++ [f]) := by
  obtain ⟨r', h1, h2, h3⟩ := clipOne_inside box r hne hin
  refine ⟨r', ?_, h2⟩
  have : clipAll box [r] = .ok [r'] := by simp [clipAll, h1]
  unfold clipRings
  rw [this, resD_ok_bind]
  exact partition_inside box [r'] (by simpa using h3)

theorem ring_inside_aux (box : Bound α) (r : List (Pt α)) (o : Int) (hne : r ≠ [])
    (hin : ∀ v ∈ r, InOpenBox box v) : ring box r o = .ok [[r]] := by
  obtain ⟨r', h1, _⟩ := clipRings_inside_aux box r hne hin
  rw [ring_unfold, if_neg (by simpa using hne), h1]
  rfl

theorem polygon_inside_aux (box : Bound α) (p : List (List (Pt α))) (o : Int) (hne : p ≠ [])
    (hr : ∀ r ∈ p, r ≠ []) (hin : ∀ r ∈ p, ∀ v ∈ r, InOpenBox box v) : polygon box p o = .ok [p] := by
  obtain ⟨all, h1, h2, h3⟩ := clipAll_inside box p hr hin
  have hc : clipRings box p = .ok ([], all) := by
    unfold clipRings
    rw [h1, resD_ok_bind]
    exact partition_inside box all h3
  have hall : all ≠ [] := by
    intro e
    rw [e] at h2
    exact hne (List.length_eq_zero_iff.1 h2.symm)
  rw [polygon_unfold, if_neg (by simpa using hne), hc]
  simp [hall]

theorem ring_outside_aux (box : Bound α) (hb : BoxOK box) (r : List (Pt α)) (o : Int)
    (h : (∀ v ∈ r, v.x ≤ box.lo.x) ∨ (∀ v ∈ r, box.hi.x ≤ v.x) ∨
         (∀ v ∈ r, v.y ≤ box.lo.y) ∨ (∀ v ∈ r, box.hi.y ≤ v.y)) : ring box r o = .ok [] := by
  rw [ring_unfold]
  split_ifs with hr
  · rfl
  · have hne : r ≠ [] := by simpa using hr
    obtain ⟨r', f, l, h1, _, _, h4, _⟩ := closing_spec box r hne
    have hmem := closing_mem r r' f h4
    have hline := line_open_outside' box hb r' (by
      rcases h with h | h | h | h
      · exact Or.inl fun v hv => h v (hmem v hv)
      · exact Or.inr (Or.inl fun v hv => h v (hmem v hv))
      · exact Or.inr (Or.inr (Or.inl fun v hv => h v (hmem v hv)))
      · exact Or.inr (Or.inr (Or.inr fun v hv => h v (hmem v hv))))
    have h1' : clipOne box r = .ok [] := by
      rw [clipOne_eq, if_neg hr, h1, resD_ok_bind]
      unfold clipTailD
      rw [hline]
      rfl
    have : clipRings box [r] = .ok ([], []) := by
      simp [clipRings, clipAll, h1', partitionPieces]
    rw [this]
    rfl

/-! ### wholly inside / wholly outside -/

theorem clipRings_inside' (box : Bound α) (r : List (Pt α)) (hne : r ≠ []) (hin : ∀ v ∈ r, InOpenBox box v) :
    ∃ r', clipRings box [r] = .ok ([], [r']) ∧ (r' = r ∨ ∃ f, r.head? = some f ∧ r' = r ++ [f]) :=
  clipRings_inside_aux box r hne hin

theorem ring_inside_unchanged' (box : Bound α) (r : List (Pt α)) (o : Int) (hne : r ≠ [])
    (hin : ∀ v ∈ r, InOpenBox box v) : ring box r o = .ok [[r]] :=
  ring_inside_aux box r o hne hin

theorem ring_outside_nil' (box : Bound α) (hb : BoxOK box) (r : List (Pt α)) (o : Int)
    (h : (∀ v ∈ r, v.x ≤ box.lo.x) ∨ (∀ v ∈ r, box.hi.x ≤ v.x) ∨
         (∀ v ∈ r, v.y ≤ box.lo.y) ∨ (∀ v ∈ r, box.hi.y ≤ v.y)) : ring box r o = .ok [] :=
  ring_outside_aux box hb r o h

theorem polygon_inside_unchanged' (box : Bound α) (p : List (List (Pt α))) (o : Int) (hne : p ≠ [])
    (hr : ∀ r ∈ p, r ≠ []) (hin : ∀ r ∈ p, ∀ v ∈ r, InOpenBox box v) : polygon box p o = .ok [p] :=
  polygon_inside_aux box p o hne hr hin

/-! ### closed rings, vertices in the box -/

theorem partitionPieces_spec' (box : Bound α) (all op cl : List (List (Pt α)))
    (h : partitionPieces box all = .ok (op, cl)) :
    (∀ ls ∈ op, ls ∈ all) ∧ (∀ ls ∈ cl, ls ∈ all ∧ ClosedRing ls) :=
  partition_spec_aux box all op cl h

theorem ring_output_closed' (box : Bound α) (r : List (Pt α)) (o : Int) (out : List (List (List (Pt α))))
    (h : ring box r o = .ok out) : out = [[r]] ∨ SingleClosed out :=
  ring_output_closed_aux box r o out h

theorem polygon_output_closed' (box : Bound α) (p : List (List (Pt α))) (o : Int)
    (out : List (List (List (Pt α)))) (h : polygon box p o = .ok out) :
    out = [p] ∨ ∀ pg ∈ out, pg ≠ [] ∧ ∀ rg ∈ pg, ClosedRing rg :=
  polygon_output_aux ClosedRing box p o out h (fun op cl h1 => clipRings_closed box p op cl h1)
    (fun op _ res _ h2 pg hpg => (singleClosed_neD res (smartWrap_rings_closed' box op o res h2) pg hpg).2)

theorem multiPolygon_output_closed' (box : Bound α) (mp : List (List (List (Pt α)))) (o : Int)
    (out : List (List (List (Pt α)))) (h : multiPolygon box mp o = .ok out) :
    out = mp ∨ ∀ pg ∈ out, pg ≠ [] ∧ ∀ rg ∈ pg, ClosedRing rg :=
  multiPolygon_output_aux ClosedRing box mp o out h (fun rings op cl h1 => clipRings_closed box rings op cl h1)
    (fun op _ inn _ res _ _ h3 pg hpg =>
      (singleClosed_neD res (smartWrap_rings_closed' box (op ++ inn) o res h3) pg hpg).2)

/-- the re-joining loop neither invents nor loses vertices -/
theorem joinOuter_vertices' (box : Bound α) (fuel : Nat) (out out' : List (List (Pt α))) (i : Int)
    (h : joinOuter box fuel out i = .ok out') : ∀ ls ∈ out', ∀ v ∈ ls, ∃ ls0 ∈ out, v ∈ ls0 :=
  joinOuter_vertices_aux box fuel out out' i h

theorem clipRings_in_box' (box : Bound α) (hl : LineSpec box) (rings op cl : List (List (Pt α)))
    (h : clipRings box rings = .ok (op, cl)) : ∀ ls ∈ op ++ cl, ∀ v ∈ ls, InBox box v := by
  obtain ⟨h1, h2⟩ := clipRings_in_box_aux box hl rings op cl h
  intro ls hls
  rcases List.mem_append.1 hls with h' | h'
  · exact h1 ls h'
  · exact h2 ls h'

theorem ring_output_in_box' (box : Bound α) (hb : BoxOK box) (hl : LineSpec box) (r : List (Pt α)) (o : Int)
    (out : List (List (List (Pt α)))) (h : ring box r o = .ok out) :
    out = [[r]] ∨ ∀ pg ∈ out, ∀ rg ∈ pg, ∀ v ∈ rg, InBox box v := by
  rw [ring_unfold] at h
  split_ifs at h
  · simp only [Res.ok.injEq] at h
    subst h; right; intro pg hpg; simp at hpg
  · obtain ⟨⟨op, cl⟩, h1, h⟩ := resD_bind_eq_ok h
    simp only at h
    split_ifs at h
    · simp only [resD_pure, Res.ok.injEq] at h
      subst h; right; intro pg hpg; simp at hpg
    · simp only [resD_pure, Res.ok.injEq] at h
      exact Or.inl h.symm
    · exact Or.inr (smartWrap_in_box' box hb op o out h (clipRings_in_box_aux box hl [r] op cl h1).1)

theorem polygon_output_in_box' (box : Bound α) (hb : BoxOK box) (hl : LineSpec box) (p : List (List (Pt α)))
    (o : Int) (out : List (List (List (Pt α)))) (h : polygon box p o = .ok out) :
    out = [p] ∨ ∀ pg ∈ out, ∀ rg ∈ pg, ∀ v ∈ rg, InBox box v := by
  rcases polygon_output_aux (fun rg => ∀ v ∈ rg, InBox box v) box p o out h
    (fun op cl h1 => (clipRings_in_box_aux box hl p op cl h1).2)
    (fun op cl res h1 h2 => smartWrap_in_box' box hb op o res h2 (clipRings_in_box_aux box hl p op cl h1).1)
    with h' | h'
  · exact Or.inl h'
  · exact Or.inr fun pg hpg => (h' pg hpg).2

theorem multiPolygon_output_in_box' (box : Bound α) (hb : BoxOK box) (hl : LineSpec box)
    (mp : List (List (List (Pt α)))) (o : Int) (out : List (List (List (Pt α))))
    (h : multiPolygon box mp o = .ok out) :
    out = mp ∨ ∀ pg ∈ out, ∀ rg ∈ pg, ∀ v ∈ rg, InBox box v := by
  rcases multiPolygon_output_aux (fun rg => ∀ v ∈ rg, InBox box v) box mp o out h
    (fun rings op cl h1 => (clipRings_in_box_aux box hl rings op cl h1).2)
    (fun op cl inn cli res h1 h2 h3 => smartWrap_in_box' box hb (op ++ inn) o res h3 (by
      intro ls hls
      rcases List.mem_append.1 hls with h' | h'
      · exact (clipRings_in_box_aux box hl _ op cl h1).1 ls h'
      · exact (clipRings_in_box_aux box hl _ inn cli h2).1 ls h'))
    with h' | h'
  · exact Or.inl h'
  · exact Or.inr fun pg hpg => (h' pg hpg).2

/-! ### totality -/

/-- every piece `clipRings` hands to `smartWrap` is well formed, every closed ring is an interior ring -/
theorem clipOne_spec' (box : Bound α) (hb : BoxOK box) (hl : LineSpec box) (r : List (Pt α)) :
    ∃ out, clipOne box r = .ok out ∧ ∀ ls ∈ out, PieceOK box ls ∨ InsideRing box ls :=
  clipOne_spec_aux box hb hl r

theorem clipRings_spec' (box : Bound α) (hb : BoxOK box) (hl : LineSpec box) (rings : List (List (Pt α))) :
    ∃ op cl, clipRings box rings = .ok (op, cl) ∧ (∀ ls ∈ op, PieceOK box ls) ∧ (∀ ls ∈ cl, InsideRing box ls) :=
  clipRings_spec_aux box hb hl rings

theorem addAll_total' (mp : List (List (List (Pt α)))) (rings : List (List (Pt α))) (h : ∀ pg ∈ mp, pg ≠ []) :
    ∃ out, addAll mp rings = .ok out ∧ (∀ pg ∈ out, pg ≠ []) ∧ out.length = mp.length :=
  addAll_total_aux rings mp h

theorem ring_total' (box : Bound α) (hb : BoxOK box) (hl : LineSpec box) (r : List (Pt α)) (o : Int)
    (ho : o = CW ∨ o = CCW) : ∃ out, ring box r o = .ok out :=
  ring_total_aux box hb hl r o ho

theorem polygon_total' (box : Bound α) (hb : BoxOK box) (hl : LineSpec box) (p : List (List (Pt α))) (o : Int)
    (ho : o = CW ∨ o = CCW) : ∃ out, polygon box p o = .ok out :=
  polygon_total_aux box hb hl p o ho

theorem multiPolygon_total' (box : Bound α) (hb : BoxOK box) (hl : LineSpec box)
    (mp : List (List (List (Pt α)))) (o : Int) (ho : o = CW ∨ o = CCW) :
    ∃ out, multiPolygon box mp o = .ok out :=
  multiPolygon_total_aux box hb hl mp o ho

theorem geometry_total' (eb box : Bound α) (hb : BoxOK box) (hl : LineSpec box) (hp : PlainClipTotal eb box)
    (o : Int) (ho : o = CW ∨ o = CCW) (v : GVal α) : ∃ r, geometryV eb box o v = .ok r :=
  geometryV_total_aux eb box hb hl hp o ho v

/-- the former crash: a two-vertex open ring with an end strictly inside the box -/
theorem ring_two_vertex_witness' :
    ring (⟨⟨1, 1⟩, ⟨5, 5⟩⟩ : Bound ℚ) [⟨2, 2⟩, ⟨7, 2⟩] CCW = .ok [[[⟨5, 2⟩, ⟨2, 2⟩, ⟨5, 2⟩]]] := by
  with_unfolding_all rfl

/-- a ring touching the top side twice with perpendicular arrivals (the former mis-ordering) -/
theorem ring_touch_witness' :
    ring (⟨⟨0, 0⟩, ⟨8, 8⟩⟩ : Bound ℚ)
      [⟨1, 2⟩, ⟨7, 2⟩, ⟨6, 4⟩, ⟨6, 8⟩, ⟨5, 4⟩, ⟨3, 4⟩, ⟨3, 8⟩, ⟨2, 4⟩, ⟨1, 2⟩] CCW =
      .ok [[[⟨3, 8⟩, ⟨2, 4⟩, ⟨1, 2⟩, ⟨7, 2⟩, ⟨6, 4⟩, ⟨6, 8⟩, ⟨6, 8⟩, ⟨5, 4⟩, ⟨3, 4⟩, ⟨3, 8⟩]]] := by
  with_unfolding_all rfl

/-- an open ring given with its winding is completed along the box edge: the short way when its
    interior is on that side, all the way round otherwise -/
theorem ring_open_witness' :
    ring (⟨⟨1, 1⟩, ⟨6, 6⟩⟩ : Bound ℚ) [⟨0, 2⟩, ⟨2, 2⟩, ⟨2, 3⟩, ⟨0, 3⟩] CCW =
      .ok [[[⟨1, 2⟩, ⟨2, 2⟩, ⟨2, 3⟩, ⟨1, 3⟩, ⟨1, 2⟩]]] ∧
    ring (⟨⟨1, 1⟩, ⟨6, 6⟩⟩ : Bound ℚ) [⟨0, 3⟩, ⟨2, 3⟩, ⟨2, 2⟩, ⟨0, 2⟩] CCW =
      .ok [[[⟨1, 3⟩, ⟨2, 3⟩, ⟨2, 2⟩, ⟨1, 2⟩, ⟨1, 1⟩, ⟨7/2, 1⟩, ⟨6, 1⟩, ⟨6, 7/2⟩, ⟨6, 6⟩, ⟨7/2, 6⟩, ⟨1, 6⟩, ⟨1, 3⟩]]] := by
  exact ⟨by with_unfolding_all rfl, by with_unfolding_all rfl⟩

end Orb.SmartClip
