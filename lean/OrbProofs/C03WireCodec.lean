/-
  C03 wire lemmas, part 2: `decodeTile ∘ encodeTile = id` on tile structures whose numbers fit
  their Go types and whose encoding fits an `int` length.
-/
import OrbProofs.C03WireVarint

namespace Orb.ProtoWire
open Orb Orb.MVT

/-! ### keys: one byte each, the literals of the generated code -/

theorem varint64_single (d : UInt8) (rest : Bytes) (h : d.toNat < 128) :
    varint64 (d :: rest) = some (d.toNat, rest) := by
  have hge : ¬ (d ≥ 0x80) := by rw [u8_ge_80]; omega
  simp [varint64, varintF, hge, and_7f, Nat.mod_eq_of_lt h]

theorem lenDelim_cons (fld : Nat) (p : Bytes) (h : tag fld wtLen < 128) :
    lenDelim fld p = UInt8.ofNat (tag fld wtLen) :: (encodeVarint p.length ++ p) := by
  simp [lenDelim, encodeVarint_small _ h]

theorem vfield_cons (fld v : Nat) (h : tag fld wtVarint < 128) :
    vfield fld v = UInt8.ofNat (tag fld wtVarint) :: encodeVarint v := by
  simp [vfield, encodeVarint_small _ h]

theorem lenDelim_1 (p : Bytes) : lenDelim 1 p = 0x0a :: (encodeVarint p.length ++ p) := lenDelim_cons 1 p (by decide)
theorem lenDelim_2 (p : Bytes) : lenDelim 2 p = 0x12 :: (encodeVarint p.length ++ p) := lenDelim_cons 2 p (by decide)
theorem lenDelim_3 (p : Bytes) : lenDelim 3 p = 0x1a :: (encodeVarint p.length ++ p) := lenDelim_cons 3 p (by decide)
theorem lenDelim_4 (p : Bytes) : lenDelim 4 p = 0x22 :: (encodeVarint p.length ++ p) := lenDelim_cons 4 p (by decide)
theorem vfield_1 (v : Nat) : vfield 1 v = 0x08 :: encodeVarint v := vfield_cons 1 v (by decide)
theorem vfield_3 (v : Nat) : vfield 3 v = 0x18 :: encodeVarint v := vfield_cons 3 v (by decide)
theorem vfield_4 (v : Nat) : vfield 4 v = 0x20 :: encodeVarint v := vfield_cons 4 v (by decide)
theorem vfield_5 (v : Nat) : vfield 5 v = 0x28 :: encodeVarint v := vfield_cons 5 v (by decide)
theorem vfield_6 (v : Nat) : vfield 6 v = 0x30 :: encodeVarint v := vfield_cons 6 v (by decide)
theorem vfield_15 (v : Nat) : vfield 15 v = 0x78 :: encodeVarint v := vfield_cons 15 v (by decide)
theorem key_float : encodeVarint (tag 2 wt32) = [0x15] := by decide
theorem key_double : encodeVarint (tag 3 wt64) = [0x19] := by decide
theorem key_bool : encodeVarint (tag 7 wtVarint) = [0x38] := by decide

theorem key_0a (r : Bytes) : varint64 (0x0a :: r) = some (10, r) := varint64_single _ _ (by decide)
theorem key_12 (r : Bytes) : varint64 (0x12 :: r) = some (18, r) := varint64_single _ _ (by decide)
theorem key_1a (r : Bytes) : varint64 (0x1a :: r) = some (26, r) := varint64_single _ _ (by decide)
theorem key_22 (r : Bytes) : varint64 (0x22 :: r) = some (34, r) := varint64_single _ _ (by decide)
theorem key_08 (r : Bytes) : varint64 (0x08 :: r) = some (8, r) := varint64_single _ _ (by decide)
theorem key_18 (r : Bytes) : varint64 (0x18 :: r) = some (24, r) := varint64_single _ _ (by decide)
theorem key_20 (r : Bytes) : varint64 (0x20 :: r) = some (32, r) := varint64_single _ _ (by decide)
theorem key_28 (r : Bytes) : varint64 (0x28 :: r) = some (40, r) := varint64_single _ _ (by decide)
theorem key_30 (r : Bytes) : varint64 (0x30 :: r) = some (48, r) := varint64_single _ _ (by decide)
theorem key_78 (r : Bytes) : varint64 (0x78 :: r) = some (120, r) := varint64_single _ _ (by decide)
theorem key_15 (r : Bytes) : varint64 (0x15 :: r) = some (21, r) := varint64_single _ _ (by decide)
theorem key_19 (r : Bytes) : varint64 (0x19 :: r) = some (25, r) := varint64_single _ _ (by decide)
theorem key_38 (r : Bytes) : varint64 (0x38 :: r) = some (56, r) := varint64_single _ _ (by decide)

/-! ### length-delimited payloads -/

theorem takeDelim_payload (p rest : Bytes) (h : p.length < 2^63) :
    takeDelim (encodeVarint p.length ++ (p ++ rest)) = some (p, rest) := by
  unfold takeDelim packedLength
  rw [varint64_encodeVarint _ _ (by omega)]
  have h1 : ¬ (2^63 ≤ p.length) := by omega
  have h2 : ¬ ((p ++ rest).length < p.length) := by simp
  simp only [h1, h2, if_false, List.take_left, List.drop_left]

theorem readString_utf8 (s : String) (rest : Bytes) (h : (utf8 s).length < 2^63) :
    readString (encodeVarint (utf8 s).length ++ (utf8 s ++ rest)) = .ok (s, rest) := by
  unfold readString
  rw [takeDelim_payload _ _ h]
  simp only [ofUtf8_utf8]

theorem lenDelim_length (fld : Nat) (p : Bytes) : p.length + 2 ≤ (lenDelim fld p).length := by
  have h1 := encodeVarint_length_pos (tag fld wtLen)
  have h2 := encodeVarint_length_pos p.length
  simp only [lenDelim, List.length_append]; omega

theorem vfield_length (fld v : Nat) : 2 ≤ (vfield fld v).length := by
  have h1 := encodeVarint_length_pos (tag fld wtVarint)
  have h2 := encodeVarint_length_pos v
  simp only [vfield, List.length_append]; omega

/-! ### packed uint32 -/

theorem packU32_length (ws : List W) : ws.length ≤ (packU32 ws).length := by
  induction ws with
  | nil => simp [packU32]
  | cons w ws ih =>
    have := encodeVarint_length_pos w.toNat
    simp only [packU32, List.flatMap_cons, List.length_append, List.length_cons] at ih ⊢
    omega

theorem unpackU32F_packU32 (ws : List W) (fuel : Nat) (h : ws.length ≤ fuel) :
    unpackU32F fuel (packU32 ws) = .ok ws := by
  induction ws generalizing fuel with
  | nil => cases fuel <;> simp [packU32, unpackU32F]
  | cons w ws ih =>
    cases fuel with
    | zero => simp at h
    | succ fuel =>
      have hne := encodeVarint_ne_nil w.toNat
      simp only [packU32, List.flatMap_cons]
      cases hb : encodeVarint w.toNat with
      | nil => exact absurd hb hne
      | cons b bs =>
        simp only [List.cons_append]
        unfold unpackU32F
        have : b :: (bs ++ List.flatMap (fun w => encodeVarint w.toNat) ws) =
            encodeVarint w.toNat ++ packU32 ws := by simp [hb, packU32]
        rw [this, varint32_encodeVarint _ _ w.isLt]
        simp only
        rw [ih fuel (by simpa using h)]
        simp

theorem unpackU32_packU32 (ws : List W) : unpackU32 (packU32 ws) = .ok ws :=
  unpackU32F_packU32 ws _ (packU32_length ws)

/-! ### values -/

theorem readBool_bit (b : Bool) : readBool [if b then 1 else 0] = some (b, []) := by
  cases b <;> decide

theorem decodeValue_encodeValue (v : TVal) (hf : valueFits v = true)
    (hl : (encodeValue v).length < 2^63) : decodeValue (encodeValue v) = .ok v := by
  cases v with
  | str s =>
    have hs : (utf8 s).length < 2^63 := by
      have := lenDelim_length 1 (utf8 s); simp only [encodeValue] at hl; omega
    have := readString_utf8 s [] hs
    rw [List.append_nil] at this
    simp [encodeValue, lenDelim_1, decodeValue, decodeValueF, key_0a, this]
  | float b =>
    have := fixed32_le32 b []
    rw [List.append_nil] at this
    simp [encodeValue, key_float, decodeValue, decodeValueF, key_15, this]
  | double b =>
    have := fixed64_le64 b []
    rw [List.append_nil] at this
    simp [encodeValue, key_double, decodeValue, decodeValueF, key_19, this]
  | int n =>
    simp only [valueFits, decide_eq_true_eq] at hf
    have := varint64_encodeVarint (u64OfInt n) [] (u64OfInt_lt n)
    rw [List.append_nil] at this
    simp [encodeValue, vfield_4, decodeValue, decodeValueF, key_20, this, i64_roundtrip n hf.1 hf.2]
  | uint n =>
    simp only [valueFits, decide_eq_true_eq] at hf
    have := varint64_encodeVarint n [] hf
    rw [List.append_nil] at this
    simp [encodeValue, vfield_5, decodeValue, decodeValueF, key_28, Nat.mod_eq_of_lt hf, this]
  | sint n =>
    simp only [valueFits, decide_eq_true_eq] at hf
    have := varint64_encodeVarint (zigzag64 (BitVec.ofInt 64 n)).toNat [] (BitVec.isLt _)
    rw [List.append_nil] at this
    have hz : (unzigzag64 (zigzag64 (BitVec.ofInt 64 n))).toInt = n := by
      rw [zigzag64_roundtrip', BitVec.toInt_ofInt, Int.bmod_eq_of_le] <;> omega
    simp [encodeValue, vfield_6, decodeValue, decodeValueF, key_30, this, hz]
  | bool b =>
    simp [encodeValue, key_bool, decodeValue, decodeValueF, key_38, readBool_bit]
  | empty => simp [encodeValue, decodeValue, decodeValueF]

/-! ### features -/

theorem featLoop_nil (fuel : Nat) (st : FeatSt) : featLoop fuel [] st = .ok st := by
  cases fuel <;> rfl

theorem featLoop_id (fuel n : Nat) (rest : Bytes) (st : FeatSt) (hn : n < 2^64) (hf : 0 < fuel) :
    featLoop fuel (vfield 1 n ++ rest) st = featLoop (fuel - 1) rest { st with id := some n } := by
  cases fuel with
  | zero => omega
  | succ fuel =>
    simp [vfield_1, featLoop, key_08, varint64_encodeVarint _ _ hn]

theorem featLoop_tags (fuel : Nat) (ws : List W) (rest : Bytes) (st : FeatSt)
    (hst : st.tags = []) (hl : (packU32 ws).length < 2^63) (hf : 0 < fuel) :
    featLoop fuel (lenDelim 2 (packU32 ws) ++ rest) st = featLoop (fuel - 1) rest { st with tags := ws } := by
  cases fuel with
  | zero => omega
  | succ fuel =>
    simp [lenDelim_2, featLoop, key_12, takeDelim_payload _ _ hl, hst, unpackU32_packU32]

theorem featLoop_type (fuel : Nat) (g : Int) (rest : Bytes) (st : FeatSt)
    (h1 : -(2^31 : Int) ≤ g) (h2 : g < (2^31 : Int)) (hf : 0 < fuel) :
    featLoop fuel (vfield 3 (u64OfInt g) ++ rest) st = featLoop (fuel - 1) rest { st with gtype := g } := by
  cases fuel with
  | zero => omega
  | succ fuel =>
    simp [vfield_3, featLoop, key_18, varint64_encodeVarint _ _ (u64OfInt_lt g), i32_roundtrip g h1 h2]

theorem featLoop_geom (fuel : Nat) (p rest : Bytes) (st : FeatSt) (hl : p.length < 2^63) (hf : 0 < fuel) :
    featLoop fuel (lenDelim 4 p ++ rest) st = featLoop (fuel - 1) rest { st with geom := some p } := by
  cases fuel with
  | zero => omega
  | succ fuel =>
    simp [lenDelim_4, featLoop, key_22, takeDelim_payload _ _ hl]

def idPart : Option Nat → Bytes
  | some n => vfield 1 (n % 2^64)
  | none => []

def optPacked (fld : Nat) (ws : List W) : Bytes := if ws.isEmpty then [] else lenDelim fld (packU32 ws)

theorem encodeFeature_eq (f : VTFeature) :
    encodeFeature f = idPart f.id ++ (optPacked 2 f.tags ++ (vfield 3 (u64OfInt f.gtype) ++
      (optPacked 4 f.geometry ++ []))) := by
  cases h : f.id <;> simp [encodeFeature, idPart, optPacked, h, List.append_assoc]

theorem stage_id (id : Option Nat) (hid : ∀ n, id = some n → n < 2^64) (fuel : Nat) :
    ∃ c, c ≤ (idPart id).length ∧ ∀ rest, c ≤ fuel →
      featLoop fuel (idPart id ++ rest) FeatSt.init = featLoop (fuel - c) rest { FeatSt.init with id := id } := by
  cases id with
  | none => exact ⟨0, by simp, fun rest _ => by simp [FeatSt.init, idPart]⟩
  | some n =>
    have hn : n < 2^64 := hid n rfl
    refine ⟨1, by have := vfield_length 1 (n % 2^64); simp only [idPart]; omega, fun rest h => ?_⟩
    simp only [idPart]
    rw [Nat.mod_eq_of_lt hn, featLoop_id _ _ _ _ hn (by omega)]

theorem stage_tags (tags : List W) (hl : (optPacked 2 tags).length < 2^63) (fuel : Nat) :
    ∃ c, c ≤ (optPacked 2 tags).length ∧ ∀ rest st, st.tags = [] → c ≤ fuel →
      featLoop fuel (optPacked 2 tags ++ rest) st = featLoop (fuel - c) rest { st with tags := tags } := by
  by_cases ht : tags = []
  · subst ht
    exact ⟨0, by simp, fun rest st hst _ => by simp [← hst, optPacked]⟩
  · have hte : tags.isEmpty = false := by cases tags <;> simp_all
    have hlen := lenDelim_length 2 (packU32 tags)
    simp only [optPacked, hte, Bool.false_eq_true, if_false] at hl ⊢
    refine ⟨1, by omega, fun rest st hst h => ?_⟩
    rw [featLoop_tags _ _ _ _ hst (by omega) (by omega)]

theorem decodeFeatureMsg_encodeFeature (f : VTFeature) (hfit : featureFits f = true)
    (hl : (encodeFeature f).length < 2^63) : decodeFeatureMsg (encodeFeature f) = .ok f := by
  obtain ⟨id, tags, gtype, geometry⟩ := f
  simp only [featureFits, Bool.and_eq_true, decide_eq_true_eq] at hfit
  obtain ⟨hid, hg1, hg2⟩ := hfit
  have hid' : ∀ n, id = some n → n < 2^64 := by
    intro n hn; subst hn; simpa using hid
  have key : ∀ fuel, (encodeFeature ⟨id, tags, gtype, geometry⟩).length ≤ fuel →
      featLoop fuel (encodeFeature ⟨id, tags, gtype, geometry⟩) FeatSt.init =
        .ok ⟨id, tags, gtype, if geometry.isEmpty then none else some (packU32 geometry)⟩ := by
    intro fuel hfuel
    rw [encodeFeature_eq] at hfuel hl ⊢
    have hv3 := vfield_length 3 (u64OfInt gtype)
    simp only [List.length_append, List.length_nil] at hfuel hl
    obtain ⟨c1, hc1, e1⟩ := stage_id id hid' fuel
    rw [e1 _ (by omega)]
    obtain ⟨c2, hc2, e2⟩ := stage_tags tags (by omega) (fuel - c1)
    rw [e2 _ _ rfl (by omega)]
    rw [featLoop_type _ _ _ _ hg1 hg2 (by omega)]
    by_cases hgm : geometry = []
    · subst hgm
      simp [featLoop_nil, FeatSt.init, optPacked]
    · have hge : geometry.isEmpty = false := by cases geometry <;> simp_all
      have hlen := lenDelim_length 4 (packU32 geometry)
      have hgeo : optPacked 4 geometry = lenDelim 4 (packU32 geometry) := by simp [optPacked, hge]
      rw [hgeo] at hl hfuel ⊢
      rw [featLoop_geom _ _ _ _ (by omega) (by omega), featLoop_nil]
      simp [hge]
  unfold decodeFeatureMsg
  rw [key _ (Nat.le_refl _)]
  by_cases hgm : geometry = []
  · subst hgm; simp
  · have hge : geometry.isEmpty = false := by cases geometry <;> simp_all
    simp [hge, unpackU32_packU32]

/-! ### layers -/

theorem flatMap_length_mem {α : Type} (g : α → Bytes) (xs : List α) (x : α) (h : x ∈ xs) :
    (g x).length ≤ (xs.flatMap g).length := by
  induction xs with
  | nil => simp at h
  | cons y ys ih =>
    simp only [List.flatMap_cons, List.length_append]
    rcases List.mem_cons.1 h with h | h
    · subst h; omega
    · have := ih h; omega

theorem flatMap_lenDelim_length {α : Type} (fld : Nat) (g : α → Bytes) (xs : List α) :
    xs.length ≤ (xs.flatMap fun x => lenDelim fld (g x)).length := by
  induction xs with
  | nil => simp
  | cons y ys ih =>
    have := lenDelim_length fld (g y)
    simp only [List.flatMap_cons, List.length_append, List.length_cons]; omega

theorem layerLoop_nil (fuel : Nat) (st : LayerSt) : layerLoop fuel [] st = .ok st := by
  cases fuel <;> rfl

theorem layerLoop_name (fuel : Nat) (s : String) (rest : Bytes) (st : LayerSt)
    (hl : (utf8 s).length < 2^63) (hf : 0 < fuel) :
    layerLoop fuel (lenDelim 1 (utf8 s) ++ rest) st = layerLoop (fuel - 1) rest { st with name := s } := by
  cases fuel with
  | zero => omega
  | succ fuel => simp [lenDelim_1, layerLoop, key_0a, readString_utf8 _ _ hl]

theorem layerLoop_feat (fuel : Nat) (p rest : Bytes) (st : LayerSt) (hl : p.length < 2^63) (hf : 0 < fuel) :
    layerLoop fuel (lenDelim 2 p ++ rest) st = layerLoop (fuel - 1) rest { st with feats := st.feats ++ [p] } := by
  cases fuel with
  | zero => omega
  | succ fuel => simp [lenDelim_2, layerLoop, key_12, takeDelim_payload _ _ hl]

theorem layerLoop_key (fuel : Nat) (s : String) (rest : Bytes) (st : LayerSt)
    (hl : (utf8 s).length < 2^63) (hf : 0 < fuel) :
    layerLoop fuel (lenDelim 3 (utf8 s) ++ rest) st = layerLoop (fuel - 1) rest { st with keys := st.keys ++ [s] } := by
  cases fuel with
  | zero => omega
  | succ fuel => simp [lenDelim_3, layerLoop, key_1a, readString_utf8 _ _ hl]

theorem layerLoop_value (fuel : Nat) (v : TVal) (rest : Bytes) (st : LayerSt)
    (hv : valueFits v = true) (hl : (encodeValue v).length < 2^63) (hf : 0 < fuel) :
    layerLoop fuel (lenDelim 4 (encodeValue v) ++ rest) st =
      layerLoop (fuel - 1) rest { st with values := st.values ++ [v] } := by
  cases fuel with
  | zero => omega
  | succ fuel =>
    simp [lenDelim_4, layerLoop, key_22, takeDelim_payload _ _ hl, decodeValue_encodeValue v hv hl]

theorem layerLoop_extent (fuel e : Nat) (rest : Bytes) (st : LayerSt) (he : e < 2^32) (hf : 0 < fuel) :
    layerLoop fuel (vfield 5 e ++ rest) st = layerLoop (fuel - 1) rest { st with extent := e } := by
  cases fuel with
  | zero => omega
  | succ fuel => simp [vfield_5, layerLoop, key_28, varint32_encodeVarint _ _ he]

theorem layerLoop_version (fuel v : Nat) (rest : Bytes) (st : LayerSt) (hv : v < 2^32) (hf : 0 < fuel) :
    layerLoop fuel (vfield 15 v ++ rest) st = layerLoop (fuel - 1) rest { st with version := v } := by
  cases fuel with
  | zero => omega
  | succ fuel => simp [vfield_15, layerLoop, key_78, varint32_encodeVarint _ _ hv]

theorem layerLoop_feats (ps : List Bytes) (fuel : Nat) (rest : Bytes) (st : LayerSt)
    (hl : ∀ p ∈ ps, p.length < 2^63) (hf : ps.length ≤ fuel) :
    layerLoop fuel ((ps.flatMap fun p => lenDelim 2 p) ++ rest) st =
      layerLoop (fuel - ps.length) rest { st with feats := st.feats ++ ps } := by
  induction ps generalizing fuel st with
  | nil => simp
  | cons p ps ih =>
    simp only [List.flatMap_cons, List.append_assoc, List.length_cons] at hf ⊢
    rw [layerLoop_feat _ _ _ _ (hl p (by simp)) (by omega)]
    rw [ih _ _ (fun q hq => hl q (by simp [hq])) (by omega)]
    simp only [List.append_assoc, List.singleton_append]
    congr 1; omega

theorem layerLoop_keys (ks : List String) (fuel : Nat) (rest : Bytes) (st : LayerSt)
    (hl : ∀ k ∈ ks, (utf8 k).length < 2^63) (hf : ks.length ≤ fuel) :
    layerLoop fuel ((ks.flatMap fun k => lenDelim 3 (utf8 k)) ++ rest) st =
      layerLoop (fuel - ks.length) rest { st with keys := st.keys ++ ks } := by
  induction ks generalizing fuel st with
  | nil => simp
  | cons k ks ih =>
    simp only [List.flatMap_cons, List.append_assoc, List.length_cons] at hf ⊢
    rw [layerLoop_key _ _ _ _ (hl k (by simp)) (by omega)]
    rw [ih _ _ (fun q hq => hl q (by simp [hq])) (by omega)]
    simp only [List.append_assoc, List.singleton_append]
    congr 1; omega

theorem layerLoop_values (vs : List TVal) (fuel : Nat) (rest : Bytes) (st : LayerSt)
    (hv : ∀ v ∈ vs, valueFits v = true) (hl : ∀ v ∈ vs, (encodeValue v).length < 2^63)
    (hf : vs.length ≤ fuel) :
    layerLoop fuel ((vs.flatMap fun v => lenDelim 4 (encodeValue v)) ++ rest) st =
      layerLoop (fuel - vs.length) rest { st with values := st.values ++ vs } := by
  induction vs generalizing fuel st with
  | nil => simp
  | cons v vs ih =>
    simp only [List.flatMap_cons, List.append_assoc, List.length_cons] at hf ⊢
    rw [layerLoop_value _ _ _ _ (hv v (by simp)) (hl v (by simp)) (by omega)]
    rw [ih _ _ (fun q hq => hv q (by simp [hq])) (fun q hq => hl q (by simp [hq])) (by omega)]
    simp only [List.append_assoc, List.singleton_append]
    congr 1; omega

theorem decodeFeatureMsgs_map (fs : List VTFeature) (hf : ∀ f ∈ fs, featureFits f = true)
    (hl : ∀ f ∈ fs, (encodeFeature f).length < 2^63) :
    decodeFeatureMsgs (fs.map encodeFeature) = .ok fs := by
  induction fs with
  | nil => rfl
  | cons f fs ih =>
    simp only [List.map_cons, decodeFeatureMsgs]
    rw [decodeFeatureMsg_encodeFeature f (hf f (by simp)) (hl f (by simp))]
    simp only
    rw [ih (fun q hq => hf q (by simp [hq])) (fun q hq => hl q (by simp [hq]))]

theorem encodeLayer_eq (l : VTLayer) :
    encodeLayer l = lenDelim 1 (utf8 l.name) ++
      (((l.features.map encodeFeature).flatMap fun p => lenDelim 2 p) ++
      ((l.keys.flatMap fun k => lenDelim 3 (utf8 k)) ++
      ((l.values.flatMap fun v => lenDelim 4 (encodeValue v)) ++
      (vfield 5 (l.extent % 2^32) ++ (vfield 15 (l.version % 2^32) ++ []))))) := by
  simp [encodeLayer, List.append_assoc, List.flatMap_map]

theorem decodeLayerMsg_encodeLayer (l : VTLayer) (hfit : layerFits l = true)
    (hl : (encodeLayer l).length < 2^63) : decodeLayerMsg (encodeLayer l) = .ok l := by
  obtain ⟨name, version, extent, keys, values, features⟩ := l
  simp only [layerFits, Bool.and_eq_true, decide_eq_true_eq, List.all_eq_true] at hfit
  obtain ⟨⟨⟨hver, hext⟩, hvals⟩, hfeats⟩ := hfit
  have key : ∀ fuel, (encodeLayer ⟨name, version, extent, keys, values, features⟩).length ≤ fuel →
      layerLoop fuel (encodeLayer ⟨name, version, extent, keys, values, features⟩) LayerSt.init =
        .ok ⟨name, version, extent, keys, values, features.map encodeFeature⟩ := by
    intro fuel hfuel
    rw [encodeLayer_eq] at hfuel hl ⊢
    dsimp only at hfuel hl ⊢
    simp only [List.length_append, List.length_nil] at hfuel hl
    have h1 := lenDelim_length 1 (utf8 name)
    have h2 := flatMap_lenDelim_length 2 (fun p : Bytes => p) (features.map encodeFeature)
    have h3 := flatMap_lenDelim_length 3 utf8 keys
    have h4 := flatMap_lenDelim_length 4 encodeValue values
    have h5 := vfield_length 5 (extent % 2^32)
    have h6 := vfield_length 15 (version % 2^32)
    simp only [List.length_map] at h2
    have hfl : ∀ p ∈ features.map encodeFeature, p.length < 2^63 := by
      intro p hp
      have := flatMap_length_mem (fun p : Bytes => lenDelim 2 p) _ p hp
      have := lenDelim_length 2 p
      omega
    have hkl : ∀ k ∈ keys, (utf8 k).length < 2^63 := by
      intro k hk
      have := flatMap_length_mem (fun k => lenDelim 3 (utf8 k)) _ k hk
      have := lenDelim_length 3 (utf8 k)
      omega
    have hvl : ∀ v ∈ values, (encodeValue v).length < 2^63 := by
      intro v hv
      have := flatMap_length_mem (fun v => lenDelim 4 (encodeValue v)) _ v hv
      have := lenDelim_length 4 (encodeValue v)
      omega
    rw [layerLoop_name _ _ _ _ (by omega) (by omega)]
    rw [layerLoop_feats _ _ _ _ hfl (by simp only [List.length_map]; omega)]
    rw [layerLoop_keys _ _ _ _ hkl (by simp only [List.length_map]; omega)]
    rw [layerLoop_values _ _ _ _ hvals hvl (by simp only [List.length_map]; omega)]
    rw [Nat.mod_eq_of_lt hext, Nat.mod_eq_of_lt hver] at *
    rw [layerLoop_extent _ _ _ _ hext (by simp only [List.length_map]; omega)]
    rw [layerLoop_version _ _ _ _ hver (by simp only [List.length_map]; omega)]
    rw [layerLoop_nil]
    simp [LayerSt.init]
  unfold decodeLayerMsg
  rw [key _ (Nat.le_refl _)]
  dsimp only
  have hfl : ∀ f ∈ features, (encodeFeature f).length < 2^63 := by
    intro f hf
    rw [encodeLayer_eq] at hl
    dsimp only at hl
    simp only [List.length_append] at hl
    have := flatMap_length_mem (fun p : Bytes => lenDelim 2 p) (features.map encodeFeature) (encodeFeature f)
      (List.mem_map_of_mem hf)
    have := lenDelim_length 2 (encodeFeature f)
    omega
  rw [decodeFeatureMsgs_map features hfeats hfl]

/-! ### tiles -/

theorem tileLoop_nil (fuel : Nat) (acc : List VTLayer) : tileLoop fuel [] acc = .ok acc := by
  cases fuel <;> rfl

theorem tileLoop_layer (fuel : Nat) (l : VTLayer) (rest : Bytes) (acc : List VTLayer)
    (hfit : layerFits l = true) (hl : (encodeLayer l).length < 2^63) (hf : 0 < fuel) :
    tileLoop fuel (lenDelim 3 (encodeLayer l) ++ rest) acc = tileLoop (fuel - 1) rest (acc ++ [l]) := by
  cases fuel with
  | zero => omega
  | succ fuel =>
    simp [lenDelim_3, tileLoop, key_1a, takeDelim_payload _ _ hl, decodeLayerMsg_encodeLayer l hfit hl]

theorem tileLoop_layers (ls : List VTLayer) (fuel : Nat) (acc : List VTLayer)
    (hfit : ∀ l ∈ ls, layerFits l = true) (hl : ∀ l ∈ ls, (encodeLayer l).length < 2^63)
    (hf : ls.length ≤ fuel) :
    tileLoop fuel (encodeTile ls) acc = .ok (acc ++ ls) := by
  induction ls generalizing fuel acc with
  | nil => simp [encodeTile, tileLoop_nil]
  | cons l ls ih =>
    simp only [encodeTile, List.flatMap_cons, List.length_cons] at hf ⊢
    rw [tileLoop_layer _ _ _ _ (hfit l (by simp)) (hl l (by simp)) (by omega)]
    have := ih (fuel - 1) (acc ++ [l]) (fun q hq => hfit q (by simp [hq])) (fun q hq => hl q (by simp [hq])) (by omega)
    simp only [encodeTile] at this
    rw [this]
    simp

/-- `decodeTile ∘ encodeTile = id` on well-formed tile structures. -/
theorem decodeTile_encodeTile' (t : VTTile) (h : WFTile t) : decodeTile (encodeTile t) = .ok t := by
  obtain ⟨hfit, hlen⟩ := h
  simp only [tileFits, List.all_eq_true] at hfit
  have hl : ∀ l ∈ t, (encodeLayer l).length < 2^63 := by
    intro l hm
    have := flatMap_length_mem (fun l => lenDelim 3 (encodeLayer l)) t l hm
    have := lenDelim_length 3 (encodeLayer l)
    simp only [encodeTile] at hlen
    omega
  have hle : t.length ≤ (encodeTile t).length := flatMap_lenDelim_length 3 encodeLayer t
  unfold decodeTile
  rw [tileLoop_layers t _ [] hfit hl hle]
  simp

end Orb.ProtoWire
